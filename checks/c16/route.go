// C16 part W: the liaison's write-path shard computation (banyand/liaison/grpc measure.go, stream.go, trace.go,
// discovery.go, locator.go). The real measureService/streamService/traceService.Write loops are run over scripted
// in-memory gRPC streams (inpkg/banyand/liaison/grpc/c16.go); schemas and groups reach the liaison through the handlers
// it registers with the (fake) metadata repo. Every enumerated write must be published exactly once with
//
//	shard == xxhash(marshal(resource name) ++ marshal(sharding-key-or-entity values)) mod shardNum   (measure, stream)
//	shard == xxhash(trace id) mod shardNum                                                            (trace)
//
// computed here from the values BY TAG NAME, whatever the request layout (no spec / spec in any family and tag order /
// spec inherited from earlier requests of the stream / metadata switch) and whatever the schema history.
package main

import (
	"fmt"
	"os"
	"runtime/debug"
	"sort"
	"strings"
	"time"

	"github.com/cespare/xxhash/v2"
	"google.golang.org/protobuf/proto"
	"google.golang.org/protobuf/types/known/timestamppb"

	commonv1 "github.com/apache/skywalking-banyandb/api/proto/banyandb/common/v1"
	databasev1 "github.com/apache/skywalking-banyandb/api/proto/banyandb/database/v1"
	measurev1 "github.com/apache/skywalking-banyandb/api/proto/banyandb/measure/v1"
	modelv1 "github.com/apache/skywalking-banyandb/api/proto/banyandb/model/v1"
	streamv1 "github.com/apache/skywalking-banyandb/api/proto/banyandb/stream/v1"
	tracev1 "github.com/apache/skywalking-banyandb/api/proto/banyandb/trace/v1"
	lgrpc "github.com/apache/skywalking-banyandb/banyand/liaison/grpc"
	"github.com/apache/skywalking-banyandb/banyand/metadata"
	"github.com/apache/skywalking-banyandb/banyand/metadata/schema"
	pbv1 "github.com/apache/skywalking-banyandb/pkg/pb/v1"
	"github.com/apache/skywalking-banyandb/pkg/verif/ev"
)

const (
	kMeasure = 0
	kStream  = 1
	kTrace   = 2
)

var kindNames = [3]string{"measure", "stream", "trace"}

type wFam struct {
	Name string
	Tags []string
}

// wSchema describes one resource. Trace: one pseudo family holding the flat tag list, Entity = [trace id tag].
type wSchema struct {
	Name     string
	Fams     []wFam
	Entity   []string
	ShardKey []string
	Kind     int
}

func (s *wSchema) String() string {
	var f []string
	for _, x := range s.Fams {
		f = append(f, x.Name+"["+strings.Join(x.Tags, ",")+"]")
	}
	out := fmt.Sprintf("%s %s %s entity(%s)", kindNames[s.Kind], s.Name, strings.Join(f, " "), strings.Join(s.Entity, ","))
	if s.Kind == kMeasure {
		out += " sharding_key(" + strings.Join(s.ShardKey, ",") + ")"
	}
	return out
}

// wLayout is how a request carries its tags: Spec=false -> schema order, no spec message.
type wLayout struct {
	Fams []wFam
	Spec bool
}

func (l wLayout) String() string {
	if !l.Spec {
		return "no-spec"
	}
	var f []string
	for _, x := range l.Fams {
		f = append(f, x.Name+"["+strings.Join(x.Tags, ",")+"]")
	}
	return "spec " + strings.Join(f, " ")
}

func perms(a []string) [][]string {
	if len(a) <= 1 {
		return [][]string{append([]string(nil), a...)}
	}
	var out [][]string
	for i := range a {
		rest := append(append([]string(nil), a[:i]...), a[i+1:]...)
		for _, p := range perms(rest) {
			out = append(out, append([]string{a[i]}, p...))
		}
	}
	return out
}

// layoutsOf: index 0 = no spec; then every permutation of the family order x every permutation of the tag order inside
// each family (the identity, i.e. a spec in schema order, is among them).
func layoutsOf(s *wSchema) []wLayout {
	out := []wLayout{{Fams: s.Fams, Spec: false}}
	var famIdx []string
	for i := range s.Fams {
		famIdx = append(famIdx, fmt.Sprint(i))
	}
	for _, fo := range perms(famIdx) {
		cur := [][]wFam{{}}
		for _, fis := range fo {
			var fi int
			fmt.Sscan(fis, &fi)
			var next [][]wFam
			for _, tp := range perms(s.Fams[fi].Tags) {
				for _, c := range cur {
					next = append(next, append(append([]wFam(nil), c...), wFam{Name: s.Fams[fi].Name, Tags: tp}))
				}
			}
			cur = next
		}
		for _, c := range cur {
			out = append(out, wLayout{Fams: c, Spec: true})
		}
	}
	return out
}

var (
	famLayouts = [][]wFam{
		{{"f1", []string{"a", "b", "c"}}},
		{{"f1", []string{"a", "c"}}, {"f2", []string{"b"}}},
		{{"f1", []string{"c"}}, {"f2", []string{"b", "a"}}},
	}
	entities  = [][]string{{"a"}, {"a", "b"}, {"b", "a"}}
	shardKeys = [][]string{nil, {"b"}, {"c"}, {"b", "a"}, {"c", "a"}}
	traceTags = [][]string{{"tid", "ts", "x"}, {"x", "ts", "tid"}, {"ts", "x", "tid"}}
)

func schemasOf(kind int, name string) []*wSchema {
	var out []*wSchema
	switch kind {
	case kMeasure:
		for _, f := range famLayouts {
			for _, e := range entities {
				for _, k := range shardKeys {
					out = append(out, &wSchema{Kind: kind, Name: name, Fams: f, Entity: e, ShardKey: k})
				}
			}
		}
	case kStream:
		for _, f := range famLayouts {
			for _, e := range entities {
				out = append(out, &wSchema{Kind: kind, Name: name, Fams: f, Entity: e})
			}
		}
	case kTrace:
		for _, t := range traceTags {
			out = append(out, &wSchema{Kind: kind, Name: name, Fams: []wFam{{"", t}}, Entity: []string{"tid"}})
		}
	}
	return out
}

// the "other" resource of the metadata-switch scenarios (different name, different entity / sharding key / tag order)
func othersOf(kind int) []*wSchema {
	switch kind {
	case kMeasure:
		return []*wSchema{
			{Kind: kind, Name: "r2", Fams: famLayouts[0], Entity: []string{"b"}},
			{Kind: kind, Name: "r2", Fams: famLayouts[1], Entity: []string{"b", "a"}, ShardKey: []string{"c"}},
			{Kind: kind, Name: "r2", Fams: famLayouts[0], Entity: []string{"a"}, ShardKey: []string{"b"}},
		}
	case kStream:
		return []*wSchema{
			{Kind: kind, Name: "r2", Fams: famLayouts[0], Entity: []string{"b"}},
			{Kind: kind, Name: "r2", Fams: famLayouts[1], Entity: []string{"b", "a"}},
			{Kind: kind, Name: "r2", Fams: famLayouts[2], Entity: []string{"a"}},
		}
	}
	return []*wSchema{
		{Kind: kind, Name: "r2", Fams: []wFam{{"", []string{"x", "tid", "ts"}}}, Entity: []string{"tid"}},
		{Kind: kind, Name: "r2", Fams: []wFam{{"", []string{"tid", "x", "ts"}}}, Entity: []string{"tid"}},
	}
}

// ---- fake metadata repo: only collects the handlers the liaison registers
type routeRepo struct {
	metadata.Repo
	handlers map[schema.Kind][]schema.EventHandler
}

func (r *routeRepo) RegisterHandler(_ string, k schema.Kind, h schema.EventHandler) {
	r.handlers[k] = append(r.handlers[k], h)
}

func (r *routeRepo) put(k schema.Kind, name, group string, spec any) {
	for _, h := range r.handlers[k] {
		h.OnAddOrUpdate(schema.Metadata{TypeMeta: schema.TypeMeta{Kind: k, Name: name, Group: group}, Spec: spec})
	}
}

func (r *routeRepo) del(k schema.Kind, name, group string, spec any) {
	for _, h := range r.handlers[k] {
		h.OnDelete(schema.Metadata{TypeMeta: schema.TypeMeta{Kind: k, Name: name, Group: group}, Spec: spec})
	}
}

var schemaKinds = [3]schema.Kind{schema.KindMeasure, schema.KindStream, schema.KindTrace}

func groupName(n int) string { return fmt.Sprintf("w%d", n) }

func tagFamilySpecs(s *wSchema) []*databasev1.TagFamilySpec {
	var out []*databasev1.TagFamilySpec
	for _, f := range s.Fams {
		tf := &databasev1.TagFamilySpec{Name: f.Name}
		for _, t := range f.Tags {
			tf.Tags = append(tf.Tags, &databasev1.TagSpec{Name: t, Type: databasev1.TagType_TAG_TYPE_STRING})
		}
		out = append(out, tf)
	}
	return out
}

func schemaProto(s *wSchema, group string) any {
	md := &commonv1.Metadata{Name: s.Name, Group: group}
	switch s.Kind {
	case kMeasure:
		m := &databasev1.Measure{Metadata: md, TagFamilies: tagFamilySpecs(s), Entity: &databasev1.Entity{TagNames: s.Entity}}
		if len(s.ShardKey) > 0 {
			m.ShardingKey = &databasev1.ShardingKey{TagNames: s.ShardKey}
		}
		return m
	case kStream:
		return &databasev1.Stream{Metadata: md, TagFamilies: tagFamilySpecs(s), Entity: &databasev1.Entity{TagNames: s.Entity}}
	}
	t := &databasev1.Trace{Metadata: md, TraceIdTagName: "tid", TimestampTagName: "ts", SpanIdTagName: "x"}
	for _, n := range s.Fams[0].Tags {
		t.Tags = append(t.Tags, &databasev1.TraceTagSpec{Name: n, Type: databasev1.TagType_TAG_TYPE_STRING})
	}
	return t
}

type wLiaison struct {
	repo *routeRepo
	l    *lgrpc.VerifC16Liaison
}

func newWLiaison() *wLiaison {
	repo := &routeRepo{handlers: map[schema.Kind][]schema.EventHandler{}}
	w := &wLiaison{repo: repo, l: lgrpc.VerifC16NewLiaison(repo, lgrpc.NewLocalNodeRegistry())}
	for n := 1; n <= 5; n++ {
		g := &commonv1.Group{Metadata: &commonv1.Metadata{Name: groupName(n)}, Catalog: commonv1.Catalog_CATALOG_MEASURE,
			ResourceOpts: &commonv1.ResourceOpts{ShardNum: uint32(n)}}
		repo.put(schema.KindGroup, g.Metadata.Name, "", g)
	}
	return w
}

// putSchema / delSchema deliver the event for the resource in all five groups.
func (w *wLiaison) putSchema(s *wSchema) {
	for n := 1; n <= 5; n++ {
		w.repo.put(schemaKinds[s.Kind], s.Name, groupName(n), schemaProto(s, groupName(n)))
	}
}

func (w *wLiaison) delSchema(s *wSchema) {
	for n := 1; n <= 5; n++ {
		w.repo.del(schemaKinds[s.Kind], s.Name, groupName(n), schemaProto(s, groupName(n)))
	}
}

// ---- values
var wTS = timestamppb.New(time.UnixMilli(1700000000000))

func wValues() []tv {
	all := eAlphabet()
	idx := []int{0, 1, 4, 12, 21}
	if ev.Thorough() {
		idx = append(idx, 2, 18, 9)
	}
	var out []tv
	for _, i := range idx {
		out = append(out, all[i])
	}
	return out
}

func traceIDValues() []tv {
	all := eAlphabet()
	idx := []int{0, 1, 4, 2, 18, 17, 3}
	var out []tv
	for _, i := range idx {
		out = append(out, all[i])
	}
	return out
}

type wTuple map[string]*modelv1.TagValue

func tuplesOf(kind int) ([]wTuple, []string) {
	var out []wTuple
	var names []string
	vals := wValues()
	if kind == kTrace {
		for _, id := range traceIDValues() {
			for _, x := range vals {
				out = append(out, wTuple{"tid": id.v, "ts": {Value: &modelv1.TagValue_Timestamp{Timestamp: wTS}}, "x": x.v})
				names = append(names, "tid="+id.name+" x="+x.name)
			}
		}
		return out, names
	}
	for _, a := range vals {
		for _, b := range vals {
			for _, c := range vals {
				out = append(out, wTuple{"a": a.v, "b": b.v, "c": c.v})
				names = append(names, "a="+a.name+" b="+b.name+" c="+c.name)
			}
		}
	}
	return out, names
}

// ---- independent expectation: by tag NAME
func hashOf(name string, vals []*modelv1.TagValue) uint64 {
	b, _ := pbv1.MarshalTagValue(pbv1.EntityStrValue(name))
	buf := append([]byte(nil), b...)
	for _, v := range vals {
		vb, _ := pbv1.MarshalTagValue(v)
		buf = append(buf, vb...)
	}
	return xxhash.Sum64(buf)
}

func traceIDOf(v *modelv1.TagValue) (string, bool) {
	switch x := v.GetValue().(type) {
	case *modelv1.TagValue_Str:
		return x.Str.GetValue(), true
	case *modelv1.TagValue_BinaryData:
		return string(x.BinaryData), true
	}
	return "", false
}

func expectShard(s *wSchema, t wTuple, n int) uint32 {
	if s.Kind == kTrace {
		id, _ := traceIDOf(t["tid"])
		return uint32(xxhash.Sum64String(id) % uint64(n))
	}
	key := s.Entity
	if len(s.ShardKey) > 0 {
		key = s.ShardKey
	}
	var vals []*modelv1.TagValue
	for _, k := range key {
		vals = append(vals, t[k])
	}
	return uint32(hashOf(s.Name, vals) % uint64(n))
}

// ---- positional model, used only to CLASSIFY failures of the metadata-switch / schema-update scenarios
type wPos struct{ f, t int }

func resolve(schemaFams, in []wFam, tag string) wPos {
	for _, sf := range schemaFams {
		for _, st := range sf.Tags {
			if st != tag {
				continue
			}
			for fi, f := range in {
				if f.Name != sf.Name {
					continue
				}
				for ti, t := range f.Tags {
					if t == tag {
						return wPos{fi, ti}
					}
				}
				return wPos{-1, -1}
			}
			return wPos{-1, -1}
		}
	}
	return wPos{-1, -1}
}

var nullValue = &modelv1.TagValue{Value: &modelv1.TagValue_Null{}}

// readAt returns the value a request laid out as phys carries at position p (p<0: null, as specLocator does).
func readAt(phys []wFam, t wTuple, p wPos) (*modelv1.TagValue, bool) {
	if p.f < 0 || p.t < 0 {
		return nullValue, true
	}
	if p.f >= len(phys) || p.t >= len(phys[p.f].Tags) {
		return nil, false
	}
	return t[phys[p.f].Tags[p.t]], true
}

// positional: shard of subject `name` hashed from the values found at the positions of `tags`, resolved from
// schemaFams through `via`, in a request physically laid out as phys. ok=false: a position is out of range.
func positional(name string, schemaFams, via, phys []wFam, tags []string, t wTuple, n int) (uint32, bool) {
	var vals []*modelv1.TagValue
	for _, tag := range tags {
		v, ok := readAt(phys, t, resolve(schemaFams, via, tag))
		if !ok {
			return 0, false
		}
		vals = append(vals, v)
	}
	return uint32(hashOf(name, vals) % uint64(n)), true
}

// ---- request scripts
type wSegment struct {
	s        *wSchema
	layout   wLayout // physical layout of the requests of this segment
	sendSpec bool    // first request of the segment carries layout as spec
}

func famValues(phys []wFam, t wTuple) []*modelv1.TagFamilyForWrite {
	var out []*modelv1.TagFamilyForWrite
	for _, f := range phys {
		tf := &modelv1.TagFamilyForWrite{}
		for _, tag := range f.Tags {
			tf.Tags = append(tf.Tags, t[tag])
		}
		out = append(out, tf)
	}
	return out
}

// runScript sends, per segment, one request per tuple (ids are consecutive from 1) through the real Write loop.
func (w *wLiaison) runScript(kind, n int, segs []wSegment, tuples []wTuple) (map[uint64]lgrpc.VerifC16Published, map[uint64]int, map[uint64]string, error) {
	var pub []lgrpc.VerifC16Published
	var rep []lgrpc.VerifC16Reply
	var err error
	id := uint64(0)
	switch kind {
	case kMeasure:
		var reqs []*measurev1.WriteRequest
		for _, sg := range segs {
			for i, t := range tuples {
				id++
				r := &measurev1.WriteRequest{MessageId: id, DataPoint: &measurev1.DataPointValue{Timestamp: wTS, TagFamilies: famValues(sg.layout.Fams, t)}}
				if i == 0 {
					r.Metadata = &commonv1.Metadata{Name: sg.s.Name, Group: groupName(n)}
					if sg.sendSpec {
						r.DataPointSpec = &measurev1.DataPointSpec{}
						for _, f := range sg.layout.Fams {
							r.DataPointSpec.TagFamilySpec = append(r.DataPointSpec.TagFamilySpec, &measurev1.TagFamilySpec{Name: f.Name, TagNames: f.Tags})
						}
					}
				}
				reqs = append(reqs, r)
			}
		}
		pub, rep, err = w.l.WriteMeasure(reqs)
	case kStream:
		var reqs []*streamv1.WriteRequest
		for _, sg := range segs {
			for i, t := range tuples {
				id++
				r := &streamv1.WriteRequest{MessageId: id, Element: &streamv1.ElementValue{ElementId: fmt.Sprint(id), Timestamp: wTS, TagFamilies: famValues(sg.layout.Fams, t)}}
				if i == 0 {
					r.Metadata = &commonv1.Metadata{Name: sg.s.Name, Group: groupName(n)}
					if sg.sendSpec {
						for _, f := range sg.layout.Fams {
							r.TagFamilySpec = append(r.TagFamilySpec, &streamv1.TagFamilySpec{Name: f.Name, TagNames: f.Tags})
						}
					}
				}
				reqs = append(reqs, r)
			}
		}
		pub, rep, err = w.l.WriteStream(reqs)
	case kTrace:
		var reqs []*tracev1.WriteRequest
		for _, sg := range segs {
			for i, t := range tuples {
				id++
				r := &tracev1.WriteRequest{Version: id, Tags: famValues(sg.layout.Fams, t)[0].Tags, Span: []byte{1}}
				if i == 0 {
					r.Metadata = &commonv1.Metadata{Name: sg.s.Name, Group: groupName(n)}
					if sg.sendSpec {
						r.TagSpec = &tracev1.TagSpec{TagNames: sg.layout.Fams[0].Tags}
					}
				}
				reqs = append(reqs, r)
			}
		}
		pub, rep, err = w.l.WriteTrace(reqs)
	}
	byID := map[uint64]lgrpc.VerifC16Published{}
	count := map[uint64]int{}
	for _, p := range pub {
		byID[p.ID] = p
		count[p.ID]++
	}
	status := map[uint64]string{}
	for _, r := range rep {
		status[r.ID] = r.Status
	}
	return byID, count, status, err
}

// ---- cases
type wCase struct {
	Scenario string `json:"scenario"` // single | update | switch
	Kind     int    `json:"kind"`
	Schema   int    `json:"schema"`
	Prior    int    `json:"prior"` // update: index into shardKeys of the earlier version
	Hist     int    `json:"hist"`  // update: 1 put(prior) put(final); 2 ..del(final) put(final); 3 put(prior) del(prior) put(final)
	Other    int    `json:"other"` // switch: index into othersOf(kind)
	L1       int    `json:"l1"`    // layout index of the (first) segment
	L2       int    `json:"l2"`    // switch: layout index of the second segment; -1 = spec not re-sent, schema order
	Rev      bool   `json:"rev"`   // switch: other resource first
	N        int    `json:"n"`
}

type wFail struct {
	Key    string `json:"key"`
	Case   wCase  `json:"case"`
	Tuple  int    `json:"tuple"`
	Detail string `json:"detail"`
	Part   string `json:"part"`
	Count  int    `json:"count"`
}

type wStats struct {
	writes, cases, scripts                      int
	single, update, switched                    int
	keys                                        map[string]struct{}
	outcomes                                    map[[2]uint32]struct{}
	fails                                       map[string]*wFail
	failsN                                      map[string]int
	samples                                     []map[string]any
	layoutsSeen, schemasSeen, ambiguousAccepted int
	wall                                        float64
}

func (st *wStats) fail(key string, c wCase, tuple int, detail string) {
	st.failsN[key]++
	if _, ok := st.fails[key]; !ok {
		st.fails[key] = &wFail{Key: key, Case: c, Tuple: tuple, Detail: detail, Part: "W"}
	}
}

// setup builds the liaison state for a case (everything except layouts and n).
func setupCase(c wCase) (*wLiaison, *wSchema, *wSchema, *wSchema) {
	w := newWLiaison()
	s := schemasOf(c.Kind, "r1")[c.Schema]
	var prior, other *wSchema
	switch c.Scenario {
	case "single":
		w.putSchema(s)
	case "update":
		p := *s
		p.ShardKey = shardKeys[c.Prior]
		prior = &p
		w.putSchema(prior)
		switch c.Hist {
		case 1:
			w.putSchema(s)
		case 2:
			w.putSchema(s)
			w.delSchema(s)
			w.putSchema(s)
		case 3:
			w.delSchema(prior)
			w.putSchema(s)
		}
	case "switch":
		other = othersOf(c.Kind)[c.Other]
		w.putSchema(s)
		w.putSchema(other)
	}
	return w, s, prior, other
}

// judge checks the published records of one segment.
func judge(st *wStats, c wCase, scen string, sg wSegment, base uint64, tuples []wTuple, names []string,
	byID map[uint64]lgrpc.VerifC16Published, count map[uint64]int, status map[uint64]string,
	classify func(t wTuple, got uint32, published bool) (accept bool, key string),
) {
	for i, t := range tuples {
		id := base + uint64(i) + 1
		st.writes++
		want := expectShard(sg.s, t, c.N)
		p, ok := byID[id]
		key, detail := "", ""
		switch {
		case count[id] > 1:
			key, detail = "published-twice", fmt.Sprint(count[id])
		case !ok:
			key, detail = "not-published", "status="+status[id]
		case p.ShardID >= uint32(c.N):
			key, detail = "out-of-range", fmt.Sprint(p.ShardID)
		case p.ShardID != want:
			key, detail = "wrong-shard", fmt.Sprintf("got %d want %d", p.ShardID, want)
		case status[id] != modelv1.Status_STATUS_SUCCEED.String():
			key, detail = "bad-status", status[id]
		}
		if key == "" && sg.s.Kind != kTrace {
			okv := len(p.EntityValues) == len(sg.s.Entity)
			for j := 0; okv && j < len(sg.s.Entity); j++ {
				okv = proto.Equal(p.EntityValues[j], t[sg.s.Entity[j]])
			}
			if !okv {
				key, detail = "wrong-entity-values", fmt.Sprint(p.EntityValues)
			}
		}
		if key != "" && classify != nil && (key == "wrong-shard" || key == "not-published" || key == "wrong-entity-values") {
			accept, k := classify(t, p.ShardID, ok)
			if accept {
				st.ambiguousAccepted++
				key = ""
			} else if k != "" {
				st.fail(k, c, i, fmt.Sprintf("%s: %s | %s | %s | n=%d | %s", key, detail, sg.s, sg.layout, c.N, names[i]))
				continue
			}
		}
		if key != "" {
			st.fail(fmt.Sprintf("W/%s/%s/%s", kindNames[c.Kind], scen, key), c, i, fmt.Sprintf("%s | %s | %s | n=%d | %s", detail, sg.s, sg.layout, c.N, names[i]))
			continue
		}
		if ok {
			st.outcomes[[2]uint32{uint32(c.N), p.ShardID}] = struct{}{}
		}
	}
}

// runCase executes one case (all tuples) on a prepared liaison.
func runCase(st *wStats, w *wLiaison, c wCase, s, prior, other *wSchema, tuples []wTuple, names []string) {
	st.cases++
	switch c.Scenario {
	case "single", "update":
		l1 := layoutsOf(s)[c.L1]
		// one gRPC stream: only the first request carries metadata (and the spec); all later requests inherit both
		// ("use the existing spec declaration from previous requests").
		seg := wSegment{s: s, layout: l1, sendSpec: l1.Spec}
		byID, count, status, err := w.runScript(c.Kind, c.N, []wSegment{seg}, tuples)
		st.scripts++
		if err != nil {
			st.fail(fmt.Sprintf("W/%s/%s/write-error", kindNames[c.Kind], c.Scenario), c, -1, err.Error())
			return
		}
		var classify func(t wTuple, got uint32, published bool) (bool, string)
		if c.Scenario == "update" && len(s.ShardKey) == 0 && len(prior.ShardKey) > 0 {
			// known-defect candidate: shardingKeyRepo keeps the locator of the earlier version when an update removes
			// the sharding key; it is then applied by position to whatever layout the request has.
			classify = func(t wTuple, got uint32, published bool) (bool, string) {
				stale, ok := positional(s.Name, s.Fams, s.Fams, l1.Fams, prior.ShardKey, t, c.N)
				if (published && ok && got == stale) || (!published && !ok) {
					return false, "W/measure/update/removed-sharding-key-still-applied"
				}
				return false, ""
			}
		}
		judge(st, c, c.Scenario, seg, 0, tuples, names, byID, count, status, classify)
	case "switch":
		first, second := s, other
		if c.Rev {
			first, second = other, s
		}
		fl := layoutsOf(first)[c.L1]
		seg1 := wSegment{s: first, layout: fl, sendSpec: fl.Spec}
		var seg2 wSegment
		if c.L2 >= 0 {
			sl := layoutsOf(second)[c.L2]
			seg2 = wSegment{s: second, layout: sl, sendSpec: sl.Spec}
		} else {
			seg2 = wSegment{s: second, layout: wLayout{Fams: second.Fams}, sendSpec: false}
		}
		byID, count, status, err := w.runScript(c.Kind, c.N, []wSegment{seg1, seg2}, tuples)
		st.scripts++
		if err != nil {
			st.fail(fmt.Sprintf("W/%s/switch/write-error", kindNames[c.Kind]), c, -1, err.Error())
			return
		}
		judge(st, c, "switch", seg1, 0, tuples, names, byID, count, status, nil)
		var classify func(t wTuple, got uint32, published bool) (bool, string)
		if !seg2.sendSpec && fl.Spec {
			// New metadata without a spec while an earlier request of the stream declared one. The API text allows two
			// readings ("if this is not set with the indicated metadata, use the schema definition" / "use the existing
			// spec declaration from previous requests"): A = schema order (what `want` assumes, the request is laid out
			// that way), B = the earlier spec re-resolved BY NAME against the new resource. Either is accepted. What
			// the code does for measure and stream is neither: it keeps the spec LOCATORS built for the previous
			// resource (its entity / sharding-key tag names).
			key2 := second.Entity
			if len(second.ShardKey) > 0 {
				key2 = second.ShardKey
			}
			classify = func(t wTuple, got uint32, published bool) (bool, string) {
				b, okB := positional(second.Name, second.Fams, fl.Fams, seg2.layout.Fams, key2, t, c.N)
				if (published && okB && got == b) || (!published && !okB) {
					return true, ""
				}
				if second.Kind == kTrace {
					return false, ""
				}
				// stale model: entity locator of `first` through its spec; sharding-key locator of `first` through its
				// spec if it has one, else the schema-offset sharding-key locator of `second`
				var stale uint32
				var okS bool
				switch {
				case len(first.ShardKey) > 0:
					stale, okS = positional(second.Name, first.Fams, fl.Fams, seg2.layout.Fams, first.ShardKey, t, c.N)
				case len(second.ShardKey) > 0:
					stale, okS = positional(second.Name, second.Fams, second.Fams, seg2.layout.Fams, second.ShardKey, t, c.N)
				default:
					stale, okS = positional(second.Name, first.Fams, fl.Fams, seg2.layout.Fams, first.Entity, t, c.N)
				}
				_, okE := positional(second.Name, first.Fams, fl.Fams, seg2.layout.Fams, first.Entity, t, c.N)
				if (published && okS && okE && got == stale) || (!published && (!okS || !okE)) {
					return false, fmt.Sprintf("W/%s/switch/spec-locator-of-previous-resource-kept", kindNames[second.Kind])
				}
				return false, ""
			}
		}
		judge(st, c, "switch", seg2, uint64(len(tuples)), tuples, names, byID, count, status, classify)
	}
}

func enumerateW(st *wStats) {
	for kind := 0; kind < 3; kind++ {
		tuples, names := tuplesOf(kind)
		few := tuples
		fewNames := names
		if len(few) > 27 {
			// update/switch scenarios: every 5th tuple
			few, fewNames = nil, nil
			for i := 0; i < len(tuples); i += 5 {
				few = append(few, tuples[i])
				fewNames = append(fewNames, names[i])
			}
		}
		schemas := schemasOf(kind, "r1")
		st.schemasSeen += len(schemas)
		for si, s := range schemas {
			nl := len(layoutsOf(s))
			st.layoutsSeen += nl
			// single
			w, _, _, _ := setupCase(wCase{Scenario: "single", Kind: kind, Schema: si})
			for l := 0; l < nl; l++ {
				for n := 1; n <= 5; n++ {
					c := wCase{Scenario: "single", Kind: kind, Schema: si, L1: l, N: n, L2: -1}
					runCase(st, w, c, s, nil, nil, tuples, names)
					st.single++
					if si == 7 && l == 2 && n == 3 && len(st.samples) < 6 {
						st.samples = append(st.samples, map[string]any{"part": "W", "scenario": "single", "resource": s.String(), "layout": layoutsOf(s)[l].String(),
							"shard_num": n, "writes": len(tuples), "first_write": names[1], "expected_shard_of_first_write": expectShard(s, tuples[1], n)})
					}
				}
			}
			// update (measure only: the sharding key is the only placement-relevant part an update may change)
			if kind == kMeasure {
				for pi := range shardKeys {
					if strings.Join(shardKeys[pi], ",") == strings.Join(s.ShardKey, ",") {
						continue
					}
					for h := 1; h <= 3; h++ {
						w, _, prior, _ := setupCase(wCase{Scenario: "update", Kind: kind, Schema: si, Prior: pi, Hist: h})
						for _, l := range []int{0, 1, nl - 1} {
							for _, n := range []int{2, 5} {
								c := wCase{Scenario: "update", Kind: kind, Schema: si, Prior: pi, Hist: h, L1: l, N: n, L2: -1}
								runCase(st, w, c, s, prior, nil, few, fewNames)
								st.update++
							}
						}
					}
				}
			}
			// switch
			for oi, o := range othersOf(kind) {
				w, _, _, _ := setupCase(wCase{Scenario: "switch", Kind: kind, Schema: si, Other: oi})
				for _, rev := range []bool{false, true} {
					first, second := s, o
					if rev {
						first, second = o, s
					}
					n1, n2 := len(layoutsOf(first)), len(layoutsOf(second))
					for l1 := 0; l1 < n1; l1++ {
						for l2 := -1; l2 < n2; l2++ {
							if l2 == 0 {
								continue // -1 already is "no spec, schema order"
							}
							c := wCase{Scenario: "switch", Kind: kind, Schema: si, Other: oi, L1: l1, L2: l2, Rev: rev, N: 3}
							runCase(st, w, c, s, nil, o, few, fewNames)
							st.switched++
						}
					}
				}
			}
		}
	}
}

func newWStats() *wStats {
	return &wStats{keys: map[string]struct{}{}, outcomes: map[[2]uint32]struct{}{}, fails: map[string]*wFail{}, failsN: map[string]int{}}
}

func runPartW() (st *wStats) {
	st = newWStats()
	t0 := time.Now()
	defer func() { st.wall = time.Since(t0).Seconds() }()
	defer func() {
		if p := recover(); p != nil {
			st.fail("W/panic", wCase{}, -1, fmt.Sprintf("%v\n%s", p, debug.Stack()))
		}
	}()
	enumerateW(st)
	return st
}

func reportPartW(r *ev.Run, st *wStats) {
	r.Set("W_writes_through_real_Write_loops", st.writes)
	r.Set("W_cases(schema history x layout(s) x shard count)", st.cases)
	r.Set("W_cases_by_scenario", map[string]int{"single": st.single, "update": st.update, "switch": st.switched})
	r.Set("W_wall_s(runs concurrently with the part-O workers)", st.wall)
	r.Set("W_schemas", st.schemasSeen)
	r.Set("W_request_layouts(sum over schemas)", st.layoutsSeen)
	r.Set("W_distinct_outcomes(shard count, shard id)", len(st.outcomes))
	r.Set("W_ambiguous_switch_writes_accepted_under_reading_B", st.ambiguousAccepted)
	for _, s := range st.samples {
		r.Sample(s)
	}
	keys := make([]string, 0, len(st.fails))
	for k := range st.fails {
		keys = append(keys, k)
	}
	sort.Strings(keys)
	classes := map[string]any{}
	for _, k := range keys {
		f := st.fails[k]
		f.Count = st.failsN[k]
		classes[k] = map[string]any{"writes": f.Count, "first": f.Detail}
		r.Violation(k, f)
	}
	if len(classes) > 0 {
		r.Set("W_failure_classes", classes)
	}
	if len(st.outcomes) != 15 && len(keys) == 0 {
		harnessErr(fmt.Sprintf("part W produced only %d of 15 (shard count, shard id) outcomes", len(st.outcomes)))
	}
}

// replayW re-executes one recorded case.
func replayW(f wFail) {
	st := newWStats()
	c := f.Case
	tuples, names := tuplesOf(c.Kind)
	if c.Scenario != "single" && len(tuples) > 27 {
		var few []wTuple
		var fewNames []string
		for i := 0; i < len(tuples); i += 5 {
			few = append(few, tuples[i])
			fewNames = append(fewNames, names[i])
		}
		tuples, names = few, fewNames
	}
	w, s, prior, other := setupCase(c)
	runCase(st, w, c, s, prior, other, tuples, names)
	fmt.Printf("replay W %+v\n  resource: %s\n", c, s)
	if other != nil {
		fmt.Printf("  other   : %s\n", other)
	}
	if prior != nil {
		fmt.Printf("  earlier version: %s\n", prior)
	}
	keys := make([]string, 0, len(st.fails))
	for k := range st.fails {
		keys = append(keys, k)
	}
	sort.Strings(keys)
	for _, k := range keys {
		fmt.Printf("  FAIL %s (%d writes), first: %s\n", k, st.failsN[k], st.fails[k].Detail)
	}
	if len(keys) > 0 {
		os.Exit(1)
	}
	fmt.Printf("  no failure (%d writes)\n", st.writes)
	os.Exit(0)
}
