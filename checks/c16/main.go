// C16: shard and node placement is deterministic and replica-disjoint.
//
// Part E (bounded exhaustive enumeration): every (subject, entity tuple) over a delimiter/escape alphabet x shard
// counts 0..5 through the real partition.ShardID / TraceShardID / Locator.Locate / ApplyLocators, with independently
// built locators over different physical tag layouts and ModRevisions, against hash(marshal(entity)) mod n.
//
// Part O (explicit-state search, every history executed on a fresh real instance): every sequence of
// add/update/delete-group, OnInit, add/remove-node events (with repetition) up to a depth bound, driven through the
// production call path  liaison/grpc.clusterNodeService -> node.roundRobinSelector ; the full Pick table of the final
// state is compared with the table of the canonical history of the same final topology, and checked for totality
// over live nodes and replica disjointness.
package main

import (
	"context"
	"encoding/hex"
	"encoding/json"
	"fmt"
	"math"
	"os"
	"runtime/pprof"
	"sort"
	"strings"
	"time"

	"github.com/cespare/xxhash/v2"
	"google.golang.org/protobuf/proto"

	"github.com/apache/skywalking-banyandb/api/data"
	commonv1 "github.com/apache/skywalking-banyandb/api/proto/banyandb/common/v1"
	databasev1 "github.com/apache/skywalking-banyandb/api/proto/banyandb/database/v1"
	modelv1 "github.com/apache/skywalking-banyandb/api/proto/banyandb/model/v1"
	lgrpc "github.com/apache/skywalking-banyandb/banyand/liaison/grpc"
	"github.com/apache/skywalking-banyandb/banyand/metadata"
	"github.com/apache/skywalking-banyandb/banyand/metadata/schema"
	"github.com/apache/skywalking-banyandb/banyand/queue"
	"github.com/apache/skywalking-banyandb/banyand/queue/pub"
	"github.com/apache/skywalking-banyandb/pkg/bus"
	"github.com/apache/skywalking-banyandb/pkg/logger"
	"github.com/apache/skywalking-banyandb/pkg/node"
	"github.com/apache/skywalking-banyandb/pkg/partition"
	pbv1 "github.com/apache/skywalking-banyandb/pkg/pb/v1"
	"github.com/apache/skywalking-banyandb/pkg/verif/ev"
	"github.com/apache/skywalking-banyandb/pkg/verif/par"
)

// =====================================================================================================================
// Part O: model
// =====================================================================================================================

const (
	nGroups    = 3
	nNodes     = 3
	probeShard = 4 // shards 0..3 are probed for every group (max real shard count is 3)
	probeRepl  = 3 // replicas 0..2
	tableLen   = nGroups * probeShard * probeRepl

	cellNoNodes = 0xE0
	cellUnknown = 0xE1
	cellOtherE  = 0xEF
	cellAlien   = 0x7F // a name that is none of n1..n3
)

var (
	groupNames = [nGroups]string{"g1", "g2", "g3"}
	nodeNames  = [nNodes]string{"n1", "n2", "n3"}
	// variant 0 = absent, 1 = A, 2 = B
	groupShards   = [nGroups][3]int{{0, 2, 1}, {0, 3, 0}, {0, 1, 2}}
	groupReplicas = [nGroups][3]int{{0, 1, 2}, {0, 0, 0}, {0, 2, 0}}
	groupVariants = [nGroups]int{2, 1, 2} // number of variants besides "absent"
)

type table [tableLen]byte

func cell(g, s, r int) int { return (g*probeShard+s)*probeRepl + r }

type evKind uint8

const (
	evAddNode evKind = iota
	evRemoveNode
	evPutGroup
	evDelGroup
	evInitAsc
	evInitDesc
)

type event struct {
	name    string
	kind    evKind
	idx     int // node or group index
	variant int // group variant for put
}

func alphabet() []event {
	var a []event
	for i := 0; i < nNodes; i++ {
		a = append(a, event{name: "+" + nodeNames[i], kind: evAddNode, idx: i})
	}
	for i := 0; i < nNodes; i++ {
		a = append(a, event{name: "-" + nodeNames[i], kind: evRemoveNode, idx: i})
	}
	for g := 0; g < nGroups; g++ {
		for v := 1; v <= groupVariants[g]; v++ {
			a = append(a, event{name: fmt.Sprintf("put:%s(%d,%d)", groupNames[g], groupShards[g][v], groupReplicas[g][v]), kind: evPutGroup, idx: g, variant: v})
		}
	}
	for g := 0; g < nGroups; g++ {
		a = append(a, event{name: "del:" + groupNames[g], kind: evDelGroup, idx: g})
	}
	a = append(a, event{name: "init<", kind: evInitAsc}, event{name: "init>", kind: evInitDesc})
	return a
}

// config = one way of constructing the selector.
type config struct {
	name string
	// selector expression for SetNodeSelector ("" = none); eligible = mask of nodes whose labels match
	labelSelector string
	eligible      uint8
}

var configs = []config{
	{name: "plain", labelSelector: "", eligible: 0b111},
	{name: "labels", labelSelector: "type=hot", eligible: 0b011},
}

var nodeLabels = [nNodes]map[string]string{{"type": "hot"}, {"type": "hot", "zone": "a"}, {"type": "cold"}}

// mstate is the reference state: the final topology (set semantics) plus the multiset node list that models the
// suspected AddNode-without-dedup behaviour, used only to *classify* a failure as the known defect.
type mstate struct {
	g       [nGroups]int8
	live    uint8
	multi   [12]uint8
	nmulti  int
	tainted bool // some AddNode hit a node that was already live
}

func (m *mstate) apply(e event, c *config) {
	switch e.kind {
	case evAddNode:
		if c.eligible&(1<<e.idx) == 0 {
			return
		}
		if m.live&(1<<e.idx) != 0 {
			m.tainted = true
		}
		m.live |= 1 << e.idx
		// sorted insert (append + sort)
		i := m.nmulti
		for i > 0 && m.multi[i-1] > uint8(e.idx) {
			m.multi[i] = m.multi[i-1]
			i--
		}
		m.multi[i] = uint8(e.idx)
		m.nmulti++
	case evRemoveNode:
		m.live &^= 1 << e.idx
		for i := 0; i < m.nmulti; i++ {
			if m.multi[i] == uint8(e.idx) {
				copy(m.multi[i:m.nmulti], m.multi[i+1:m.nmulti])
				m.nmulti--
				break
			}
		}
	case evPutGroup:
		m.g[e.idx] = int8(e.variant)
	case evDelGroup:
		m.g[e.idx] = 0
	case evInitAsc, evInitDesc:
	}
}

func topoIndex(g [nGroups]int8, live uint8) int {
	return ((int(g[0])*3+int(g[1]))*3+int(g[2]))*8 + int(live)
}

const nTopo = 3 * 3 * 3 * 8

func liveList(live uint8) []uint8 {
	var l []uint8
	for i := 0; i < nNodes; i++ {
		if live&(1<<i) != 0 {
			l = append(l, uint8(i))
		}
	}
	return l
}

// modelTable is the mechanism stated in the property record: node = sortedNodes[(rank(group,shard)+replica) mod n]
// where rank is the position in the (group, shard)-sorted lookup table.
func modelTable(g [nGroups]int8, nodes []uint8) table {
	var t table
	base := 0
	for gi := 0; gi < nGroups; gi++ {
		sh := groupShards[gi][g[gi]]
		for s := 0; s < probeShard; s++ {
			for r := 0; r < probeRepl; r++ {
				c := cell(gi, s, r)
				switch {
				case len(nodes) == 0:
					t[c] = cellNoNodes
				case s >= sh:
					t[c] = cellUnknown
				default:
					t[c] = nodes[(base+s+r)%len(nodes)] + 1
				}
			}
		}
		base += sh
	}
	return t
}

// symptoms evaluates the property's own clauses on a table for a topology.
func symptoms(t table, g [nGroups]int8, live uint8) (unassigned, dead, coloc bool) {
	nl := len(liveList(live))
	for gi := 0; gi < nGroups; gi++ {
		sh := groupShards[gi][g[gi]]
		rp := groupReplicas[gi][g[gi]]
		for s := 0; s < sh; s++ {
			var seen uint8
			for r := 0; r <= rp; r++ {
				v := t[cell(gi, s, r)]
				if v >= 1 && v <= nNodes {
					bit := uint8(1) << (v - 1)
					if live&bit == 0 {
						dead = true
					}
					if seen&bit != 0 && nl >= rp+1 {
						coloc = true
					}
					seen |= bit
				} else if nl > 0 {
					unassigned = true
				} else if v != cellNoNodes {
					unassigned = true // with no live node the only acceptable answer is the "no nodes" error
				}
			}
		}
	}
	return
}

// =====================================================================================================================
// Part O: real instance
// =====================================================================================================================

type fakeGroups struct {
	schema.Group
	list []*commonv1.Group
}

func (f *fakeGroups) ListGroup(context.Context) ([]*commonv1.Group, error) { return f.list, nil }

type fakeRepo struct {
	metadata.Repo
	groups  fakeGroups
	handler schema.EventHandler
	kind    schema.Kind
}

func (f *fakeRepo) GroupRegistry() schema.Group { return &f.groups }
func (f *fakeRepo) RegisterHandler(_ string, k schema.Kind, h schema.EventHandler) {
	f.handler, f.kind = h, k
}

type fakePipeline struct {
	queue.Client
	handler schema.EventHandler
}

func (f *fakePipeline) Register(_ bus.Topic, h schema.EventHandler) { f.handler = h }

var (
	nodeProtos  [nNodes]*databasev1.Node
	groupProtos [nGroups][3]*commonv1.Group
)

func initProtos() {
	for i := 0; i < nNodes; i++ {
		nodeProtos[i] = &databasev1.Node{
			Metadata: &commonv1.Metadata{Name: nodeNames[i]},
			Roles:    []databasev1.Role{databasev1.Role_ROLE_DATA},
			Labels:   nodeLabels[i],
		}
	}
	for g := 0; g < nGroups; g++ {
		for v := 1; v <= groupVariants[g]; v++ {
			groupProtos[g][v] = &commonv1.Group{
				Metadata:     &commonv1.Metadata{Name: groupNames[g], ModRevision: int64(10*g + v)},
				Catalog:      commonv1.Catalog_CATALOG_MEASURE,
				ResourceOpts: &commonv1.ResourceOpts{ShardNum: uint32(groupShards[g][v]), Replicas: uint32(groupReplicas[g][v])},
			}
		}
		groupProtos[g][0] = &commonv1.Group{Metadata: &commonv1.Metadata{Name: groupNames[g]}, Catalog: commonv1.Catalog_CATALOG_MEASURE}
	}
}

// instance = one coordinator: real selector + real liaison node registry, fake metadata repo and fake queue client.
type instance struct {
	repo     *fakeRepo
	pipe     *fakePipeline
	sel      node.Selector
	registry lgrpc.NodeRegistry
	groupH   schema.EventHandler // the selector, as registered by its PreRun
	nodeH    schema.EventHandler // the clusterNodeService, as registered with the queue client
	g        [nGroups]int8       // what the fake group registry currently holds
}

var labelSel = map[string]*pub.LabelSelector{}

func newInstance(c *config) *instance {
	in := &instance{repo: &fakeRepo{}, pipe: &fakePipeline{}}
	in.sel = node.NewRoundRobinSelector("c16", in.repo)
	if c.labelSelector != "" {
		ls, ok := labelSel[c.labelSelector]
		if !ok {
			var err error
			ls, err = pub.ParseLabelSelector(c.labelSelector)
			if err != nil {
				harnessErr("ParseLabelSelector: " + err.Error())
			}
			labelSel[c.labelSelector] = ls
		}
		in.sel.SetNodeSelector(ls)
	}
	if err := in.sel.PreRun(context.Background()); err != nil {
		harnessErr("PreRun: " + err.Error())
	}
	if in.repo.handler == nil || in.repo.kind != schema.KindGroup {
		harnessErr("selector did not register a group handler in PreRun")
	}
	in.groupH = in.repo.handler
	in.registry = lgrpc.NewClusterNodeRegistry(data.TopicMeasureWrite, in.pipe, in.sel)
	if in.pipe.handler == nil {
		harnessErr("node registry did not register with the queue client")
	}
	in.nodeH = in.pipe.handler
	return in
}

func (in *instance) apply(e event) {
	switch e.kind {
	case evAddNode:
		in.nodeH.OnAddOrUpdate(schema.Metadata{TypeMeta: schema.TypeMeta{Kind: schema.KindNode, Name: nodeNames[e.idx]}, Spec: nodeProtos[e.idx]})
	case evRemoveNode:
		in.nodeH.OnDelete(schema.Metadata{TypeMeta: schema.TypeMeta{Kind: schema.KindNode, Name: nodeNames[e.idx]}, Spec: nodeProtos[e.idx]})
	case evPutGroup:
		in.g[e.idx] = int8(e.variant)
		gp := groupProtos[e.idx][e.variant]
		in.groupH.OnAddOrUpdate(schema.Metadata{TypeMeta: schema.TypeMeta{Kind: schema.KindGroup, Name: gp.Metadata.Name, ModRevision: gp.Metadata.ModRevision}, Spec: gp})
	case evDelGroup:
		in.g[e.idx] = 0
		gp := groupProtos[e.idx][0]
		in.groupH.OnDelete(schema.Metadata{TypeMeta: schema.TypeMeta{Kind: schema.KindGroup, Name: gp.Metadata.Name}, Spec: gp})
	case evInitAsc, evInitDesc:
		in.repo.groups.list = in.repo.groups.list[:0]
		for g := 0; g < nGroups; g++ {
			gi := g
			if e.kind == evInitDesc {
				gi = nGroups - 1 - g
			}
			if in.g[gi] != 0 {
				in.repo.groups.list = append(in.repo.groups.list, groupProtos[gi][in.g[gi]])
			}
		}
		ok, revs := in.groupH.OnInit([]schema.Kind{schema.KindGroup})
		if !ok || len(revs) != 1 {
			harnessErr("OnInit([KindGroup]) refused")
		}
	}
}

func classifyErr(err error) byte {
	s := err.Error()
	switch {
	case strings.Contains(s, "no nodes available"):
		return cellNoNodes
	case strings.Contains(s, "unknown shard"):
		return cellUnknown
	}
	return cellOtherE
}

// table probes Pick for every (group, shard 0..3, replica 0..2). One economy (building Pick's errors - one of them
// captures a stack trace - dominates the run time): when the replica-0 probe of a (group, shard) answers with an
// error ("no nodes available" / "unknown shard"), replicas 1 and 2 of that (group, shard) are recorded as the same
// answer without probing; replicas are probed whenever the shard resolves to a node.
func (in *instance) table() (t table, picks int) {
	for g := 0; g < nGroups; g++ {
		for s := 0; s < probeShard; s++ {
			for r := 0; r < probeRepl; r++ {
				c := cell(g, s, r)
				if r > 0 && t[cell(g, s, 0)] >= cellNoNodes {
					t[c] = t[cell(g, s, 0)]
					continue
				}
				picks++
				n, err := in.sel.Pick(groupNames[g], "", uint32(s), uint32(r))
				if err != nil {
					t[c] = classifyErr(err)
					continue
				}
				t[c] = cellAlien
				for i := 0; i < nNodes; i++ {
					if n == nodeNames[i] {
						t[c] = byte(i + 1)
					}
				}
			}
		}
	}
	return t, picks
}

// observeRegistry checks the liaison-side views (Locate, LocateAll) of one reached state against the selector's table
// and the property's clauses. Returns symptom strings (empty = fine).
func (in *instance) observeRegistry(t table, g [nGroups]int8, live uint8) []string {
	var out []string
	nl := len(liveList(live))
	for gi := 0; gi < nGroups; gi++ {
		sh := groupShards[gi][g[gi]]
		copies := groupReplicas[gi][g[gi]] + 1
		for s := 0; s < probeShard; s++ {
			for r := 0; r < probeRepl; r++ {
				n, err := in.registry.Locate(groupNames[gi], "any", uint32(s), uint32(r))
				v := t[cell(gi, s, r)]
				if (err != nil) != (v >= cellNoNodes) || (err == nil && (v == cellAlien || n != nodeNames[v-1])) {
					out = append(out, "registry.Locate-differs-from-Pick")
				}
			}
			if s >= sh {
				continue
			}
			all, err := in.registry.LocateAll(groupNames[gi], uint32(s), copies)
			want := map[string]bool{}
			anyErr := false
			for r := 0; r < copies; r++ {
				v := t[cell(gi, s, r)]
				if v >= cellNoNodes {
					anyErr = true
				} else if v != cellAlien {
					want[nodeNames[v-1]] = true
				}
			}
			if anyErr {
				if err == nil {
					out = append(out, "LocateAll-succeeds-though-Pick-fails")
				}
				continue
			}
			if err != nil {
				out = append(out, "LocateAll-fails-though-Pick-succeeds")
				continue
			}
			if !sort.StringsAreSorted(all) || len(all) != len(want) {
				out = append(out, "LocateAll-not-the-distinct-sorted-Pick-set")
				continue
			}
			for _, n := range all {
				if !want[n] {
					out = append(out, "LocateAll-not-the-distinct-sorted-Pick-set")
				}
			}
			if nl >= copies && len(all) != copies {
				out = append(out, "LocateAll-fewer-owners-than-copies")
			}
		}
	}
	return out
}

var pickCalls int

func runHistory(c *config, alpha []event, h []uint8) (*instance, table) {
	in := newInstance(c)
	for _, e := range h {
		in.apply(alpha[e])
	}
	t, n := in.table()
	pickCalls += n
	return in, t
}

func runHistoryGuarded(c *config, alpha []event, h []uint8) (in *instance, t table, panicked string) {
	defer func() {
		if p := recover(); p != nil {
			panicked = fmt.Sprint(p)
		}
	}()
	in, t = runHistory(c, alpha, h)
	return
}

func histNames(alpha []event, h []uint8) []string {
	out := make([]string, len(h))
	for i, e := range h {
		out[i] = alpha[e].name
	}
	return out
}

func tableString(t table) string {
	var sb strings.Builder
	for g := 0; g < nGroups; g++ {
		if g > 0 {
			sb.WriteString(" | ")
		}
		sb.WriteString(groupNames[g] + ":")
		for s := 0; s < probeShard; s++ {
			sb.WriteString(" ")
			for r := 0; r < probeRepl; r++ {
				v := t[cell(g, s, r)]
				switch {
				case v >= 1 && v <= nNodes:
					sb.WriteString(fmt.Sprint(v))
				case v == cellNoNodes:
					sb.WriteString("-")
				case v == cellUnknown:
					sb.WriteString("?")
				default:
					sb.WriteString("X")
				}
			}
		}
	}
	return sb.String()
}

func topoString(g [nGroups]int8, live uint8) string {
	var parts []string
	for gi := 0; gi < nGroups; gi++ {
		if g[gi] != 0 {
			parts = append(parts, fmt.Sprintf("%s(%d,%d)", groupNames[gi], groupShards[gi][g[gi]], groupReplicas[gi][g[gi]]))
		}
	}
	var ns []string
	for _, n := range liveList(live) {
		ns = append(ns, nodeNames[n])
	}
	return "groups{" + strings.Join(parts, ",") + "} nodes{" + strings.Join(ns, ",") + "}"
}

// canonical tables: for every topology the table produced by the real code for the canonical history
// (groups put in name order, then nodes added in name order, each once).
type canonSet struct {
	t  [nTopo]table
	ok [nTopo]bool
}

type violRec struct {
	Key     string   `json:"key"`
	Part    string   `json:"part"`
	Config  string   `json:"config,omitempty"`
	History []string `json:"history,omitempty"`
	Hist    []uint8  `json:"hist_idx,omitempty"`
	Topo    string   `json:"final_topology,omitempty"`
	Got     string   `json:"got_table,omitempty"`
	Want    string   `json:"canonical_table,omitempty"`
	Detail  string   `json:"detail,omitempty"`
	Count   int      `json:"count"`
	// part E
	Subject string `json:"subject,omitempty"`
	Tuple   []int  `json:"tuple,omitempty"`
	Shards  int    `json:"shards,omitempty"`
}

// better reports whether a is a "smaller" artefact than b (shorter history, then lexicographic).
func better(a, b *violRec) bool {
	if len(a.Hist) != len(b.Hist) {
		return len(a.Hist) < len(b.Hist)
	}
	for i := range a.Hist {
		if a.Hist[i] != b.Hist[i] {
			return a.Hist[i] < b.Hist[i]
		}
	}
	return a.Config < b.Config
}

type violSet map[string]*violRec

func (vs violSet) add(v *violRec) {
	old, ok := vs[v.Key]
	if !ok {
		vs[v.Key] = v
		return
	}
	n := old.Count + v.Count
	if better(v, old) {
		vs[v.Key] = v
		old = v
	}
	old.Count = n
}

func buildCanon(c *config, alpha []event, vs violSet) *canonSet {
	cs := &canonSet{}
	putIdx := map[[2]int]uint8{}
	addIdx := map[int]uint8{}
	for i, e := range alpha {
		if e.kind == evPutGroup {
			putIdx[[2]int{e.idx, e.variant}] = uint8(i)
		}
		if e.kind == evAddNode {
			addIdx[e.idx] = uint8(i)
		}
	}
	for g0 := int8(0); g0 <= int8(groupVariants[0]); g0++ {
		for g1 := int8(0); g1 <= int8(groupVariants[1]); g1++ {
			for g2 := int8(0); g2 <= int8(groupVariants[2]); g2++ {
				for live := uint8(0); live < 8; live++ {
					if live&^c.eligible != 0 {
						continue
					}
					g := [nGroups]int8{g0, g1, g2}
					var h []uint8
					for gi := 0; gi < nGroups; gi++ {
						if g[gi] != 0 {
							h = append(h, putIdx[[2]int{gi, int(g[gi])}])
						}
					}
					for _, n := range liveList(live) {
						h = append(h, addIdx[int(n)])
					}
					in, t, pv := runHistoryGuarded(c, alpha, h)
					ti := topoIndex(g, live)
					cs.t[ti], cs.ok[ti] = t, true
					if pv != "" {
						vs.add(&violRec{Key: "O/canonical/panic", Part: "O", Config: c.name, History: histNames(alpha, h), Hist: h, Topo: topoString(g, live), Detail: pv, Count: 1})
						continue
					}
					rec := func(key, detail string) {
						vs.add(&violRec{Key: key, Part: "O", Config: c.name, History: histNames(alpha, h), Hist: h, Topo: topoString(g, live), Got: tableString(t),
							Want: tableString(modelTable(g, liveList(live))), Detail: detail, Count: 1})
					}
					un, dead, co := symptoms(t, g, live)
					if un {
						rec("O/canonical/unassigned-shard", "a (group, shard, replica) of a known group has no node although a node is live (or a wrong error with none live)")
					}
					if dead {
						rec("O/canonical/dead-node-picked", "a node that is not live is returned")
					}
					if co {
						rec("O/canonical/replicas-colocated", "two copies of one shard on the same node although live nodes >= copies")
					}
					if t != modelTable(g, liveList(live)) {
						rec("O/canonical/mechanism-mismatch", "table differs from sortedNodes[(rank(group,shard)+replica) mod n]")
					}
					for _, s := range in.observeRegistry(t, g, live) {
						rec("O/canonical/"+s, "liaison NodeRegistry view disagrees")
					}
				}
			}
		}
	}
	return cs
}

// explorer state of one worker
type explorer struct {
	c        *config
	alpha    []event
	canon    *canonSet
	vs       violSet
	states   map[stKey]struct{}
	tables   map[table]struct{}
	maxD     int
	hist     []uint8
	deadline time.Time
	res      workerResult
	samples  []map[string]any
}

type workerResult struct {
	Histories     int            `json:"histories"`
	EventCalls    int            `json:"event_calls"`
	Picks         int            `json:"picks"`
	PerDepth      []int          `json:"per_depth"`
	Tainted       int            `json:"tainted"`
	Pass          int            `json:"pass"`
	KnownDefect   int            `json:"known_defect"`
	Unknown       int            `json:"unknown"`
	Symptom       map[string]int `json:"symptom"`
	States        []string       `json:"states"`
	Tables        []string       `json:"tables"`
	Viol          []*violRec     `json:"viol"`
	RegistryViews int            `json:"registry_views"`
	Incomplete    bool           `json:"incomplete"`
	Samples       []map[string]any
}

type stKey struct {
	cfg  string
	topo int
	t    table
}

func (k stKey) String() string {
	return fmt.Sprintf("%s/%d/%s", k.cfg, k.topo, hex.EncodeToString(k.t[:]))
}

// visit executes the current history on a fresh real instance and judges its final state.
func (x *explorer) visit(m *mstate) {
	in, t, pv := runHistoryGuarded(x.c, x.alpha, x.hist)
	if pv != "" {
		x.res.Histories++
		x.res.PerDepth[len(x.hist)]++
		x.res.Unknown++
		x.res.Symptom["O/panic"]++
		x.vs.add(&violRec{Key: "O/panic", Part: "O", Config: x.c.name, History: histNames(x.alpha, x.hist), Hist: append([]uint8(nil), x.hist...),
			Topo: topoString(m.g, m.live), Detail: pv, Count: 1})
		return
	}
	x.res.Histories++
	x.res.EventCalls += len(x.hist)
	x.res.PerDepth[len(x.hist)]++
	if m.tainted {
		x.res.Tainted++
	}
	ti := topoIndex(m.g, m.live)
	if !x.canon.ok[ti] {
		harnessErr("topology without canonical table: " + topoString(m.g, m.live))
	}
	want := x.canon.t[ti]
	// classify: does the table depend on the history and not only on the topology?
	prefix := "O/"
	var syms []string
	if t != want {
		un, dead, co := symptoms(t, m.g, m.live)
		if un {
			syms = append(syms, "unassigned-shard")
		}
		if dead {
			syms = append(syms, "dead-node-picked")
		}
		if co {
			syms = append(syms, "replicas-colocated")
		}
		syms = append(syms, "table-differs")
		if m.tainted && !un && t == modelTable(m.g, m.multi[:m.nmulti]) {
			// exactly what a node list with duplicate entries (AddNode appends without de-duplicating, RemoveNode
			// drops one occurrence) produces
			prefix = "O/AddNode-duplicate/"
			x.res.KnownDefect++
		} else {
			x.res.Unknown++
		}
	} else {
		x.res.Pass++
	}
	sk := stKey{x.c.name, ti, t}
	if _, seen := x.states[sk]; !seen {
		x.states[sk] = struct{}{}
		x.tables[t] = struct{}{}
		// expensive observers once per distinct (topology, table) per worker
		x.res.RegistryViews++
		for _, s := range in.observeRegistry(t, m.g, m.live) {
			syms = append(syms, s)
		}
		if len(x.samples) < 2 && len(x.hist) == x.maxD && !m.tainted && m.live != 0 && m.g != [nGroups]int8{} {
			x.samples = append(x.samples, map[string]any{"part": "O", "config": x.c.name, "history": histNames(x.alpha, x.hist),
				"final_topology": topoString(m.g, m.live), "pick_table(group: shard0 shard1.. each r0r1r2)": tableString(t)})
		}
	}
	for _, s := range syms {
		x.res.Symptom[prefix+s]++
		x.vs.add(&violRec{Key: prefix + s, Part: "O", Config: x.c.name, History: histNames(x.alpha, x.hist), Hist: append([]uint8(nil), x.hist...),
			Topo: topoString(m.g, m.live), Got: tableString(t), Want: tableString(want), Count: 1})
	}
}

// explore enumerates every history of length 0..maxD owned by worker wi (histories shorter than 2 belong to worker 0,
// longer ones to the worker owning their 2-event prefix). Iterative on purpose: Pick's errors capture a stack trace,
// whose cost grows with the call depth.
func (x *explorer) explore(wi, wn int) {
	for l := 0; l <= x.maxD; l++ {
		a := alphaAt(x.c, x.alpha, l, x.maxD)
		if l < 2 && wi != 0 {
			continue
		}
		x.hist = x.hist[:0]
		for i := 0; i < l; i++ {
			x.hist = append(x.hist, 0)
		}
		for {
			if x.res.Histories&4095 == 4095 && time.Now().After(x.deadline) {
				x.res.Incomplete = true
				return
			}
			if l < 2 || (int(x.hist[0])*len(x.alpha)+int(x.hist[1]))%wn == wi {
				var m mstate
				for _, e := range x.hist {
					m.apply(x.alpha[e], x.c)
				}
				x.visit(&m)
			}
			// next history of length l (odometer, last position fastest)
			i := l - 1
			for i >= 0 {
				x.hist[i]++
				if int(x.hist[i]) < a {
					break
				}
				x.hist[i] = 0
				i--
			}
			if i < 0 {
				break
			}
		}
	}
}

// alphaAt is the number of leading alphabet events used for histories of length l: in the plain configuration the
// longest histories use the core alphabet (node and group events; the two OnInit events come last in alphabet()),
// every shorter length and the label configuration use the full alphabet.
func alphaAt(c *config, alpha []event, l, maxD int) int {
	if c.name == "plain" && l == maxD {
		return len(alpha) - 2
	}
	return len(alpha)
}

func depthFor(c *config) int {
	d := 6
	if ev.Thorough() {
		d = 7
	}
	if s := ev.Arg("--depth"); s != "" {
		fmt.Sscan(s, &d)
	}
	if c.name != "plain" {
		d--
	}
	return d
}

func workerO(wi, wn int) {
	initProtos()
	alpha := alphabet()
	var out workerResult
	out.Symptom = map[string]int{}
	vsAll := violSet{}
	states := map[stKey]struct{}{}
	tables := map[table]struct{}{}
	// internal deadline (never a verdict: a run that hits it reports exhaustive=false and still exits by its findings)
	budget := 10 * time.Minute
	if ev.Thorough() {
		budget = 45 * time.Minute
	}
	if s := ev.Arg("--budget-s"); s != "" {
		var n int
		fmt.Sscan(s, &n)
		budget = time.Duration(n) * time.Second
	}
	deadline := time.Now().Add(budget)
	for ci := range configs {
		c := &configs[ci]
		scratch := violSet{}
		canon := buildCanon(c, alpha, scratch) // canonical violations are reported by the parent
		x := &explorer{c: c, alpha: alpha, canon: canon, vs: vsAll, states: states, tables: tables, maxD: depthFor(c), deadline: deadline}
		x.res.PerDepth = make([]int, x.maxD+1)
		x.res.Symptom = out.Symptom
		x.explore(wi, wn)
		out.Histories += x.res.Histories
		out.EventCalls += x.res.EventCalls
		out.Tainted += x.res.Tainted
		out.Pass += x.res.Pass
		out.KnownDefect += x.res.KnownDefect
		out.Unknown += x.res.Unknown
		out.RegistryViews += x.res.RegistryViews
		out.Incomplete = out.Incomplete || x.res.Incomplete
		for d, n := range x.res.PerDepth {
			for len(out.PerDepth) <= d {
				out.PerDepth = append(out.PerDepth, 0)
			}
			out.PerDepth[d] += n
		}
		out.Samples = append(out.Samples, x.samples...)
	}
	out.Picks = pickCalls
	for k := range states {
		out.States = append(out.States, k.String())
	}
	for t := range tables {
		out.Tables = append(out.Tables, hex.EncodeToString(t[:]))
	}
	for _, v := range vsAll {
		out.Viol = append(out.Viol, v)
	}
	b, err := json.Marshal(out)
	if err != nil {
		harnessErr(err.Error())
	}
	par.Emit(b)
}

func partO(r *ev.Run) {
	initProtos()
	alpha := alphabet()
	vs := violSet{}
	canonTopos := 0
	for ci := range configs {
		cs := buildCanon(&configs[ci], alpha, vs)
		for _, ok := range cs.ok {
			if ok {
				canonTopos++
			}
		}
	}
	nw := 16
	if s := ev.Arg("--workers"); s != "" {
		fmt.Sscan(s, &nw)
	}
	results, err := par.Run(nw, "GOGC=400")
	if err != nil {
		harnessErr(err.Error())
	}
	if len(results) != nw {
		harnessErr(fmt.Sprintf("expected %d worker results, got %d", nw, len(results)))
	}
	states := map[string]struct{}{}
	tables := map[string]struct{}{}
	var tot workerResult
	tot.Symptom = map[string]int{}
	var samples []map[string]any
	for _, b := range results {
		var w workerResult
		if err := json.Unmarshal(b, &w); err != nil {
			harnessErr(err.Error())
		}
		tot.Histories += w.Histories
		tot.EventCalls += w.EventCalls
		tot.Picks += w.Picks
		tot.Tainted += w.Tainted
		tot.Pass += w.Pass
		tot.KnownDefect += w.KnownDefect
		tot.Unknown += w.Unknown
		tot.RegistryViews += w.RegistryViews
		tot.Incomplete = tot.Incomplete || w.Incomplete
		for d, n := range w.PerDepth {
			for len(tot.PerDepth) <= d {
				tot.PerDepth = append(tot.PerDepth, 0)
			}
			tot.PerDepth[d] += n
		}
		for k, n := range w.Symptom {
			tot.Symptom[k] += n
		}
		for _, s := range w.States {
			states[s] = struct{}{}
		}
		for _, s := range w.Tables {
			tables[s] = struct{}{}
		}
		for _, v := range w.Viol {
			vs.add(v)
		}
		samples = append(samples, w.Samples...)
	}
	// expected number of histories: sum over configs and depths of |alphabet|^d
	want := 0
	for ci := range configs {
		maxD := depthFor(&configs[ci])
		for d := 0; d <= maxD; d++ {
			p := 1
			for i := 0; i < d; i++ {
				p *= alphaAt(&configs[ci], alpha, d, maxD)
			}
			want += p
		}
	}
	if tot.Incomplete {
		r.NotExhaustive(fmt.Sprintf("internal time budget hit: %d of %d histories executed", tot.Histories, want))
	} else if tot.Histories != want {
		harnessErr(fmt.Sprintf("enumeration incomplete: %d histories executed, %d expected", tot.Histories, want))
	}
	sort.Slice(samples, func(i, j int) bool { return fmt.Sprint(samples[i]) < fmt.Sprint(samples[j]) })
	perCfg := map[any]int{}
	for _, s := range samples {
		if perCfg[s["config"]] < 2 {
			perCfg[s["config"]]++
			r.Sample(s)
		}
	}
	var names []string
	for _, e := range alpha {
		names = append(names, e.name)
	}
	r.Set("states", len(states))
	r.Set("transitions", tot.Histories-len(configs))
	r.Set("traces_validated_against_impl", tot.Histories)
	r.Set("O_event_alphabet", names)
	r.Set("O_depth_per_config", map[string]int{configs[0].name: depthFor(&configs[0]), configs[1].name: depthFor(&configs[1])})
	r.Set("O_histories_per_depth(all configs)", tot.PerDepth)
	r.Set("O_real_event_calls", tot.EventCalls)
	r.Set("O_real_pick_calls", tot.Picks)
	r.Set("O_final_topologies_with_canonical_table", canonTopos)
	r.Set("O_distinct_pick_tables", len(tables))
	r.Set("O_histories_readding_a_live_node", tot.Tainted)
	r.Set("O_histories_table_equals_canonical", tot.Pass)
	r.Set("O_histories_explained_by_duplicate_node_entries", tot.KnownDefect)
	r.Set("O_histories_failing_otherwise", tot.Unknown)
	r.Set("O_failing_histories_by_symptom", tot.Symptom)
	r.Set("O_registry_views_checked(Locate/LocateAll per distinct state per worker)", tot.RegistryViews)
	keys := make([]string, 0, len(vs))
	for k := range vs {
		keys = append(keys, k)
	}
	sort.Strings(keys)
	minimal := map[string]any{}
	for _, k := range keys {
		v := vs[k]
		minimal[k] = map[string]any{"histories": v.Count, "shortest": v.History, "config": v.Config, "final_topology": v.Topo, "got": v.Got, "canonical": v.Want}
		r.Violation(k, v)
	}
	if len(minimal) > 0 {
		r.Set("O_failure_classes", minimal)
	}
}

// =====================================================================================================================
// Part E
// =====================================================================================================================

type tv struct {
	v    *modelv1.TagValue
	name string
}

func eAlphabet() []tv {
	var vals []tv
	for _, s := range []string{"a", "|", "\\", "\\|", "", "|a", "a|", "\\\\"} {
		vals = append(vals, tv{&modelv1.TagValue{Value: &modelv1.TagValue_Str{Str: &modelv1.Str{Value: s}}}, fmt.Sprintf("str(%q)", s)})
	}
	for _, i := range []int64{0, -1, math.MaxInt64, math.MinInt64, 0x7C, 0x5C, 0x7C5C7C5C7C5C7C5C} {
		vals = append(vals, tv{&modelv1.TagValue{Value: &modelv1.TagValue_Int{Int: &modelv1.Int{Value: i}}}, fmt.Sprintf("int(%d)", i)})
	}
	for _, b := range [][]byte{nil, {}, {0}, {'|'}, {'\\'}, {1, '|'}} {
		vals = append(vals, tv{&modelv1.TagValue{Value: &modelv1.TagValue_BinaryData{BinaryData: b}}, fmt.Sprintf("bin(%q)", b)})
	}
	vals = append(vals, tv{&modelv1.TagValue{Value: &modelv1.TagValue_Null{}}, "null"})
	vals = append(vals, tv{&modelv1.TagValue{Value: &modelv1.TagValue_StrArray{StrArray: &modelv1.StrArray{Value: []string{"a", "|"}}}}, `strs("a","|")`})
	vals = append(vals, tv{&modelv1.TagValue{Value: &modelv1.TagValue_IntArray{IntArray: &modelv1.IntArray{Value: []int64{1, 0x7C}}}}, "ints(1,124)"})
	return vals
}

var eSubjects = []string{"s", "", "s|", "s\\", "|"}

type eCounters struct {
	evals     int
	cases     int
	keys      map[string]struct{} // distinct (marshaled entity, n>=2)
	shardHist [6][5]int
	first     map[string]*violRec
	order     []string
	last      [5]uint64 // shards of the most recent case for n=1..5
}

func (ec *eCounters) fail(key, detail, subj string, tuple []int, n int) {
	if v, ok := ec.first[key]; ok {
		v.Count++
		return
	}
	ec.first[key] = &violRec{Key: key, Part: "E", Detail: detail, Subject: subj, Tuple: append([]int(nil), tuple...), Shards: n, Count: 1}
	ec.order = append(ec.order, key)
}

func tagSpec(name string) *databasev1.TagSpec {
	return &databasev1.TagSpec{Name: name, Type: databasev1.TagType_TAG_TYPE_STRING}
}

// checkE runs every E oracle for one (subject, tuple) over shard counts 0..5.
func checkE(ec *eCounters, vals []tv, subj string, tuple []int) {
	k := len(tuple)
	names := make([]string, k)
	for i := range names {
		names[i] = fmt.Sprintf("e%d", i)
	}
	entity := &databasev1.Entity{TagNames: names}
	// layout A: one family, entity tags in entity order
	famA := &databasev1.TagFamilySpec{Name: "f"}
	valA := &modelv1.TagFamilyForWrite{}
	for i := 0; i < k; i++ {
		famA.Tags = append(famA.Tags, tagSpec(names[i]))
		valA.Tags = append(valA.Tags, vals[tuple[i]].v)
	}
	schemaA := []*databasev1.TagFamilySpec{famA}
	valuesA := []*modelv1.TagFamilyForWrite{valA}
	// layout B: two families, noise tags around, entity tags reversed and split
	noise := func(i int) *modelv1.TagValue { return vals[(i*7+3+len(subj))%len(vals)].v }
	fam0 := &databasev1.TagFamilySpec{Name: "x", Tags: []*databasev1.TagSpec{tagSpec("noise0")}}
	val0 := &modelv1.TagFamilyForWrite{Tags: []*modelv1.TagValue{noise(0)}}
	fam1 := &databasev1.TagFamilySpec{Name: "y"}
	val1 := &modelv1.TagFamilyForWrite{}
	for i := k - 1; i >= 0; i-- {
		if i == k-1 {
			fam0.Tags = append(fam0.Tags, tagSpec(names[i]))
			val0.Tags = append(val0.Tags, vals[tuple[i]].v)
			continue
		}
		fam1.Tags = append(fam1.Tags, tagSpec(fmt.Sprintf("noise%d", i+1)), tagSpec(names[i]))
		val1.Tags = append(val1.Tags, noise(i+1), vals[tuple[i]].v)
	}
	fam1.Tags = append(fam1.Tags, tagSpec("tail"))
	val1.Tags = append(val1.Tags, noise(9))
	schemaB := []*databasev1.TagFamilySpec{fam0, fam1}
	valuesB := []*modelv1.TagFamilyForWrite{val0, val1}

	locA := partition.NewEntityLocator(schemaA, entity, 1)
	locB := partition.NewEntityLocator(schemaB, entity, math.MaxInt64)
	locC := partition.Locator{TagLocators: append([]partition.TagLocator(nil), locA.TagLocators...), ModRevision: -5}
	if len(locA.TagLocators) != k || len(locB.TagLocators) != k {
		ec.fail("E/NewEntityLocator/arity", "locator does not cover every entity tag", subj, tuple, 0)
		return
	}
	// reference: hash of the concatenated marshaled entity values, subject first
	var ref []byte
	all := append([]*modelv1.TagValue{pbv1.EntityStrValue(subj)}, valA.Tags...)
	for _, v := range all {
		b, err := pbv1.MarshalTagValue(v)
		if err != nil {
			ec.fail("E/MarshalTagValue/error", err.Error(), subj, tuple, 0)
			return
		}
		ref = append(ref, b...)
	}
	h := xxhash.Sum64(ref)
	var skRef uint64
	var skLoc partition.Locator
	if k >= 1 {
		b0, _ := pbv1.MarshalTagValue(pbv1.EntityStrValue(subj))
		b1, _ := pbv1.MarshalTagValue(valA.Tags[0])
		skRef = xxhash.Sum64(append(append([]byte(nil), b0...), b1...))
		skLoc = partition.NewShardingKeyLocator(schemaB, &databasev1.ShardingKey{TagNames: names[:1]})
	}
	ec.cases++
	for n := uint32(0); n <= 5; n++ {
		evA, sA, errA := locA.Locate(subj, valuesA, n)
		evB, sB, errB := locB.Locate(subj, valuesB, n)
		_, sC, errC := locC.Locate(subj, valuesA, n)
		sid, errS := partition.ShardID(ref, n)
		tid := partition.TraceShardID(string(ref), n)
		ec.evals += 5
		if n == 0 {
			if errA == nil || errB == nil || errC == nil || errS == nil {
				ec.fail("E/shardNum0/accepted", "shard count 0 must be refused by ShardID/Locate", subj, tuple, 0)
			}
			if tid != 0 {
				ec.fail("E/TraceShardID/shardNum0", "TraceShardID(_,0) must be 0", subj, tuple, 0)
			}
			continue
		}
		if errA != nil || errB != nil || errC != nil || errS != nil {
			ec.fail("E/Locate/error", fmt.Sprint(errA, errB, errC, errS), subj, tuple, int(n))
			continue
		}
		want := h % uint64(n)
		if uint64(sA) >= uint64(n) || uint64(sB) >= uint64(n) || uint64(sC) >= uint64(n) || uint64(sid) >= uint64(n) || uint64(tid) >= uint64(n) {
			ec.fail("E/out-of-range", fmt.Sprintf("A=%d B=%d C=%d ShardID=%d Trace=%d", sA, sB, sC, sid, tid), subj, tuple, int(n))
		}
		if sA != sB {
			ec.fail("E/Locate/layout-dependent", fmt.Sprintf("same entity, different tag layout/noise: %d vs %d", sA, sB), subj, tuple, int(n))
		}
		if sA != sC {
			ec.fail("E/Locate/modrevision-dependent", fmt.Sprintf("%d vs %d", sA, sC), subj, tuple, int(n))
		}
		if uint64(sA) != want {
			ec.fail("E/Locate/not-hash-mod-n", fmt.Sprintf("got %d want %d", sA, want), subj, tuple, int(n))
		}
		if uint64(sid) != want {
			ec.fail("E/ShardID/not-hash-mod-n", fmt.Sprintf("got %d want %d", sid, want), subj, tuple, int(n))
		}
		if uint64(tid) != want {
			ec.fail("E/TraceShardID/not-hash-mod-n", fmt.Sprintf("got %d want %d", tid, want), subj, tuple, int(n))
		}
		for _, evs := range []pbv1.EntityValues{evA, evB} {
			okv := len(evs) == k+1
			for i := 0; okv && i < len(evs); i++ {
				okv = proto.Equal(evs[i], all[i])
			}
			if !okv {
				ec.fail("E/Locate/entity-values", "returned entity values are not (subject, entity tags in entity order)", subj, tuple, int(n))
			}
		}
		// ApplyLocators: nil sharding-key router = entity shard; otherwise shard of the sharding key, entity values of the entity
		evN, sN, errN := partition.ApplyLocators(subj, valuesB, locB, nil, n)
		ec.evals++
		if errN != nil || sN != sB || len(evN) != k+1 {
			ec.fail("E/ApplyLocators/nil-sharding-key", fmt.Sprint(errN, sN, sB), subj, tuple, int(n))
		}
		if k >= 1 {
			evK, sK, errK := partition.ApplyLocators(subj, valuesB, locB, skLoc, n)
			ec.evals++
			okv := errK == nil && len(evK) == k+1
			for i := 0; okv && i < len(evK); i++ {
				okv = proto.Equal(evK[i], all[i])
			}
			if !okv || uint64(sK) != skRef%uint64(n) {
				ec.fail("E/ApplyLocators/sharding-key", fmt.Sprintf("err=%v shard=%d want=%d", errK, sK, skRef%uint64(n)), subj, tuple, int(n))
			}
		}
		if n >= 2 {
			ec.keys[string(ref)+string(rune('0'+n))] = struct{}{}
		}
		ec.shardHist[n][sA%5]++
		ec.last[n-1] = uint64(sA)
	}
}

func partE(r *ev.Run) {
	vals := eAlphabet()
	maxAr := 2
	if ev.Thorough() {
		maxAr = 3
	}
	ec := &eCounters{keys: map[string]struct{}{}, first: map[string]*violRec{}}
	var tuple []int
	var rec func()
	rec = func() {
		for _, s := range eSubjects {
			func() {
				defer func() {
					if p := recover(); p != nil {
						ec.fail("E/panic", fmt.Sprint(p), s, tuple, 0)
					}
				}()
				checkE(ec, vals, s, tuple)
			}()
			if ec.cases == 1234 {
				var names []string
				for _, i := range tuple {
					names = append(names, vals[i].name)
				}
				r.Sample(map[string]any{"part": "E", "subject": s, "tuple": names, "shard_for_n=1..5": ec.last})
			}
		}
		if len(tuple) == maxAr {
			return
		}
		for i := range vals {
			tuple = append(tuple, i)
			rec()
			tuple = tuple[:len(tuple)-1]
		}
	}
	rec()
	// vacuity guard: every shard id of every shard count must have been produced
	outcomes := 0
	for n := 1; n <= 5; n++ {
		for s := 0; s < n; s++ {
			if ec.shardHist[n][s] > 0 {
				outcomes++
			} else if len(ec.order) == 0 {
				harnessErr(fmt.Sprintf("part E never produced shard %d of %d: alphabet too small", s, n))
			}
		}
	}
	r.Set("evaluations", ec.evals)
	r.Set("distinct_nontrivial", len(ec.keys))
	r.Set("rule", fmt.Sprintf("part E: every (subject, entity tuple) with %d subjects x tuples of arity 0..%d over %d tag values (delimiter/escape strings, boundary ints, binaries, null, arrays) x shard counts 0..5, each through Locate on 3 independently built locators (2 physical tag layouts with noise tags, 3 ModRevisions), ShardID, TraceShardID and ApplyLocators; non-trivial = distinct (marshaled entity bytes, shard count >= 2)", len(eSubjects), maxAr, len(vals)))
	r.Set("E_cases(subject x tuple)", ec.cases)
	r.Set("E_distinct_outcomes(shard count, shard id)", outcomes)
	r.Set("E_shard_histogram[n][id]", ec.shardHist)
	for _, k := range ec.order {
		r.Violation(k, ec.first[k])
	}
}

// =====================================================================================================================

func harnessErr(msg string) {
	fmt.Fprintln(os.Stderr, "c16 harness error:", msg)
	os.Exit(2)
}

func replay(p string) {
	b, err := os.ReadFile(p)
	if err != nil {
		harnessErr(err.Error())
	}
	var raw struct {
		Artefact json.RawMessage `json:"artefact"`
	}
	if err := json.Unmarshal(b, &raw); err != nil {
		harnessErr(err.Error())
	}
	if replayL(raw.Artefact) {
		return
	}
	var rf rFail
	if err := json.Unmarshal(raw.Artefact, &rf); err == nil && rf.Part == "R" {
		replayR(rf)
		return
	}
	var qf qFail
	if err := json.Unmarshal(raw.Artefact, &qf); err == nil && qf.Part == "Q" {
		replayQ(qf)
		return
	}
	var wf wFail
	if err := json.Unmarshal(raw.Artefact, &wf); err == nil && wf.Part == "W" {
		replayW(wf)
		return
	}
	var a struct {
		Key      string  `json:"key"`
		Artefact violRec `json:"artefact"`
	}
	if err := json.Unmarshal(b, &a); err != nil {
		harnessErr(err.Error())
	}
	v := a.Artefact
	if v.Part == "E" {
		vals := eAlphabet()
		ec := &eCounters{keys: map[string]struct{}{}, first: map[string]*violRec{}}
		func() {
			defer func() {
				if p := recover(); p != nil {
					ec.fail("E/panic", fmt.Sprint(p), v.Subject, v.Tuple, 0)
				}
			}()
			checkE(ec, vals, v.Subject, v.Tuple)
		}()
		fmt.Printf("replay E subject=%q tuple=%v\n", v.Subject, v.Tuple)
		for _, k := range ec.order {
			fmt.Printf("  FAIL %s: %s (n=%d)\n", k, ec.first[k].Detail, ec.first[k].Shards)
		}
		if len(ec.order) > 0 {
			os.Exit(1)
		}
		fmt.Println("  no failure")
		os.Exit(0)
	}
	initProtos()
	alpha := alphabet()
	var c *config
	for i := range configs {
		if configs[i].name == v.Config {
			c = &configs[i]
		}
	}
	if c == nil {
		harnessErr("unknown config " + v.Config)
	}
	byName := map[string]uint8{}
	for i, e := range alpha {
		byName[e.name] = uint8(i)
	}
	var h []uint8
	var m mstate
	for _, n := range v.History {
		i, ok := byName[n]
		if !ok {
			harnessErr("unknown event " + n)
		}
		h = append(h, i)
		m.apply(alpha[i], c)
	}
	scratch := violSet{}
	canon := buildCanon(c, alpha, scratch)
	in, t, pv := runHistoryGuarded(c, alpha, h)
	if pv != "" {
		fmt.Printf("replay O config=%s history=%v\n  FAIL panic: %s\n", c.name, v.History, pv)
		os.Exit(1)
	}
	ti := topoIndex(m.g, m.live)
	fmt.Printf("replay O config=%s history=%v\n  final topology: %s\n  pick table : %s\n  canonical  : %s\n", c.name, v.History, topoString(m.g, m.live), tableString(t), tableString(canon.t[ti]))
	fmt.Printf("  selector.String(): %s\n", in.sel.String())
	fail := false
	un, dead, co := symptoms(t, m.g, m.live)
	for _, s := range in.observeRegistry(t, m.g, m.live) {
		fmt.Println("  FAIL", s)
		fail = true
	}
	if un {
		fmt.Println("  FAIL unassigned-shard")
	}
	if dead {
		fmt.Println("  FAIL dead-node-picked")
	}
	if co {
		fmt.Println("  FAIL replicas-colocated")
	}
	if t != canon.t[ti] {
		fmt.Println("  FAIL table-differs (from the canonical history of the same final topology)")
	}
	for k := range scratch {
		fmt.Println("  FAIL", k)
		fail = true
	}
	if fail || un || dead || co || t != canon.t[ti] {
		if m.tainted && t == modelTable(m.g, m.multi[:m.nmulti]) {
			fmt.Println("  (explained exactly by duplicate entries in the node list: AddNode-duplicate)")
		}
		os.Exit(1)
	}
	fmt.Println("  no failure")
	os.Exit(0)
}

func main() {
	_ = logger.Init(logger.Logging{Env: "prod", Level: "fatal"})
	if rp := ev.Arg("--replay"); rp != "" {
		replay(rp)
		return
	}
	if wi, wn, ok := par.Worker(); ok {
		if pf := os.Getenv("VERIF_CPUPROFILE"); pf != "" {
			f, _ := os.Create(pf)
			_ = pprof.StartCPUProfile(f)
			defer pprof.StopCPUProfile()
		}
		workerO(wi, wn)
		return
	}
	r := ev.New("C16", "model_checking")
	lst := runPartL()
	qst := runPartQ()
	partE(r)
	wDone := make(chan *wStats, 1)
	go func() { wDone <- runPartW() }() // part W runs in the parent while the part-O workers are busy
	rDone := make(chan *rStats, 1)
	go func() { rDone <- runPartR() }() // so does part R (it mostly sleeps in the real retry back-off)
	partO(r)
	reportPartW(r, <-wDone)
	reportPartL(r, lst)
	reportPartQ(r, qst)
	reportPartR(r, <-rDone)
	r.Assume("coordinators are fed sequentially (no concurrent events); event delivery itself (etcd/DNS/file discovery, connection manager) is modelled by the event alphabet, not executed")
	r.Assume("groups {g1,g2,g3} with 2/1/2 configurations, nodes {n1,n2,n3}; histories up to the reported depth; entity values inside the stated alphabet")
	r.Assume("trusted: cespare/xxhash as the hash; pbv1.MarshalTagValue as the entity value encoding (its injectivity is C12's subject)")
	r.Finish()
}
