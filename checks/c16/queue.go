package main

import (
	"context"
	"fmt"
	"os"
	"path/filepath"
	"reflect"
	"sort"
	"strings"

	"github.com/apache/skywalking-banyandb/api/common"
	"github.com/apache/skywalking-banyandb/banyand/internal/storage"
	"github.com/apache/skywalking-banyandb/banyand/internal/wqueue"
	"github.com/apache/skywalking-banyandb/banyand/metadata/schema"
	"github.com/apache/skywalking-banyandb/pkg/fs"
	"github.com/apache/skywalking-banyandb/pkg/logger"
	"github.com/apache/skywalking-banyandb/pkg/verif/ev"
)

// =====================================================================================================================
// Part Q: the liaison write queue follows the selector.
//
// measure, stream and trace keep one wqueue.Queue per group on a liaison; its Opts.GetNodes closure asks the node
// registry (LocateAll) and the queue hands a getNodes callback to every shard's sub-queue, which the engine's write
// path and sync loop call for every batch. "Every coordinator computes the same assignment" must therefore also hold
// for what the queue answers after any sequence of node joins / leaves and reads (seeded change C16-5 memoised the
// owners inside the queue). Enumerated: every history of length <= D over {+n1,+n2,+n3,-n1,-n2,-n3, read} (read =
// GetOrCreateShard + Queue.GetNodes + the sub-queue's callback for every shard) on a real queue over the real registry
// and selector with group g1(2 shards, 1 replica); after every event of every history the three answers must equal
// LocateAll of a fresh coordinator that saw only the canonical history of the current topology.
// =====================================================================================================================

type qSub struct{ getNodes func() []string }

func (*qSub) Close() error { return nil }

type qOpt struct{}

type qFail struct {
	Part    string   `json:"part"`
	Key     string   `json:"key"`
	Detail  string   `json:"detail"`
	History []string `json:"history"`
	Raw     []int    `json:"events"`
}

type qStats struct {
	fails     map[string]*qFail
	answers   map[string]struct{}
	histories int
	events    int
	reads     int
}

var qEventNames = []string{"+n1", "+n2", "+n3", "-n1", "-n2", "-n3", "read"}

const (
	qGroup    = 0 // g1
	qVariant  = 1 // (2 shards, 1 replica)
	qReadEvnt = 6
)

type qWorld struct {
	in   *instance
	q    *wqueue.Queue[*qSub, qOpt]
	dir  string
	live uint8
}

func qOpen(dir string) *qWorld {
	w := &qWorld{in: newInstance(&configs[0]), dir: dir}
	w.in.apply(event{kind: evPutGroup, idx: qGroup, variant: qVariant})
	copies := groupReplicas[qGroup][qVariant] + 1
	ctx := common.SetPosition(context.Background(), func(_ common.Position) common.Position {
		return common.Position{Module: "measure", Database: groupNames[qGroup]}
	})
	ctx = context.WithValue(ctx, logger.ContextKey, logger.GetLogger("c16q"))
	q, err := wqueue.Open(ctx, wqueue.Opts[*qSub, qOpt]{
		Group:           groupNames[qGroup],
		ShardNum:        uint32(groupShards[qGroup][qVariant]),
		SegmentInterval: storage.IntervalRule{Unit: storage.DAY, Num: 1},
		Location:        dir,
		SubQueueCreator: func(_ fs.FileSystem, _ string, _ common.Position, _ *logger.Logger, _ qOpt, _ any,
			_ string, _ common.ShardID, getNodes func() []string,
		) (*qSub, error) {
			return &qSub{getNodes: getNodes}, nil
		},
		// as the engines' closures (banyand/measure/metadata.go): the registry's LocateAll, nil on error
		GetNodes: func(shardID common.ShardID) []string {
			nodes, lerr := w.in.registry.LocateAll(groupNames[qGroup], uint32(shardID), copies)
			if lerr != nil {
				return nil
			}
			return nodes
		},
	}, groupNames[qGroup])
	if err != nil {
		harnessErr("wqueue.Open: " + err.Error())
	}
	w.q = q
	return w
}

func (w *qWorld) close() {
	_ = w.q.Close()
	_ = os.RemoveAll(w.dir)
}

// qCanon is LocateAll of a fresh coordinator that saw the group and then the live nodes once each in name order.
func qCanon(live uint8, cache map[uint8][][]string) [][]string {
	if c, ok := cache[live]; ok {
		return c
	}
	in := newInstance(&configs[0])
	in.apply(event{kind: evPutGroup, idx: qGroup, variant: qVariant})
	for i := 0; i < nNodes; i++ {
		if live&(1<<i) != 0 {
			in.nodeH.OnAddOrUpdate(schema.Metadata{TypeMeta: schema.TypeMeta{Kind: schema.KindNode, Name: nodeNames[i]}, Spec: nodeProtos[i]})
		}
	}
	var out [][]string
	for s := 0; s < groupShards[qGroup][qVariant]; s++ {
		nodes, err := in.registry.LocateAll(groupNames[qGroup], uint32(s), groupReplicas[qGroup][qVariant]+1)
		if err != nil {
			nodes = nil
		}
		out = append(out, nodes)
	}
	cache[live] = out
	return out
}

func sameNodes(a, b []string) bool {
	if len(a) == 0 && len(b) == 0 {
		return true
	}
	return reflect.DeepEqual(a, b)
}

func (st *qStats) fail(key, detail string, h []int) {
	if f, ok := st.fails[key]; ok && len(f.Raw) <= len(h) {
		return
	}
	f := &qFail{Part: "Q", Key: key, Detail: detail, Raw: append([]int{}, h...)}
	for _, e := range h {
		f.History = append(f.History, qEventNames[e])
	}
	st.fails[key] = f
}

// qRun executes one history; the queue's answers are compared after the last event (all shorter histories are
// enumerated as histories of their own, so every prefix is judged).
func qRun(st *qStats, h []int, dir string, cache map[uint8][][]string) {
	w := qOpen(dir)
	defer w.close()
	read := func(judge bool) {
		want := qCanon(w.live, cache)
		for s := 0; s < groupShards[qGroup][qVariant]; s++ {
			sh, err := w.q.GetOrCreateShard(common.ShardID(s))
			if err != nil {
				harnessErr("GetOrCreateShard: " + err.Error())
			}
			a := w.q.GetNodes(common.ShardID(s))
			b := sh.SubQueue().getNodes()
			st.reads++
			if !judge {
				continue
			}
			st.answers[fmt.Sprintf("%03b/%d/%v", w.live, s, a)] = struct{}{}
			if !sameNodes(a, want[s]) {
				st.fail("Q/write-path-owners-differ", fmt.Sprintf("Queue.GetNodes(shard %d) = %v, a coordinator that saw only the current topology (live %s) computes %v", s, a, liveNames(w.live), want[s]), h)
			}
			if !sameNodes(b, want[s]) {
				st.fail("Q/sync-loop-owners-differ", fmt.Sprintf("the sub-queue's getNodes() of shard %d = %v, a coordinator that saw only the current topology (live %s) computes %v", s, b, liveNames(w.live), want[s]), h)
			}
		}
	}
	for _, e := range h {
		st.events++
		switch {
		case e < nNodes:
			w.live |= 1 << e
			w.in.nodeH.OnAddOrUpdate(schema.Metadata{TypeMeta: schema.TypeMeta{Kind: schema.KindNode, Name: nodeNames[e]}, Spec: nodeProtos[e]})
		case e < 2*nNodes:
			w.live &^= 1 << (e - nNodes)
			w.in.nodeH.OnDelete(schema.Metadata{TypeMeta: schema.TypeMeta{Kind: schema.KindNode, Name: nodeNames[e-nNodes]}, Spec: nodeProtos[e-nNodes]})
		default:
			read(false)
		}
	}
	read(true)
}

func liveNames(live uint8) string {
	var s []string
	for i := 0; i < nNodes; i++ {
		if live&(1<<i) != 0 {
			s = append(s, nodeNames[i])
		}
	}
	sort.Strings(s)
	return "{" + strings.Join(s, ",") + "}"
}

func runPartQ() (st *qStats) {
	st = &qStats{fails: map[string]*qFail{}, answers: map[string]struct{}{}}
	defer func() {
		if p := recover(); p != nil {
			st.fail("Q/panic", fmt.Sprint(p), nil)
		}
	}()
	initProtos()
	base, err := os.MkdirTemp("/dev/shm", "c16q-")
	if err != nil {
		harnessErr(err.Error())
	}
	defer os.RemoveAll(base)
	depth := 4
	if ev.Thorough() {
		depth = 5
	}
	cache := map[uint8][][]string{}
	var rec func(h []int)
	rec = func(h []int) {
		st.histories++
		qRun(st, h, filepath.Join(base, fmt.Sprint(st.histories)), cache)
		if len(h) == depth {
			return
		}
		for e := range qEventNames {
			if e == qReadEvnt && len(h) > 0 && h[len(h)-1] == qReadEvnt {
				continue // two reads in a row are one read
			}
			rec(append(h, e))
		}
	}
	rec(nil)
	return st
}

func reportPartQ(r *ev.Run, st *qStats) {
	r.Set("Q_histories(node joins/leaves and reads on a real wqueue.Queue over the real registry)", st.histories)
	r.Set("Q_events", st.events)
	r.Set("Q_reads", st.reads)
	r.Set("Q_distinct_answers(live set, shard, owners)", len(st.answers))
	r.Add("transitions", st.events)
	r.Add("traces_validated_against_impl", st.histories)
	keys := make([]string, 0, len(st.fails))
	for k := range st.fails {
		keys = append(keys, k)
	}
	sort.Strings(keys)
	for _, k := range keys {
		fmt.Println("part Q:", k, "-", st.fails[k].Detail, "- history:", st.fails[k].History)
		r.Violation(k, st.fails[k])
	}
}

// replayQ re-executes the history of a part-Q artefact.
func replayQ(f qFail) {
	initProtos()
	base, _ := os.MkdirTemp("/dev/shm", "c16qr-")
	defer os.RemoveAll(base)
	st := &qStats{fails: map[string]*qFail{}, answers: map[string]struct{}{}}
	cache := map[uint8][][]string{}
	for i := 0; i <= len(f.Raw); i++ {
		qRun(st, f.Raw[:i], filepath.Join(base, fmt.Sprint(i)), cache)
	}
	fmt.Println("history:", f.History)
	for k, v := range st.fails {
		fmt.Println("violation:", k, "-", v.Detail)
	}
	if len(st.fails) > 0 {
		os.Exit(1)
	}
	fmt.Println("no violation")
}
