package main

import (
	"context"
	"fmt"
	"os"
	"sort"
	"sync"
	"time"

	"github.com/apache/skywalking-banyandb/banyand/backup/lifecycle"
	"github.com/apache/skywalking-banyandb/banyand/queue"
	"github.com/apache/skywalking-banyandb/pkg/verif/ev"
)

// =====================================================================================================================
// Part R: the lifecycle agent places every copy where the coordinators place it, whatever transient send faults occur.
//
// The migration visitors send copy r of a part of shard s through lifecycle.pickAndRun(selector, group, s, r, send)
// (seeded change C16-6 moved the re-pick one node further after each failed send, which is the next copy's node).
// Enumerated on the real function over a real selector (g1 with 2 shards / 1 replica and g3 with 1 shard / 2 replicas,
// 3 live nodes): every (group, shard, copy) x every fault pattern of <= 2 transient send failures (SERVER_BUSY) before
// the send succeeds. The node that finally receives the copy must be Pick(group, shard, copy), and the copies of a
// shard must end up on distinct nodes. The retry back-off is the real one (0.5 s, 0.75 s ...), so the cases run
// concurrently.
// =====================================================================================================================

type rFail struct {
	Part   string `json:"part"`
	Key    string `json:"key"`
	Detail string `json:"detail"`
	Group  string `json:"group"`
	Shard  int    `json:"shard"`
	Copy   int    `json:"copy"`
	Faults int    `json:"transient_faults_before_success"`
}

type rStats struct {
	fails map[string]*rFail
	cases int
	sends int
	mu    sync.Mutex
}

func (st *rStats) fail(f *rFail) {
	st.mu.Lock()
	defer st.mu.Unlock()
	if o, ok := st.fails[f.Key]; ok && o.Faults <= f.Faults {
		return
	}
	st.fails[f.Key] = f
}

func rCase(st *rStats, in *instance, g, variant, s, c, faults int) string {
	want, err := in.sel.Pick(groupNames[g], "", uint32(s), uint32(c))
	if err != nil {
		harnessErr("part R: Pick failed on a populated selector: " + err.Error())
	}
	ctx, cancel := context.WithTimeout(context.Background(), 2*time.Minute)
	defer cancel()
	n, got := 0, ""
	err = lifecycle.V16PickAndRun(ctx, in.sel, groupNames[g], uint32(s), uint32(c), func(nodeID string) error {
		st.mu.Lock()
		st.sends++
		st.mu.Unlock()
		n++
		if n <= faults {
			return queue.ErrServerBusy
		}
		got = nodeID
		return nil
	})
	mk := func(key, detail string) {
		st.fail(&rFail{Part: "R", Key: key, Detail: detail, Group: fmt.Sprintf("%s(%d,%d)", groupNames[g], groupShards[g][variant], groupReplicas[g][variant]), Shard: s, Copy: c, Faults: faults})
	}
	if err != nil {
		mk("R/send-gave-up", fmt.Sprintf("pickAndRun returned %v after %d transient failures although the next send would succeed", err, faults))
		return ""
	}
	if got != want {
		mk("R/copy-placed-off-assignment", fmt.Sprintf("copy %d of %s shard %d was delivered to %s after %d transient send failure(s); every coordinator assigns it to %s", c, groupNames[g], s, got, faults, want))
	}
	return got
}

func runPartR() (st *rStats) {
	st = &rStats{fails: map[string]*rFail{}}
	defer func() {
		if p := recover(); p != nil {
			st.fail(&rFail{Part: "R", Key: "R/panic", Detail: fmt.Sprint(p)})
		}
	}()
	in := newInstance(&configs[0]) // (initProtos was called by part L before this goroutine started)
	type gv struct{ g, v int }
	gvs := []gv{{0, 1}, {2, 1}}
	for _, x := range gvs {
		in.apply(event{kind: evPutGroup, idx: x.g, variant: x.v})
	}
	for i := 0; i < nNodes; i++ {
		in.apply(event{kind: evAddNode, idx: i})
	}
	maxFaults := 2
	var wg sync.WaitGroup
	for _, x := range gvs {
		for s := 0; s < groupShards[x.g][x.v]; s++ {
			// fault patterns of the copies of one shard are independent: enumerate the product
			copies := groupReplicas[x.g][x.v] + 1
			total := 1
			for i := 0; i < copies; i++ {
				total *= maxFaults + 1
			}
			for pat := 0; pat < total; pat++ {
				wg.Add(1)
				st.cases++
				go func(g, v, s, pat int) {
					defer wg.Done()
					seen := map[string]int{}
					p := pat
					for c := 0; c < copies; c++ {
						f := p % (maxFaults + 1)
						p /= maxFaults + 1
						got := rCase(st, in, g, v, s, c, f)
						if got == "" {
							continue
						}
						if o, dup := seen[got]; dup {
							st.fail(&rFail{Part: "R", Key: "R/replicas-colocated", Detail: fmt.Sprintf("copies %d and %d of %s shard %d were both delivered to %s (fault pattern %d)", o, c, groupNames[g], s, got, pat), Group: groupNames[g], Shard: s, Copy: c, Faults: f})
						}
						seen[got] = c
					}
				}(x.g, x.v, s, pat)
			}
		}
	}
	wg.Wait()
	return st
}

func reportPartR(r *ev.Run, st *rStats) {
	r.Set("R_cases(group, shard, fault pattern over its copies: <=2 transient send failures per copy)", st.cases)
	r.Set("R_sends_through_real_pickAndRun", st.sends)
	r.Add("transitions", st.sends)
	r.Add("traces_validated_against_impl", st.cases)
	keys := make([]string, 0, len(st.fails))
	for k := range st.fails {
		keys = append(keys, k)
	}
	sort.Strings(keys)
	for _, k := range keys {
		fmt.Println("part R:", k, "-", st.fails[k].Detail)
		r.Violation(k, st.fails[k])
	}
}

// replayR re-runs part R (it is small) and reports the artefact's key if it shows again.
func replayR(f rFail) {
	initProtos()
	st := runPartR()
	for k, v := range st.fails {
		fmt.Println("violation:", k, "-", v.Detail)
	}
	if _, ok := st.fails[f.Key]; ok {
		os.Exit(1)
	}
	fmt.Println("no violation with key", f.Key)
}
