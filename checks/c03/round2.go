package main

// C03 round 2 (see NOTES-round2.md):
//   pair     — operation-granularity interleavings of TWO measure merges of one process (two tables = two shards): merge X
//              is suspended before each of its output file operations (file-system seam of the real mergeParts), a complete
//              merge Y of the other table runs, X resumes; both outputs must equal the version-resolved union of their inputs.
//   inflight — a sidx query in flight across the introduction half of a flush / merge / flusher-side merge: the half runs at
//              each context lookup of the query (before / after it took its snapshot reference, and at every later stage).

import (
	"encoding/json"
	"fmt"
	"os"
	"runtime"
	"sort"
	"strconv"
	"strings"
	"time"

	"github.com/apache/skywalking-banyandb/banyand/measure"
	"github.com/apache/skywalking-banyandb/pkg/verif/ev"
	"github.com/apache/skywalking-banyandb/pkg/verif/par"
)

// ---- pair phase: part alphabet ----------------------------------------------------------------------------------------

// Every block holds > 256 distinct string values per column, so that the columns are stored plain (not dictionary-encoded)
// and the merger decodes them through the process-wide pooled column-values decoder. Table 1 and table 2 have parts of the
// same shape with different payloads of the same length.
const (
	pairN     = 300
	pairParts = 4
)

func pairRows(table, i int) []measure.VRow {
	var rows []measure.VRow
	add := func(s uint64, t int64, v int64, tagT int) {
		rows = append(rows, measure.VRow{S: s, T: t, V: v, P: int64(table)*1000000 + int64(i)*100000 + int64(s)*10000 + t, TagT: tagT})
	}
	switch i {
	case 0: // series 1, ts 1..N
		for t := 1; t <= pairN; t++ {
			add(1, int64(t), 10, 2)
		}
	case 1: // series 1, overlapping the second half of part 0 with a higher version, and beyond
		for t := pairN/2 + 1; t <= pairN/2+pairN; t++ {
			add(1, int64(t), 20, 2)
		}
	case 2: // series 2
		for t := 1; t <= pairN; t++ {
			add(2, int64(t), 10, 2)
		}
	case 3: // both series, lowest version, family without tag c
		for s := uint64(1); s <= 2; s++ {
			for t := 1; t <= pairN; t++ {
				add(s, int64(t), 5, 3)
			}
		}
	default:
		panic("pairRows")
	}
	return rows
}

func pairUnion(table int, pos []int) *mpart {
	p := &mpart{rows: map[key]mrow{}}
	for _, i := range pos {
		for _, r := range pairRows(table, i) {
			resolveInto(p.rows, key{r.S, r.T}, mrow{v: r.V, p: r.P, tagT: r.TagT})
		}
	}
	return p
}

type pairTables struct {
	t   [2]*measure.VTable
	ids [2][]uint64
}

func pairSetup(base string) *pairTables {
	pt := &pairTables{}
	for ti := 0; ti < 2; ti++ {
		t := measure.VOpen(fmt.Sprintf("%s/pair%d", base, ti+1), []uint64{1, 2})
		for i := 0; i < pairParts; i++ {
			t.Write(pairRows(ti+1, i))
			if !t.FlushA() || !t.FlushB() {
				panic("pair setup: flush refused")
			}
		}
		pt.t[ti] = t
		pt.ids[ti] = t.FileParts()
		if len(pt.ids[ti]) != pairParts {
			panic(fmt.Sprintf("pair setup: %d file parts", len(pt.ids[ti])))
		}
	}
	return pt
}

func (pt *pairTables) close() {
	for _, t := range pt.t {
		if t != nil {
			t.Close()
		}
	}
}

func (pt *pairTables) pick(ti int, pos []int) []uint64 {
	var ids []uint64
	for _, p := range pos {
		ids = append(ids, pt.ids[ti][p])
	}
	return ids
}

const (
	pairOuterWhat = "pair: output of a merge suspended at an output file operation while a complete merge of another table ran"
	pairInnerWhat = "pair: output of a merge run while a merge of another table was suspended at an output file operation"
)

// runPair: merge `outer` of table 1 suspended before output file operation `at` (at < 0: not suspended), complete merge
// `inner` of table 2 in the gap. Returns the violations and the number of output file operations of the outer merge.
func (pt *pairTables) runPair(outer, inner []int, at int) (vs []viol, ops int, innerRan bool) {
	defer func() {
		if r := recover(); r != nil {
			s := fmt.Sprint(r)
			if i := strings.IndexByte(s, '\n'); i >= 0 {
				s = s[:i]
			}
			if len(s) > 160 {
				s = s[:160]
			}
			vs = append(vs, viol{Key: "pair: panic in a merge interleaved with a merge of another table: " + numRe.ReplaceAllString(s, "#"), Detail: fmt.Sprint(r)})
		}
	}()
	var innerDump measure.VPart
	during := func() {
		innerDump, _ = pt.t[1].MergeDirectAt(pt.pick(1, inner), -1, nil)
		innerRan = true
	}
	outDump, n := pt.t[0].MergeDirectAt(pt.pick(0, outer), at, during)
	ops = n
	after := "merge(output written)"
	vs = append(vs, checkPart(pairOuterWhat, outDump, pairUnion(1, outer), after)...)
	if innerRan {
		vs = append(vs, checkPart(pairInnerWhat, innerDump, pairUnion(2, inner), after)...)
	}
	return vs, ops, innerRan
}

// ---- sidx in-flight phase ------------------------------------------------------------------------------------------------

type inflightScenario struct {
	prefix []string
	op     string
}

func inflightScenarios(thorough bool) []inflightScenario {
	w := []string{"w:S0", "w:S1", "w:S2"}
	cat := func(a []string, b ...string) []string { return append(append([]string(nil), a...), b...) }
	sc := []inflightScenario{
		{cat(w, "fA"), "fB"},
		{cat(w, "xA"), "xB"},
		{[]string{"w:S0", "fA", "w:S1"}, "fB"},
		{[]string{"w:S0", "w:S1", "xA", "w:S2"}, "xB"},
	}
	for _, s := range subsets(3, 2) {
		sc = append(sc, inflightScenario{cat(w, "fA", "fB", "mA:"+posList(s)), "mB"})
	}
	sc = append(sc, inflightScenario{cat(w, "fA", "fB", "mA:0,1", "w:S4"), "mB"})
	_ = thorough // same scenario set in both tiers
	return sc
}

// ---- jobs, worker, master -------------------------------------------------------------------------------------------------

// pairInner: the merges of table 2 that run in the gap: all four parts, a two-series merge without overlap, a one-series
// merge with overlap (quick); every subset >= 2 (thorough).
func pairInner(thorough bool) [][]int {
	if thorough {
		return subsets(pairParts, 2)
	}
	return [][]int{{0, 1, 2, 3}, {0, 2}, {0, 1}}
}

type r2Job struct {
	kind  string // "pair" | "inflight"
	outer []int
	inner []int
	sc    inflightScenario
	q     string
}

func r2Jobs(thorough bool) []r2Job {
	var jobs []r2Job
	for _, o := range subsets(pairParts, 2) {
		for _, in := range pairInner(thorough) {
			jobs = append(jobs, r2Job{kind: "pair", outer: o, inner: in})
		}
	}
	for _, sc := range inflightScenarios(thorough) {
		for _, q := range sidxQueries {
			jobs = append(jobs, r2Job{kind: "inflight", sc: sc, q: q.name})
		}
	}
	return jobs
}

type r2Out struct {
	Jobs          int        `json:"jobs"`
	PairRuns      int        `json:"pair_runs"`
	PairHold      int        `json:"pair_hold_points"`
	PairInnerRan  int        `json:"pair_inner_ran"`
	PairMaxOps    int        `json:"pair_max_ops"`
	InflightRuns  int        `json:"inflight_runs"`
	InflightFired int        `json:"inflight_fired"`
	InflightMax   int        `json:"inflight_max_lookups"`
	Viol          []poolViol `json:"viol"`
}

func round2Worker(base string, thorough bool) {
	wi, wn, _ := par.Worker()
	var out r2Out
	seen := map[string]bool{}
	add := func(job int, phase string, hist []string, vs []viol) {
		for _, v := range vs {
			if !seen[v.Key] {
				seen[v.Key] = true
				out.Viol = append(out.Viol, poolViol{Job: job, Phase: phase, Key: v.Key, Hist: hist, Detail: v.Detail})
			}
		}
	}
	var pt *pairTables
	defer func() {
		if pt != nil {
			pt.close()
		}
	}()
	for i, j := range r2Jobs(thorough) {
		if i%wn != wi {
			continue
		}
		out.Jobs++
		switch j.kind {
		case "pair":
			if pt == nil {
				pt = pairSetup(fmt.Sprintf("%s/r2w%d", base, wi))
			}
			hist := func(at int) []string {
				return []string{"outer:" + posList(j.outer), "inner:" + posList(j.inner), "at:" + strconv.Itoa(at)}
			}
			vs, ops, _ := pt.runPair(j.outer, j.inner, -1)
			out.PairRuns++
			add(i, "pair", hist(-1), vs)
			if ops > out.PairMaxOps {
				out.PairMaxOps = ops
			}
			for at := 0; at < ops; at++ {
				vs, ops2, ran := pt.runPair(j.outer, j.inner, at)
				out.PairRuns++
				out.PairHold++
				if ran {
					out.PairInnerRan++
				}
				if ops2 != ops && len(vs) == 0 {
					vs = append(vs, viol{Key: "pair: the number of output file operations of a merge depends on a merge of another table",
						Detail: map[string]any{"alone": ops, "interleaved": ops2}})
				}
				add(i, "pair", hist(at), vs)
			}
		case "inflight":
			run := func(at int) (sidxResult, []string) {
				h := append(append([]string(nil), j.sc.prefix...), fmt.Sprintf("@%s@%d:%s", j.q, at, j.sc.op))
				return executeSidx(fmt.Sprintf("%s/r2s%d-%d", base, i, at+1), h), h
			}
			res, h := run(-1)
			out.InflightRuns++
			add(i, "sidx", h, res.viol)
			if res.calls > out.InflightMax {
				out.InflightMax = res.calls
			}
			for at := 0; at < res.calls; at++ {
				r2, h2 := run(at)
				out.InflightRuns++
				out.InflightFired++
				add(i, "sidx", h2, r2.viol)
			}
		}
	}
	b, _ := json.Marshal(out)
	par.Emit(b)
}

func round2Master(r *ev.Run, thorough bool) {
	t0 := time.Now()
	results, err := par.Run(8, "C03_R2=1")
	if err != nil {
		fmt.Println("HARNESS-ERROR:", err)
		os.Exit(2)
	}
	var tot r2Out
	var pv []poolViol
	for _, b := range results {
		var o r2Out
		if err := json.Unmarshal(b, &o); err != nil {
			fmt.Println("HARNESS-ERROR: bad round-2 worker result:", err)
			os.Exit(2)
		}
		tot.Jobs += o.Jobs
		tot.PairRuns += o.PairRuns
		tot.PairHold += o.PairHold
		tot.PairInnerRan += o.PairInnerRan
		tot.InflightRuns += o.InflightRuns
		tot.InflightFired += o.InflightFired
		if o.PairMaxOps > tot.PairMaxOps {
			tot.PairMaxOps = o.PairMaxOps
		}
		if o.InflightMax > tot.InflightMax {
			tot.InflightMax = o.InflightMax
		}
		pv = append(pv, o.Viol...)
	}
	jobs := r2Jobs(thorough)
	if tot.Jobs != len(jobs) {
		fmt.Printf("HARNESS-ERROR: %d of %d round-2 jobs reported\n", tot.Jobs, len(jobs))
		os.Exit(2)
	}
	if tot.PairInnerRan != tot.PairHold {
		fmt.Printf("HARNESS-ERROR: the interleaved merge ran at %d of %d hold points\n", tot.PairInnerRan, tot.PairHold)
		os.Exit(2)
	}
	sort.SliceStable(pv, func(i, j int) bool { return pv[i].Job < pv[j].Job })
	seen := map[string]bool{}
	for _, v := range pv {
		if !seen[v.Key] {
			seen[v.Key] = true
			r.Violation(v.Key, artefact{Phase: v.Phase, Hist: v.Hist, Detail: v.Detail})
		}
	}
	npair := len(subsets(pairParts, 2))
	ninner := len(pairInner(thorough))
	r.Set("round2_pair_merges", map[string]any{
		"tables":                   "2 measure tables of one process, 4 file parts each (series 1; series 1 overlapping with a higher version; series 2; both series without tag c), 300 rows per series and part: every block has > 256 distinct string values, i.e. plain-encoded columns decoded through the pooled decoder",
		"ordered_pairs":            npair * ninner,
		"hold_points":              tot.PairHold,
		"max_output_file_ops":      tot.PairMaxOps,
		"pair_executions":          tot.PairRuns,
		"interleaved_merges_run":   tot.PairInnerRan,
		"interleaving_granularity": "merge X of table 1 (every subset >=2) suspended before each file operation of its output part (CreateFile, Write, WriteAtomic), a complete merge Y of table 2 (quick: all parts / parts 0,2 / parts 0,1; thorough: every subset >=2) runs, X resumes",
	})
	r.Set("round2_sidx_inflight", map[string]any{
		"scenarios":           len(inflightScenarios(thorough)),
		"queries":             len(sidxQueries),
		"executions":          tot.InflightRuns,
		"hold_points":         tot.InflightFired,
		"max_context_lookups": tot.InflightMax,
		"granularity":         "the introduction half (fB / xB / mB) is applied at each context lookup (query.GetTracer) of one QuerySync: before it takes its snapshot reference, between the reference and the part selection, and at every later stage",
	})
	fmt.Printf("C03 round 2: pair merges: %d ordered pairs, %d hold points (max %d output file operations), %d executions | sidx in-flight: %d scenarios x %d queries, %d hold points, %d executions; took %.1fs\n",
		npair*ninner, tot.PairHold, tot.PairMaxOps, tot.PairRuns, len(inflightScenarios(thorough)), len(sidxQueries), tot.InflightFired, tot.InflightRuns, time.Since(t0).Seconds())
}

// replayPair re-runs one recorded pair interleaving.
func replayPair(hist []string, key, base string) {
	var outer, inner []int
	at := -1
	for _, h := range hist {
		switch {
		case strings.HasPrefix(h, "outer:"), strings.HasPrefix(h, "inner:"):
			p := parsePositions(h)
			if strings.HasPrefix(h, "outer:") {
				outer = p
			} else {
				inner = p
			}
		case strings.HasPrefix(h, "at:"):
			at, _ = strconv.Atoi(h[3:])
		}
	}
	runtime.GOMAXPROCS(1) // as in the worker processes: the suspended and the interleaved merge share one pool shard
	pt := pairSetup(base)
	vs, ops, ran := pt.runPair(outer, inner, at)
	pt.close()
	fmt.Printf("pair: merge of parts %v of table 1 (%d output file operations) suspended before operation %d; complete merge of parts %v of table 2 in the gap (ran: %v)\n",
		outer, ops, at, inner, ran)
	hit := false
	for _, v := range vs {
		fmt.Println("violation:", v.Key)
		if b, err := json.Marshal(v.Detail); err == nil && len(b) < 4000 {
			fmt.Println("  ", string(b))
		}
		hit = hit || v.Key == key
	}
	if len(vs) > 0 {
		if !hit {
			fmt.Println("(recorded key not reproduced, other violations present)")
		}
		os.RemoveAll(base)
		os.Exit(1)
	}
	fmt.Println("no violation")
}
