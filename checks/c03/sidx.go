package main

// C03 for the ordered secondary index (banyand/internal/sidx), driven through its exported halves:
// ConvertToMemPart+IntroduceMemPart | Flush -> IntroduceFlushed | Merge -> IntroduceMerged, observed by QuerySync (the
// real heap merge) and ScanQuery (every part, row by row, with the id of the part a row is stored in).

import (
	"context"
	"encoding/json"
	"fmt"
	"os"
	"sort"
	"strconv"
	"strings"
	"sync"

	"github.com/apache/skywalking-banyandb/api/common"
	modelv1 "github.com/apache/skywalking-banyandb/api/proto/banyandb/model/v1"
	"github.com/apache/skywalking-banyandb/banyand/internal/sidx"
	"github.com/apache/skywalking-banyandb/banyand/protector"
	"github.com/apache/skywalking-banyandb/pkg/fs"
	"github.com/apache/skywalking-banyandb/pkg/index"
	pbv1 "github.com/apache/skywalking-banyandb/pkg/pb/v1"
	"github.com/apache/skywalking-banyandb/pkg/query/model"
	opsearch "github.com/apache/skywalking-banyandb/pkg/verif/opsearch2"
)

// element alphabet: 2 series x keys {10,20,30}; sidx keeps every element (no version resolution), so the reference is
// the multiset union. Data is unique per element (QuerySync de-duplicates equal data, that is its documented contract).
type selem struct {
	s    uint64
	key  int64
	data string
}

var sidxBatches = map[string][]selem{
	"S0": {{1, 10, "a0"}, {1, 20, "a1"}},
	"S1": {{1, 20, "b0"}, {1, 30, "b1"}, {2, 10, "b2"}},
	"S2": {{1, 10, "c0"}, {2, 10, "c1"}, {2, 20, "c2"}},
	"S3": {{2, 30, "d0"}, {1, 30, "d1"}},
	"S4": {{1, 20, "e0"}, {1, 20, "e1"}, {2, 20, "e2"}}, // the same (series,key) twice inside one batch
	"S5": {{1, 20, "f0"}},
}

var sidxBatchOrder = []string{"S0", "S1", "S2", "S3", "S4", "S5"}

// every batch is written with a timestamp range (ConvertToMemPart's optional min/max, stored in the part's manifest and
// used by queries with MinTimestamp/MaxTimestamp to prune parts): S1, S4 and S5 are nested inside S0's range, S2
// overlaps it, S3 is disjoint.
var sidxRanges = map[string][2]int64{
	"S0": {0, 100}, "S1": {40, 60}, "S2": {50, 150}, "S3": {200, 300}, "S4": {45, 55}, "S5": {10, 20},
}

func (e selem) String() string { return fmt.Sprintf("%d,%d,%s", e.s, e.key, e.data) }

type spart struct {
	id   uint64
	mem  bool
	rows []string // sorted
	minT int64
	maxT int64
}

type spending struct {
	inputs []uint64
	outID  uint64
	rows   []string
	minT   int64
	maxT   int64
}

type sidxModel struct {
	parts   []*spart
	nextID  uint64
	written []string
	maint   int
	pFlush  []uint64
	pMem    *spending
	pMerge  *spending
	acked   []string
	ackedR  map[string][2]int64 // element -> timestamp range of the batch that wrote it
}

func (m *sidxModel) find(id uint64) int {
	for i, p := range m.parts {
		if p.id == id {
			return i
		}
	}
	return -1
}

func (m *sidxModel) ids(mem bool) (out []uint64) {
	for _, p := range m.parts {
		if p.mem == mem {
			out = append(out, p.id)
		}
	}
	return
}

func (m *sidxModel) union(ids []uint64, outID uint64) *spending {
	pm := &spending{inputs: ids, outID: outID}
	for i, id := range ids {
		p := m.parts[m.find(id)]
		pm.rows = append(pm.rows, p.rows...)
		if i == 0 || p.minT < pm.minT {
			pm.minT = p.minT
		}
		if i == 0 || p.maxT > pm.maxT {
			pm.maxT = p.maxT
		}
	}
	sort.Strings(pm.rows)
	return pm
}

func (m *sidxModel) remove(ids []uint64) {
	var keep []*spart
	for _, p := range m.parts {
		drop := false
		for _, id := range ids {
			drop = drop || p.id == id
		}
		if !drop {
			keep = append(keep, p)
		}
	}
	m.parts = keep
}

func (m *sidxModel) step(op string) bool {
	switch {
	case strings.HasPrefix(op, "w:"):
		name := op[2:]
		for _, w := range m.written {
			if w == name {
				return false
			}
		}
		m.nextID++
		rg := sidxRanges[name]
		p := &spart{id: m.nextID, mem: true, minT: rg[0], maxT: rg[1]}
		if m.ackedR == nil {
			m.ackedR = map[string][2]int64{}
		}
		for _, e := range sidxBatches[name] {
			p.rows = append(p.rows, e.String())
			m.acked = append(m.acked, e.String())
			m.ackedR[e.String()] = rg
		}
		sort.Strings(p.rows)
		m.parts = append(m.parts, p)
		m.written = append(m.written, name)
		return true
	case op == "fA":
		if m.pFlush != nil || m.pMem != nil || len(m.ids(true)) == 0 {
			return false
		}
		m.pFlush = m.ids(true)
	case op == "fB":
		if m.pFlush == nil {
			return false
		}
		for _, id := range m.pFlush {
			if i := m.find(id); i >= 0 {
				m.parts[i].mem = false
			}
		}
		m.pFlush = nil
	case op == "xA":
		if m.pFlush != nil || m.pMem != nil || len(m.ids(true)) < 2 {
			return false
		}
		in := m.ids(true)
		m.nextID++
		m.pMem = m.union(in, m.nextID)
	case op == "xB":
		if m.pMem == nil {
			return false
		}
		m.remove(m.pMem.inputs)
		m.parts = append(m.parts, &spart{id: m.pMem.outID, rows: m.pMem.rows, minT: m.pMem.minT, maxT: m.pMem.maxT})
		m.pMem = nil
	case strings.HasPrefix(op, "mA:"):
		if m.pMerge != nil {
			return false
		}
		fp := m.ids(false)
		var in []uint64
		for _, i := range parsePositions(op) {
			if i >= len(fp) {
				return false
			}
			in = append(in, fp[i])
		}
		if len(in) < 2 {
			return false
		}
		m.nextID++
		m.pMerge = m.union(in, m.nextID)
	case op == "mB":
		if m.pMerge == nil {
			return false
		}
		m.remove(m.pMerge.inputs)
		m.parts = append(m.parts, &spart{id: m.pMerge.outID, rows: m.pMerge.rows, minT: m.pMerge.minT, maxT: m.pMerge.maxT})
		m.pMerge = nil
	default:
		panic("unknown op " + op)
	}
	m.maint++
	return true
}

// real instance + pending introductions
type sidxReal struct {
	s      sidx.SIDX
	pFlush *sidx.FlusherIntroduction
	pMem   *sidx.MergerIntroduction
	pMerge *sidx.MergerIntroduction
}

func idSet(ids []uint64) map[uint64]struct{} {
	m := map[uint64]struct{}{}
	for _, id := range ids {
		m[id] = struct{}{}
	}
	return m
}

// apply performs op on the real index; the model has already stepped, so its pending fields name the part ids.
func (r *sidxReal) apply(op string, m *sidxModel) {
	switch {
	case strings.HasPrefix(op, "w:"):
		var reqs []sidx.WriteRequest
		for _, e := range sidxBatches[op[2:]] {
			reqs = append(reqs, sidx.WriteRequest{SeriesID: common.SeriesID(e.s), Key: e.key, Data: []byte(e.data),
				Tags: []sidx.Tag{{Name: "t", Value: []byte("t" + e.data), ValueType: pbv1.ValueTypeStr}}})
		}
		rg := sidxRanges[op[2:]]
		mp, err := r.s.ConvertToMemPart(reqs, 1, &rg[0], &rg[1])
		if err != nil {
			panic(err)
		}
		r.s.IntroduceMemPart(m.nextID, mp)
	case op == "fA":
		fi, err := r.s.Flush(idSet(m.pFlush))
		if err != nil || fi == nil {
			panic(fmt.Sprintf("sidx flush: %v %v", fi, err))
		}
		r.pFlush = fi
	case op == "fB":
		r.s.IntroduceFlushed(r.pFlush)
		r.pFlush.Release()
		r.pFlush = nil
	case op == "xA":
		mi, err := r.s.Merge(make(chan struct{}), idSet(m.pMem.inputs), m.pMem.outID, nil)
		if err != nil || mi == nil {
			panic(fmt.Sprintf("sidx merge: %v %v", mi, err))
		}
		r.pMem = mi
	case op == "xB":
		rel := r.s.IntroduceMerged(r.pMem)
		r.pMem.Release()
		r.pMem = nil
		if rel != nil {
			rel()
		}
	case strings.HasPrefix(op, "mA:"):
		mi, err := r.s.Merge(make(chan struct{}), idSet(m.pMerge.inputs), m.pMerge.outID, nil)
		if err != nil || mi == nil {
			panic(fmt.Sprintf("sidx merge: %v %v", mi, err))
		}
		r.pMerge = mi
	case op == "mB":
		rel := r.s.IntroduceMerged(r.pMerge)
		r.pMerge.Release()
		r.pMerge = nil
		if rel != nil {
			rel()
		}
	}
}

func (r *sidxReal) close() {
	if r.pFlush != nil {
		r.pFlush.ReleaseFlushedParts()
		r.pFlush.Release()
	}
	for _, mi := range []*sidx.MergerIntroduction{r.pMem, r.pMerge} {
		if mi != nil {
			mi.ReleaseNewPart()
			mi.Release()
		}
	}
	_ = r.s.Close()
}

type sidxQuery struct {
	name   string
	sids   []uint64
	minKey *int64
	maxKey *int64
	minTS  *int64 // with maxTS: parts whose timestamp range does not overlap are pruned (part-level only, no row filter)
	maxTS  *int64
	desc   bool
}

func i64(v int64) *int64 { return &v }

var sidxQueries = []sidxQuery{
	{name: "all", sids: []uint64{1, 2}},
	{name: "all-desc", sids: []uint64{1, 2}, desc: true},
	{name: "series1", sids: []uint64{1}},
	{name: "series2", sids: []uint64{2}},
	{name: "key20", sids: []uint64{1, 2}, minKey: i64(20), maxKey: i64(20)},
	{name: "key10-20", sids: []uint64{1, 2}, minKey: i64(10), maxKey: i64(20)},
	{name: "ts0-5", sids: []uint64{1, 2}, minTS: i64(0), maxTS: i64(5)},
	{name: "ts80-90", sids: []uint64{1, 2}, minTS: i64(80), maxTS: i64(90)},
	{name: "ts120-130", sids: []uint64{1, 2}, minTS: i64(120), maxTS: i64(130)},
	{name: "ts250-260", sids: []uint64{1, 2}, minTS: i64(250), maxTS: i64(260)},
}

func flattenSidx(resp []*sidx.QueryResponse) (rows []string, byPart map[uint64][]string, keys []int64, err error) {
	byPart = map[uint64][]string{}
	for _, qr := range resp {
		if qr.Error != nil {
			return nil, nil, nil, qr.Error
		}
		for i := range qr.Keys {
			row := fmt.Sprintf("%d,%d,%s", qr.SIDs[i], qr.Keys[i], qr.Data[i])
			if tv, ok := qr.Tags["t"]; ok && i < len(tv) {
				row += "|t=" + tv[i]
			}
			rows = append(rows, row)
			keys = append(keys, qr.Keys[i])
			if i < len(qr.PartIDs) {
				byPart[qr.PartIDs[i]] = append(byPart[qr.PartIDs[i]], row)
			}
		}
	}
	return
}

func withTag(rows []string) []string {
	out := make([]string, len(rows))
	for i, r := range rows {
		out[i] = r + "|t=t" + r[strings.LastIndexByte(r, ',')+1:]
	}
	sort.Strings(out)
	return out
}

type sidxResult struct {
	state   string
	viol    []viol
	outcome string
	nontriv bool
	obs     map[string][]string
	calls   int // in-flight variant: number of context lookups the chosen query made (= its hold points)
}

// sidxInflight (round 2): the last element of a history may be "@<query>@<n>:<op>": the maintenance half <op> (fB, xB,
// mB) is not applied before the oracle runs but WHILE query <query> is in flight: the query gets a context whose Value
// method (the seam: query.GetTracer(ctx) is looked up by QuerySync before and after it takes its snapshot reference, and by
// every later stage) applies <op> at its n-th call (n < 0: never, calls are only counted).
type sidxInflight struct {
	q     string
	op    string
	at    int
	calls int
	fire  func()
	mu    sync.Mutex
}

type sidxHookCtx struct {
	context.Context
	inf *sidxInflight
}

func (c *sidxHookCtx) Value(key any) any {
	inf := c.inf
	inf.mu.Lock() // some lookups are made by the query's scanner goroutine
	defer inf.mu.Unlock()
	n := inf.calls
	inf.calls++
	if n == inf.at && inf.fire != nil {
		f := inf.fire
		inf.fire = nil
		f()
	}
	return c.Context.Value(key)
}

func parseInflight(op string) *sidxInflight {
	f := strings.SplitN(op[1:], "@", 2)
	g := strings.SplitN(f[1], ":", 2)
	n, err := strconv.Atoi(g[0])
	if err != nil {
		panic("bad in-flight op " + op)
	}
	return &sidxInflight{q: f[0], at: n, op: g[1]}
}

func executeSidx(dir string, h []string) (res sidxResult) {
	var real *sidxReal
	cur := ""
	var inf *sidxInflight
	if n := len(h); n > 0 && strings.HasPrefix(h[n-1], "@") {
		inf = parseInflight(h[n-1])
		h = h[:n-1]
	}
	defer func() {
		if r := recover(); r != nil {
			s := fmt.Sprint(r)
			if i := strings.IndexByte(s, '\n'); i >= 0 {
				s = s[:i]
			}
			if len(s) > 160 {
				s = s[:160]
			}
			res.viol = append(res.viol, viol{Key: "sidx: panic in " + cur + ": " + numRe.ReplaceAllString(s, "#"), Detail: fmt.Sprint(r)})
			res.outcome, res.state = "panic", ""
		}
		if real != nil {
			func() {
				defer func() { _ = recover() }()
				real.close()
			}()
		}
		_ = os.RemoveAll(dir)
	}()
	lfs := fs.NewLocalFileSystem()
	lfs.MkdirIfNotExist(dir, 0o755)
	s, err := sidx.NewSIDX(lfs, &sidx.Options{Memory: protector.Nop{}, Path: dir, AvailablePartIDs: []uint64{}})
	if err != nil {
		panic(err)
	}
	real = &sidxReal{s: s}
	m := &sidxModel{}
	last := ""
	for _, op := range h {
		cur = opKind(op)
		if !m.step(op) {
			panic("history not applicable in the model at " + op)
		}
		real.apply(op, m)
		last = cur
	}
	res.obs = map[string][]string{}
	// ---- every part, row by row
	cur = "scan"
	proj := []model.TagProjection{{Names: []string{"t"}}}
	scan, err := s.ScanQuery(context.Background(), sidx.ScanQueryRequest{TagProjection: proj})
	if err != nil {
		res.viol = append(res.viol, viol{Key: fmt.Sprintf("sidx: scan after %s: error %s", last, numRe.ReplaceAllString(err.Error(), "#")), Detail: err.Error()})
	}
	_, byPart, _, ferr := flattenSidx(scan)
	if ferr != nil {
		res.viol = append(res.viol, viol{Key: fmt.Sprintf("sidx: scan after %s: error", last), Detail: ferr.Error()})
	}
	var sb strings.Builder
	for _, p := range m.parts {
		got := append([]string(nil), byPart[p.id]...)
		sort.Strings(got)
		want := withTag(p.rows)
		if strings.Join(got, ";") != strings.Join(want, ";") {
			cls := "content differs from the union of its inputs"
			if len(got) < len(want) {
				cls = "elements missing compared with the union of its inputs"
			} else if len(got) > len(want) {
				cls = "more elements than the union of its inputs"
			}
			res.viol = append(res.viol, viol{Key: fmt.Sprintf("sidx: part in snapshot after %s: %s", last, cls), Detail: map[string]any{"part": p.id, "got": got, "want": want}})
		}
		delete(byPart, p.id)
	}
	for id, rows := range byPart {
		res.viol = append(res.viol, viol{Key: fmt.Sprintf("sidx: snapshot after %s: holds a part the reference does not have", last), Detail: map[string]any{"part": id, "rows": rows}})
	}
	// ---- stored timestamp range of every file part == hull of the ranges of the batches merged into it
	cur = "manifest"
	fileIDs := map[uint64]struct{}{}
	for _, p := range m.parts {
		if !p.mem {
			fileIDs[p.id] = struct{}{}
		}
	}
	for id, path := range s.PartPaths(fileIDs) {
		b, rerr := os.ReadFile(path + "/manifest.json")
		if rerr != nil {
			res.viol = append(res.viol, viol{Key: fmt.Sprintf("sidx: part in snapshot after %s: manifest unreadable", last), Detail: rerr.Error()})
			continue
		}
		var mf struct {
			Min *int64 `json:"minTimestamp"`
			Max *int64 `json:"maxTimestamp"`
		}
		if jerr := json.Unmarshal(b, &mf); jerr != nil {
			panic(jerr)
		}
		p := m.parts[m.find(id)]
		if mf.Min == nil || mf.Max == nil || *mf.Min != p.minT || *mf.Max != p.maxT {
			res.viol = append(res.viol, viol{Key: fmt.Sprintf("sidx: part in snapshot after %s: stored timestamp range differs from the hull of its inputs' ranges", last),
				Detail: map[string]any{"part": id, "manifest": string(b), "want": []int64{p.minT, p.maxT}}})
		}
	}
	// ---- queries
	stateLast := last
	for _, q := range sidxQueries {
		cur = "query " + q.name
		last = stateLast
		ctx := context.Background()
		if inf != nil && inf.q == q.name {
			last = stateLast + ", in flight across " + opKind(inf.op)
			inf.fire = func() {
				if !m.step(inf.op) {
					panic("in-flight half not applicable in the model: " + inf.op)
				}
				real.apply(inf.op, m)
				stateLast = opKind(inf.op)
			}
			ctx = &sidxHookCtx{Context: ctx, inf: inf}
		}
		req := sidx.QueryRequest{MinKey: q.minKey, MaxKey: q.maxKey, MinTimestamp: q.minTS, MaxTimestamp: q.maxTS, TagProjection: proj}
		for _, sid := range q.sids {
			req.SeriesIDs = append(req.SeriesIDs, common.SeriesID(sid))
		}
		if q.desc {
			req.Order = &index.OrderBy{Sort: modelv1.Sort_SORT_DESC}
		}
		resp, err := s.QuerySync(ctx, req)
		if inf != nil && inf.q == q.name {
			res.calls = inf.calls
			inf.fire = nil
		}
		if err != nil {
			res.viol = append(res.viol, viol{Key: fmt.Sprintf("sidx: query %s after %s: error %s", q.name, last, numRe.ReplaceAllString(err.Error(), "#")), Detail: err.Error()})
			continue
		}
		rows, _, keys, ferr := flattenSidx(resp)
		if ferr != nil {
			res.viol = append(res.viol, viol{Key: fmt.Sprintf("sidx: query %s after %s: error in response", q.name, last), Detail: ferr.Error()})
			continue
		}
		res.obs[q.name] = rows
		for i := 1; i < len(keys); i++ {
			if (!q.desc && keys[i-1] > keys[i]) || (q.desc && keys[i-1] < keys[i]) {
				res.viol = append(res.viol, viol{Key: fmt.Sprintf("sidx: query %s after %s: keys out of order", q.name, last), Detail: keys})
				break
			}
		}
		var want, must []string
		for _, r := range m.acked {
			f := strings.Split(r, ",")
			sid, _ := strconv.ParseUint(f[0], 10, 64)
			k, _ := strconv.ParseInt(f[1], 10, 64)
			ok := false
			for _, s := range q.sids {
				ok = ok || s == sid
			}
			if ok && (q.minKey == nil || k >= *q.minKey) && (q.maxKey == nil || k <= *q.maxKey) {
				want = append(want, r)
				if rg := m.ackedR[r]; q.minTS != nil && rg[0] <= *q.maxTS && rg[1] >= *q.minTS {
					must = append(must, r)
				}
			}
		}
		// QuerySync does not fill QueryResponse.Tags (copyTo requires a pre-sized map), so tags are compared through
		// ScanQuery only
		sort.Strings(want)
		got := make([]string, len(rows))
		for i, r := range rows {
			if j := strings.IndexByte(r, '|'); j >= 0 {
				r = r[:j]
			}
			got[i] = r
		}
		sort.Strings(got)
		if q.minTS != nil {
			// A timestamp-bounded query prunes whole parts by their stored range, it does not filter rows: every element whose
			// own batch range overlaps the bounds must be returned (any part that holds it has a range covering the batch's),
			// nothing but written elements may be returned; which other elements come along depends on the part layout.
			gotSet, wantSet := map[string]int{}, map[string]int{}
			for _, g := range got {
				gotSet[g]++
			}
			for _, w := range want {
				wantSet[w]++
			}
			var missing, extra []string
			for _, r := range must {
				if gotSet[r] == 0 {
					missing = append(missing, r)
				}
			}
			for g, n := range gotSet {
				if n > wantSet[g] {
					extra = append(extra, g)
				}
			}
			sort.Strings(missing)
			sort.Strings(extra)
			if len(missing) > 0 {
				res.viol = append(res.viol, viol{Key: fmt.Sprintf("sidx: query %s after %s: elements of a part whose timestamp range overlaps the query bounds are missing", q.name, last),
					Detail: map[string]any{"missing": missing, "got": got}})
			}
			if len(extra) > 0 {
				res.viol = append(res.viol, viol{Key: fmt.Sprintf("sidx: query %s after %s: elements duplicated or unexpected", q.name, last), Detail: map[string]any{"extra": extra, "got": got}})
			}
			continue
		}
		if strings.Join(got, ";") != strings.Join(want, ";") {
			cls := "wrong elements"
			if len(got) < len(want) {
				cls = "elements missing"
			} else if len(got) > len(want) {
				cls = "elements duplicated or unexpected"
			}
			res.viol = append(res.viol, viol{Key: fmt.Sprintf("sidx: query %s after %s: %s", q.name, last, cls), Detail: map[string]any{"got": got, "want": want}})
		}
	}
	// ---- canonical state: parts in order (rank ids), pending halves, written set
	ids := []uint64{}
	for _, p := range m.parts {
		ids = append(ids, p.id)
	}
	for _, pm := range []*spending{m.pMem, m.pMerge} {
		if pm != nil {
			ids = append(ids, pm.outID)
		}
	}
	sort.Slice(ids, func(i, j int) bool { return ids[i] < ids[j] })
	rank := map[uint64]int{}
	for _, id := range ids {
		rank[id] = len(rank)
	}
	for _, p := range m.parts {
		fmt.Fprintf(&sb, "part %d mem=%v [%d,%d] %s\n", rank[p.id], p.mem, p.minT, p.maxT, strings.Join(p.rows, ";"))
	}
	rk := func(x []uint64) []int {
		o := make([]int, len(x))
		for i := range x {
			o[i] = rank[x[i]]
		}
		return o
	}
	fmt.Fprintf(&sb, "pflush %v\n", rk(m.pFlush))
	if m.pMem != nil {
		fmt.Fprintf(&sb, "pmem %v -> %d\n", rk(m.pMem.inputs), rank[m.pMem.outID])
	}
	if m.pMerge != nil {
		fmt.Fprintf(&sb, "pmerge %v -> %d\n", rk(m.pMerge.inputs), rank[m.pMerge.outID])
	}
	w := append([]string(nil), m.written...)
	sort.Strings(w)
	fmt.Fprintf(&sb, "written %v\n", w)
	if len(res.viol) == 0 {
		// the digest is built from the reference, which equals what was read back from the implementation (checked above)
		res.state = sb.String()
	}
	res.outcome = fmt.Sprintf("sidx w%d mem%d file%d pf%v pm%v px%v", len(m.written), len(m.ids(true)), len(m.ids(false)), m.pFlush != nil, m.pMerge != nil, m.pMem != nil)
	if len(res.viol) > 0 {
		res.outcome = "violation"
	}
	res.nontriv = len(m.written) > 0 && m.maint > 0
	return res
}

type sidxSched struct {
	batches   []string
	maxWrites int
	maxMaint  int
	base      string
	seq       int
}

func (s *sidxSched) expand(it opsearch.Item) []opsearch.Succ {
	replay := func() *sidxModel {
		m := &sidxModel{}
		for _, op := range it.Hist {
			if !m.step(op) {
				panic("frontier history not applicable")
			}
		}
		return m
	}
	m := replay()
	var cand []string
	if len(m.written) < s.maxWrites {
		for _, b := range s.batches {
			cand = append(cand, "w:"+b)
		}
	}
	if m.maint < s.maxMaint {
		cand = append(cand, "fA", "fB", "xA", "xB", "mB")
		for _, ss := range subsets(len(m.ids(false)), 2) {
			cand = append(cand, "mA:"+posList(ss))
		}
	}
	var out []opsearch.Succ
	for _, op := range cand {
		if !replay().step(op) {
			continue
		}
		h := append(append([]string(nil), it.Hist...), op)
		s.seq++
		r := executeSidx(fmt.Sprintf("%s/s%d", s.base, s.seq), h)
		out = append(out, opsearch.Succ{Op: op, State: r.state, Viol: r.viol, Outcome: r.outcome, Nontrivial: r.nontriv})
	}
	return out
}
