package main

// C03 for the stream engine (banyand/stream), driven through inpkg/banyand/stream/c03stream.go: the same schedule search
// as for measure (writes interleaved with the two real halves of flush, file merge of every subset and the flusher's
// memory-part merge), observed by tsResult queries and by a dump of every part through the real block reader.
// A stream keeps every element (no version column): the reference is the multiset union of the acknowledged batches.

import (
	"encoding/json"
	"fmt"
	"os"
	"runtime"
	"runtime/pprof"
	"sort"
	"strconv"
	"strings"
	"time"

	"github.com/apache/skywalking-banyandb/banyand/stream"
	"github.com/apache/skywalking-banyandb/pkg/logger"
	"github.com/apache/skywalking-banyandb/pkg/verif/ev"
	opsearch "github.com/apache/skywalking-banyandb/pkg/verif/opsearch2"
	"github.com/apache/skywalking-banyandb/pkg/verif/par"
)

// ---- alphabet --------------------------------------------------------------------------------------------------------

type stTag struct {
	name string
	typ  int // 1 int64, 2 string
}

type stFam struct {
	name string
	tags []stTag
}

func fam(name string, tags ...stTag) stFam { return stFam{name, tags} }

var (
	tK  = stTag{"k", 2} // always a string
	tN  = stTag{"n", 1} // always an int
	tQ  = stTag{"q", 2} // always a string
	tCi = stTag{"c", 1} // tag c (family a, the FIRST family) written as int64 ...
	tCs = stTag{"c", 2} // ... or as string
	tDi = stTag{"d", 1} // tag d (family z, a LATER family: a conflict-free family may sort before it) as int64 ...
	tDs = stTag{"d", 2} // ... or as string
	tEi = stTag{"e", 1} // tag e: a second type-changing tag in the same family z
	tEs = stTag{"e", 2}
)

// Tag layouts (the "schema" a batch was written under). Every element has >= 2 tag families; families are stored and
// merged in name order (a < m < z).
var stLayouts = map[string][]stFam{
	// search alphabet: conflicting tag last in its family
	"ii": {fam("a", tK, tCi), fam("z", tN, tDi, tEi)},
	"si": {fam("a", tK, tCs), fam("z", tN, tDi, tEi)}, // vs ii: conflict in the first family only
	"is": {fam("a", tK, tCi), fam("z", tN, tDs, tEs)}, // vs ii: conflicts (two tags) only in a later family; family a is conflict-free
	"ss": {fam("a", tK, tCs), fam("z", tN, tDs, tEs)}, // vs ii: conflicts in two families at once
	"-s": {fam("a", tK), fam("z", tN, tDs, tEs)},      // tag c absent
	// three families, the conflict-free ones first; vs each other only d conflicts, vs ii / is only e resp. only d
	"3i": {fam("a", tK), fam("m", tQ), fam("z", tN, tDi, tEs)},
	"3s": {fam("a", tK), fam("m", tQ), fam("z", tN, tDs, tEs)},
	// column-order pool: the conflicting tag is the FIRST tag of its family
	"Ii": {fam("a", tCi, tK), fam("z", tN, tDi)},
	"Si": {fam("a", tCs, tK), fam("z", tN, tDi)},
	"iI": {fam("a", tK, tCi), fam("z", tDi, tN)},
	"iS": {fam("a", tK, tCi), fam("z", tDs, tN)},
	// schema-evolution pool: a tag family / a tag that older elements do not have
	"z0": {fam("m", tQ), fam("z", tN)},                    // families m and z only, no tag d
	"z1": {fam("m", tQ), fam("z", tN, tDi)},               // tag d added
	"az": {fam("a", tK), fam("m", tQ), fam("z", tN, tDi)}, // family a added (sorts before the existing ones)
	"aZ": {fam("a", tK, tCi), fam("m", tQ), fam("z", tN, tDs)},
	// block-boundary pools: d is a long string
	"big": {fam("a", tK), fam("z", tN, tDs)},
}

var stTss = []int64{1000, 2000, 3000}

type stBatchDef struct {
	layout string
	keys   [][2]int // (series 1|2, timestamp index)
}

var stBatches = map[string]stBatchDef{
	"B0": {"ii", [][2]int{{1, 0}, {1, 1}}},
	"B1": {"si", [][2]int{{1, 1}, {1, 2}, {2, 0}}},
	"B2": {"is", [][2]int{{1, 0}, {2, 0}, {2, 1}}},
	"B3": {"ss", [][2]int{{2, 2}, {1, 2}, {1, 2}}}, // the same (series,ts) twice inside one batch
	"B4": {"-s", [][2]int{{1, 0}, {1, 1}, {1, 2}, {2, 0}, {2, 1}, {2, 2}}},
	"B5": {"is", [][2]int{{1, 1}}},
	"T0": {"3i", [][2]int{{1, 0}, {1, 1}, {2, 0}}},
	"T1": {"3s", [][2]int{{1, 1}, {1, 2}, {2, 0}}},
	"R0": {"Ii", [][2]int{{1, 0}, {1, 1}}},
	"R1": {"Si", [][2]int{{1, 1}, {1, 2}, {2, 0}}},
	"R2": {"iI", [][2]int{{1, 0}, {2, 0}, {2, 1}}},
	"R3": {"iS", [][2]int{{2, 2}, {1, 2}, {2, 0}}},
	"E0": {"z0", [][2]int{{1, 0}, {1, 1}, {2, 0}}},
	"E1": {"z1", [][2]int{{1, 1}, {1, 2}, {2, 0}}},
	"E2": {"az", [][2]int{{1, 0}, {1, 2}, {2, 1}}},
	"E3": {"aZ", [][2]int{{1, 1}, {2, 0}, {2, 2}}},
	"E4": {"z0", [][2]int{{2, 1}, {1, 2}}},
}

var stBatchOrder = []string{"B0", "B1", "B2", "B3", "B4", "B5", "T0", "T1", "R0", "R1", "R2", "R3", "E0", "E1", "E2", "E3", "E4"}

// stElem is one written element of the reference: identity (series, ts, element id) + its tags "family.tag" -> rendered
// stored value ("int64:5" / "str:x").
type stElem struct {
	tags map[string]string
	s    uint64
	t    int64
	id   uint64
}

func stBatchIndex(name string) int {
	for i, n := range stBatchOrder {
		if n == name {
			return i
		}
	}
	return -1
}

func stValue(t stTag, id uint64, long int) stream.S3Tag {
	o := stream.S3Tag{Name: t.name, Type: t.typ}
	if t.typ == 1 {
		o.I = int64(id)*10 + int64(t.name[0]%10)
		return o
	}
	o.S = fmt.Sprintf("%s%07d", t.name, id)
	if long > 0 && t.name == "d" {
		o.S += strings.Repeat(string(rune('A'+id%26)), long-len(o.S))
	}
	return o
}

func stMake(layout string, s uint64, t int64, id uint64, long int) stream.S3Elem {
	e := stream.S3Elem{S: s, T: t, ID: id}
	for _, f := range stLayouts[layout] {
		sf := stream.S3Family{Name: f.name}
		for _, tg := range f.tags {
			sf.Tags = append(sf.Tags, stValue(tg, id, long))
		}
		e.Fams = append(e.Fams, sf)
	}
	return e
}

// boundary pools: name = <letter><target>, target = uncompressed size in bytes of A's single block.
const (
	stBigN    = 32    // elements of a full block
	stBigL    = 65503 // length of d of the first stBigN-1 elements
	stBigBase = 1029  // 32*16 + (1+1+32*8) + (1+1+32*8+1): block bytes without the d values
)

func stBatchElems(name string) []stream.S3Elem {
	if d, ok := stBatches[name]; ok {
		bi := stBatchIndex(name)
		var out []stream.S3Elem
		for i, k := range d.keys {
			out = append(out, stMake(d.layout, uint64(k[0]), stTss[k[1]], uint64(1000*(bi+1)+i+1), 0))
		}
		return out
	}
	target, err := strconv.Atoi(name[1:])
	if err != nil {
		panic("unknown batch " + name)
	}
	var out []stream.S3Elem
	switch name[0] {
	case 'A': // series 1, ts 1..32, one block of exactly <target> uncompressed bytes
		for i := 1; i <= stBigN; i++ {
			l := stBigL
			if i == stBigN {
				l = target - stBigBase - (stBigN-1)*stBigL
			}
			out = append(out, stMake("big", 1, int64(i), uint64(100+i), l))
		}
	case 'G': // elements at A's last timestamp and right after it
		for i := 0; i < 3; i++ {
			out = append(out, stMake("big", 1, int64(stBigN+i), uint64(200+i), 0))
		}
	case 'C': // elements at A's first timestamps
		out = append(out, stMake("big", 1, 1, 301, 0), stMake("big", 1, 2, 302, 0))
	case 'D': // a second block of the same size right after A
		for i := 1; i <= stBigN; i++ {
			l := stBigL
			if i == stBigN {
				l = target - stBigBase - (stBigN-1)*stBigL
			}
			out = append(out, stMake("big", 1, int64(stBigN+i), uint64(400+i), l))
		}
	case 'E': // another series plus one element in the middle of A, d written as int64 (conflict)
		out = append(out, stMake("ii", 2, 1, 501, 0), stMake("ii", 2, 2, 502, 0), stMake("ii", 1, int64(stBigN/2), 503, 0))
	default:
		panic("unknown batch " + name)
	}
	return out
}

func stRef(e stream.S3Elem) stElem {
	r := stElem{s: e.S, t: e.T, id: e.ID, tags: map[string]string{}}
	for _, f := range e.Fams {
		for _, t := range f.Tags {
			if t.Type == 1 {
				r.tags[f.Name+"."+t.Name] = "int64:" + strconv.FormatInt(t.I, 10)
			} else {
				r.tags[f.Name+"."+t.Name] = "str:" + stream.S3RenderStr(t.S)
			}
		}
	}
	return r
}

// famSet is the sorted list of tag families the element was written with.
func (e stElem) famSet() string {
	set := map[string]bool{}
	for k := range e.tags {
		set[k[:strings.IndexByte(k, '.')]] = true
	}
	var fs []string
	for f := range set {
		fs = append(fs, f)
	}
	sort.Strings(fs)
	return strings.Join(fs, ",")
}

// stMixedFams: were the elements written with different sets of tag families (a family added to / removed from the schema)?
func stMixedFams(elems []stElem) bool {
	for i := range elems {
		if elems[i].famSet() != elems[0].famSet() {
			return true
		}
	}
	return false
}

const (
	stShapePart  = " [its inputs were written with different sets of tag families]"
	stShapeQuery = " [a part was merged from inputs written with different sets of tag families]"
	stShapeProj  = " [the query projects only tag families that some of the written elements do not have]"
)

func (e stElem) String() string {
	keys := make([]string, 0, len(e.tags))
	for k := range e.tags {
		keys = append(keys, k)
	}
	sort.Strings(keys)
	s := fmt.Sprintf("%d,%d,%d", e.s, e.t, e.id)
	for _, k := range keys {
		s += "|" + k + "=" + e.tags[k]
	}
	return s
}

var stUniverse = map[string][]string{"a": {"k", "c"}, "m": {"q"}, "z": {"n", "d", "e"}}

// ---- reference model -------------------------------------------------------------------------------------------------

type stPart struct {
	id    uint64
	mem   bool
	elems []stElem
}

type stPending struct {
	inputs []uint64
	out    *stPart
}

type stModel struct {
	parts   []*stPart
	nextID  uint64
	written []string
	maint   int
	pFlush  []uint64
	pMem    *stPending
	pMerge  *stPending
	acked   []stElem
	layout  map[uint64]string // element id -> layout it was written under
}

func (m *stModel) find(id uint64) int {
	for i, p := range m.parts {
		if p.id == id {
			return i
		}
	}
	return -1
}

func (m *stModel) ids(mem bool) (out []uint64) {
	for _, p := range m.parts {
		if p.mem == mem {
			out = append(out, p.id)
		}
	}
	return
}

func (m *stModel) union(ids []uint64, outID uint64) *stPending {
	pm := &stPending{inputs: ids, out: &stPart{id: outID}}
	for _, id := range ids {
		pm.out.elems = append(pm.out.elems, m.parts[m.find(id)].elems...)
	}
	return pm
}

func (m *stModel) remove(ids []uint64) {
	var keep []*stPart
	for _, p := range m.parts {
		drop := false
		for _, id := range ids {
			drop = drop || p.id == id
		}
		if !drop {
			keep = append(keep, p)
		}
	}
	m.parts = keep
}

func (m *stModel) step(op string) bool {
	switch {
	case strings.HasPrefix(op, "w:"):
		name := op[2:]
		for _, w := range m.written {
			if w == name {
				return false
			}
		}
		m.nextID++
		p := &stPart{id: m.nextID, mem: true}
		if m.layout == nil {
			m.layout = map[uint64]string{}
		}
		for _, e := range stBatchElems(name) {
			r := stRef(e)
			p.elems = append(p.elems, r)
			m.acked = append(m.acked, r)
			sig := ""
			for _, f := range e.Fams {
				sig += f.Name + "["
				for _, t := range f.Tags {
					sig += t.Name + strconv.Itoa(t.Type)
				}
				sig += "]"
			}
			m.layout[e.ID] = sig
		}
		m.parts = append(m.parts, p)
		m.written = append(m.written, name)
		return true
	case op == "fA":
		if m.pFlush != nil || m.pMem != nil || len(m.ids(true)) == 0 {
			return false
		}
		m.pFlush = m.ids(true)
	case op == "fB":
		if m.pFlush == nil {
			return false
		}
		for _, id := range m.pFlush {
			if i := m.find(id); i >= 0 {
				m.parts[i].mem = false
			}
		}
		m.pFlush = nil
	case op == "xA":
		if m.pFlush != nil || m.pMem != nil || len(m.ids(true)) < 2 {
			return false
		}
		in := m.ids(true)
		m.nextID++
		m.pMem = m.union(in, m.nextID)
	case op == "xB":
		if m.pMem == nil {
			return false
		}
		m.remove(m.pMem.inputs)
		m.parts = append(m.parts, m.pMem.out)
		m.pMem = nil
	case strings.HasPrefix(op, "mA:"):
		if m.pMerge != nil {
			return false
		}
		fp := m.ids(false)
		var in []uint64
		for _, i := range parsePositions(op) {
			if i >= len(fp) {
				return false
			}
			in = append(in, fp[i])
		}
		if len(in) < 2 {
			return false
		}
		m.nextID++
		m.pMerge = m.union(in, m.nextID)
	case op == "mB":
		if m.pMerge == nil {
			return false
		}
		m.remove(m.pMerge.inputs)
		m.parts = append(m.parts, m.pMerge.out)
		m.pMerge = nil
	default:
		panic("unknown op " + op)
	}
	m.maint++
	return true
}

// pendingShape: were the inputs of the merges in flight written under different tag layouts?
func (m *stModel) pendingShape() string {
	layouts := map[string]bool{}
	for _, pm := range []*stPending{m.pMerge, m.pMem} {
		if pm == nil {
			continue
		}
		for _, e := range pm.out.elems {
			layouts[m.layout[e.id]] = true
		}
	}
	if len(layouts) > 1 {
		return " [merge inputs were written with different tag column sets]"
	}
	return ""
}

func stApplyReal(t *stream.S3Table, op string) {
	ok := true
	switch {
	case strings.HasPrefix(op, "w:"):
		t.Write(stBatchElems(op[2:]))
	case op == "fA":
		ok = t.FlushA()
	case op == "fB":
		ok = t.FlushB()
	case op == "xA":
		ok = t.MemMergeA()
	case op == "xB":
		ok = t.MemMergeB()
	case strings.HasPrefix(op, "mA:"):
		fp := t.FileParts()
		var ids []uint64
		for _, i := range parsePositions(op) {
			if i >= len(fp) {
				panic("merge position out of range: " + op)
			}
			ids = append(ids, fp[i])
		}
		ok = t.MergeA(ids)
	case op == "mB":
		ok = t.MergeB()
	default:
		panic("unknown op " + op)
	}
	if !ok {
		panic("operation refused by the table: " + op)
	}
}

// ---- queries ---------------------------------------------------------------------------------------------------------

type stQueryDef struct {
	name string
	q    stream.S3Query
}

var (
	projAll = []stream.S3Proj{{Family: "a", Names: []string{"k", "c"}}, {Family: "z", Names: []string{"n", "d", "e"}}}
	projZ   = []stream.S3Proj{{Family: "z", Names: []string{"e", "d", "n"}}}
	projA   = []stream.S3Proj{{Family: "a", Names: []string{"c"}}}
	projAMZ = []stream.S3Proj{{Family: "a", Names: []string{"c", "k"}}, {Family: "m", Names: []string{"q"}}, {Family: "z", Names: []string{"d", "n"}}}
	projM   = []stream.S3Proj{{Family: "m", Names: []string{"q"}}}
)

// stSchema declares the tag types of a query: c and d as given, e like d.
func stSchema(c, d int) map[string]int {
	return map[string]int{"k": 2, "n": 1, "q": 2, "c": c, "d": d, "e": d}
}

func stQueries() []stQueryDef {
	const lim = 1000
	all := []uint64{1, 2}
	q := func(name string, sids []uint64, lo, hi int64, proj []stream.S3Proj, c, d int) stQueryDef {
		return stQueryDef{name, stream.S3Query{Sids: sids, Min: lo, Max: hi, Proj: proj, Schema: stSchema(c, d), Limit: lim}}
	}
	qs := []stQueryDef{
		q("all/c-int,d-int", all, 0, 1<<40, projAll, 1, 1),
		q("all/c-str,d-str", all, 0, 1<<40, projAll, 2, 2),
		q("all/c-int,d-str", all, 0, 1<<40, projAll, 1, 2),
		q("all/c-str,d-int", all, 0, 1<<40, projAll, 2, 1),
		q("series1/c-int,d-str", []uint64{1}, 0, 1<<40, projAll, 1, 2),
		q("series2/c-str,d-int", []uint64{2}, 0, 1<<40, projAll, 2, 1),
		q("ts2000/c-int,d-int", all, 2000, 2000, projAll, 1, 1),
		q("ts1000-2000/c-str,d-str", all, 1000, 2000, projAll, 2, 2),
		q("ts2500-5000/c-int,d-str", all, 2500, 5000, projAll, 1, 2),
		q("family-z/c-str,d-str", all, 0, 1<<40, projZ, 2, 2),
		q("family-a/c-int,d-int", all, 0, 1<<40, projA, 1, 1),
		q("families-amz/c-str,d-int", all, 0, 1<<40, projAMZ, 2, 1),
	}
	d := q("all-desc/c-str,d-int", all, 0, 1<<40, projAll, 2, 1)
	d.q.Desc = true
	e := q("all/c-int,d-int,e-str", all, 0, 1<<40, projAll, 1, 1)
	e.q.Schema["e"] = 2
	return append(qs, d, e)
}

// stEvoQueries: in addition, a query that projects only a tag family some elements were written without.
func stEvoQueries() []stQueryDef {
	qs := stQueries()
	qs = append(qs, stQueryDef{"family-m/c-int,d-int", stream.S3Query{Sids: []uint64{1, 2}, Min: 0, Max: 1 << 40, Proj: projM, Schema: stSchema(1, 1), Limit: 1000}})
	return qs
}

func stBigQueries() []stQueryDef {
	const lim = 1 << 20
	all := []uint64{1, 2}
	q := func(name string, sids []uint64, lo, hi int64, proj []stream.S3Proj, c, d int) stQueryDef {
		return stQueryDef{name, stream.S3Query{Sids: sids, Min: lo, Max: hi, Proj: proj, Schema: stSchema(c, d), Limit: lim}}
	}
	return []stQueryDef{
		q("all/c-int,d-str", all, 0, 1<<40, projAll, 1, 2),
		q("all/c-int,d-int", all, 0, 1<<40, projAll, 1, 1),
		q("series1/c-int,d-str", []uint64{1}, 0, 1<<40, projAll, 1, 2),
		q("ts30-34/c-int,d-str", all, 30, 34, projAll, 1, 2),
		q("ts1-2/c-int,d-str", all, 1, 2, projZ, 1, 2),
	}
}

// stExpect renders what a query must return for a written element: every projected tag with its value if the element
// stores the tag under the declared type, null otherwise.
func stExpect(e stElem, q stream.S3Query) string {
	var parts []string
	for _, p := range q.Proj {
		for _, n := range p.Names {
			v := "null"
			if sv, ok := e.tags[p.Family+"."+n]; ok {
				if q.Schema[n] == 1 && strings.HasPrefix(sv, "int64:") {
					v = "i:" + sv[len("int64:"):]
				}
				if q.Schema[n] == 2 && strings.HasPrefix(sv, "str:") {
					v = "s:" + sv[len("str:"):]
				}
			}
			parts = append(parts, p.Family+"."+n+"="+v)
		}
	}
	sort.Strings(parts)
	return fmt.Sprintf("%d,%d,%d|%s", e.s, e.t, e.id, strings.Join(parts, "|"))
}

func stGot(o stream.S3Out) string {
	var parts []string
	for k, v := range o.Tags {
		parts = append(parts, k+"="+v)
	}
	sort.Strings(parts)
	return fmt.Sprintf("%d,%d,%d|%s", o.S, o.T, o.ID, strings.Join(parts, "|"))
}

func stKind(v string) string {
	switch {
	case v == "null":
		return "null"
	case strings.HasPrefix(v, "i:"):
		return "int"
	case strings.HasPrefix(v, "s:"):
		return "string"
	}
	return "malformed"
}

// stQueryDiff names what differs between the returned and the expected multiset of elements.
func stQueryDiff(got []stream.S3Out, want []stElem, q stream.S3Query) (string, any) {
	gs, ws := make([]string, len(got)), make([]string, len(want))
	gotByID := map[uint64][]stream.S3Out{}
	for i, o := range got {
		gs[i] = stGot(o)
		gotByID[o.ID] = append(gotByID[o.ID], o)
	}
	wantIDs := map[uint64]bool{}
	classes := map[string]bool{}
	for i, e := range want {
		ws[i] = stExpect(e, q)
		wantIDs[e.id] = true
		g := gotByID[e.id]
		switch {
		case len(g) == 0:
			classes["elements missing"] = true
		case len(g) > 1:
			classes["elements returned twice"] = true
		default:
			if g[0].S != e.s || g[0].T != e.t {
				classes["element returned with another series or timestamp"] = true
			}
			for _, p := range q.Proj {
				for _, n := range p.Names {
					wv := "null"
					if sv, ok := e.tags[p.Family+"."+n]; ok {
						if q.Schema[n] == 1 && strings.HasPrefix(sv, "int64:") {
							wv = "i:" + sv[len("int64:"):]
						}
						if q.Schema[n] == 2 && strings.HasPrefix(sv, "str:") {
							wv = "s:" + sv[len("str:"):]
						}
					}
					gv, ok := g[0].Tags[p.Family+"."+n]
					if !ok {
						classes["tag "+p.Family+"."+n+": not in the result"] = true
					} else if gv != wv {
						if stKind(gv) == stKind(wv) {
							classes["tag "+p.Family+"."+n+": wrong "+stKind(wv)+" value"] = true
						} else {
							classes["tag "+p.Family+"."+n+": got "+stKind(gv)+" want "+stKind(wv)] = true
						}
					}
				}
			}
		}
	}
	for id := range gotByID {
		if !wantIDs[id] {
			classes["unexpected elements"] = true
		}
	}
	sort.Strings(gs)
	sort.Strings(ws)
	if len(classes) == 0 {
		if strings.Join(gs, "\n") != strings.Join(ws, "\n") {
			classes["result differs"] = true
		} else {
			return "", nil
		}
	}
	var cs []string
	for c := range classes {
		cs = append(cs, c)
	}
	sort.Strings(cs)
	if len(gs) > 40 {
		gs, ws = diffOnly(gs, ws)
	}
	return strings.Join(cs, "; "), map[string]any{"got": gs, "want": ws}
}

// ---- parts -----------------------------------------------------------------------------------------------------------

// stPhys normalises one dumped element: stored names decoded (c#int -> c); reports a tag that holds a value under two
// stored names, and stored columns missing from tag.type.
func stPhys(o stream.S3Out, tagType map[string]bool) (stElem, string) {
	e := stElem{s: o.S, t: o.T, id: o.ID, tags: map[string]string{}}
	problem := ""
	names := make([]string, 0, len(o.Cols))
	for n := range o.Cols {
		names = append(names, n)
	}
	sort.Strings(names)
	for _, n := range names {
		v := o.Cols[n]
		dot := strings.IndexByte(n, '.')
		famName, stored := n[:dot], n[dot+1:]
		plain := famName + "." + stream.S3PlainName(stored)
		if _, dup := e.tags[plain]; dup {
			problem = "an element holds a value for tag " + plain + " under two stored tag names"
		}
		e.tags[plain] = v
		t := 0
		switch {
		case strings.HasPrefix(v, "int64:"):
			t = 1
		case strings.HasPrefix(v, "str:"):
			t = 2
		}
		if t != 0 && tagType != nil && !tagType[stream.S3TagTypeString(famName, stored, t)] && problem == "" {
			problem = "tag.type of the part does not list a stored tag column with its value type"
		}
	}
	return e, problem
}

func stPartStrings(p stream.S3Part) ([]string, []stElem, string) {
	tt := map[string]bool{}
	for _, s := range p.TagType {
		tt[s] = true
	}
	rows := make([]string, len(p.Rows))
	elems := make([]stElem, len(p.Rows))
	problem := ""
	for i, r := range p.Rows {
		e, pr := stPhys(r, tt)
		elems[i] = e
		rows[i] = e.String()
		if pr != "" && problem == "" {
			problem = pr
		}
	}
	sort.Strings(rows)
	return rows, elems, problem
}

func stModelRows(p *stPart) []string {
	out := make([]string, len(p.elems))
	for i, e := range p.elems {
		out[i] = e.String()
	}
	sort.Strings(out)
	return out
}

func stValKind(v string) string {
	if i := strings.IndexByte(v, ':'); i >= 0 {
		return v[:i]
	}
	return v
}

// stContentClass names how the stored elements differ from the reference ones.
func stContentClass(got []stElem, want []stElem) string {
	gotByID := map[uint64][]stElem{}
	for _, e := range got {
		gotByID[e.id] = append(gotByID[e.id], e)
	}
	classes := map[string]bool{}
	wantIDs := map[uint64]bool{}
	for _, w := range want {
		wantIDs[w.id] = true
		g := gotByID[w.id]
		switch {
		case len(g) == 0:
			classes["elements missing"] = true
		case len(g) > 1:
			classes["an element is stored twice"] = true
		default:
			if g[0].s != w.s || g[0].t != w.t {
				classes["element stored under another series or timestamp"] = true
			}
			for k, wv := range w.tags {
				gv, ok := g[0].tags[k]
				switch {
				case !ok:
					classes["value of tag "+k+" lost"] = true
				case gv != wv && stValKind(gv) != stValKind(wv):
					classes["value of tag "+k+" written as "+stValKind(wv)+" is stored in a "+stValKind(gv)+" column"] = true
				case gv != wv:
					classes["value of tag "+k+" changed"] = true
				}
			}
			for k := range g[0].tags {
				if _, ok := w.tags[k]; !ok {
					classes["element has a value for tag "+k+" it was not written with"] = true
				}
			}
		}
	}
	for id := range gotByID {
		if !wantIDs[id] {
			classes["elements that are not in its inputs"] = true
		}
	}
	if len(classes) == 0 {
		return "content differs from the union of its inputs"
	}
	var cs []string
	for c := range classes {
		cs = append(cs, c)
	}
	sort.Strings(cs)
	return "differs from the union of its inputs: " + strings.Join(cs, "; ")
}

func stClipPart(p stream.S3Part) stream.S3Part {
	if len(p.Rows) > 40 {
		p.Rows = p.Rows[:40]
	}
	return p
}

// stCheckPart compares one real part with its reference content, and its metadata with its own elements.
func stCheckPart(what string, p stream.S3Part, want *stPart, after string) []viol {
	var vs []viol
	rows, elems, problem := stPartStrings(p)
	if problem != "" {
		vs = append(vs, viol{Key: fmt.Sprintf("stream: %s after %s: %s", what, after, problem), Detail: stClipPart(p)})
	}
	wr := stModelRows(want)
	if strings.Join(rows, "\n") != strings.Join(wr, "\n") {
		g, w := rows, wr
		if len(g) > 40 {
			g, w = diffOnly(rows, wr)
		}
		shape := ""
		if stMixedFams(want.elems) {
			shape = stShapePart
		}
		vs = append(vs, viol{Key: fmt.Sprintf("stream: %s after %s: %s%s", what, after, stContentClass(elems, want.elems), shape),
			Detail: map[string]any{"got": g, "want": w, "part": p.ID, "tagtype": p.TagType}})
	}
	if int(p.Total) != len(p.Rows) {
		vs = append(vs, viol{Key: fmt.Sprintf("stream: %s after %s: metadata TotalCount differs from the number of stored elements", what, after),
			Detail: map[string]any{"total": p.Total, "rows": len(p.Rows), "part": p.ID}})
	}
	if int(p.Blocks) != len(p.BlockRows) {
		vs = append(vs, viol{Key: fmt.Sprintf("stream: %s after %s: metadata BlocksCount differs from the number of stored blocks", what, after),
			Detail: map[string]any{"blocks": p.Blocks, "read": len(p.BlockRows), "part": p.ID}})
	}
	if len(p.Rows) > 0 {
		mn, mx := p.Rows[0].T, p.Rows[0].T
		for _, r := range p.Rows {
			if r.T < mn {
				mn = r.T
			}
			if r.T > mx {
				mx = r.T
			}
		}
		if mn != p.MinT || mx != p.MaxT {
			vs = append(vs, viol{Key: fmt.Sprintf("stream: %s after %s: metadata min/max timestamp differ from the stored elements", what, after),
				Detail: map[string]any{"meta": []int64{p.MinT, p.MaxT}, "rows": []int64{mn, mx}, "part": p.ID}})
		}
	}
	return vs
}

// ---- one execution ---------------------------------------------------------------------------------------------------

type stResult struct {
	state    string
	viol     []viol
	outcome  string
	nontriv  bool
	dump     []stream.S3Part
	pending  stream.S3Pending
	observed map[string][]string
	model    *stModel
}

func stDigestPart(p stream.S3Part) string {
	rows := make([]string, len(p.Rows))
	for i, r := range p.Rows {
		names := make([]string, 0, len(r.Cols))
		for n := range r.Cols {
			names = append(names, n)
		}
		sort.Strings(names)
		s := fmt.Sprintf("%d,%d,%d", r.S, r.T, r.ID)
		for _, n := range names {
			s += "|" + n + "=" + r.Cols[n]
		}
		rows[i] = s
	}
	sort.Strings(rows)
	return strings.Join(rows, "\n") + "\ntagtype " + strings.Join(p.TagType, ",") + fmt.Sprintf("\nblocks %v", p.BlockRows)
}

// executeStream replays h on a fresh real stream table and on the reference model and evaluates the oracle in the final
// state.
func executeStream(dir string, h []string, qs []stQueryDef) (res stResult) {
	var t *stream.S3Table
	cur := ""
	defer func() {
		if r := recover(); r != nil {
			s := fmt.Sprint(r)
			if i := strings.IndexByte(s, '\n'); i >= 0 {
				s = s[:i]
			}
			if len(s) > 160 {
				s = s[:160]
			}
			k := "stream: panic in " + cur + ": " + numRe.ReplaceAllString(s, "#")
			if res.model != nil {
				k += res.model.pendingShape()
			}
			res.viol = append(res.viol, viol{Key: k, Detail: fmt.Sprint(r)})
			res.outcome = "panic"
			res.state = ""
		}
		if t != nil {
			func() {
				defer func() { _ = recover() }()
				t.Close()
			}()
		}
		_ = os.RemoveAll(dir)
	}()
	m := &stModel{}
	res.model = m
	t = stream.S3Open(dir, []uint64{1, 2}, stUniverse)
	last := ""
	for _, op := range h {
		cur = opKind(op)
		if !m.step(op) {
			panic("history not applicable in the model at " + op)
		}
		stApplyReal(t, op)
		last = cur
	}
	cur = "dump"
	res.dump = t.Dump()
	res.pending = t.Pending()
	// ---- snapshot parts vs reference (as multisets of parts; ids, kinds and order are not demanded)
	stored := map[uint64]int{}
	used := map[int]bool{}
	var unmatched []int
	for ri, p := range res.dump {
		rows, elems, _ := stPartStrings(p)
		for _, e := range elems {
			stored[e.id]++
		}
		c := strings.Join(rows, "\n")
		hit := -1
		for mi, mp := range m.parts {
			if !used[mi] && strings.Join(stModelRows(mp), "\n") == c {
				hit = mi
				break
			}
		}
		if hit < 0 {
			unmatched = append(unmatched, ri)
			continue
		}
		used[hit] = true
		res.viol = append(res.viol, stCheckPart("part in snapshot", p, m.parts[hit], last)...)
	}
	for _, ri := range unmatched {
		p := res.dump[ri]
		if mi := m.find(p.ID); mi >= 0 && !used[mi] {
			used[mi] = true
			res.viol = append(res.viol, stCheckPart("part in snapshot", p, m.parts[mi], last)...)
		} else {
			res.viol = append(res.viol, viol{Key: fmt.Sprintf("stream: snapshot after %s: a part matches no part of the reference", last), Detail: stClipPart(p)})
		}
	}
	for mi, mp := range m.parts {
		if !used[mi] {
			res.viol = append(res.viol, viol{Key: fmt.Sprintf("stream: snapshot after %s: a part of the reference is missing", last), Detail: clipStrings(stModelRows(mp))})
		}
	}
	for id, n := range stored {
		if n > 1 {
			res.viol = append(res.viol, viol{Key: fmt.Sprintf("stream: snapshot after %s: the same written element is stored %d times", last, n), Detail: id})
			break
		}
	}
	// ---- outputs of pending halves vs reference
	if res.pending.Merge != nil && m.pMerge != nil {
		res.viol = append(res.viol, stCheckPart("merge output", res.pending.Merge.Out, m.pMerge.out, last)...)
	}
	if res.pending.MemMerge != nil && m.pMem != nil {
		res.viol = append(res.viol, stCheckPart("mem-merge output", res.pending.MemMerge.Out, m.pMem.out, last)...)
	}
	if (res.pending.Merge != nil) != (m.pMerge != nil) || (res.pending.MemMerge != nil) != (m.pMem != nil) || (len(res.pending.Flush) > 0) != (m.pFlush != nil) {
		panic("harness: pending halves of table and model disagree")
	}
	var flushedDigest []string
	if m.pFlush != nil {
		for _, fp := range t.PendingFlushed() {
			flushedDigest = append(flushedDigest, stDigestPart(fp))
			if mi := m.find(fp.ID); mi >= 0 {
				res.viol = append(res.viol, stCheckPart("flushed file part", fp, m.parts[mi], last)...)
			} else {
				res.viol = append(res.viol, viol{Key: fmt.Sprintf("stream: flushed file part after %s: not a memory part of the reference", last), Detail: stClipPart(fp)})
			}
		}
	}
	// ---- queries vs the multiset union of the acknowledged batches
	res.observed = map[string][]string{}
	for _, qd := range qs {
		cur = "query " + qd.name
		rows, err := t.Query(qd.q)
		if err != nil {
			res.viol = append(res.viol, viol{Key: fmt.Sprintf("stream: query %s after %s: error %s", qd.name, last, numRe.ReplaceAllString(err.Error(), "#")), Detail: err.Error()})
			continue
		}
		obs := make([]string, len(rows))
		for i, o := range rows {
			obs[i] = stGot(o)
		}
		res.observed[qd.name] = obs
		inq := map[uint64]bool{}
		for _, s := range qd.q.Sids {
			inq[s] = true
		}
		var want []stElem
		for _, e := range m.acked {
			if inq[e.s] && e.t >= qd.q.Min && e.t <= qd.q.Max {
				want = append(want, e)
			}
		}
		if cls, detail := stQueryDiff(rows, want, qd.q); cls != "" {
			shape := ""
			if strings.Contains(cls, "tag ") {
				for _, mp := range m.parts {
					if stMixedFams(mp.elems) {
						shape = stShapeQuery
					}
				}
			}
			if strings.Contains(cls, "elements missing") {
				for _, e := range want {
					has := false
					for _, p := range qd.q.Proj {
						has = has || strings.Contains(","+e.famSet()+",", ","+p.Family+",")
					}
					if !has {
						shape += stShapeProj
						break
					}
				}
			}
			res.viol = append(res.viol, viol{Key: fmt.Sprintf("stream: query %s after %s: %s%s", qd.name, last, cls, shape), Detail: detail})
		}
	}
	// ---- canonical state
	ids := []uint64{}
	for _, p := range res.dump {
		ids = append(ids, p.ID)
	}
	ids = append(ids, res.pending.Flush...)
	if pm := res.pending.Merge; pm != nil {
		ids = append(ids, pm.Out.ID)
		ids = append(ids, pm.Inputs...)
	}
	if pm := res.pending.MemMerge; pm != nil {
		ids = append(ids, pm.Out.ID)
		ids = append(ids, pm.Inputs...)
	}
	sort.Slice(ids, func(i, j int) bool { return ids[i] < ids[j] })
	rank := map[uint64]int{}
	for _, id := range ids {
		if _, ok := rank[id]; !ok {
			rank[id] = len(rank)
		}
	}
	var sb strings.Builder
	for _, p := range res.dump {
		kind := "F"
		if p.Mem {
			kind = "M"
		}
		fmt.Fprintf(&sb, "part %d %s\n%s\n", rank[p.ID], kind, stDigestPart(p))
	}
	rk := func(x []uint64) []int {
		o := make([]int, len(x))
		for i := range x {
			o[i] = rank[x[i]]
		}
		sort.Ints(o)
		return o
	}
	fmt.Fprintf(&sb, "pflush %v\n%s\n", rk(res.pending.Flush), strings.Join(flushedDigest, "\n--\n"))
	if pm := res.pending.Merge; pm != nil {
		fmt.Fprintf(&sb, "pmerge %v -> %d\n%s\n", rk(pm.Inputs), rank[pm.Out.ID], stDigestPart(pm.Out))
	}
	if pm := res.pending.MemMerge; pm != nil {
		fmt.Fprintf(&sb, "pmem %v -> %d\n%s\n", rk(pm.Inputs), rank[pm.Out.ID], stDigestPart(pm.Out))
	}
	w := append([]string(nil), m.written...)
	sort.Strings(w)
	fmt.Fprintf(&sb, "written %v\n", w)
	res.state = sb.String()
	nm, nf := 0, 0
	for _, p := range res.dump {
		if p.Mem {
			nm++
		} else {
			nf++
		}
	}
	res.outcome = fmt.Sprintf("stream w%d mem%d file%d pf%v pm%v px%v", len(m.written), nm, nf, len(res.pending.Flush) > 0, res.pending.Merge != nil, res.pending.MemMerge != nil)
	if len(res.viol) > 0 {
		res.outcome = "violation"
	}
	res.nontriv = len(m.written) > 0 && m.maint > 0
	return res
}

// ---- schedule search -------------------------------------------------------------------------------------------------

type stSched struct {
	batches   []string
	maxWrites int
	maxMaint  int
	base      string
	seq       int
}

func (s *stSched) expand(it opsearch.Item) []opsearch.Succ {
	replay := func() *stModel {
		m := &stModel{}
		for _, op := range it.Hist {
			if !m.step(op) {
				panic("frontier history not applicable")
			}
		}
		return m
	}
	m := replay()
	var cand []string
	if len(m.written) < s.maxWrites {
		for _, b := range s.batches {
			cand = append(cand, "w:"+b)
		}
	}
	if m.maint < s.maxMaint {
		cand = append(cand, "fA", "fB", "xA", "xB", "mB")
		for _, ss := range subsets(len(m.ids(false)), 2) {
			cand = append(cand, "mA:"+posList(ss))
		}
	}
	var out []opsearch.Succ
	qs := stQueries()
	for _, op := range cand {
		if !replay().step(op) {
			continue
		}
		h := append(append([]string(nil), it.Hist...), op)
		s.seq++
		r := executeStream(fmt.Sprintf("%s/t%d", s.base, s.seq), h, qs)
		out = append(out, opsearch.Succ{Op: op, State: r.state, Viol: r.viol, Outcome: r.outcome, Nontrivial: r.nontriv})
	}
	return out
}

var stQuickBatches = []string{"B0", "B1", "B2", "B3"}

// streamSearch runs the stream schedule search; it must be called by the driver and by every worker subprocess at the same
// place (workers of other searches return at once).
func streamSearch(sc *sched, base string, thorough, isWorker bool) (opsearch.Stats, *stSched) {
	ss := &stSched{batches: stQuickBatches, maxWrites: sc.maxWrites, maxMaint: sc.maxMaint, base: base}
	if thorough {
		ss.batches = stBatchOrder[:6]
	}
	if !isWorker {
		fmt.Printf("C03 stream schedule search: %d batches, <=%d writes, <=%d maintenance halves\n", len(ss.batches), ss.maxWrites, ss.maxMaint)
	}
	restore := stWorkerProcs()
	st := opsearch.Run(opsearch.Config{Name: "c03stream", MaxDepth: ss.maxWrites + ss.maxMaint, Workers: 16, Cleanup: func() { os.RemoveAll(base) }}, ss.expand)
	restore()
	return st, ss
}

// stWorkerProcs makes the worker subprocesses started until restore() is called run with GOMAXPROCS=1: tsResult starts
// GOMAXPROCS block-loading goroutines per Pull, which on a machine shared by 16 worker processes costs more in wake-ups
// than the whole rest of an execution (measured: 29 ms -> 9 ms per execution). A scan of this harness has a single batch
// of <= 32 blocks, so one loader does all the work at any setting.
func stWorkerProcs() func() {
	if _, _, isWorker := par.Worker(); isWorker {
		return func() {}
	}
	prev, had := os.LookupEnv("GOMAXPROCS")
	_ = os.Setenv("GOMAXPROCS", "1")
	return func() {
		if had {
			_ = os.Setenv("GOMAXPROCS", prev)
		} else {
			_ = os.Unsetenv("GOMAXPROCS")
		}
	}
}

// ---- merge pools -----------------------------------------------------------------------------------------------------

type stPoolJob struct {
	phase string // stream-pool | stream-order-pool | stream-evolution-pool | stream-boundary-pool
	hist  []string
	merge bool
}

func stBoundaryTargets(thorough bool) []int {
	if thorough {
		return []int{stream.S3MaxBlockBytes - 1, stream.S3MaxBlockBytes, stream.S3MaxBlockBytes + 1}
	}
	return nil
}

func stPoolJobs(thorough bool) []stPoolJob {
	var jobs []stPoolJob
	add := func(phase string, hs [][]string) {
		for _, h := range hs {
			jobs = append(jobs, stPoolJob{phase, h[:len(h)-1], false}, stPoolJob{phase, h, true})
		}
	}
	add("stream-pool", poolHistories([]string{"B0", "B1", "B2", "B3", "B4"}, true))
	add("stream-pool", poolHistories([]string{"T0", "T1", "B0", "B5", "B3"}, thorough))
	add("stream-order-pool", poolHistories([]string{"R0", "R1", "R2", "R3", "B4"}, false))
	add("stream-evolution-pool", poolHistories([]string{"E0", "E1", "E2", "E3", "E4"}, false))
	for _, n := range stBoundaryTargets(thorough) {
		var pool []string
		for _, l := range []string{"A", "G", "C", "D", "E"} {
			pool = append(pool, fmt.Sprintf("%s%d", l, n))
		}
		add("stream-boundary-pool", poolHistories(pool, false))
	}
	return jobs
}

func stPhaseQueries(phase string) []stQueryDef {
	switch phase {
	case "stream-boundary-pool":
		return stBigQueries()
	case "stream-evolution-pool":
		return stEvoQueries()
	}
	return stQueries()
}

type stPoolOut struct {
	Jobs     int                  `json:"jobs"`
	Stats    map[string]poolStats `json:"stats"`
	Viol     []poolViol           `json:"viol"`
	FullSeen int                  `json:"full_blocks_seen"` // boundary pools: dumped blocks of >= S3MaxBlockBytes
}

func streamPoolWorker(base string, thorough bool) {
	wi, wn, _ := par.Worker()
	out := stPoolOut{Stats: map[string]poolStats{}}
	seen := map[string]bool{}
	counters := map[string]int{}
	for i, j := range stPoolJobs(thorough) {
		// deal every phase out separately: boundary jobs are much heavier than the others
		n := counters[j.phase]
		counters[j.phase]++
		if n%wn != wi {
			continue
		}
		r := executeStream(fmt.Sprintf("%s/sp%d", base, i), j.hist, stPhaseQueries(j.phase))
		out.Jobs++
		ps := out.Stats[j.phase]
		if ps.Outcomes == nil {
			ps.Outcomes = map[string]int{}
		}
		ps.Histories++
		if j.merge {
			ps.Merges++
		}
		ps.Outcomes[r.outcome]++
		out.Stats[j.phase] = ps
		if j.phase == "stream-boundary-pool" {
			for _, p := range r.dump {
				for _, b := range p.BlockSize {
					if b >= stream.S3MaxBlockBytes {
						out.FullSeen++
					}
				}
			}
		}
		for _, v := range r.viol {
			if !seen[v.Key] {
				seen[v.Key] = true
				out.Viol = append(out.Viol, poolViol{Job: i, Phase: j.phase, Key: v.Key, Hist: j.hist, Detail: v.Detail})
			}
		}
	}
	b, _ := json.Marshal(out)
	par.Emit(b)
}

// streamReport reports the schedule search, runs the stream merge pools (sharded over worker subprocesses) and adds the
// stream coverage to the evidence.
func streamReport(r *ev.Run, st opsearch.Stats, ss *stSched, thorough bool) {
	for _, v := range st.Violations {
		r.Violation(v.Key, artefact{Phase: "stream", Hist: v.Hist, Detail: v.Detail})
	}
	t0 := time.Now()
	restore := stWorkerProcs()
	results, perr := par.Run(16, "C03_SPOOL=1")
	restore()
	if perr != nil {
		fmt.Println("HARNESS-ERROR:", perr)
		os.Exit(2)
	}
	stats := map[string]poolStats{}
	var pv []poolViol
	jobsSeen, fullSeen := 0, 0
	for _, b := range results {
		var po stPoolOut
		if err := json.Unmarshal(b, &po); err != nil {
			fmt.Println("HARNESS-ERROR: bad stream pool worker result:", err)
			os.Exit(2)
		}
		jobsSeen += po.Jobs
		fullSeen += po.FullSeen
		for ph, src := range po.Stats {
			dst := stats[ph]
			if dst.Outcomes == nil {
				dst.Outcomes = map[string]int{}
			}
			dst.Histories += src.Histories
			dst.Merges += src.Merges
			for k, n := range src.Outcomes {
				dst.Outcomes[k] += n
			}
			stats[ph] = dst
		}
		pv = append(pv, po.Viol...)
	}
	jobs := stPoolJobs(thorough)
	if jobsSeen != len(jobs) {
		fmt.Printf("HARNESS-ERROR: %d of %d stream pool jobs reported\n", jobsSeen, len(jobs))
		os.Exit(2)
	}
	sort.SliceStable(pv, func(i, j int) bool { return pv[i].Job < pv[j].Job })
	seen := map[string]bool{}
	for _, v := range pv {
		if os.Getenv("C03_DEBUG") != "" {
			fmt.Printf("  pool job %d %s %v: %s\n", v.Job, v.Phase, v.Hist, v.Key)
		}
		if !seen[v.Key] {
			seen[v.Key] = true
			r.Violation(v.Key, artefact{Phase: v.Phase, Hist: v.Hist, Detail: v.Detail})
		}
	}
	poolStates, poolMerges := 0, 0
	outcomes := map[string]bool{}
	for k := range st.Outcomes {
		outcomes[k] = true
	}
	for _, ps := range stats {
		poolStates += ps.Histories
		poolMerges += ps.Merges
		for k := range ps.Outcomes {
			outcomes[k] = true
		}
	}
	fmt.Printf("C03 stream merge pools (2 pools of 5 parts, column-order pool, schema-evolution pool; boundary pools %v): %d merges, %d checked states, %d full blocks read back; took %.1fs\n",
		stBoundaryTargets(thorough), poolMerges, poolStates, fullSeen, time.Since(t0).Seconds())
	if thorough && fullSeen == 0 {
		fmt.Println("HARNESS-ERROR: the stream boundary pools produced no full block")
		os.Exit(2)
	}
	nq := len(stQueries())
	r.Add("states", st.States)
	r.Add("transitions", st.Transitions)
	r.Add("traces_validated_against_impl", st.Transitions+poolStates)
	r.Add("query_evaluations", (st.Transitions+poolStates)*nq)
	r.Add("distinct_outcomes", len(outcomes))
	r.Add("nontrivial_transitions", st.Nontrivial)
	r.Set("stream_schedule_search", st)
	r.Set("stream_merge_pools", stats)
	r.Set("stream_full_blocks_read_back", fullSeen)
	r.Set("stream_bounds", map[string]any{
		"batches":         ss.batches,
		"elements":        "2 series x timestamps {1000,2000,3000}, unique element id per element (a stream keeps every element), B3 holds the same (series,ts) twice; every element has >= 2 tag families: a = [k string, c], z = [n int, d, e] (and m = [q] in the 3-family layouts)",
		"conflicting_tag": "tag c (FIRST family a) is int64 in B0,B2,B5 and string in B1,B3, absent in B4; tags d,e (LATER family z, name-sorted after the conflict-free family a) are int64 in B0,B1 and string in B2,B3,B4,B5: B0+B1 conflict in the first family only, B0+B2 only in a later family (two tags of it), B0+B3 / B1+B2 in two families at once; pool T0/T1: three families, only one of the two tags of the last family conflicts",
		"max_writes":      ss.maxWrites,
		"max_maintenance": ss.maxMaint,
		"maintenance_ops": "flush (tsTable.flush: files written | introduceFlushed), merge of every subset (>=2) of file parts (mergePartsThenSendIntroduction | introduceMerged), flusher-side merge of all memory parts (mergeMemParts | introduceMerged); at most one flusher-side and one merger-side operation in flight",
		"queries":         fmt.Sprintf("%d tsResult queries per state: full range x the 4 declared-type combinations of (c,d/e), e declared differently from d, each single series, time sub-ranges [2000,2000] [1000,2000] [2500,5000], only family z, only tag a.c, three families, descending", nq),
		"merge_pools":     "pool {B0..B4}: every subset (>=2) merged and every such output merged again with every non-empty subset of the rest; pool {T0,T1,B0,B5,B3}: every subset (thorough: and second level); column-order pool {R0..R3,B4} (conflicting tag first in its family); schema-evolution pool {E0..E4} (a tag family / a tag older elements lack)",
		"boundary_pools":  fmt.Sprintf("thorough only: 5-part pools around a block of exactly %v uncompressed bytes (32 elements with a 64 KiB string tag), every subset (>=2)", stBoundaryTargets(true)),
		"state_digest":    "ordered list of parts (rank-normalised ids, kind, elements with all stored tag columns under their stored names, tag.type, block sizes) + pending halves with their outputs + set of written batches",
	})
	for i, h := range st.SampleHistories {
		if i < 2 {
			r.Sample(map[string]any{"phase": "stream", "history": h})
		}
	}
	r.Assume("stream: worker subprocesses run with GOMAXPROCS=1 (one block-loading goroutine per tsResult.Pull) and every instance starts with an empty blockPointer pool (slice capacities kept by pooled merge blocks would make fullTagAppend's reallocations depend on earlier executions of the same process)")
	r.Assume("stream: element ids are unique (the query heap de-duplicates equal element ids by design); queries go through tsResult (time-ordered path), not through the element index (idxResult)")
	fmt.Printf("C03: stream states=%d transitions=%d pool_states=%d\n", st.States, st.Transitions, poolStates)
}

func replayStream(phase string, hist []string, key, dir string) {
	runtime.GOMAXPROCS(1) // as in the worker subprocesses of the search (see stWorkerProcs)
	res := executeStream(dir, hist, stPhaseQueries(phase))
	fmt.Println("history:", hist)
	for _, p := range res.dump {
		rows, _, _ := stPartStrings(p)
		if len(rows) > 12 {
			rows = append(rows[:12], fmt.Sprintf("... %d elements", len(p.Rows)))
		}
		fmt.Printf("  part %d mem=%v tagtype=%v blocks=%v bytes=%v\n", p.ID, p.Mem, p.TagType, p.BlockRows, p.BlockSize)
		for _, r := range rows {
			fmt.Println("      ", r)
		}
	}
	for _, qd := range stPhaseQueries(phase) {
		rows := res.observed[qd.name]
		if len(rows) > 12 {
			rows = rows[:12]
		}
		fmt.Printf("  %-28s %v\n", qd.name, rows)
	}
	hit := false
	for _, v := range res.viol {
		fmt.Println("violation:", v.Key)
		if v.Key == key {
			hit = true
		}
	}
	if len(res.viol) > 0 {
		if !hit {
			fmt.Println("(recorded key not reproduced, other violations present)")
		}
		os.RemoveAll(dir)
		os.Exit(1)
	}
	fmt.Println("no violation")
}

// `--only stream` runs the stream part alone (development / mutation runs): same search, pools and oracle, reported
// through ev without touching the evidence file of the full check.
func init() {
	if ev.Arg("--only") != "stream" || ev.Arg("--replay") != "" {
		return
	}
	// init runs on the main goroutine, which is locked to its OS thread until main.main starts: every hand-over to
	// another goroutine would cost a thread switch. Run the mode on an ordinary goroutine.
	go streamOnly()
	select {}
}

func streamOnly() {
	_ = logger.Init(logger.Logging{Env: "prod", Level: "fatal"})
	_ = os.Setenv("VERIF_NOEVIDENCE", "1")
	base, err := os.MkdirTemp("/dev/shm", "c03s-")
	if err != nil {
		panic(err)
	}
	if n := ev.Arg("--bench"); n != "" {
		k, _ := strconv.Atoi(n)
		h := []string{"w:B0", "w:B1", "fA", "fB", "w:B2", "fA", "mA:0,1", "fB"}
		qs := stQueries()
		if os.Getenv("C03_BENCH_NOQ") != "" {
			qs = nil
		}
		if pf := os.Getenv("VERIF_CPUPROFILE"); pf != "" {
			f, _ := os.Create(pf)
			_ = pprof.StartCPUProfile(f)
			defer pprof.StopCPUProfile()
		}
		t0 := time.Now()
		for i := 0; i < k; i++ {
			executeStream(fmt.Sprintf("%s/%d", base, i), h, qs)
		}
		pprof.StopCPUProfile()
		fmt.Printf("%v: %v per execution\n", h, time.Since(t0)/time.Duration(k))
		os.RemoveAll(base)
		os.Exit(0)
	}
	thorough := ev.Thorough()
	_, _, isWorker := par.Worker()
	sc := &sched{maxWrites: 3, maxMaint: 5}
	if thorough {
		sc.maxMaint = 7
	}
	if v := ev.Arg("--writes"); v != "" {
		sc.maxWrites, _ = strconv.Atoi(v)
	}
	if v := ev.Arg("--maint"); v != "" {
		sc.maxMaint, _ = strconv.Atoi(v)
	}
	var r *ev.Run
	if !isWorker {
		r = ev.New("C03", "model_checking")
	}
	st, ss := streamSearch(sc, base, thorough, isWorker)
	if isWorker {
		if os.Getenv("C03_SPOOL") != "" {
			streamPoolWorker(base, thorough)
		}
		os.RemoveAll(base)
		os.Exit(0)
	}
	streamReport(r, st, ss, thorough)
	os.RemoveAll(base)
	r.Finish()
}
