// C03 — flush and merge never change what queries return; a merged part equals the version-resolved union of its inputs.
// Engine O over the real measure tsTable with flush and merge split into their two real halves (see NOTES.md).
package main

import (
	"encoding/json"
	"fmt"
	"os"
	"regexp"
	"runtime/pprof"
	"sort"
	"strconv"
	"strings"
	"time"

	"github.com/apache/skywalking-banyandb/banyand/measure"
	"github.com/apache/skywalking-banyandb/pkg/logger"
	"github.com/apache/skywalking-banyandb/pkg/verif/ev"
	opsearch "github.com/apache/skywalking-banyandb/pkg/verif/opsearch2"
	"github.com/apache/skywalking-banyandb/pkg/verif/par"
)

// ---- write alphabet --------------------------------------------------------------------------------------------------

var tss = []int64{1000, 2000, 3000}

type key struct {
	s uint64
	t int64
}

type batchDef struct {
	keys [][2]int // (series 1|2, timestamp index 0..2)
	ver  int64
	tagT int // 1 tags [k, c int], 2 tags [k, c string], 3 tags [k], 4 tags [c int, k], 5 tags [c string, k], 0 no tag family
}

// Every batch has its own version (distinct across batches), so the winner of a key written by several batches is
// determined, and both "later batch wins" and "earlier batch wins" arise from the different write orders.
var batches = map[string]batchDef{
	"B0": {keys: [][2]int{{1, 0}, {1, 1}}, ver: 30, tagT: 1},
	"B1": {keys: [][2]int{{1, 1}, {1, 2}, {2, 0}}, ver: 10, tagT: 2},
	"B2": {keys: [][2]int{{1, 0}, {2, 0}, {2, 1}}, ver: 40, tagT: 1},
	"B3": {keys: [][2]int{{2, 2}, {1, 2}}, ver: 20, tagT: 2},
	"B4": {keys: [][2]int{{1, 0}, {1, 1}, {1, 2}, {2, 0}, {2, 1}, {2, 2}}, ver: 25, tagT: 3},
	"B5": {keys: [][2]int{{1, 1}}, ver: 5, tagT: 2},
	// same rows as B0..B3, but tag c is the FIRST tag of the family (column-order probe pool)
	"R0": {keys: [][2]int{{1, 0}, {1, 1}}, ver: 30, tagT: 4},
	"R1": {keys: [][2]int{{1, 1}, {1, 2}, {2, 0}}, ver: 10, tagT: 5},
	"R2": {keys: [][2]int{{1, 0}, {2, 0}, {2, 1}}, ver: 40, tagT: 4},
	"R3": {keys: [][2]int{{2, 2}, {1, 2}}, ver: 20, tagT: 5},
}

var batchOrder = []string{"B0", "B1", "B2", "B3", "B4", "B5", "R0", "R1", "R2", "R3"}

func batchIndex(name string) int {
	for i, n := range batchOrder {
		if n == name {
			return i
		}
	}
	return -1
}

// bigN is set by boundary-pool batch names "A8192" etc.
func batchRows(name string) []measure.VRow {
	if d, ok := batches[name]; ok {
		bi := batchIndex(name)
		var rows []measure.VRow
		for _, k := range d.keys {
			rows = append(rows, measure.VRow{S: uint64(k[0]), T: tss[k[1]], V: d.ver, P: int64(100*(bi+1) + 10*k[0] + k[1]), TagT: d.tagT})
		}
		return rows
	}
	// boundary pools: <letter><n>
	n, err := strconv.Atoi(name[1:])
	if err != nil {
		panic("unknown batch " + name)
	}
	var rows []measure.VRow
	add := func(s uint64, t int64, v int64, tag int64) {
		rows = append(rows, measure.VRow{S: s, T: t, V: v, P: tag*1000000 + t})
	}
	switch name[0] {
	case 'A': // one series, n rows, ts 1..n
		for t := 1; t <= n; t++ {
			add(1, int64(t), 10, 1)
		}
	case 'G': // duplicates of A's last row (higher version) and the rows right after it
		for t := n; t <= n+2; t++ {
			add(1, int64(t), 20, 2)
		}
	case 'C': // duplicates of A's first rows with a lower version
		add(1, 1, 5, 3)
		add(1, 2, 5, 3)
	case 'D': // a second full-size run right after A, first row duplicated by G with the higher version
		for t := n + 1; t <= 2*n; t++ {
			add(1, int64(t), 10, 4)
		}
	case 'E': // another series plus one higher-version row in the middle of A
		add(2, 1, 10, 5)
		add(2, 2, 10, 5)
		add(1, int64(n/2), 30, 5)
	default:
		panic("unknown batch " + name)
	}
	return rows
}

// ---- reference model -------------------------------------------------------------------------------------------------

type mrow struct {
	v    int64
	p    int64
	tagT int
}

type mpart struct {
	id   uint64
	mem  bool
	rows map[key]mrow
}

type mpending struct {
	inputs []uint64
	out    *mpart
}

type refModel struct {
	parts   []*mpart
	nextID  uint64
	written []string
	maint   int
	pFlush  []uint64
	pMem    *mpending
	pMerge  *mpending
	acked   map[key]mrow // version-resolved union of the written batches
}

func newModel() *refModel { return &refModel{acked: map[key]mrow{}} }

func resolveInto(dst map[key]mrow, k key, r mrow) {
	if old, ok := dst[k]; !ok || r.v > old.v {
		dst[k] = r
	}
}

func (m *refModel) find(id uint64) int {
	for i, p := range m.parts {
		if p.id == id {
			return i
		}
	}
	return -1
}

func (m *refModel) memIDs() (ids []uint64) {
	for _, p := range m.parts {
		if p.mem {
			ids = append(ids, p.id)
		}
	}
	return
}

func (m *refModel) fileIDs() (ids []uint64) {
	for _, p := range m.parts {
		if !p.mem {
			ids = append(ids, p.id)
		}
	}
	return
}

func (m *refModel) union(ids []uint64) *mpart {
	out := &mpart{rows: map[key]mrow{}}
	for _, id := range ids {
		for k, r := range m.parts[m.find(id)].rows {
			resolveInto(out.rows, k, r)
		}
	}
	return out
}

func (m *refModel) remove(ids []uint64) {
	var keep []*mpart
	for _, p := range m.parts {
		drop := false
		for _, id := range ids {
			if p.id == id {
				drop = true
			}
		}
		if !drop {
			keep = append(keep, p)
		}
	}
	m.parts = keep
}

// pendingShape describes the inputs of the merges in flight: whether their rows were written with different tag layouts.
func (m *refModel) pendingShape() string {
	layouts := map[int]bool{}
	for _, pm := range []*mpending{m.pMerge, m.pMem} {
		if pm == nil {
			continue
		}
		for _, id := range pm.inputs {
			if i := m.find(id); i >= 0 {
				for _, r := range m.parts[i].rows {
					layouts[r.tagT] = true
				}
			}
		}
	}
	if len(layouts) > 1 {
		return " [merge inputs were written with different tag column sets]"
	}
	return ""
}

func parsePositions(op string) []int {
	var out []int
	for _, f := range strings.Split(op[strings.IndexByte(op, ':')+1:], ",") {
		i, err := strconv.Atoi(f)
		if err != nil {
			panic("bad op " + op)
		}
		out = append(out, i)
	}
	return out
}

// step applies op to the model; returns false if op is not applicable.
func (m *refModel) step(op string) bool {
	switch {
	case strings.HasPrefix(op, "w:"):
		name := op[2:]
		for _, w := range m.written {
			if w == name {
				return false
			}
		}
		m.nextID++
		p := &mpart{id: m.nextID, mem: true, rows: map[key]mrow{}}
		for _, r := range batchRows(name) {
			k := key{r.S, r.T}
			mr := mrow{v: r.V, p: r.P, tagT: r.TagT}
			resolveInto(p.rows, k, mr)
			resolveInto(m.acked, k, mr)
		}
		m.parts = append(m.parts, p)
		m.written = append(m.written, name)
		return true
	case op == "fA":
		if m.pFlush != nil || m.pMem != nil || len(m.memIDs()) == 0 {
			return false
		}
		m.pFlush = m.memIDs()
	case op == "fB":
		if m.pFlush == nil {
			return false
		}
		for _, id := range m.pFlush {
			if i := m.find(id); i >= 0 {
				m.parts[i].mem = false
			}
		}
		m.pFlush = nil
	case op == "xA":
		if m.pFlush != nil || m.pMem != nil || len(m.memIDs()) < 2 {
			return false
		}
		in := m.memIDs()
		m.nextID++
		out := m.union(in)
		out.id = m.nextID
		m.pMem = &mpending{inputs: in, out: out}
	case op == "xB":
		if m.pMem == nil {
			return false
		}
		m.remove(m.pMem.inputs)
		m.parts = append(m.parts, m.pMem.out)
		m.pMem = nil
	case strings.HasPrefix(op, "mA:"):
		if m.pMerge != nil {
			return false
		}
		fp := m.fileIDs()
		var in []uint64
		for _, i := range parsePositions(op) {
			if i >= len(fp) {
				return false
			}
			in = append(in, fp[i])
		}
		if len(in) < 2 {
			return false
		}
		m.nextID++
		out := m.union(in)
		out.id = m.nextID
		m.pMerge = &mpending{inputs: in, out: out}
	case op == "mB":
		if m.pMerge == nil {
			return false
		}
		m.remove(m.pMerge.inputs)
		m.parts = append(m.parts, m.pMerge.out)
		m.pMerge = nil
	default:
		panic("unknown op " + op)
	}
	m.maint++
	return true
}

// ---- driving the real table ------------------------------------------------------------------------------------------

func applyReal(t *measure.VTable, op string) {
	ok := true
	switch {
	case strings.HasPrefix(op, "w:"):
		t.Write(batchRows(op[2:]))
	case op == "fA":
		ok = t.FlushA()
	case op == "fB":
		ok = t.FlushB()
	case op == "xA":
		ok = t.MemMergeA()
	case op == "xB":
		ok = t.MemMergeB()
	case strings.HasPrefix(op, "mA:"):
		fp := t.FileParts()
		var ids []uint64
		for _, i := range parsePositions(op) {
			if i >= len(fp) {
				panic("merge position out of range: " + op)
			}
			ids = append(ids, fp[i])
		}
		ok = t.MergeA(ids)
	case op == "mB":
		ok = t.MergeB()
	default:
		panic("unknown op " + op)
	}
	if !ok {
		panic("operation refused by the table: " + op)
	}
}

// ---- oracle ----------------------------------------------------------------------------------------------------------

var (
	typedInt = measure.VTypedName(measure.VTagC, 1)
	typedStr = measure.VTypedName(measure.VTagC, 2)
)

// normalized physical row: "s,t,v,field|c=<type:value>|k=<...>" with absent/empty columns dropped and typed names decoded.
func physRow(r measure.VOut) (string, string) {
	cols := map[string]string{}
	problem := ""
	for name, val := range r.Cols {
		if val == "nil" || val == "str:" || strings.HasSuffix(val, ":len0") {
			continue
		}
		dn := name
		if name == typedInt || name == typedStr {
			dn = measure.VTagC
		}
		if _, dup := cols[dn]; dup {
			problem = "two stored columns hold a value for tag " + dn
		}
		cols[dn] = val
	}
	s := fmt.Sprintf("%d,%d,%d,%s", r.S, r.T, r.V, r.F)
	for _, n := range []string{measure.VTagC, measure.VTagK} {
		if v, ok := cols[n]; ok {
			s += "|" + n + "=" + v
		}
	}
	return s, problem
}

func modelRow(k key, r mrow) string {
	s := fmt.Sprintf("%d,%d,%d,int64:%d", k.s, k.t, r.v, r.p)
	switch r.tagT {
	case 1, 4:
		s += fmt.Sprintf("|c=int64:%d", r.p)
	case 2, 5:
		s += fmt.Sprintf("|c=str:p%d", r.p)
	}
	if r.tagT != 0 {
		s += fmt.Sprintf("|k=str:k%d", r.p)
	}
	return s
}

func modelPartRows(p *mpart) []string {
	var out []string
	for k, r := range p.rows {
		out = append(out, modelRow(k, r))
	}
	sort.Strings(out)
	return out
}

// expected query row under a declared type of tag c (1 int, 2 string).
func expectRow(k key, r mrow, schema int) measure.VOut {
	o := measure.VOut{S: k.s, T: k.t, V: r.v, F: "i:" + strconv.FormatInt(r.p, 10), C: "null", K: "null"}
	if r.tagT != 0 {
		o.K = "s:k" + strconv.FormatInt(r.p, 10)
	}
	if (r.tagT == 1 || r.tagT == 4) && schema == 1 {
		o.C = "i:" + strconv.FormatInt(r.p, 10)
	}
	if (r.tagT == 2 || r.tagT == 5) && schema == 2 {
		o.C = "s:p" + strconv.FormatInt(r.p, 10)
	}
	return o
}

type viol = opsearch.Viol

type queryDef struct {
	name string
	q    measure.VQuery
}

func queries(maxT int64) []queryDef {
	var qs []queryDef
	for _, sch := range []int{1, 2} {
		sn := map[int]string{1: "c-int", 2: "c-str"}[sch]
		qs = append(qs,
			queryDef{"all/" + sn, measure.VQuery{Sids: []uint64{1, 2}, Min: 0, Max: maxT, Mode: 0, Schema: sch}},
			queryDef{"series1/" + sn, measure.VQuery{Sids: []uint64{1}, Min: 0, Max: maxT, Mode: 0, Schema: sch}},
			queryDef{"series2/" + sn, measure.VQuery{Sids: []uint64{2}, Min: 0, Max: maxT, Mode: 0, Schema: sch}},
		)
	}
	qs = append(qs, queryDef{"all-batch/c-int", measure.VQuery{Sids: []uint64{1, 2}, Min: 0, Max: maxT, Mode: 0, Schema: 1, Batch: true}})
	qs = append(qs, queryDef{"all-by-series/c-int", measure.VQuery{Sids: []uint64{1, 2}, Min: 0, Max: maxT, Mode: 2, Schema: 1}})
	return qs
}

// bigQueries: the Pull queries only (the row cap of PullBatch results is C02's business).
func bigQueries(maxT int64) []queryDef {
	var qs []queryDef
	for _, q := range queries(maxT) {
		if !q.q.Batch && (q.q.Schema == 1 || len(q.q.Sids) == 1) {
			qs = append(qs, q)
		}
	}
	return qs
}

func rowStr(o measure.VOut) string {
	return fmt.Sprintf("%d,%d,%d,%s,c=%s,k=%s", o.S, o.T, o.V, o.F, o.C, o.K)
}

// diffClass names what differs between got and want (sorted multisets of rendered rows).
func diffClass(got, want []measure.VOut) (string, any) {
	gk, wk := map[key][]measure.VOut{}, map[key]measure.VOut{}
	for _, r := range got {
		gk[key{r.S, r.T}] = append(gk[key{r.S, r.T}], r)
	}
	for _, r := range want {
		wk[key{r.S, r.T}] = r
	}
	classes := map[string]bool{}
	for k, w := range wk {
		g := gk[k]
		switch {
		case len(g) == 0:
			classes["row missing"] = true
		case len(g) > 1:
			classes["row duplicated"] = true
		default:
			if g[0].V != w.V {
				classes["wrong version"] = true
			} else {
				if g[0].F != w.F {
					classes["wrong field value"] = true
				}
				if g[0].C != w.C {
					classes[fmt.Sprintf("tag c: got %s want %s", kindOf(g[0].C), kindOf(w.C))] = true
				}
				if g[0].K != w.K {
					classes[fmt.Sprintf("tag k: got %s want %s", kindOf(g[0].K), kindOf(w.K))] = true
				}
			}
		}
	}
	for k := range gk {
		if _, ok := wk[k]; !ok {
			classes["unexpected row"] = true
		}
	}
	if len(classes) == 0 {
		return "", nil
	}
	var cs []string
	for c := range classes {
		cs = append(cs, c)
	}
	sort.Strings(cs)
	var gs, ws []string
	for _, r := range got {
		gs = append(gs, rowStr(r))
	}
	for _, r := range want {
		ws = append(ws, rowStr(r))
	}
	if len(gs) > 40 {
		gs, ws = diffOnly(gs, ws)
	}
	return strings.Join(cs, "; "), map[string]any{"got": gs, "want": ws}
}

func diffOnly(a, b []string) ([]string, []string) {
	am, bm := map[string]int{}, map[string]int{}
	for _, x := range a {
		am[x]++
	}
	for _, x := range b {
		bm[x]++
	}
	var ao, bo []string
	for _, x := range a {
		if bm[x] == 0 && len(ao) < 20 {
			ao = append(ao, x)
		}
	}
	for _, x := range b {
		if am[x] == 0 && len(bo) < 20 {
			bo = append(bo, x)
		}
	}
	return ao, bo
}

func kindOf(v string) string {
	switch {
	case v == "null":
		return "null"
	case strings.HasPrefix(v, "i:"):
		return "int"
	case strings.HasPrefix(v, "s:"):
		return "string"
	}
	return v
}

var numRe = regexp.MustCompile(`[0-9a-f]{8,}|/dev/shm/[^ :"]+|\d+`)

func opKind(op string) string {
	if i := strings.IndexByte(op, ':'); i >= 0 {
		op = op[:i]
	}
	return map[string]string{"w": "write", "fA": "flush(files written)", "fB": "flush(introduced)", "xA": "mem-merge(output written)",
		"xB": "mem-merge(introduced)", "mA": "merge(output written)", "mB": "merge(introduced)"}[op]
}

type result struct {
	state    string
	viol     []viol
	outcome  string
	nontriv  bool
	dump     []measure.VPart
	pending  measure.VPending
	observed map[string][]measure.VOut
	model    *refModel
}

func partStrings(p measure.VPart) ([]string, string) {
	rows := make([]string, len(p.Rows))
	problem := ""
	for i, r := range p.Rows {
		var pr string
		rows[i], pr = physRow(r)
		if pr != "" {
			problem = pr
		}
	}
	sort.Strings(rows)
	return rows, problem
}

// dupShape tells whether (and where) the part stores one (series,ts) twice.
func dupShape(p measure.VPart) string {
	blockOf := make([]int, 0, len(p.Rows))
	for bi, n := range p.BlockRows {
		for i := 0; i < n; i++ {
			blockOf = append(blockOf, bi)
		}
	}
	if len(blockOf) != len(p.Rows) {
		return ""
	}
	seen := map[key]int{}
	shape := ""
	for i, r := range p.Rows {
		k := key{r.S, r.T}
		if j, ok := seen[k]; ok {
			if blockOf[j] != blockOf[i] {
				return " [a (series,ts) is stored twice, in two different blocks of the part]"
			}
			shape = " [a (series,ts) is stored twice inside one block]"
		}
		seen[k] = i
	}
	return shape
}

func clipStrings(x []string) []string {
	if len(x) > 40 {
		return append(append([]string(nil), x[:40]...), fmt.Sprintf("... %d rows", len(x)))
	}
	return x
}

func clipPart(p measure.VPart) measure.VPart {
	if len(p.Rows) > 40 {
		p.Rows = p.Rows[:40]
	}
	return p
}

// checkPart compares one real part with its model content plus its metadata with its own rows.
func checkPart(what string, p measure.VPart, want *mpart, after string) []viol {
	var vs []viol
	rows, problem := partStrings(p)
	if problem != "" {
		vs = append(vs, viol{Key: fmt.Sprintf("%s after %s: %s", what, after, problem), Detail: p})
	}
	wr := modelPartRows(want)
	if strings.Join(rows, "\n") != strings.Join(wr, "\n") {
		g, w := rows, wr
		if len(g) > 40 {
			g, w = diffOnly(rows, wr)
		}
		cls := "content differs from the version-resolved union of its inputs"
		switch {
		case len(rows) < len(wr):
			cls = "rows missing compared with the version-resolved union of its inputs"
		case len(rows) > len(wr):
			cls = "more rows than the version-resolved union of its inputs"
		}
		cls += dupShape(p)
		vs = append(vs, viol{Key: fmt.Sprintf("%s after %s: %s", what, after, cls), Detail: map[string]any{"got": g, "want": w, "part": p.ID}})
	}
	if int(p.Total) != len(p.Rows) {
		vs = append(vs, viol{Key: fmt.Sprintf("%s after %s: metadata TotalCount differs from the number of stored rows", what, after),
			Detail: map[string]any{"total": p.Total, "rows": len(p.Rows), "part": p.ID}})
	}
	if len(p.Rows) > 0 {
		mn, mx := p.Rows[0].T, p.Rows[0].T
		for _, r := range p.Rows {
			if r.T < mn {
				mn = r.T
			}
			if r.T > mx {
				mx = r.T
			}
		}
		if mn != p.MinT || mx != p.MaxT {
			vs = append(vs, viol{Key: fmt.Sprintf("%s after %s: metadata min/max timestamp differ from the stored rows", what, after),
				Detail: map[string]any{"meta": []int64{p.MinT, p.MaxT}, "rows": []int64{mn, mx}, "part": p.ID}})
		}
	}
	return vs
}

// execute replays h on a fresh real table and on the reference model, and evaluates the oracle in the final state.
func execute(dir string, h []string, qs []queryDef) (res result) {
	var t *measure.VTable
	cur := ""
	defer func() {
		if r := recover(); r != nil {
			s := fmt.Sprint(r)
			if i := strings.IndexByte(s, '\n'); i >= 0 {
				s = s[:i]
			}
			if len(s) > 160 {
				s = s[:160]
			}
			k := "panic in " + cur + ": " + numRe.ReplaceAllString(s, "#")
			if res.model != nil {
				k += res.model.pendingShape()
			}
			res.viol = append(res.viol, viol{Key: k, Detail: fmt.Sprint(r)})
			res.outcome = "panic"
			res.state = ""
		}
		if t != nil {
			func() {
				defer func() { _ = recover() }()
				t.Close()
			}()
		}
		_ = os.RemoveAll(dir)
	}()
	m := newModel()
	res.model = m
	t = measure.VOpen(dir, []uint64{1, 2})
	last := ""
	for _, op := range h {
		cur = opKind(op)
		if !m.step(op) {
			panic("history not applicable in the model at " + op)
		}
		applyReal(t, op)
		last = cur
	}
	cur = "dump"
	res.dump = t.Dump()
	res.pending = t.Pending()
	// ---- snapshot parts vs model (as multisets of parts; ids, kinds and order are not demanded)
	stored := map[string]int{}
	var realParts []string
	used := map[int]bool{}
	var unmatched []int
	for ri, p := range res.dump {
		rows, _ := partStrings(p)
		for _, r := range rows {
			stored[r]++
		}
		c := strings.Join(rows, "\n")
		realParts = append(realParts, c)
		hit := -1
		for mi, mp := range m.parts {
			if !used[mi] && strings.Join(modelPartRows(mp), "\n") == c {
				hit = mi
				break
			}
		}
		if hit < 0 {
			unmatched = append(unmatched, ri)
			continue
		}
		used[hit] = true
		res.viol = append(res.viol, checkPart("part in snapshot", p, m.parts[hit], last)...)
	}
	for _, ri := range unmatched {
		p := res.dump[ri]
		if mi := m.find(p.ID); mi >= 0 && !used[mi] {
			used[mi] = true
			res.viol = append(res.viol, checkPart("part in snapshot", p, m.parts[mi], last)...)
		} else {
			res.viol = append(res.viol, viol{Key: fmt.Sprintf("snapshot after %s: a part matches no part of the reference", last), Detail: clipPart(p)})
		}
	}
	for mi, mp := range m.parts {
		if !used[mi] {
			res.viol = append(res.viol, viol{Key: fmt.Sprintf("snapshot after %s: a part of the reference is missing", last), Detail: clipStrings(modelPartRows(mp))})
		}
	}
	for r, n := range stored {
		if n > 1 {
			res.viol = append(res.viol, viol{Key: fmt.Sprintf("snapshot after %s: the same written row is stored in %d parts", last, n), Detail: r})
			break
		}
	}
	// ---- pending merge outputs vs model
	if res.pending.Merge != nil && m.pMerge != nil {
		res.viol = append(res.viol, checkPart("merge output", res.pending.Merge.Out, m.pMerge.out, last)...)
	}
	if res.pending.MemMerge != nil && m.pMem != nil {
		res.viol = append(res.viol, checkPart("mem-merge output", res.pending.MemMerge.Out, m.pMem.out, last)...)
	}
	if (res.pending.Merge != nil) != (m.pMerge != nil) || (res.pending.MemMerge != nil) != (m.pMem != nil) || (len(res.pending.Flush) > 0) != (m.pFlush != nil) {
		panic("harness: pending halves of table and model disagree")
	}
	// ---- queries vs the version-resolved union of the acknowledged batches
	res.observed = map[string][]measure.VOut{}
	shadow := ""
	for _, p := range res.dump {
		plain, typed := false, false
		for _, tt := range p.TagType {
			if strings.HasPrefix(tt, measure.VFamily+"."+measure.VTagC+":") {
				plain = true
			}
			if strings.HasPrefix(tt, measure.VFamily+"."+typedInt+":") || strings.HasPrefix(tt, measure.VFamily+"."+typedStr+":") {
				typed = true
			}
		}
		if plain && typed {
			shadow = " [a part stores tag c under both the plain and a typed column name]"
		}
	}
	for _, qd := range qs {
		cur = "query " + qd.name
		rows, err := t.Query(qd.q)
		if err != nil {
			res.viol = append(res.viol, viol{Key: fmt.Sprintf("query %s after %s: error %s", qd.name, last, numRe.ReplaceAllString(err.Error(), "#")), Detail: err.Error()})
			continue
		}
		res.observed[qd.name] = rows
		var want []measure.VOut
		inq := map[uint64]bool{}
		for _, s := range qd.q.Sids {
			inq[s] = true
		}
		for k, r := range m.acked {
			if inq[k.s] {
				want = append(want, expectRow(k, r, qd.q.Schema))
			}
		}
		less := func(x []measure.VOut) func(i, j int) bool {
			return func(i, j int) bool {
				if x[i].S != x[j].S {
					return x[i].S < x[j].S
				}
				if x[i].T != x[j].T {
					return x[i].T < x[j].T
				}
				return x[i].V > x[j].V
			}
		}
		got := append([]measure.VOut(nil), rows...)
		sort.SliceStable(got, less(got))
		sort.SliceStable(want, less(want))
		if cls, detail := diffClass(got, want); cls != "" {
			k := fmt.Sprintf("query %s after %s: %s", qd.name, last, cls)
			if strings.Contains(cls, "tag c:") {
				k += shadow
			}
			res.viol = append(res.viol, viol{Key: k, Detail: detail})
		}
	}
	// ---- canonical state
	ids := []uint64{}
	for _, p := range res.dump {
		ids = append(ids, p.ID)
	}
	ids = append(ids, res.pending.Flush...)
	if res.pending.Merge != nil {
		ids = append(ids, res.pending.Merge.Out.ID)
		ids = append(ids, res.pending.Merge.Inputs...)
	}
	if res.pending.MemMerge != nil {
		ids = append(ids, res.pending.MemMerge.Out.ID)
		ids = append(ids, res.pending.MemMerge.Inputs...)
	}
	sort.Slice(ids, func(i, j int) bool { return ids[i] < ids[j] })
	rank := map[uint64]int{}
	for _, id := range ids {
		if _, ok := rank[id]; !ok {
			rank[id] = len(rank)
		}
	}
	var sb strings.Builder
	for i, p := range res.dump {
		kind := "F"
		if p.Mem {
			kind = "M"
		}
		fmt.Fprintf(&sb, "part %d %s\n%s\n", rank[p.ID], kind, realParts2(res.dump[i]))
	}
	rk := func(x []uint64) []int {
		o := make([]int, len(x))
		for i := range x {
			o[i] = rank[x[i]]
		}
		sort.Ints(o)
		return o
	}
	fmt.Fprintf(&sb, "pflush %v\n", rk(res.pending.Flush))
	if pm := res.pending.Merge; pm != nil {
		fmt.Fprintf(&sb, "pmerge %v -> %d\n%s\n", rk(pm.Inputs), rank[pm.Out.ID], realParts2(pm.Out))
	}
	if pm := res.pending.MemMerge; pm != nil {
		fmt.Fprintf(&sb, "pmem %v -> %d\n%s\n", rk(pm.Inputs), rank[pm.Out.ID], realParts2(pm.Out))
	}
	w := append([]string(nil), m.written...)
	sort.Strings(w)
	fmt.Fprintf(&sb, "written %v\n", w)
	res.state = sb.String()
	// outcome class: shape of the table at query time
	nm, nf := 0, 0
	for _, p := range res.dump {
		if p.Mem {
			nm++
		} else {
			nf++
		}
	}
	res.outcome = fmt.Sprintf("w%d mem%d file%d pf%v pm%v px%v", len(m.written), nm, nf, len(res.pending.Flush) > 0, res.pending.Merge != nil, res.pending.MemMerge != nil)
	if len(res.viol) > 0 {
		res.outcome = "violation"
	}
	res.nontriv = len(m.written) > 0 && m.maint > 0
	return res
}

func realParts2(p measure.VPart) string {
	rows, _ := partStrings(p)
	return strings.Join(rows, "\n") + "\ntagtype " + strings.Join(p.TagType, ",")
}

// ---- schedule search -------------------------------------------------------------------------------------------------

type sched struct {
	batches   []string
	maxWrites int
	maxMaint  int
	base      string
	seq       int
}

func subsets(n, minSize int) [][]int {
	var out [][]int
	for m := 1; m < 1<<n; m++ {
		var s []int
		for i := 0; i < n; i++ {
			if m&(1<<i) != 0 {
				s = append(s, i)
			}
		}
		if len(s) >= minSize {
			out = append(out, s)
		}
	}
	return out
}

func (s *sched) applicable(h []string) []string {
	m := newModel()
	for _, op := range h {
		if !m.step(op) {
			panic("frontier history not applicable: " + strings.Join(h, " "))
		}
	}
	var cand []string
	if len(m.written) < s.maxWrites {
		for _, b := range s.batches {
			cand = append(cand, "w:"+b)
		}
	}
	if m.maint < s.maxMaint {
		cand = append(cand, "fA", "fB", "xA", "xB", "mB")
		for _, ss := range subsets(len(m.fileIDs()), 2) {
			f := make([]string, len(ss))
			for i := range ss {
				f[i] = strconv.Itoa(ss[i])
			}
			cand = append(cand, "mA:"+strings.Join(f, ","))
		}
	}
	var ops []string
	for _, op := range cand {
		// applicability is decided by the model on a scratch copy
		mm := newModel()
		for _, o := range h {
			mm.step(o)
		}
		if mm.step(op) {
			ops = append(ops, op)
		}
	}
	return ops
}

func (s *sched) expand(it opsearch.Item) []opsearch.Succ {
	var out []opsearch.Succ
	for _, op := range s.applicable(it.Hist) {
		h := append(append([]string(nil), it.Hist...), op)
		s.seq++
		r := execute(fmt.Sprintf("%s/%d", s.base, s.seq), h, queries(1<<40))
		out = append(out, opsearch.Succ{Op: op, State: r.state, Viol: r.viol, Outcome: r.outcome, Nontrivial: r.nontriv})
	}
	return out
}

// ---- merge pools -----------------------------------------------------------------------------------------------------

type poolStats struct {
	Histories int            `json:"histories"`
	Merges    int            `json:"merges"`
	Outcomes  map[string]int `json:"outcomes"`
}

func posList(s []int) string {
	f := make([]string, len(s))
	for i := range s {
		f[i] = strconv.Itoa(s[i])
	}
	return strings.Join(f, ",")
}

// poolHistories: write every batch of the pool, flush, merge subset S (every S, |S|>=2); if second is set additionally merge
// the output with every non-empty subset R of the remaining parts.
func poolHistories(pool []string, second bool) [][]string {
	var hs [][]string
	var prefix []string
	for _, b := range pool {
		prefix = append(prefix, "w:"+b)
	}
	prefix = append(prefix, "fA", "fB")
	n := len(pool)
	for _, s := range subsets(n, 2) {
		h := append(append([]string(nil), prefix...), "mA:"+posList(s), "mB")
		hs = append(hs, h)
		if !second {
			continue
		}
		rest := n - len(s) // file parts after the merge: the rest in order, then the output at position rest
		for _, r := range subsets(rest, 1) {
			h2 := append(append([]string(nil), h...), "mA:"+posList(append(append([]int(nil), r...), rest)), "mB")
			hs = append(hs, h2)
		}
	}
	return hs
}

type poolJob struct {
	phase string
	hist  []string
	merge bool // counts as one merge (the full history), as opposed to its "output written" prefix
}

// poolJobs lists every checked state of the pool phases: for each pool history the state after its last mA (output
// written, not introduced) and after its last mB.
func poolJobs(thorough bool) []poolJob {
	var jobs []poolJob
	add := func(phase string, hs [][]string) {
		for _, h := range hs {
			jobs = append(jobs, poolJob{phase, h[:len(h)-1], false}, poolJob{phase, h, true})
		}
	}
	add("pool", poolHistories([]string{"B0", "B1", "B2", "B3", "B4"}, true))
	add("pool", poolHistories([]string{"B0", "B5", "B2", "B3", "B1"}, true))
	add("pool", poolHistories([]string{"R0", "R1", "R2", "R3", "B4"}, false))
	ns := []int{measure.VMaxBlockLength}
	if thorough {
		ns = []int{measure.VMaxBlockLength - 1, measure.VMaxBlockLength, measure.VMaxBlockLength + 1}
	}
	for _, n := range ns {
		var pool []string
		for _, l := range []string{"A", "G", "C", "D", "E"} {
			pool = append(pool, fmt.Sprintf("%s%d", l, n))
		}
		add("boundary-pool", poolHistories(pool, false))
	}
	return jobs
}

type poolViol struct {
	Job    int      `json:"job"`
	Phase  string   `json:"phase"`
	Key    string   `json:"key"`
	Hist   []string `json:"hist"`
	Detail any      `json:"detail,omitempty"`
}

type poolOut struct {
	Jobs  int        `json:"jobs"`
	Small poolStats  `json:"small"`
	Big   poolStats  `json:"big"`
	Viol  []poolViol `json:"viol"`
}

func poolWorker(base string, thorough bool) {
	wi, wn, _ := par.Worker()
	out := poolOut{Small: poolStats{Outcomes: map[string]int{}}, Big: poolStats{Outcomes: map[string]int{}}}
	seen := map[string]bool{}
	maxT := int64(1 << 40)
	// big jobs are much heavier than small ones: deal them out separately so every worker gets its share of both
	nbig, nsmall := 0, 0
	for i, j := range poolJobs(thorough) {
		mine := false
		if j.phase == "boundary-pool" {
			mine = nbig%wn == wi
			nbig++
		} else {
			mine = nsmall%wn == wi
			nsmall++
		}
		if !mine {
			continue
		}
		qs, ps := queries(maxT), &out.Small
		if j.phase == "boundary-pool" {
			qs, ps = bigQueries(maxT), &out.Big
		}
		r := execute(fmt.Sprintf("%s/p%d", base, i), j.hist, qs)
		out.Jobs++
		ps.Histories++
		if j.merge {
			ps.Merges++
		}
		ps.Outcomes[r.outcome]++
		for _, v := range r.viol {
			if !seen[v.Key] {
				seen[v.Key] = true
				out.Viol = append(out.Viol, poolViol{Job: i, Phase: j.phase, Key: v.Key, Hist: j.hist, Detail: v.Detail})
			}
		}
	}
	b, _ := json.Marshal(out)
	par.Emit(b)
}

// ---- main ------------------------------------------------------------------------------------------------------------

type artefact struct {
	Phase  string   `json:"phase"`
	Hist   []string `json:"hist"`
	MaxT   int64    `json:"max_t"`
	Detail any      `json:"detail,omitempty"`
}

func main() {
	_ = logger.Init(logger.Logging{Env: "prod", Level: "fatal"})
	if rp := ev.Arg("--replay"); rp != "" {
		replay(rp)
		return
	}
	if n := ev.Arg("--bench"); n != "" {
		k, _ := strconv.Atoi(n)
		b, _ := os.MkdirTemp("/dev/shm", "c03b-")
		defer os.RemoveAll(b)
		if pf := os.Getenv("VERIF_CPUPROFILE"); pf != "" {
			f, _ := os.Create(pf)
			_ = pprof.StartCPUProfile(f)
			defer pprof.StopCPUProfile()
		}
		h := []string{"w:B0", "w:B1", "fA", "fB", "w:B2", "fA", "mA:0,1", "fB"}
		t0 := time.Now()
		for i := 0; i < k; i++ {
			execute(fmt.Sprintf("%s/%d", b, i), h, queries(1<<40))
		}
		fmt.Printf("%v: %v per execution\n", h, time.Since(t0)/time.Duration(k))
		return
	}
	thorough := ev.Thorough()
	base, err := os.MkdirTemp("/dev/shm", "c03-")
	if err != nil {
		panic(err)
	}
	defer os.RemoveAll(base)
	_, _, isWorker := par.Worker()
	if ev.Arg("--only") == "round2" { // development / mutation runs of the round-2 phases alone (no evidence file)
		_ = os.Setenv("VERIF_NOEVIDENCE", "1")
		if isWorker {
			round2Worker(base, thorough)
			os.RemoveAll(base)
			return
		}
		r := ev.New("C03", "model_checking")
		round2Master(r, thorough)
		os.RemoveAll(base)
		r.Finish()
		return
	}
	sc := &sched{batches: []string{"B0", "B1", "B2", "B4"}, maxWrites: 3, maxMaint: 5, base: base}
	if thorough {
		sc.batches, sc.maxMaint = batchOrder[:6], 7
	}
	if v := ev.Arg("--writes"); v != "" {
		sc.maxWrites, _ = strconv.Atoi(v)
	}
	if v := ev.Arg("--maint"); v != "" {
		sc.maxMaint, _ = strconv.Atoi(v)
	}
	var r *ev.Run
	if !isWorker {
		r = ev.New("C03", "model_checking")
		fmt.Printf("C03 schedule search: %d batches, <=%d writes, <=%d maintenance halves\n", len(sc.batches), sc.maxWrites, sc.maxMaint)
	}
	st := opsearch.Run(opsearch.Config{Name: "c03sched", MaxDepth: sc.maxWrites + sc.maxMaint, Workers: 16, Cleanup: func() { os.RemoveAll(base) }}, sc.expand)
	sx := &sidxSched{batches: []string{"S0", "S1", "S2", "S4"}, maxWrites: sc.maxWrites, maxMaint: sc.maxMaint, base: base}
	if thorough {
		sx.batches = sidxBatchOrder
	}
	if !isWorker {
		fmt.Printf("C03 sidx schedule search: %d batches, <=%d writes, <=%d maintenance halves\n", len(sx.batches), sx.maxWrites, sx.maxMaint)
	}
	sst := opsearch.Run(opsearch.Config{Name: "c03sidx", MaxDepth: sx.maxWrites + sx.maxMaint, Workers: 16, Cleanup: func() { os.RemoveAll(base) }}, sx.expand)
	strm, strmSched := streamSearch(sc, base, thorough, isWorker) // stream.go
	if isWorker {
		if os.Getenv("C03_POOL") != "" {
			poolWorker(base, thorough)
		}
		if os.Getenv("C03_SPOOL") != "" {
			streamPoolWorker(base, thorough)
		}
		if os.Getenv("C03_R2") != "" {
			round2Worker(base, thorough) // round2.go
		}
		os.RemoveAll(base)
		return
	}
	for _, v := range sst.Violations {
		r.Violation(v.Key, artefact{Phase: "sidx", Hist: v.Hist, Detail: v.Detail})
	}
	for _, v := range st.Violations {
		r.Violation(v.Key, artefact{Phase: "schedule", Hist: v.Hist, MaxT: 1 << 40, Detail: v.Detail})
	}
	// merge pools: one list of (phase, history-prefix) jobs, sharded over worker subprocesses
	t0 := time.Now()
	ps, bs := poolStats{Outcomes: map[string]int{}}, poolStats{Outcomes: map[string]int{}}
	results, perr := par.Run(16, "C03_POOL=1")
	if perr != nil {
		fmt.Println("HARNESS-ERROR:", perr)
		os.Exit(2)
	}
	var pv []poolViol
	jobsSeen := 0
	for _, b := range results {
		var po poolOut
		if err := json.Unmarshal(b, &po); err != nil {
			fmt.Println("HARNESS-ERROR: bad pool worker result:", err)
			os.Exit(2)
		}
		jobsSeen += po.Jobs
		for _, st := range []struct {
			dst *poolStats
			src poolStats
		}{{&ps, po.Small}, {&bs, po.Big}} {
			st.dst.Histories += st.src.Histories
			st.dst.Merges += st.src.Merges
			for k, v := range st.src.Outcomes {
				st.dst.Outcomes[k] += v
			}
		}
		pv = append(pv, po.Viol...)
	}
	jobs := poolJobs(thorough)
	if jobsSeen != len(jobs) {
		fmt.Printf("HARNESS-ERROR: %d of %d pool jobs reported\n", jobsSeen, len(jobs))
		os.Exit(2)
	}
	sort.SliceStable(pv, func(i, j int) bool { return pv[i].Job < pv[j].Job })
	maxT := int64(1 << 40)
	seen := map[string]bool{}
	for _, v := range pv {
		if !seen[v.Key] {
			seen[v.Key] = true
			r.Violation(v.Key, artefact{Phase: v.Phase, Hist: v.Hist, MaxT: maxT, Detail: v.Detail})
		}
	}
	var small [][]string
	for _, j := range jobs {
		if j.phase == "pool" {
			small = append(small, j.hist)
		}
	}
	fmt.Printf("C03 merge pools (2 pools of 5 parts: every subset and every second-level merge; 1 column-order pool: every subset): %d merges, %d checked states\n", ps.Merges, ps.Histories)
	fmt.Printf("C03 block-boundary pools: %d merges, %d checked states; pools took %.1fs\n", bs.Merges, bs.Histories, time.Since(t0).Seconds())
	nq := len(queries(0))
	r.Set("states", st.States+sst.States)
	r.Set("transitions", st.Transitions+sst.Transitions)
	r.Set("traces_validated_against_impl", st.Transitions+sst.Transitions+ps.Histories+bs.Histories)
	r.Set("schedule_search", st)
	r.Set("sidx_schedule_search", sst)
	r.Set("sidx_bounds", map[string]any{
		"batches":         sx.batches,
		"elements":        "2 series x keys {10,20,30}, unique data per element, one string tag; S4 holds the same (series,key) twice",
		"max_writes":      sx.maxWrites,
		"max_maintenance": sx.maxMaint,
		"queries":         "QuerySync: all asc, all desc, each series, key range [20,20], [10,20]; ScanQuery for the per-part contents",
	})
	r.Set("merge_pools", ps)
	r.Set("boundary_pools", bs)
	r.Set("queries_per_state", nq)
	r.Set("query_evaluations", (st.Transitions+ps.Histories+bs.Histories)*nq)
	r.Set("distinct_outcomes", st.DistinctOutcomes+sst.DistinctOutcomes)
	r.Set("nontrivial_transitions", st.Nontrivial+sst.Nontrivial)
	r.Set("rule", "a transition is non-trivial when at least one batch was written and at least one maintenance half ran before the state is queried; an outcome class = (#batches, #memory parts, #file parts, which halves are pending) at query time")
	r.Set("bounds", map[string]any{
		"batches":            sc.batches,
		"max_writes":         sc.maxWrites,
		"max_maintenance":    sc.maxMaint,
		"maintenance_ops":    "flush split in two halves (files written | introduced), merge of every subset (>=2) of file parts split in two halves, flusher-side merge of all memory parts split in two halves; at most one flusher-side and one merger-side operation in flight, as in the real loops",
		"merge_pools":        "2 pools of 5 file parts: every subset (>=2) merged, and every merge of such an output with every non-empty subset of the remaining parts",
		"boundary_pools":     "5-part pools around a series of 8192 rows (quick) / 8191, 8192, 8193 rows (thorough): every subset (>=2)",
		"queries":            "full range over both series, each single series, tag c declared int and declared string, Pull and PullBatch, ordered by time and by series",
		"distinct_versions":  "every batch has its own version",
		"conflicting_tag":    "tag c is written as int64 by B0,B2, as string by B1,B3,B5, absent in B4",
		"state_digest_parts": "ordered list of parts (rank-normalised ids, kind, rows, tag.type) + pending halves + set of written batches",
	})
	for i, h := range st.SampleHistories {
		if i < 5 {
			r.Sample(map[string]any{"phase": "schedule", "history": h})
		}
	}
	r.Sample(map[string]any{"phase": "pool", "history": small[len(small)/2]})
	for i, h := range sst.SampleHistories {
		if i < 2 {
			r.Sample(map[string]any{"phase": "sidx", "history": h})
		}
	}
	r.Assume("maintenance halves are driven one at a time from one goroutine (their interleaving with writes and queries is enumerated, true parallelism is not)")
	r.Assume("the reference model (Go maps: version-resolved union) is correct")
	fmt.Printf("C03: measure states=%d transitions=%d pool_states=%d | sidx states=%d transitions=%d | distinct_outcomes=%d\n",
		st.States, st.Transitions, ps.Histories+bs.Histories, sst.States, sst.Transitions, st.DistinctOutcomes+sst.DistinctOutcomes)
	if ev.Arg("--round2") != "off" {
		round2Master(r, thorough) // round2.go: two interleaved measure merges; sidx query in flight across an introduction
	}
	streamReport(r, strm, strmSched, thorough) // stream.go: violations, merge pools, coverage
	os.RemoveAll(base)                         // Finish exits the process, deferred calls do not run
	r.Finish()
}

func replay(p string) {
	b, err := os.ReadFile(p)
	if err != nil {
		fmt.Println(err)
		os.Exit(2)
	}
	var a struct {
		Key      string   `json:"key"`
		Artefact artefact `json:"artefact"`
	}
	if err := json.Unmarshal(b, &a); err != nil {
		fmt.Println(err)
		os.Exit(2)
	}
	base, _ := os.MkdirTemp("/dev/shm", "c03r-")
	defer os.RemoveAll(base)
	if strings.HasPrefix(a.Artefact.Phase, "stream") {
		replayStream(a.Artefact.Phase, a.Artefact.Hist, a.Key, base+"/t")
		return
	}
	if a.Artefact.Phase == "pair" {
		replayPair(a.Artefact.Hist, a.Key, base+"/t")
		return
	}
	if a.Artefact.Phase == "sidx" {
		res := executeSidx(base+"/t", a.Artefact.Hist)
		fmt.Println("history:", a.Artefact.Hist)
		for _, q := range sidxQueries {
			fmt.Printf("  %-10s %v\n", q.name, res.obs[q.name])
		}
		for _, v := range res.viol {
			fmt.Println("violation:", v.Key)
		}
		if len(res.viol) > 0 {
			os.RemoveAll(base)
			os.Exit(1)
		}
		fmt.Println("no violation")
		return
	}
	if a.Artefact.MaxT == 0 {
		a.Artefact.MaxT = 1 << 40
	}
	qs := queries(a.Artefact.MaxT)
	if a.Artefact.Phase == "boundary-pool" {
		qs = bigQueries(a.Artefact.MaxT)
	}
	res := execute(base+"/t", a.Artefact.Hist, qs)
	fmt.Println("history:", a.Artefact.Hist)
	for _, p := range res.dump {
		rows, _ := partStrings(p)
		if len(rows) > 12 {
			rows = append(rows[:12], fmt.Sprintf("... %d rows", len(p.Rows)))
		}
		fmt.Printf("  part %d mem=%v tagtype=%v rows=%v\n", p.ID, p.Mem, p.TagType, rows)
	}
	for _, qd := range qs {
		rows := res.observed[qd.name]
		if len(rows) > 12 {
			rows = rows[:12]
		}
		fmt.Printf("  %-22s %v\n", qd.name, rows)
	}
	hit := false
	for _, v := range res.viol {
		fmt.Println("violation:", v.Key)
		if v.Key == a.Key {
			hit = true
		}
	}
	if len(res.viol) > 0 {
		if !hit {
			fmt.Println("(recorded key not reproduced, other violations present)")
		}
		os.RemoveAll(base)
		os.Exit(1)
	}
	fmt.Println("no violation")
}
