// C07: retention removes only fully expired segments and hides them at once.
//
// Engine O (mc/opsearch) on the real storage.database: per configuration (segment interval x TTL x alternative TTL x
// segments idle-closed or open) a multi-source breadth-first search from every layout of <= 4 segments over the
// operations {set clock, scheduled retention run, tick-driven retention run, forced delete (gate free / held),
// create, live TTL update}, with select / peek / expired-range observations in every state, against a reference
// computed from the segment list read back before each operation.
package main

import (
	"encoding/json"
	"fmt"
	"os"
	"os/exec"
	"path/filepath"
	"sort"
	"strings"
	"time"
	_ "time/tzdata"

	"github.com/apache/skywalking-banyandb/banyand/internal/storage"
	"github.com/apache/skywalking-banyandb/pkg/logger"
	"github.com/apache/skywalking-banyandb/pkg/timestamp"
	"github.com/apache/skywalking-banyandb/pkg/verif/ev"
	"github.com/apache/skywalking-banyandb/pkg/verif/opsearch"
)

// nBuckets is the number of grid buckets of the scene of the configuration being run (layouts = all subsets).
var nBuckets = 4

type rule struct {
	Unit string `json:"unit"`
	Num  int    `json:"num"`
}

func (r rule) String() string { return fmt.Sprintf("%d%s", r.Num, strings.ToLower(r.Unit[:1])) }

func (r rule) ir() storage.IntervalRule {
	if r.Unit == "DAY" {
		return storage.IntervalRule{Unit: storage.DAY, Num: r.Num}
	}
	return storage.IntervalRule{Unit: storage.HOUR, Num: r.Num}
}

// dur is the TTL as the property means it: Num hours / Num days of 24 hours.
func (r rule) dur() time.Duration {
	if r.Unit == "DAY" {
		return time.Duration(r.Num) * 24 * time.Hour
	}
	return time.Duration(r.Num) * time.Hour
}

var (
	ttls      = []rule{{"HOUR", 1}, {"HOUR", 3}, {"DAY", 1}, {"DAY", 2}}
	intervals = []rule{{"HOUR", 1}, {"DAY", 1}, {"DAY", 2}}
)

type cfg struct {
	Interval rule `json:"interval"`
	TTL      rule `json:"ttl"`
	AltTTL   rule `json:"alt_ttl"` // the other TTL a live UpdateOptions can switch to (and back)
	Buckets  int  `json:"buckets"`
	Closed   bool `json:"segments_idle_closed"`
}

func (c cfg) String() string {
	return fmt.Sprintf("interval=%s/ttl=%s/alt=%s/closed=%v/buckets=%d", c.Interval, c.TTL, c.AltTTL, c.Closed, c.Buckets)
}

// bounds are the nBuckets+1 grid boundaries of the scene (UTC, no legacy segments: C06 owns the grid).
func (c cfg) bounds() []time.Time {
	ir := c.Interval.ir()
	b := []time.Time{ir.Standard(time.Date(2026, 9, 10, 12, 0, 0, 0, time.Local))}
	for i := 0; i < nBuckets; i++ {
		b = append(b, ir.NextTime(b[i]))
	}
	return b
}

type op struct {
	T    time.Time
	Kind string // clock | retention | tick-retention | forced | forced-gated | create | ttl
	Name string
	TTL  rule
}

func (c cfg) clockPositions() []time.Time {
	bs := c.bounds()
	out := []time.Time{bs[0]} // "early": nothing has expired under either TTL
	add := func(t time.Time) {
		for _, o := range out {
			if o.Equal(t) {
				return
			}
		}
		out = append(out, t)
	}
	for _, ttl := range []rule{c.TTL, c.AltTTL} {
		for _, b := range bs {
			for _, d := range []time.Duration{-1, 0, 1} {
				add(b.Add(ttl.dur() + d))
			}
		}
	}
	sort.Slice(out[1:], func(i, j int) bool { return out[1+i].Before(out[1+j]) })
	return out
}

func (c cfg) ops() []op {
	var out []op
	bs := c.bounds()
	for i := 0; i < nBuckets; i++ {
		mid := bs[i].Add(bs[i+1].Sub(bs[i])/2 + 7*time.Minute)
		out = append(out, op{Kind: "create", T: mid, Name: fmt.Sprintf("create(bucket%d:%s)", i, mid.UTC().Format(time.RFC3339))})
	}
	out = append(out,
		op{Kind: "retention", Name: "scheduled-retention-run(now=clock)"},
		op{Kind: "tick-retention", T: bs[nBuckets].Add(3 * 24 * time.Hour), Name: "Tick(data timestamp>=" + bs[nBuckets].Add(3*24*time.Hour).UTC().Format(time.RFC3339) + ")->rotation goroutine"},
		op{Kind: "forced", Name: "forced-delete-oldest"},
		op{Kind: "forced-gated", Name: "forced-delete-oldest(retention gate held)"},
		op{Kind: "ttl", TTL: c.AltTTL, Name: "UpdateOptions(ttl=" + c.AltTTL.String() + ")"},
		op{Kind: "ttl", TTL: c.TTL, Name: "UpdateOptions(ttl=" + c.TTL.String() + ")"},
	)
	for i, p := range c.clockPositions() {
		out = append(out, op{Kind: "clock", T: p, Name: fmt.Sprintf("clock:=p%d(%s)", i, p.UTC().Format(time.RFC3339Nano))})
	}
	return out
}

// seeds: every subset of the buckets, created in ascending order.
func seeds() [][]int {
	var out [][]int
	for m := 0; m < 1<<nBuckets; m++ {
		var s []int
		for i := 0; i < nBuckets; i++ {
			if m&(1<<i) != 0 {
				s = append(s, i)
			}
		}
		out = append(out, s)
	}
	return out
}

// ---------------------------------------------------------------------------------------------------------------

type rng struct{ S, E int64 }

func (r rng) String() string {
	return "[" + time.Unix(0, r.S).UTC().Format(time.RFC3339Nano) + "," + time.Unix(0, r.E).UTC().Format(time.RFC3339Nano) + ")"
}

type system struct {
	c    cfg
	base string
	ops  []op
	ins  []time.Time // instants for select ranges
	seq  int
}

func (s *system) NumOps() int          { return len(s.ops) }
func (s *system) OpName(op int) string { return s.ops[op].Name }

type instance struct {
	sys       *system
	db        *storage.VDB
	dir       string
	now       time.Time
	prevNow   time.Time
	ttl       rule
	poisoned  bool
	closed    bool
	ttlAtOpen rule
}

func (s *system) Fresh() (opsearch.Inst, []opsearch.Finding) {
	s.seq++
	in := &instance{sys: s, dir: filepath.Join(s.base, fmt.Sprintf("i%d", s.seq)), ttl: s.c.TTL, ttlAtOpen: s.c.TTL}
	in.now = s.c.clockPositions()[0]
	db, err := storage.VOpenDB(in.dir, storage.VOpts{Now: in.now, Interval: s.c.Interval.ir(), TTL: s.c.TTL.ir()})
	if err != nil {
		panic(err)
	}
	in.db = db
	db.InstallCounters()
	return in, nil
}

func (in *instance) Poisoned() bool { return in.poisoned }

func (in *instance) Close() {
	if in.closed {
		return
	}
	in.closed = true
	func() {
		defer func() { _ = recover() }()
		_ = in.db.Close()
	}()
	_ = os.RemoveAll(in.dir)
}

func ranges(db *storage.VDB) []rng {
	var out []rng
	for _, s := range db.List() {
		a, b := s.Range()
		out = append(out, rng{a.UnixNano(), b.UnixNano()})
	}
	return out
}

func has(rs []rng, r rng) bool {
	for _, x := range rs {
		if x == r {
			return true
		}
	}
	return false
}

func (in *instance) Digest() string {
	if in.poisoned {
		return "poisoned"
	}
	var sb strings.Builder
	fmt.Fprintf(&sb, "now=%d ttl=%s", in.now.UnixNano(), in.ttl)
	for _, r := range ranges(in.db) {
		fmt.Fprintf(&sb, " %d-%d", r.S, r.E)
	}
	return sb.String()
}

// ttlState tells whether the TTL was changed by a live UpdateOptions since the database was opened (the retention
// task is constructed at open time).
func (in *instance) ttlState() string {
	switch {
	case in.ttl == in.ttlAtOpen:
		return "as-opened"
	case in.ttl.dur() > in.ttlAtOpen.dur():
		return "raised-live"
	default:
		return "lowered-live"
	}
}

func (in *instance) finding(opk, inv, attrs, detail string) opsearch.Finding {
	c := in.sys.c
	k := fmt.Sprintf("%s/%s interval=%s ttl=%s ttl-since-open=%s closed=%v", opk, inv, c.Interval, in.ttl, in.ttlState(), c.Closed)
	if attrs != "" {
		k += " " + attrs
	}
	return opsearch.Finding{Key: k, Detail: detail}
}

func (in *instance) deadline() int64 { return in.now.Add(-in.ttl.dur()).UnixNano() }

func (in *instance) prep() {
	if in.sys.c.Closed {
		in.db.CloseAllIdle()
	}
}

func (in *instance) guard(opk string, fs *[]opsearch.Finding, f func()) {
	defer func() {
		if r := recover(); r != nil {
			in.poisoned = true
			*fs = append(*fs, in.finding(opk, "panic", "", fmt.Sprint(r)))
		}
	}()
	f()
}

// dirs checks that exactly the listed segments have a directory.
func (in *instance) dirs(opk string, removed []rng) (fs []opsearch.Finding) {
	for _, s := range in.db.List() {
		if !s.State().DirExists {
			fs = append(fs, in.finding(opk, "kept-segment-directory-missing", "", s.Suffix()))
		}
	}
	es, _ := os.ReadDir(in.dir)
	n := 0
	for _, e := range es {
		if strings.HasPrefix(e.Name(), "seg-") {
			n++
		}
	}
	if n != len(in.db.List()) {
		fs = append(fs, in.finding(opk, "directories-differ-from-list", "", fmt.Sprintf("%d seg-* directories, %d segments listed, removed %v", n, len(in.db.List()), removed)))
	}
	return fs
}

func (in *instance) Undo(o int) bool {
	if in.sys.ops[o].Kind != "clock" {
		return false
	}
	in.now = in.prevNow
	in.db.Clock.SetNow(in.now)
	return true
}

func (in *instance) Apply(o int) (fs []opsearch.Finding) {
	if in.poisoned {
		return nil
	}
	p := in.sys.ops[o]
	if p.Kind == "clock" {
		in.prevNow = in.now
		in.now = p.T
		in.db.Clock.SetNow(p.T)
		return nil
	}
	in.prep()
	pre := ranges(in.db)
	D := in.deadline()
	removedOf := func(post []rng) (rm []rng) {
		for _, r := range pre {
			if !has(post, r) {
				rm = append(rm, r)
			}
		}
		return rm
	}
	noNew := func(opk string, post []rng) {
		for _, r := range post {
			if !has(pre, r) {
				fs = append(fs, in.finding(opk, "segment-appeared", "", r.String()))
			}
		}
	}
	switch p.Kind {
	case "create":
		var s *storage.VSeg
		var err error
		in.guard("create", &fs, func() { s, err = in.db.Create(p.T) })
		if in.poisoned {
			return fs
		}
		if err != nil {
			return append(fs, in.finding("create", "rejected", "", err.Error()))
		}
		a, b := s.Range()
		s.DecRef()
		got := rng{a.UnixNano(), b.UnixNano()}
		if !(got.S <= p.T.UnixNano() && p.T.UnixNano() < got.E) {
			fs = append(fs, in.finding("create", "returned-segment-does-not-contain-ts", "", got.String()))
		}
		post := ranges(in.db)
		if rm := removedOf(post); len(rm) > 0 {
			fs = append(fs, in.finding("create", "segment-removed", "", fmt.Sprint(rm)))
		}
		return append(fs, in.dirs("create", nil)...)
	case "ttl":
		in.guard("ttl", &fs, func() { in.db.UpdateOptions(in.sys.c.Interval.ir(), p.TTL.ir()) })
		if in.poisoned {
			return fs
		}
		in.ttl = p.TTL
		if got := in.db.CurrentTTL(); got != p.TTL.ir() {
			fs = append(fs, in.finding("ttl", "not-applied", "", fmt.Sprint(got)))
		}
		if post := ranges(in.db); len(removedOf(post)) > 0 || len(post) != len(pre) {
			fs = append(fs, in.finding("ttl", "segment-list-changed", "", fmt.Sprintf("before %v after %v", pre, post)))
		}
		return fs
	case "retention", "tick-retention":
		now := in.now
		attrs := ""
		if p.Kind == "tick-retention" {
			now = p.T // the rotation goroutine hands the tick's event time to the same task object
			if now.After(in.now) {
				attrs = "event-time=ahead-of-clock"
			} else {
				attrs = "event-time=not-ahead-of-clock"
			}
		}
		in.guard(p.Kind, &fs, func() {
			if p.Kind == "tick-retention" {
				// the production path: database.Tick(data timestamp) -> tsEventCh -> rotation goroutine -> rt.run
				if harnessErr != "" {
					in.poisoned = true
					return
				}
				_, runs, err := in.db.TickSync(now.UnixNano(), 3*time.Minute)
				switch {
				case err != nil:
					harnessErr, in.poisoned = err.Error(), true
				case runs != 1:
					harnessErr, in.poisoned = fmt.Sprintf("Tick was followed by %d retention runs of the rotation goroutine, want 1", runs), true
				}
				ticks++
				return
			}
			if !in.db.ScheduledRetention(now) {
				panic("no retention task is registered with the scheduler")
			}
		})
		if harnessErr != "" {
			return nil
		}
		if in.poisoned {
			return fs
		}
		post := ranges(in.db)
		rm := removedOf(post)
		noNew(p.Kind, post)
		for _, r := range rm {
			if r.E > D {
				fs = append(fs, in.finding(p.Kind, "removed-segment-not-fully-expired", attrs,
					fmt.Sprintf("removed %v at clock %s (run's now %s), ttl %s: deadline %s", r, in.now.UTC().Format(time.RFC3339Nano), now.UTC().Format(time.RFC3339Nano), in.ttl, time.Unix(0, D).UTC().Format(time.RFC3339Nano))))
			}
		}
		if p.Kind == "retention" {
			for _, r := range post {
				if r.E <= D {
					fs = append(fs, in.finding(p.Kind, "kept-fully-expired-segment", attrs,
						fmt.Sprintf("kept %v at clock %s, ttl %s: deadline %s", r, in.now.UTC().Format(time.RFC3339Nano), in.ttl, time.Unix(0, D).UTC().Format(time.RFC3339Nano))))
				}
			}
		}
		outcome("retention removed " + fmt.Sprint(len(rm)))
		return append(fs, in.dirs(p.Kind, rm)...)
	case "forced", "forced-gated":
		var deleted bool
		var err error
		done := make(chan struct{})
		var release func()
		if p.Kind == "forced-gated" {
			release = in.db.HoldGate()
		}
		go func() {
			defer close(done)
			in.guard(p.Kind, &fs, func() { deleted, err = in.db.DeleteOldest() })
		}()
		select {
		case <-done:
		case <-time.After(3 * time.Minute):
			in.poisoned = true
			if release != nil {
				release()
			}
			return append(fs, in.finding(p.Kind, "did-not-return", "", "DeleteOldestSegment blocked for 3 minutes"))
		}
		if release != nil {
			release()
		}
		if in.poisoned {
			return fs
		}
		if err != nil {
			fs = append(fs, in.finding(p.Kind, "error", "", err.Error()))
		}
		post := ranges(in.db)
		rm := removedOf(post)
		noNew(p.Kind, post)
		switch {
		case p.Kind == "forced-gated" && (len(rm) > 0 || deleted):
			fs = append(fs, in.finding(p.Kind, "removed-while-retention-gate-held", "", fmt.Sprintf("removed %v returned %v", rm, deleted)))
		case len(pre) <= 1 && (len(rm) > 0 || deleted):
			fs = append(fs, in.finding(p.Kind, "removed-last-segment", "", fmt.Sprintf("had %v removed %v returned %v", pre, rm, deleted)))
		case len(rm) > 1:
			fs = append(fs, in.finding(p.Kind, "removed-more-than-one", "", fmt.Sprint(rm)))
		case len(rm) == 1 && rm[0] != pre[0]:
			fs = append(fs, in.finding(p.Kind, "removed-segment-is-not-the-oldest", "", fmt.Sprintf("removed %v oldest %v", rm[0], pre[0])))
		}
		if deleted != (len(rm) > 0) {
			fs = append(fs, in.finding(p.Kind, "return-value-disagrees", "", fmt.Sprintf("returned %v removed %v", deleted, rm)))
		}
		outcome(fmt.Sprintf("%s had %d removed %d", p.Kind, min(len(pre), 3), len(rm)))
		return append(fs, in.dirs(p.Kind, rm)...)
	}
	panic("unknown op kind " + p.Kind)
}

var outcomes = map[string]int{}

// harnessErr: the asynchronous tick path could not be synchronised (never a verdict).
var harnessErr string

var ticks int

func outcome(s string) { outcomes[s]++ }

var selects, hiddenCases, nontrivial int

// observe: what queries and the disk monitor see in this state.
func (s *system) observe(oi opsearch.Inst, _ []int) (fs []opsearch.Finding) {
	in := oi.(*instance)
	if in.poisoned {
		return nil
	}
	rs := ranges(in.db)
	D := in.deadline()
	nExp := 0
	for _, r := range rs {
		if r.E <= D {
			nExp++
		}
	}
	if nExp > 0 && nExp < len(rs) {
		nontrivial++
	}
	type pair struct{ i, j int }
	pairs := []pair{{0, len(s.ins) - 1}} // the whole span first: in the idle-closed variant it meets every segment closed
	for i := range s.ins {
		for j := i; j < len(s.ins); j++ {
			if i != 0 || j != len(s.ins)-1 {
				pairs = append(pairs, pair{i, j})
			}
		}
	}
	for _, reopen := range []bool{false, true} {
		in.prep()
		{
			for _, pr := range pairs {
				a, b := s.ins[pr.i], s.ins[pr.j]
				got, err := in.db.Select(timestamp.NewInclusiveTimeRange(a, b), reopen)
				selects++
				var g []rng
				for _, x := range got {
					p, q := x.Range()
					g = append(g, rng{p.UnixNano(), q.UnixNano()})
					x.DecRef()
				}
				if err != nil {
					fs = append(fs, in.finding("select", "error", "", err.Error()))
					continue
				}
				where := fmt.Sprintf("range [%s,%s] reopen=%v clock %s ttl %s list %v", a.UTC().Format(time.RFC3339Nano), b.UTC().Format(time.RFC3339Nano), reopen, in.now.UTC().Format(time.RFC3339Nano), in.ttl, rs)
				seen := map[rng]int{}
				for _, r := range g {
					seen[r]++
					switch {
					case !has(rs, r):
						fs = append(fs, in.finding("select", "returned-unknown-segment", "", r.String()+" "+where))
					case r.E <= D:
						fs = append(fs, in.finding("select", "returned-fully-expired-segment", fmt.Sprintf("end-minus-deadline=%s", sign(r.E-D)), r.String()+" "+where))
					case !(a.UnixNano() < r.E && b.UnixNano() >= r.S):
						fs = append(fs, in.finding("select", "returned-non-overlapping-segment", "", r.String()+" "+where))
					}
					if seen[r] == 2 {
						fs = append(fs, in.finding("select", "returned-segment-twice", "", r.String()+" "+where))
					}
				}
				for _, r := range rs {
					if a.UnixNano() < r.E && b.UnixNano() >= r.S {
						if r.E > D && seen[r] == 0 {
							fs = append(fs, in.finding("select", "hid-segment-younger-than-ttl", fmt.Sprintf("end-minus-deadline=%s", sign(r.E-D)), r.String()+" "+where))
						}
						if r.E <= D {
							hiddenCases++
						}
					}
				}
			}
		}
	}
	// disk monitor's view
	in.prep()
	end, ok := in.db.PeekOldestEnd()
	switch {
	case ok && len(rs) <= 1:
		fs = append(fs, in.finding("peek-oldest", "reported-with-at-most-one-segment", "", fmt.Sprint(rs)))
	case ok && end.UnixNano() != rs[0].E:
		fs = append(fs, in.finding("peek-oldest", "wrong-end", "", fmt.Sprintf("%s, oldest %v", end, rs[0])))
	}
	release := in.db.HoldGate()
	if _, ok := in.db.PeekOldestEnd(); ok {
		fs = append(fs, in.finding("peek-oldest", "answered-while-retention-gate-held", "", ""))
	}
	release()
	// lifecycle migration's view: the expired range must cover exactly the fully expired segments (a prefix of the list)
	er := in.db.ExpiredRange()
	var first, last *rng
	for i := range rs {
		if rs[i].E <= D {
			if first == nil {
				first = &rs[i]
			}
			last = &rs[i]
		}
	}
	switch {
	case first == nil && !er.Start.IsZero():
		fs = append(fs, in.finding("expired-range", "reported-although-nothing-expired", "", er.String()))
	case first != nil && (er.Start.UnixNano() != first.S || er.End.UnixNano() != last.E):
		fs = append(fs, in.finding("expired-range", "wrong-range", "", fmt.Sprintf("%s, expired %v..%v", er.String(), *first, *last)))
	}
	return fs
}

func sign(d int64) string {
	switch {
	case d < 0:
		return "negative"
	case d == 0:
		return "zero"
	}
	return "positive"
}

// ---------------------------------------------------------------------------------------------------------------

type result struct {
	Outcomes   map[string]int `json:"outcomes"`
	Cfg        cfg            `json:"cfg"`
	Stats      opsearch.Stats `json:"stats"`
	Selects    int            `json:"selects"`
	Hidden     int            `json:"select_cases_with_an_expired_overlapping_segment"`
	Nontrivial int            `json:"nontrivial_states"`
	Positions  int            `json:"clock_positions"`
	Ticks      int            `json:"ticks_through_the_rotation_goroutine"`
	Skipped    bool           `json:"skipped,omitempty"`
}

func allConfigs(thorough bool) []cfg {
	var out []cfg
	for _, iv := range intervals {
		for i, t := range ttls {
			alts := []rule{ttls[(i+1)%len(ttls)]}
			if thorough {
				alts = append(alts, ttls[(i+3)%len(ttls)])
			}
			for k, alt := range alts {
				for _, cl := range []bool{false, true} {
					nb := 4
					if thorough && k == 0 {
						nb = 5
					}
					out = append(out, cfg{Interval: iv, TTL: t, AltTTL: alt, Closed: cl, Buckets: nb})
				}
			}
		}
	}
	return out
}

func depth(thorough bool) int {
	if d := ev.Arg("--depth"); d != "" {
		var n int
		fmt.Sscan(d, &n)
		return n
	}
	if thorough {
		return 6
	}
	return 5
}

func newSystem(c cfg, base string) *system {
	if c.Buckets > 0 {
		nBuckets = c.Buckets
	}
	sys := &system{c: c, base: base, ops: c.ops()}
	for _, b := range c.bounds() {
		sys.ins = append(sys.ins, b.Add(-1), b)
	}
	return sys
}

func runConfig(c cfg, base string, d int) result {
	sys := newSystem(c, base)
	selects, hiddenCases, nontrivial, ticks = 0, 0, 0, 0
	outcomes = map[string]int{}
	st := opsearch.ExploreFrom(sys, seeds(), d, sys.observe)
	if harnessErr != "" {
		st.HarnessErr = harnessErr
	}
	return result{Cfg: c, Stats: st, Selects: selects, Hidden: hiddenCases, Nontrivial: nontrivial, Outcomes: outcomes, Positions: len(c.clockPositions()), Ticks: ticks}
}

type artefact struct {
	Cfg     cfg      `json:"cfg"`
	Detail  string   `json:"detail"`
	History []string `json:"history"`
	Ops     []int    `json:"ops"`
}

func main() {
	_ = logger.Init(logger.Logging{Env: "prod", Level: "fatal"})
	thorough := ev.Thorough()
	if os.Getenv("TZ") != "UTC" {
		// the whole check runs in UTC (retention arithmetic is zone-free; C06 owns the zone-dependent grid)
		cmd := exec.Command(os.Args[0], os.Args[1:]...)
		cmd.Env = append(os.Environ(), "TZ=UTC")
		cmd.Stdout, cmd.Stderr = os.Stdout, os.Stderr
		if err := cmd.Run(); err != nil {
			if ee, ok := err.(*exec.ExitError); ok {
				os.Exit(ee.ExitCode())
			}
			os.Exit(2)
		}
		return
	}
	if rp := ev.Arg("--replay"); rp != "" {
		replay(rp)
		return
	}
	cfgs := allConfigs(thorough)
	if job, ok := opsearch.WorkerJob(); ok {
		var wi, wn int
		fmt.Sscanf(job, "w%d/%d", &wi, &wn)
		base, err := os.MkdirTemp("/dev/shm", "c07-")
		if err != nil {
			panic(err)
		}
		defer os.RemoveAll(base)
		budget := 12 * time.Minute
		if thorough {
			budget = 50 * time.Minute
		}
		deadline := time.Now().Add(budget)
		only := ev.Arg("--config")
		for i, c := range cfgs {
			if i%wn != wi || (only != "" && c.String() != only) {
				continue
			}
			var r result
			if time.Now().After(deadline) {
				r = result{Cfg: c, Skipped: true}
			} else {
				r = runConfig(c, base, depth(thorough))
			}
			b, _ := json.Marshal(r)
			fmt.Printf("RESULT %s\n", b)
		}
		return
	}
	r := ev.New("C07", "model_checking")
	r.Set("tick_path_probe", tickProbe())
	var jobs []opsearch.Job
	const nw = 16
	for i := 0; i < nw; i++ {
		jobs = append(jobs, opsearch.Job{Name: fmt.Sprintf("w%d/%d", i, nw)})
	}
	res, err := opsearch.RunWorkers(jobs, nw)
	if err != nil {
		fmt.Println("HARNESS-ERROR:", err)
		os.Exit(2)
	}
	var tot opsearch.Stats
	nCfg, sel, hid, nontriv, maxDepth, nticks := 0, 0, 0, 0, 0, 0
	violCount := map[string]int{}
	outc := map[string]int{}
	for _, k := range opsearch.SortedKeys(res) {
		for _, b := range res[k] {
			var x result
			if err := json.Unmarshal(b, &x); err != nil {
				fmt.Println("HARNESS-ERROR: bad worker result:", err)
				os.Exit(2)
			}
			if x.Stats.HarnessErr != "" {
				fmt.Println("HARNESS-ERROR:", x.Cfg, x.Stats.HarnessErr)
				os.Exit(2)
			}
			if x.Skipped {
				r.NotExhaustive("worker budget exhausted before configuration " + x.Cfg.String())
				continue
			}
			nCfg++
			tot.States += x.Stats.States
			tot.Transitions += x.Stats.Transitions
			tot.Changing += x.Stats.Changing
			tot.Replays += x.Stats.Replays
			tot.ReplayedOps += x.Stats.ReplayedOps
			tot.Pruned += x.Stats.Pruned
			sel += x.Selects
			hid += x.Hidden
			nticks += x.Ticks
			nontriv += x.Nontrivial
			if x.Stats.MaxDepth > maxDepth {
				maxDepth = x.Stats.MaxDepth
			}
			for k, v := range x.Outcomes {
				outc[k] += v
			}
			for _, v := range x.Stats.Violations {
				if dp := ev.Arg("--dump"); dp != "" {
					f, _ := os.OpenFile(dp, os.O_APPEND|os.O_CREATE|os.O_WRONLY, 0o644)
					b, _ := json.Marshal(map[string]any{"cfg": x.Cfg.String(), "key": v.Key, "detail": v.Detail, "history": v.History})
					f.Write(append(b, '\n'))
					f.Close()
				}
				violCount[v.Key]++
				r.Violation(v.Key, artefact{Cfg: x.Cfg, Detail: v.Detail, History: v.History, Ops: v.Ops})
			}
			if nCfg%5 == 1 {
				r.Sample(map[string]any{"config": x.Cfg.String(), "states": x.Stats.States, "transitions": x.Stats.Transitions,
					"states_by_depth": x.Stats.ByDepth, "selects": x.Selects, "clock_positions": x.Positions})
			}
		}
	}
	if nCfg+0 != len(cfgs) && r.Exhaustive {
		fmt.Printf("HARNESS-ERROR: %d of %d configurations reported\n", nCfg, len(cfgs))
		os.Exit(2)
	}
	for _, k := range opsearch.SortedKeys(violCount) {
		fmt.Printf("FINDING-CLASS configs=%-3d %s\n", violCount[k], k)
	}
	r.Set("configurations", nCfg)
	r.Set("states", tot.States)
	r.Set("transitions", tot.Transitions)
	r.Set("state_changing_transitions", tot.Changing)
	r.Set("traces_validated_against_impl", tot.Replays)
	r.Set("replayed_ops", tot.ReplayedOps)
	r.Set("transitions_not_expanded_after_finding", tot.Pruned)
	r.Set("select_evaluations", sel)
	r.Set("ticks_driven_through_the_rotation_goroutine", nticks)
	r.Set("select_cases_with_an_expired_overlapping_segment", hid)
	r.Set("states_with_some_but_not_all_segments_fully_expired", nontriv)
	r.Set("op_outcomes", outc)
	r.Set("depth", depth(thorough))
	r.Set("buckets", "4 (quick; thorough: second alternative TTL) / 5 (thorough: first alternative TTL)")
	r.Set("max_depth_reached", maxDepth)
	r.Set("distinct_violation_keys", len(violCount))
	r.Set("rule", "a state is (segment list read back from a real database, harness clock position, current TTL); level 0 = all layouts (subsets) of the 4 or 5 grid buckets of the configuration; non-trivial = some but not all segments fully expired at the state's clock")
	r.Assume("single-threaded histories: races of retention with queries/forced cleanup are C14's scheduler harness; here the gate is held or free for a whole operation")
	r.Assume("TZ=UTC, grid-aligned segments only (zone/legacy effects belong to C06)")
	r.Finish()
}

// tickProbe drives the real write-path entry (database.Tick with a data timestamp 10 days ahead of the clock) once and
// records what the rotation goroutine did (informational sample of the tick-retention operation).
func tickProbe() string {
	base, err := os.MkdirTemp("/dev/shm", "c07p-")
	if err != nil {
		return "not run: " + err.Error()
	}
	defer os.RemoveAll(base)
	c := cfg{Interval: rule{"DAY", 1}, TTL: rule{"DAY", 2}, AltTTL: rule{"DAY", 1}, Buckets: 4}
	sys := newSystem(c, base)
	oi, _ := opsearch.Replay(sys, []int{0, 1, 2})
	in := oi.(*instance)
	defer in.Close()
	before := ranges(in.db)
	ts := in.now.Add(10 * 24 * time.Hour)
	used, runs, err := in.db.TickSync(ts.UnixNano(), 3*time.Minute)
	if err != nil {
		return "not synchronised: " + err.Error()
	}
	return fmt.Sprintf("clock %s, ttl %s, segments %v: Tick(data timestamp %s) -> %d retention run(s) by the rotation goroutine, segments afterwards %v",
		in.now.UTC().Format(time.RFC3339), c.TTL, before, time.Unix(0, used).UTC().Format(time.RFC3339), runs, ranges(in.db))
}

func replay(p string) {
	b, err := os.ReadFile(p)
	if err != nil {
		fmt.Println(err)
		os.Exit(2)
	}
	var a struct {
		Key      string   `json:"key"`
		Artefact artefact `json:"artefact"`
	}
	if err := json.Unmarshal(b, &a); err != nil {
		fmt.Println(err)
		os.Exit(2)
	}
	base, _ := os.MkdirTemp("/dev/shm", "c07r-")
	sys := newSystem(a.Artefact.Cfg, base)
	oi, _ := sys.Fresh()
	in := oi.(*instance)
	bad := 0
	show := func(step string, fs []opsearch.Finding) {
		if in.poisoned {
			fmt.Printf("%s\n   (poisoned)\n", step)
		} else {
			fmt.Printf("%s\n   clock %s ttl %s deadline %s list %v\n", step, in.now.UTC().Format(time.RFC3339Nano), in.ttl, time.Unix(0, in.deadline()).UTC().Format(time.RFC3339Nano), ranges(in.db))
		}
		for _, f := range fs {
			bad++
			fmt.Printf("   FINDING %s\n           %s\n", f.Key, f.Detail)
		}
	}
	show("open "+a.Artefact.Cfg.String(), nil)
	for _, o := range a.Artefact.Ops {
		if o < 0 || o >= len(sys.ops) {
			fmt.Println("bad op index")
			os.Exit(2)
		}
		show(sys.ops[o].Name, in.Apply(o))
	}
	show("observe", sys.observe(in, nil))
	in.Close()
	if harnessErr != "" {
		fmt.Println("HARNESS-ERROR:", harnessErr)
		os.RemoveAll(base)
		os.Exit(2)
	}
	os.RemoveAll(base)
	if bad > 0 {
		os.Exit(1)
	}
}
