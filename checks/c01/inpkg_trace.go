package main

// Seam (b), trace: one case = one trace, one point = one span. Real mem part construction -> introducePart ->
// trace-id query pipeline; memory part vs flushed part vs merged part (file merge and memory-part merge).

import (
	"fmt"
	"os"
	"sort"
	"strconv"
	"strings"
	"time"

	"github.com/apache/skywalking-banyandb/banyand/trace"
)

func traceSchema(cols []colDef) []trace.C01Tag {
	var out []trace.C01Tag
	for _, c := range cols {
		if c.Kind != kPayload {
			out = append(out, trace.C01Tag{Name: c.Name, Type: tagTypeOf[c.Kind]})
		}
	}
	return out
}

func traceSpans(d *dataset, r int) []trace.C01Span {
	var out []trace.C01Span
	for si := range d.ss {
		s := &d.ss[si]
		for i := 0; i < s.points(); i++ {
			if s.batch(i) != r {
				continue
			}
			sp := trace.C01Span{Trace: "t" + strconv.Itoa(s.ID), SpanID: "p" + strconv.Itoa(i), TS: d.ts(i)}
			for _, c := range d.cols {
				if c.Kind == kPayload {
					sp.Payload = []byte(d.val(s, c, i).S)
					continue
				}
				if c.Kind == kTime {
					sp.Tags = append(sp.Tags, toTimeTag(d.ts(i)))
					continue
				}
				sp.Tags = append(sp.Tags, toTag(c.Kind, d.val(s, c, i)))
			}
			out = append(out, sp)
		}
	}
	return out
}

type traceReader struct {
	t     *trace.C13Table
	sc    []trace.C01Tag
	d     *dataset
	order []int // pbx datasets: the series ids in stored (trace id) order
	big   int   // pbx datasets: the id of the multi-block trace
}

func openTraceTable(d *dataset) (*trace.C13Table, string) {
	segStart := time.Unix(0, d.t0-d.t0%(24*hourNs))
	dir := scratchDir("t")
	t := trace.C13Open(dir, trace.C13Cfg{Group: "c01", Grace: time.Hour, SegStart: segStart, SegEnd: segStart.Add(24 * time.Hour)})
	t.SetNow(segStart.Add(48 * time.Hour))
	return t, dir
}

func pbxSmall(n int) []series {
	ss := make([]series, n)
	for i := range ss {
		ss[i] = series{Gen: "seq", Seq: []int{1 + i%5}, ID: i}
	}
	return ss
}

// expandPBX turns the descriptor {Gen "pbx", N = B blocks, D = delta} into the dataset it stands for: T single-span
// traces t0..t(T-1), of which the one at position r1+delta of the stored (lexicographic) order is a B-block trace.
// r1 = number of blocks listed by the first primary index block of the same batch made of small traces only (read
// from the part, C01PrimaryLayout): the blocks stored before the big trace are identical in both batches, so the
// roll-over of the real batch falls within one block of r1. T doubles from 1024 until the batch has a roll-over.
func expandPBX(c *collector, d *dataset) (big int, order []int, ok bool) {
	desc := d.ss[0]
	sc := traceSchema(d.cols)
	n, r1 := 1024, 0
	for ; n <= 1<<16 && r1 == 0; n *= 2 {
		probe := &dataset{name: d.name + "/probe", cols: d.cols, ss: pbxSmall(n), t0: d.t0, step: d.step}
		t, dir := openTraceTable(probe)
		t.C01Write(sc, traceSpans(probe, 0))
		layout, err := t.C01PrimaryLayout()
		t.Close()
		_ = os.RemoveAll(dir)
		if err != nil || len(layout) != 1 {
			c.Harness = append(c.Harness, fmt.Sprintf("pbx probe: layout of %d parts, err %v", len(layout), err))
			return 0, nil, false
		}
		if len(layout[0]) >= 2 && len(layout[0][0])+8 <= n && len(layout[0][0])+desc.D >= 1 {
			r1 = len(layout[0][0])
			break
		}
	}
	if r1 == 0 {
		c.Harness = append(c.Harness, "pbx probe: no primary index roll-over up to 65536 traces")
		return 0, nil, false
	}
	order = make([]int, n)
	for i := range order {
		order[i] = i
	}
	sort.Slice(order, func(a, b int) bool { return "t"+strconv.Itoa(order[a]) < "t"+strconv.Itoa(order[b]) })
	als := pbxAlignments(desc.N)
	target := als[desc.D%len(als)]
	c.Outcomes[fmt.Sprintf("trace-pbm/probe traces=%d blocks-in-first-primary-block=%d", n, r1)]++
	for delta := -(desc.N + 4); delta <= 4; delta++ {
		if r1+delta < 1 || r1+delta >= n {
			continue
		}
		big = order[r1+delta]
		cand := &dataset{name: d.name, cols: d.cols, ss: pbxSmall(n), t0: d.t0, step: d.step}
		cand.ss[big] = series{Gen: "big", N: desc.N, ID: big}
		t, dir := openTraceTable(cand)
		t.C01Write(sc, traceSpans(cand, 0))
		got := pbxAlign(c, t, big)
		t.Close()
		_ = os.RemoveAll(dir)
		if len(got) == 1 && got[0] == target {
			d.ss = cand.ss
			return big, order, true
		}
	}
	// not a verdict and not silently dropped: counted, listed in the evidence and in NOTES-round2.md
	c.Outcomes[fmt.Sprintf("trace-pbm/alignment-not-produced blocks=%d align=%s (positions %d..%d of %d traces tried)", desc.N, target, r1-desc.N-4, r1+4, n)]++
	return 0, nil, false
}

// pbxAlign tells how the blocks of the big trace are distributed over the primary index blocks of its part(s):
// "inner:2+1" = two blocks at the end of one primary block and one at the head of the next; "head:3" = the trace
// starts a primary block (not the first) and lies entirely in it; "inner:3" = entirely inside one.
func pbxAlign(c *collector, t *trace.C13Table, big int) (out []string) {
	layout, err := t.C01PrimaryLayout()
	if err != nil {
		c.Harness = append(c.Harness, "pbx layout: "+err.Error())
		return nil
	}
	name := "t" + strconv.Itoa(big)
	for _, part := range layout {
		var counts []string
		head := false
		for pi, pb := range part {
			k := 0
			for _, id := range pb {
				if id == name {
					k++
				}
			}
			if k > 0 {
				if len(counts) == 0 && pi > 0 && pb[0] == name {
					head = true
				}
				counts = append(counts, strconv.Itoa(k))
			}
		}
		if len(counts) > 0 {
			pos := "inner"
			if head {
				pos = "head"
			}
			out = append(out, pos+":"+strings.Join(counts, "+"))
		}
	}
	return out
}

func pbxRecord(c *collector, t *trace.C13Table, big, blocks int, stage string) {
	for _, a := range pbxAlign(c, t, big) {
		c.Outcomes[fmt.Sprintf("trace-pbm/blocks=%d align=%s stage=%s", blocks, a, stage)]++
	}
}

// obsToRows converts returned spans into seam-independent rows ("t<ID>" / "p<point>").
func obsToRows(d *dataset, trace, span string, tags int) (sid int, t int64, ok bool) {
	if !strings.HasPrefix(trace, "t") || !strings.HasPrefix(span, "p") {
		return -1, 0, false
	}
	id, err1 := strconv.Atoi(trace[1:])
	p, err2 := strconv.Atoi(span[1:])
	if err1 != nil || err2 != nil {
		return -1, 0, false
	}
	return id, d.ts(p), true
}

func (m *traceReader) run(c *collector, q query) {
	var proj []string
	for _, ci := range q.Proj {
		if m.d.cols[ci].Kind != kPayload {
			proj = append(proj, m.d.cols[ci].Name)
		}
	}
	ids := make([]string, len(q.Sel))
	for i, id := range q.Sel {
		ids[i] = "t" + strconv.Itoa(id)
	}
	obs, err := m.t.C01Query(m.sc, ids, proj)
	if err != nil {
		c.report(fmt.Sprintf("query-error path=%s:%s query=%s msg=%s", c.path, c.stage, q.Class, short(err.Error())),
			map[string]any{"dataset": m.d.name, "query": q, "series": &m.d.ss[q.Sel[0]]})
		return
	}
	got := make([]gotRow, 0, len(obs))
	for i := range obs {
		sid, t, ok := obsToRows(m.d, obs[i].Trace, obs[i].SpanID, len(obs[i].Tags))
		if !ok {
			sid = -1
		}
		got = append(got, gotRow{sid: sid, t: t, tags: obs[i].Tags, span: obs[i].Payload, hasSp: true})
	}
	q.Span = true
	c.judge(m.d, q, got)
}

func (m *traceReader) fullCheck(c *collector, stage string, upTo int) {
	c.stage = stage
	d := m.d
	lo, hi := int64(-1<<62), int64(1<<62)
	all := allCols(d)
	var payloadOnly []int
	for ci, col := range d.cols {
		if col.Kind == kPayload {
			payloadOnly = []int{ci}
		}
	}
	for _, sel := range chunks(len(d.ss), chunkSeries) {
		m.run(c, query{Class: "traces/all", Proj: all, Sel: sel, Min: lo, Max: hi, UpTo: upTo, Track: true})
		m.run(c, query{Class: "traces/span-only", Proj: payloadOnly, Sel: sel, Min: lo, Max: hi, UpTo: upTo})
		for ci, col := range d.cols {
			if col.Kind == kPayload || d.level == 1 || (d.level == 0 && ci%4 != 0) {
				continue
			}
			m.run(c, query{Class: "traces/col=" + col.id(), Proj: []int{ci, payloadOnly[0]}, Sel: sel, Min: lo, Max: hi, UpTo: upTo})
		}
	}
	if m.order != nil {
		// pbx datasets: every trace within pbxWindow stored positions of the big trace (the roll-over is inside that
		// window) alone, and every set of 2 / 3 traces that are neighbours in stored order there (a wanted neighbour
		// makes the part iterator enter / leave a primary index block at a different place than the trace alone)
		at := 0
		for i, id := range m.order {
			if id == m.big {
				at = i
			}
		}
		for i := at - pbxWindow; i <= at+pbxWindow; i++ {
			for w := 1; w <= 3; w++ {
				if i < 0 || i+w > len(m.order) {
					continue
				}
				m.run(c, query{Class: fmt.Sprintf("trace-run%d/all", w), Proj: all, Sel: append([]int(nil), m.order[i:i+w]...), Min: lo, Max: hi, UpTo: upTo})
			}
		}
		return
	}
	for id := range d.ss {
		m.run(c, query{Class: "trace/all", Proj: all, Sel: []int{id}, Min: lo, Max: hi, UpTo: upTo})
	}
}

const pbxWindow = 6

const hourNs = int64(time.Hour)

func runTraceDataset(c *collector, d *dataset) {
	defer func() {
		if r := recover(); r != nil {
			c.report(fmt.Sprintf("panic path=%s:%s msg=%s", c.path, c.stage, short(fmt.Sprint(r))), map[string]any{"dataset": d.name, "series": &d.ss[0]})
		}
	}()
	sc := traceSchema(d.cols)
	big, bigBlocks := -1, 0
	var order []int
	if len(d.ss) == 1 && d.ss[0].Gen == "pbx" {
		desc := d.ss[0]
		c.descr = &desc
		defer func() { c.descr = nil }()
		var ok bool
		if big, order, ok = expandPBX(c, d); !ok {
			return
		}
		bigBlocks = desc.N
		c.Counts["pbx_datasets"]++
		c.Counts["pbx_traces"] += len(d.ss)
	}
	rounds := maxRounds(d)
	all := allCols(d)
	c.sample(d)
	c.Nontriv += nontrivial(d)
	for variant := 0; variant < 2; variant++ {
		if variant == 1 && rounds < 2 {
			break
		}
		t, dir := openTraceTable(d)
		m := &traceReader{t: t, sc: sc, d: d, order: order, big: big}
		for r := 0; r < rounds; r++ {
			spans := traceSpans(d, r)
			if len(spans) == 0 {
				continue
			}
			t.C01Write(sc, spans)
			c.Counts["batches"]++
			c.Counts["points_written"] += len(spans)
			if r < rounds-1 {
				c.stage = "mem"
				for _, sel := range chunks(len(d.ss), chunkSeries) {
					m.run(c, query{Class: "traces/all", Proj: all, Sel: sel, Min: -1 << 62, Max: 1 << 62, UpTo: r})
				}
			}
		}
		if variant == 0 {
			m.fullCheck(c, "mem", rounds-1)
			if big >= 0 {
				pbxRecord(c, t, big, bigBlocks, "mem")
			}
			// a second part, so that a merge always has two inputs
			t.C01Write(sc, []trace.C01Span{{Trace: "dummy", SpanID: "p0", TS: d.t0, Payload: []byte("x")}})
			if !t.Flush() {
				c.Harness = append(c.Harness, "trace flush did not happen: "+d.name)
			}
			m.fullCheck(c, "flushed", rounds-1)
			if big >= 0 {
				pbxRecord(c, t, big, bigBlocks, "flushed")
			}
			if ids, mem := t.C01FileParts(); len(ids) >= 2 && mem == 0 {
				c.stage = "merged"
				if err := t.Merge(ids, "fast"); err != nil {
					// the engine cannot merge acknowledged data: a verdict
					c.report(fmt.Sprintf("step-failed path=%s step=merge msg=%s", c.path, short(err.Error())), map[string]any{"dataset": d.name, "series": &d.ss[0]})
				} else if ids2, _ := t.C01FileParts(); len(ids2) != 1 {
					c.Harness = append(c.Harness, fmt.Sprintf("trace merge left %d parts: %s", len(ids2), d.name))
				}
				m.fullCheck(c, "merged", rounds-1)
				if big >= 0 {
					pbxRecord(c, t, big, bigBlocks, "merged")
				}
			} else {
				c.Harness = append(c.Harness, fmt.Sprintf("trace: %d file parts, %d memory parts after flush: %s", len(ids), mem, d.name))
			}
		} else {
			c.stage = "memmerged"
			merged, err := t.MergeMem()
			if err != nil {
				c.report(fmt.Sprintf("step-failed path=%s step=memory-part-merge msg=%s", c.path, short(err.Error())), map[string]any{"dataset": d.name, "series": &d.ss[0]})
			} else if !merged {
				c.Harness = append(c.Harness, "trace memory-part merge did not happen: "+d.name)
			}
			m.fullCheck(c, "memmerged", rounds-1)
		}
		parts, blocks, _ := t.C01BlockCounts()
		c.Outcomes[fmt.Sprintf("trace-layout/parts=%d", parts)]++
		if blocks > uint64(len(d.ss))+1 {
			c.Outcomes["trace-layout/some-trace-split-into-several-blocks"]++
		}
		t.Close()
		_ = os.RemoveAll(dir)
	}
}
