package main

// Seam (b), trace: one case = one trace, one point = one span. Real mem part construction -> introducePart ->
// trace-id query pipeline; memory part vs flushed part vs merged part (file merge and memory-part merge).

import (
	"fmt"
	"os"
	"strconv"
	"strings"
	"time"

	"github.com/apache/skywalking-banyandb/banyand/trace"
)

func traceSchema(cols []colDef) []trace.C01Tag {
	var out []trace.C01Tag
	for _, c := range cols {
		if c.Kind != kPayload {
			out = append(out, trace.C01Tag{Name: c.Name, Type: tagTypeOf[c.Kind]})
		}
	}
	return out
}

func traceSpans(d *dataset, r int) []trace.C01Span {
	var out []trace.C01Span
	for si := range d.ss {
		s := &d.ss[si]
		for i := 0; i < s.points(); i++ {
			if s.batch(i) != r {
				continue
			}
			sp := trace.C01Span{Trace: "t" + strconv.Itoa(s.ID), SpanID: "p" + strconv.Itoa(i), TS: d.ts(i)}
			for _, c := range d.cols {
				if c.Kind == kPayload {
					sp.Payload = []byte(d.val(s, c, i).S)
					continue
				}
				if c.Kind == kTime {
					sp.Tags = append(sp.Tags, toTimeTag(d.ts(i)))
					continue
				}
				sp.Tags = append(sp.Tags, toTag(c.Kind, d.val(s, c, i)))
			}
			out = append(out, sp)
		}
	}
	return out
}

type traceReader struct {
	t  *trace.C13Table
	sc []trace.C01Tag
	d  *dataset
}

// obsToRows converts returned spans into seam-independent rows ("t<ID>" / "p<point>").
func obsToRows(d *dataset, trace, span string, tags int) (sid int, t int64, ok bool) {
	if !strings.HasPrefix(trace, "t") || !strings.HasPrefix(span, "p") {
		return -1, 0, false
	}
	id, err1 := strconv.Atoi(trace[1:])
	p, err2 := strconv.Atoi(span[1:])
	if err1 != nil || err2 != nil {
		return -1, 0, false
	}
	return id, d.ts(p), true
}

func (m *traceReader) run(c *collector, q query) {
	var proj []string
	for _, ci := range q.Proj {
		if m.d.cols[ci].Kind != kPayload {
			proj = append(proj, m.d.cols[ci].Name)
		}
	}
	ids := make([]string, len(q.Sel))
	for i, id := range q.Sel {
		ids[i] = "t" + strconv.Itoa(id)
	}
	obs, err := m.t.C01Query(m.sc, ids, proj)
	if err != nil {
		c.report(fmt.Sprintf("query-error path=%s:%s query=%s msg=%s", c.path, c.stage, q.Class, short(err.Error())),
			map[string]any{"dataset": m.d.name, "query": q, "series": &m.d.ss[q.Sel[0]]})
		return
	}
	got := make([]gotRow, 0, len(obs))
	for i := range obs {
		sid, t, ok := obsToRows(m.d, obs[i].Trace, obs[i].SpanID, len(obs[i].Tags))
		if !ok {
			sid = -1
		}
		got = append(got, gotRow{sid: sid, t: t, tags: obs[i].Tags, span: obs[i].Payload, hasSp: true})
	}
	q.Span = true
	c.judge(m.d, q, got)
}

func (m *traceReader) fullCheck(c *collector, stage string, upTo int) {
	c.stage = stage
	d := m.d
	lo, hi := int64(-1<<62), int64(1<<62)
	all := allCols(d)
	var payloadOnly []int
	for ci, col := range d.cols {
		if col.Kind == kPayload {
			payloadOnly = []int{ci}
		}
	}
	for _, sel := range chunks(len(d.ss), chunkSeries) {
		m.run(c, query{Class: "traces/all", Proj: all, Sel: sel, Min: lo, Max: hi, UpTo: upTo, Track: true})
		m.run(c, query{Class: "traces/span-only", Proj: payloadOnly, Sel: sel, Min: lo, Max: hi, UpTo: upTo})
		for ci, col := range d.cols {
			if col.Kind == kPayload || d.level == 1 || (d.level == 0 && ci%4 != 0) {
				continue
			}
			m.run(c, query{Class: "traces/col=" + col.id(), Proj: []int{ci, payloadOnly[0]}, Sel: sel, Min: lo, Max: hi, UpTo: upTo})
		}
	}
	for id := range d.ss {
		m.run(c, query{Class: "trace/all", Proj: all, Sel: []int{id}, Min: lo, Max: hi, UpTo: upTo})
	}
}

const hourNs = int64(time.Hour)

func runTraceDataset(c *collector, d *dataset) {
	defer func() {
		if r := recover(); r != nil {
			c.report(fmt.Sprintf("panic path=%s:%s msg=%s", c.path, c.stage, short(fmt.Sprint(r))), map[string]any{"dataset": d.name, "series": &d.ss[0]})
		}
	}()
	sc := traceSchema(d.cols)
	rounds := maxRounds(d)
	all := allCols(d)
	c.sample(d)
	c.Nontriv += nontrivial(d)
	segStart := time.Unix(0, d.t0-d.t0%(24*hourNs))
	for variant := 0; variant < 2; variant++ {
		if variant == 1 && rounds < 2 {
			break
		}
		dir := scratchDir("t")
		t := trace.C13Open(dir, trace.C13Cfg{Group: "c01", Grace: time.Hour, SegStart: segStart, SegEnd: segStart.Add(24 * time.Hour)})
		t.SetNow(segStart.Add(48 * time.Hour))
		m := &traceReader{t: t, sc: sc, d: d}
		for r := 0; r < rounds; r++ {
			spans := traceSpans(d, r)
			if len(spans) == 0 {
				continue
			}
			t.C01Write(sc, spans)
			c.Counts["batches"]++
			c.Counts["points_written"] += len(spans)
			if r < rounds-1 {
				c.stage = "mem"
				for _, sel := range chunks(len(d.ss), chunkSeries) {
					m.run(c, query{Class: "traces/all", Proj: all, Sel: sel, Min: -1 << 62, Max: 1 << 62, UpTo: r})
				}
			}
		}
		if variant == 0 {
			m.fullCheck(c, "mem", rounds-1)
			// a second part, so that a merge always has two inputs
			t.C01Write(sc, []trace.C01Span{{Trace: "dummy", SpanID: "p0", TS: d.t0, Payload: []byte("x")}})
			if !t.Flush() {
				c.Harness = append(c.Harness, "trace flush did not happen: "+d.name)
			}
			m.fullCheck(c, "flushed", rounds-1)
			if ids, mem := t.C01FileParts(); len(ids) >= 2 && mem == 0 {
				c.stage = "merged"
				if err := t.Merge(ids, "fast"); err != nil {
					// the engine cannot merge acknowledged data: a verdict
					c.report(fmt.Sprintf("step-failed path=%s step=merge msg=%s", c.path, short(err.Error())), map[string]any{"dataset": d.name, "series": &d.ss[0]})
				} else if ids2, _ := t.C01FileParts(); len(ids2) != 1 {
					c.Harness = append(c.Harness, fmt.Sprintf("trace merge left %d parts: %s", len(ids2), d.name))
				}
				m.fullCheck(c, "merged", rounds-1)
			} else {
				c.Harness = append(c.Harness, fmt.Sprintf("trace: %d file parts, %d memory parts after flush: %s", len(ids), mem, d.name))
			}
		} else {
			c.stage = "memmerged"
			merged, err := t.MergeMem()
			if err != nil {
				c.report(fmt.Sprintf("step-failed path=%s step=memory-part-merge msg=%s", c.path, short(err.Error())), map[string]any{"dataset": d.name, "series": &d.ss[0]})
			} else if !merged {
				c.Harness = append(c.Harness, "trace memory-part merge did not happen: "+d.name)
			}
			m.fullCheck(c, "memmerged", rounds-1)
		}
		parts, blocks, _ := t.C01BlockCounts()
		c.Outcomes[fmt.Sprintf("trace-layout/parts=%d", parts)]++
		if blocks > uint64(len(d.ss))+1 {
			c.Outcomes["trace-layout/some-trace-split-into-several-blocks"]++
		}
		t.Close()
		_ = os.RemoveAll(dir)
	}
}
