package main

// The enumerated spaces: columns of the harness schemas, series generators (one series = one history of <= N points
// whose columns are the enumerated column sequences), batch assignments.

import (
	"fmt"
	"strconv"
)

// colDef is one column of a harness schema.
type colDef struct {
	Fam  string // tag family ("" = field resp. flat trace tag)
	Name string
	Kind int
	Rot  int // rotation of the alphabet index: same-typed neighbours never hold the same value at the same point
}

func (c colDef) id() string {
	if c.Fam == "" {
		return c.Name
	}
	return c.Fam + "." + c.Name
}

// measure: two tag families (every tag type the API offers except TIMESTAMP, which measure/stream writes reject
// with a panic in encodeTagValue — see NOTES), every field type, one same-typed neighbour per scalar type.
var measureCols = []colDef{
	{"f1", "s1", kStr, 0}, {"f1", "i1", kInt, 0}, {"f1", "sa1", kStrArr, 0}, {"f1", "ia1", kIntArr, 0}, {"f1", "b1", kBin, 0},
	{"f2", "s2", kStr, 1}, {"f2", "i2", kInt, 1},
	{"", "fi", kFInt, 0}, {"", "ff", kFFloat, 0}, {"", "fs", kFStr, 0}, {"", "fb", kFBin, 0}, {"", "fi2", kFInt, 1},
}

// stream: tags only.
var streamCols = []colDef{
	{"f1", "s1", kStr, 0}, {"f1", "i1", kInt, 0}, {"f1", "sa1", kStrArr, 0}, {"f1", "ia1", kIntArr, 0}, {"f1", "b1", kBin, 0},
	{"f2", "s2", kStr, 1}, {"f2", "i2", kInt, 1},
}

// trace: flat tags + span payload.
var traceCols = []colDef{
	{"", "s1", kStr, 0}, {"", "i1", kInt, 0}, {"", "sa1", kStrArr, 0}, {"", "ia1", kIntArr, 0}, {"", "b1", kBin, 0},
	{"", "s2", kStr, 1}, {"", "i2", kInt, 1}, {"", "ts", kTime, 0}, {"", "span", kPayload, 0},
}

// series is one enumerated case: a history of points of ONE series (measure/stream) resp. ONE trace.
//
//	Gen "seq":   point i holds alphabet value Seq[i] in every column (rotated per column); batch of point i = Asg[i].
//	Gen "limit": N points whose values are functions of the row number, chosen so that every column encoding and the
//	             block limits are forced; Split selects the batch assignment (0: one batch, 1: even/odd rows in two
//	             batches, 2: rows [0,N-1) | last row, 3: two halves).
//	Gen "dict":  N = Rep*D points with D distinct values per dictionary-encoded column (Rep consecutive repeats).
//	Gen "len":   N (4 or 260) points; ONE point (Pos 0 first / 1 middle / 2 last) holds, in every string / binary /
//	             array column, a value whose STORED length is exactly L bytes; its neighbours are short, empty and null
//	             (N = 4: dictionary-encoded block; N = 260: > 256 distinct short values, plain bytes block).
type series struct {
	Gen   string `json:"gen"`
	Seq   []int  `json:"seq,omitempty"`
	Asg   []int  `json:"asg,omitempty"`
	N     int    `json:"n,omitempty"`
	Split int    `json:"split,omitempty"`
	D     int    `json:"d,omitempty"`
	Rep   int    `json:"rep,omitempty"`
	L     int    `json:"l,omitempty"`
	Pos   int    `json:"pos,omitempty"`
	ID    int    `json:"id"` // position in the dataset: series id = ID+2 (in-package) / entity "c<ID>" (e2e)
}

func (s *series) points() int {
	switch s.Gen {
	case "seq":
		return len(s.Seq)
	case "limit", "len", "big":
		return s.N
	case "pbx":
		return 100000 // a descriptor, expanded by the trace driver (expandPBX); the figure only weighs the job
	default:
		return s.D * s.Rep
	}
}

func (s *series) batch(i int) int {
	switch s.Gen {
	case "seq":
		if len(s.Asg) == 0 {
			return 0
		}
		return s.Asg[i]
	case "limit":
		switch s.Split {
		case 1:
			return i & 1
		case 2:
			if i == s.N-1 {
				return 1
			}
			return 0
		case 3:
			if i >= s.N/2 {
				return 1
			}
			return 0
		}
		return 0
	}
	return 0
}

func (s *series) rounds() int {
	m := 0
	for i := 0; i < s.points(); i++ {
		if b := s.batch(i); b > m {
			m = b
		}
	}
	return m + 1
}

// value of column c at point i.
func (s *series) val(c colDef, i int) val {
	switch s.Gen {
	case "seq":
		return pick(c.Kind, s.Seq[i], c.Rot)
	case "limit":
		return limitVal(c, i)
	case "len":
		return lenVal(c, i, s)
	case "big":
		return bigVal(c, i, s.N)
	default:
		return dictVal(c, i/s.Rep, s.D)
	}
}

// bigSpan is the shared backing of the payloads of "big" traces: a trace block takes spans until it holds >= 2 MiB of
// payload (banyand/trace maxUncompressedSpanSize), so every span of this size closes its block.
const bigSpanLen = 2<<20 + 64

var bigSpan = func() string {
	b := make([]byte, bigSpanLen+16)
	for i := range b {
		b[i] = byte(i*131 + i>>9)
	}
	return string(b)
}()

// bigVal: a trace of n spans stored as n blocks: spans 0..n-2 carry bigSpanLen bytes (each different), the last one
// is short; the tags walk through the alphabets.
func bigVal(c colDef, i, n int) val {
	if c.Kind == kPayload {
		if i < n-1 {
			return vs(bigSpan[i : i+bigSpanLen])
		}
		return vs("tail")
	}
	return pick(c.Kind, 1+i, c.Rot)
}

// longPos is the row of a "len" series that holds the long values.
func (s *series) longPos() int {
	switch s.Pos {
	case 0:
		return 0
	case 1:
		return s.N / 2
	}
	return s.N - 1
}

// lenVal: the long row holds values of stored length exactly L; the other rows short / empty / null values (all
// distinct when N > 256, so that the block is a plain bytes block).
func lenVal(c colDef, row int, s *series) val {
	long := row == s.longPos()
	fill := func(n int, text bool) string {
		b := make([]byte, n)
		for i := range b {
			if text {
				b[i] = 'a' + byte((i+c.Rot*7+s.L)%26)
			} else {
				b[i] = byte(i*7 + 3 + c.Rot)
			}
		}
		return string(b)
	}
	// neighbours: row numbers relative to the long row decide short / empty / null
	k := row
	if row > s.longPos() {
		k = row - 1
	}
	switch c.Kind {
	case kInt, kFInt:
		return vi(int64(row)*1000 + int64(c.Rot))
	case kFFloat:
		return vf(float64(row) * 0.5)
	case kStr, kFStr, kBin, kFBin, kPayload:
		text := c.Kind == kStr || c.Kind == kFStr
		if long {
			return vs(fill(s.L, text))
		}
		switch {
		case k%50 == 1:
			return vs("")
		case k%50 == 2 && c.Kind != kPayload:
			return null
		}
		return vs("d" + strconv.Itoa(row) + "-" + strconv.Itoa(c.Rot))
	case kStrArr:
		if long {
			return vsa(fill(s.L-1, true)) // one element + its delimiter = L stored bytes
		}
		switch {
		case k%50 == 1:
			return vsa("")
		case k%50 == 2:
			return null
		}
		return vsa("e"+strconv.Itoa(row), "")
	case kIntArr:
		if long {
			n := s.L / 8 // stored length 8n: the nearest multiple of 8 not above L
			if n < 1 {
				n = 1
			}
			a := make([]int64, n)
			for i := range a {
				a[i] = int64(i) - int64(n/2)
			}
			return via(a...)
		}
		if k%50 == 2 {
			return null
		}
		return via(int64(row))
	}
	panic("lenVal")
}

// limitVal: row-number dependent values; per column a different encoding is forced over thousands of rows.
func limitVal(c colDef, row int) val {
	r := int64(row)
	switch c.Kind {
	case kStr, kFStr:
		if c.Rot == 0 {
			return vs("r" + strconv.Itoa(row)) // > 256 distinct: plain bytes block
		}
		return vs("k" + strconv.Itoa(row/3000)) // few distinct values in runs of 3000 rows: dictionary with long RLE runs
	case kInt, kFInt:
		if c.Name == "fi" {
			return vi(r * 3) // delta-const
		}
		if c.Rot == 0 {
			return vi((r * 2654435761) % 1000) // non-monotone: delta
		}
		return vi(r * r) // monotone, varying delta: delta-of-delta
	case kFFloat:
		return vf(float64(r) * 0.25) // decimal-safe floats
	case kPayload:
		// ~300 bytes per span: 8192 spans cross the 2 MiB span budget of a trace block
		return vs(string([]byte{byte(row), byte(row >> 8), 0, 0xff}) + long300(byte(row)))
	case kBin, kFBin:
		return vs(string([]byte{byte(row), byte(row >> 8), 0, 0xff}))
	case kStrArr:
		return vsa("a"+strconv.Itoa(row%3), "|")
	case kIntArr:
		return via(r, -r)
	}
	panic("limitVal")
}

// dictVal: the j-th distinct value of a D-valued column.
func dictVal(c colDef, j, d int) val {
	x := int64(j)
	switch c.Kind {
	case kStr, kFStr:
		if j == 0 && d > 1 && c.Rot == 0 {
			return null // one of the D dictionary entries is the nil entry
		}
		if j == 1 && d > 2 && c.Rot == 0 {
			return vs("") // and one the empty entry
		}
		return vs("d" + strconv.Itoa(j))
	case kInt, kFInt:
		if c.Rot == 0 {
			return vi(x * 1000)
		}
		if j == 0 {
			return null // int column with a null: plain/dictionary fallback of an int column
		}
		return vi(x)
	case kFFloat:
		if j == 0 && d > 1 {
			return vf(nan()) // float column with a NaN: lossless fallback
		}
		return vf(float64(x) * 0.5)
	case kBin, kFBin, kPayload:
		return vs(string([]byte{byte(j), byte(j >> 8)}))
	case kStrArr:
		return vsa("e" + strconv.Itoa(j))
	case kIntArr:
		return via(x)
	}
	panic("dictVal")
}

// ---------------------------------------------------------------------------------------------------------------
// enumerations

// allSeqs calls f for every sequence over [0,m) of length 1..maxLen (shortest first, lexicographic).
func allSeqs(m, maxLen int, f func(q []int)) {
	for n := 1; n <= maxLen; n++ {
		q := make([]int, n)
		for {
			f(append([]int(nil), q...))
			i := n - 1
			for i >= 0 {
				q[i]++
				if q[i] < m {
					break
				}
				q[i] = 0
				i--
			}
			if i < 0 {
				break
			}
		}
	}
}

// allAssignments returns every assignment of n points to <= maxBatches batches whose used batch numbers form a
// prefix 0..k-1 (every batch non-empty): all splits of the history into batches, contiguous or interleaved, in
// every write order.
func allAssignments(n, maxBatches int) [][]int {
	var out [][]int
	a := make([]int, n)
	var rec func(i int)
	rec = func(i int) {
		if i == n {
			used := map[int]bool{}
			mx := 0
			for _, b := range a {
				used[b] = true
				if b > mx {
					mx = b
				}
			}
			if len(used) == mx+1 {
				out = append(out, append([]int(nil), a...))
			}
			return
		}
		for b := 0; b < maxBatches; b++ {
			a[i] = b
			rec(i + 1)
		}
	}
	rec(0)
	return out
}

// spaceA: every column sequence of length <= maxLen over the full alphabets, one batch.
func spaceA(maxLen int) []series {
	var out []series
	allSeqs(maxAlpha, maxLen, func(q []int) { out = append(out, series{Gen: "seq", Seq: q}) })
	return out
}

// reduced alphabet indices of spaceB: null, the first two ordinary values and one extreme value of every type.
var reducedIdx = []int{0, 1, 3, 8}

// spaceB: every sequence of length <= 4 over the reduced alphabet x every assignment to <= 3 batches.
func spaceB(maxLen, alpha int) []series {
	var out []series
	allSeqs(alpha, maxLen, func(q []int) {
		s := make([]int, len(q))
		for i := range q {
			s[i] = reducedIdx[q[i]]
		}
		for _, a := range allAssignments(len(q), 3) {
			out = append(out, series{Gen: "seq", Seq: s, Asg: a})
		}
	})
	return out
}

// spaceLimit: block-limit datasets.
func spaceLimit(thorough bool) []series {
	var out []series
	if !thorough {
		// memory parts cut a block after 8193 rows, the merger after 8192: 8192 / 8193 / 8194 are the boundary sizes
		for _, n := range []int{8192, 8193, 8194} {
			out = append(out, series{Gen: "limit", N: n, Split: 0}, series{Gen: "limit", N: n, Split: 1})
		}
		// 24577 rows in two interleaved batches: four input blocks of one series, the merger cuts three times
		return append(out, series{Gen: "limit", N: 16385, Split: 1}, series{Gen: "limit", N: 24577, Split: 1})
	}
	for _, n := range []int{8191, 8192, 8193, 8194} {
		for split := 0; split <= 3; split++ {
			out = append(out, series{Gen: "limit", N: n, Split: split})
		}
	}
	out = append(out, series{Gen: "limit", N: 16385, Split: 0}, series{Gen: "limit", N: 16385, Split: 1}, series{Gen: "limit", N: 16385, Split: 3},
		series{Gen: "limit", N: 16386, Split: 1}, series{Gen: "limit", N: 16387, Split: 0}, series{Gen: "limit", N: 24577, Split: 1})
	return out
}

// spaceDict: dictionary-boundary datasets.
func spaceDict(thorough bool) []series {
	var out []series
	ds := []int{1, 2, 3, 127, 128, 129, 255, 256, 257, 300}
	if thorough {
		ds = append(ds, 4, 5, 15, 16, 17, 31, 32, 33, 63, 64, 65, 254, 258, 511, 512, 513)
	}
	for _, d := range ds {
		for _, rep := range []int{1, 2} {
			out = append(out, series{Gen: "dict", D: d, Rep: rep})
		}
	}
	return out
}

// lengthBoundaries: stored lengths around the width switches of pkg/encoding.encodeUint64List (a bytes block stores
// len+1 per value: 8-bit list up to 255, 16-bit up to 65535, then 32-bit) and around compressBlock's 128-byte switch
// between the raw and the zstd form.
var lengthBoundaries = []int{126, 127, 128, 254, 255, 256, 65534, 65535, 65536}

// spaceLen: every boundary length x position of the long row (first / middle / last) x block form (4 rows:
// dictionary; 260 rows: plain bytes block).
func spaceLen() []series {
	var out []series
	for _, l := range lengthBoundaries {
		for pos := 0; pos < 3; pos++ {
			out = append(out, series{Gen: "len", L: l, Pos: pos, N: 4}, series{Gen: "len", L: l, Pos: pos, N: 260})
		}
	}
	return out
}

// spacePBX: primary-index alignment datasets (trace only). A trace part lists its blocks in "primary index blocks"
// that roll over after 128 KiB of block metadata; a trace of B blocks can sit anywhere relative to a roll-over. One
// descriptor = one part of T single-block traces in which the trace at sorted position r1+delta is a B-block trace
// (r1 = number of blocks the first primary block holds, measured on the same batch without the big trace, see
// expandPBX). delta in [-(B+1), +1] x B in {2,3} makes the roll-over fall before the trace, after it, and between
// every two of its blocks; which alignment each dataset produced is recorded (trace-pbm/... outcomes) and the run is
// a harness error unless every alignment was produced.
var pbxBlocks = []int{2, 3}

func spacePBX() []series {
	var out []series
	for _, b := range pbxBlocks {
		for a := range pbxAlignments(b) {
			out = append(out, series{Gen: "pbx", N: b, D: a})
		}
	}
	return out
}

// pbxAlignments: the alignments of a B-block trace against a roll-over that must all have been exercised.
func pbxAlignments(b int) []string {
	out := []string{fmt.Sprintf("inner:%d", b), fmt.Sprintf("head:%d", b)}
	for k := 1; k < b; k++ {
		out = append(out, fmt.Sprintf("inner:%d+%d", k, b-k))
	}
	return out
}

func number(ss []series) []series {
	for i := range ss {
		ss[i].ID = i
	}
	return ss
}

func (s *series) String() string {
	switch s.Gen {
	case "seq":
		return fmt.Sprintf("seq%v/asg%v", s.Seq, s.Asg)
	case "limit":
		return fmt.Sprintf("limit n=%d split=%d", s.N, s.Split)
	case "len":
		return fmt.Sprintf("len l=%d pos=%d n=%d", s.L, s.Pos, s.N)
	case "big":
		return fmt.Sprintf("big blocks=%d", s.N)
	case "pbx":
		return fmt.Sprintf("pbx blocks=%d align=%s", s.N, pbxAlignments(s.N)[s.D%len(pbxAlignments(s.N))])
	}
	return fmt.Sprintf("dict d=%d rep=%d", s.D, s.Rep)
}
