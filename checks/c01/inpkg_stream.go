package main

// Seam (b), stream: real tsTable.mustAddElements -> snapshot -> block read path of the time-ordered query; memory
// part vs flushed part vs merged part (file merge and memory-part merge).

import (
	"fmt"
	"os"

	"github.com/apache/skywalking-banyandb/banyand/stream"
)

func streamSchema(cols []colDef) []stream.C01Family {
	var out []stream.C01Family
	for _, c := range cols {
		if n := len(out); n == 0 || out[n-1].Name != c.Fam {
			out = append(out, stream.C01Family{Name: c.Fam})
		}
		f := &out[len(out)-1]
		f.Tags = append(f.Tags, stream.C01Tag{Name: c.Name, Type: tagTypeOf[c.Kind]})
	}
	return out
}

const eidStride = 1 << 20

func streamElements(d *dataset, r int) []stream.C01Element {
	var out []stream.C01Element
	for si := range d.ss {
		s := &d.ss[si]
		for i := 0; i < s.points(); i++ {
			if s.batch(i) != r {
				continue
			}
			e := stream.C01Element{S: uint64(s.ID + 2), T: d.ts(i), EID: uint64(s.ID+2)*eidStride + uint64(i)}
			fam := ""
			for _, c := range d.cols {
				if len(e.Tags) == 0 || c.Fam != fam {
					e.Tags = append(e.Tags, nil)
					fam = c.Fam
				}
				e.Tags[len(e.Tags)-1] = append(e.Tags[len(e.Tags)-1], toTag(c.Kind, d.val(s, c, i)))
			}
			out = append(out, e)
		}
	}
	return out
}

type streamReader struct {
	t  *stream.C01Table
	sc []stream.C01Family
	d  *dataset
}

func (m *streamReader) run(c *collector, q query, desc bool) {
	tp := map[string][]string{}
	for _, ci := range q.Proj {
		col := m.d.cols[ci]
		tp[col.Fam] = append(tp[col.Fam], col.Name)
	}
	sids := make([]uint64, len(q.Sel))
	for i, id := range q.Sel {
		sids[i] = uint64(id + 2)
	}
	rows, err := m.t.Query(m.sc, stream.C01Query{Sids: sids, Min: q.Min, Max: q.Max, TagProj: tp, Desc: desc})
	if err != nil {
		c.report(fmt.Sprintf("query-error path=%s:%s query=%s msg=%s", c.path, c.stage, q.Class, short(err.Error())),
			map[string]any{"dataset": m.d.name, "query": q, "series": &m.d.ss[q.Sel[0]]})
		return
	}
	got := make([]gotRow, len(rows))
	for i := range rows {
		// the series id of a row is carried by its element id as well (copyAllTo does not fill SIDs)
		sid := int(rows[i].EID/eidStride) - 2
		if rows[i].S != 0 && int(rows[i].S)-2 != sid {
			sid = -1
		}
		got[i] = gotRow{sid: sid, t: rows[i].T, tags: rows[i].Tags}
		if p := m.d.pointOf(rows[i].T); p < 0 || uint64(p) != rows[i].EID%eidStride {
			got[i].sid = -1 // element id attached to the wrong timestamp
		}
	}
	c.judge(m.d, q, got)
}

func (m *streamReader) fullCheck(c *collector, stage string, upTo int) {
	c.stage = stage
	d := m.d
	lo, hi := int64(-1<<62), int64(1<<62)
	all := allCols(d)
	for _, sel := range chunks(len(d.ss), chunkSeries) {
		m.run(c, query{Class: "full/all/asc", Proj: all, Sel: sel, Min: lo, Max: hi, UpTo: upTo, Track: true}, false)
		if d.level >= 1 {
			m.run(c, query{Class: "full/all/desc", Proj: all, Sel: sel, Min: lo, Max: hi, UpTo: upTo}, true)
		}
		for _, p := range pointRanges(d) {
			t := d.ts(p)
			m.run(c, query{Class: "point/all/asc", Proj: all, Sel: sel, Min: t, Max: t, UpTo: upTo}, false)
		}
		for ci := range d.cols {
			if d.level == 1 || (d.level == 0 && ci%3 != 0) {
				continue
			}
			m.run(c, query{Class: "full/col=" + d.cols[ci].id() + "/asc", Proj: []int{ci}, Sel: sel, Min: lo, Max: hi, UpTo: upTo}, false)
		}
		// one whole family only
		var f1, f2 []int
		for ci, col := range d.cols {
			if col.Fam == d.cols[0].Fam {
				f1 = append(f1, ci)
			} else {
				f2 = append(f2, ci)
			}
		}
		m.run(c, query{Class: "full/family=" + d.cols[0].Fam + "/asc", Proj: f1, Sel: sel, Min: lo, Max: hi, UpTo: upTo}, false)
		if len(f2) > 0 {
			m.run(c, query{Class: "full/family=" + d.cols[f2[0]].Fam + "/asc", Proj: f2, Sel: sel, Min: lo, Max: hi, UpTo: upTo}, false)
		}
	}
	for id := range d.ss {
		sel := []int{id}
		m.run(c, query{Class: "single/all/asc", Proj: all, Sel: sel, Min: lo, Max: hi, UpTo: upTo}, false)
		m.run(c, query{Class: "single/all/desc", Proj: all, Sel: sel, Min: lo, Max: hi, UpTo: upTo}, true)
	}
}

func runStreamDataset(c *collector, d *dataset) {
	defer func() {
		if r := recover(); r != nil {
			c.report(fmt.Sprintf("panic path=%s:%s msg=%s", c.path, c.stage, short(fmt.Sprint(r))), map[string]any{"dataset": d.name, "series": &d.ss[0]})
		}
	}()
	sc := streamSchema(d.cols)
	rounds := maxRounds(d)
	all := allCols(d)
	c.sample(d)
	c.Nontriv += nontrivial(d)
	for variant := 0; variant < 2; variant++ {
		if variant == 1 && rounds < 2 {
			break
		}
		dir := scratchDir("s")
		t := stream.C01Open(dir)
		m := &streamReader{t: t, sc: sc, d: d}
		for r := 0; r < rounds; r++ {
			els := streamElements(d, r)
			if len(els) == 0 {
				continue
			}
			t.Write(sc, els)
			c.Counts["batches"]++
			c.Counts["points_written"] += len(els)
			if r < rounds-1 {
				c.stage = "mem"
				for _, sel := range chunks(len(d.ss), chunkSeries) {
					m.run(c, query{Class: "full/all/asc", Proj: all, Sel: sel, Min: -1 << 62, Max: 1 << 62, UpTo: r}, false)
				}
			}
		}
		if variant == 0 {
			m.fullCheck(c, "mem", rounds-1)
			t.Write(sc, []stream.C01Element{{S: 1, T: d.t0, EID: 1}}) // a second part, so that a merge always has two inputs
			if !t.Flush() {
				c.Harness = append(c.Harness, "stream flush did not happen: "+d.name)
			}
			m.fullCheck(c, "flushed", rounds-1)
			ok, err := t.Merge()
			if err != nil || !ok {
				c.Harness = append(c.Harness, fmt.Sprintf("stream merge did not happen (%v): %s", err, d.name))
			}
			if mem, file, _, _ := t.Parts(); mem != 0 || file != 1 {
				c.Harness = append(c.Harness, fmt.Sprintf("stream merge left %d memory / %d file parts: %s", mem, file, d.name))
			}
			m.fullCheck(c, "merged", rounds-1)
		} else {
			ok, err := t.MemMerge()
			if err != nil || !ok {
				c.Harness = append(c.Harness, fmt.Sprintf("stream memory-part merge did not happen (%v): %s", err, d.name))
			}
			m.fullCheck(c, "memmerged", rounds-1)
		}
		_, _, blocks, _ := t.Parts()
		if blocks > uint64(len(d.ss))+1 {
			c.Outcomes["stream-layout/some-series-split-into-several-blocks"]++
		}
		t.Close()
		_ = os.RemoveAll(dir)
	}
}
