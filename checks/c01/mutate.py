#!/usr/bin/env python3
"""Mutation harness of check C01 (documentation + tool; never run by a registered command).

  python3 checks/c01/mutate.py <scratch-repo-worktree> list
  python3 checks/c01/mutate.py <scratch-repo-worktree> apply <name>     # edits the scratch worktree (NEVER /repo)
  python3 checks/c01/mutate.py <scratch-repo-worktree> revert

Typical session:
  git -C /repo worktree add --detach /tmp/c01mut HEAD
  python3 checks/c01/mutate.py /tmp/c01mut apply int-delta-selector
  VERIF_REPO=/tmp/c01mut VERIF_NOEVIDENCE=1 ./vcheck c01 --tier quick      # must exit 1
  python3 checks/c01/mutate.py /tmp/c01mut revert
  git -C /repo worktree remove --force /tmp/c01mut
"""
import subprocess, sys, os

M = {
    # off-by-one in an int delta mode selector: the constant-delta test skips the third value
    "int-delta-selector": ("pkg/encoding/int_list.go", "\tfor _, next := range a[2:] {\n\t\td := next - prev\n\t\tif (getSignBit(d) ^ asc) == 1 {",
                           "\tfor _, next := range a[3:] {\n\t\td := next - prev\n\t\tif (getSignBit(d) ^ asc) == 1 {"),
    # the first-value side channel of an int column is dropped (always 0)
    "int-first-value": ("banyand/measure/column.go", "\tfirstValueBytes := convert.Int64ToBytes(firstValue)\n\t// Prepend encodeType (1 byte) and firstValue (8 bytes) to the beginning",
                        "\tfirstValueBytes := convert.Int64ToBytes(firstValue - firstValue)\n\t// Prepend encodeType (1 byte) and firstValue (8 bytes) to the beginning"),
    # same for the shared tag encoder of stream / trace
    "tag-first-value": ("banyand/internal/encoding/tag_encoder.go", "\tfirstValueBytes := convert.Int64ToBytes(firstValue)\n\n\t// Prepend encodeType (1 byte) and firstValue (8 bytes) to the beginning",
                        "\tfirstValueBytes := convert.Int64ToBytes(firstValue - firstValue)\n\n\t// Prepend encodeType (1 byte) and firstValue (8 bytes) to the beginning"),
    # block split of the merger loses the boundary row 8192
    "merge-split-boundary": ("banyand/measure/merger.go", "\t\ttmpBlock.idx = maxBlockLength\n\t\tpendingBlock.copyFrom(tmpBlock)\n\t\tl := tmpBlock.idx",
                             "\t\ttmpBlock.idx = maxBlockLength + 1\n\t\tpendingBlock.copyFrom(tmpBlock)\n\t\tl := tmpBlock.idx - 1"),
    # memory part block cut: the row at the cut is written to neither block
    "mempart-split-boundary": ("banyand/measure/part.go", "\t\t\tsidPrev = sid\n\t\t\tindexPrev = i\n\t\t\ttsPrev = dps.timestamps[indexPrev]",
                               "\t\t\tif sid == sidPrev {\n\t\t\t\ti++\n\t\t\t}\n\t\t\tsidPrev = sid\n\t\t\tindexPrev = i\n\t\t\ttsPrev = dps.timestamps[indexPrev]"),
    # dictionary index width: 8-bit cap (breaks RLE runs longer than 255 and nothing else)
    "dict-width-cap8": ("pkg/encoding/dictionary.go", "\t\tbitsWidth = bits.Len32(maxValue)\n\t}", "\t\tbitsWidth = bits.Len32(maxValue)\n\t}\n\tif bitsWidth > 8 {\n\t\tbitsWidth = 8\n\t}"),
    # dictionary index width: 7-bit cap (breaks dictionaries of 129..256 distinct values)
    "dict-width-cap7": ("pkg/encoding/dictionary.go", "\t\tbitsWidth = bits.Len32(maxValue)\n\t}", "\t\tbitsWidth = bits.Len32(maxValue)\n\t}\n\tif bitsWidth > 7 {\n\t\tbitsWidth = 7\n\t}"),
    # dictionary admits a 257th value whose index is truncated to a byte
    "dict-257": ("pkg/encoding/dictionary.go", "\tif len(d.values) == maxUniqueValues {\n\t\treturn false\n\t}\n\td.values = append(d.values, value)\n\tindex := uint32(len(d.values) - 1)",
                 "\tif len(d.values) > maxUniqueValues {\n\t\treturn false\n\t}\n\td.values = append(d.values, value)\n\tindex := uint32(uint8(len(d.values) - 1))"),
    # nil / empty confusion in the bytes block
    "bytes-nil-empty": ("pkg/encoding/bytes.go", "\tfor _, s := range a {\n\t\tif s == nil {\n\t\t\taLens = append(aLens, 0)", "\tfor _, s := range a {\n\t\tif len(s) == 0 {\n\t\t\taLens = append(aLens, 0)"),
    # a tag family projection returns the neighbouring tag
    "projection-neighbour": ("banyand/measure/block.go", "\t\t\t\tif hasSchemaType && cfm.columnMetadata[i].valueType != schemaType {\n\t\t\t\t\tcontinue\n\t\t\t\t}\n\t\t\t\tcc[j].mustReadValues(decoder, valueReader, cfm.columnMetadata[i], uint64(b.Len()))",
                              "\t\t\t\tif hasSchemaType && cfm.columnMetadata[i].valueType != schemaType {\n\t\t\t\t\tcontinue\n\t\t\t\t}\n\t\t\t\tcc[j].mustReadValues(decoder, valueReader, cfm.columnMetadata[(i+len(cfm.columnMetadata)-1)%len(cfm.columnMetadata)], uint64(b.Len()))"),
    # acknowledgement before the batch is part of the snapshot: the writer does not wait for `applied`
    "ack-no-applied-wait": ("banyand/measure/tstable.go", "\tcase <-tst.loopCloser.CloseNotify():\n\t\ttst.addPendingDataCount(-int64(totalCount))\n\t\tind.part.decRef()\n\t\treturn\n\t}\n\t<-ind.applied\n",
                            "\tcase <-tst.loopCloser.CloseNotify():\n\t\ttst.addPendingDataCount(-int64(totalCount))\n\t\tind.part.decRef()\n\t\treturn\n\t}\n"),
    # acknowledgements are sent before the batch publisher is closed (= before the batch reaches the engine)
    "ack-before-publish": ("banyand/liaison/grpc/measure.go", "\tcee, err := publisher.Close()\n\tfor _, s := range *succeedSent {\n\t\tcode := modelv1.Status_STATUS_SUCCEED\n",
                           "\tfor _, s := range *succeedSent {\n\t\tms.sendReply(s.metadata, modelv1.Status_STATUS_SUCCEED, s.messageID, measure)\n\t}\n\t*succeedSent = nil\n\tcee, err := publisher.Close()\n\tfor _, s := range *succeedSent {\n\t\tcode := modelv1.Status_STATUS_SUCCEED\n"),
    # the local pipeline publishes the batch asynchronously
    "local-publish-async": ("banyand/queue/local.go", "\tnewMessage := bus.NewMessage(1, l.messages)\n\tf, err := l.local.Publish(l.ctx, *l.topic, newMessage)\n\tl.messages = nil\n\tl.topic = nil\n",
                            "\tnewMessage := bus.NewMessage(1, l.messages)\n\tpctx, ptopic := l.ctx, *l.topic\n\tgo func() { _, _ = l.local.Publish(pctx, ptopic, newMessage) }()\n\tl.messages = nil\n\tl.topic = nil\n\tvar f bus.Future\n\tvar err error\n"),
    # float codec: the round-trip guard is removed (= the tree before fix 3b94b4a)
    "float-no-roundtrip-guard": ("pkg/encoding/float.go", "\tif !decimalRoundTrips(decimals, minExp, src) {\n\t\treturn nil, 0, errCannotEncodeLossless\n\t}\n", ""),
    # stream: descending copy of a whole block reverses the timestamps but not the tag values
    "stream-desc-copy": ("banyand/stream/block.go", "\t\t\tif desc {\n\t\t\t\tslices.Reverse(values)", "\t\t\tif desc && len(values) > 2 {\n\t\t\t\tslices.Reverse(values)"),
    # trace: span payload of the neighbouring span
    "trace-span-neighbour": ("banyand/trace/block.go", "\t\tbc.spans = append(bc.spans, bytes.Clone(tmpBlock.spans[i]))", "\t\tbc.spans = append(bc.spans, bytes.Clone(tmpBlock.spans[(i+1)%len(tmpBlock.spans)]))"),
    # vectorised egress: null handling of a field column
    "copyall-desc-misaligned": ("banyand/measure/block.go", "\t\tfor _, v := range c.values[idx:offset] {\n\t\t\tf.Values = append(f.Values, mustDecodeFieldValue(c.valueType, v))\n\t\t}\n\t\tif desc {\n\t\t\tslices.Reverse(f.Values)\n\t\t}",
                                "\t\tfor _, v := range c.values[idx:offset] {\n\t\t\tf.Values = append(f.Values, mustDecodeFieldValue(c.valueType, v))\n\t\t}"),
}


def main():
    if len(sys.argv) < 3:
        print(__doc__)
        sys.exit(2)
    root = os.path.abspath(sys.argv[1])
    if root == "/repo":
        print("refusing to touch /repo")
        sys.exit(2)
    cmd = sys.argv[2]
    if cmd == "list":
        for k, (f, a, b) in M.items():
            if a is not None:
                print(k, "->", f)
        return
    if cmd == "revert":
        subprocess.check_call(["git", "-C", root, "checkout", "--", "."])
        return
    name = sys.argv[3]
    f, a, b = M[name]
    if a is None:
        print("mutant", name, "is a placeholder")
        sys.exit(2)
    p = os.path.join(root, f)
    s = open(p).read()
    if s.count(a) != 1:
        print("mutation site of %s not found exactly once in %s (%d)" % (name, f, s.count(a)))
        sys.exit(2)
    open(p, "w").write(s.replace(a, b))
    print("applied", name, "to", p)


if __name__ == "__main__":
    main()
