package main

// --replay <artefact>: re-executes exactly the recorded case (one series / trace history) on the recorded seam and
// engine, without the enumeration; exits 1 if the recorded violation class shows up again.

import (
	"encoding/json"
	"fmt"
	"os"
	"strings"

	"github.com/apache/skywalking-banyandb/pkg/verif/e2e"
)

func replay(p string) {
	raw, err := os.ReadFile(p)
	if err != nil {
		fmt.Fprintln(os.Stderr, "replay:", err)
		os.Exit(2)
	}
	var rec struct {
		Key      string `json:"key"`
		Artefact struct {
			Series  *series `json:"series"`
			Path    string  `json:"path"`
			Dataset string  `json:"dataset"`
			Points  int     `json:"points"`
		} `json:"artefact"`
	}
	if err := json.Unmarshal(raw, &rec); err != nil {
		fmt.Fprintln(os.Stderr, "replay:", err)
		os.Exit(2)
	}
	a := rec.Artefact
	c := newCollector(a.Path)
	seam, eng, _ := strings.Cut(a.Path, "-")
	switch {
	case strings.HasPrefix(rec.Key, "ack-before-visible") && seam == "inpkg":
		runAckProbe(c)
	case a.Series == nil:
		fmt.Fprintln(os.Stderr, "replay: artefact carries no series")
		os.Exit(2)
	case seam == "inpkg":
		sr := *a.Series
		j := job{Kind: eng, Name: "replay", Series: number([]series{sr}), Level: 2}
		if sr.points() > 64 {
			j.Level = 0
		}
		runJob(c, &j)
	case seam == "e2e":
		cfg := "default"
		if i := strings.LastIndex(a.Dataset, "@"); i >= 0 {
			cfg = a.Dataset[i+1:]
		}
		js, _ := json.Marshal(a.Series)
		out, err := e2e.Spawn("C01_E2E="+cfg, "C01_E2E_SERIES="+string(js), "C01_ONLY="+eng)
		cc, perr := parseE2E(out)
		if err != nil || perr != nil {
			fmt.Printf("replay: e2e worker failed: %v %v\n%s\n", err, perr, tail(out, 2000))
			os.Exit(2)
		}
		c = cc
	default:
		fmt.Fprintln(os.Stderr, "replay: unknown path", a.Path)
		os.Exit(2)
	}
	for _, h := range c.Harness {
		fmt.Println("HARNESS:", h)
	}
	_ = os.RemoveAll(fmt.Sprintf("/dev/shm/verif-c01-%d", os.Getpid()))
	hit := false
	for _, k := range sortedKeys(c.Findings) {
		mark := " "
		if k == rec.Key {
			hit, mark = true, "*"
		}
		fmt.Printf("%s %s (x%d)\n", mark, k, c.Findings[k].N)
	}
	if hit {
		fmt.Println("replay: the recorded violation reproduces")
		os.Exit(1)
	}
	fmt.Println("replay: the recorded violation does not reproduce")
	os.Exit(0)
}
