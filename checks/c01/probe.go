package main

import (
	"os"

	"github.com/apache/skywalking-banyandb/banyand/measure"
)

// runAckProbe observes the acknowledgement mechanism of the standalone write path in isolation: the writer must stay
// parked until the introducer has applied the batch (see measure.V1WriteProbe). Every batch size of the alphabet
// {1 point, 3 points in 2 series, 300 points} is probed on a fresh table and after a previous batch.
func runAckProbe(c *collector) {
	c.stage = "mem"
	sc := measureV1Schema(measureCols)
	for _, n := range []int{1, 3, 300} {
		ss := make([]series, 0, n)
		for i := 0; i < n; i++ {
			ss = append(ss, series{Gen: "seq", Seq: []int{(i % (maxAlpha - 1)) + 1}})
		}
		d := &dataset{name: "probe", cols: measureCols, ss: number(ss), t0: inpkgT0, step: 1_000_000}
		dir := scratchDir("p")
		t := measure.VOpen(dir, nil)
		early := false
		for round := 0; round < 2 && !early; round++ {
			pts := measurePoints(d, 0)
			for i := range pts {
				pts[i].T += int64(round) * 1_000_000
			}
			early = t.V1WriteProbe(sc, pts)
			c.Counts["ack_probes"]++
			if early {
				c.report("ack-before-visible path=inpkg-measure: mustAddDataPoints returned while the introduction was still withheld",
					map[string]any{"dataset": "probe", "points": n, "round": round})
			}
		}
		if !early {
			t.Close()
		}
		_ = os.RemoveAll(dir)
	}
	c.Outcomes["ack-probe/writer-parked-until-applied"]++
}
