package main

import (
	"os"

	"github.com/apache/skywalking-banyandb/banyand/measure"
	"github.com/apache/skywalking-banyandb/banyand/stream"
)

// runAckProbe observes the acknowledgement mechanism of the standalone write path in isolation: the writer must stay
// parked until the introducer has applied the batch (see measure.V1WriteProbe). Every batch size of the alphabet
// {1 point, 3 points in 2 series, 300 points} is probed on a fresh table and after a previous batch.
func runAckProbe(c *collector) {
	c.stage = "mem"
	sc := measureV1Schema(measureCols)
	for _, n := range []int{1, 3, 300} {
		ss := make([]series, 0, n)
		for i := 0; i < n; i++ {
			ss = append(ss, series{Gen: "seq", Seq: []int{(i % (maxAlpha - 1)) + 1}})
		}
		d := &dataset{name: "probe", cols: measureCols, ss: number(ss), t0: inpkgT0, step: 1_000_000}
		dir := scratchDir("p")
		t := measure.VOpen(dir, nil)
		early := false
		for round := 0; round < 2 && !early; round++ {
			pts := measurePoints(d, 0)
			for i := range pts {
				pts[i].T += int64(round) * 1_000_000
			}
			early = t.V1WriteProbe(sc, pts)
			c.Counts["ack_probes"]++
			if early {
				c.report("ack-before-visible path=inpkg-measure: mustAddDataPoints returned while the introduction was still withheld",
					map[string]any{"dataset": "probe", "points": n, "round": round})
			}
		}
		if !early {
			t.Close()
		}
		_ = os.RemoveAll(dir)
	}
	c.Outcomes["ack-probe/writer-parked-until-applied"]++
	runAckOrderProbe(c)
}

// runAckOrderProbe observes the introducer side (round 2, seeded change C01-6 closed `applied` before the snapshot
// swap): with the publication lock held by a reader, the real introducePart is run until it is queued for the write
// lock; at that instant the batch must not be acknowledged yet (measure.V1AckOrderProbe / stream.AckOrderProbe — the
// only lock acquisition of introducePart is the hold point, so this is every position at which a query can still see
// the old snapshot). Same batch sizes, fresh table and after a previous batch.
func runAckOrderProbe(c *collector) {
	c.stage = "mem"
	msc := measureV1Schema(measureCols)
	ssc := streamSchema(streamCols)
	for _, n := range []int{1, 3, 300} {
		ss := make([]series, 0, n)
		for i := 0; i < n; i++ {
			ss = append(ss, series{Gen: "seq", Seq: []int{(i % (maxAlpha - 1)) + 1}})
		}
		md := &dataset{name: "probe", cols: measureCols, ss: number(ss), t0: inpkgT0, step: 1_000_000}
		sd := &dataset{name: "probe", cols: streamCols, ss: number(ss), t0: inpkgT0, step: 1_000_000}
		mdir, sdir := scratchDir("p"), scratchDir("p")
		mt := measure.VOpen(mdir, nil)
		st := stream.C01Open(sdir)
		for round := 0; round < 2; round++ {
			pts := measurePoints(md, 0)
			for i := range pts {
				pts[i].T += int64(round) * 1_000_000
			}
			c.Counts["ack_order_probes"]++
			if mt.V1AckOrderProbe(msc, pts) {
				c.report("ack-before-visible path=inpkg-measure: introducePart acknowledged the batch (closed `applied`) before it published the snapshot that contains it",
					map[string]any{"dataset": "probe", "points": n, "round": round, "probe": "ack-order"})
			}
			els := streamElements(sd, 0)
			for i := range els {
				els[i].T += int64(round) * 1_000_000
				els[i].EID += uint64(round) * 1_000_000_000
			}
			c.Counts["ack_order_probes"]++
			if st.AckOrderProbe(ssc, els) {
				c.report("ack-before-visible path=inpkg-stream: introducePart acknowledged the batch (closed `applied`) before it published the snapshot that contains it",
					map[string]any{"dataset": "probe", "points": n, "round": round, "probe": "ack-order"})
			}
		}
		mt.Close()
		st.Close()
		_ = os.RemoveAll(mdir)
		_ = os.RemoveAll(sdir)
	}
	c.Outcomes["ack-probe/applied-closed-only-after-publication"]++
}
