package main

// Seam (a): MeasureService / StreamService / TraceService Write then Query over gRPC on ONE in-process standalone
// server per configuration. Every dataset gets its own measure / stream / trace name, every case its own entity
// (series) resp. trace id. The full-range query is issued immediately after the last acknowledgement of every batch.

import (
	"bytes"
	"encoding/json"
	"fmt"
	"os"
	"strconv"
	"strings"
	"sync"
	"time"

	"google.golang.org/grpc/codes"

	commonv1 "github.com/apache/skywalking-banyandb/api/proto/banyandb/common/v1"
	measurev1 "github.com/apache/skywalking-banyandb/api/proto/banyandb/measure/v1"
	modelv1 "github.com/apache/skywalking-banyandb/api/proto/banyandb/model/v1"
	streamv1 "github.com/apache/skywalking-banyandb/api/proto/banyandb/stream/v1"
	tracev1 "github.com/apache/skywalking-banyandb/api/proto/banyandb/trace/v1"
	"github.com/apache/skywalking-banyandb/pkg/verif/e2e"
)

const (
	gM = "c01m"
	gS = "c01s"
	gT = "c01t"
	// every point of a dataset lies in [Base, Base+horizon)
	horizonMs = 3_600_000
	bigLimit  = 10_000_000
)

func parseE2E(out []byte) (*collector, error) {
	for _, l := range bytes.Split(out, []byte("\n")) {
		if bytes.HasPrefix(l, []byte("RESULT ")) {
			c := newCollector("")
			if err := json.Unmarshal(l[7:], c); err != nil {
				return nil, err
			}
			return c, nil
		}
	}
	return nil, fmt.Errorf("no RESULT line in the e2e worker output")
}

type e2eDataset struct {
	name  string
	ss    []series
	level int
}

// e2eDatasets: the same spaces as the in-package seam, chunked so that one answer stays well below the message limit.
func e2eDatasets(thorough bool) []e2eDataset {
	if js := os.Getenv("C01_E2E_SERIES"); js != "" { // --replay: one recorded case
		var sr series
		if err := json.Unmarshal([]byte(js), &sr); err != nil {
			e2e.Fatal("bad C01_E2E_SERIES: %v", err)
		}
		return []e2eDataset{{name: "r", ss: number([]series{sr}), level: 2}}
	}
	maxLen, bAlpha := 3, 3
	if thorough {
		maxLen, bAlpha = 4, 4
	}
	var out []e2eDataset
	add := func(name string, ss []series, per, level int) {
		for i, lo := 0, 0; lo < len(ss); i, lo = i+1, lo+per {
			hi := lo + per
			if hi > len(ss) {
				hi = len(ss)
			}
			out = append(out, e2eDataset{name: fmt.Sprintf("%s%d", name, i), ss: number(append([]series(nil), ss[lo:hi]...)), level: level})
		}
	}
	add("a", spaceA(maxLen), 1500, 2)
	add("b", spaceB(4, bAlpha), 1500, 1)
	add("d", spaceDict(false), 100, 1)
	lim := []series{{Gen: "limit", N: 8192, Split: 0}, {Gen: "limit", N: 8193, Split: 1}, {Gen: "limit", N: 8194, Split: 0}}
	if thorough {
		lim = append(lim, series{Gen: "limit", N: 8193, Split: 0}, series{Gen: "limit", N: 8194, Split: 1}, series{Gen: "limit", N: 16385, Split: 1}, series{Gen: "limit", N: 16385, Split: 0})
	}
	add("l", lim, 100, 0)
	// length boundaries over gRPC: the long row in the middle of a 4-row (dictionary) and a 260-row (plain) block
	var ln []series
	for _, l := range lengthBoundaries {
		if l >= 254 {
			ln = append(ln, series{Gen: "len", L: l, Pos: 1, N: 4}, series{Gen: "len", L: l, Pos: 2, N: 260})
		}
	}
	add("n", ln, 100, 1)
	return out
}

var thoroughTier bool

func e2eWorker(cfg string, thorough bool) {
	thoroughTier = thorough
	var flags []string
	if cfg == "row" {
		flags = []string{"--measure-vectorized-enabled=false", "--stream-vectorized-enabled=false", "--trace-vectorized-enabled=false"}
	}
	s := e2e.Start(flags...)
	c := newCollector("e2e")
	c.stage = "e2e"
	s.CreateGroup(gM, commonv1.Catalog_CATALOG_MEASURE, 1, 1, 3)
	s.CreateGroup(gS, commonv1.Catalog_CATALOG_STREAM, 1, 1, 3)
	s.CreateGroup(gT, commonv1.Catalog_CATALOG_TRACE, 1, 1, 3)
	on := engines()
	// the three engines are driven concurrently against the one server (a collector each, merged afterwards)
	var wg sync.WaitGroup
	var parts []*collector
	for _, eng := range []string{"measure", "stream", "trace"} {
		if !on[eng] {
			continue
		}
		ec := newCollector("e2e-" + eng)
		ec.stage = "e2e"
		parts = append(parts, ec)
		wg.Add(1)
		go func(eng string, ec *collector) {
			defer wg.Done()
			for _, ds := range e2eDatasets(thorough) {
				base := e2e.Base().UnixNano()
				d := &dataset{name: "e2e/" + eng + "/" + ds.name + "@" + cfg, ss: ds.ss, t0: base, step: 1_000_000, level: ds.level}
				switch eng {
				case "measure":
					d.cols = measureCols
					e2eMeasure(s, ec, d, "m"+ds.name)
				case "stream":
					d.cols = streamCols
					e2eStream(s, ec, d, "s"+ds.name)
				case "trace":
					d.cols = traceCols
					e2eTrace(s, ec, d, "t"+ds.name)
				}
			}
		}(eng, ec)
	}
	wg.Wait()
	for _, ec := range parts {
		c.merge(ec)
	}
	c.Counts["e2e_servers"]++
	b, _ := json.Marshal(c)
	fmt.Printf("RESULT %s\n", b)
	s.Remove()
	os.Exit(0)
}

func entityOf(id int) string { return "c" + strconv.Itoa(id) }

func idOfEntity(s string) int {
	if !strings.HasPrefix(s, "c") {
		return -1
	}
	id, err := strconv.Atoi(s[1:])
	if err != nil {
		return -1
	}
	return id
}

func e2eFamilies(cols []colDef) []e2e.Family {
	out := []e2e.Family{{Name: "e", Tags: []e2e.Tag{{Name: "ent", Type: e2e.TStr}}}}
	for _, c := range cols {
		if isField(c.Kind) || c.Kind == kPayload {
			continue
		}
		if out[len(out)-1].Name != c.Fam {
			out = append(out, e2e.Family{Name: c.Fam})
		}
		f := &out[len(out)-1]
		f.Tags = append(f.Tags, e2e.Tag{Name: c.Name, Type: tagTypeOf[c.Kind]})
	}
	return out
}

// writeFamilies builds the write-side tag families of point i: entity family first, then the schema families.
func writeFamilies(d *dataset, s *series, i int) []*modelv1.TagFamilyForWrite {
	out := []*modelv1.TagFamilyForWrite{e2e.TF(e2e.Str(entityOf(s.ID)))}
	fam := ""
	for _, c := range d.cols {
		if isField(c.Kind) || c.Kind == kPayload {
			continue
		}
		if c.Fam != fam {
			out = append(out, &modelv1.TagFamilyForWrite{})
			fam = c.Fam
		}
		out[len(out)-1].Tags = append(out[len(out)-1].Tags, toTag(c.Kind, d.val(s, c, i)))
	}
	return out
}

func tagProjection(d *dataset, proj []int, withEntity bool) *modelv1.TagProjection {
	p := &modelv1.TagProjection{}
	if withEntity {
		p.TagFamilies = append(p.TagFamilies, &modelv1.TagProjection_TagFamily{Name: "e", Tags: []string{"ent"}})
	}
	for _, ci := range proj {
		c := d.cols[ci]
		if isField(c.Kind) || c.Kind == kPayload {
			continue
		}
		if n := len(p.TagFamilies); n == 0 || p.TagFamilies[n-1].Name != c.Fam {
			p.TagFamilies = append(p.TagFamilies, &modelv1.TagProjection_TagFamily{Name: c.Fam})
		}
		tf := p.TagFamilies[len(p.TagFamilies)-1]
		tf.Tags = append(tf.Tags, c.Name)
	}
	return p
}

// pickTags extracts, from the returned tag families, the entity and the projected tags in projection order; a missing
// or extra tag makes the row malformed (nil, false).
func pickTags(d *dataset, proj []int, fams []*modelv1.TagFamily) (ent string, tags []*modelv1.TagValue, ok bool) {
	byName := map[string]*modelv1.TagValue{}
	n := 0
	for _, f := range fams {
		for _, t := range f.GetTags() {
			byName[f.GetName()+"."+t.GetKey()] = t.GetValue()
			n++
		}
	}
	want := 1
	for _, ci := range proj {
		c := d.cols[ci]
		if isField(c.Kind) || c.Kind == kPayload {
			continue
		}
		want++
		v, found := byName[c.Fam+"."+c.Name]
		if !found {
			return "", nil, false
		}
		tags = append(tags, v)
	}
	e, found := byName["e.ent"]
	if !found || n != want {
		return "", nil, false
	}
	return e.GetStr().GetValue(), tags, true
}

// e2eQueries enumerates the covering queries of a dataset at its final state.
type e2eQuery struct {
	q      query
	entity int // >= 0: restricted to this entity (criteria ent = "c<id>")
}

func e2eQueries(d *dataset, upTo int, perSeries bool) []e2eQuery {
	lo, hi := d.t0, d.t0+horizonMs*1_000_000
	all := allCols(d)
	sel := make([]int, len(d.ss))
	for i := range sel {
		sel[i] = i
	}
	var out []e2eQuery
	for _, p := range pointRanges(d) {
		t := d.ts(p)
		out = append(out, e2eQuery{q: query{Class: "point/all", Proj: all, Sel: sel, Min: t, Max: t, UpTo: upTo}, entity: -1})
	}
	for ci := range d.cols {
		if d.cols[ci].Kind == kPayload || (d.level == 0 && ci%4 != 0) {
			continue
		}
		out = append(out, e2eQuery{q: query{Class: "full/col=" + d.cols[ci].id(), Proj: []int{ci}, Sel: sel, Min: lo, Max: hi, UpTo: upTo}, entity: -1})
	}
	if perSeries {
		for id := range d.ss {
			out = append(out, e2eQuery{q: query{Class: "single/all", Proj: all, Sel: []int{id}, Min: lo, Max: hi, UpTo: upTo}, entity: id})
		}
	}
	return out
}

func entityCriteria(id int) *modelv1.Criteria {
	return &modelv1.Criteria{Exp: &modelv1.Criteria_Condition{Condition: &modelv1.Condition{Name: "ent", Op: modelv1.Condition_BINARY_OP_EQ, Value: e2e.Str(entityOf(id))}}}
}

func msRange(minNs, maxNs int64) *modelv1.TimeRange {
	b := e2e.Base().UnixNano()
	return e2e.Range((minNs-b)/1_000_000, (maxNs-b)/1_000_000)
}

// ---------------------------------------------------------------------------------------------------------------
// measure

func e2eMeasure(s *e2e.Server, c *collector, d *dataset, name string) {
	var fields []e2e.Field
	var fieldProjAll []int
	for ci, col := range d.cols {
		if isField(col.Kind) {
			fields = append(fields, e2e.Field{Name: col.Name, Type: fieldTypeOf[col.Kind]})
			fieldProjAll = append(fieldProjAll, ci)
		}
	}
	s.CreateMeasure(gM, name, []string{"ent"}, e2eFamilies(d.cols), fields, false)
	md := s.C01MeasureMetadata(gM, name)
	c.sample(d)
	c.Nontriv += nontrivial(d)
	rounds := maxRounds(d)
	all := allCols(d)
	sel := make([]int, len(d.ss))
	for i := range sel {
		sel[i] = i
	}
	run := func(eq e2eQuery) {
		q := eq.q
		req := &measurev1.QueryRequest{Groups: []string{gM}, Name: name, TimeRange: msRange(q.Min, q.Max), TagProjection: tagProjection(d, q.Proj, true), Limit: bigLimit}
		fp := &measurev1.QueryRequest_FieldProjection{}
		for _, ci := range q.Proj {
			if isField(d.cols[ci].Kind) {
				fp.Names = append(fp.Names, d.cols[ci].Name)
			}
		}
		if len(fp.Names) > 0 {
			req.FieldProjection = fp
		}
		if eq.entity >= 0 {
			req.Criteria = entityCriteria(eq.entity)
		}
		resp, code, msg := s.QueryMeasure(req)
		for attempt := 0; code != codes.OK && attempt < 3; attempt++ {
			// a refusal under memory / CPU pressure is not a wrong answer: ask again (counted); a persistent error is reported
			c.Counts["transient_query_errors"]++
			time.Sleep(time.Duration(attempt+1) * 500 * time.Millisecond)
			resp, code, msg = s.QueryMeasure(req)
		}
		if code != codes.OK {
			c.report(fmt.Sprintf("query-error path=%s:%s query=%s code=%s msg=%s", c.path, c.stage, q.Class, code, short(msg)),
				map[string]any{"dataset": d.name, "query": q, "series": &d.ss[q.Sel[0]], "message": msg})
			return
		}
		got := make([]gotRow, 0, len(resp.GetDataPoints()))
		for _, dp := range resp.GetDataPoints() {
			ent, tags, ok := pickTags(d, q.Proj, dp.GetTagFamilies())
			g := gotRow{sid: idOfEntity(ent), t: dp.GetTimestamp().AsTime().UnixNano(), tags: tags}
			byName := map[string]*modelv1.FieldValue{}
			for _, f := range dp.GetFields() {
				byName[f.GetName()] = f.GetValue()
			}
			for _, n := range fp.Names {
				v, found := byName[n]
				if !found {
					ok = false
				}
				g.fields = append(g.fields, v)
			}
			if !ok || len(byName) != len(fp.Names) {
				g.tags, g.fields = nil, []*modelv1.FieldValue{nil, nil, nil, nil, nil, nil, nil, nil, nil, nil, nil, nil, nil, nil, nil, nil}
			}
			got = append(got, g)
		}
		c.judge(d, q, got)
	}
	lo, hi := d.t0, d.t0+horizonMs*1_000_000
	for r := 0; r < rounds; r++ {
		var dps []*measurev1.DataPointValue
		for si := range d.ss {
			sr := &d.ss[si]
			for i := 0; i < sr.points(); i++ {
				if sr.batch(i) != r {
					continue
				}
				dp := &measurev1.DataPointValue{Timestamp: e2e.At((d.ts(i) - d.t0) / 1_000_000), TagFamilies: writeFamilies(d, sr, i), Version: 1}
				for _, ci := range fieldProjAll {
					dp.Fields = append(dp.Fields, toField(d.cols[ci].Kind, d.val(sr, d.cols[ci], i)))
				}
				dps = append(dps, dp)
			}
		}
		if len(dps) == 0 {
			continue
		}
		drain := s.C01WriteMeasure(md, dps)
		// immediately after the last acknowledgement of the batch
		run(e2eQuery{q: query{Class: "after-ack/full/all", Proj: all, Sel: sel, Min: lo, Max: hi, UpTo: r, Track: r == rounds-1}, entity: -1})
		drain()
		c.Counts["batches"]++
		c.Counts["points_written"] += len(dps)
	}
	for _, eq := range e2eQueries(d, rounds-1, perSeriesQueries(d)) {
		run(eq)
	}
}

// perSeriesQueries: one query per series (entity criteria) for the column-sequence space always, for the batch-shape
// and dictionary datasets in the thorough tier only.
func perSeriesQueries(d *dataset) bool {
	return d.level >= 2 || (d.level >= 1 && thoroughTier)
}

// ---------------------------------------------------------------------------------------------------------------
// stream

func e2eStream(s *e2e.Server, c *collector, d *dataset, name string) {
	s.CreateStream(gS, name, []string{"ent"}, e2eFamilies(d.cols))
	md := s.C01StreamMetadata(gS, name)
	c.sample(d)
	c.Nontriv += nontrivial(d)
	rounds := maxRounds(d)
	all := allCols(d)
	sel := make([]int, len(d.ss))
	for i := range sel {
		sel[i] = i
	}
	run := func(eq e2eQuery) {
		q := eq.q
		req := &streamv1.QueryRequest{Groups: []string{gS}, Name: name, TimeRange: msRange(q.Min, q.Max), Projection: tagProjection(d, q.Proj, true), Limit: bigLimit}
		if eq.entity >= 0 {
			req.Criteria = entityCriteria(eq.entity)
		}
		resp, code, msg := s.QueryStream(req)
		for attempt := 0; code != codes.OK && attempt < 3; attempt++ {
			c.Counts["transient_query_errors"]++
			time.Sleep(time.Duration(attempt+1) * 500 * time.Millisecond)
			resp, code, msg = s.QueryStream(req)
		}
		if code != codes.OK {
			c.report(fmt.Sprintf("query-error path=%s:%s query=%s code=%s msg=%s", c.path, c.stage, q.Class, code, short(msg)),
				map[string]any{"dataset": d.name, "query": q, "series": &d.ss[q.Sel[0]], "message": msg})
			return
		}
		got := make([]gotRow, 0, len(resp.GetElements()))
		for _, el := range resp.GetElements() {
			ent, tags, ok := pickTags(d, q.Proj, el.GetTagFamilies())
			g := gotRow{sid: idOfEntity(ent), t: el.GetTimestamp().AsTime().UnixNano(), tags: tags}
			// (the returned element id is the storage-internal hash of the written one: not compared)
			if !ok {
				g.tags = make([]*modelv1.TagValue, 64)
			}
			got = append(got, g)
		}
		c.judge(d, q, got)
	}
	lo, hi := d.t0, d.t0+horizonMs*1_000_000
	for r := 0; r < rounds; r++ {
		var els []*streamv1.ElementValue
		for si := range d.ss {
			sr := &d.ss[si]
			for i := 0; i < sr.points(); i++ {
				if sr.batch(i) != r {
					continue
				}
				els = append(els, &streamv1.ElementValue{ElementId: fmt.Sprintf("%s-%d", entityOf(sr.ID), i), Timestamp: e2e.At((d.ts(i) - d.t0) / 1_000_000),
					TagFamilies: writeFamilies(d, sr, i)})
			}
		}
		if len(els) == 0 {
			continue
		}
		drain := s.C01WriteStream(md, els)
		run(e2eQuery{q: query{Class: "after-ack/full/all", Proj: all, Sel: sel, Min: lo, Max: hi, UpTo: r, Track: r == rounds-1}, entity: -1})
		drain()
		c.Counts["batches"]++
		c.Counts["points_written"] += len(els)
	}
	for _, eq := range e2eQueries(d, rounds-1, perSeriesQueries(d)) {
		run(eq)
	}
}

// ---------------------------------------------------------------------------------------------------------------
// trace

func e2eTrace(s *e2e.Server, c *collector, d *dataset, name string) {
	tags := []e2e.Tag{{Name: "trace_id", Type: e2e.TStr}, {Name: "span_id", Type: e2e.TStr}}
	for _, col := range d.cols {
		if col.Kind != kPayload {
			tags = append(tags, e2e.Tag{Name: col.Name, Type: tagTypeOf[col.Kind]})
		}
	}
	s.CreateTrace(gT, name, tags, "trace_id", "span_id", "ts")
	md := s.C01TraceMetadata(gT, name)
	c.sample(d)
	c.Nontriv += nontrivial(d)
	rounds := maxRounds(d)
	all := allCols(d)
	lo, hi := d.t0, d.t0+horizonMs*1_000_000
	run := func(q query) {
		var proj []string
		var tagCols []int
		for _, ci := range q.Proj {
			if d.cols[ci].Kind != kPayload {
				proj = append(proj, d.cols[ci].Name)
				tagCols = append(tagCols, ci)
			}
		}
		ids := make([]string, len(q.Sel))
		for i, id := range q.Sel {
			ids[i] = "t" + strconv.Itoa(id) + "-" + name
		}
		req := &tracev1.QueryRequest{Groups: []string{gT}, Name: name, TimeRange: msRange(lo, hi), TagProjection: proj, Limit: bigLimit,
			Criteria: &modelv1.Criteria{Exp: &modelv1.Criteria_Condition{Condition: &modelv1.Condition{Name: "trace_id", Op: modelv1.Condition_BINARY_OP_IN, Value: e2e.StrArr(ids...)}}}}
		resp, code, msg := s.QueryTrace(req)
		for attempt := 0; code != codes.OK && attempt < 3; attempt++ {
			c.Counts["transient_query_errors"]++
			c.Samples = append(c.Samples, map[string]any{"transient_query_error": msg, "dataset": d.name, "query": q.Class})
			time.Sleep(time.Duration(attempt+1) * 500 * time.Millisecond)
			resp, code, msg = s.QueryTrace(req)
		}
		if code != codes.OK {
			c.report(fmt.Sprintf("query-error path=%s:%s query=%s code=%s msg=%s", c.path, c.stage, q.Class, code, short(msg)),
				map[string]any{"dataset": d.name, "query": q, "series": &d.ss[q.Sel[0]], "message": msg})
			return
		}
		var got []gotRow
		for _, tr := range resp.GetTraces() {
			sid := -1
			if tid := tr.GetTraceId(); strings.HasPrefix(tid, "t") && strings.HasSuffix(tid, "-"+name) {
				if id, err := strconv.Atoi(strings.TrimSuffix(tid[1:], "-"+name)); err == nil {
					sid = id
				}
			}
			for _, sp := range tr.GetSpans() {
				g := gotRow{sid: sid, span: sp.GetSpan(), hasSp: true}
				if p, err := strconv.Atoi(strings.TrimPrefix(sp.GetSpanId(), "p")); err == nil && strings.HasPrefix(sp.GetSpanId(), "p") {
					g.t = d.ts(p)
				} else {
					g.sid = -1
				}
				byName := map[string]*modelv1.TagValue{}
				for _, t := range sp.GetTags() {
					byName[t.GetKey()] = t.GetValue()
				}
				ok := len(byName) == len(tagCols)
				for _, ci := range tagCols {
					v, found := byName[d.cols[ci].Name]
					if !found {
						ok = false
					}
					g.tags = append(g.tags, v)
				}
				if !ok {
					g.tags = make([]*modelv1.TagValue, 64)
				}
				got = append(got, g)
			}
		}
		q.Span = true
		c.judge(d, q, got)
	}
	for r := 0; r < rounds; r++ {
		var spans []*tracev1.WriteRequest
		for si := range d.ss {
			sr := &d.ss[si]
			for i := 0; i < sr.points(); i++ {
				if sr.batch(i) != r {
					continue
				}
				w := &tracev1.WriteRequest{Tags: []*modelv1.TagValue{e2e.Str("t" + strconv.Itoa(sr.ID) + "-" + name), e2e.Str("p" + strconv.Itoa(i))}}
				for _, col := range d.cols {
					switch col.Kind {
					case kPayload:
						w.Span = []byte(d.val(sr, col, i).S)
					case kTime:
						w.Tags = append(w.Tags, e2e.Time(e2e.At((d.ts(i)-d.t0)/1_000_000)))
					default:
						w.Tags = append(w.Tags, toTag(col.Kind, d.val(sr, col, i)))
					}
				}
				spans = append(spans, w)
			}
		}
		if len(spans) == 0 {
			continue
		}
		drain := s.C01WriteTrace(md, spans)
		for k, sel := range chunks(len(d.ss), 1000) {
			run(query{Class: "after-ack/traces/all", Proj: all, Sel: sel, Min: lo, Max: hi, UpTo: r, Track: r == rounds-1 && k == 0})
		}
		drain()
		c.Counts["batches"]++
		c.Counts["points_written"] += len(spans)
	}
	var payloadOnly []int
	for ci, col := range d.cols {
		if col.Kind == kPayload {
			payloadOnly = []int{ci}
		}
	}
	for _, sel := range chunks(len(d.ss), 1000) {
		run(query{Class: "traces/span-only", Proj: payloadOnly, Sel: sel, Min: lo, Max: hi, UpTo: rounds - 1})
		for ci, col := range d.cols {
			if col.Kind == kPayload || (d.level == 0 && ci%4 != 0) {
				continue
			}
			run(query{Class: "traces/col=" + col.id(), Proj: []int{ci, payloadOnly[0]}, Sel: sel, Min: lo, Max: hi, UpTo: rounds - 1})
		}
	}
	if perSeriesQueries(d) {
		for id := range d.ss {
			run(query{Class: "trace/all", Proj: all, Sel: []int{id}, Min: lo, Max: hi, UpTo: rounds - 1})
		}
	}
}
