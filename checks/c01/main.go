// C01: acknowledged writes are returned exactly as written.
//
// Engine E (bounded exhaustive enumeration against a reference) over two seams:
//
//	(a) end-to-end: MeasureService / StreamService / TraceService Write then Query over gRPC on an in-process
//	    standalone server (one server per configuration, every case its own series / trace);
//	(b) in-package: tsTable.mustAddDataPoints / mustAddElements / trace mem parts -> snapshot -> the real query read
//	    path, memory part vs flushed part vs merged part, block-limit and dictionary-limit datasets.
//
// Enumerated: per column type an alphabet of boundary values, ALL column sequences of length <= 3 (quick) / <= 4
// (thorough), all assignments of a <= 4 point history to <= 3 batches over a reduced alphabet, covering queries
// (full range, every single-point range), projections (all, every single tag / field), readers (row / batch).
// Oracle: returned rows == written rows, bit-exact. See NOTES.md.
package main

import (
	"bytes"
	"encoding/json"
	"fmt"
	"os"
	"sort"
	"strconv"
	"strings"
	"sync"
	"time"

	"github.com/apache/skywalking-banyandb/pkg/logger"
	"github.com/apache/skywalking-banyandb/pkg/verif/e2e"
	"github.com/apache/skywalking-banyandb/pkg/verif/ev"
	"github.com/apache/skywalking-banyandb/pkg/verif/par"
)

// job is one unit of in-package work.
type job struct {
	Kind   string   `json:"kind"` // measure | stream | trace | probe
	Name   string   `json:"name"`
	Series []series `json:"series"`
	Level  int      `json:"level"`
	cost   int
}

func splitJobs(kind, name string, ss []series, parts int) []job {
	if parts < 1 {
		parts = 1
	}
	per := (len(ss) + parts - 1) / parts
	var out []job
	for i, lo := 0, 0; lo < len(ss); i, lo = i+1, lo+per {
		hi := lo + per
		if hi > len(ss) {
			hi = len(ss)
		}
		cp := append([]series(nil), ss[lo:hi]...)
		out = append(out, job{Kind: kind, Name: fmt.Sprintf("%s#%d", name, i), Series: number(cp), cost: hi - lo})
	}
	return out
}

// inpkgJobs is the deterministic job list of seam (b).
func inpkgJobs(thorough bool) []job {
	maxLen, bAlpha, bLevel := 3, 3, 1
	if thorough {
		maxLen, bAlpha, bLevel = 4, 4, 2
	}
	var jobs []job
	add := func(js []job, level int) {
		for i := range js {
			js[i].Level = level
			pts := 0
			for k := range js[i].Series {
				pts += js[i].Series[k].points()
			}
			js[i].cost = pts * []int{12, 16, 45}[level]
		}
		jobs = append(jobs, js...)
	}
	for _, eng := range []string{"measure", "stream", "trace"} {
		add(splitJobs(eng, "A", spaceA(maxLen), 28), 2)
		add(splitJobs(eng, "B", spaceB(4, bAlpha), 14), bLevel)
		add(splitJobs(eng, "dict", spaceDict(thorough), 2), 2)
		add(splitJobs(eng, "len", spaceLen(), 3), 1)
		for _, s := range spaceLimit(thorough) {
			add([]job{{Kind: eng, Name: "limit:" + s.String(), Series: number([]series{s})}}, 0)
		}
	}
	for _, s := range spacePBX() {
		add([]job{{Kind: "trace", Name: "pbx:" + s.String(), Series: number([]series{s})}}, 0)
	}
	jobs = append(jobs, job{Kind: "probe", Name: "ack-probe", cost: 1})
	// heaviest first, then round-robin: a simple longest-processing-time placement
	sort.SliceStable(jobs, func(i, j int) bool { return jobs[i].cost > jobs[j].cost })
	return jobs
}

func datasetOf(j *job) *dataset {
	d := &dataset{name: j.Kind + "/" + j.Name, ss: j.Series, t0: inpkgT0, step: 1_000_000, level: j.Level}
	switch j.Kind {
	case "measure":
		d.cols = measureCols
	case "stream":
		d.cols = streamCols
	case "trace":
		d.cols = traceCols
	}
	return d
}

func runJob(c *collector, j *job) {
	switch j.Kind {
	case "measure":
		c.path = "inpkg-measure"
		runMeasureDataset(c, datasetOf(j))
	case "stream":
		c.path = "inpkg-stream"
		runStreamDataset(c, datasetOf(j))
	case "trace":
		c.path = "inpkg-trace"
		runTraceDataset(c, datasetOf(j))
	case "probe":
		c.path = "inpkg-measure"
		runAckProbe(c)
	}
	c.Counts["jobs"]++
}

func engines() map[string]bool {
	on := map[string]bool{"measure": true, "stream": true, "trace": true, "probe": true, "e2e": true}
	if only := os.Getenv("C01_ONLY"); only != "" { // development aid: comma separated subset
		on = map[string]bool{}
		for _, p := range splitComma(only) {
			on[p] = true
		}
	}
	return on
}

func splitComma(s string) []string {
	var out []string
	cur := ""
	for _, r := range s {
		if r == ',' {
			out = append(out, cur)
			cur = ""
		} else {
			cur += string(r)
		}
	}
	return append(out, cur)
}

func main() {
	_ = logger.Init(logger.Logging{Env: "prod", Level: "fatal"})
	thorough := ev.Thorough()
	if cfg := os.Getenv("C01_E2E"); cfg != "" {
		e2eWorker(cfg, thorough)
		return
	}
	if p := ev.Arg("--replay"); p != "" {
		replay(p)
		return
	}
	on := engines()
	if wi, wn, ok := par.Worker(); ok {
		inpkgWorker(wi, wn, thorough)
		return
	}

	r := ev.New("C01", "exploration")
	total := newCollector("")
	var mu sync.Mutex
	var wg sync.WaitGroup
	// seam (a): one worker subprocess per server configuration, concurrently with the in-package shards
	cfgs := []string{"default"}
	if thorough {
		cfgs = append(cfgs, "row")
	}
	if on["e2e"] && os.Getenv("C01_SEAM") != "inpkg" {
		for _, cfg := range cfgs {
			wg.Add(1)
			go func(cfg string) {
				defer wg.Done()
				out, err := e2e.Spawn("C01_E2E="+cfg, "GOMAXPROCS=12")
				c, perr := parseE2E(out)
				mu.Lock()
				defer mu.Unlock()
				if err != nil || perr != nil {
					fmt.Printf("e2e worker %s failed: %v %v\n%s\n", cfg, err, perr, tail(out, 6000))
					if bytes.Contains(out, []byte("panic:")) || bytes.Contains(out, []byte("fatal error:")) {
						// the server under test died while serving the enumerated requests: a verdict, not a harness problem
						total.path, total.stage = "e2e", "e2e"
						total.report("crash path=e2e: the standalone server process panicked while serving writes / covering queries (configuration "+cfg+")",
							map[string]any{"dataset": "e2e/*@" + cfg, "output_tail": tail(out, 1500)})
						return
					}
					total.Harness = append(total.Harness, "e2e worker "+cfg+" failed")
					return
				}
				total.merge(c)
			}(cfg)
		}
	}
	if os.Getenv("C01_SEAM") != "e2e" {
		runInpkg(r, total, &mu, thorough, on)
	}
	wg.Wait()
	finish(r, total, thorough)
}

// workerMsg is one line a shard worker emits: before a job starts and after it finished.
type workerMsg struct {
	C     *collector `json:"c,omitempty"`
	Start int        `json:"start"`
	Done  int        `json:"done"`
}

func inpkgWorker(wi, wn int, thorough bool) {
	jobs := inpkgJobs(thorough)
	var mine []int
	for pos, f := range splitComma(os.Getenv("C01_JOBS")) {
		if idx, err := strconv.Atoi(f); err == nil && pos%wn == wi && idx >= 0 && idx < len(jobs) {
			mine = append(mine, idx)
		}
	}
	for _, idx := range mine {
		b, _ := json.Marshal(workerMsg{Start: idx, Done: -1})
		par.Emit(b)
		c := newCollector("")
		t0 := time.Now()
		jj := jobs[idx]
		runJob(c, &jj)
		if os.Getenv("C01_TIMING") != "" {
			fmt.Printf("job %s/%s series=%d took %.1fs\n", jj.Kind, jj.Name, len(jj.Series), time.Since(t0).Seconds())
		}
		b, _ = json.Marshal(workerMsg{Start: -1, Done: idx, C: c})
		par.Emit(b)
	}
}

// runInpkg shards the in-package jobs over worker subprocesses. A worker that dies inside a job (a panic of the
// engine outside every recover, e.g. in a goroutine of the query path) turns that job into a `crash` violation; the
// jobs it had not started yet are re-run in a further pass, so that the enumeration stays complete.
func runInpkg(r *ev.Run, total *collector, mu *sync.Mutex, thorough bool, on map[string]bool) {
	jobs := inpkgJobs(thorough)
	var pending []int
	for i := range jobs {
		if on[jobs[i].Kind] {
			pending = append(pending, i)
		}
	}
	const workers = 14
	for pass := 0; len(pending) > 0; pass++ {
		if pass == 10 {
			r.NotExhaustive(fmt.Sprintf("%d in-package jobs were not executed: workers kept dying", len(pending)))
			return
		}
		list := make([]string, len(pending))
		for i, idx := range pending {
			list[i] = strconv.Itoa(idx)
		}
		scratch := fmt.Sprintf("/dev/shm/verif-c01-%d", os.Getpid())
		outs, err := par.Run(workers, "GOGC=400", "C01_JOBS="+strings.Join(list, ","), "C01_SCRATCH="+scratch)
		_ = os.RemoveAll(scratch)
		started, done := map[int]bool{}, map[int]bool{}
		mu.Lock()
		for _, o := range outs {
			var m workerMsg
			m.Start, m.Done = -1, -1
			if uerr := json.Unmarshal(o, &m); uerr != nil {
				fmt.Println("bad worker result:", uerr)
				os.Exit(2)
			}
			if m.Start >= 0 {
				started[m.Start] = true
			}
			if m.Done >= 0 && m.C != nil {
				done[m.Done] = true
				total.merge(m.C)
			}
		}
		crashed := 0
		for idx := range started {
			if !done[idx] {
				crashed++
				j := jobs[idx]
				total.path, total.stage = "inpkg-"+j.Kind, "*"
				class, _, _ := strings.Cut(j.Name, "#")
				class, _, _ = strings.Cut(class, ":")
				art := map[string]any{"dataset": j.Kind + "/" + j.Name, "note": "the worker process died while executing this job; the panic text is in the log above"}
				if len(j.Series) > 0 {
					art["series"] = &j.Series[0]
				}
				total.report(fmt.Sprintf("crash path=inpkg-%s dataset-class=%s: the engine panicked outside every recover (worker process died)", j.Kind, class), art)
			}
		}
		mu.Unlock()
		if err != nil && crashed == 0 {
			fmt.Println("worker failure:", err)
			os.Exit(2)
		}
		var rest []int
		for _, idx := range pending {
			if !started[idx] {
				rest = append(rest, idx)
			}
		}
		pending = rest
	}
}

func tail(b []byte, n int) string {
	if len(b) > n {
		b = b[len(b)-n:]
	}
	return string(b)
}

func finish(r *ev.Run, total *collector, thorough bool) {
	if engines()["trace"] && os.Getenv("C01_SEAM") != "e2e" {
		// the straddling alignments (a multi-block trace cut by a primary index roll-over) are the point of the pbx
		// datasets: without them the run is not a verdict
		for _, k := range []string{"trace-pbm/blocks=3 align=inner:1+2 stage=mem", "trace-pbm/blocks=3 align=inner:2+1 stage=mem"} {
			if total.Outcomes[k] == 0 {
				total.Harness = append(total.Harness, "primary-index alignment not exercised: "+k)
			}
		}
	}
	for _, h := range total.Harness {
		fmt.Println("HARNESS:", h)
	}
	if len(total.Harness) > 0 && len(total.Findings) == 0 {
		os.Exit(2) // a harness problem and nothing to report: not a verdict
	}
	for _, k := range sortedKeys(total.Findings) {
		f := total.Findings[k]
		f.Art["occurrences"] = f.N
		r.Violation(k, f.Art)
	}
	if total.Dropped > 0 {
		fmt.Printf("(%d further findings beyond the per-worker cap of %d distinct keys were counted only)\n", total.Dropped, maxKeysPerWorker)
	}
	for _, k := range sortedKeys(total.Counts) {
		r.Set(k, total.Counts[k])
	}
	r.Set("distinct_nontrivial", total.Nontriv)
	r.Set("rule", "a case is one (seam, engine, dataset, series history, column) tuple, enumerated from the spaces listed under bounds; it is non-trivial when the column holds at least two points that are not all the same value (the block column cannot be stored as one constant). evaluations = number of (series, covering query) judgements")
	outc := map[string]int{}
	for k, v := range total.Outcomes {
		outc[k] = v
	}
	r.Set("outcomes", outc)
	r.Set("distinct_outcomes", len(outc))
	maxLen, bAlpha := 3, 3
	if thorough {
		maxLen, bAlpha = 4, 4
	}
	r.Set("bounds", map[string]any{
		"alphabet_sizes": alphabetSizes(), "max_sequence_length": maxLen, "lockstep_index_range": maxAlpha,
		"space_A_series": len(spaceA(maxLen)), "space_B_series": len(spaceB(4, bAlpha)), "space_B_reduced_alphabet_indices": reducedIdx[:bAlpha],
		"assignments_of_4_points_to_<=3_batches": len(allAssignments(4, 3)),
		"limit_datasets":                         len(spaceLimit(thorough)), "dict_datasets": len(spaceDict(thorough)),
		"trace_primary_index_alignment_datasets": len(spacePBX()), "trace_primary_index_alignment_blocks": pbxBlocks,
	})
	for _, s := range total.Samples {
		r.Sample(s)
	}
	if len(total.Samples) == 0 {
		r.Sample(map[string]any{"series": spaceA(2)[20], "columns": len(measureCols)})
	}
	r.Assume("the pbgen-generated message code and the Go gRPC stack transport values unchanged (a transport defect would show up as a violation, not hide one)")
	r.Assume("in-package seam: the harness plays the introducer loop (real introducePart/introduceFlushed/introduceMerged), background loops are not started")
	fmt.Printf("C01: evaluations=%d points_written=%d rows_expected=%d rows_returned=%d nontrivial=%d distinct_outcomes=%d finding_classes=%d\n",
		total.Counts["evaluations"], total.Counts["points_written"], total.Counts["rows_expected"], total.Counts["rows_returned"], total.Nontriv, len(outc), len(total.Findings))
	r.Finish()
}

func alphabetSizes() map[string]int {
	m := map[string]int{}
	for k, a := range alphabet {
		m[kindName[k]] = len(a)
	}
	return m
}
