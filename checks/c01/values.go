package main

// Value alphabets, conversions to/from the API value messages, exact comparison, and the reference classification of
// float columns (which values the decimal float column codec is obliged to return bit-exactly).

import (
	"encoding/hex"
	"fmt"
	"math"
	"math/big"
	"strconv"
	"strings"
	"time"

	"google.golang.org/protobuf/types/known/timestamppb"

	modelv1 "github.com/apache/skywalking-banyandb/api/proto/banyandb/model/v1"
)

// kinds of columns
const (
	kStr     = iota // string tag
	kInt            // int tag
	kStrArr         // string-array tag
	kIntArr         // int-array tag
	kBin            // data_binary tag
	kFInt           // int field
	kFFloat         // float field
	kFStr           // string field
	kFBin           // data_binary field
	kTime           // timestamp tag (trace only)
	kPayload        // trace span payload (bytes, never null)
)

var kindName = []string{"str-tag", "int-tag", "strarr-tag", "intarr-tag", "bin-tag", "int-field", "float-field", "str-field", "bin-field", "ts-tag", "span"}

// val is one abstract value. Null: explicit null. Exactly one of the payload members is meaningful per kind.
type val struct {
	S    string   // kStr, kFStr, and bytes of kBin / kFBin / kPayload
	SA   []string // kStrArr
	IA   []int64  // kIntArr
	I    int64    // kInt, kFInt, kTime (unix nanos)
	F    uint64   // kFFloat: IEEE bits
	Null bool
	Arr  bool // kStrArr / kIntArr: the value is an array (possibly empty), not null
}

var null = val{Null: true}

func vs(s string) val     { return val{S: s} }
func vi(i int64) val      { return val{I: i} }
func vf(f float64) val    { return val{F: math.Float64bits(f)} }
func vfb(b uint64) val    { return val{F: b} }
func vsa(a ...string) val { return val{SA: append([]string{}, a...), Arr: true} }
func via(a ...int64) val  { return val{IA: append([]int64{}, a...), Arr: true} }
func isArr(k int) bool    { return k == kStrArr || k == kIntArr }
func isBytes(k int) bool  { return k == kBin || k == kFBin || k == kPayload }
func isField(k int) bool  { return k >= kFInt && k <= kFBin }
func long300(b byte) string {
	return strings.Repeat(string([]byte{b, b + 1, b + 2, '3', '4', '5', '6', '7', '8', '9'}), 30)
}

// alphabets: index -> value. maxAlpha is the index range of a lock-step sequence; a shorter alphabet is indexed
// modulo its length.
const maxAlpha = 15

var alphabet = map[int][]val{
	kInt: {null, vi(0), vi(1), vi(2), vi(-1), vi(-2), vi(1 << 31), vi(-(1 << 31)), vi(1<<53 + 1), vi(-(1<<53 + 1)),
		vi(math.MaxInt64), vi(math.MinInt64), vi(256), vi(3)},
	kFFloat: {
		null, vf(0), vfb(0x8000000000000000), vf(0.1), vf(0.30000000000000004), vf(1e-7), vf(123456789.123456789),
		vf(9007199254740993e-3), vf(math.MaxFloat64), vf(math.SmallestNonzeroFloat64), vf(math.Inf(1)), vf(math.Inf(-1)),
		vfb(0x7ff8000000000001), vf(1.5), vf(9.162003887897779),
	},
	kStr: {null, vs(""), vs("a"), vs("b"), vs("|"), vs("\\"), vs("\x00"), vs("é"), vs("日本語"), vs(long300('0')), vs("null"),
		vs("a|b\\c|"), vs("a\x00"), vs(" ")},
	kBin: {null, vs(""), vs("\x00"), vs("\xff"), vs("|"), vs("\\"), vs("\x00\xff"), vs("a"), vs(long300(0xf0)), vs("null"),
		vs("\xff\xfe\xfd"), vs("\\|"), vs("\x00\x00")},
	kStrArr: {null, vsa(), vsa(""), vsa("a"), vsa("|"), vsa("\\"), vsa("a|b"), vsa("a", "b"), vsa("", "", ""), vsa("a\\", "|b"),
		vsa("\x00"), vsa(long300('a')), vsa("a", ""), vsa("", "a")},
	kIntArr: {null, via(), via(0), via(1), via(-1), via(math.MaxInt64, math.MinInt64), via(0, 0), via(1, 2, 3), via(1<<53 + 1),
		via(math.MinInt64), via(0x7c7c7c7c7c7c7c7c), via(0x5c, 0x7c), via(1, 0)},
}

func init() {
	alphabet[kFInt] = alphabet[kInt]
	alphabet[kFStr] = alphabet[kStr]
	alphabet[kFBin] = alphabet[kBin]
	// trace span payload: bytes, never null (the API has no null span)
	alphabet[kPayload] = alphabet[kBin][1:]
	// timestamp tag values (trace): offsets in ns from the case's base; resolved by the trace seam
	alphabet[kTime] = []val{vi(0), vi(1), vi(999_999), vi(1_000_000), vi(1_000_000_007), vi(-1)}
	for k, a := range alphabet {
		if len(a) > maxAlpha {
			panic(fmt.Sprintf("alphabet %d longer than maxAlpha", k))
		}
	}
}

// pick returns alphabet[kind][(idx+rot) mod len].
func pick(kind, idx, rot int) val {
	a := alphabet[kind]
	return a[(idx+rot)%len(a)]
}

// ---------------------------------------------------------------------------------------------------------------
// to API messages

func toTag(k int, v val) *modelv1.TagValue {
	if v.Null {
		return &modelv1.TagValue{Value: &modelv1.TagValue_Null{}}
	}
	switch k {
	case kStr:
		return &modelv1.TagValue{Value: &modelv1.TagValue_Str{Str: &modelv1.Str{Value: v.S}}}
	case kInt:
		return &modelv1.TagValue{Value: &modelv1.TagValue_Int{Int: &modelv1.Int{Value: v.I}}}
	case kStrArr:
		return &modelv1.TagValue{Value: &modelv1.TagValue_StrArray{StrArray: &modelv1.StrArray{Value: append([]string{}, v.SA...)}}}
	case kIntArr:
		return &modelv1.TagValue{Value: &modelv1.TagValue_IntArray{IntArray: &modelv1.IntArray{Value: append([]int64{}, v.IA...)}}}
	case kBin:
		return &modelv1.TagValue{Value: &modelv1.TagValue_BinaryData{BinaryData: []byte(v.S)}}
	case kTime:
		return toTimeTag(v.I)
	}
	panic("toTag: bad kind")
}

func toTimeTag(ns int64) *modelv1.TagValue {
	return &modelv1.TagValue{Value: &modelv1.TagValue_Timestamp{Timestamp: timestamppb.New(time.Unix(0, ns))}}
}

func toField(k int, v val) *modelv1.FieldValue {
	if v.Null {
		return &modelv1.FieldValue{Value: &modelv1.FieldValue_Null{}}
	}
	switch k {
	case kFInt:
		return &modelv1.FieldValue{Value: &modelv1.FieldValue_Int{Int: &modelv1.Int{Value: v.I}}}
	case kFFloat:
		return &modelv1.FieldValue{Value: &modelv1.FieldValue_Float{Float: &modelv1.Float{Value: math.Float64frombits(v.F)}}}
	case kFStr:
		return &modelv1.FieldValue{Value: &modelv1.FieldValue_Str{Str: &modelv1.Str{Value: v.S}}}
	case kFBin:
		return &modelv1.FieldValue{Value: &modelv1.FieldValue_BinaryData{BinaryData: []byte(v.S)}}
	}
	panic("toField: bad kind")
}

// ---------------------------------------------------------------------------------------------------------------
// canonical rendering (only on mismatch / in artefacts) and exact comparison

func hx(s string) string { return hex.EncodeToString([]byte(s)) }

func canon(k int, v val) string {
	if v.Null {
		return "null"
	}
	switch k {
	case kStr, kFStr:
		return "s:" + hx(v.S)
	case kInt, kFInt:
		return "i:" + strconv.FormatInt(v.I, 10)
	case kTime:
		return "t:" + strconv.FormatInt(v.I, 10)
	case kFFloat:
		return fmt.Sprintf("f:%016x", v.F)
	case kBin, kFBin, kPayload:
		return "b:" + hx(v.S)
	case kStrArr:
		p := make([]string, len(v.SA))
		for i := range v.SA {
			p[i] = hx(v.SA[i])
		}
		return "sa:[" + strings.Join(p, ",") + "]"
	case kIntArr:
		p := make([]string, len(v.IA))
		for i := range v.IA {
			p[i] = strconv.FormatInt(v.IA[i], 10)
		}
		return "ia:[" + strings.Join(p, ",") + "]"
	}
	return "?"
}

func canonTag(t *modelv1.TagValue) string {
	if t == nil {
		return "<nil message>"
	}
	switch x := t.GetValue().(type) {
	case nil:
		return "<unset>"
	case *modelv1.TagValue_Null:
		return "null"
	case *modelv1.TagValue_Str:
		return "s:" + hx(x.Str.GetValue())
	case *modelv1.TagValue_Int:
		return "i:" + strconv.FormatInt(x.Int.GetValue(), 10)
	case *modelv1.TagValue_BinaryData:
		return "b:" + hx(string(x.BinaryData))
	case *modelv1.TagValue_StrArray:
		return canon(kStrArr, vsa(x.StrArray.GetValue()...))
	case *modelv1.TagValue_IntArray:
		return canon(kIntArr, via(x.IntArray.GetValue()...))
	case *modelv1.TagValue_Timestamp:
		return "t:" + strconv.FormatInt(x.Timestamp.AsTime().UnixNano(), 10)
	}
	return fmt.Sprintf("?%T", t.GetValue())
}

func canonField(f *modelv1.FieldValue) string {
	if f == nil {
		return "<nil message>"
	}
	switch x := f.GetValue().(type) {
	case nil:
		return "<unset>"
	case *modelv1.FieldValue_Null:
		return "null"
	case *modelv1.FieldValue_Str:
		return "s:" + hx(x.Str.GetValue())
	case *modelv1.FieldValue_Int:
		return "i:" + strconv.FormatInt(x.Int.GetValue(), 10)
	case *modelv1.FieldValue_Float:
		return fmt.Sprintf("f:%016x", math.Float64bits(x.Float.GetValue()))
	case *modelv1.FieldValue_BinaryData:
		return "b:" + hx(string(x.BinaryData))
	}
	return fmt.Sprintf("?%T", f.GetValue())
}

// eqTag: is the returned tag value identical to the written one (type, null-ness, every bit)?
func eqTag(k int, w val, t *modelv1.TagValue) bool {
	if t == nil {
		return false
	}
	switch x := t.GetValue().(type) {
	case *modelv1.TagValue_Null:
		// normalisation N2 (see NOTES): the stored form of an array tag has no representation of the empty array
		// (zero elements marshal to zero bytes = nil), so an empty array is returned as null. The reverse is not allowed.
		return w.Null || (isArr(k) && w.Arr && len(w.SA) == 0 && len(w.IA) == 0)
	case *modelv1.TagValue_Str:
		return k == kStr && !w.Null && x.Str != nil && x.Str.Value == w.S
	case *modelv1.TagValue_Int:
		return k == kInt && !w.Null && x.Int != nil && x.Int.Value == w.I
	case *modelv1.TagValue_BinaryData:
		return k == kBin && !w.Null && string(x.BinaryData) == w.S
	case *modelv1.TagValue_StrArray:
		if k != kStrArr || w.Null || x.StrArray == nil || len(x.StrArray.Value) != len(w.SA) {
			return false
		}
		for i := range w.SA {
			if w.SA[i] != x.StrArray.Value[i] {
				return false
			}
		}
		return true
	case *modelv1.TagValue_IntArray:
		if k != kIntArr || w.Null || x.IntArray == nil || len(x.IntArray.Value) != len(w.IA) {
			return false
		}
		for i := range w.IA {
			if w.IA[i] != x.IntArray.Value[i] {
				return false
			}
		}
		return true
	case *modelv1.TagValue_Timestamp:
		return k == kTime && !w.Null && x.Timestamp.AsTime().UnixNano() == w.I
	}
	return false
}

func eqField(k int, w val, f *modelv1.FieldValue) bool {
	if f == nil {
		return false
	}
	switch x := f.GetValue().(type) {
	case *modelv1.FieldValue_Null:
		return w.Null
	case *modelv1.FieldValue_Str:
		// normalisation N1 (see NOTES): mustDecodeFieldValue deliberately returns a null string / binary FIELD as the
		// empty value (pbv1.EmptyStrFieldValue / EmptyBinaryFieldValue). The reverse ("" returned as null) is not allowed.
		if k == kFStr && w.Null {
			return x.Str != nil && x.Str.Value == ""
		}
		return k == kFStr && !w.Null && x.Str != nil && x.Str.Value == w.S
	case *modelv1.FieldValue_Int:
		return k == kFInt && !w.Null && x.Int != nil && x.Int.Value == w.I
	case *modelv1.FieldValue_Float:
		return k == kFFloat && !w.Null && x.Float != nil && math.Float64bits(x.Float.Value) == w.F
	case *modelv1.FieldValue_BinaryData:
		if k == kFBin && w.Null {
			return len(x.BinaryData) == 0
		}
		return k == kFBin && !w.Null && string(x.BinaryData) == w.S
	}
	return false
}

// ---------------------------------------------------------------------------------------------------------------
// float columns: which values MUST come back bit-exact from the decimal column codec
//
// banyand/measure/column.go encodeFloat64Column turns a block's float column into (mantissa_i, common exponent) with
// pkg/encoding.Float64ListToDecimalIntList and decodes float64(mantissa)*10^exp resp. float64(mantissa)/10^-exp. That
// is exact whenever the scaled mantissa is representable as a float64 and 10^|exp| is (|exp| <= 22): one correctly
// rounded operation on exact operands returns the double nearest to the decimal, which is the written value.
// The reference below decides, from the values written to one (series, column) alone, for which of them that
// argument holds in EVERY block the engine may form out of them (blocks are subsets; a subset's common exponent is
// not smaller, so scaled mantissas only get smaller). For all other finite values the codec is known to be lossy
// (the defect named by the property text); NaN / Inf / null force the plain encoding and must always be exact.

// decimalOf mirrors the decomposition into (mantissa, exponent) of pkg/encoding/float.go floatToDecimal.
func decimalOf(f float64) (m *big.Int, e int) {
	if f == math.Trunc(f) && math.Abs(f) < 9.3e18 {
		if u := int64(f); float64(u) == f {
			for u != 0 && u%10 == 0 {
				u /= 10
				e++
			}
			return big.NewInt(u), e
		}
	}
	s := strconv.FormatFloat(f, 'e', -1, 64) // d.ddddde±xx
	mant, exps, _ := strings.Cut(s, "e")
	x, _ := strconv.Atoi(exps)
	neg := strings.HasPrefix(mant, "-")
	mant = strings.TrimPrefix(mant, "-")
	ip, fp, _ := strings.Cut(mant, ".")
	digits := strings.TrimRight(ip+fp, "0")
	if digits == "" {
		digits = "0"
	}
	e = x - len(fp) + (len(ip+fp) - len(digits))
	m, _ = new(big.Int).SetString(digits, 10)
	if neg {
		m.Neg(m)
	}
	return m, e
}

func representable(m *big.Int) bool {
	if m.Sign() == 0 {
		return true
	}
	a := new(big.Int).Abs(m)
	a.Rsh(a, a.TrailingZeroBits())
	return a.BitLen() <= 53
}

// floatExact returns, for each written float value of one (series, column), whether the codec must return it exactly.
func floatExact(bits []uint64, nulls []bool) []bool {
	out := make([]bool, len(bits))
	type dec struct {
		m *big.Int
		e int
	}
	ds := make([]*dec, len(bits))
	minE, maxAbsE, any := 0, 0, false
	for i, b := range bits {
		f := math.Float64frombits(b)
		if nulls[i] || math.IsNaN(f) || math.IsInf(f, 0) {
			out[i] = true // plain encoding of the whole block
			continue
		}
		if f == 0 {
			// (0, exponent 0) takes part in the common exponent; +0 always decodes to +0, -0 loses its sign in the
			// decimal codec (separate finding) unless the block falls back to the plain encoding.
			out[i] = b == 0
			ds[i] = &dec{big.NewInt(0), 0}
			if !any || minE > 0 {
				minE = 0
			}
			any = true
			continue
		}
		m, e := decimalOf(f)
		ds[i] = &dec{m, e}
		if !any || e < minE {
			minE = e
		}
		any = true
		if a := abs(e); a > maxAbsE {
			maxAbsE = a
		}
	}
	if maxAbsE > 22 {
		return out // 10^|exp| is not exact: nothing finite is guaranteed (zeros keep what was decided above)
	}
	for i, d := range ds {
		if d == nil || d.m.Sign() == 0 {
			continue
		}
		sc := new(big.Int).Exp(big.NewInt(10), big.NewInt(int64(d.e-minE)), nil)
		sc.Mul(sc, d.m)
		out[i] = sc.IsInt64() && representable(sc)
	}
	return out
}

func abs(i int) int {
	if i < 0 {
		return -i
	}
	return i
}

// ulpDist is the distance in representable doubles between two finite values.
func ulpDist(a, b uint64) uint64 {
	o := func(x uint64) int64 {
		if x>>63 == 1 {
			return -int64(x &^ (1 << 63))
		}
		return int64(x)
	}
	d := o(a) - o(b)
	if d < 0 {
		d = -d
	}
	return uint64(d)
}
