package main

// The oracle: returned rows == written rows (one row per written (series, timestamp) that the query covers, nothing
// else), every projected value bit-identical. Shared by all seams.

import (
	"crypto/sha1"
	"fmt"
	"math"
	"sort"
	"strings"

	modelv1 "github.com/apache/skywalking-banyandb/api/proto/banyandb/model/v1"
)

func nan() float64 { return math.Float64frombits(0x7ff8000000000001) }

// dataset = a numbered list of series over one schema, with the time layout of the points.
type dataset struct {
	exact map[int][][]bool // series ID -> per float column (position in cols) -> per point: must be bit-exact
	name  string
	cols  []colDef
	ss    []series
	t0    int64 // timestamp of point 0 (unix nanos)
	step  int64 // distance of consecutive points
	level int   // how many query variants are judged per stage (see fullCheck)
}

func (d *dataset) ts(i int) int64 { return d.t0 + int64(i)*d.step }

// val is the value of column c at point i of series s (a timestamp tag holds the point's own timestamp).
func (d *dataset) val(s *series, c colDef, i int) val {
	if c.Kind == kTime {
		return vi(d.ts(i))
	}
	return s.val(c, i)
}

// pointOf maps a timestamp back to the point number (-1: not a timestamp of this dataset).
func (d *dataset) pointOf(t int64) int {
	x := t - d.t0
	if x < 0 || x%d.step != 0 {
		return -1
	}
	return int(x / d.step)
}

func (d *dataset) tagCols() (out []int) {
	for i, c := range d.cols {
		if !isField(c.Kind) && c.Kind != kPayload {
			out = append(out, i)
		}
	}
	return
}

func (d *dataset) fieldCols() (out []int) {
	for i, c := range d.cols {
		if isField(c.Kind) {
			out = append(out, i)
		}
	}
	return
}

// mustBeExact: is float column ci of series s at point p obliged to be bit-exact?
func (d *dataset) mustBeExact(s *series, ci, p int) bool {
	if d.exact == nil {
		d.exact = map[int][][]bool{}
	}
	e, ok := d.exact[s.ID]
	if !ok {
		e = make([][]bool, len(d.cols))
		d.exact[s.ID] = e
	}
	if e[ci] == nil {
		n := s.points()
		bits := make([]uint64, n)
		nulls := make([]bool, n)
		for i := 0; i < n; i++ {
			v := d.val(s, d.cols[ci], i)
			bits[i], nulls[i] = v.F, v.Null
		}
		e[ci] = floatExact(bits, nulls)
	}
	return e[ci][p]
}

// gotRow is one returned row in seam-independent form; tags / fields are aligned with the projected columns.
type gotRow struct {
	tags   []*modelv1.TagValue
	fields []*modelv1.FieldValue
	span   []byte
	sid    int // series ID (position in the dataset), -1 = not a series of the dataset
	t      int64
	hasSp  bool
}

// finding is one violation class found by a worker.
type finding struct {
	Art map[string]any `json:"art"`
	Key string         `json:"key"`
	N   int            `json:"n"`
}

// collector accumulates what one worker did and found.
type collector struct {
	Findings  map[string]*finding `json:"findings"`
	Counts    map[string]int      `json:"counts"`
	Outcomes  map[string]int      `json:"outcomes"` // distinct observed outcome classes
	Samples   []any               `json:"samples"`
	Harness   []string            `json:"harness"` // harness errors (never a verdict)
	Nontriv   int                 `json:"nontriv"`
	Dropped   int                 `json:"dropped"` // findings beyond the per-worker cap of distinct keys
	path      string              // seam:engine, e.g. "inpkg-measure"
	stage     string              // mem | flushed | merged | memmerged | e2e
	seenValue map[string]struct{}
	descr     *series // set while a descriptor dataset (Gen "pbx") runs: the artefact records the descriptor, so that --replay rebuilds the whole dataset
}

func newCollector(path string) *collector {
	return &collector{Findings: map[string]*finding{}, Counts: map[string]int{}, Outcomes: map[string]int{}, path: path, seenValue: map[string]struct{}{}}
}

const maxKeysPerWorker = 400

func (c *collector) report(key string, art map[string]any) {
	if f, ok := c.Findings[key]; ok {
		f.N++
		return
	}
	if len(c.Findings) >= maxKeysPerWorker {
		c.Dropped++
		return
	}
	art["path"] = c.path
	art["stage"] = c.stage
	if c.descr != nil {
		art["case"] = art["series"]
		art["series"] = c.descr
	}
	c.Findings[key] = &finding{Key: key, Art: art, N: 1}
}

func short(s string) string {
	if len(s) <= 72 {
		return s
	}
	h := sha1.Sum([]byte(s))
	return fmt.Sprintf("%s..(%d chars, sha1 %x)", s[:40], len(s), h[:4])
}

// query describes the covering query whose answer is being judged.
type query struct {
	Class string `json:"class"` // e.g. "full/all/pull"
	Proj  []int  `json:"proj"`  // projected columns (positions in cols)
	Sel   []int  `json:"-"`     // series IDs queried
	Min   int64  `json:"min"`   // inclusive
	Max   int64  `json:"max"`   // inclusive
	UpTo  int    `json:"upto"`  // batches 0..UpTo have been acknowledged
	Span  bool   `json:"span,omitempty"`
	Track bool   `json:"-"` // record the distinct returned values of this query as outcomes
}

// judge compares the answer of one query with the written history.
func (c *collector) judge(d *dataset, q query, got []gotRow) {
	c.Counts["evaluations"] += len(q.Sel)
	c.Counts["rows_returned"] += len(got)
	// expected points
	type slot struct{ base, n int }
	slots := make(map[int]slot, len(q.Sel))
	total := 0
	for _, id := range q.Sel {
		n := d.ss[id].points()
		slots[id] = slot{total, n}
		total += n
	}
	seen := make([]uint8, total)
	var tagCols, fieldCols []int
	for _, ci := range q.Proj {
		switch {
		case d.cols[ci].Kind == kPayload:
		case isField(d.cols[ci].Kind):
			fieldCols = append(fieldCols, ci)
		default:
			tagCols = append(tagCols, ci)
		}
	}
	art := func(s *series, extra map[string]any) map[string]any {
		m := map[string]any{"dataset": d.name, "series": s, "query": q}
		for k, v := range extra {
			m[k] = v
		}
		return m
	}
	for gi := range got {
		g := &got[gi]
		sl, ok := slots[g.sid]
		p := d.pointOf(g.t)
		if !ok || p < 0 || p >= sl.n {
			c.report(fmt.Sprintf("row-unexpected path=%s:%s query=%s", c.path, c.stage, q.Class),
				map[string]any{"dataset": d.name, "query": q, "sid": g.sid, "t": g.t})
			continue
		}
		s := &d.ss[g.sid]
		if s.batch(p) > q.UpTo || g.t < q.Min || g.t > q.Max {
			c.report(fmt.Sprintf("row-unexpected path=%s:%s query=%s", c.path, c.stage, q.Class), art(s, map[string]any{"point": p}))
			continue
		}
		if seen[sl.base+p] < 255 {
			seen[sl.base+p]++
		}
		if seen[sl.base+p] > 1 {
			c.report(fmt.Sprintf("row-duplicated path=%s:%s query=%s", c.path, c.stage, q.Class), art(s, map[string]any{"point": p}))
			continue
		}
		if len(g.tags) != len(tagCols) || len(g.fields) != len(fieldCols) || (q.Span && !g.hasSp) {
			c.report(fmt.Sprintf("row-malformed path=%s:%s query=%s", c.path, c.stage, q.Class),
				art(s, map[string]any{"point": p, "tags": len(g.tags), "fields": len(g.fields)}))
			continue
		}
		for k, ci := range tagCols {
			col := d.cols[ci]
			w := d.val(s, col, p)
			if eqTag(col.Kind, w, g.tags[k]) {
				if isArr(col.Kind) && w.Arr && len(w.SA) == 0 && len(w.IA) == 0 {
					c.Counts["normalised/empty-array-tag-returned-as-null"]++
				}
				if q.Track {
					c.outcome(col.Kind, w)
				}
				continue
			}
			ws, gs := canon(col.Kind, w), canonTag(g.tags[k])
			key := fmt.Sprintf("value/%s want=%s got=%s path=%s:%s", kindName[col.Kind], short(ws), short(gs), c.path, c.stage)
			if c.mergeTailClass(s, col.Kind, p) {
				key = fmt.Sprintf("measure-merge/tail-rows-of-plain-column-corrupted kind=%s path=%s:%s", kindName[col.Kind], c.path, c.stage)
			} else if col.Kind == kStrArr && hasEscaped(w) && strings.HasPrefix(gs, "sa:") {
				// class of its own: elements that need escaping in the stored form ('|' or '\\')
				key = fmt.Sprintf("strarr-tag/escaped-element-corrupted want=%s got=%s path=%s:%s", short(ws), short(gs), c.path, c.stage)
			}
			c.report(key, art(s, map[string]any{"point": p, "column": col.id(), "want": ws, "got": gs}))
		}
		for k, ci := range fieldCols {
			col := d.cols[ci]
			w := d.val(s, col, p)
			if eqField(col.Kind, w, g.fields[k]) {
				if w.Null && (col.Kind == kFStr || col.Kind == kFBin) {
					c.Counts["normalised/null-str-or-bin-field-returned-as-empty"]++
				}
				if q.Track {
					c.outcome(col.Kind, w)
				}
				continue
			}
			ws, gs := canon(col.Kind, w), canonField(g.fields[k])
			key := fmt.Sprintf("value/%s want=%s got=%s path=%s:%s", kindName[col.Kind], short(ws), short(gs), c.path, c.stage)
			if c.mergeTailClass(s, col.Kind, p) {
				key = fmt.Sprintf("measure-merge/tail-rows-of-plain-column-corrupted kind=%s path=%s:%s", kindName[col.Kind], c.path, c.stage)
			}
			if col.Kind == kFFloat && !w.Null {
				if fv, ok := g.fields[k].GetValue().(*modelv1.FieldValue_Float); ok && fv.Float != nil && !d.mustBeExact(s, ci, p) {
					gb := math.Float64bits(fv.Float.Value)
					switch {
					case w.F == 0x8000000000000000 && gb == 0:
						key = fmt.Sprintf("float-field/negzero-returned-as-poszero path=%s", c.stage)
					case !math.IsNaN(fv.Float.Value) && !math.IsInf(fv.Float.Value, 0) && ulpDist(w.F, gb) <= 8:
						key = fmt.Sprintf("float-field/%dulp bits=%016x got=%016x path=%s", ulpDist(w.F, gb), w.F, gb, c.stage)
					}
				}
			}
			c.report(key, art(s, map[string]any{"point": p, "column": col.id(), "want": ws, "got": gs}))
		}
		if q.Span {
			var col colDef
			for _, cc := range d.cols {
				if cc.Kind == kPayload {
					col = cc
				}
			}
			w := d.val(s, col, p)
			if string(g.span) != w.S {
				c.report(fmt.Sprintf("value/span want=%s got=%s path=%s:%s", short("b:"+hx(w.S)), short("b:"+hx(string(g.span))), c.path, c.stage),
					art(s, map[string]any{"point": p, "column": "span"}))
			} else if q.Track {
				c.outcome(kPayload, w)
			}
		}
	}
	for _, id := range q.Sel {
		s := &d.ss[id]
		sl := slots[id]
		for p := 0; p < sl.n; p++ {
			t := d.ts(p)
			if s.batch(p) > q.UpTo || t < q.Min || t > q.Max {
				continue
			}
			c.Counts["rows_expected"]++
			if seen[sl.base+p] == 0 {
				c.report(fmt.Sprintf("row-missing path=%s:%s query=%s", c.path, c.stage, q.Class), art(s, map[string]any{"point": p}))
			}
		}
	}
}

// mergeTailClass: the failing-case class of the measure merger defect (see NOTES, finding 4): a series whose merge
// input has three or more blocks (> 2 x 8192 rows), a row behind the first cut at 8192, a column stored as raw bytes
// (string / binary / array: the values alias the pooled BytesBlockDecoder buffer), in a merged part.
func (c *collector) mergeTailClass(s *series, kind, p int) bool {
	if c.path != "inpkg-measure" || (c.stage != "merged" && c.stage != "memmerged") {
		return false
	}
	if kind == kInt || kind == kFInt || kind == kFFloat {
		return false
	}
	return s.points() > 16385 && p >= 8192
}

func hasEscaped(w val) bool {
	for _, e := range w.SA {
		if strings.ContainsAny(e, "|\\") {
			return true
		}
	}
	return false
}

func (c *collector) outcome(kind int, w val) {
	k := kindName[kind] + "=" + short(canon(kind, w))
	if _, ok := c.seenValue[k]; !ok {
		c.seenValue[k] = struct{}{}
		c.Outcomes["returned-exact/"+kindName[kind]]++
	}
}

// nontrivial counts the (series, column) pairs whose column cannot be stored as one constant: at least two points
// that are not all the same value.
func nontrivial(d *dataset) int {
	n := 0
	for si := range d.ss {
		s := &d.ss[si]
		if s.points() < 2 {
			continue
		}
		for _, col := range d.cols {
			first := canon(col.Kind, d.val(s, col, 0))
			lim := s.points()
			if lim > 64 {
				lim = 64
			}
			for i := 1; i < lim; i++ {
				if canon(col.Kind, d.val(s, col, i)) != first {
					n++
					break
				}
			}
		}
	}
	return n
}

// sample records one actual case (a series in the middle of the dataset, its columns written out) per collector and path.
func (c *collector) sample(d *dataset) {
	if len(c.Samples) >= 2 || len(d.ss) == 0 {
		return
	}
	s := &d.ss[len(d.ss)/2]
	cols := map[string][]string{}
	n := s.points()
	if n > 4 {
		n = 4
	}
	for _, col := range d.cols {
		for i := 0; i < n; i++ {
			cols[col.id()] = append(cols[col.id()], short(canon(col.Kind, d.val(s, col, i))))
		}
	}
	c.Samples = append(c.Samples, map[string]any{"path": c.path, "dataset": d.name, "series": s, "points": s.points(), "first_points_per_column": cols})
}

func (c *collector) merge(o *collector) {
	for k, f := range o.Findings {
		if g, ok := c.Findings[k]; ok {
			g.N += f.N
		} else {
			c.Findings[k] = f
		}
	}
	for k, v := range o.Counts {
		c.Counts[k] += v
	}
	for k, v := range o.Outcomes {
		if strings.HasPrefix(k, "returned-exact/") {
			if v > c.Outcomes[k] {
				c.Outcomes[k] = v // per-worker distinct counts: keep the maximum (a lower bound of the union)
			}
		} else {
			c.Outcomes[k] += v
		}
	}
	c.Nontriv += o.Nontriv
	c.Dropped += o.Dropped
	c.Harness = append(c.Harness, o.Harness...)
	if len(c.Samples) < 8 {
		c.Samples = append(c.Samples, o.Samples...)
	}
}

func sortedKeys[V any](m map[string]V) []string {
	ks := make([]string, 0, len(m))
	for k := range m {
		ks = append(ks, k)
	}
	sort.Strings(ks)
	return ks
}
