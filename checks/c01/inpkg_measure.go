package main

// Seam (b), measure: real tsTable.mustAddDataPoints -> snapshot -> real query read path, memory part vs flushed part
// vs merged part (file merge and the flusher's memory-part merge).

import (
	"fmt"
	"os"
	"strconv"

	databasev1 "github.com/apache/skywalking-banyandb/api/proto/banyandb/database/v1"
	modelv1 "github.com/apache/skywalking-banyandb/api/proto/banyandb/model/v1"
	"github.com/apache/skywalking-banyandb/banyand/measure"
)

var tagTypeOf = map[int]databasev1.TagType{
	kStr: databasev1.TagType_TAG_TYPE_STRING, kInt: databasev1.TagType_TAG_TYPE_INT, kStrArr: databasev1.TagType_TAG_TYPE_STRING_ARRAY,
	kIntArr: databasev1.TagType_TAG_TYPE_INT_ARRAY, kBin: databasev1.TagType_TAG_TYPE_DATA_BINARY, kTime: databasev1.TagType_TAG_TYPE_TIMESTAMP,
}

var fieldTypeOf = map[int]databasev1.FieldType{
	kFInt: databasev1.FieldType_FIELD_TYPE_INT, kFFloat: databasev1.FieldType_FIELD_TYPE_FLOAT,
	kFStr: databasev1.FieldType_FIELD_TYPE_STRING, kFBin: databasev1.FieldType_FIELD_TYPE_DATA_BINARY,
}

func measureV1Schema(cols []colDef) *measure.V1Schema {
	s := &measure.V1Schema{}
	for _, c := range cols {
		if isField(c.Kind) {
			s.Fields = append(s.Fields, measure.V1Field{Name: c.Name, Type: fieldTypeOf[c.Kind]})
			continue
		}
		if n := len(s.Families); n == 0 || s.Families[n-1].Name != c.Fam {
			s.Families = append(s.Families, measure.V1Family{Name: c.Fam})
		}
		f := &s.Families[len(s.Families)-1]
		f.Tags = append(f.Tags, measure.V1Tag{Name: c.Name, Type: tagTypeOf[c.Kind]})
	}
	return s
}

var scratchSeq int

func scratchDir(tag string) string {
	scratchSeq++
	root := os.Getenv("C01_SCRATCH") // set by the parent, which removes it when the run ends (also after a worker crash)
	if root == "" {
		root = fmt.Sprintf("/dev/shm/verif-c01-%d", os.Getpid())
	}
	_ = os.MkdirAll(root, 0o755)
	d := fmt.Sprintf("%s/%d-%s-%d", root, os.Getpid(), tag, scratchSeq)
	_ = os.RemoveAll(d)
	return d
}

const inpkgT0 = int64(1_700_000_000_000_000_000)

// measurePoints builds the points of batch r of the dataset (nil when the batch is empty).
func measurePoints(d *dataset, r int) []measure.V1Point {
	var pts []measure.V1Point
	for si := range d.ss {
		s := &d.ss[si]
		for i := 0; i < s.points(); i++ {
			if s.batch(i) != r {
				continue
			}
			p := measure.V1Point{S: uint64(s.ID + 2), T: d.ts(i), Ver: 1}
			fam := ""
			for _, c := range d.cols {
				if isField(c.Kind) {
					p.Fields = append(p.Fields, toField(c.Kind, d.val(s, c, i)))
					continue
				}
				if len(p.Tags) == 0 || c.Fam != fam {
					p.Tags = append(p.Tags, nil)
					fam = c.Fam
				}
				p.Tags[len(p.Tags)-1] = append(p.Tags[len(p.Tags)-1], toTag(c.Kind, d.val(s, c, i)))
			}
			pts = append(pts, p)
		}
	}
	return pts
}

func maxRounds(d *dataset) int {
	m := 1
	for i := range d.ss {
		if r := d.ss[i].rounds(); r > m {
			m = r
		}
	}
	return m
}

// pointRanges: the single-point covering ranges judged for a dataset (point numbers).
func pointRanges(d *dataset) []int {
	mx := 0
	for i := range d.ss {
		if n := d.ss[i].points(); n > mx {
			mx = n
		}
	}
	if mx <= 4 {
		out := make([]int, mx)
		for i := range out {
			out[i] = i
		}
		return out
	}
	// long series: first row, the rows around the block limit, last row
	cand := []int{0, 8191, 8192, 8193, mx - 1}
	if len(d.ss) > 0 && d.ss[0].Gen == "len" {
		cand = []int{0, 2, 3, 130, 259} // the rows that hold the long values (4-row and 260-row series)
	}
	var out []int
	seen := map[int]bool{}
	for _, p := range cand {
		if p < mx && !seen[p] {
			seen[p] = true
			out = append(out, p)
		}
	}
	return out
}

type measureReader struct {
	t  *measure.VTable
	sc *measure.V1Schema
	d  *dataset
}

func (m *measureReader) run(c *collector, q query, byTS, desc, batch bool) {
	tp := map[string][]string{}
	var fp []string
	for _, ci := range q.Proj {
		col := m.d.cols[ci]
		if isField(col.Kind) {
			fp = append(fp, col.Name)
		} else {
			tp[col.Fam] = append(tp[col.Fam], col.Name)
		}
	}
	sids := make([]uint64, len(q.Sel))
	for i, id := range q.Sel {
		sids[i] = uint64(id + 2)
	}
	rows, err := m.t.V1Query(m.sc, measure.V1Query{Sids: sids, Min: q.Min, Max: q.Max, TagProj: tp, FieldProj: fp, ByTS: byTS, Desc: desc, Batch: batch})
	if err != nil {
		c.report(fmt.Sprintf("query-error path=%s:%s query=%s msg=%s", c.path, c.stage, q.Class, short(err.Error())),
			map[string]any{"dataset": m.d.name, "query": q, "series": &m.d.ss[q.Sel[0]]})
		return
	}
	got := make([]gotRow, len(rows))
	for i := range rows {
		got[i] = gotRow{sid: int(rows[i].S) - 2, t: rows[i].T, tags: rows[i].Tags, fields: rows[i].Fields}
	}
	c.judge(m.d, q, got)
}

func allCols(d *dataset) []int {
	out := make([]int, len(d.cols))
	for i := range out {
		out[i] = i
	}
	return out
}

const chunkSeries = 256

func chunks(n, size int) [][]int {
	var out [][]int
	for lo := 0; lo < n; lo += size {
		hi := lo + size
		if hi > n {
			hi = n
		}
		ch := make([]int, 0, hi-lo)
		for i := lo; i < hi; i++ {
			ch = append(ch, i)
		}
		out = append(out, ch)
	}
	return out
}

// fullCheck judges the covering queries / projections / readers of one stage. d.level: 2 = every covering range x
// every projection x every reader; 1 = all-column queries only; 0 = long series (full range, selected single-point
// ranges, three single-column projections).
func (m *measureReader) fullCheck(c *collector, stage string, upTo int) {
	c.stage = stage
	d := m.d
	lo, hi := int64(-1<<62), int64(1<<62)
	all := allCols(d)
	for _, sel := range chunks(len(d.ss), chunkSeries) {
		m.run(c, query{Class: "full/all/pull", Proj: all, Sel: sel, Min: lo, Max: hi, UpTo: upTo, Track: true}, false, false, false)
		m.run(c, query{Class: "full/all/batch", Proj: all, Sel: sel, Min: lo, Max: hi, UpTo: upTo}, false, false, true)
		if d.level >= 1 {
			m.run(c, query{Class: "full/all/pull-by-ts", Proj: all, Sel: sel, Min: lo, Max: hi, UpTo: upTo}, true, false, false)
		}
		for _, p := range pointRanges(d) {
			t := d.ts(p)
			m.run(c, query{Class: "point/all/pull", Proj: all, Sel: sel, Min: t, Max: t, UpTo: upTo}, false, false, false)
			if d.level >= 2 {
				m.run(c, query{Class: "point/all/batch", Proj: all, Sel: sel, Min: t, Max: t, UpTo: upTo}, false, false, true)
			}
		}
		for ci := range d.cols {
			if d.level == 1 || (d.level == 0 && ci%8 != 0) {
				continue
			}
			m.run(c, query{Class: "full/col=" + d.cols[ci].id() + "/pull", Proj: []int{ci}, Sel: sel, Min: lo, Max: hi, UpTo: upTo}, false, false, false)
			if d.level >= 2 {
				m.run(c, query{Class: "full/col=" + d.cols[ci].id() + "/batch", Proj: []int{ci}, Sel: sel, Min: lo, Max: hi, UpTo: upTo}, false, false, true)
			}
		}
	}
	for id := range d.ss {
		sel := []int{id}
		if d.level >= 1 {
			m.run(c, query{Class: "single/all/pull-asc", Proj: all, Sel: sel, Min: lo, Max: hi, UpTo: upTo}, true, false, false)
			m.run(c, query{Class: "single/all/batch", Proj: all, Sel: sel, Min: lo, Max: hi, UpTo: upTo}, true, false, true)
		}
		m.run(c, query{Class: "single/all/pull-desc", Proj: all, Sel: sel, Min: lo, Max: hi, UpTo: upTo}, true, true, false)
		if d.level >= 1 {
			m.run(c, query{Class: "single/all/batch-desc", Proj: all, Sel: sel, Min: lo, Max: hi, UpTo: upTo}, true, true, true)
		}
	}
}

var encName = map[int]string{1: "const", 2: "delta-const", 3: "delta", 4: "delta-of-delta", 9: "plain", 10: "dictionary", 109: "typed->plain", 110: "typed->dictionary"}

func noteEncodings(c *collector, t *measure.VTable, d *dataset, stage string) {
	sids := make([]uint64, len(d.ss))
	for i := range d.ss {
		sids[i] = uint64(d.ss[i].ID + 2)
	}
	for col, m := range t.V1Encodings(sids) {
		for et, n := range m {
			nm := encName[et]
			if nm == "" {
				nm = strconv.Itoa(et)
			}
			c.Outcomes["enc/"+stage+"/"+col+"/"+nm] += n
		}
	}
}

func dummyPoint(d *dataset) []measure.V1Point {
	p := measure.V1Point{S: 1, T: d.t0, Ver: 1}
	fam := ""
	for _, col := range d.cols {
		if isField(col.Kind) {
			p.Fields = append(p.Fields, &modelv1.FieldValue{Value: &modelv1.FieldValue_Null{}})
			continue
		}
		if len(p.Tags) == 0 || col.Fam != fam {
			p.Tags = append(p.Tags, nil)
			fam = col.Fam
		}
		p.Tags[len(p.Tags)-1] = append(p.Tags[len(p.Tags)-1], &modelv1.TagValue{Value: &modelv1.TagValue_Null{}})
	}
	return []measure.V1Point{p}
}

// runMeasureDataset drives one dataset through memory part(s) -> flushed parts -> merged part, and (multi-batch
// datasets) through the flusher's memory-part merge on a second table.
func runMeasureDataset(c *collector, d *dataset) {
	defer func() {
		if r := recover(); r != nil {
			c.report(fmt.Sprintf("panic path=%s:%s msg=%s", c.path, c.stage, short(fmt.Sprint(r))), map[string]any{"dataset": d.name, "series": &d.ss[0]})
		}
	}()
	sc := measureV1Schema(d.cols)
	rounds := maxRounds(d)
	all := allCols(d)
	c.sample(d)
	c.Nontriv += nontrivial(d)
	for variant := 0; variant < 2; variant++ {
		if variant == 1 && rounds < 2 {
			break
		}
		dir := scratchDir("m")
		t := measure.VOpen(dir, nil)
		m := &measureReader{t: t, sc: sc, d: d}
		for r := 0; r < rounds; r++ {
			pts := measurePoints(d, r)
			if len(pts) == 0 {
				continue
			}
			t.V1Write(sc, pts)
			c.Counts["batches"]++
			c.Counts["points_written"] += len(pts)
			if r < rounds-1 {
				c.stage = "mem"
				for _, sel := range chunks(len(d.ss), chunkSeries) {
					m.run(c, query{Class: "full/all/pull", Proj: all, Sel: sel, Min: -1 << 62, Max: 1 << 62, UpTo: r}, false, false, false)
				}
			}
		}
		if variant == 0 {
			m.fullCheck(c, "mem", rounds-1)
			noteEncodings(c, t, d, "mem")
			t.V1Write(sc, dummyPoint(d)) // a second part, so that a merge always has two inputs
			if !t.FlushA() || !t.FlushB() {
				c.Harness = append(c.Harness, "flush did not happen: "+d.name)
			}
			m.fullCheck(c, "flushed", rounds-1)
			if ids := t.FileParts(); len(ids) >= 2 {
				if !t.MergeA(ids) || !t.MergeB() {
					c.Harness = append(c.Harness, "merge did not happen: "+d.name)
				}
				if len(t.FileParts()) != 1 {
					c.Harness = append(c.Harness, fmt.Sprintf("merge left %d parts: %s", len(t.FileParts()), d.name))
				}
				m.fullCheck(c, "merged", rounds-1)
				noteEncodings(c, t, d, "merged")
			} else {
				c.Harness = append(c.Harness, "fewer than 2 file parts after flush: "+d.name)
			}
		} else {
			if !t.MemMergeA() || !t.MemMergeB() {
				c.Harness = append(c.Harness, "memory-part merge did not happen: "+d.name)
			}
			m.fullCheck(c, "memmerged", rounds-1)
		}
		for _, p := range t.V1Parts() {
			c.Outcomes[fmt.Sprintf("layout/mem=%v", p.Mem)]++
		}
		t.Close()
		_ = os.RemoveAll(dir)
	}
}
