package main

// Section "idxsort": the index-mode measure query ordered by an indexed tag merges the per-segment series-index hits
// (measure.buildIndexQueryResult -> segResult / segResultHeap -> indexSortResult.Pull). Only the segments' series index
// is faked (canned, already ordered hits); de-duplication of series present in several segments, the heap and Pull are
// the real code. Every distribution of <=4 (quick) / <=5 (thorough) series with sort values from {1,2,3} (duplicates
// included) over <=3 segments, every series in any non-empty subset of the segments, asc/desc.
// Oracle: every distinct series exactly once, sequence sorted by sort value, row carries its own entity value,
// every segment released exactly once.

import (
	"fmt"
	"sort"
	"strconv"
	"strings"

	"github.com/apache/skywalking-banyandb/banyand/measure"
)

// xSeries: series i+1 has sort value Val and is present in the segments of the bit set Segs (bit s = segment s).
type xSeries struct {
	Val  int64 `json:"val"`
	Segs int   `json:"segs"`
}

type xCase struct {
	Series []xSeries `json:"series"`
	Desc   bool      `json:"desc"`
	Got    string    `json:"got,omitempty"`
}

const xSegments = 3

func idxsortRun(c *xCase) (bad []string, got string) {
	defer func() {
		if p := recover(); p != nil {
			bad, got = []string{"panic"}, fmt.Sprint(p)
		}
	}()
	segs := make([][]measure.C09Hit, xSegments)
	val := map[uint64]int64{}
	for i, s := range c.Series {
		sid := uint64(i + 1)
		val[sid] = s.Val
		for g := 0; g < xSegments; g++ {
			if s.Segs&(1<<g) != 0 {
				segs[g] = append(segs[g], measure.C09Hit{SID: sid, SortValue: s.Val})
			}
		}
	}
	for g := range segs {
		h := segs[g]
		sort.SliceStable(h, func(i, j int) bool {
			if h[i].SortValue != h[j].SortValue {
				return h[i].SortValue < h[j].SortValue
			}
			return h[i].SID < h[j].SID
		})
		if c.Desc {
			for i, j := 0, len(h)-1; i < j; i, j = i+1, j-1 {
				h[i], h[j] = h[j], h[i]
			}
		}
	}
	sids, entity, decs, err := measure.C09IndexSort(segs, c.Desc)
	if err != nil {
		return []string{"query-error"}, err.Error()
	}
	add := func(s string) {
		for _, b := range bad {
			if b == s {
				return
			}
		}
		bad = append(bad, s)
	}
	seen := map[uint64]bool{}
	var gv []string
	for i, sid := range sids {
		v, ok := val[sid]
		if !ok {
			add("unknown-series-returned")
			gv = append(gv, "?")
			continue
		}
		gv = append(gv, strconv.FormatInt(v, 10))
		if seen[sid] {
			add("series-returned-twice")
		}
		seen[sid] = true
		if entity[i] != int64(sid) {
			add("row-carries-another-series-entity")
		}
		if i > 0 {
			if pv, ok := val[sids[i-1]]; ok && ((!c.Desc && pv > v) || (c.Desc && pv < v)) {
				add("not-in-sort-value-order")
			}
		}
	}
	if len(seen) < len(val) {
		add("series-missing")
	}
	if decs != xSegments {
		add("segment-not-released-exactly-once")
	}
	return bad, strings.Join(gv, ",")
}

func idxsortWorker(wi, wn int, thorough bool, res *wres) {
	maxN := 4
	if thorough {
		maxN = 5
	}
	idx := 0
	cur := make([]xSeries, 0, maxN)
	var rec func(n int, canonical bool)
	rec = func(n int, canonical bool) {
		if len(cur) == n {
			idx++
			if idx%wn != wi {
				return
			}
			res.Cases++
			multi := false
			used := 0
			for _, s := range cur {
				if s.Segs&(s.Segs-1) != 0 {
					multi = true
				}
				used |= s.Segs
			}
			for _, desc := range []bool{false, true} {
				c := &xCase{Series: append([]xSeries(nil), cur...), Desc: desc}
				bad, got := idxsortRun(c)
				res.Evals++
				if n >= 2 && used&(used-1) != 0 {
					res.Nontrivial++
				}
				res.outcome("idxsort:" + got)
				if res.Evals%50021 == 1 {
					c.Got = got
					res.sample(map[string]any{"section": "idxsort", "case": c})
				}
				for _, b := range bad {
					cc := *c
					cc.Got = got
					dir, shape := "asc", "series-in-one-segment-each"
					if desc {
						dir = "desc"
					}
					if multi {
						shape = "series-in-several-segments"
					}
					res.violation("idxsort/"+dir+"/"+b+"/"+shape, n, map[string]any{"section": "idxsort", "case": cc})
				}
			}
			return
		}
		lo := int64(1)
		if canonical && len(cur) > 0 {
			lo = cur[len(cur)-1].Val
		}
		for v := lo; v <= 3; v++ {
			for segs := 1; segs < 1<<xSegments; segs++ {
				cur = append(cur, xSeries{Val: v, Segs: segs})
				rec(n, canonical)
				cur = cur[:len(cur)-1]
			}
		}
	}
	for n := 1; n <= maxN; n++ {
		// up to 4 series: every assignment of sort values; 5 series: sort values non-decreasing in the series id
		rec(n, n == 5)
	}
}

func idxsortReplay(c *xCase) bool {
	bad, got := idxsortRun(c)
	fmt.Printf("idxsort case: series(val,segment-bits)=%v desc=%v\n  got sort values: %s\n  violated: %v\n", c.Series, c.Desc, got, bad)
	return len(bad) == 0
}
