package main

// Section "sidx": the ordered secondary index (banyand/internal/sidx) must return every matching entry within the
// requested key range exactly once, in key order, through StreamingQuery and QuerySync, whatever the distribution of
// the entries over parts and whatever the mem/flushed/merged state of the parts.

import (
	"context"
	"fmt"
	"os"
	"sort"
	"strconv"
	"strings"

	"github.com/apache/skywalking-banyandb/api/common"
	modelv1 "github.com/apache/skywalking-banyandb/api/proto/banyandb/model/v1"
	"github.com/apache/skywalking-banyandb/banyand/internal/sidx"
	"github.com/apache/skywalking-banyandb/banyand/protector"
	"github.com/apache/skywalking-banyandb/pkg/fs"
	"github.com/apache/skywalking-banyandb/pkg/index"
)

// sEntry is one index entry; its payload (Data) is "e<position in the list>" so every entry is distinguishable.
type sEntry struct {
	Key    int64  `json:"key"`
	Series uint64 `json:"series"`
	Part   int    `json:"part"`
}

// sCase is a replayable sidx case. Lo/Hi: -1 = unbounded (nil pointer), otherwise the bound.
type sCase struct {
	Entries []sEntry `json:"entries"`
	Layout  string   `json:"layout"` // one letter per part: m = memory part, f = flushed, g = flushed and merged with the other g parts
	Lo      int64    `json:"lo"`
	Hi      int64    `json:"hi"`
	Desc    bool     `json:"desc"`
	Batch   int      `json:"max_batch_size"`
	Mode    string   `json:"mode"` // stream | sync
	Series  []uint64 `json:"query_series"`
	// Labels (section sidxdup only): Labels[i] is the payload label of entry i ("p<label>"); entries with equal labels
	// carry byte-identical payloads. Empty = every entry has its own payload "e<i>".
	Labels []int  `json:"labels,omitempty"`
	Got    string `json:"got,omitempty"`
	Want   string `json:"want,omitempty"`
}

const sidxMaxKey = 4

var sidxFS = fs.NewLocalFileSystem()

func layoutsFor(parts int, full bool) []string {
	var out []string
	var rec func(p int, cur []byte)
	rec = func(p int, cur []byte) {
		if p == parts {
			g := 0
			for _, c := range cur {
				if c == 'g' {
					g++
				}
			}
			if g == 1 {
				return
			}
			out = append(out, string(cur))
			return
		}
		for _, c := range []byte("mfg") {
			rec(p+1, append(cur, c))
		}
	}
	rec(0, nil)
	if full {
		return out
	}
	// reduced set: all-mem, all-flushed, every layout with a merge
	var red []string
	for _, l := range out {
		if strings.Contains(l, "g") || !strings.Contains(l, "f") || !strings.Contains(l, "m") {
			red = append(red, l)
		}
	}
	return red
}

func payload(i int) []byte { return []byte("e" + strconv.Itoa(i)) }

func buildSidx(dir string, entries []sEntry, layout string) (sidx.SIDX, error) {
	return buildSidxP(dir, entries, layout, payload)
}

func buildSidxP(dir string, entries []sEntry, layout string, payload func(int) []byte) (sidx.SIDX, error) {
	s, err := sidx.NewSIDX(sidxFS, &sidx.Options{Path: dir, Memory: protector.Nop{}})
	if err != nil {
		return nil, err
	}
	flush := map[uint64]struct{}{}
	merge := map[uint64]struct{}{}
	for p := 0; p < len(layout); p++ {
		var reqs []sidx.WriteRequest
		for i, e := range entries {
			if e.Part == p {
				reqs = append(reqs, sidx.WriteRequest{SeriesID: common.SeriesID(e.Series), Key: e.Key, Data: payload(i)})
			}
		}
		if len(reqs) == 0 {
			return nil, fmt.Errorf("empty part %d", p)
		}
		mp, err := s.ConvertToMemPart(reqs, 1, nil, nil)
		if err != nil {
			return nil, err
		}
		id := uint64(p + 1)
		s.IntroduceMemPart(id, mp)
		if layout[p] != 'm' {
			flush[id] = struct{}{}
		}
		if layout[p] == 'g' {
			merge[id] = struct{}{}
		}
	}
	if len(flush) > 0 {
		fi, err := s.Flush(flush)
		if err != nil {
			return nil, err
		}
		s.IntroduceFlushed(fi)
		fi.Release()
	}
	if len(merge) > 0 {
		mi, err := s.Merge(make(chan struct{}), merge, uint64(len(layout)+1), nil)
		if err != nil {
			return nil, err
		}
		if mi == nil {
			return nil, fmt.Errorf("merge returned nil introduction")
		}
		s.IntroduceMerged(mi)()
		mi.Release()
	}
	return s, nil
}

type sRow struct {
	key  int64
	sid  uint64
	data string
}

// runSidxQuery returns the flattened rows, the batch lengths and an error text ("" if none).
func runSidxQuery(s sidx.SIDX, c *sCase) (rowsOut []sRow, lensOut []int, errText string) {
	defer func() {
		if p := recover(); p != nil {
			rowsOut, lensOut, errText = nil, nil, fmt.Sprintf("panic: %v", p)
		}
	}()
	req := sidx.QueryRequest{MaxBatchSize: c.Batch}
	for _, sid := range c.Series {
		req.SeriesIDs = append(req.SeriesIDs, common.SeriesID(sid))
	}
	if c.Lo >= 0 {
		lo := c.Lo
		req.MinKey = &lo
	}
	if c.Hi >= 0 {
		hi := c.Hi
		req.MaxKey = &hi
	}
	if c.Desc {
		req.Order = &index.OrderBy{Sort: modelv1.Sort_SORT_DESC}
	} else {
		req.Order = &index.OrderBy{Sort: modelv1.Sort_SORT_ASC}
	}
	var resps []*sidx.QueryResponse
	ctx := context.Background()
	if c.Mode == "sync" {
		r, err := s.QuerySync(ctx, req)
		if err != nil {
			return nil, nil, "error: " + err.Error()
		}
		resps = r
	} else {
		rc, ec := s.StreamingQuery(ctx, req)
		for r := range rc {
			resps = append(resps, r)
		}
		if err, ok := <-ec; ok && err != nil {
			return nil, nil, "error: " + err.Error()
		}
	}
	var rows []sRow
	var lens []int
	for _, r := range resps {
		if r == nil {
			return nil, nil, "nil response"
		}
		if r.Error != nil {
			return nil, nil, "response error: " + r.Error.Error()
		}
		if err := r.Validate(); err != nil {
			return nil, nil, "invalid response: " + err.Error()
		}
		lens = append(lens, r.Len())
		for i := range r.Keys {
			rows = append(rows, sRow{key: r.Keys[i], sid: uint64(r.SIDs[i]), data: string(r.Data[i])})
		}
	}
	return rows, lens, ""
}

func inRange(k, lo, hi int64) bool {
	return (lo < 0 || k >= lo) && (hi < 0 || k <= hi)
}

// sidxOracle returns the violated clauses (empty = ok) and the observed key sequence.
func sidxOracle(c *sCase, rows []sRow, lens []int, errText string) ([]string, string) {
	if strings.HasPrefix(errText, "panic: ") {
		return []string{"panic"}, errText
	}
	if errText != "" {
		return []string{"query-error"}, errText
	}
	var bad []string
	add := func(s string) {
		for _, b := range bad {
			if b == s {
				return
			}
		}
		bad = append(bad, s)
	}
	qs := map[uint64]bool{}
	for _, s := range c.Series {
		qs[s] = true
	}
	// reference: filter + sort
	var refKeys []int64
	want := map[string]int{} // payload -> index
	for i, e := range c.Entries {
		if qs[e.Series] && inRange(e.Key, c.Lo, c.Hi) {
			refKeys = append(refKeys, e.Key)
			want[string(payload(i))] = i
		}
	}
	sort.Slice(refKeys, func(i, j int) bool {
		if c.Desc {
			return refKeys[i] > refKeys[j]
		}
		return refKeys[i] < refKeys[j]
	})
	seen := map[string]int{}
	got := make([]string, 0, len(rows))
	for i, r := range rows {
		got = append(got, strconv.FormatInt(r.key, 10))
		idx, ok := want[r.data]
		switch {
		case !ok:
			if _, exists := lookupPayload(c, r.data); exists {
				add("out-of-range-entry-returned")
			} else {
				add("unknown-entry-returned")
			}
		default:
			if c.Entries[idx].Key != r.key {
				add("entry-with-wrong-key")
			}
			if c.Entries[idx].Series != r.sid {
				add("entry-with-wrong-series")
			}
		}
		seen[r.data]++
		if seen[r.data] == 2 {
			add("entry-returned-twice")
		}
		if i > 0 {
			if (!c.Desc && rows[i-1].key > r.key) || (c.Desc && rows[i-1].key < r.key) {
				add("not-in-key-order")
			}
		}
	}
	if len(rows) > 0 && len(refKeys) > 0 && rows[0].key != refKeys[0] {
		add("first-row-not-extreme")
	}
	full := c.Mode == "stream" || c.Batch == 0
	if full {
		for d := range want {
			if seen[d] == 0 {
				add("entry-missing")
				break
			}
		}
	} else {
		// QuerySync with MaxBatchSize>0 is a documented result budget (processSyncLoop): the scan stops once
		// MaxBatchSize distinct entries were collected. Judged as: at least min(MaxBatchSize, |matching|) entries,
		// and the returned entries are the leading part of the ordered reference (as a key multiset).
		need := c.Batch
		if len(refKeys) < need {
			need = len(refKeys)
		}
		if len(rows) < need {
			add("budget-result-too-short")
		}
		if len(rows) <= len(refKeys) {
			ks := make([]int64, len(rows))
			for i, r := range rows {
				ks[i] = r.key
			}
			sort.Slice(ks, func(i, j int) bool {
				if c.Desc {
					return ks[i] > ks[j]
				}
				return ks[i] < ks[j]
			})
			for i := range ks {
				if ks[i] != refKeys[i] {
					add("budget-result-not-a-prefix")
					break
				}
			}
		}
	}
	for _, l := range lens {
		if l == 0 {
			add("empty-batch")
		}
		if c.Batch > 0 && l > c.Batch {
			add("batch-larger-than-MaxBatchSize")
		}
	}
	return bad, strings.Join(got, ",")
}

func lookupPayload(c *sCase, d string) (int, bool) {
	if !strings.HasPrefix(d, "e") {
		return 0, false
	}
	i, err := strconv.Atoi(d[1:])
	if err != nil || i < 0 || i >= len(c.Entries) {
		return 0, false
	}
	return i, true
}

func refString(c *sCase) string {
	qs := map[uint64]bool{}
	for _, s := range c.Series {
		qs[s] = true
	}
	var ks []int64
	for _, e := range c.Entries {
		if qs[e.Series] && inRange(e.Key, c.Lo, c.Hi) {
			ks = append(ks, e.Key)
		}
	}
	sort.Slice(ks, func(i, j int) bool {
		if c.Desc {
			return ks[i] > ks[j]
		}
		return ks[i] < ks[j]
	})
	var sb []string
	for _, k := range ks {
		sb = append(sb, strconv.FormatInt(k, 10))
	}
	return strings.Join(sb, ",")
}

type blockSpan struct{ lo, hi int64 }

// scannedBlocks returns the raw key spans of the blocks (post-layout part x queried series) that the block scanner
// visits for the case's key range: one block per (part, series) at these sizes; a block is visited iff its raw span
// intersects [lo,hi].
func scannedBlocks(c *sCase) []blockSpan {
	type bk struct {
		part   int
		series uint64
	}
	spans := map[bk]*blockSpan{}
	qs := map[uint64]bool{}
	for _, s := range c.Series {
		qs[s] = true
	}
	var order []bk
	for _, e := range c.Entries {
		if !qs[e.Series] {
			continue
		}
		p := e.Part
		if c.Layout[p] == 'g' {
			p = 100
		}
		k := bk{p, e.Series}
		sp, ok := spans[k]
		if !ok {
			sp = &blockSpan{e.Key, e.Key}
			spans[k] = sp
			order = append(order, k)
		}
		if e.Key < sp.lo {
			sp.lo = e.Key
		}
		if e.Key > sp.hi {
			sp.hi = e.Key
		}
	}
	var out []blockSpan
	for _, k := range order {
		sp := spans[k]
		if (c.Lo >= 0 && sp.hi < c.Lo) || (c.Hi >= 0 && sp.lo > c.Hi) {
			continue
		}
		out = append(out, *sp)
	}
	return out
}

// blockShape classifies a case for the violation key of the order clauses:
//   - "overlapping-blocks" iff two scanned blocks have properly intersecting raw spans (neither lies entirely at or
//     below the other), i.e. emitting block after block cannot be globally ordered;
//   - "multi-scan-batch" iff the scanner needs more than one block batch (threshold = MaxBatchSize blocks, 32 if 0).
func blockShape(c *sCase) string {
	bl := scannedBlocks(c)
	shape := "disjoint-blocks"
	for i := range bl {
		for j := i + 1; j < len(bl); j++ {
			a, b := bl[i], bl[j]
			if !(a.hi <= b.lo || b.hi <= a.lo) {
				shape = "overlapping-blocks"
			}
		}
	}
	thr := c.Batch
	if thr <= 0 {
		thr = 32
	}
	if len(bl) > thr {
		return shape + "/multi-scan-batch"
	}
	return shape + "/single-scan-batch"
}

// sidxParams: datasets with <= fullN entries get the full parameter space of the tier; datasets with more entries (up
// to maxN) get the reduced one (quick ranges, reduced layouts, fewer series sets / batch sizes). Both are exhaustive
// products over the stated sets.
type sidxParams struct {
	maxN1, fullN1 int // one series
	maxN2, fullN2 int // two series
	fullLayouts   bool
}

func sidxParamsFor(thorough bool) sidxParams {
	if thorough {
		return sidxParams{maxN1: 6, fullN1: 5, maxN2: 4, fullN2: 3, fullLayouts: true}
	}
	return sidxParams{maxN1: 4, fullN1: 4, maxN2: 3, fullN2: 3, fullLayouts: false}
}

// enumDatasets calls f for every dataset: counts over cells (part, series, key) with total in 1..maxEntries,
// no empty part before a non-empty one, using exactly the series 1..nSeries (each at least once when nSeries==2).
func enumDatasets(maxEntries, nSeries int, f func(entries []sEntry, parts int)) {
	type cell struct {
		part   int
		series uint64
		key    int64
	}
	var cells []cell
	for p := 0; p < 3; p++ {
		for s := 1; s <= nSeries; s++ {
			for k := int64(1); k <= sidxMaxKey; k++ {
				cells = append(cells, cell{p, uint64(s), k})
			}
		}
	}
	cur := make([]sEntry, 0, maxEntries)
	var rec func(ci, left int)
	rec = func(ci, left int) {
		if ci == len(cells) {
			if len(cur) == 0 {
				return
			}
			cnt := [3]int{}
			ser := map[uint64]bool{}
			for _, e := range cur {
				cnt[e.Part]++
				ser[e.Series] = true
			}
			if (cnt[0] == 0 && (cnt[1] > 0 || cnt[2] > 0)) || (cnt[1] == 0 && cnt[2] > 0) {
				return
			}
			if len(ser) != nSeries {
				return
			}
			parts := 0
			for _, n := range cnt {
				if n > 0 {
					parts++
				}
			}
			f(cur, parts)
			return
		}
		for n := 0; n <= left; n++ {
			for j := 0; j < n; j++ {
				cur = append(cur, sEntry{Key: cells[ci].key, Series: cells[ci].series, Part: cells[ci].part})
			}
			rec(ci+1, left-n)
			cur = cur[:len(cur)-n]
		}
	}
	rec(0, maxEntries)
}

type rng struct{ lo, hi int64 }

// sidxRanges: thorough = lo,hi in {nil,0..5}; quick drops the redundant non-nil out-of-alphabet bounds on the open
// side (lo=0, hi=5 select the same entries as nil) but keeps the out-of-range and empty ranges (lo=5, hi=0).
func sidxRanges(thorough bool) []rng {
	var out []rng
	los := []int64{-1, 0, 1, 2, 3, 4, 5}
	his := []int64{-1, 0, 1, 2, 3, 4, 5}
	if !thorough {
		los = []int64{-1, 1, 2, 3, 4, 5}
		his = []int64{-1, 0, 1, 2, 3, 4}
	}
	for _, lo := range los {
		for _, hi := range his {
			if lo >= 0 && hi >= 0 && lo > hi {
				continue // rejected by QueryRequest.Validate
			}
			out = append(out, rng{lo, hi})
		}
	}
	return out
}

var sidxBatches = []int{0, 1, 2, 3}

// sidxWorker explores the datasets with index%wn==wi.
func sidxWorker(wi, wn int, thorough bool, base string, res *wres) {
	prm := sidxParamsFor(thorough)
	idx := 0
	seq := 0
	handle := func(entries []sEntry, parts int, series []uint64, fullN int) {
		idx++
		if idx%wn != wi || res.expired() {
			return
		}
		full := thorough && len(entries) <= fullN
		ranges := sidxRanges(full)
		batches := sidxBatches
		qsets := seriesSubsets(series, full)
		if thorough && !full {
			// the largest datasets of the thorough tier: bounded batch sizes only; two series: both series only
			batches = []int{1, 2, 3}
			if len(series) == 2 {
				qsets = [][]uint64{{2, 1}}
			}
		}
		ents := append([]sEntry(nil), entries...)
		for _, layout := range layoutsFor(parts, prm.fullLayouts && full) {
			seq++
			dir := fmt.Sprintf("%s/s%d", base, seq)
			s, err := buildSidx(dir, ents, layout)
			if err != nil {
				res.harnessErr(fmt.Sprintf("sidx build %v %s: %v", ents, layout, err))
				return
			}
			res.Cases++
			for _, qser := range qsets {
				for _, rg := range ranges {
					for _, desc := range []bool{false, true} {
						for _, b := range batches {
							for _, mode := range []string{"stream", "sync"} {
								c := &sCase{Entries: ents, Layout: layout, Lo: rg.lo, Hi: rg.hi, Desc: desc, Batch: b, Mode: mode, Series: qser}
								sidxEval(s, c, res)
							}
						}
					}
				}
			}
			_ = s.Close()
			_ = os.RemoveAll(dir)
		}
	}
	enumDatasets(prm.maxN1, 1, func(e []sEntry, p int) { handle(e, p, []uint64{1}, prm.fullN1) })
	enumDatasets(prm.maxN2, 2, func(e []sEntry, p int) { handle(e, p, []uint64{1, 2}, prm.fullN2) })
}

func seriesSubsets(series []uint64, thorough bool) [][]uint64 {
	if len(series) == 1 {
		return [][]uint64{{1}}
	}
	if !thorough {
		return [][]uint64{{2, 1}, {2}}
	}
	return [][]uint64{{1, 2}, {2, 1}, {2}}
}

// orderClauses are the oracle clauses about ordering; their violation key carries direction and block shape so that
// the class of a confirmed defect can be listed precisely in known_findings.json.
var orderClauses = map[string]bool{"not-in-key-order": true, "first-row-not-extreme": true, "budget-result-not-a-prefix": true}

func sidxKey(c *sCase, clause string) string {
	key := fmt.Sprintf("sidx/%s/%s", c.Mode, clause)
	if orderClauses[clause] {
		dir := "asc"
		if c.Desc {
			dir = "desc"
		}
		key += "/" + dir + "/" + blockShape(c)
	}
	return key
}

func sidxEval(s sidx.SIDX, c *sCase, res *wres) bool {
	rows, lens, errText := runSidxQuery(s, c)
	bad, got := sidxOracle(c, rows, lens, errText)
	res.Evals++
	ref := refString(c)
	if strings.Count(ref, ",") >= 1 && len(scannedBlocks(c)) >= 2 {
		res.Nontrivial++
	}
	res.outcome("sidx:" + got)
	if len(bad) == 0 {
		if res.Evals%100003 == 1 {
			cc := *c
			cc.Got = got
			res.sample(map[string]any{"section": "sidx", "case": cc})
		}
		return true
	}
	for _, b := range bad {
		cc := *c
		cc.Got, cc.Want = got, ref
		res.violation(sidxKey(c, b), len(c.Entries)*100+len(c.Layout)*10+c.Batch, map[string]any{"section": "sidx", "case": cc})
	}
	return false
}

func sidxReplay(c *sCase) bool {
	base, _ := os.MkdirTemp("/dev/shm", "c09r-")
	defer os.RemoveAll(base)
	s, err := buildSidx(base+"/s", c.Entries, c.Layout)
	if err != nil {
		fmt.Println("HARNESS-ERROR:", err)
		os.Exit(2)
	}
	defer s.Close()
	rows, lens, errText := runSidxQuery(s, c)
	bad, got := sidxOracle(c, rows, lens, errText)
	var keys []string
	for _, b := range bad {
		keys = append(keys, sidxKey(c, b))
	}
	fmt.Printf("sidx case: entries(key,series,part)=%v layout=%s range=[%d,%d] desc=%v batch=%d mode=%s series=%v\n  got keys:  %s (batches %v)\n  reference: %s\n  violated: %v\n",
		c.Entries, c.Layout, c.Lo, c.Hi, c.Desc, c.Batch, c.Mode, c.Series, got, lens, refString(c), keys)
	return len(bad) == 0
}
