package main

// Section "stream": the time-ordered stream query (tsResult.Pull of banyand/stream/query_by_ts.go, block scanner over
// the time-disjoint part groups of snapshot.getDisjointParts) on a real, loop-free stream tsTable. Parts are given by
// their time interval [a,b] (rows at a and at b; series alternate per part; element ids unique): every ordered
// arrangement of 1..3 intervals over timestamps 1..T (disjoint, chained, nested, nested-ending-early plus a third
// inside the wide one, identical, ...), thorough also every multiset of 4. Every time range, limits {1,2,3,100},
// asc/desc. A Pull returns at most `limit` rows of one part group, so the concatenation of all Pulls is judged:
// every returned row is a row of the table inside the range, no row twice, the whole concatenation is in time order,
// its first min(limit, matches) timestamps are the reference's, and with limit >= matches every row is there.

import (
	"fmt"
	"os"
	"sort"

	"github.com/apache/skywalking-banyandb/banyand/stream"
)

type tPart struct {
	A int64 `json:"a"`
	B int64 `json:"b"`
}

type tCase struct {
	Parts   []tPart `json:"parts"`
	Flushed bool    `json:"flushed"`
	MinTS   int64   `json:"min_ts"`
	MaxTS   int64   `json:"max_ts"`
	Limit   int     `json:"limit"`
	Desc    bool    `json:"desc"`
	Got     string  `json:"got,omitempty"`
	Want    string  `json:"want,omitempty"`
}

type tRow struct {
	series uint64
	ts     int64
	id     uint64
}

func streamRows(parts []tPart) [][]tRow {
	out := make([][]tRow, len(parts))
	for p, iv := range parts {
		s := uint64(p%2 + 1)
		out[p] = append(out[p], tRow{series: s, ts: iv.A, id: uint64(p*10 + 1)})
		if iv.B > iv.A {
			out[p] = append(out[p], tRow{series: s, ts: iv.B, id: uint64(p*10 + 2)})
		}
	}
	return out
}

func buildStream(dir string, parts []tPart, flushed bool) (*stream.V5STable, error) {
	t := stream.V5SOpen(dir, false)
	for _, rows := range streamRows(parts) {
		var vr []stream.V5SRow
		for _, r := range rows {
			vr = append(vr, stream.V5SRow{Series: r.series, TS: r.ts, ID: r.id, Val: int64(r.id)})
		}
		t.Write(vr)
	}
	if flushed {
		f := t.FlushA()
		if f == nil {
			t.Close()
			return nil, fmt.Errorf("nothing flushed")
		}
		t.FlushB(f)
		t.GC()
	}
	return t, nil
}

// streamGroups is the reference grouping (running maximum) of the parts overlapping the range; used only to label
// violation keys.
func streamGroups(c *tCase) int {
	var sel []tPart
	for _, p := range c.Parts {
		if p.B >= c.MinTS && p.A <= c.MaxTS {
			sel = append(sel, p)
		}
	}
	sort.Slice(sel, func(i, j int) bool { return sel[i].A < sel[j].A })
	groups := 0
	var boundary int64
	for i, p := range sel {
		if i == 0 || p.A > boundary {
			groups++
			boundary = p.B
		} else if p.B > boundary {
			boundary = p.B
		}
	}
	return groups
}

func streamRef(c *tCase) []int64 {
	var ks []int64
	for _, rows := range streamRows(c.Parts) {
		for _, r := range rows {
			if r.ts >= c.MinTS && r.ts <= c.MaxTS {
				ks = append(ks, r.ts)
			}
		}
	}
	sort.Slice(ks, func(i, j int) bool {
		if c.Desc {
			return ks[i] > ks[j]
		}
		return ks[i] < ks[j]
	})
	return ks
}

func streamRun(t *stream.V5STable, c *tCase) (bad []string, gotS string) {
	defer func() {
		if p := recover(); p != nil {
			bad, gotS = []string{"panic"}, fmt.Sprint(p)
		}
	}()
	rows, pulls, err := stream.C09TSQuery(t, []uint64{1, 2}, c.MinTS, c.MaxTS, c.Limit, c.Desc)
	if err != nil {
		return []string{"query-error"}, err.Error()
	}
	add := func(s string) {
		for _, b := range bad {
			if b == s {
				return
			}
		}
		bad = append(bad, s)
	}
	byID := map[uint64]tRow{}
	for _, rr := range streamRows(c.Parts) {
		for _, r := range rr {
			byID[r.id] = r
		}
	}
	ref := streamRef(c)
	seen := map[uint64]bool{}
	got := make([]int64, 0, len(rows))
	for i, r := range rows {
		got = append(got, r.TS)
		w, ok := byID[r.ID]
		switch {
		case !ok:
			add("unknown-row-returned")
		case w.ts != r.TS || w.series != r.Series:
			add("row-with-wrong-timestamp-or-series")
		case r.TS < c.MinTS || r.TS > c.MaxTS:
			add("row-outside-time-range-returned")
		}
		if seen[r.ID] {
			add("row-returned-twice")
		}
		seen[r.ID] = true
		if i > 0 && ((!c.Desc && rows[i-1].TS > r.TS) || (c.Desc && rows[i-1].TS < r.TS)) {
			add("not-in-time-order")
		}
	}
	k := c.Limit
	if len(ref) < k {
		k = len(ref)
	}
	if len(got) < k {
		add("fewer-rows-than-limit-and-matches")
	} else if joinInts(got[:k]) != joinInts(ref[:k]) {
		add("first-rows-not-the-extreme-window")
	}
	if c.Limit >= len(ref) && len(seen) < len(ref) && len(got) >= k {
		add("row-missing")
	}
	for _, n := range pulls {
		if n > c.Limit {
			add("pull-larger-than-limit")
		}
	}
	return bad, joinInts(got)
}

func intervals(t int64) []tPart {
	var out []tPart
	for a := int64(1); a <= t; a++ {
		for b := a; b <= t; b++ {
			out = append(out, tPart{a, b})
		}
	}
	return out
}

var streamLimits = []int{1, 2, 3, 100}

func streamBoundsText(thorough bool) string {
	if thorough {
		return "part intervals [a,b] over timestamps 1..6: every ordered arrangement of 1..3 parts, plus every multiset of 4 parts over 1..5; mem and flushed; time ranges 0<=min<=max<=T+1; limits {1,2,3,100}; asc/desc"
	}
	return "part intervals [a,b] over timestamps 1..5: every ordered arrangement of 1..3 parts; memory parts; time ranges 0<=min<=max<=6; limits {1,2,3,100}; asc/desc"
}

func streamWorker(wi, wn int, thorough bool, base string, res *wres) {
	idx, seq := 0, 0
	handle := func(parts []tPart, T int64) {
		idx++
		if idx%wn != wi || res.expired() {
			return
		}
		ps := append([]tPart(nil), parts...)
		layouts := []bool{false}
		if thorough {
			layouts = []bool{false, true}
		}
		for _, fl := range layouts {
			seq++
			dir := fmt.Sprintf("%s/t%d", base, seq)
			t, err := buildStream(dir, ps, fl)
			if err != nil {
				res.harnessErr(fmt.Sprintf("stream build %v: %v", ps, err))
				return
			}
			res.Cases++
			for lo := int64(0); lo <= T+1; lo++ {
				for hi := lo; hi <= T+1; hi++ {
					for _, desc := range []bool{false, true} {
						for _, lim := range streamLimits {
							streamEval(t, &tCase{Parts: ps, Flushed: fl, MinTS: lo, MaxTS: hi, Limit: lim, Desc: desc}, res)
						}
					}
				}
			}
			t.Close()
			_ = os.RemoveAll(dir)
		}
	}
	T := int64(5)
	if thorough {
		T = 6
	}
	ivs := intervals(T)
	var cur []tPart
	var rec func(n int)
	rec = func(n int) {
		if len(cur) == n {
			handle(cur, T)
			return
		}
		for _, iv := range ivs {
			cur = append(cur, iv)
			rec(n)
			cur = cur[:len(cur)-1]
		}
	}
	for n := 1; n <= 3; n++ {
		rec(n)
	}
	if thorough {
		iv5 := intervals(5)
		var rec4 func(start int)
		rec4 = func(start int) {
			if len(cur) == 4 {
				handle(cur, 5)
				return
			}
			for i := start; i < len(iv5); i++ {
				cur = append(cur, iv5[i])
				rec4(i)
				cur = cur[:len(cur)-1]
			}
		}
		rec4(0)
	}
}

func streamKey(c *tCase, clause string) string {
	dir := "asc"
	if c.Desc {
		dir = "desc"
	}
	key := "stream/" + dir + "/" + clause
	if clause == "not-in-time-order" || clause == "first-rows-not-the-extreme-window" {
		if streamGroups(c) > 1 {
			key += "/several-disjoint-part-groups"
		} else {
			key += "/one-part-group"
		}
	}
	return key
}

func streamEval(t *stream.V5STable, c *tCase, res *wres) {
	bad, got := streamRun(t, c)
	res.Evals++
	ref := streamRef(c)
	if len(ref) >= 2 && len(c.Parts) >= 2 {
		res.Nontrivial++
	}
	res.outcome("stream:" + got)
	if len(bad) == 0 {
		if res.Evals%50021 == 1 {
			cc := *c
			cc.Got = got
			res.sample(map[string]any{"section": "stream", "case": cc})
		}
		return
	}
	for _, b := range bad {
		cc := *c
		cc.Got, cc.Want = got, joinInts(ref)
		res.violation(streamKey(c, b), len(c.Parts)*1000+int(c.MaxTS-c.MinTS)*10+c.Limit%10, map[string]any{"section": "stream", "case": cc})
	}
}

func streamReplay(c *tCase) bool {
	base, _ := os.MkdirTemp("/dev/shm", "c09r-")
	defer os.RemoveAll(base)
	t, err := buildStream(base+"/t", c.Parts, c.Flushed)
	if err != nil {
		fmt.Println("HARNESS-ERROR:", err)
		os.Exit(2)
	}
	defer t.Close()
	bad, got := streamRun(t, c)
	var keys []string
	for _, b := range bad {
		keys = append(keys, streamKey(c, b))
	}
	fmt.Printf("stream case: part intervals=%v flushed=%v range=[%d,%d] limit=%d desc=%v\n  got ts:    %s\n  reference: %s\n  violated: %v\n",
		c.Parts, c.Flushed, c.MinTS, c.MaxTS, c.Limit, c.Desc, got, joinInts(streamRef(c)), keys)
	return len(bad) == 0
}
