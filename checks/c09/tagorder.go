package main

// Kind "mtagorder" of section "limit" (round 2, second extension): the cross-group k-way merge of a multi-group measure
// query ordered BY AN INDEXED TAG (not by time): real lmeasure.BuildSchema per group, real
// ResolveCrossGroupMergeOrder(request with OrderBy.IndexRuleName and a tag projection, schemas) and real
// MergeGroupMIterators over per-group streams whose data points have the PROJECTED layout (families and tags in
// projection order, as the per-group plans emit them). Enumerated: every tag projection that contains the order-by tag
// (every ordered selection of the tags of its family, the second family absent / before / after) plus "no projection",
// x every distribution of <=4 rows over 2 groups and <=3 rows over 3 groups x asc/desc. The other tags are
// anti-correlated with the order-by tag, so comparing any other column is visible. Oracle: the merged sequence is the
// sorted list of all rows (by the order-by tag), every row once, children closed once.

import (
	"sort"
	"strconv"
	"strings"
	"time"

	"google.golang.org/protobuf/types/known/timestamppb"

	commonv1 "github.com/apache/skywalking-banyandb/api/proto/banyandb/common/v1"
	databasev1 "github.com/apache/skywalking-banyandb/api/proto/banyandb/database/v1"
	measurev1 "github.com/apache/skywalking-banyandb/api/proto/banyandb/measure/v1"
	modelv1 "github.com/apache/skywalking-banyandb/api/proto/banyandb/model/v1"
	"github.com/apache/skywalking-banyandb/pkg/query/executor"
	"github.com/apache/skywalking-banyandb/pkg/query/logical"
	lmeasure "github.com/apache/skywalking-banyandb/pkg/query/logical/measure"
)

// schema layout: family "default" = [a (string, entity), k (int, indexed by rule "k_idx"), b (int)], family "f2" = [c (int)]
var tagOrderSchemaLayout = [][2]string{{"default", "a,k,b"}, {"f2", "c"}}

func tagOrderSchema(group string) (logical.Schema, error) {
	md := &databasev1.Measure{
		Metadata: &commonv1.Metadata{Name: "m", Group: group},
		Entity:   &databasev1.Entity{TagNames: []string{"a"}},
		TagFamilies: []*databasev1.TagFamilySpec{
			{Name: "default", Tags: []*databasev1.TagSpec{
				{Name: "a", Type: databasev1.TagType_TAG_TYPE_STRING},
				{Name: "k", Type: databasev1.TagType_TAG_TYPE_INT},
				{Name: "b", Type: databasev1.TagType_TAG_TYPE_INT},
			}},
			{Name: "f2", Tags: []*databasev1.TagSpec{{Name: "c", Type: databasev1.TagType_TAG_TYPE_INT}}},
		},
		Fields: []*databasev1.FieldSpec{{Name: "v", FieldType: databasev1.FieldType_FIELD_TYPE_INT}},
	}
	rules := []*databasev1.IndexRule{{
		Metadata: &commonv1.Metadata{Name: "k_idx", Group: group, Id: 1},
		Tags:     []string{"k"},
		Type:     databasev1.IndexRule_TYPE_INVERTED,
	}}
	return lmeasure.BuildSchema(md, rules)
}

// tagOrderProjections: "none", or "fam:t1,t2;fam2:t3" in projection order; always contains default:...k...
func tagOrderProjections() []string {
	var defs []string
	others := []string{"a", "b"}
	for mask := 0; mask < 4; mask++ {
		set := []string{"k"}
		for i, o := range others {
			if mask&(1<<i) != 0 {
				set = append(set, o)
			}
		}
		sort.Strings(set)
		permute(set, func(p []string) { defs = append(defs, "default:"+strings.Join(p, ",")) })
	}
	out := []string{"none"}
	for _, d := range defs {
		out = append(out, d, "f2:c;"+d, d+";f2:c")
	}
	return out
}

func permute(s []string, f func([]string)) {
	var rec func(i int)
	rec = func(i int) {
		if i == len(s) {
			f(append([]string(nil), s...))
			return
		}
		for j := i; j < len(s); j++ {
			s[i], s[j] = s[j], s[i]
			rec(i + 1)
			s[i], s[j] = s[j], s[i]
		}
	}
	rec(0)
}

func parseProjection(spec string) [][2]string {
	if spec == "none" {
		return tagOrderSchemaLayout
	}
	var out [][2]string
	for _, f := range strings.Split(spec, ";") {
		nv := strings.SplitN(f, ":", 2)
		out = append(out, [2]string{nv[0], nv[1]})
	}
	return out
}

func intTag(name string, v int64) *modelv1.Tag {
	return &modelv1.Tag{Key: name, Value: &modelv1.TagValue{Value: &modelv1.TagValue_Int{Int: &modelv1.Int{Value: v}}}}
}

func tagOrderPoint(r lrow, layout [][2]string) *measurev1.InternalDataPoint {
	var tfs []*modelv1.TagFamily
	for _, f := range layout {
		tf := &modelv1.TagFamily{Name: f[0]}
		for _, t := range strings.Split(f[1], ",") {
			switch t {
			case "k":
				tf.Tags = append(tf.Tags, intTag("k", int64(r.key)))
			case "a":
				tf.Tags = append(tf.Tags, &modelv1.Tag{Key: "a", Value: &modelv1.TagValue{Value: &modelv1.TagValue_Str{Str: &modelv1.Str{Value: string(rune('z' - r.key))}}}})
			default: // b, c: anti-correlated ints
				tf.Tags = append(tf.Tags, intTag(t, int64(9-r.key)))
			}
		}
		tfs = append(tfs, tf)
	}
	return &measurev1.InternalDataPoint{DataPoint: &measurev1.DataPoint{
		Sid: uint64(r.id), Version: 1, TagFamilies: tfs,
		// distinct timestamps, anti-correlated with the key inside a group as far as possible
		Timestamp: timestamppb.New(time.Unix(int64(1000-r.key*10-r.id), 0)),
	}}
}

func runMTagOrder(c *lCase) ([]string, string) {
	per, all := childRows(c)
	var sortV modelv1.Sort = modelv1.Sort_SORT_ASC
	if c.Desc {
		sortV = modelv1.Sort_SORT_DESC
	}
	req := &measurev1.QueryRequest{Name: "m", OrderBy: &modelv1.QueryOrder{IndexRuleName: "k_idx", Sort: sortV}}
	layout := parseProjection(c.Mode)
	if c.Mode != "none" {
		tp := &modelv1.TagProjection{}
		for _, f := range layout {
			tp.TagFamilies = append(tp.TagFamilies, &modelv1.TagProjection_TagFamily{Name: f[0], Tags: strings.Split(f[1], ",")})
		}
		req.TagProjection = tp
	}
	var ss []logical.Schema
	for i := range per {
		g := "g" + strconv.Itoa(i+1)
		req.Groups = append(req.Groups, g)
		s, err := tagOrderSchema(g)
		if err != nil {
			return []string{"harness:" + err.Error()}, ""
		}
		ss = append(ss, s)
	}
	order, err := lmeasure.ResolveCrossGroupMergeOrder(req, ss)
	if err != nil {
		return []string{"order-not-resolved"}, err.Error()
	}
	var iters []executor.MIterator
	var fakes []*fakeMIter
	for _, rows := range per {
		f := &fakeMIter{}
		for _, r := range rows {
			f.rows = append(f.rows, tagOrderPoint(r, layout))
		}
		fakes = append(fakes, f)
		iters = append(iters, f)
	}
	it := lmeasure.MergeGroupMIterators(iters, order)
	var got []lrow
	for it.Next() {
		cur := it.Current()
		if len(cur) != 1 {
			return []string{"current-not-one-row"}, ""
		}
		dp := cur[0].GetDataPoint()
		key := -1
		for _, tf := range dp.GetTagFamilies() {
			for _, t := range tf.GetTags() {
				if t.GetKey() == "k" {
					key = int(t.GetValue().GetInt().GetValue())
				}
			}
		}
		got = append(got, lrow{key: key, id: int(dp.Sid)})
		if len(got) > len(all)+2 {
			return []string{"does-not-terminate"}, ""
		}
	}
	bad := judgeWindow(got, all, refWindow(all, c.Desc, 0, len(all)))
	for i, b := range bad {
		if b == "window-has-wrong-rows" {
			bad[i] = "not-in-order-of-the-indexed-tag"
		}
	}
	_ = it.Close()
	for _, f := range fakes {
		if f.closed != 1 {
			bad = append(bad, "child-not-closed-exactly-once")
			break
		}
	}
	gk := make([]int, len(got))
	for i, r := range got {
		gk[i] = r.key
	}
	return bad, intsStr(gk)
}

// tagOrderKeyMode: the violation key names the projection shape, not the exact projection.
func tagOrderKeyMode(spec string) string {
	if spec == "none" {
		return "no-projection"
	}
	layout := parseProjection(spec)
	fi, ti := -1, -1
	for i, f := range layout {
		for j, t := range strings.Split(f[1], ",") {
			if t == "k" {
				fi, ti = i, j
			}
		}
	}
	if fi == 0 && ti == 1 {
		return "order-tag-at-its-schema-position"
	}
	return "order-tag-projected-to-another-position"
}

func tagOrderWorker(wi, wn int, res *wres, idx *int) {
	projs := tagOrderProjections()
	for k := 2; k <= 3; k++ {
		mi := 4
		if k == 3 {
			mi = 3
		}
		enumChildren(k, mi, func(children [][]int, n int) {
			*idx++
			if *idx%wn != wi || n == 0 {
				return
			}
			res.Cases++
			for _, desc := range []bool{false, true} {
				for _, p := range projs {
					limitEval(&lCase{Kind: "mtagorder", Children: children, Desc: desc, Offset: 0, Limit: n, Mode: p}, n+k, res)
				}
			}
		})
	}
}
