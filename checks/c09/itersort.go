package main

// Section "itersort": pkg/iter/sort.NewItemIter (heap k-way merge used by the measure/stream merge plans and the
// distributed coordinators) over every distribution of <=6 items (keys 1..4, duplicates included) over 1..3 sorted
// input iterators (empty ones included), ascending and descending.

import (
	"fmt"
	"strconv"
	"strings"

	itersort "github.com/apache/skywalking-banyandb/pkg/iter/sort"
)

type isItem struct {
	key byte
	id  int
}

func (i isItem) SortedField() []byte { return []byte{i.key} }

type isIter struct {
	items  []isItem
	pos    int
	closed int
}

func (it *isIter) Next() bool {
	if it.pos >= len(it.items) {
		return false
	}
	it.pos++
	return true
}
func (it *isIter) Val() isItem  { return it.items[it.pos-1] }
func (it *isIter) Close() error { it.closed++; return nil }

// isCase: Iters[i] = keys of iterator i in ascending order (reversed for desc before use).
type isCase struct {
	Iters [][]int `json:"iters"`
	Desc  bool    `json:"desc"`
	Got   string  `json:"got,omitempty"`
}

func itersortRun(c *isCase) (bad []string, gotS string) {
	defer func() {
		if p := recover(); p != nil {
			bad, gotS = []string{"panic"}, fmt.Sprint(p)
		}
	}()
	var iters []itersort.Iterator[isItem]
	var raw []*isIter
	id := 0
	total := 0
	counts := map[byte]int{}
	for _, ks := range c.Iters {
		it := &isIter{}
		for _, k := range ks {
			it.items = append(it.items, isItem{key: byte(k), id: id})
			id++
			counts[byte(k)]++
			total++
		}
		if c.Desc {
			for i, j := 0, len(it.items)-1; i < j; i, j = i+1, j-1 {
				it.items[i], it.items[j] = it.items[j], it.items[i]
			}
		}
		raw = append(raw, it)
		iters = append(iters, it)
	}
	m := itersort.NewItemIter[isItem](iters, c.Desc)
	add := func(s string) {
		for _, b := range bad {
			if b == s {
				return
			}
		}
		bad = append(bad, s)
	}
	seen := map[int]bool{}
	var got []string
	var prev byte
	n := 0
	for m.Next() {
		v := m.Val()
		got = append(got, strconv.Itoa(int(v.key)))
		if seen[v.id] {
			add("item-returned-twice")
		}
		seen[v.id] = true
		if n > 0 && ((!c.Desc && v.key < prev) || (c.Desc && v.key > prev)) {
			add("not-in-order")
		}
		prev = v.key
		n++
		if n > total+3 {
			add("does-not-terminate")
			break
		}
	}
	if len(seen) < total {
		add("item-missing")
	}
	if m.Next() {
		add("next-true-after-exhaustion")
	}
	_ = m.Close()
	for _, it := range raw {
		if it.closed != 1 {
			add("input-iterator-not-closed-exactly-once")
		}
	}
	return bad, strings.Join(got, ",")
}

func itersortWorker(wi, wn int, _ bool, res *wres) {
	idx := 0
	for k := 1; k <= 3; k++ {
		// counts over cells (iter, key), total 0..6
		cells := k * 4
		cnt := make([]int, cells)
		var rec func(ci, left int)
		rec = func(ci, left int) {
			if ci == cells {
				idx++
				if idx%wn != wi {
					return
				}
				for _, desc := range []bool{false, true} {
					c := &isCase{Desc: desc}
					nonEmpty := 0
					for i := 0; i < k; i++ {
						var ks []int
						for key := 0; key < 4; key++ {
							for j := 0; j < cnt[i*4+key]; j++ {
								ks = append(ks, key+1)
							}
						}
						if len(ks) > 0 {
							nonEmpty++
						}
						c.Iters = append(c.Iters, ks)
					}
					bad, got := itersortRun(c)
					res.Evals++
					res.Cases++
					if nonEmpty >= 2 {
						res.Nontrivial++
					}
					res.outcome("itersort:" + got)
					if res.Evals%20011 == 1 {
						cc := *c
						cc.Got = got
						res.sample(map[string]any{"section": "itersort", "case": cc})
					}
					for _, b := range bad {
						cc := *c
						cc.Got = got
						dir := "asc"
						if desc {
							dir = "desc"
						}
						res.violation("itersort/"+dir+"/"+b, 6-left+k, map[string]any{"section": "itersort", "case": cc})
					}
				}
				return
			}
			for n := 0; n <= left; n++ {
				cnt[ci] = n
				rec(ci+1, left-n)
			}
			cnt[ci] = 0
		}
		rec(0, 6)
	}
}

func itersortReplay(c *isCase) bool {
	bad, got := itersortRun(c)
	fmt.Printf("itersort case: iters=%v desc=%v\n  got: %s\n  violated: %v\n", c.Iters, c.Desc, got, bad)
	return len(bad) == 0
}
