package main

// Section "sresult" (round 2, second extension): the per-worker shard accumulator of the time-ordered stream query.
// tsResult.runTabScanner (banyand/stream/query_by_ts.go) keeps one model.StreamResult per worker across Pulls:
//
//	Pull:  shards[w].Reset() (or NewStreamResult on the first Pull)
//	       for every block batch handed to worker w:  shards[w].CopyFrom(tmp[w], blockHeap.merge(limit))
//	       return MergeStreamResults(shards, limit, asc)
//
// This section replays exactly that protocol on the real pkg/query/model code for EVERY history of block-batch
// results: every sequence of <=B batches (each an ordered run of rows over a small timestamp alphabet, truncated to
// the limit as blockCursorHeap.merge does), every assignment of the batches to 2 workers, every split of the sequence
// into consecutive Pulls, every limit and both directions. Each Pull must return the ordered top-`limit` window of
// the rows of ITS batches.

import (
	"fmt"
	"sort"
	"strconv"
	"strings"

	"github.com/apache/skywalking-banyandb/api/common"
	modelv1 "github.com/apache/skywalking-banyandb/api/proto/banyandb/model/v1"
	"github.com/apache/skywalking-banyandb/pkg/query/model"
)

type rBatch struct {
	Worker int     `json:"worker"`
	TS     []int64 `json:"ts"` // ascending; element ids are assigned in history order (1,2,...)
}

// rCase is a replayable history: Pulls[p] = the batches of Pull p in arrival order.
type rCase struct {
	Pulls   [][]rBatch `json:"pulls"`
	TopN    int        `json:"limit"`
	Desc    bool       `json:"desc"`
	Workers int        `json:"workers"`
	Got     string     `json:"got,omitempty"`
	Want    string     `json:"want,omitempty"`
}

type rRow struct {
	ts  int64
	id  uint64
	sid uint64
}

func rTag(id uint64) *modelv1.TagValue {
	return &modelv1.TagValue{Value: &modelv1.TagValue_Int{Int: &modelv1.Int{Value: int64(id) * 7}}}
}

// rBatchResult builds what blockCursorHeap.merge(limit) returns for a batch: rows in query direction, at most limit.
func rBatchResult(rows []rRow, desc bool, limit int) *model.StreamResult {
	rs := append([]rRow(nil), rows...)
	sort.SliceStable(rs, func(i, j int) bool {
		if desc {
			return rs[i].ts > rs[j].ts
		}
		return rs[i].ts < rs[j].ts
	})
	if len(rs) > limit {
		rs = rs[:limit]
	}
	res := &model.StreamResult{TagFamilies: []model.TagFamily{{Name: "f", Tags: []model.Tag{{Name: "t"}}}}}
	for _, r := range rs {
		res.Timestamps = append(res.Timestamps, r.ts)
		res.ElementIDs = append(res.ElementIDs, r.id)
		res.SIDs = append(res.SIDs, common.SeriesID(r.sid))
		res.TagFamilies[0].Tags[0].Values = append(res.TagFamilies[0].Tags[0].Values, rTag(r.id))
	}
	return res
}

// rShape: what distinguishes the accumulator paths: is it the first Pull, and how many batches the busiest worker got.
func rShape(c *rCase, pull int) string {
	cnt := map[int]int{}
	mx := 0
	for _, b := range c.Pulls[pull] {
		cnt[b.Worker]++
		if cnt[b.Worker] > mx {
			mx = cnt[b.Worker]
		}
	}
	w := "one-batch-per-worker"
	if mx == 2 {
		w = "two-batches-on-a-worker"
	} else if mx > 2 {
		w = "three-or-more-batches-on-a-worker"
	}
	if pull == 0 {
		return "first-pull/" + w
	}
	return "later-pull/" + w
}

// runSResult replays the history; returns violated "clause/shape" strings, got and want (per Pull, ';'-separated).
func runSResult(c *rCase) (bad []string, got, want string) {
	add := func(s string) {
		for _, b := range bad {
			if b == s {
				return
			}
		}
		bad = append(bad, s)
	}
	asc := !c.Desc
	var shards []*model.StreamResult
	nextID := uint64(1)
	var gotL, wantL []string
	for p := range c.Pulls {
		shape := rShape(c, p)
		var rows []rRow
		known := map[uint64]rRow{}
		var merged *model.StreamResult
		panicked := func() (pv any) {
			defer func() { pv = recover() }()
			if shards == nil {
				shards = make([]*model.StreamResult, c.Workers)
				for i := range shards {
					shards[i] = model.NewStreamResult(c.TopN, asc)
				}
			} else {
				for i := range shards {
					shards[i].Reset()
				}
			}
			tmp := make([]*model.StreamResult, c.Workers)
			for i := range tmp {
				tmp[i] = model.NewStreamResult(c.TopN, asc)
			}
			for _, b := range c.Pulls[p] {
				var br []rRow
				for _, ts := range b.TS {
					r := rRow{ts: ts, id: nextID, sid: nextID%2 + 1}
					nextID++
					br = append(br, r)
					rows = append(rows, r)
					known[r.id] = r
				}
				shards[b.Worker].CopyFrom(tmp[b.Worker], rBatchResult(br, c.Desc, c.TopN))
			}
			merged = model.MergeStreamResults(shards, c.TopN, asc)
			return nil
		}()
		// reference window of this Pull
		sort.SliceStable(rows, func(i, j int) bool {
			if c.Desc {
				return rows[i].ts > rows[j].ts
			}
			return rows[i].ts < rows[j].ts
		})
		n := len(rows)
		if n > c.TopN {
			n = c.TopN
		}
		ws := make([]string, n)
		for i := 0; i < n; i++ {
			ws[i] = strconv.FormatInt(rows[i].ts, 10)
		}
		wantL = append(wantL, strings.Join(ws, ","))
		if panicked != nil {
			add("panic/" + shape)
			gotL = append(gotL, fmt.Sprintf("panic: %v", panicked))
			break // the shards are in an undefined state
		}
		gs := make([]string, merged.Len())
		seen := map[uint64]bool{}
		consistent := merged.Len() == 0 || len(merged.ElementIDs) == merged.Len() && len(merged.SIDs) == merged.Len() &&
			len(merged.TagFamilies) == 1 && len(merged.TagFamilies[0].Tags) == 1 && len(merged.TagFamilies[0].Tags[0].Values) == merged.Len()
		if !consistent {
			add("result-columns-of-different-length/" + shape)
		}
		for i, ts := range merged.Timestamps {
			gs[i] = strconv.FormatInt(ts, 10)
			if i > 0 && ((!c.Desc && merged.Timestamps[i-1] > ts) || (c.Desc && merged.Timestamps[i-1] < ts)) {
				add("not-in-time-order/" + shape)
			}
			if !consistent {
				continue
			}
			id := merged.ElementIDs[i]
			r, ok := known[id]
			switch {
			case !ok:
				add("row-not-of-this-pull/" + shape)
			case r.ts != ts || uint64(merged.SIDs[i]) != r.sid || merged.TagFamilies[0].Tags[0].Values[i].GetInt().GetValue() != int64(id)*7:
				add("row-with-wrong-values/" + shape)
			}
			if seen[id] {
				add("row-returned-twice/" + shape)
			}
			seen[id] = true
		}
		g := strings.Join(gs, ",")
		gotL = append(gotL, g)
		if g != wantL[p] {
			if merged.Len() < n {
				add("pull-shorter-than-window/" + shape)
			} else if merged.Len() > n {
				add("pull-longer-than-limit/" + shape)
			} else {
				add("pull-not-the-extreme-window/" + shape)
			}
		}
	}
	return bad, strings.Join(gotL, ";"), strings.Join(wantL, ";")
}

type sresultParams struct {
	maxTS    int64
	maxBatch int // batches per history
	maxPulls int
}

func sresultParamSets(thorough bool) []sresultParams {
	if thorough {
		return []sresultParams{{maxTS: 4, maxBatch: 4, maxPulls: 3}, {maxTS: 2, maxBatch: 5, maxPulls: 3}}
	}
	return []sresultParams{{maxTS: 3, maxBatch: 4, maxPulls: 2}}
}

func sresultBoundsText(thorough bool) string {
	var sb []string
	for _, p := range sresultParamSets(thorough) {
		sb = append(sb, fmt.Sprintf("every sequence of <=%d batch results (1..2 rows each, timestamps 1..%d, unique element ids), every assignment to 2 workers (first batch on worker 0), every split into <=%d consecutive Pulls", p.maxBatch, p.maxTS, p.maxPulls))
	}
	return strings.Join(sb, "; plus ") + "; limits {1,2,3,100}; asc/desc"
}

var sresultLimits = []int{1, 2, 3, 100}

// batchContents: non-empty multisets of <=2 timestamps over 1..maxTS (ascending).
func batchContents(maxTS int64) [][]int64 {
	var out [][]int64
	for a := int64(1); a <= maxTS; a++ {
		out = append(out, []int64{a})
	}
	for a := int64(1); a <= maxTS; a++ {
		for b := a; b <= maxTS; b++ {
			out = append(out, []int64{a, b})
		}
	}
	return out
}

// splits calls f with every composition of n items into <=maxParts consecutive non-empty groups (as group sizes).
func splits(n, maxParts int, f func(sizes []int)) {
	var cur []int
	var rec func(left int)
	rec = func(left int) {
		if left == 0 {
			f(cur)
			return
		}
		if len(cur) == maxParts {
			return
		}
		for s := 1; s <= left; s++ {
			cur = append(cur, s)
			rec(left - s)
			cur = cur[:len(cur)-1]
		}
	}
	rec(n)
}

func sresultWorker(wi, wn int, thorough bool, res *wres) {
	idx := 0
	for _, prm := range sresultParamSets(thorough) {
		contents := batchContents(prm.maxTS)
		var seq []rBatch
		var rec func()
		handle := func() {
			idx++
			if idx%wn != wi {
				return
			}
			res.Cases++
			splits(len(seq), prm.maxPulls, func(sizes []int) {
				var pulls [][]rBatch
				at := 0
				for _, s := range sizes {
					pulls = append(pulls, append([]rBatch(nil), seq[at:at+s]...))
					at += s
				}
				for _, lim := range sresultLimits {
					for _, desc := range []bool{false, true} {
						sresultEval(&rCase{Pulls: pulls, TopN: lim, Desc: desc, Workers: 2}, res)
					}
				}
			})
		}
		rec = func() {
			if len(seq) > 0 {
				handle()
			}
			if len(seq) == prm.maxBatch {
				return
			}
			for _, ct := range contents {
				for w := 0; w < 2; w++ {
					if len(seq) == 0 && w > 0 {
						continue // workers are interchangeable before the first batch
					}
					seq = append(seq, rBatch{Worker: w, TS: ct})
					rec()
					seq = seq[:len(seq)-1]
				}
			}
		}
		rec()
	}
}

func sresultEval(c *rCase, res *wres) bool {
	bad, got, want := runSResult(c)
	res.Evals++
	nb, nr := 0, 0
	for p := range c.Pulls {
		if strings.Contains(rShape(c, p), "one-batch-per-worker") {
			continue
		}
		nb++
		for _, b := range c.Pulls[p] {
			nr += len(b.TS)
		}
	}
	if nb > 0 && nr >= 2 {
		res.Nontrivial++
	}
	res.outcome("sresult:" + got)
	if len(bad) == 0 {
		if res.Evals%50021 == 1 {
			cc := *c
			cc.Got = got
			res.sample(map[string]any{"section": "sresult", "case": cc})
		}
		return true
	}
	dir := "asc"
	if c.Desc {
		dir = "desc"
	}
	size := 0
	for _, p := range c.Pulls {
		size += 10
		for _, b := range p {
			size += 100 + len(b.TS)
		}
	}
	for _, b := range bad {
		cc := *c
		cc.Got, cc.Want = got, want
		res.violation("sresult/"+dir+"/"+b, size, map[string]any{"section": "sresult", "case": cc})
	}
	return false
}

func sresultReplay(c *rCase) bool {
	if c.Workers <= 0 {
		c.Workers = 2
	}
	bad, got, want := runSResult(c)
	fmt.Printf("sresult case: pulls=%v limit=%d desc=%v workers=%d\n  got per pull:  %s\n  reference:     %s\n  violated: %v\n",
		c.Pulls, c.TopN, c.Desc, c.Workers, got, want, bad)
	return len(bad) == 0
}
