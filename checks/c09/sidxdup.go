package main

// Section "sidxdup" (round 2, second extension): sidx datasets in which several entries carry the SAME payload (for
// traces: several spans of one trace id, at different keys, in the same or in different blocks/parts/series). sidx
// de-duplicates equal payloads inside a block and inside a merge, so "exactly once" is not decided by entry identity
// here; what the property text still demands is judged:
//
//   - every returned row is a stored (payload, key, series) triple of a queried series with its key inside the range;
//   - no stored triple is returned more often than it is stored;
//   - the key sequence is monotone in the requested direction (same keys / known shape as section sidx);
//   - every payload that has AT LEAST ONE entry of a queried series inside [MinKey,MaxKey] is returned at least once
//     (StreamingQuery, and QuerySync without budget); QuerySync with a budget returns at least
//     min(MaxBatchSize, #matching payloads) distinct payloads;
//   - no empty batch, no batch above MaxBatchSize, no error, no panic.
//
// Which of several in-range occurrences of a payload survives de-duplication is NOT judged (the property text does
// not say), and therefore neither "first row is the extreme" nor the budget prefix clause.

import (
	"fmt"
	"os"
	"sort"
	"strconv"
	"strings"
)

func dupPayloadOf(c *sCase) func(int) []byte {
	return func(i int) []byte { return []byte("p" + strconv.Itoa(c.Labels[i])) }
}

// labelings: restricted-growth strings of length n with at least one repeated label.
func labelings(n int) [][]int {
	var out [][]int
	cur := make([]int, 0, n)
	var rec func(mx int)
	rec = func(mx int) {
		if len(cur) == n {
			if mx+1 < n {
				out = append(out, append([]int(nil), cur...))
			}
			return
		}
		for l := 0; l <= mx+1; l++ {
			cur = append(cur, l)
			m := mx
			if l > m {
				m = l
			}
			rec(m)
			cur = cur[:len(cur)-1]
		}
	}
	rec(-1)
	return out
}

func blockOf(c *sCase, i int) [2]uint64 {
	p := c.Entries[i].Part
	if c.Layout[p] == 'g' {
		p = 100
	}
	return [2]uint64{uint64(p), c.Entries[i].Series}
}

func sidxDupOracle(c *sCase, rows []sRow, lens []int, errText string) ([]string, string) {
	if strings.HasPrefix(errText, "panic: ") {
		return []string{"panic"}, errText
	}
	if errText != "" {
		return []string{"query-error"}, errText
	}
	var bad []string
	add := func(s string) {
		for _, b := range bad {
			if b == s {
				return
			}
		}
		bad = append(bad, s)
	}
	qs := map[uint64]bool{}
	for _, s := range c.Series {
		qs[s] = true
	}
	pl := dupPayloadOf(c)
	type triple struct {
		data string
		key  int64
		sid  uint64
	}
	stored := map[triple]int{}    // matching triples -> multiplicity
	anyTriple := map[triple]int{} // all stored triples
	payloads := map[string]bool{}
	matching := map[string]bool{} // payloads with >=1 matching entry
	for i, e := range c.Entries {
		d := string(pl(i))
		payloads[d] = true
		anyTriple[triple{d, e.Key, e.Series}]++
		if qs[e.Series] && inRange(e.Key, c.Lo, c.Hi) {
			stored[triple{d, e.Key, e.Series}]++
			matching[d] = true
		}
	}
	got := make([]string, 0, len(rows))
	cnt := map[triple]int{}
	seenP := map[string]bool{}
	for i, r := range rows {
		got = append(got, strconv.FormatInt(r.key, 10))
		t := triple{r.data, r.key, r.sid}
		switch {
		case !payloads[r.data]:
			add("unknown-entry-returned")
		case anyTriple[t] == 0:
			add("entry-with-wrong-key-or-series")
		case stored[t] == 0:
			add("out-of-range-entry-returned")
		}
		cnt[t]++
		if anyTriple[t] > 0 && cnt[t] == anyTriple[t]+1 {
			add("entry-returned-more-often-than-stored")
		}
		seenP[r.data] = true
		if i > 0 {
			if (!c.Desc && rows[i-1].key > r.key) || (c.Desc && rows[i-1].key < r.key) {
				add("not-in-key-order")
			}
		}
	}
	full := c.Mode == "stream" || c.Batch == 0
	if full {
		var miss []string
		for d := range matching {
			if !seenP[d] {
				miss = append(miss, d)
			}
		}
		sort.Strings(miss)
		for _, d := range miss {
			// does the missing payload also sit, outside the range, in a block that holds one of its matching entries?
			twin := false
			for i, e := range c.Entries {
				if string(pl(i)) != d || !qs[e.Series] || !inRange(e.Key, c.Lo, c.Hi) {
					continue
				}
				for j, f := range c.Entries {
					if j != i && string(pl(j)) == d && blockOf(c, i) == blockOf(c, j) && !inRange(f.Key, c.Lo, c.Hi) {
						twin = true
					}
				}
			}
			if twin {
				add("payload-with-entry-in-range-missing/same-payload-outside-range-in-same-block")
			} else {
				add("payload-with-entry-in-range-missing/no-out-of-range-twin-in-block")
			}
		}
	} else {
		need := c.Batch
		if len(matching) < need {
			need = len(matching)
		}
		n := 0
		for d := range seenP {
			if matching[d] {
				n++
			}
		}
		if n < need {
			add("budget-result-too-short")
		}
	}
	for _, l := range lens {
		if l == 0 {
			add("empty-batch")
		}
		if c.Batch > 0 && l > c.Batch {
			add("batch-larger-than-MaxBatchSize")
		}
	}
	return bad, strings.Join(got, ",")
}

func sidxDupKey(c *sCase, clause string) string {
	if clause == "not-in-key-order" {
		return sidxKey(c, clause) // same class (and same known shape) as section sidx
	}
	return fmt.Sprintf("sidxdup/%s/%s", c.Mode, clause)
}

type sidxDupParams struct {
	maxN1, maxParts1 int
	maxN2, maxParts2 int
}

func sidxDupParamsFor(thorough bool) sidxDupParams {
	if thorough {
		return sidxDupParams{maxN1: 4, maxParts1: 3, maxN2: 3, maxParts2: 3}
	}
	return sidxDupParams{maxN1: 3, maxParts1: 3, maxN2: 3, maxParts2: 1}
}

func sidxDupBoundsText(thorough bool) string {
	p := sidxDupParamsFor(thorough)
	return fmt.Sprintf("entries with shared payloads: every dataset of section sidx with 2..%d entries over <=%d parts (1 series) and 2..%d entries over <=%d parts (2 series), "+
		"times every assignment of payload labels with at least one label shared (restricted-growth strings); reduced layouts (all-mem, all-flushed, with-merge), the 21 reduced ranges, "+
		"MaxBatchSize {0,1,2,3}, series sets {1} / {2,1},{2}, asc/desc, stream+sync", p.maxN1, p.maxParts1, p.maxN2, p.maxParts2)
}

func sidxDupWorker(wi, wn int, thorough bool, base string, res *wres) {
	prm := sidxDupParamsFor(thorough)
	idx := 0
	seq := 0
	ranges := sidxRanges(false)
	handle := func(entries []sEntry, parts int, series []uint64, maxParts int) {
		if parts > maxParts || len(entries) < 2 {
			return
		}
		for _, labels := range labelings(len(entries)) {
			idx++
			if idx%wn != wi || res.expired() {
				continue
			}
			ents := append([]sEntry(nil), entries...)
			proto := &sCase{Entries: ents, Labels: labels}
			for _, layout := range layoutsFor(parts, false) {
				seq++
				dir := fmt.Sprintf("%s/d%d", base, seq)
				s, err := buildSidxP(dir, ents, layout, dupPayloadOf(proto))
				if err != nil {
					res.harnessErr(fmt.Sprintf("sidxdup build %v %v %s: %v", ents, labels, layout, err))
					return
				}
				res.Cases++
				for _, qser := range seriesSubsets(series, false) {
					for _, rg := range ranges {
						for _, desc := range []bool{false, true} {
							for _, b := range sidxBatches {
								for _, mode := range []string{"stream", "sync"} {
									c := &sCase{Entries: ents, Labels: labels, Layout: layout, Lo: rg.lo, Hi: rg.hi, Desc: desc, Batch: b, Mode: mode, Series: qser}
									rows, lens, errText := runSidxQuery(s, c)
									bad, got := sidxDupOracle(c, rows, lens, errText)
									res.Evals++
									if dupNontrivial(c) {
										res.Nontrivial++
									}
									res.outcome("sidxdup:" + got)
									if len(bad) == 0 {
										if res.Evals%50021 == 1 {
											cc := *c
											cc.Got = got
											res.sample(map[string]any{"section": "sidxdup", "case": cc})
										}
										continue
									}
									for _, cl := range bad {
										cc := *c
										cc.Got = got
										res.violation(sidxDupKey(c, cl), len(c.Entries)*100+len(c.Layout)*10+c.Batch, map[string]any{"section": "sidxdup", "case": cc})
									}
								}
							}
						}
					}
				}
				_ = s.Close()
				_ = os.RemoveAll(dir)
			}
		}
	}
	enumDatasets(prm.maxN1, 1, func(e []sEntry, p int) { handle(e, p, []uint64{1}, prm.maxParts1) })
	enumDatasets(prm.maxN2, 2, func(e []sEntry, p int) { handle(e, p, []uint64{1, 2}, prm.maxParts2) })
}

// dupNontrivial: a payload shared by >=2 entries of queried series has an entry inside and one outside the range, or
// >=2 inside.
func dupNontrivial(c *sCase) bool {
	qs := map[uint64]bool{}
	for _, s := range c.Series {
		qs[s] = true
	}
	in, out := map[int]int{}, map[int]int{}
	for i, e := range c.Entries {
		if !qs[e.Series] {
			continue
		}
		if inRange(e.Key, c.Lo, c.Hi) {
			in[c.Labels[i]]++
		} else {
			out[c.Labels[i]]++
		}
	}
	for l, n := range in {
		if n >= 2 || out[l] >= 1 {
			return true
		}
	}
	return false
}

func sidxDupReplay(c *sCase) bool {
	if len(c.Labels) != len(c.Entries) {
		fmt.Println("HARNESS-ERROR: labels do not match entries")
		os.Exit(2)
	}
	base, _ := os.MkdirTemp("/dev/shm", "c09r-")
	defer os.RemoveAll(base)
	s, err := buildSidxP(base+"/s", c.Entries, c.Layout, dupPayloadOf(c))
	if err != nil {
		fmt.Println("HARNESS-ERROR:", err)
		os.Exit(2)
	}
	defer s.Close()
	rows, lens, errText := runSidxQuery(s, c)
	bad, got := sidxDupOracle(c, rows, lens, errText)
	var keys []string
	for _, b := range bad {
		keys = append(keys, sidxDupKey(c, b))
	}
	var rs []string
	for _, r := range rows {
		rs = append(rs, fmt.Sprintf("%s@%d/s%d", r.data, r.key, r.sid))
	}
	fmt.Printf("sidxdup case: entries(key,series,part)=%v payload labels=%v layout=%s range=[%d,%d] desc=%v batch=%d mode=%s series=%v\n  got keys: %s (batches %v)\n  got rows: %v\n  violated: %v\n",
		c.Entries, c.Labels, c.Layout, c.Lo, c.Hi, c.Desc, c.Batch, c.Mode, c.Series, got, lens, rs, keys)
	return len(bad) == 0
}
