// C09: ordered results are globally sorted; limit/offset is a window of them.
// Bounded exhaustive enumeration (Engine E) on the real code, six sections:
//
//	sidx     banyand/internal/sidx StreamingQuery/QuerySync over every distribution of <=N entries over <=3 parts
//	itersort pkg/iter/sort k-way merge over every distribution of <=6 items over <=3 sorted iterators
//	measure  real measure tsTable + queryResult ordered pull over rows spread over <=3 parts and 2 series
//	limit    measure/stream limit+offset(+merge) plan nodes and TopQueue against list[offset:offset+limit]
//	stream   real stream tsTable + tsResult (query_by_ts.go) over every arrangement of part time intervals
//	idxsort  index-mode measure ordered merge across segments (buildIndexQueryResult / segResultHeap / indexSortResult)
package main

import (
	"encoding/json"
	"fmt"
	"os"
	"runtime/pprof"
	"sort"
	"strings"
	"time"

	"github.com/apache/skywalking-banyandb/pkg/logger"
	"github.com/apache/skywalking-banyandb/pkg/verif/ev"
	"github.com/apache/skywalking-banyandb/pkg/verif/par"
)

type violRec struct {
	Key      string         `json:"key"`
	Size     int            `json:"size"`
	Artefact map[string]any `json:"artefact"`
}

// wres is what one worker reports.
type wres struct {
	EvalsBy    map[string]int      `json:"evals"`
	CasesBy    map[string]int      `json:"cases"`
	NontrivBy  map[string]int      `json:"nontrivial"`
	OutcomeL   []string            `json:"outcomes"`
	Viol       map[string]*violRec `json:"viol"`
	ViolCount  map[string]int      `json:"viol_count"`
	Samples    []any               `json:"samples"`
	HarnessErr string              `json:"harness_err"`
	Capped     bool                `json:"-"`
	CappedIn   []string            `json:"capped_in"`
	deadline   time.Time

	outcomes map[string]struct{}
	// counters of the running section
	Evals      int `json:"-"`
	Cases      int `json:"-"`
	Nontrivial int `json:"-"`
}

func newWres() *wres {
	return &wres{EvalsBy: map[string]int{}, CasesBy: map[string]int{}, NontrivBy: map[string]int{}, Viol: map[string]*violRec{},
		ViolCount: map[string]int{}, outcomes: map[string]struct{}{}}
}

func (w *wres) endSection(name string) {
	if w.Capped {
		w.CappedIn = append(w.CappedIn, name)
		w.Capped = false
	}
	w.EvalsBy[name] += w.Evals
	w.CasesBy[name] += w.Cases
	w.NontrivBy[name] += w.Nontrivial
	w.Evals, w.Cases, w.Nontrivial = 0, 0, 0
}

// expired reports (and records) that the worker's internal deadline has passed: remaining cases are skipped and the
// run is reported as not exhaustive (never as a verdict).
func (w *wres) expired() bool {
	if w.Capped {
		return true
	}
	if !w.deadline.IsZero() && time.Now().After(w.deadline) {
		w.Capped = true
	}
	return w.Capped
}

func (w *wres) outcome(s string) { w.outcomes[s] = struct{}{} }

func (w *wres) sample(s any) {
	if len(w.Samples) < 3 {
		w.Samples = append(w.Samples, s)
	}
}

func (w *wres) harnessErr(s string) {
	if w.HarnessErr == "" {
		w.HarnessErr = s
	}
}

// violation keeps, per key, the smallest failing artefact.
func (w *wres) violation(key string, size int, artefact map[string]any) {
	w.ViolCount[key]++
	if old, ok := w.Viol[key]; ok && old.Size <= size {
		return
	}
	b, _ := json.Marshal(artefact)
	var cp map[string]any
	_ = json.Unmarshal(b, &cp)
	w.Viol[key] = &violRec{Key: key, Size: size, Artefact: cp}
}

var sections = []string{"sidx", "sidxdup", "itersort", "measure", "limit", "stream", "sresult", "idxsort"}

func wantSection(s string) bool {
	only := ev.Arg("--section")
	return only == "" || only == s
}

func main() {
	_ = logger.Init(logger.Logging{Env: "prod", Level: "fatal"})
	thorough := ev.Thorough()
	if rp := ev.Arg("--replay"); rp != "" {
		replay(rp)
		return
	}
	if wi, wn, ok := par.Worker(); ok {
		if pf := os.Getenv("VERIF_CPUPROFILE"); pf != "" && wi == 0 {
			f, _ := os.Create(pf)
			_ = pprof.StartCPUProfile(f)
			defer pprof.StopCPUProfile()
		}
		base, err := os.MkdirTemp("/dev/shm", "c09-")
		if err != nil {
			panic(err)
		}
		res := newWres()
		budget := func(quick, thor time.Duration) {
			res.deadline = time.Now().Add(quick)
			if thorough {
				res.deadline = time.Now().Add(thor)
			}
		}
		func() {
			defer os.RemoveAll(base)
			if wantSection("sidx") {
				budget(6*time.Minute, 18*time.Minute)
				sidxWorker(wi, wn, thorough, base, res)
				res.endSection("sidx")
			}
			if wantSection("sidxdup") {
				budget(3*time.Minute, 9*time.Minute)
				sidxDupWorker(wi, wn, thorough, base, res)
				res.endSection("sidxdup")
			}
			if wantSection("itersort") {
				itersortWorker(wi, wn, thorough, res)
				res.endSection("itersort")
			}
			if wantSection("measure") {
				budget(4*time.Minute, 9*time.Minute)
				measureWorker(wi, wn, thorough, base, res)
				res.endSection("measure")
			}
			if wantSection("limit") {
				limitWorker(wi, wn, thorough, res)
				res.endSection("limit")
			}
			if wantSection("stream") {
				budget(4*time.Minute, 9*time.Minute)
				streamWorker(wi, wn, thorough, base, res)
				res.endSection("stream")
			}
			if wantSection("sresult") {
				sresultWorker(wi, wn, thorough, res)
				res.endSection("sresult")
			}
			if wantSection("idxsort") {
				idxsortWorker(wi, wn, thorough, res)
				res.endSection("idxsort")
			}
		}()
		for k := range res.outcomes {
			res.OutcomeL = append(res.OutcomeL, k)
		}
		sort.Strings(res.OutcomeL)
		b, _ := json.Marshal(res)
		par.Emit(b)
		return
	}

	r := ev.New("C09", "exploration")
	results, perr := par.Run(16)
	if perr != nil {
		fmt.Println("HARNESS-ERROR:", perr)
		os.Exit(2)
	}
	if len(results) != 16 {
		fmt.Printf("HARNESS-ERROR: %d of 16 workers reported\n", len(results))
		os.Exit(2)
	}
	evals, cases, nontriv := map[string]int{}, map[string]int{}, map[string]int{}
	outcomes := map[string]struct{}{}
	viol := map[string]*violRec{}
	violCount := map[string]int{}
	capped := map[string]int{}
	for _, b := range results {
		var w wres
		if err := json.Unmarshal(b, &w); err != nil {
			fmt.Println("HARNESS-ERROR: bad worker result:", err)
			os.Exit(2)
		}
		if w.HarnessErr != "" {
			fmt.Println("HARNESS-ERROR:", w.HarnessErr)
			os.Exit(2)
		}
		for _, sec := range w.CappedIn {
			capped[sec]++
		}
		for k, v := range w.EvalsBy {
			evals[k] += v
		}
		for k, v := range w.CasesBy {
			cases[k] += v
		}
		for k, v := range w.NontrivBy {
			nontriv[k] += v
		}
		for _, o := range w.OutcomeL {
			outcomes[o] = struct{}{}
		}
		for k, v := range w.Viol {
			if old, ok := viol[k]; !ok || v.Size < old.Size {
				viol[k] = v
			}
		}
		for k, v := range w.ViolCount {
			violCount[k] += v
		}
		for _, s := range w.Samples {
			r.Sample(s)
		}
	}
	for _, sec := range sections {
		if capped[sec] > 0 {
			r.NotExhaustive(fmt.Sprintf("section %s: %d of 16 workers hit the internal deadline and skipped their remaining cases", sec, capped[sec]))
		}
	}
	totalE, totalN := 0, 0
	outBy := map[string]int{}
	for o := range outcomes {
		outBy[o[:strings.Index(o, ":")]]++
	}
	for _, s := range sections {
		totalE += evals[s]
		totalN += nontriv[s]
		fmt.Printf("section %-8s cases=%d evaluations=%d nontrivial=%d distinct_outcomes=%d\n", s, cases[s], evals[s], nontriv[s], outBy[s])
	}
	keys := make([]string, 0, len(viol))
	for k := range viol {
		keys = append(keys, k)
	}
	sort.Strings(keys)
	for _, k := range keys {
		if r.Violation(k, viol[k].Artefact) {
			fmt.Printf("  (%d failing evaluations with key %s)\n", violCount[k], k)
		}
	}
	r.Set("evaluations", totalE)
	r.Set("distinct_nontrivial", totalN)
	r.Set("evaluations_by_section", evals)
	r.Set("cases_by_section", cases)
	r.Set("nontrivial_by_section", nontriv)
	r.Set("distinct_outcomes_by_section", outBy)
	r.Set("distinct_outcomes", len(outcomes))
	r.Set("violating_evaluations_by_key", violCount)
	r.Set("bounds", boundsText(thorough))
	r.Set("rule", "every enumerated case is distinct by construction (dataset x layout x query parameters); non-trivial = sidx/measure: the reference result has >=2 rows and the data sits in >=2 blocks (parts/series), so a cross-block merge decides the order; itersort: >=2 non-empty input iterators; stream: >=2 parts and >=2 matching rows; idxsort: >=2 series over >=2 segments; sidxdup: a payload shared by >=2 entries has an entry inside and an entry outside the key range, or >=2 entries inside; sresult: some worker accumulates >=2 batches in a Pull and the history has >=2 rows; limit: the window cuts the list (offset>0 or limit<len) and the list has >=2 rows")
	r.Assume("section sidx: entries carry pairwise distinct payloads; section sidxdup: entries share payloads and, because sidx de-duplicates equal payloads by design, completeness is judged per payload (a payload with an entry in range is returned) and the surviving occurrence is not judged")
	r.Assume("QuerySync with MaxBatchSize>0 is judged as a documented result budget: an ordered prefix with at least min(MaxBatchSize, matches) entries")
	r.Assume("measure rows have pairwise distinct (series, timestamp): version de-duplication is C02's subject")
	r.Finish()
}

func boundsText(thorough bool) map[string]any {
	p := sidxParamsFor(thorough)
	return map[string]any{
		"sidx": fmt.Sprintf("keys 1..4; every distribution over <=3 parts of <=%d entries (1 series) and <=%d entries (2 series). "+
			"thorough, <=%d/<=%d entries: all 2/5/15 m/f/g layouts, ranges lo,hi in {nil,0..5}, MaxBatchSize {0,1,2,3}, series sets {1,2},{2,1},{2}; "+
			"thorough larger datasets: layouts all-mem/all-flushed/with-merge (2/3/9), ranges lo in {nil,1..5} x hi in {nil,0..4}, MaxBatchSize {1,2,3}, series set {2,1}; "+
			"quick: layouts 2/3/9, the 21 reduced ranges, MaxBatchSize {0,1,2,3}, series sets {2,1},{2}; always asc/desc and stream+sync", p.maxN1, p.maxN2, p.fullN1, p.fullN2),
		"itersort": "every distribution of <=6 items with keys 1..4 over <=3 sorted iterators (empty iterators included), asc/desc",
		"measure":  measureBoundsText(thorough),
		"limit":    "offset,limit in 0..7 x 0..7; lists of <=6 rows with keys 1..4 over <=3 children; asc/desc; child chunking; mtagorder: cross-group merge ordered by an indexed tag, every tag projection containing the order-by tag (34) x every distribution of <=4 rows over 2 groups / <=3 rows over 3 groups x asc/desc",
		"stream":   streamBoundsText(thorough),
		"sresult":  sresultBoundsText(thorough),
		"sidxdup":  sidxDupBoundsText(thorough),
		"idxsort":  "index-mode measure merge: <=4 (quick) / <=5 (thorough, 5: sort values non-decreasing in series id) series, sort values {1,2,3}, each series in any non-empty subset of 3 segments, asc/desc",
	}
}

func replay(p string) {
	b, err := os.ReadFile(p)
	if err != nil {
		fmt.Println(err)
		os.Exit(2)
	}
	var a struct {
		Key      string `json:"key"`
		Artefact struct {
			Section string          `json:"section"`
			Case    json.RawMessage `json:"case"`
		} `json:"artefact"`
	}
	if err := json.Unmarshal(b, &a); err != nil {
		fmt.Println(err)
		os.Exit(2)
	}
	fmt.Println("replaying", a.Key)
	ok := false
	switch a.Artefact.Section {
	case "sidx":
		var c sCase
		must(json.Unmarshal(a.Artefact.Case, &c))
		ok = sidxReplay(&c)
	case "itersort":
		var c isCase
		must(json.Unmarshal(a.Artefact.Case, &c))
		ok = itersortReplay(&c)
	case "measure":
		var c mCase
		must(json.Unmarshal(a.Artefact.Case, &c))
		ok = measureReplay(&c)
	case "limit":
		var c lCase
		must(json.Unmarshal(a.Artefact.Case, &c))
		ok = limitReplay(&c)
	case "stream":
		var c tCase
		must(json.Unmarshal(a.Artefact.Case, &c))
		ok = streamReplay(&c)
	case "sresult":
		var c rCase
		must(json.Unmarshal(a.Artefact.Case, &c))
		ok = sresultReplay(&c)
	case "sidxdup":
		var c sCase
		must(json.Unmarshal(a.Artefact.Case, &c))
		ok = sidxDupReplay(&c)
	case "idxsort":
		var c xCase
		must(json.Unmarshal(a.Artefact.Case, &c))
		ok = idxsortReplay(&c)
	default:
		fmt.Println("unknown section", a.Artefact.Section)
		os.Exit(2)
	}
	if !ok {
		fmt.Println("REPLAY: still failing")
		os.Exit(1)
	}
	fmt.Println("REPLAY: passes")
}

func must(err error) {
	if err != nil {
		fmt.Println("HARNESS-ERROR:", err)
		os.Exit(2)
	}
}
