package main

// Section "measure": a real measure tsTable (mem / flushed / merged parts) queried through searchBlocks + queryResult
// ordered by time: the pulled rows must be sorted by timestamp across parts and series, and hold every row of the
// requested series and time range exactly once.

import (
	"fmt"
	"os"
	"sort"
	"strconv"
	"strings"

	"github.com/apache/skywalking-banyandb/banyand/measure"
)

type mRow struct {
	Series uint64 `json:"series"`
	TS     int64  `json:"ts"`
	Part   int    `json:"part"`
}

type mCase struct {
	Rows   []mRow   `json:"rows"` // Val = index in Rows
	Layout string   `json:"layout"`
	MinTS  int64    `json:"min_ts"`
	MaxTS  int64    `json:"max_ts"`
	Desc   bool     `json:"desc"`
	Series []uint64 `json:"query_series"`
	Got    string   `json:"got,omitempty"`
	Want   string   `json:"want,omitempty"`
}

func measureMaxRows(thorough bool) int {
	if thorough {
		return 5
	}
	return 4
}

func measureBoundsText(thorough bool) string {
	return fmt.Sprintf("rows = subsets of {series 1,2} x {ts 1..4} with <=%d rows, every assignment to <=3 parts, layouts m/f/g per part (full=%v), time ranges 0<=min<=max<=5, asc/desc, series sets {1,2},{2,1},{1},{2} (quick and the largest thorough datasets: {2,1},{2})",
		measureMaxRows(thorough), thorough)
}

func buildMeasure(dir string, rows []mRow, layout string) (*measure.C09Table, error) {
	t := measure.C09Open(dir)
	write := func(p int) uint64 {
		var rr []measure.C09Row
		for i, r := range rows {
			if r.Part == p {
				rr = append(rr, measure.C09Row{Series: r.Series, TS: r.TS, Val: int64(i)})
			}
		}
		return t.Write(rr)
	}
	var mergeIDs []uint64
	flushed := false
	for p := 0; p < len(layout); p++ {
		if layout[p] != 'm' {
			id := write(p)
			flushed = true
			if layout[p] == 'g' {
				mergeIDs = append(mergeIDs, id)
			}
		}
	}
	if flushed && !t.Flush() {
		t.Close()
		return nil, fmt.Errorf("flush did nothing")
	}
	for p := 0; p < len(layout); p++ {
		if layout[p] == 'm' {
			write(p)
		}
	}
	if len(mergeIDs) > 0 {
		if err := t.Merge(mergeIDs); err != nil {
			t.Close()
			return nil, err
		}
	}
	return t, nil
}

func measureRef(c *mCase) []int64 {
	qs := map[uint64]bool{}
	for _, s := range c.Series {
		qs[s] = true
	}
	var ks []int64
	for _, r := range c.Rows {
		if qs[r.Series] && r.TS >= c.MinTS && r.TS <= c.MaxTS {
			ks = append(ks, r.TS)
		}
	}
	sort.Slice(ks, func(i, j int) bool {
		if c.Desc {
			return ks[i] > ks[j]
		}
		return ks[i] < ks[j]
	})
	return ks
}

func joinInts(ks []int64) string {
	sb := make([]string, len(ks))
	for i, k := range ks {
		sb[i] = strconv.FormatInt(k, 10)
	}
	return strings.Join(sb, ",")
}

func measureRun(t *measure.C09Table, c *mCase) (badOut []string, gotOut string) {
	defer func() {
		if p := recover(); p != nil {
			badOut, gotOut = []string{"panic"}, fmt.Sprint(p)
		}
	}()
	rows, pulls, err := t.Query(append([]uint64(nil), c.Series...), c.MinTS, c.MaxTS, c.Desc)
	if err != nil {
		return []string{"query-error"}, err.Error()
	}
	var bad []string
	add := func(s string) {
		for _, b := range bad {
			if b == s {
				return
			}
		}
		bad = append(bad, s)
	}
	qs := map[uint64]bool{}
	for _, s := range c.Series {
		qs[s] = true
	}
	want := map[int64]bool{}
	for i, r := range c.Rows {
		if qs[r.Series] && r.TS >= c.MinTS && r.TS <= c.MaxTS {
			want[int64(i)] = true
		}
	}
	seen := map[int64]bool{}
	got := make([]int64, 0, len(rows))
	for i, r := range rows {
		got = append(got, r.TS)
		switch {
		case r.Val < 0 || int(r.Val) >= len(c.Rows):
			add("unknown-row-returned")
		case !want[r.Val]:
			add("row-outside-series-or-time-range-returned")
		default:
			if c.Rows[r.Val].TS != r.TS || c.Rows[r.Val].Series != r.Series {
				add("row-with-wrong-timestamp-or-series")
			}
		}
		if seen[r.Val] {
			add("row-returned-twice")
		}
		seen[r.Val] = true
		if i > 0 && ((!c.Desc && rows[i-1].TS > r.TS) || (c.Desc && rows[i-1].TS < r.TS)) {
			add("not-in-time-order")
		}
	}
	for v := range want {
		if !seen[v] {
			add("row-missing")
			break
		}
	}
	for _, n := range pulls {
		if n == 0 {
			add("empty-pull")
		}
	}
	return bad, joinInts(got)
}

func measureWorker(wi, wn int, thorough bool, base string, res *wres) {
	maxRows := measureMaxRows(thorough)
	type cell struct {
		series uint64
		ts     int64
	}
	var cells []cell
	for s := uint64(1); s <= 2; s++ {
		for ts := int64(1); ts <= 4; ts++ {
			cells = append(cells, cell{s, ts})
		}
	}
	seriesSets := [][]uint64{{1, 2}, {2, 1}, {1}, {2}}
	if !thorough {
		seriesSets = [][]uint64{{2, 1}, {2}}
	}
	fullSets := seriesSets
	idx, seq := 0, 0
	assign := make([]int, len(cells)) // -1 absent, else part
	var rec func(ci, used int)
	rec = func(ci, used int) {
		if ci == len(cells) {
			if used == 0 {
				return
			}
			cnt := [3]int{}
			var rows []mRow
			for i, a := range assign {
				if a >= 0 {
					cnt[a]++
					rows = append(rows, mRow{Series: cells[i].series, TS: cells[i].ts, Part: a})
				}
			}
			if (cnt[0] == 0 && (cnt[1] > 0 || cnt[2] > 0)) || (cnt[1] == 0 && cnt[2] > 0) {
				return
			}
			idx++
			if idx%wn != wi || res.expired() {
				return
			}
			parts := 0
			for _, n := range cnt {
				if n > 0 {
					parts++
				}
			}
			for _, layout := range layoutsFor(parts, thorough) {
				seq++
				dir := fmt.Sprintf("%s/m%d", base, seq)
				t, err := buildMeasure(dir, rows, layout)
				if err != nil {
					res.harnessErr(fmt.Sprintf("measure build %v %s: %v", rows, layout, err))
					return
				}
				res.Cases++
				seriesSets = fullSets
				if thorough && len(rows) == maxRows {
					seriesSets = [][]uint64{{2, 1}, {2}} // the largest datasets: two series sets
				}
				for _, ss := range seriesSets {
					for lo := int64(0); lo <= 5; lo++ {
						for hi := lo; hi <= 5; hi++ {
							for _, desc := range []bool{false, true} {
								c := &mCase{Rows: rows, Layout: layout, MinTS: lo, MaxTS: hi, Desc: desc, Series: ss}
								measureEval(t, c, res)
							}
						}
					}
				}
				t.Close()
				_ = os.RemoveAll(dir)
			}
			return
		}
		assign[ci] = -1
		rec(ci+1, used)
		if used < maxRows {
			for p := 0; p < 3; p++ {
				assign[ci] = p
				rec(ci+1, used+1)
			}
			assign[ci] = -1
		}
	}
	rec(0, 0)
}

func measureBlocks(c *mCase) int {
	type bk struct {
		part   int
		series uint64
	}
	m := map[bk]bool{}
	qs := map[uint64]bool{}
	for _, s := range c.Series {
		qs[s] = true
	}
	for _, r := range c.Rows {
		if !qs[r.Series] {
			continue
		}
		p := r.Part
		if c.Layout[p] == 'g' {
			p = 100
		}
		m[bk{p, r.Series}] = true
	}
	return len(m)
}

func measureEval(t *measure.C09Table, c *mCase, res *wres) {
	bad, got := measureRun(t, c)
	res.Evals++
	ref := measureRef(c)
	if len(ref) >= 2 && measureBlocks(c) >= 2 {
		res.Nontrivial++
	}
	res.outcome("measure:" + got)
	if len(bad) == 0 {
		if res.Evals%50021 == 1 {
			cc := *c
			cc.Got = got
			res.sample(map[string]any{"section": "measure", "case": cc})
		}
		return
	}
	dir := "asc"
	if c.Desc {
		dir = "desc"
	}
	for _, b := range bad {
		cc := *c
		cc.Got, cc.Want = got, joinInts(ref)
		res.violation("measure/"+dir+"/"+b, len(c.Rows)*10+len(c.Layout), map[string]any{"section": "measure", "case": cc})
	}
}

func measureReplay(c *mCase) bool {
	base, _ := os.MkdirTemp("/dev/shm", "c09r-")
	defer os.RemoveAll(base)
	t, err := buildMeasure(base+"/m", c.Rows, c.Layout)
	if err != nil {
		fmt.Println("HARNESS-ERROR:", err)
		os.Exit(2)
	}
	defer t.Close()
	bad, got := measureRun(t, c)
	fmt.Printf("measure case: rows(series,ts,part)=%v layout=%s range=[%d,%d] desc=%v series=%v\n  got ts:    %s\n  reference: %s\n  violated: %v\n",
		c.Rows, c.Layout, c.MinTS, c.MaxTS, c.Desc, c.Series, got, joinInts(measureRef(c)), bad)
	return len(bad) == 0
}
