package main

// Section "limit": limit/offset windows and bounded merges on the real plan nodes with fake children.
//
//	mlimit   measure: newLimitIterator(MergeGroupMIterators(children, time order), offset, limit)
//	slimit   stream:  limit(mergePlan(children)) / limit(child) / distributedLimit(child) .Execute
//	topq     measure: TopQueue[int64] (measure_top.go) top/bottom n of every insertion sequence
//	shards   sidx:    QueryResponseHeap shard merge with maxElements
//
// Reference: stable sort of all rows by key, then list[offset:offset+limit]. Because the sorted key sequence is
// unique even with ties, the window's key sequence must equal the reference window's; row identities must be
// pairwise distinct rows of the dataset carrying those keys (with distinct keys this pins the rows exactly; with
// ties any multiset-compatible choice passes).

import (
	"context"
	"fmt"
	"sort"
	"strconv"
	"strings"
	"time"

	"google.golang.org/protobuf/types/known/timestamppb"

	measurev1 "github.com/apache/skywalking-banyandb/api/proto/banyandb/measure/v1"
	modelv1 "github.com/apache/skywalking-banyandb/api/proto/banyandb/model/v1"
	streamv1 "github.com/apache/skywalking-banyandb/api/proto/banyandb/stream/v1"
	"github.com/apache/skywalking-banyandb/banyand/internal/sidx"
	"github.com/apache/skywalking-banyandb/pkg/query/executor"
	lmeasure "github.com/apache/skywalking-banyandb/pkg/query/logical/measure"
	lstream "github.com/apache/skywalking-banyandb/pkg/query/logical/stream"
)

// lCase is a replayable limit-section case. Children[i] = ascending keys of child i (reversed for desc).
type lCase struct {
	Kind     string  `json:"kind"` // mlimit | slimit | topq | shards
	Children [][]int `json:"children"`
	Desc     bool    `json:"desc"`
	Offset   int     `json:"offset"`
	Limit    int     `json:"limit"`
	// Mode: mlimit: "full" | "pushed" (children truncated to offset+limit rows, the pushed-down MaxSize contract)
	//       slimit: "merge-full" | "merge-pushed" | "single-chunk<k>" | "single-full" | "distributed"
	//       topq:   Children[0] is the insertion sequence, Limit = n, Desc=false means top (largest first)
	//       shards: Limit = maxElements (0 = unlimited)
	Mode string `json:"mode"`
	Got  string `json:"got,omitempty"`
	Want string `json:"want,omitempty"`
}

type lrow struct {
	key int
	id  int
}

// childRows assigns ids in child order and returns per-child rows in query direction, plus all rows.
func childRows(c *lCase) ([][]lrow, []lrow) {
	var per [][]lrow
	var all []lrow
	id := 1
	for _, ks := range c.Children {
		var rows []lrow
		for _, k := range ks {
			rows = append(rows, lrow{k, id})
			id++
		}
		if c.Desc {
			for i, j := 0, len(rows)-1; i < j; i, j = i+1, j-1 {
				rows[i], rows[j] = rows[j], rows[i]
			}
		}
		per = append(per, rows)
		all = append(all, rows...)
	}
	return per, all
}

func refWindow(all []lrow, desc bool, off, lim int) []int {
	ks := make([]int, len(all))
	for i, r := range all {
		ks[i] = r.key
	}
	sort.SliceStable(ks, func(i, j int) bool {
		if desc {
			return ks[i] > ks[j]
		}
		return ks[i] < ks[j]
	})
	if off > len(ks) {
		off = len(ks)
	}
	end := off + lim
	if end > len(ks) {
		end = len(ks)
	}
	return ks[off:end]
}

func intsStr(ks []int) string {
	sb := make([]string, len(ks))
	for i, k := range ks {
		sb[i] = strconv.Itoa(k)
	}
	return strings.Join(sb, ",")
}

// judgeWindow compares got rows against the reference window.
func judgeWindow(got []lrow, all []lrow, want []int) []string {
	var bad []string
	keyOf := map[int]int{}
	for _, r := range all {
		keyOf[r.id] = r.key
	}
	seen := map[int]bool{}
	for _, r := range got {
		k, ok := keyOf[r.id]
		if !ok {
			bad = append(bad, "unknown-row")
			break
		}
		if k != r.key {
			bad = append(bad, "row-with-wrong-key")
		}
		if seen[r.id] {
			bad = append(bad, "row-returned-twice")
			break
		}
		seen[r.id] = true
	}
	gk := make([]int, len(got))
	for i, r := range got {
		gk[i] = r.key
	}
	if intsStr(gk) != intsStr(want) {
		switch {
		case len(gk) < len(want):
			bad = append(bad, "window-too-short")
		case len(gk) > len(want):
			bad = append(bad, "window-too-long")
		default:
			bad = append(bad, "window-has-wrong-rows")
		}
	}
	return bad
}

// ---- measure

type fakeMIter struct {
	rows   []*measurev1.InternalDataPoint
	pos    int
	closed int
}

func (f *fakeMIter) Next() bool {
	if f.pos >= len(f.rows) {
		return false
	}
	f.pos++
	return true
}
func (f *fakeMIter) Current() []*measurev1.InternalDataPoint {
	return []*measurev1.InternalDataPoint{f.rows[f.pos-1]}
}
func (f *fakeMIter) Close() error { f.closed++; return nil }

func tsOf(key int) *timestamppb.Timestamp { return timestamppb.New(time.Unix(0, int64(key)*1000)) }

func runMLimit(c *lCase) ([]string, string) {
	per, all := childRows(c)
	var sortV modelv1.Sort = modelv1.Sort_SORT_ASC
	if c.Desc {
		sortV = modelv1.Sort_SORT_DESC
	}
	order, err := lmeasure.ResolveCrossGroupMergeOrder(&measurev1.QueryRequest{OrderBy: &modelv1.QueryOrder{Sort: sortV}}, nil)
	if err != nil {
		return []string{"harness:" + err.Error()}, ""
	}
	var iters []executor.MIterator
	var fakes []*fakeMIter
	for _, rows := range per {
		if c.Mode == "pushed" && len(rows) > c.Offset+c.Limit {
			rows = rows[:c.Offset+c.Limit]
		}
		f := &fakeMIter{}
		for _, r := range rows {
			f.rows = append(f.rows, &measurev1.InternalDataPoint{DataPoint: &measurev1.DataPoint{Timestamp: tsOf(r.key), Sid: uint64(r.id), Version: 1}})
		}
		fakes = append(fakes, f)
		iters = append(iters, f)
	}
	it := lmeasure.C09LimitIterator(lmeasure.MergeGroupMIterators(iters, order), uint32(c.Offset), uint32(c.Limit))
	var got []lrow
	for it.Next() {
		cur := it.Current()
		if len(cur) != 1 {
			return []string{"current-not-one-row"}, ""
		}
		dp := cur[0].GetDataPoint()
		got = append(got, lrow{key: int(dp.Timestamp.AsTime().UnixNano() / 1000), id: int(dp.Sid)})
		if len(got) > len(all)+2 {
			return []string{"does-not-terminate"}, ""
		}
	}
	bad := judgeWindow(got, all, refWindow(all, c.Desc, c.Offset, c.Limit))
	_ = it.Close()
	for _, f := range fakes {
		if f.closed != 1 {
			bad = append(bad, "child-not-closed-exactly-once")
			break
		}
	}
	gk := make([]int, len(got))
	for i, r := range got {
		gk[i] = r.key
	}
	return bad, intsStr(gk)
}

// ---- stream

func chunked(rows []lrow, size int) [][]*streamv1.Element {
	var out [][]*streamv1.Element
	var cur []*streamv1.Element
	for _, r := range rows {
		cur = append(cur, &streamv1.Element{ElementId: strconv.Itoa(r.id), Timestamp: tsOf(r.key)})
		if size > 0 && len(cur) == size {
			out = append(out, cur)
			cur = nil
		}
	}
	if len(cur) > 0 {
		out = append(out, cur)
	}
	return out
}

func runSLimit(c *lCase) ([]string, string) {
	per, all := childRows(c)
	var children []*lstream.C09Child
	merge, distributed := false, false
	chunk := 0
	switch {
	case c.Mode == "merge-full":
		merge = true
	case c.Mode == "merge-pushed":
		merge = true
		chunk = c.Offset + c.Limit
	case c.Mode == "single-full":
	case c.Mode == "distributed":
		distributed = true
	case strings.HasPrefix(c.Mode, "single-chunk"):
		chunk, _ = strconv.Atoi(c.Mode[len("single-chunk"):])
	default:
		return []string{"harness:bad-mode"}, ""
	}
	for _, rows := range per {
		children = append(children, &lstream.C09Child{Chunks: chunked(rows, chunk)})
	}
	p := lstream.C09Plan(children, merge, c.Desc, distributed, uint32(c.Offset), uint32(c.Limit))
	els, err := p.Execute(context.Background())
	if err != nil {
		return []string{"execute-error"}, err.Error()
	}
	var got []lrow
	for _, e := range els {
		id, _ := strconv.Atoi(e.ElementId)
		got = append(got, lrow{key: int(e.Timestamp.AsTime().UnixNano() / 1000), id: id})
	}
	bad := judgeWindow(got, all, refWindow(all, c.Desc, c.Offset, c.Limit))
	p.Close()
	for _, ch := range children {
		if ch.Closed != 1 {
			bad = append(bad, "child-not-closed-exactly-once")
			break
		}
	}
	gk := make([]int, len(got))
	for i, r := range got {
		gk[i] = r.key
	}
	return bad, intsStr(gk)
}

// ---- TopQueue

func runTopQ(c *lCase) ([]string, string) {
	q := lmeasure.NewTopQueue[int64](c.Limit, c.Desc) // reverted=true keeps the n smallest ("bottom")
	var all []lrow
	for i, k := range c.Children[0] {
		q.Insert(lmeasure.NewTopElement[int64](&measurev1.InternalDataPoint{DataPoint: &measurev1.DataPoint{Sid: uint64(i + 1)}}, int64(k)))
		all = append(all, lrow{k, i + 1})
	}
	var gk []int
	for _, e := range q.Elements() {
		gk = append(gk, int(e.Val()))
	}
	// top (reverted=false): largest first; bottom (reverted=true): smallest first
	want := refWindow(all, !c.Desc, 0, c.Limit)
	var bad []string
	if intsStr(gk) != intsStr(want) {
		bad = append(bad, "topn-differs-from-sorted-prefix")
	}
	return bad, intsStr(gk)
}

// ---- sidx shard merge

func runShards(c *lCase) ([]string, string) {
	// shards are always ascending responses; desc merges them from their tails
	cc := *c
	cc.Desc = false
	per, all := childRows(&cc)
	var shards []*sidx.QueryResponse
	for _, rows := range per {
		qr := &sidx.QueryResponse{}
		for _, r := range rows {
			qr.Keys = append(qr.Keys, int64(r.key))
			qr.Data = append(qr.Data, []byte(strconv.Itoa(r.id)))
			qr.SIDs = append(qr.SIDs, 1)
			qr.PartIDs = append(qr.PartIDs, 1)
		}
		shards = append(shards, qr)
	}
	res := sidx.C09MergeShards(shards, c.Limit, c.Desc)
	if res == nil {
		return []string{"nil-result"}, ""
	}
	if err := res.Validate(); err != nil {
		return []string{"invalid-response"}, err.Error()
	}
	var got []lrow
	for i := range res.Keys {
		id, _ := strconv.Atoi(string(res.Data[i]))
		got = append(got, lrow{key: int(res.Keys[i]), id: id})
	}
	lim := c.Limit
	if lim == 0 {
		lim = len(all)
	}
	bad := judgeWindow(got, all, refWindow(all, c.Desc, 0, lim))
	gk := make([]int, len(got))
	for i, r := range got {
		gk[i] = r.key
	}
	return bad, intsStr(gk)
}

func runLimitCase(c *lCase) (bad []string, got string) {
	defer func() {
		if p := recover(); p != nil {
			bad, got = []string{"panic"}, fmt.Sprint(p)
		}
	}()
	switch c.Kind {
	case "mlimit":
		return runMLimit(c)
	case "slimit":
		return runSLimit(c)
	case "topq":
		return runTopQ(c)
	case "shards":
		return runShards(c)
	case "mtagorder":
		return runMTagOrder(c)
	}
	return []string{"harness:bad-kind"}, ""
}

// enumChildren calls f for every distribution of 0..maxItems items (keys 1..4) over exactly k children.
func enumChildren(k, maxItems int, f func(children [][]int, n int)) {
	cells := k * 4
	cnt := make([]int, cells)
	var rec func(ci, left int)
	rec = func(ci, left int) {
		if ci == cells {
			children := make([][]int, k)
			for i := 0; i < k; i++ {
				for key := 0; key < 4; key++ {
					for j := 0; j < cnt[i*4+key]; j++ {
						children[i] = append(children[i], key+1)
					}
				}
			}
			f(children, maxItems-left)
			return
		}
		for n := 0; n <= left; n++ {
			cnt[ci] = n
			rec(ci+1, left-n)
		}
		cnt[ci] = 0
	}
	rec(0, maxItems)
}

func limitEval(c *lCase, size int, res *wres) {
	bad, got := runLimitCase(c)
	res.Evals++
	total := 0
	for _, ch := range c.Children {
		total += len(ch)
	}
	if total >= 2 && (c.Offset > 0 || c.Limit < total || c.Kind == "mtagorder") {
		res.Nontrivial++
	}
	res.outcome("limit:" + c.Kind + ":" + got)
	if len(bad) == 0 {
		if res.Evals%200003 == 1 {
			cc := *c
			cc.Got = got
			res.sample(map[string]any{"section": "limit", "case": cc})
		}
		return
	}
	_, all := childRows(c)
	for _, b := range bad {
		cc := *c
		cc.Got = got
		if c.Kind == "mlimit" || c.Kind == "slimit" || c.Kind == "mtagorder" {
			cc.Want = intsStr(refWindow(all, c.Desc, c.Offset, c.Limit))
		}
		mode := c.Mode
		if strings.HasPrefix(mode, "single-chunk") {
			mode = "single-chunked"
		}
		if c.Kind == "mtagorder" {
			mode = tagOrderKeyMode(c.Mode)
		}
		key := "limit/" + c.Kind + "/" + mode + "/" + b
		if strings.HasPrefix(b, "harness:") {
			res.harnessErr(key)
		}
		res.violation(key, size*100+c.Offset+c.Limit, map[string]any{"section": "limit", "case": cc})
	}
}

func limitWorker(wi, wn int, thorough bool, res *wres) {
	idx := 0
	maxItems := 6
	maxItems3 := 5
	if thorough {
		maxItems3 = 6
	}
	for k := 1; k <= 3; k++ {
		mi := maxItems
		if k == 3 {
			mi = maxItems3
		}
		enumChildren(k, mi, func(children [][]int, n int) {
			idx++
			if idx%wn != wi {
				return
			}
			res.Cases++
			for _, desc := range []bool{false, true} {
				for off := 0; off <= 7; off++ {
					for lim := 0; lim <= 7; lim++ {
						for _, mode := range []string{"full", "pushed"} {
							limitEval(&lCase{Kind: "mlimit", Children: children, Desc: desc, Offset: off, Limit: lim, Mode: mode}, n+k, res)
						}
						if k == 1 {
							for _, mode := range []string{"single-full", "single-chunk1", "single-chunk2", "single-chunk3", "distributed"} {
								limitEval(&lCase{Kind: "slimit", Children: children, Desc: desc, Offset: off, Limit: lim, Mode: mode}, n+k, res)
							}
						} else {
							for _, mode := range []string{"merge-full", "merge-pushed"} {
								limitEval(&lCase{Kind: "slimit", Children: children, Desc: desc, Offset: off, Limit: lim, Mode: mode}, n+k, res)
							}
						}
					}
				}
				for lim := 0; lim <= 7; lim++ {
					limitEval(&lCase{Kind: "shards", Children: children, Desc: desc, Limit: lim, Mode: "max"}, n+k, res)
				}
			}
		})
	}
	tagOrderWorker(wi, wn, res, &idx)
	// TopQueue: every insertion sequence of length 0..6 over values 1..4, n in 1..7, top and bottom
	seq := make([]int, 0, 6)
	var rec func()
	rec = func() {
		idx++
		if idx%wn == wi {
			res.Cases++
			for _, rev := range []bool{false, true} {
				for n := 1; n <= 7; n++ {
					mode := "top"
					if rev {
						mode = "bottom"
					}
					limitEval(&lCase{Kind: "topq", Children: [][]int{append([]int(nil), seq...)}, Desc: rev, Limit: n, Mode: mode}, len(seq), res)
				}
			}
		}
		if len(seq) == 6 {
			return
		}
		for v := 1; v <= 4; v++ {
			seq = append(seq, v)
			rec()
			seq = seq[:len(seq)-1]
		}
	}
	rec()
}

func limitReplay(c *lCase) bool {
	bad, got := runLimitCase(c)
	_, all := childRows(c)
	fmt.Printf("limit case: kind=%s mode=%s children=%v desc=%v offset=%d limit=%d\n  got keys: %s\n  reference window (mlimit/slimit): %s\n  violated: %v\n",
		c.Kind, c.Mode, c.Children, c.Desc, c.Offset, c.Limit, got, intsStr(refWindow(all, c.Desc, c.Offset, c.Limit)), bad)
	return len(bad) == 0
}
