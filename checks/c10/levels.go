package main

import (
	"fmt"
	"sort"

	commonv1 "github.com/apache/skywalking-banyandb/api/proto/banyandb/common/v1"
	databasev1 "github.com/apache/skywalking-banyandb/api/proto/banyandb/database/v1"
	measurev1 "github.com/apache/skywalking-banyandb/api/proto/banyandb/measure/v1"
	modelv1 "github.com/apache/skywalking-banyandb/api/proto/banyandb/model/v1"
	"github.com/apache/skywalking-banyandb/pkg/query/aggregation"
	"github.com/apache/skywalking-banyandb/pkg/query/logical"
	lmeasure "github.com/apache/skywalking-banyandb/pkg/query/logical/measure"
)

const (
	groupName   = "g1"
	measureName = "m"
	tagFamily   = "default"
	tagGroup    = "g"
	tagSvc      = "svc"
)

func measureSpec(entityIsGroupTag bool) *databasev1.Measure {
	entity := tagSvc
	if entityIsGroupTag {
		entity = tagGroup
	}
	return &databasev1.Measure{
		Metadata: &commonv1.Metadata{Name: measureName, Group: groupName},
		TagFamilies: []*databasev1.TagFamilySpec{{Name: tagFamily, Tags: []*databasev1.TagSpec{
			{Name: tagSvc, Type: databasev1.TagType_TAG_TYPE_STRING},
			{Name: tagGroup, Type: databasev1.TagType_TAG_TYPE_STRING},
		}}},
		Fields: []*databasev1.FieldSpec{
			{Name: intKind.field, FieldType: databasev1.FieldType_FIELD_TYPE_INT},
			{Name: floatKind.field, FieldType: databasev1.FieldType_FIELD_TYPE_FLOAT},
		},
		Entity: &databasev1.Entity{TagNames: []string{entity}},
	}
}

func strTag(v string) *modelv1.TagValue {
	return &modelv1.TagValue{Value: &modelv1.TagValue_Str{Str: &modelv1.Str{Value: v}}}
}

// groupRefs returns the group-by tag refs exactly as distributedPlan builds them: on the schema projected to the
// query's tag projection (default: [g]).
func groupRefs() ([][]*logical.TagRef, error) {
	s, err := lmeasure.BuildSchema(measureSpec(false), nil)
	if err != nil {
		return nil, err
	}
	tags := [][]*logical.Tag{logical.NewTags(tagFamily, tagGroup)}
	proj, err := s.CreateTagRef(tags...)
	if err != nil {
		return nil, err
	}
	return s.ProjTags(proj...).CreateTagRef(tags...)
}

// ---------------------------------------------------------------------------------------------------------------
// level dedup: partial aggregates labelled (shard, group) -> real dedup -> Reduce

func runDedup[N aggregation.Number](k *kind[N], c *Case, st *stats) []viol {
	var out []viol
	vals, err := parseRows(k, c)
	if err != nil {
		return []viol{{"harness/parse", err.Error()}}
	}
	fn := fnIndex(c.Fn)
	af := fnModel[fn]
	mode := "scalar"
	if c.GroupBy {
		mode = "grouped"
	}
	pre := "dedup/" + mode + "/" + k.name + "/" + c.Fn + "/"
	var refs [][]*logical.TagRef
	if c.GroupBy {
		if refs, err = cachedGroupRefs(); err != nil {
			return []viol{{"harness/groupRefs", err.Error()}}
		}
	}
	sh := shardRows(c)
	// partials of one shard: one per group present (grouped) or one for all its rows (scalar); none if it has no rows
	type part struct {
		group int
		rows  []N
	}
	shardParts := func(s int) []part {
		var ps []part
		for _, i := range sh[s] {
			g := -1
			if c.GroupBy {
				g = c.Rows[i].G
			}
			found := false
			for j := range ps {
				if ps[j].group == g {
					ps[j].rows = append(ps[j].rows, vals[i])
					found = true
				}
			}
			if !found {
				ps = append(ps, part{g, []N{vals[i]}})
			}
		}
		return ps
	}
	type label struct{ shard, group int }
	var in []*measurev1.InternalDataPoint
	var want []*measurev1.InternalDataPoint
	seen := map[label]bool{}
	grpRows := map[int][][]N{} // group -> rows per contributing shard, in first-arrival order
	for _, s := range responders(c) {
		for _, p := range shardParts(s) {
			m, merr := aggregation.NewMap[N](af)
			if merr != nil {
				return []viol{{pre + "NewMap-error", merr.Error()}}
			}
			for _, v := range p.rows {
				m.In(v)
			}
			fvs, perr := aggregation.PartialToFieldValues(af, m.Partial())
			if perr != nil {
				return []viol{{pre + "PartialToFieldValues-error", perr.Error()}}
			}
			dp := &measurev1.DataPoint{}
			gname := c.gname(c.Rows[sh[s][0]].G)
			if p.group >= 0 {
				gname = c.gname(p.group)
			}
			dp.TagFamilies = []*modelv1.TagFamily{{Name: tagFamily, Tags: []*modelv1.Tag{{Key: tagGroup, Value: strTag(gname)}}}}
			for i, fv := range fvs {
				name := k.field
				if i > 0 {
					name = "__agg_count"
				}
				dp.Fields = append(dp.Fields, &measurev1.DataPoint_Field{Name: name, Value: fv})
			}
			idp := &measurev1.InternalDataPoint{DataPoint: dp, ShardId: uint32(s)}
			in = append(in, idp)
			if !seen[label{s, p.group}] {
				seen[label{s, p.group}] = true
				want = append(want, idp)
				grpRows[p.group] = append(grpRows[p.group], p.rows)
			}
		}
	}
	got, derr := lmeasure.VerifC10Dedup(in, refs)
	st.evals++
	if derr != nil {
		return []viol{{pre + "dedup-error", derr.Error()}}
	}
	same := len(got) == len(want)
	for i := 0; same && i < len(got); i++ {
		same = got[i] == want[i]
	}
	if !same {
		desc := func(l []*measurev1.InternalDataPoint) string {
			s := ""
			for _, d := range l {
				s += fmt.Sprintf("(shard %d,%s)", d.ShardId, d.DataPoint.TagFamilies[0].Tags[0].Value.GetStr().GetValue())
			}
			return s
		}
		out = append(out, viol{pre + "dedup-keeps-wrong-partials", fmt.Sprintf("in %s kept %s want %s", desc(in), desc(got), desc(want))})
	}
	// reduce what the real dedup kept, per group, and compare with the reference over the distinct shards
	reducers := map[string]aggregation.Reduce[N]{}
	var order []string
	for _, idp := range got {
		g := ""
		if c.GroupBy {
			g = idp.DataPoint.TagFamilies[0].Tags[0].Value.GetStr().GetValue()
		}
		r, ok := reducers[g]
		if !ok {
			r, _ = aggregation.NewReduce[N](af)
			reducers[g] = r
			order = append(order, g)
		}
		fvs := make([]*modelv1.FieldValue, len(idp.DataPoint.Fields))
		for i, f := range idp.DataPoint.Fields {
			fvs[i] = f.Value
		}
		p, perr := aggregation.FieldValuesToPartial[N](af, fvs)
		if perr != nil {
			return append(out, viol{pre + "FieldValuesToPartial-error", perr.Error()})
		}
		r.Combine(p)
	}
	wantGroups := map[string][][]N{}
	var names []string
	for gi, rows := range grpRows {
		g := ""
		if gi >= 0 {
			g = c.gname(gi)
		}
		wantGroups[g] = rows
		names = append(names, g)
	}
	sort.Strings(names)
	for _, g := range order {
		if _, ok := wantGroups[g]; !ok {
			out = append(out, viol{pre + "group-appears-from-nowhere", g})
		}
	}
	for _, g := range names {
		r, have := reducers[g]
		if !have {
			out = append(out, viol{pre + "group-lost", g})
			continue
		}
		ref := k.ref(fn, wantGroups[g])
		v := r.Val()
		st.outcome("dedup", k.name, c.Fn, k.str(v))
		if !k.eq(v, ref) {
			out = append(out, viol{pre + "reduce(dedup(replica partials))!=reference", fmt.Sprintf("group %q got %s want %s", g, k.str(v), k.str(ref))})
		}
	}
	return out
}

// ---------------------------------------------------------------------------------------------------------------
// level topq: the bounded heap of measure_top.go

// topReference returns the first n values of the sorted input (descending for TOP, ascending for BOTTOM).
func topReference[N aggregation.Number](k *kind[N], vals []N, n int, asc bool) []N {
	s := append([]N(nil), vals...)
	sort.SliceStable(s, func(i, j int) bool {
		if asc {
			return k.less(s[i], s[j])
		}
		return k.less(s[j], s[i])
	})
	if n < len(s) {
		s = s[:n]
	}
	return s
}

func fmtVals[N aggregation.Number](k *kind[N], vs []N) string {
	s := "["
	for i, v := range vs {
		if i > 0 {
			s += " "
		}
		s += k.str(v)
	}
	return s + "]"
}

func sameVals[N aggregation.Number](k *kind[N], a, b []N) bool {
	if len(a) != len(b) {
		return false
	}
	for i := range a {
		if !k.eq(a[i], b[i]) {
			return false
		}
	}
	return true
}

func runTopQ[N aggregation.Number](k *kind[N], c *Case, st *stats) []viol {
	var out []viol
	vals, err := parseRows(k, c)
	if err != nil {
		return []viol{{"harness/parse", err.Error()}}
	}
	dir := "top"
	if c.TopAsc {
		dir = "bottom"
	}
	pre := "topq/" + k.name + "/" + dir + "/"
	idps := make([]*measurev1.InternalDataPoint, len(vals))
	for i, v := range vals {
		idps[i] = &measurev1.InternalDataPoint{DataPoint: &measurev1.DataPoint{Sid: uint64(i + 1),
			Fields: []*measurev1.DataPoint_Field{{Name: k.field, Value: k.fv(v)}}}}
	}
	want := topReference(k, vals, c.TopN, c.TopAsc)
	q := newTopQueue(k, c.TopN, c.TopAsc)
	for round := 0; round < 2; round++ { // the plan node purges and reuses its queue on every Execute
		q.purge()
		for i, v := range vals {
			q.insert(idps[i], v)
		}
		gotV, gotI := q.elements()
		st.evals++
		tag := ""
		if round == 1 {
			tag = "after-Purge/"
		}
		if !sameVals(k, gotV, want) {
			out = append(out, viol{pre + tag + fmt.Sprintf("N=%d result!=first-N-of-sorted-reference", c.TopN),
				fmt.Sprintf("inserted %s got %s want %s", fmtVals(k, vals), fmtVals(k, gotV), fmtVals(k, want))})
		}
		seen := map[*measurev1.InternalDataPoint]bool{}
		for i, idp := range gotI {
			v, ok := k.get(idp.GetDataPoint().GetFields()[0].GetValue())
			if seen[idp] || !ok || !k.eq(v, gotV[i]) {
				out = append(out, viol{pre + tag + "element-not-a-distinct-input-row", fmtVals(k, vals)})
				break
			}
			seen[idp] = true
		}
		st.outcome("topq", k.name, dir, fmtVals(k, gotV))
	}
	return out
}

// topQueue hides the generic instantiation (TopQueue[K] is constrained by streaming.TopSortKey).
type topQueue[N aggregation.Number] struct {
	purge    func()
	insert   func(*measurev1.InternalDataPoint, N)
	elements func() ([]N, []*measurev1.InternalDataPoint)
}

func newTopQueue[N aggregation.Number](k *kind[N], n int, asc bool) *topQueue[N] {
	switch any(k).(type) {
	case *kind[int64]:
		q := lmeasure.NewTopQueue[int64](n, asc)
		return &topQueue[N]{
			purge:  q.Purge,
			insert: func(idp *measurev1.InternalDataPoint, v N) { q.Insert(lmeasure.NewTopElement[int64](idp, int64(v))) },
			elements: func() ([]N, []*measurev1.InternalDataPoint) {
				var vs []N
				var is []*measurev1.InternalDataPoint
				for _, e := range q.Elements() {
					vs = append(vs, N(e.Val()))
					is = append(is, lmeasure.VerifC10TopIDP(e))
				}
				return vs, is
			},
		}
	default:
		q := lmeasure.NewTopQueue[float64](n, asc)
		return &topQueue[N]{
			purge: q.Purge,
			insert: func(idp *measurev1.InternalDataPoint, v N) {
				q.Insert(lmeasure.NewTopElement[float64](idp, float64(v)))
			},
			elements: func() ([]N, []*measurev1.InternalDataPoint) {
				var vs []N
				var is []*measurev1.InternalDataPoint
				for _, e := range q.Elements() {
					vs = append(vs, N(e.Val()))
					is = append(is, lmeasure.VerifC10TopIDP(e))
				}
				return vs, is
			},
		}
	}
}
