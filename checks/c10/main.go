// C10: aggregates, group-by and top-N equal a reference; partials compose.
//
// Bounded exhaustive enumeration (never sampled) on the real code, five levels that share one case format:
//
//	lib     pkg/query/aggregation Map / Partial / wire form / Reduce, int64 and float64
//	dedup   the liaison's replica de-duplication of partial aggregates (in-package wrapper) followed by Reduce
//	plan    the real row plans: DistributedAnalyze(...).Execute on the liaison, Analyze(..., emitPartial).Execute on
//	        every responding data node (fake storage below the index scan, fake bus, protobuf wire round trip),
//	        against Analyze(..., false).Execute over all rows and against the reference
//	topq    the bounded heap TopQueue of measure_top.go on every insertion sequence
//	vec     the vectorized operators BatchAggregation (All / Map), ReducePartialBatches, ApplyTopToReduce, BatchTop
//
// A case = multiset of rows (value, group) in alphabet order + assignment row -> shard {0,1,2} (all 3^n, so every
// set partition into <= 3 shards incl. empty ones, with every labelling) + replicas per shard {1,2} + function +
// group-by yes/no + top/bottom N.
package main

import (
	"encoding/json"
	"fmt"
	"os"
	"runtime"
	"runtime/pprof"
	"sort"
	"strings"
	"sync"

	"github.com/apache/skywalking-banyandb/pkg/logger"
	"github.com/apache/skywalking-banyandb/pkg/query/aggregation"
	"github.com/apache/skywalking-banyandb/pkg/verif/ev"
)

// Row is one data point: value (decimal for ints, shortest round-trip form for floats) and group index.
type Row struct {
	V string `json:"v"`
	G int    `json:"g"`
}

// Case is the replayable description of one explored case.
type Case struct {
	Level      string `json:"level"`
	Typ        string `json:"type"`
	Fn         string `json:"fn,omitempty"`
	Rows       []Row  `json:"rows"`
	Assign     []int  `json:"assign,omitempty"`   // shard of row i
	Replicas   []int  `json:"replicas,omitempty"` // responses per shard (1 or 2)
	Interleave bool   `json:"interleave,omitempty"`
	SkipEmpty  bool   `json:"skip_empty,omitempty"`
	GroupBy    bool   `json:"group_by,omitempty"`
	Entity     bool   `json:"entity,omitempty"` // group tag is the entity => data nodes take the sort-based group-by
	TopN       int    `json:"top_n,omitempty"`
	TopAsc     bool   `json:"top_asc,omitempty"`
	Limit      uint32 `json:"limit,omitempty"`  // plan level: request limit (0 = default 100)
	Offset     uint32 `json:"offset,omitempty"` // plan level: request offset
	Batch      int    `json:"batch_size,omitempty"` // vplan level: VectorizedConfig.BatchSize on the liaison and on every node
	// Groups: group tag values, indexed by Row.G (default {"a","b"}).
	Groups []string `json:"groups,omitempty"`
	// Shape: generator of Rows/Assign/Groups for the shape families (shape.go); expanded before the case runs.
	Shape *Shape `json:"shape,omitempty"`

	pre any // explorer only: the already parsed values ([]int64 / []float64); replay parses Rows
}

type viol struct {
	key    string
	detail string
}

const nShards = 3

var groupNames = []string{"a", "b"}

// gname is the group tag value of group index g.
func (c *Case) gname(g int) string {
	if len(c.Groups) > 0 {
		return c.Groups[g]
	}
	return groupNames[g]
}

// stats are per worker, merged at the end.
type stats struct {
	evals      int
	cases      map[string]int
	nontrivial int
	inexact    int
	clamped    int
	outcomes   map[string]struct{}
	planCache  map[string]*standalone // standalone results of the current job (same rows, every assignment)
}

// standalone is the memoised outcome of the "everything in one place" plan for one (rows, query).
type standalone struct {
	out string
	vs  []viol
}

func newStats() *stats {
	return &stats{cases: map[string]int{}, outcomes: map[string]struct{}{}}
}

func (s *stats) outcome(level, typ, fn, v string) {
	s.outcomes[level+"/"+typ+"/"+fn+"="+v] = struct{}{}
}

func (s *stats) merge(o *stats) {
	s.evals += o.evals
	s.nontrivial += o.nontrivial
	s.inexact += o.inexact
	s.clamped += o.clamped
	for k, v := range o.cases {
		s.cases[k] += v
	}
	for k := range o.outcomes {
		s.outcomes[k] = struct{}{}
	}
}

func parseRows[N aggregation.Number](k *kind[N], c *Case) ([]N, error) {
	if v, ok := c.pre.([]N); ok && len(v) == len(c.Rows) {
		return v, nil
	}
	rows := c.Rows
	out := make([]N, len(rows))
	for i, r := range rows {
		v, err := k.parse(r.V)
		if err != nil {
			return nil, err
		}
		out[i] = v
	}
	return out, nil
}

// shardRows returns, per shard, the indices of its rows (ascending).
func shardRows(c *Case) [nShards][]int {
	var out [nShards][]int
	for i := range c.Rows {
		s := 0
		if i < len(c.Assign) {
			s = c.Assign[i]
		}
		out[s] = append(out[s], i)
	}
	return out
}

// responders lists the shard of every response in arrival order.
func responders(c *Case) []int {
	rep := func(s int) int {
		if s < len(c.Replicas) && c.Replicas[s] == 2 {
			return 2
		}
		return 1
	}
	var out []int
	if c.Interleave {
		for round := 1; round <= 2; round++ {
			for s := 0; s < nShards; s++ {
				if rep(s) >= round {
					out = append(out, s)
				}
			}
		}
		return out
	}
	for s := 0; s < nShards; s++ {
		for i := 0; i < rep(s); i++ {
			out = append(out, s)
		}
	}
	return out
}

func nontrivialAgg(c *Case) bool {
	sh := shardRows(c)
	ne := 0
	dup := false
	for s := 0; s < nShards; s++ {
		if len(sh[s]) > 0 {
			ne++
			if s < len(c.Replicas) && c.Replicas[s] == 2 {
				dup = true
			}
		}
	}
	return ne >= 2 || dup
}

func pick[N any](vals []N, idx []int) []N {
	out := make([]N, 0, len(idx))
	for _, i := range idx {
		out = append(out, vals[i])
	}
	return out
}

// run dispatches one case to its level; used by the explorer and by --replay.
func run(c *Case, st *stats) []viol {
	if c.Shape != nil && len(c.Rows) == 0 {
		cc := *c
		cc.Shape.expand(&cc)
		c = &cc
	}
	switch c.Typ {
	case "int":
		return runK(intKind, c, st)
	case "float":
		return runK(floatKind, c, st)
	}
	return []viol{{"harness/unknown-type", c.Typ}}
}

func runK[N aggregation.Number](k *kind[N], c *Case, st *stats) (out []viol) {
	defer func() {
		if p := recover(); p != nil {
			out = append(out, viol{fmt.Sprintf("%s/%s/%s/panic", c.Level, c.Typ, c.Fn), fmt.Sprint(p)})
		}
	}()
	st.cases[c.Level]++
	switch c.Level {
	case "lib":
		return runLib(k, c, st)
	case "dedup":
		return runDedup(k, c, st)
	case "topq":
		return runTopQ(k, c, st)
	case "plan":
		return runPlan(k, c, st)
	case "vec":
		return runVec(k, c, st)
	case "vectop":
		return runVecTop(k, c, st)
	case "vplan":
		return runVPlan(k, c, st)
	}
	return []viol{{"harness/unknown-level", c.Level}}
}

// ---------------------------------------------------------------------------------------------------------------
// level lib

func runLib[N aggregation.Number](k *kind[N], c *Case, st *stats) []viol {
	var out []viol
	vals, err := parseRows(k, c)
	if err != nil {
		return []viol{{"harness/parse", err.Error()}}
	}
	fn := fnIndex(c.Fn)
	af := fnModel[fn]
	pre := "lib/" + k.name + "/" + c.Fn + "/"
	emptyUndefined := len(vals) == 0 && (fn == fMIN || fn == fMAX)

	m, err := aggregation.NewMap[N](af)
	if err != nil {
		return []viol{{pre + "NewMap-error", err.Error()}}
	}
	for _, v := range vals {
		m.In(v)
	}
	direct := m.Val()
	st.evals++
	refD := k.ref(fn, [][]N{vals})
	exact := k.exact(fn, vals)
	if !exact {
		st.inexact++
	}
	if !emptyUndefined && !k.eq(direct, refD) {
		out = append(out, viol{pre + "map(all)!=definition", fmt.Sprintf("got %s want %s", k.str(direct), k.str(refD))})
	}
	st.outcome("lib", k.name, c.Fn, k.str(direct))

	sh := shardRows(c)
	var parts [][]N
	mm, _ := aggregation.NewMap[N](af)
	r, err := aggregation.NewReduce[N](af)
	if err != nil {
		return append(out, viol{pre + "NewReduce-error", err.Error()})
	}
	var wire []aggregation.Partial[N]
	for s := 0; s < nShards; s++ {
		if len(sh[s]) == 0 && c.SkipEmpty {
			continue
		}
		mm.Reset()
		part := pick(vals, sh[s])
		for _, v := range part {
			mm.In(v)
		}
		parts = append(parts, part)
		fvs, perr := aggregation.PartialToFieldValues(af, mm.Partial())
		if perr != nil {
			return append(out, viol{pre + "PartialToFieldValues-error", perr.Error()})
		}
		p, perr := aggregation.FieldValuesToPartial[N](af, fvs)
		if perr != nil {
			return append(out, viol{pre + "FieldValuesToPartial-error", perr.Error()})
		}
		wire = append(wire, p)
		r.Combine(p)
	}
	composed := r.Val()
	st.evals++
	refC := k.ref(fn, parts)
	if !emptyUndefined && !k.eq(composed, refC) {
		out = append(out, viol{pre + "reduce(map(parts))!=reference", fmt.Sprintf("got %s want %s", k.str(composed), k.str(refC))})
	}
	if exact && !emptyUndefined && !k.eq(composed, direct) {
		out = append(out, viol{pre + "reduce(map(parts))!=map(all)", fmt.Sprintf("composed %s direct %s", k.str(composed), k.str(direct))})
	}
	// accumulators are reused after Reset (the plan nodes do that per group)
	r.Reset()
	for _, p := range wire {
		r.Combine(p)
	}
	if again := r.Val(); !k.eq(again, composed) {
		out = append(out, viol{pre + "reduce-after-Reset-differs", fmt.Sprintf("first %s second %s", k.str(composed), k.str(again))})
	}
	mm.Reset()
	for _, v := range vals {
		mm.In(v)
	}
	if again := mm.Val(); !k.eq(again, direct) {
		out = append(out, viol{pre + "map-after-Reset-differs", fmt.Sprintf("fresh %s reused %s", k.str(direct), k.str(again))})
	}
	st.evals += 2
	if fn == fMEAN && len(vals) > 0 && k.eq(direct, N(1)) {
		st.clamped++
	}
	return out
}

// ---------------------------------------------------------------------------------------------------------------
// enumeration

// multisets calls f with every non-decreasing index sequence of length 0..maxLen over [0,k).
func multisets(k, maxLen int, f func(idx []int)) {
	var cur []int
	var rec func(from int)
	rec = func(from int) {
		f(append([]int(nil), cur...))
		if len(cur) == maxLen {
			return
		}
		for i := from; i < k; i++ {
			cur = append(cur, i)
			rec(i)
			cur = cur[:len(cur)-1]
		}
	}
	rec(0)
}

// sequences calls f with every index sequence of length 0..maxLen over [0,k).
func sequences(k, maxLen int, f func(idx []int)) {
	var cur []int
	var rec func()
	rec = func() {
		f(append([]int(nil), cur...))
		if len(cur) == maxLen {
			return
		}
		for i := 0; i < k; i++ {
			cur = append(cur, i)
			rec()
			cur = cur[:len(cur)-1]
		}
	}
	rec()
}

// assignments returns every vector in {0..nShards-1}^n.
func assignments(n int) [][]int {
	out := [][]int{{}}
	for i := 0; i < n; i++ {
		var next [][]int
		for _, a := range out {
			for s := 0; s < nShards; s++ {
				next = append(next, append(append([]int(nil), a...), s))
			}
		}
		out = next
	}
	return out
}

var replicaVectors = func() [][]int {
	var out [][]int
	for m := 0; m < 1<<nShards; m++ {
		v := make([]int, nShards)
		for s := 0; s < nShards; s++ {
			v[s] = 1 + (m>>s)&1
		}
		out = append(out, v)
	}
	return out
}()

// replicaVectorsFor: every vector in which a shard without rows answers once, plus "every shard answers twice".
func replicaVectorsFor(assign []int) [][]int {
	var nonEmpty [nShards]bool
	for _, s := range assign {
		nonEmpty[s] = true
	}
	var out [][]int
	for _, v := range replicaVectors {
		ok := true
		all2 := true
		for s := 0; s < nShards; s++ {
			if v[s] == 2 && !nonEmpty[s] {
				ok = false
			}
			if v[s] != 2 {
				all2 = false
			}
		}
		if ok || all2 {
			out = append(out, v)
		}
	}
	return out
}

type topVariant struct {
	n   int
	asc bool
}

var topVariants = []topVariant{{0, false}, {1, false}, {2, false}, {3, false}, {1, true}, {2, true}, {3, true}}

type bounds struct {
	lib, dedupScalar, dedupGroup, dedupScalarPlan, dedupGroupPlan, planScalar, planGroup, planGroupSmall, planRawTop, topq, vecScalar, vecGroup, vecGroupSmall int
}

type job func(st *stats, report func(c *Case, vs []viol))

func rowsOf[N aggregation.Number](k *kind[N], alphabet []N, idx []int, groups int) ([]Row, []N) {
	rows := make([]Row, len(idx))
	vals := make([]N, len(idx))
	for i, x := range idx {
		rows[i] = Row{V: k.str(alphabet[x/groups]), G: x % groups}
		vals[i] = alphabet[x/groups]
	}
	return rows, vals
}

func jobsFor[N aggregation.Number](k *kind[N], b bounds) []job {
	var jobs []job
	each := func(c *Case, st *stats, report func(*Case, []viol)) {
		if onlyLevels != nil && !onlyLevels[c.Level] {
			return
		}
		vs := run(c, st)
		if len(vs) > 0 {
			cc := *c
			report(&cc, vs)
		}
	}
	// lib: full alphabet, every assignment, empty partials combined or skipped
	multisets(len(k.alphabet), b.lib, func(idx []int) {
		jobs = append(jobs, func(st *stats, report func(*Case, []viol)) {
			rows, vals := rowsOf(k, k.alphabet, idx, 1)
			for _, as := range assignments(len(idx)) {
				for fn := 0; fn < nFn; fn++ {
					for _, skip := range []bool{false, true} {
						c := &Case{Level: "lib", Typ: k.name, Fn: fnNames[fn], Rows: rows, Assign: as, SkipEmpty: skip, pre: vals}
						if nontrivialAgg(c) {
							st.nontrivial++
						}
						each(c, st, report)
					}
				}
			}
		})
	})
	// dedup + plan + vec: scalar (1 group) and grouped (2 groups)
	type lvl struct {
		level          string
		groups         int
		minLen, maxLen int
		alphabet       []N
	}
	for _, l := range []lvl{
		{"dedup", 1, 0, b.dedupScalar, k.alphabet}, {"dedup", 2, 0, b.dedupGroup, k.alphabet},
		{"dedup", 1, b.dedupScalar + 1, b.dedupScalarPlan, k.planAlphabet}, {"dedup", 2, b.dedupGroup + 1, b.dedupGroupPlan, k.planAlphabet},
		{"plan", 1, 0, b.planScalar, k.planAlphabet}, {"plan", 2, 0, b.planGroup, k.planAlphabet},
		{"plan", 2, b.planGroup + 1, b.planGroupSmall, k.smallAlphabet},
		{"vec", 1, 0, b.vecScalar, k.planAlphabet}, {"vec", 2, 0, b.vecGroup, k.planAlphabet},
		{"vec", 2, b.vecGroup + 1, b.vecGroupSmall, k.smallAlphabet},
	} {
		l := l
		multisets(len(l.alphabet)*l.groups, l.maxLen, func(idx []int) {
			if len(idx) < l.minLen {
				return
			}
			jobs = append(jobs, func(st *stats, report func(*Case, []viol)) {
				st.planCache = map[string]*standalone{}
				rows, vals := rowsOf(k, l.alphabet, idx, l.groups)
				count := func(c *Case) {
					if nontrivialAgg(c) {
						st.nontrivial++
					}
					each(c, st, report)
				}
				for _, as := range assignments(len(idx)) {
					for fn := 0; fn < nFn; fn++ {
						base := Case{Level: l.level, Typ: k.name, Fn: fnNames[fn], Rows: rows, Assign: as, GroupBy: l.groups == 2, pre: vals}
						if l.level == "dedup" {
							// every replica vector, both arrival orders
							for _, rep := range replicaVectors {
								for _, il := range []bool{false, true} {
									c := base
									c.Replicas, c.Interleave = rep, il
									count(&c)
								}
							}
							continue
						}
						// plan / vec: every replica vector over the non-empty shards (+ all shards answering twice),
						// duplicates arrive after all first answers
						for _, rep := range replicaVectorsFor(as) {
							c := base
							c.Replicas, c.Interleave = rep, true
							count(&c)
						}
						// TOP / BOTTOM N over the aggregated groups ride on the all-2 vector
						for _, tv := range topVariants[1:] {
							if l.groups == 1 && tv.n > 1 {
								continue
							}
							c := base
							c.Replicas, c.Interleave, c.TopN, c.TopAsc = replicaVectors[len(replicaVectors)-1], true, tv.n, tv.asc
							count(&c)
						}
						// the sort-based group-by of the data nodes (group tag = entity) rides on the all-1 vector
						if l.level == "plan" && l.groups == 2 {
							c := base
							c.Replicas, c.Interleave, c.Entity = replicaVectors[0], true, true
							count(&c)
						}
					}
				}
			})
		})
	}
	// plan: TOP/BOTTOM N over raw rows (no aggregation), standalone vs distributed with replicas
	multisets(len(k.planAlphabet), b.planRawTop, func(idx []int) {
		jobs = append(jobs, func(st *stats, report func(*Case, []viol)) {
			st.planCache = map[string]*standalone{}
			rows, vals := rowsOf(k, k.planAlphabet, idx, 1)
			for _, as := range assignments(len(idx)) {
				for _, rep := range replicaVectorsFor(as) {
					for _, tv := range topVariants[1:] {
						c := &Case{Level: "plan", Typ: k.name, Rows: rows, Assign: as, Replicas: rep, Interleave: true, TopN: tv.n, TopAsc: tv.asc, pre: vals}
						if nontrivialTop(k, c) {
							st.nontrivial++
						}
						each(c, st, report)
					}
				}
			}
		})
	})
	// topq / vectop: every insertion sequence
	sequences(len(k.alphabet), b.topq, func(idx []int) {
		jobs = append(jobs, func(st *stats, report func(*Case, []viol)) {
			rows, vals := rowsOf(k, k.alphabet, idx, 1)
			for _, level := range []string{"topq", "vectop"} {
				for _, tv := range topVariants[1:] {
					c := &Case{Level: level, Typ: k.name, Rows: rows, TopN: tv.n, TopAsc: tv.asc, pre: vals}
					if nontrivialTop(k, c) {
						st.nontrivial++
					}
					each(c, st, report)
				}
			}
		})
	})
	return jobs
}

// nontrivialTop: the cut is real (N < rows) or passes through a tie.
func nontrivialTop[N aggregation.Number](k *kind[N], c *Case) bool {
	if c.TopN < len(c.Rows) {
		return true
	}
	seen := map[string]bool{}
	for _, r := range c.Rows {
		if seen[r.V] {
			return true
		}
		seen[r.V] = true
	}
	return false
}

func main() {
	_ = logger.Init(logger.Logging{Env: "prod", Level: "fatal"})
	r := ev.New("C10", "exploration")
	if p := ev.Arg("--replay"); p != "" {
		replay(p)
		return
	}
	b := bounds{lib: 5, dedupScalar: 3, dedupGroup: 2, dedupScalarPlan: 4, dedupGroupPlan: 3, planScalar: 3, planGroup: 2, planGroupSmall: 3, planRawTop: 3, topq: 4,
		vecScalar: 3, vecGroup: 2, vecGroupSmall: 3}
	if ev.Thorough() {
		b = bounds{lib: 6, dedupScalar: 4, dedupGroup: 3, dedupScalarPlan: 5, dedupGroupPlan: 4, planScalar: 4, planGroup: 3, planGroupSmall: 3, planRawTop: 4, topq: 5,
			vecScalar: 4, vecGroup: 3, vecGroupSmall: 3}
	}
	if v := ev.Arg("--only"); v != "" { // debugging aid: --only lib,plan
		keep := map[string]bool{}
		for _, l := range strings.Split(v, ",") {
			keep[l] = true
		}
		onlyLevels = keep
	}
	if pf := ev.Arg("--cpuprofile"); pf != "" {
		f, _ := os.Create(pf)
		_ = pprof.StartCPUProfile(f)
		defer pprof.StopCPUProfile()
	}
	jobs := append(jobsFor(intKind, b), jobsFor(floatKind, b)...)
	jobs = append(jobs, shapeJobs(intKind)...)
	jobs = append(jobs, shapeJobs(floatKind)...)
	jobs = append(jobs, vplanJobs(intKind)...)
	jobs = append(jobs, vplanJobs(floatKind)...)
	total := newStats()
	var mu sync.Mutex
	report := func(c *Case, vs []viol) {
		for _, v := range vs {
			r.Violation(v.key, map[string]any{"case": c, "detail": v.detail})
		}
	}
	ch := make(chan job, 256)
	var wg sync.WaitGroup
	workers := runtime.NumCPU()
	for w := 0; w < workers; w++ {
		wg.Add(1)
		go func() {
			defer wg.Done()
			st := newStats()
			for j := range ch {
				j(st, report)
			}
			mu.Lock()
			total.merge(st)
			mu.Unlock()
		}()
	}
	for _, j := range jobs {
		ch <- j
	}
	close(ch)
	wg.Wait()

	// samples: a few real cases, re-run so that the evidence shows inputs and observed outputs
	for _, c := range sampleCases() {
		st := newStats()
		vs := run(c, st)
		var outs []string
		for o := range st.outcomes {
			outs = append(outs, o)
		}
		sort.Strings(outs)
		r.Sample(map[string]any{"case": c, "observed": outs, "violations": len(vs)})
	}
	r.Set("evaluations", total.evals)
	r.Set("distinct_nontrivial", total.nontrivial)
	r.Set("cases_per_level", total.cases)
	r.Set("distinct_outcomes", len(total.outcomes))
	r.Set("float_or_overflow_cases_checked_against_association_reference_only", total.inexact)
	r.Set("mean_results_clamped_to_1", total.clamped)
	r.Set("bounds", map[string]any{
		"rows_max": map[string]int{"lib": b.lib, "dedup_scalar": b.dedupScalar, "dedup_grouped": b.dedupGroup,
			"dedup_scalar_plan_alphabet": b.dedupScalarPlan, "dedup_grouped_plan_alphabet": b.dedupGroupPlan, "plan_scalar": b.planScalar,
			"plan_grouped": b.planGroup, "plan_grouped_small_alphabet": b.planGroupSmall, "plan_raw_top": b.planRawTop, "topq_sequences": b.topq,
			"vec_scalar": b.vecScalar, "vec_grouped": b.vecGroup, "vec_grouped_small_alphabet": b.vecGroupSmall},
		"shape_families": shapeBounds(),
		"vplan_grid":     vplanBounds(),
		"shards":         nShards, "replicas_per_shard": "1|2", "groups": 2, "top_n": "1..3 top and bottom",
		"int_alphabet": strs(intKind, intKind.alphabet), "float_alphabet": strs(floatKind, floatKind.alphabet),
		"int_plan_alphabet": strs(intKind, intKind.planAlphabet), "float_plan_alphabet": strs(floatKind, floatKind.planAlphabet),
		"int_small_alphabet": strs(intKind, intKind.smallAlphabet), "float_small_alphabet": strs(floatKind, floatKind.smallAlphabet),
	})
	r.Set("rule", "evaluation = one execution of real aggregation/plan/operator code over a case; non-trivial = aggregate case whose rows lie in >=2 non-empty shards or whose non-empty shard answers twice, or top-N case where N < number of rows or two rows tie; every case of the stated bounds is enumerated exactly once")
	r.Assume("MEAN is taken as implemented and undocumented: quotient (truncated for ints) clamped to >= 1; for int64 it is compared with the mathematical definition only when the numerator does not overflow")
	r.Assume("float SUM/MEAN: equality with the exact value is demanded when every subset sum is exactly representable; otherwise the IEEE result of the documented association (row order inside a node, response order at the liaison)")
	r.Assume("storage below the index scan and the message bus are replaced by fakes; the plan nodes, accumulators, dedup, protobuf wire forms are real")
	r.Assume("values outside the alphabets, more than 3 shards, 2 groups and 2 replicas are not covered")
	pprof.StopCPUProfile()
	r.Finish()
}

var onlyLevels map[string]bool

func strs[N aggregation.Number](k *kind[N], vs []N) []string {
	out := make([]string, len(vs))
	for i, v := range vs {
		out[i] = k.str(v)
	}
	return out
}

func sampleCases() []*Case {
	return []*Case{
		{Level: "lib", Typ: "int", Fn: "SUM", Rows: []Row{{"9223372036854775807", 0}, {"2", 0}, {"-9223372036854775808", 0}}, Assign: []int{0, 1, 1}},
		{Level: "lib", Typ: "float", Fn: "MEAN", Rows: []Row{{"1.5", 0}, {"1e+308", 0}, {"1e+308", 0}}, Assign: []int{2, 0, 0}, SkipEmpty: true},
		{Level: "dedup", Typ: "int", Fn: "COUNT", Rows: []Row{{"2", 0}, {"2", 1}, {"-1", 0}}, Assign: []int{0, 0, 2}, Replicas: []int{2, 1, 2}, Interleave: true, GroupBy: true},
		{Level: "plan", Typ: "int", Fn: "MEAN", Rows: []Row{{"2", 0}, {"2", 1}, {"9223372036854775807", 1}}, Assign: []int{1, 1, 2}, Replicas: []int{2, 2, 2}, Interleave: true, GroupBy: true, TopN: 1},
		{Level: "plan", Typ: "float", Rows: []Row{{"1.5", 0}, {"1.5", 0}, {"-1.5", 0}}, Assign: []int{0, 1, 1}, Replicas: []int{1, 2, 1}, Interleave: true, TopN: 2, TopAsc: true},
		{Level: "topq", Typ: "int", Rows: []Row{{"2", 0}, {"-1", 0}, {"2", 0}, {"0", 0}}, TopN: 2},
		{Level: "vec", Typ: "float", Fn: "MIN", Rows: []Row{{"0", 0}, {"5e-324", 1}, {"-1.5", 1}}, Assign: []int{0, 1, 2}, Replicas: []int{1, 2, 1}, Interleave: true, GroupBy: true},
		{Level: "vplan", Typ: "int", Fn: "SUM", GroupBy: true, Replicas: []int{1, 1, 1}, Interleave: true, TopN: 2, Batch: 2, Shape: &Shape{Kind: "groups", GroupsPerNode: 5, Nodes: 2}},
		{Level: "vectop", Typ: "float", Rows: []Row{{"1.5", 0}, {"1.5", 0}, {"1e+308", 0}}, TopN: 1, TopAsc: true},
	}
}

func replay(path string) {
	b, err := os.ReadFile(path)
	if err != nil {
		fmt.Fprintln(os.Stderr, "replay:", err)
		os.Exit(2)
	}
	var doc struct {
		Key      string `json:"key"`
		Artefact struct {
			Case *Case `json:"case"`
		} `json:"artefact"`
	}
	if err := json.Unmarshal(b, &doc); err != nil || doc.Artefact.Case == nil {
		fmt.Fprintln(os.Stderr, "replay: not a C10 artefact:", err)
		os.Exit(2)
	}
	st := newStats()
	vs := run(doc.Artefact.Case, st)
	cj, _ := json.Marshal(doc.Artefact.Case)
	fmt.Printf("replay %s\n  case: %s\n", path, cj)
	var outs []string
	for o := range st.outcomes {
		outs = append(outs, o)
	}
	sort.Strings(outs)
	fmt.Printf("  observed: %v\n", outs)
	if len(vs) == 0 {
		fmt.Println("  no violation")
		os.Exit(0)
	}
	for _, v := range vs {
		fmt.Printf("  VIOLATION %s: %s\n", v.key, v.detail)
	}
	os.Exit(1)
}
