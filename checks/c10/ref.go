// Reference model ("boring Go"): the documented definition of SUM/COUNT/MIN/MAX/MEAN over a list of shards, each a
// list of values.  Integers: math/big, reduced to int64 two's-complement wrap-around.  Floats: IEEE evaluation in the
// association the implementation documents (sequential inside a shard, then sequential over the partials), plus an
// exactness verdict computed with math/big.Rat (every subset sum exactly representable => every association yields
// the same, exact, value).
package main

import (
	"fmt"
	"math"
	"math/big"
	"sort"
	"strconv"
	"sync"

	modelv1 "github.com/apache/skywalking-banyandb/api/proto/banyandb/model/v1"
	"github.com/apache/skywalking-banyandb/pkg/query/aggregation"
)

const (
	fSUM = iota
	fCOUNT
	fMIN
	fMAX
	fMEAN
	nFn
)

var fnNames = [nFn]string{"SUM", "COUNT", "MIN", "MAX", "MEAN"}

var fnModel = [nFn]modelv1.AggregationFunction{
	modelv1.AggregationFunction_AGGREGATION_FUNCTION_SUM,
	modelv1.AggregationFunction_AGGREGATION_FUNCTION_COUNT,
	modelv1.AggregationFunction_AGGREGATION_FUNCTION_MIN,
	modelv1.AggregationFunction_AGGREGATION_FUNCTION_MAX,
	modelv1.AggregationFunction_AGGREGATION_FUNCTION_MEAN,
}

func fnIndex(name string) int {
	for i, n := range fnNames {
		if n == name {
			return i
		}
	}
	return -1
}

// kind bundles everything type specific (int64 / float64).
type kind[N aggregation.Number] struct {
	name     string
	field    string
	alphabet []N
	// planAlphabet is the reduced alphabet used by the plan-level and vectorized-operator levels.
	planAlphabet []N
	// smallAlphabet: two values, for one more row at the plan / vectorized levels.
	smallAlphabet []N
	str           func(N) string
	parse         func(string) (N, error)
	eq            func(a, b N) bool
	less          func(a, b N) bool
	fv            func(N) *modelv1.FieldValue
	get           func(*modelv1.FieldValue) (N, bool)
	// ref returns the reference value for the association "shards" (empty shards contribute nothing).
	ref func(fn int, shards [][]N) N
	// exact: the reference value of fn over vals is the exact mathematical definition in every association (false: it
	// depends on the float association, or the int64 MEAN numerator overflows).
	exact func(fn int, vals []N) bool
}

var mask64 = new(big.Int).Sub(new(big.Int).Lsh(big.NewInt(1), 64), big.NewInt(1))

func wrap64(x *big.Int) int64 {
	m := new(big.Int).And(x, mask64) // big.Int.And on negative numbers uses two's complement semantics
	return int64(m.Uint64())
}

func refInt(fn int, shards [][]int64) int64 {
	var all []int64
	for _, s := range shards {
		all = append(all, s...)
	}
	n := int64(len(all))
	switch fn {
	case fCOUNT:
		return n
	case fSUM, fMEAN:
		sum := new(big.Int)
		for _, v := range all {
			sum.Add(sum, big.NewInt(v))
		}
		if fn == fSUM {
			return wrap64(sum) // documented result type int64: wrap-around
		}
		if n == 0 {
			return 0
		}
		exact := sum.IsInt64()
		// as implemented (and undocumented): truncated quotient of the int64 numerator, never below 1
		q := wrap64(sum) / n
		if exact {
			q = new(big.Int).Quo(sum, big.NewInt(n)).Int64()
		}
		if q < 1 {
			q = 1
		}
		return q
	case fMIN:
		m := int64(math.MaxInt64)
		for _, v := range all {
			if v < m {
				m = v
			}
		}
		return m
	case fMAX:
		m := int64(math.MinInt64)
		for _, v := range all {
			if v > m {
				m = v
			}
		}
		return m
	}
	panic("fn")
}

func exactInt(fn int, vals []int64) bool {
	if fn != fMEAN {
		return true
	}
	sum := new(big.Int)
	for _, v := range vals {
		sum.Add(sum, big.NewInt(v))
	}
	return sum.IsInt64()
}

func exactFloat(fn int, vals []float64) bool {
	if fn != fSUM && fn != fMEAN {
		return true
	}
	return len(vals) <= 8 && allSubsetSumsExactLocked(vals)
}

var (
	exactCache = map[string]bool{}
	exactMu    sync.RWMutex
)

func allSubsetSumsExactLocked(all []float64) bool {
	s := append([]float64(nil), all...)
	sort.Float64s(s)
	key := fmt.Sprint(s)
	exactMu.RLock()
	v, ok := exactCache[key]
	exactMu.RUnlock()
	if ok {
		return v
	}
	v = allSubsetSumsExact(s)
	exactMu.Lock()
	exactCache[key] = v
	exactMu.Unlock()
	return v
}

// allSubsetSumsExact: every sub-multiset sum is a finite float64 (then float addition is exact in every association).
func allSubsetSumsExact(all []float64) bool {
	s := all
	ok := true
	for mask := 1; mask < 1<<len(s) && ok; mask++ {
		sum := new(big.Rat)
		for i, v := range s {
			if mask&(1<<i) != 0 {
				sum.Add(sum, new(big.Rat).SetFloat64(v))
			}
		}
		f, exact := sum.Float64()
		if !exact || math.IsInf(f, 0) {
			ok = false
		}
	}
	return ok
}

func refFloat(fn int, shards [][]float64) float64 {
	n := 0
	var all []float64
	for _, s := range shards {
		n += len(s)
		all = append(all, s...)
	}
	switch fn {
	case fCOUNT:
		return float64(n)
	case fSUM, fMEAN:
		total := 0.0
		for _, s := range shards {
			if len(s) == 0 {
				continue
			}
			part := 0.0
			for _, v := range s {
				part += v
			}
			total += part
		}
		if fn == fSUM {
			return total
		}
		if n == 0 {
			return 0
		}
		v := total / float64(n)
		if v < 1 { // as implemented (undocumented clamp)
			v = 1
		}
		return v
	case fMIN:
		m := math.MaxFloat64
		for _, v := range all {
			if v < m {
				m = v
			}
		}
		return m
	case fMAX:
		m := -math.MaxFloat64
		for _, v := range all {
			if v > m {
				m = v
			}
		}
		return m
	}
	panic("fn")
}

func floatEq(a, b float64) bool {
	if math.IsNaN(a) || math.IsNaN(b) {
		return math.IsNaN(a) && math.IsNaN(b)
	}
	return a == b && math.Signbit(a) == math.Signbit(b)
}

var intKind = &kind[int64]{
	name:          "int",
	field:         "vi",
	alphabet:      []int64{0, 1, -1, 2, math.MaxInt64, math.MinInt64, math.MaxInt64 - 1},
	planAlphabet:  []int64{0, -1, 2, math.MaxInt64, math.MinInt64},
	smallAlphabet: []int64{-1, math.MaxInt64},
	str:           func(v int64) string { return strconv.FormatInt(v, 10) },
	parse:         func(s string) (int64, error) { return strconv.ParseInt(s, 10, 64) },
	eq:            func(a, b int64) bool { return a == b },
	less:          func(a, b int64) bool { return a < b },
	fv: func(v int64) *modelv1.FieldValue {
		return &modelv1.FieldValue{Value: &modelv1.FieldValue_Int{Int: &modelv1.Int{Value: v}}}
	},
	get: func(f *modelv1.FieldValue) (int64, bool) {
		x, ok := f.GetValue().(*modelv1.FieldValue_Int)
		if !ok {
			return 0, false
		}
		return x.Int.GetValue(), true
	},
	ref:   refInt,
	exact: exactInt,
}

var floatKind = &kind[float64]{
	name:          "float",
	field:         "vf",
	alphabet:      []float64{0, 1.5, -1.5, 1e308, -1e308, 5e-324},
	planAlphabet:  []float64{0, 1.5, -1.5, 1e308, 5e-324},
	smallAlphabet: []float64{-1.5, 1e308},
	str:           func(v float64) string { return strconv.FormatFloat(v, 'g', -1, 64) },
	parse:         func(s string) (float64, error) { return strconv.ParseFloat(s, 64) },
	eq:            floatEq,
	less:          func(a, b float64) bool { return a < b },
	fv: func(v float64) *modelv1.FieldValue {
		return &modelv1.FieldValue{Value: &modelv1.FieldValue_Float{Float: &modelv1.Float{Value: v}}}
	},
	get: func(f *modelv1.FieldValue) (float64, bool) {
		x, ok := f.GetValue().(*modelv1.FieldValue_Float)
		if !ok {
			return 0, false
		}
		return x.Float.GetValue(), true
	},
	ref:   refFloat,
	exact: exactFloat,
}
