// level vplan (round 2): the vectorized DISTRIBUTED planner end to end, in raw wire mode.
//
//	liaison    vplan.AnalyzeDistributed(req, ...).Execute  (node-request rewriting: limit+offset push-down, limit lifted
//	           to MaxUint32 under Top-over-Agg; collectRawFrameResponses; ReduceRawFrames; ApplyTopToReduce; egress)
//	data node  vplan.Dispatch(<the request the liaison really sent>, emitPartial) on a fake storage
//	           (= Analyze -> Scan -> BatchAggregation(AggModeMap) -> BatchLimit pipeline) and FrameEmitter.EmitFrame
//	           (= DrainPipelineToFrame: the ONE raw frame a node answers with), exactly as banyand/query/processor.go
//
// The new dimension is VectorizedConfig.BatchSize relative to the number of groups a node owns: the node's partials
// span 1, exactly 1 full, 2, 3 or more batches, so that every seam that moves partials batch by batch (the map
// operator's pagination, the terminal limit's selection vectors, the multi-batch coalesce of the emitted frame, the
// frame codec's active-row handling, the liaison's reduce pagination) is crossed with every function, top variant,
// limit/offset window, node count and replica vector.
package main

import (
	"context"
	"fmt"
	"time"

	"google.golang.org/protobuf/proto"

	"github.com/apache/skywalking-banyandb/api/data"
	measurev1 "github.com/apache/skywalking-banyandb/api/proto/banyandb/measure/v1"
	"github.com/apache/skywalking-banyandb/pkg/bus"
	"github.com/apache/skywalking-banyandb/pkg/query/aggregation"
	"github.com/apache/skywalking-banyandb/pkg/query/executor"
	lmeasure "github.com/apache/skywalking-banyandb/pkg/query/logical/measure"
	vmeasure "github.com/apache/skywalking-banyandb/pkg/query/vectorized/measure"
	vplan "github.com/apache/skywalking-banyandb/pkg/query/vectorized/measure/plan"

	databasev1 "github.com/apache/skywalking-banyandb/api/proto/banyandb/database/v1"
	modelv1 "github.com/apache/skywalking-banyandb/api/proto/banyandb/model/v1"
)

func init() {
	// per-process flag; only the vectorized distributed plan and the (unused here) bus codec read it
	data.SetMeasureWireModeRaw(true)
}

var (
	vplanGroupsPerNode = []int{1, 2, 3, 4, 5, 9}
	vplanNodes         = []int{1, 2, 3}
	vplanBatchSizes    = []int{1, 2, 3, 4, 8, 1024}
	vplanWindows       = [][2]uint32{{0, 0}, {2, 0}, {2, 3}} // limit, offset; limit 0 = default (100)
	vplanTops          = []topVariant{{0, false}, {2, false}, {2, true}}
	vplanReplicas      = [][]int{{1, 1, 1}, {2, 2, 2}}
)

func vplanBounds() map[string]any {
	return map[string]any{"groups_per_node": vplanGroupsPerNode, "nodes": vplanNodes, "batch_size": vplanBatchSizes,
		"limit_offset": vplanWindows, "top": "none|TOP 2|BOTTOM 2", "functions": fnNames, "replicas": vplanReplicas,
		"types": "int,float", "group_by": "always (one row per (node, group); neighbouring nodes share half their groups)"}
}

func vplanCfg(batch int) vmeasure.VectorizedConfig {
	return vmeasure.VectorizedConfig{Enabled: true, BatchSize: batch, QueryMemoryMiB: 64, BroadcastTimeout: time.Second}
}

// fakeVecCluster: every responder runs the real vectorized data-node dispatch on the request the liaison really sent
// and answers with the raw frame its iterator emits.
type fakeVecCluster struct {
	md      *databasev1.Measure
	tr      *modelv1.TimeRange
	nodes   [][]prow
	shardOf []int
	batch   int
	evals   int
	frames  int // non-empty frames
}

func (f *fakeVecCluster) TimeRange() *modelv1.TimeRange      { return f.tr }
func (f *fakeVecCluster) NodeSelectors() map[string][]string { return nil }

func (f *fakeVecCluster) Broadcast(_ time.Duration, _ bus.Topic, msg bus.Message) ([]bus.Future, error) {
	sent, ok := msg.Data().(*measurev1.InternalQueryRequest)
	if !ok {
		return nil, fmt.Errorf("unexpected broadcast payload %T", msg.Data())
	}
	wire, err := proto.Marshal(sent)
	if err != nil {
		return nil, err
	}
	var out []bus.Future
	answered := map[int][]byte{}
	done := map[int]bool{}
	for i, rows := range f.nodes {
		if !done[f.shardOf[i]] {
			req := &measurev1.InternalQueryRequest{}
			if err = proto.Unmarshal(wire, req); err != nil {
				return nil, err
			}
			body, nerr := runVecNode(f.md, req.GetRequest(), rows, req.GetAggReturnPartial(), f.batch)
			f.evals++
			if nerr != nil {
				return nil, nerr
			}
			answered[f.shardOf[i]] = body // the replica of the same shard sends the same bytes
			done[f.shardOf[i]] = true
		}
		body := append([]byte(nil), answered[f.shardOf[i]]...)
		if len(body) > 0 {
			f.frames++
		}
		out = append(out, future{bus.NewMessage(bus.MessageID(1), body)})
	}
	return out, nil
}

// runVecNode = tryVecDispatch + the raw-frame branch of executeMeasurePlan's response (banyand/query/processor.go).
func runVecNode(md *databasev1.Measure, req *measurev1.QueryRequest, rows []prow, emitPartial bool, batch int) ([]byte, error) {
	s, err := lmeasure.BuildSchema(md, nil)
	if err != nil {
		return nil, err
	}
	ctx := context.Background()
	it, _, handled, err := vplan.Dispatch(ctx, req, md.Metadata, md, s, &fakeEC{rows: rows}, vplanCfg(batch), emitPartial, false)
	if err != nil {
		return nil, fmt.Errorf("node dispatch: %w", err)
	}
	if !handled {
		return nil, fmt.Errorf("node dispatch: not handled by the vectorized path")
	}
	em, ok := it.(vmeasure.FrameEmitter)
	if !ok {
		_ = it.Close()
		return nil, fmt.Errorf("node iterator %T is no FrameEmitter", it)
	}
	body, err := em.EmitFrame(ctx)
	cerr := it.Close()
	if err != nil {
		return nil, fmt.Errorf("node emit frame: %w", err)
	}
	if cerr != nil {
		return nil, fmt.Errorf("node close: %w", cerr)
	}
	return body, nil
}

func runVecDistributed(md *databasev1.Measure, req *measurev1.QueryRequest, cl *fakeVecCluster) ([]*measurev1.DataPoint, error) {
	plan, err := vplan.AnalyzeDistributed(req, []*databasev1.Measure{md}, nil, vplanCfg(cl.batch))
	if err != nil {
		return nil, fmt.Errorf("distributed analyze: %w", err)
	}
	it, err := plan.Execute(executor.WithDistributedExecutionContext(context.Background(), cl))
	if err != nil {
		return nil, fmt.Errorf("distributed execute: %w", err)
	}
	var out []*measurev1.DataPoint
	for it.Next() {
		for _, idp := range it.Current() {
			out = append(out, idp.GetDataPoint())
		}
	}
	if err = it.Close(); err != nil {
		return nil, fmt.Errorf("distributed close: %w", err)
	}
	return out, nil
}

func runVPlan[N aggregation.Number](k *kind[N], c *Case, st *stats) []viol {
	vals, err := parseRows(k, c)
	if err != nil {
		return []viol{{"harness/parse", err.Error()}}
	}
	if !c.GroupBy || c.Fn == "" || c.Batch <= 0 {
		return []viol{{"harness/vplan-case", "vplan cases are grouped aggregations with a batch size"}}
	}
	pre := "vplan/grouped/" + k.name + "/" + c.Fn + "/"
	md := measureSpec(false)
	req := buildRequest(k.field, c)
	rows := make([]prow, len(vals))
	sh := shardRows(c)
	for s := 0; s < nShards; s++ {
		for _, i := range sh[s] {
			rows[i] = prow{fv: k.fv(vals[i]), field: k.field, group: c.gname(c.Rows[i].G), gidx: c.Rows[i].G, shard: s, idx: i}
		}
	}
	fn := fnIndex(c.Fn)
	cl := &fakeVecCluster{md: md, tr: req.TimeRange, batch: c.Batch}
	var assoc [][]int
	seenShard := map[int]bool{}
	for _, s := range responders(c) {
		cl.nodes = append(cl.nodes, pick(rows, sh[s]))
		cl.shardOf = append(cl.shardOf, s)
		if !seenShard[s] {
			seenShard[s] = true
			if len(sh[s]) > 0 {
				assoc = append(assoc, sh[s])
			}
		}
	}
	// reference: per group, the partition of its values by node in response order
	per := map[string][][]N{}
	for _, part := range assoc {
		byG := map[string][]N{}
		var order []string
		for _, i := range part {
			g := c.gname(c.Rows[i].G)
			if _, ok := byG[g]; !ok {
				order = append(order, g)
			}
			byG[g] = append(byG[g], vals[i])
		}
		for _, g := range order {
			per[g] = append(per[g], byG[g])
		}
	}
	want := map[string]N{}
	for g, parts := range per {
		want[g] = k.ref(fn, parts)
	}
	comp, cerr := runVecDistributed(md, proto.Clone(req).(*measurev1.QueryRequest), cl)
	st.evals += 1 + cl.evals
	if cerr != nil {
		return []viol{{pre + "distributed/error", cerr.Error()}}
	}
	cOut, xerr := extract(k, comp)
	if xerr != nil {
		return []viol{{pre + "distributed/malformed-result", xerr.Error()}}
	}
	vs := checkResult(k, c, pre, "distributed", cOut, want, vals)
	for i := range vs {
		vs[i].detail = fmt.Sprintf("batch_size=%d groups/node=%v nodes=%d: %s", c.Batch, shapeGPN(c), len(assoc), vs[i].detail)
	}
	st.outcome("vplan", k.name, c.Fn, fmtOut(k, cOut))
	return vs
}

func shapeGPN(c *Case) int {
	if c.Shape != nil {
		return c.Shape.GroupsPerNode
	}
	return -1
}

func vplanJobs[N aggregation.Number](k *kind[N]) []job {
	var jobs []job
	for _, gpn := range vplanGroupsPerNode {
		for _, nodes := range vplanNodes {
			gpn, nodes := gpn, nodes
			jobs = append(jobs, func(st *stats, report func(*Case, []viol)) {
				if onlyLevels != nil && !onlyLevels["vplan"] {
					return
				}
				for _, batch := range vplanBatchSizes {
					for fn := 0; fn < nFn; fn++ {
						for _, tv := range vplanTops {
							for _, w := range vplanWindows {
								for _, rep := range vplanReplicas {
									c := Case{Level: "vplan", Typ: k.name, Fn: fnNames[fn], GroupBy: true, Replicas: rep, Interleave: true,
										TopN: tv.n, TopAsc: tv.asc, Limit: w[0], Offset: w[1], Batch: batch,
										Shape: &Shape{Kind: "groups", GroupsPerNode: gpn, Nodes: nodes}}
									if nodes >= 2 || rep[0] == 2 || gpn > batch {
										st.nontrivial++
									}
									vs := run(&c, st)
									if len(vs) > 0 {
										cc := c
										report(&cc, vs)
									}
								}
							}
						}
					}
				}
			})
		}
	}
	return jobs
}
