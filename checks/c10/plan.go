package main

import (
	"context"
	"fmt"
	"sort"
	"strings"
	"sync"
	"time"

	"google.golang.org/protobuf/proto"
	"google.golang.org/protobuf/types/known/timestamppb"

	"github.com/apache/skywalking-banyandb/api/common"
	commonv1 "github.com/apache/skywalking-banyandb/api/proto/banyandb/common/v1"
	databasev1 "github.com/apache/skywalking-banyandb/api/proto/banyandb/database/v1"
	measurev1 "github.com/apache/skywalking-banyandb/api/proto/banyandb/measure/v1"
	modelv1 "github.com/apache/skywalking-banyandb/api/proto/banyandb/model/v1"
	"github.com/apache/skywalking-banyandb/pkg/bus"
	"github.com/apache/skywalking-banyandb/pkg/index"
	"github.com/apache/skywalking-banyandb/pkg/query/aggregation"
	"github.com/apache/skywalking-banyandb/pkg/query/executor"
	"github.com/apache/skywalking-banyandb/pkg/query/logical"
	lmeasure "github.com/apache/skywalking-banyandb/pkg/query/logical/measure"
	"github.com/apache/skywalking-banyandb/pkg/query/model"
)

var (
	groupRefsOnce sync.Once
	groupRefsVal  [][]*logical.TagRef
	groupRefsErr  error
)

func cachedGroupRefs() ([][]*logical.TagRef, error) {
	groupRefsOnce.Do(func() { groupRefsVal, groupRefsErr = groupRefs() })
	return groupRefsVal, groupRefsErr
}

// ---------------------------------------------------------------------------------------------------------------
// fake storage below the index scan: returns the rows of one node, one MeasureResult per row

type prow struct {
	fv    *modelv1.FieldValue
	field string
	group string
	gidx  int
	shard int
	idx   int
}

type fakeEC struct{ rows []prow }

func (f *fakeEC) Query(_ context.Context, opts model.MeasureQueryOptions) (model.MeasureQueryResult, error) {
	rows := append([]prow(nil), f.rows...)
	if opts.Order != nil && opts.Order.Type == index.OrderByTypeSeries {
		// storage returns series by series when the plan groups by entity
		sort.SliceStable(rows, func(i, j int) bool { return rows[i].group < rows[j].group })
	}
	return &fakeResult{rows: rows}, nil
}

type fakeResult struct {
	rows []prow
	pos  int
}

func (f *fakeResult) Pull() *model.MeasureResult {
	if f.pos >= len(f.rows) {
		return nil
	}
	r := f.rows[f.pos]
	f.pos++
	sid := common.SeriesID(1 + r.gidx)
	return &model.MeasureResult{
		SID:        sid,
		Timestamps: []int64{int64(r.idx+1) * int64(time.Millisecond)},
		Versions:   []int64{1},
		ShardIDs:   []common.ShardID{common.ShardID(r.shard)},
		TagFamilies: []model.TagFamily{{Name: tagFamily, Tags: []model.Tag{
			{Name: tagSvc, Values: []*modelv1.TagValue{strTag("s")}},
			{Name: tagGroup, Values: []*modelv1.TagValue{strTag(r.group)}},
		}}},
		Fields: []model.Field{{Name: r.field, Values: []*modelv1.FieldValue{r.fv}}},
	}
}

func (f *fakeResult) Release() {}

// ---------------------------------------------------------------------------------------------------------------
// fake bus: every responder runs the real data-node plan on the request the liaison really sent

type future struct{ m bus.Message }

func (f future) Get() (bus.Message, error)      { return f.m, nil }
func (f future) GetAll() ([]bus.Message, error) { return []bus.Message{f.m}, nil }

type fakeCluster struct {
	md        *databasev1.Measure
	tr        *modelv1.TimeRange
	nodes     [][]prow // rows of every responder, in arrival order
	shardOf   []int    // shard of every responder: replicas of a shard hold the same rows and answer identically
	evals     int
	err       error
	responses [][]*measurev1.InternalDataPoint
}

func (f *fakeCluster) TimeRange() *modelv1.TimeRange      { return f.tr }
func (f *fakeCluster) NodeSelectors() map[string][]string { return nil }

func (f *fakeCluster) Broadcast(_ time.Duration, _ bus.Topic, msg bus.Message) ([]bus.Future, error) {
	sent, ok := msg.Data().(*measurev1.InternalQueryRequest)
	if !ok {
		return nil, fmt.Errorf("unexpected broadcast payload %T", msg.Data())
	}
	wire, err := proto.Marshal(sent)
	if err != nil {
		return nil, err
	}
	var out []bus.Future
	answered := map[int][]byte{}
	for i, rows := range f.nodes {
		b, ok := answered[f.shardOf[i]]
		if !ok {
			req := &measurev1.InternalQueryRequest{}
			if err = proto.Unmarshal(wire, req); err != nil {
				return nil, err
			}
			dps, nerr := runLocal(f.md, req.GetRequest(), rows, req.GetAggReturnPartial())
			f.evals++
			if nerr != nil {
				f.err = nerr
				return nil, nerr
			}
			if b, err = proto.Marshal(&measurev1.InternalQueryResponse{DataPoints: dps}); err != nil {
				return nil, err
			}
			answered[f.shardOf[i]] = b // the replica of the same shard sends the same bytes
		}
		resp := &measurev1.InternalQueryResponse{}
		if err = proto.Unmarshal(b, resp); err != nil {
			return nil, err
		}
		f.responses = append(f.responses, resp.DataPoints)
		out = append(out, future{bus.NewMessage(bus.MessageID(1), resp)})
	}
	return out, nil
}

// runLocal = executeMeasurePlan + collectInternalDataPoints of banyand/query/processor.go (row path).
func runLocal(md *databasev1.Measure, req *measurev1.QueryRequest, rows []prow, emitPartial bool) ([]*measurev1.InternalDataPoint, error) {
	s, err := lmeasure.BuildSchema(md, nil)
	if err != nil {
		return nil, err
	}
	plan, err := lmeasure.Analyze(req, []*commonv1.Metadata{md.Metadata}, []logical.Schema{s},
		[]executor.MeasureExecutionContext{&fakeEC{rows: rows}}, emitPartial)
	if err != nil {
		return nil, fmt.Errorf("analyze: %w", err)
	}
	it, err := plan.(executor.MeasureExecutable).Execute(context.Background())
	if err != nil {
		return nil, fmt.Errorf("execute: %w", err)
	}
	var out []*measurev1.InternalDataPoint
	for it.Next() {
		cur := it.Current()
		if len(cur) > 0 {
			out = append(out, cur[0])
		}
	}
	if err = it.Close(); err != nil {
		return nil, fmt.Errorf("close: %w", err)
	}
	return out, nil
}

// runDistributed = the row path of banyand/dquery/measure.go.
func runDistributed(md *databasev1.Measure, req *measurev1.QueryRequest, cl *fakeCluster) ([]*measurev1.DataPoint, error) {
	s, err := lmeasure.BuildSchema(md, nil)
	if err != nil {
		return nil, err
	}
	plan, err := lmeasure.DistributedAnalyze(req, []logical.Schema{s}, 0)
	if err != nil {
		return nil, fmt.Errorf("distributed analyze: %w", err)
	}
	it, err := plan.(executor.MeasureExecutable).Execute(executor.WithDistributedExecutionContext(context.Background(), cl))
	if err != nil {
		return nil, fmt.Errorf("distributed execute: %w", err)
	}
	var out []*measurev1.DataPoint
	for it.Next() {
		cur := it.Current()
		if len(cur) > 0 {
			out = append(out, cur[0].GetDataPoint())
		}
	}
	if err = it.Close(); err != nil {
		return nil, fmt.Errorf("distributed close: %w", err)
	}
	return out, nil
}

func buildRequest(field string, c *Case) *measurev1.QueryRequest {
	proj := &modelv1.TagProjection{TagFamilies: []*modelv1.TagProjection_TagFamily{{Name: tagFamily, Tags: []string{tagGroup}}}}
	req := &measurev1.QueryRequest{
		Groups:          []string{groupName},
		Name:            measureName,
		TimeRange:       &modelv1.TimeRange{Begin: timestamppb.New(time.Unix(0, 0)), End: timestamppb.New(time.Unix(3600, 0))},
		TagProjection:   proj,
		FieldProjection: &measurev1.QueryRequest_FieldProjection{Names: []string{field}},
	}
	if c.GroupBy {
		req.GroupBy = &measurev1.QueryRequest_GroupBy{TagProjection: proto.Clone(proj).(*modelv1.TagProjection), FieldName: field}
	}
	if c.Fn != "" {
		req.Agg = &measurev1.QueryRequest_Aggregation{Function: fnModel[fnIndex(c.Fn)], FieldName: field}
	}
	req.Limit, req.Offset = c.Limit, c.Offset
	if c.TopN > 0 {
		srt := modelv1.Sort_SORT_DESC
		if c.TopAsc {
			srt = modelv1.Sort_SORT_ASC
		}
		req.Top = &measurev1.QueryRequest_Top{Number: int32(c.TopN), FieldName: field, FieldValueSort: srt}
	}
	return req
}

type outRow[N aggregation.Number] struct {
	g string
	v N
}

func extract[N aggregation.Number](k *kind[N], dps []*measurev1.DataPoint) ([]outRow[N], error) {
	var out []outRow[N]
	for _, dp := range dps {
		g := ""
		for _, tf := range dp.GetTagFamilies() {
			for _, t := range tf.GetTags() {
				if t.GetKey() == tagGroup {
					g = t.GetValue().GetStr().GetValue()
				}
			}
		}
		if len(dp.GetFields()) != 1 || dp.GetFields()[0].GetName() != k.field {
			return nil, fmt.Errorf("result data point has fields %v, want exactly [%s]", dp.GetFields(), k.field)
		}
		v, ok := k.get(dp.GetFields()[0].GetValue())
		if !ok {
			return nil, fmt.Errorf("result field has the wrong value type: %v", dp.GetFields()[0].GetValue())
		}
		out = append(out, outRow[N]{g, v})
	}
	return out, nil
}

func fmtOut[N aggregation.Number](k *kind[N], rows []outRow[N]) string {
	var parts []string
	for _, r := range rows {
		parts = append(parts, r.g+"="+k.str(r.v))
	}
	return "[" + strings.Join(parts, " ") + "]"
}

// checkResult compares a result list with the reference map + top spec. what names the path (standalone/distributed).
func checkResult[N aggregation.Number](k *kind[N], c *Case, pre, what string, got []outRow[N], want map[string]N, rawVals []N) []viol {
	var out []viol
	bad := func(key, why string) {
		d := fmt.Sprintf("%s; got %s", why, fmtOut(k, got))
		if len(d) > 2000 {
			d = d[:2000] + "..."
		}
		out = append(out, viol{pre + what + "/" + key, d})
	}
	// the row plans end in limit(offset, limit) (default limit 100); the vectorized operators are driven without it
	lim, off := -1, 0
	if what == "standalone" || what == "distributed" {
		lim, off = int(c.Limit), int(c.Offset)
		if lim == 0 {
			lim = 100
		}
	}
	clip := func(n int) int {
		if n -= off; n < 0 {
			n = 0
		}
		if lim >= 0 && n > lim {
			n = lim
		}
		return n
	}
	window := func(vs []N) []N {
		if off > len(vs) {
			return nil
		}
		return vs[off:][:clip(len(vs))]
	}
	if c.Fn == "" {
		// raw rows: only the multiset / order of values is defined
		gv := make([]N, len(got))
		for i, r := range got {
			gv[i] = r.v
		}
		wantV := window(topReference(k, rawVals, c.TopN, c.TopAsc))
		if !sameVals(k, gv, wantV) {
			bad(fmt.Sprintf("N=%d result!=first-N-of-sorted-reference", c.TopN), "want "+fmtVals(k, wantV))
		}
		return out
	}
	seen := map[string]bool{}
	for _, r := range got {
		g := r.g
		if !c.GroupBy {
			g = ""
		}
		w, ok := want[g]
		switch {
		case seen[g]:
			bad("group-returned-twice", g)
		case !ok:
			bad("group-appears-from-nowhere", g)
		case !k.eq(r.v, w):
			bad("value!=reference", fmt.Sprintf("group %q want %s", g, k.str(w)))
		}
		seen[g] = true
	}
	if c.TopN == 0 {
		if len(got) != clip(len(want)) && len(out) == 0 {
			bad("group-lost", fmt.Sprintf("want %d groups", clip(len(want))))
		}
		return out
	}
	var all []N
	for _, w := range want {
		all = append(all, w)
	}
	wantV := window(topReference(k, all, c.TopN, c.TopAsc))
	gv := make([]N, len(got))
	for i, r := range got {
		gv[i] = r.v
	}
	if len(out) == 0 && !sameVals(k, gv, wantV) {
		bad(fmt.Sprintf("N=%d result!=first-N-of-sorted-reference", c.TopN), "want "+fmtVals(k, wantV))
	}
	return out
}

func runPlan[N aggregation.Number](k *kind[N], c *Case, st *stats) []viol {
	var out []viol
	vals, err := parseRows(k, c)
	if err != nil {
		return []viol{{"harness/parse", err.Error()}}
	}
	mode := "scalar"
	if c.GroupBy {
		mode = "grouped"
	}
	fnName := c.Fn
	if fnName == "" {
		fnName = "RAW"
	}
	pre := "plan/" + mode + "/" + k.name + "/" + fnName + "/"
	md := measureSpec(c.Entity)
	req := buildRequest(k.field, c)
	rows := make([]prow, len(vals))
	sh := shardRows(c)
	for s := 0; s < nShards; s++ {
		for _, i := range sh[s] {
			rows[i] = prow{fv: k.fv(vals[i]), field: k.field, group: c.gname(c.Rows[i].G), gidx: c.Rows[i].G, shard: s, idx: i}
		}
	}
	fn := fnIndex(c.Fn)
	groupOf := func(i int) string {
		if c.GroupBy {
			return c.gname(c.Rows[i].G)
		}
		return ""
	}
	// reference per group for an association given as a list of row-index lists
	reference := func(assoc [][]int) map[string]N {
		if c.Fn == "" {
			return nil
		}
		per := map[string][][]N{}
		for _, part := range assoc {
			byG := map[string][]N{}
			var order []string
			for _, i := range part {
				g := groupOf(i)
				if _, ok := byG[g]; !ok {
					order = append(order, g)
				}
				byG[g] = append(byG[g], vals[i])
			}
			for _, g := range order {
				per[g] = append(per[g], byG[g])
			}
		}
		want := map[string]N{}
		for g, parts := range per {
			want[g] = k.ref(fn, parts)
		}
		return want
	}
	allIdx := make([]int, len(vals))
	for i := range allIdx {
		allIdx[i] = i
	}
	// for the sort-based group-by the storage hands rows over series by series: same association per group
	// ---- standalone: everything in one place
	cacheKey := fmt.Sprintf("%s|%s|%v|%v|%d|%v|%v", k.name, c.Fn, c.GroupBy, c.Entity, c.TopN, c.TopAsc, c.Rows)
	if hit, ok := st.planCache[cacheKey]; ok && c.Shape == nil {
		// same rows, same query, only the shard labels differ: the standalone answer was already computed and checked
		out = append(out, hit.vs...)
	} else {
		direct, derr := runLocal(md, proto.Clone(req).(*measurev1.QueryRequest), rows, false)
		st.evals++
		if derr != nil {
			return []viol{{pre + "standalone/error", derr.Error()}}
		}
		ddps := make([]*measurev1.DataPoint, len(direct))
		for i, d := range direct {
			ddps[i] = d.GetDataPoint()
		}
		dOut, xerr := extract(k, ddps)
		if xerr != nil {
			return []viol{{pre + "standalone/malformed-result", xerr.Error()}}
		}
		wantD := reference([][]int{allIdx})
		vs := checkResult(k, c, pre, "standalone", dOut, wantD, vals)
		out = append(out, vs...)
		st.outcome("plan", k.name, fnName, fmtOut(k, dOut))
		if st.planCache != nil && c.Shape == nil {
			st.planCache[cacheKey] = &standalone{out: fmtOut(k, dOut), vs: vs}
		}
	}

	// ---- distributed: one responder per (shard, replica)
	cl := &fakeCluster{md: md, tr: req.TimeRange}
	var assoc [][]int
	seenShard := map[int]bool{}
	for _, s := range responders(c) {
		cl.nodes = append(cl.nodes, pick(rows, sh[s]))
		cl.shardOf = append(cl.shardOf, s)
		if !seenShard[s] {
			seenShard[s] = true
			if len(sh[s]) > 0 {
				assoc = append(assoc, sh[s])
			}
		}
	}
	comp, cerr := runDistributed(md, proto.Clone(req).(*measurev1.QueryRequest), cl)
	st.evals += 1 + cl.evals
	if cerr != nil {
		return append(out, viol{pre + "distributed/error", cerr.Error()})
	}
	cOut, xerr := extract(k, comp)
	if xerr != nil {
		return append(out, viol{pre + "distributed/malformed-result", xerr.Error()})
	}
	wantC := reference(assoc)
	vs := checkResult(k, c, pre, "distributed", cOut, wantC, vals)
	if len(vs) > 0 && c.Fn != "" && !c.GroupBy && len(assoc) >= 2 {
		// classify: is the answer exactly what the first responding node alone would yield?  Then the partials of
		// all other shards were discarded by the replica dedup because every scalar partial is labelled shard 0.
		first := reference(assoc[:1])
		allZero := true
		for _, resp := range cl.responses {
			for _, idp := range resp {
				if idp.GetShardId() != 0 {
					allZero = false
				}
			}
		}
		if allZero && len(checkResult(k, c, pre, "distributed", cOut, first, vals)) == 0 {
			vs = []viol{{"plan/scalar/distributed/partials-of-all-but-the-first-node-dropped(every scalar partial carries ShardId=0)",
				fmt.Sprintf("%s %s: got %s, first node alone gives the same, all shards give %v", k.name, fnName, fmtOut(k, cOut), fmtWant(k, wantC))}}
		}
	}
	out = append(out, vs...)
	st.outcome("plan", k.name, fnName, fmtOut(k, cOut))
	return out
}

func fmtWant[N aggregation.Number](k *kind[N], want map[string]N) string {
	var parts []string
	for g, v := range want {
		parts = append(parts, g+"="+k.str(v))
	}
	sort.Strings(parts)
	return "[" + strings.Join(parts, " ") + "]"
}
