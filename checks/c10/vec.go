package main

import (
	"context"
	"fmt"

	"github.com/apache/skywalking-banyandb/pkg/query/aggregation"
	"github.com/apache/skywalking-banyandb/pkg/query/vectorized"
	vmeasure "github.com/apache/skywalking-banyandb/pkg/query/vectorized/measure"
	"github.com/apache/skywalking-banyandb/pkg/query/vectorized/measure/frame"
)

var vecFn = [nFn]vmeasure.AggFunc{vmeasure.AggSum, vmeasure.AggCount, vmeasure.AggMin, vmeasure.AggMax, vmeasure.AggMean}

const vecBatch = 8

func vecColType[N aggregation.Number](k *kind[N]) vectorized.ColumnType {
	if k.name == "int" {
		return vectorized.ColumnTypeInt64
	}
	return vectorized.ColumnTypeFloat64
}

// scanSchema: what a data node's scan hands to the aggregation: shard id, group tag, value field.
func scanSchema[N aggregation.Number](k *kind[N]) *vectorized.BatchSchema {
	return vectorized.NewBatchSchema([]vectorized.ColumnDef{
		{Role: vectorized.RoleShardID, Name: "shard_id", Type: vectorized.ColumnTypeInt64},
		{Role: vectorized.RoleTag, TagFamily: tagFamily, Name: tagGroup, Type: vectorized.ColumnTypeString},
		{Role: vectorized.RoleField, Name: k.field, Type: vecColType(k)},
	})
}

func appendVal[N aggregation.Number](col vectorized.Column, v N) {
	switch c := col.(type) {
	case *vectorized.TypedColumn[int64]:
		c.Append(int64(v))
	case *vectorized.TypedColumn[float64]:
		c.Append(float64(v))
	default:
		panic(fmt.Sprintf("value column of type %T", col))
	}
}

func valAt[N aggregation.Number](col vectorized.Column, i int) N {
	switch c := col.(type) {
	case *vectorized.TypedColumn[int64]:
		return N(c.Data()[i])
	case *vectorized.TypedColumn[float64]:
		return N(c.Data()[i])
	}
	panic(fmt.Sprintf("value column of type %T", col))
}

func scanBatch[N aggregation.Number](k *kind[N], s *vectorized.BatchSchema, c *Case, vals []N, idx []int, shard int) *vectorized.RecordBatch {
	b := vectorized.NewRecordBatch(s, len(idx))
	for _, i := range idx {
		b.Columns[0].(*vectorized.TypedColumn[int64]).Append(int64(shard))
		b.Columns[1].(*vectorized.TypedColumn[string]).Append(c.gname(c.Rows[i].G))
		appendVal(b.Columns[2], vals[i])
	}
	b.Len = len(idx)
	return b
}

func drain(op interface {
	NextBatch(context.Context) (*vectorized.RecordBatch, error)
},
) ([]*vectorized.RecordBatch, error) {
	var out []*vectorized.RecordBatch
	for {
		b, err := op.NextBatch(context.Background())
		if err != nil {
			return nil, err
		}
		if b == nil {
			return out, nil
		}
		out = append(out, b)
	}
}

// vecAggregate runs one BatchAggregation (All or Map) over one input batch.
func vecAggregate[N aggregation.Number](k *kind[N], s *vectorized.BatchSchema, in *vectorized.RecordBatch, fn int, groupBy bool, mode vmeasure.AggMode) ([]*vectorized.RecordBatch, error) {
	var keys []int
	if groupBy {
		keys = []int{1}
	}
	op := vmeasure.NewBatchAggregation(s, keys, []vmeasure.AggSpec{{Output: k.field, Func: vecFn[fn], InputCol: 2}}, mode, vecBatch,
		vectorized.NewMemoryTracker(1<<30), 0)
	defer op.Close()
	ctx := context.Background()
	if err := op.Init(ctx); err != nil {
		return nil, err
	}
	if in.Len > 0 {
		if err := op.Consume(ctx, in); err != nil {
			return nil, err
		}
	}
	if err := op.Finalize(ctx); err != nil {
		return nil, err
	}
	return drain(op)
}

// rowsOfBatches reads (group, value) rows of final-shaped batches (tags..., value).
func rowsOfBatches[N aggregation.Number](k *kind[N], bs []*vectorized.RecordBatch) ([]outRow[N], error) {
	var out []outRow[N]
	for _, b := range bs {
		gi, vi := -1, -1
		for i, def := range b.Schema.Columns {
			if def.Role == vectorized.RoleTag && def.Name == tagGroup {
				gi = i
			}
			if def.Role == vectorized.RoleField && def.Name == k.field {
				vi = i
			}
		}
		if gi < 0 || vi < 0 || len(b.Schema.Columns) != 2 {
			return nil, fmt.Errorf("unexpected output schema %+v", b.Schema.Columns)
		}
		for r := 0; r < b.Len; r++ {
			out = append(out, outRow[N]{b.Columns[gi].(*vectorized.TypedColumn[string]).Data()[r], valAt[N](b.Columns[vi], r)})
		}
	}
	return out, nil
}

func runVec[N aggregation.Number](k *kind[N], c *Case, st *stats) []viol {
	var out []viol
	vals, err := parseRows(k, c)
	if err != nil {
		return []viol{{"harness/parse", err.Error()}}
	}
	mode := "scalar"
	if c.GroupBy {
		mode = "grouped"
	}
	pre := "vec/" + mode + "/" + k.name + "/" + c.Fn + "/"
	fn := fnIndex(c.Fn)
	s := scanSchema(k)
	sh := shardRows(c)
	groupOf := func(i int) string {
		if c.GroupBy {
			return c.gname(c.Rows[i].G)
		}
		return ""
	}
	reference := func(assoc [][]int) map[string]N {
		per := map[string][][]N{}
		for _, part := range assoc {
			byG := map[string][]N{}
			var order []string
			for _, i := range part {
				g := groupOf(i)
				if _, ok := byG[g]; !ok {
					order = append(order, g)
				}
				byG[g] = append(byG[g], vals[i])
			}
			for _, g := range order {
				per[g] = append(per[g], byG[g])
			}
		}
		want := map[string]N{}
		for g, parts := range per {
			want[g] = k.ref(fn, parts)
		}
		return want
	}
	applyTop := func(bs []*vectorized.RecordBatch) ([]*vectorized.RecordBatch, error) {
		if c.TopN == 0 {
			return bs, nil
		}
		return vmeasure.ApplyTopToReduce(bs, vmeasure.ReduceTopSpec{FieldName: k.field, N: c.TopN, Asc: c.TopAsc}, vecBatch)
	}
	allIdx := make([]int, len(vals))
	for i := range allIdx {
		allIdx[i] = i
	}
	// ---- everything in one place (AggModeAll); rows keep their shard ids
	all := vectorized.NewRecordBatch(s, len(vals))
	rowShard := make([]int, len(vals))
	for sd := 0; sd < nShards; sd++ {
		for _, i := range sh[sd] {
			rowShard[i] = sd
		}
	}
	for i := range vals {
		all.Columns[0].(*vectorized.TypedColumn[int64]).Append(int64(rowShard[i]))
		all.Columns[1].(*vectorized.TypedColumn[string]).Append(c.gname(c.Rows[i].G))
		appendVal(all.Columns[2], vals[i])
	}
	all.Len = len(vals)
	dB, derr := vecAggregate(k, s, all, fn, c.GroupBy, vmeasure.AggModeAll)
	st.evals++
	if derr == nil {
		dB, derr = applyTop(dB)
	}
	if derr != nil {
		return []viol{{pre + "all/error", derr.Error()}}
	}
	dOut, xerr := rowsOfBatches(k, dB)
	if xerr != nil {
		return []viol{{pre + "all/malformed-result", xerr.Error()}}
	}
	out = append(out, checkResult(k, c, pre, "all", dOut, reference([][]int{allIdx}), vals)...)
	st.outcome("vec", k.name, c.Fn, fmtOut(k, dOut))

	// ---- map on every responder, reduce (with replica dedup) at the liaison
	var frames [][]byte
	var assoc [][]int
	seenShard := map[int]bool{}
	allZero := true
	for _, sd := range responders(c) {
		if !seenShard[sd] {
			seenShard[sd] = true
			if len(sh[sd]) > 0 {
				assoc = append(assoc, sh[sd])
			}
		}
		pb, merr := vecAggregate(k, s, scanBatch(k, s, c, vals, sh[sd], sd), fn, c.GroupBy, vmeasure.AggModeMap)
		st.evals++
		if merr != nil {
			return append(out, viol{pre + "map/error", merr.Error()})
		}
		if len(pb) == 0 {
			frames = append(frames, nil) // a node without rows sends an empty body
		}
		for _, b := range pb {
			for r := 0; r < b.Len; r++ {
				if b.Columns[0].(*vectorized.TypedColumn[int64]).Data()[r] != 0 {
					allZero = false
				}
			}
			body, eerr := frame.Encode(b) // cluster wire form of a partial batch
			if eerr != nil {
				return append(out, viol{pre + "map/frame-encode-error", eerr.Error()})
			}
			frames = append(frames, body)
		}
	}
	var keyNames []string
	if c.GroupBy {
		keyNames = []string{tagGroup}
	}
	rB, _, rerr := vmeasure.ReduceRawFrames(frames, keyNames, []vmeasure.AggReduceSpec{{OutputName: k.field, Func: vecFn[fn]}}, vecBatch,
		vectorized.NewMemoryTracker(1<<30))
	st.evals++
	if rerr == nil {
		rB, rerr = applyTop(rB)
	}
	if rerr != nil {
		return append(out, viol{pre + "reduce/error", rerr.Error()})
	}
	cOut, xerr := rowsOfBatches(k, rB)
	if xerr != nil {
		return append(out, viol{pre + "reduce/malformed-result", xerr.Error()})
	}
	wantC := reference(assoc)
	vs := checkResult(k, c, pre, "reduce(map)", cOut, wantC, vals)
	if len(vs) > 0 && !c.GroupBy && len(assoc) >= 2 && allZero {
		if len(checkResult(k, c, pre, "reduce(map)", cOut, reference(assoc[:1]), vals)) == 0 {
			vs = []viol{{"vec/scalar/reduce(map)/partials-of-all-but-the-first-node-dropped(every scalar partial carries shard_id=0)",
				fmt.Sprintf("%s %s: got %s, first node alone gives the same, all shards give %v", k.name, c.Fn, fmtOut(k, cOut), fmtWant(k, wantC))}}
		}
	}
	out = append(out, vs...)
	st.outcome("vec", k.name, c.Fn, fmtOut(k, cOut))
	return out
}

// ---------------------------------------------------------------------------------------------------------------
// level vectop: BatchTop on every insertion sequence, fed in two batches

func runVecTop[N aggregation.Number](k *kind[N], c *Case, st *stats) []viol {
	var out []viol
	vals, err := parseRows(k, c)
	if err != nil {
		return []viol{{"harness/parse", err.Error()}}
	}
	dir := "top"
	if c.TopAsc {
		dir = "bottom"
	}
	pre := "vectop/" + k.name + "/" + dir + "/"
	s := vectorized.NewBatchSchema([]vectorized.ColumnDef{
		{Role: vectorized.RoleSeriesID, Name: "sid", Type: vectorized.ColumnTypeInt64},
		{Role: vectorized.RoleField, Name: k.field, Type: vecColType(k)},
	})
	op := vmeasure.NewBatchTop(s, 1, c.TopN, c.TopAsc, vecBatch)
	defer op.Close()
	ctx := context.Background()
	if err = op.Init(ctx); err != nil {
		return []viol{{pre + "error", err.Error()}}
	}
	half := len(vals) / 2
	for _, rng := range [][2]int{{0, half}, {half, len(vals)}} {
		b := vectorized.NewRecordBatch(s, rng[1]-rng[0])
		for i := rng[0]; i < rng[1]; i++ {
			b.Columns[0].(*vectorized.TypedColumn[int64]).Append(int64(i))
			appendVal(b.Columns[1], vals[i])
		}
		b.Len = rng[1] - rng[0]
		if b.Len == 0 {
			continue
		}
		if err = op.Consume(ctx, b); err != nil {
			return []viol{{pre + "error", err.Error()}}
		}
	}
	if err = op.Finalize(ctx); err != nil {
		return []viol{{pre + "error", err.Error()}}
	}
	bs, err := drain(op)
	st.evals++
	if err != nil {
		return []viol{{pre + "error", err.Error()}}
	}
	var gotV []N
	seen := map[int64]bool{}
	for _, b := range bs {
		for r := 0; r < b.Len; r++ {
			id := b.Columns[0].(*vectorized.TypedColumn[int64]).Data()[r]
			v := valAt[N](b.Columns[1], r)
			if seen[id] || id < 0 || int(id) >= len(vals) || !k.eq(vals[id], v) {
				out = append(out, viol{pre + "element-not-a-distinct-input-row", fmtVals(k, vals)})
			}
			seen[id] = true
			gotV = append(gotV, v)
		}
	}
	want := topReference(k, vals, c.TopN, c.TopAsc)
	if !sameVals(k, gotV, want) {
		out = append(out, viol{pre + fmt.Sprintf("N=%d result!=first-N-of-sorted-reference", c.TopN),
			fmt.Sprintf("inserted %s got %s want %s", fmtVals(k, vals), fmtVals(k, gotV), fmtVals(k, want))})
	}
	st.outcome("vectop", k.name, dir, fmtVals(k, gotV))
	return out
}
