package main

import (
	"encoding/json"
	"fmt"
	"os"
	"strings"
	"time"

	"github.com/apache/skywalking-banyandb/pkg/logger"
	"github.com/apache/skywalking-banyandb/pkg/verif/ev"
	"github.com/apache/skywalking-banyandb/pkg/verif/par"
	"github.com/apache/skywalking-banyandb/pkg/verif/racep"
	"github.com/apache/skywalking-banyandb/pkg/verif/sched"
)

// A family is one engine's harness: its scenarios and the function that builds a fresh real instance per execution.
// Families register themselves from their own file (measure.go, sidx.go, ...); scenario names are unique per family.
type family struct {
	Setup     func(sc scenario, seq *int) sched.Harness
	Name      string
	Scenarios []scenario
	// RaceOK: the family's own bookkeeping is guarded by sched.Own, so its thread bodies may run detached in the
	// free-running -race pass (mc/racep).
	RaceOK bool
}

type scenario struct {
	Family string   `json:"family"`
	Name   string   `json:"name"`
	Roles  []string `json:"roles"`
	// ThoroughOnly scenarios are skipped by the quick tier.
	ThoroughOnly bool `json:"thorough_only,omitempty"`
}

var families []family

func register(f family) {
	for i := range f.Scenarios {
		f.Scenarios[i].Family = f.Name
	}
	families = append(families, f)
}

func familyOf(name string) family {
	for _, f := range families {
		if f.Name == name {
			return f
		}
	}
	panic("unknown family " + name)
}

func setup(sc scenario, seq *int) sched.Harness { return familyOf(sc.Family).Setup(sc, seq) }

func allScenarios() []scenario {
	var out []scenario
	for _, f := range families {
		for _, sc := range f.Scenarios {
			if sc.ThoroughOnly && !ev.Thorough() {
				continue
			}
			out = append(out, sc)
		}
	}
	return out
}

// base is this process's scratch directory under /dev/shm.
var base string

type scenResult struct {
	Scenario   string         `json:"scenario"`
	HarnessErr string         `json:"harness_err,omitempty"`
	Outcomes   map[string]int `json:"outcomes"`
	ByPreempt  map[int]int    `json:"by_preempt"`
	Viol       []violRec      `json:"viol,omitempty"`
	Executions int            `json:"executions"`
	MaxPoints  int            `json:"max_points"`
	Capped     bool           `json:"capped"`
}

type violRec struct {
	Key      string   `json:"key"`
	Scenario scenario `json:"scenario"`
	Choices  []int    `json:"choices"`
}

const maxSteps = 20000

func runScenario(sc scenario, bound, shard, shards int, deadline time.Time) scenResult {
	seq := 0
	out := scenResult{Scenario: sc.Family + "/" + sc.Name}
	seen := map[string]bool{}
	var lastW *world
	x := &sched.Explorer{
		Bound: bound, MaxSteps: maxSteps, Deadline: deadline, Shard: shard, Shards: shards,
		Setup: func() sched.Harness {
			h := setup(sc, &seq)
			return h
		},
	}
	_ = lastW
	x.Outcome = func(res *sched.Result) string {
		if res.Abort != "" {
			return res.Abort
		}
		return strings.Join(lastOutcomes, ";")
	}
	x.OnViolate = func(key string, res *sched.Result) {
		if seen[key] {
			return
		}
		seen[key] = true
		out.Viol = append(out.Viol, violRec{Key: key, Scenario: sc, Choices: append([]int{}, res.Choices...)})
	}
	x.Explore()
	for i := range out.Viol {
		for rep := 0; rep < 5; rep++ {
			keys, _ := runOnce(sc, out.Viol[i].Choices, &seq, false)
			found := false
			for _, k := range keys {
				if k == out.Viol[i].Key {
					found = true
				}
			}
			if !found {
				out.HarnessErr = fmt.Sprintf("violation %q of scenario %s did not reproduce on replay %d", out.Viol[i].Key, sc.Name, rep)
			}
		}
	}
	out.Executions, out.ByPreempt, out.MaxPoints, out.Capped, out.Outcomes = x.Executions, x.ByPreempt, x.MaxPoints, x.Capped, x.Outcomes
	if x.HarnessErr != "" {
		out.HarnessErr = x.HarnessErr
	}
	return out
}

func runOnce(sc scenario, choices []int, seq *int, trace bool) ([]string, *sched.Result) {
	sched.TraceCallers = trace
	h := setup(sc, seq)
	res := sched.Run(choices, nil, maxSteps, h.Threads)
	keys := h.Check(res)
	switch res.Abort {
	case "deadlock", "livelock":
		keys = append(keys, res.Abort)
	case "panic":
		keys = append(keys, sched.PanicKey(res))
	}
	h.Cleanup()
	return keys, res
}

func main() {
	_ = logger.Init(logger.Logging{Env: "prod", Level: "fatal"})
	thorough := ev.Thorough()
	bound := 2
	budget := 12 * time.Minute
	if thorough {
		bound = 3
		budget = 60 * time.Minute
	}
	if rp := ev.Arg("--replay"); rp != "" {
		replay(rp)
		return
	}
	var err error
	if os.Getenv("VERIF_PHASE") == "race" {
		// the -race build: the same thread bodies, detached, as plain goroutines (racep.Pass reads the detector's log)
		base, err = os.MkdirTemp("/dev/shm", "c19race-")
		if err != nil {
			panic(err)
		}
		defer os.RemoveAll(base)
		iters := 25
		if thorough {
			iters = 200
		}
		var scs []scenario
		for _, sc := range allScenarios() {
			if only := ev.Arg("--scenario"); only != "" && only != sc.Name && only != sc.Family+"/"+sc.Name && only != sc.Family {
				continue
			}
			if familyOf(sc.Family).RaceOK {
				scs = append(scs, sc)
			}
		}
		seq := 0
		racep.Phase(iters, 6*time.Minute, len(scs), func(i int) sched.Harness { return setup(scs[i], &seq) })
		return
	}
	if wi, wn, ok := par.Worker(); ok {
		base, err = os.MkdirTemp("/dev/shm", "c19-")
		if err != nil {
			panic(err)
		}
		defer os.RemoveAll(base)
		deadline := time.Now().Add(budget)
		for _, sc := range allScenarios() {
			if only := ev.Arg("--scenario"); only != "" && only != sc.Name && only != sc.Family+"/"+sc.Name && only != sc.Family {
				continue
			}
			r := runScenario(sc, bound, wi, wn, deadline)
			b, _ := json.Marshal(r)
			par.Emit(b)
		}
		return
	}
	r := ev.New("C19", "model_checking")
	results, perr := par.Run(16)
	if perr != nil {
		fmt.Println("HARNESS-ERROR:", perr)
		os.Exit(2)
	}
	execs, maxPts := 0, 0
	byPre := map[string]int{}
	outcomes := map[string]int{}
	perScen := map[string]int{}
	for _, b := range results {
		var sr scenResult
		if err := json.Unmarshal(b, &sr); err != nil {
			fmt.Println("HARNESS-ERROR: bad worker result:", err)
			os.Exit(2)
		}
		if sr.HarnessErr != "" {
			fmt.Println("HARNESS-ERROR:", sr.Scenario, sr.HarnessErr)
			os.Exit(2)
		}
		execs += sr.Executions
		perScen[sr.Scenario] += sr.Executions
		if sr.MaxPoints > maxPts {
			maxPts = sr.MaxPoints
		}
		for k, v := range sr.ByPreempt {
			byPre[fmt.Sprint(k)] += v
		}
		for k, v := range sr.Outcomes {
			if k == "" {
				k = "completed"
			}
			outcomes[k] += v
		}
		if sr.Capped {
			r.NotExhaustive("deadline hit in scenario " + sr.Scenario)
		}
		for _, v := range sr.Viol {
			r.Violation(fmt.Sprintf("%s/%s[%s]: %s", v.Scenario.Family, v.Scenario.Name, strings.Join(v.Scenario.Roles, "|"), v.Key), v)
		}
	}
	for _, sc := range allScenarios() {
		r.Sample(map[string]any{"scenario": sc.Name, "threads": sc.Roles, "executions": perScen[sc.Name],
			"initial_state": "file parts p1,p2 + memory part p3; introducer = introducePart(b4); flush; merge(all file parts); gc after each"})
	}
	racep.Pass(r, "c19")
	r.Set("states", execs)
	r.Set("transitions", execs)
	r.Set("traces_validated_against_impl", execs)
	r.Set("evaluations", execs)
	r.Set("distinct_nontrivial", len(perScen))
	r.Set("preemption_bound", bound)
	r.Set("executions_by_preemptions", byPre)
	r.Set("executions_by_scenario", perScen)
	r.Set("outcomes", outcomes)
	r.Set("max_points_per_execution", maxPts)
	r.Set("rule", "one execution = one complete schedule (scheduling points = every Lock/RLock/atomic op of measure/snapshot.go, part.go, introducer.go, tstable.go, plus spawned part-removal goroutines) of a 3-thread scenario on a real measure tsTable; stateless search: states/transitions count executions; distinct_nontrivial = scenarios, all of which have a query overlapping snapshot replacement or close")
	r.Assume("sequential consistency at hooked sync/atomic operations; unsynchronised accesses are invisible to the cooperative scheduler (covered separately, by sampling, by the free-running -race pass of the measure and storage families: metrics.race_pass)")
	r.Assume("introducer/flusher/merger loops are replaced by one harness thread calling the loops' step functions in loop order (channels are not hooked)")
	r.Finish()
}

func replay(p string) {
	b, err := os.ReadFile(p)
	if err != nil {
		fmt.Println(err)
		os.Exit(2)
	}
	var a struct {
		Artefact violRec `json:"artefact"`
	}
	if err := json.Unmarshal(b, &a); err != nil {
		fmt.Println(err)
		os.Exit(2)
	}
	if racep.Replay(b, "c19") {
		return
	}
	base, _ = os.MkdirTemp("/dev/shm", "c19r-")
	defer os.RemoveAll(base)
	seq := 0
	keys, res := runOnce(a.Artefact.Scenario, a.Artefact.Choices, &seq, true)
	fmt.Printf("scenario %s/%s %v\nabort=%q panic=%v\n", a.Artefact.Scenario.Family, a.Artefact.Scenario.Name, a.Artefact.Scenario.Roles, res.Abort, res.Panic)
	for i, pt := range res.Points {
		fmt.Printf("  %3d %-28s -> T%d   %s\n", i, pt.Sig, pt.Enabled[pt.Chosen], pt.Where)
	}
	fmt.Println("violations:", keys)
	if len(keys) > 0 {
		os.Exit(1)
	}
}
