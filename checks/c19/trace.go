// C19, family "trace": tsTable.TakeFileSnapshot of banyand/trace (pin the core snapshot; file-snapshot every attached
// secondary index through sidx.TakeFileSnapshot, which pins the index's own current snapshot; hard-link the core file
// parts of the pinned core snapshot; write the manifest) against the single trace introducer (introducePart of a new
// trace batch = core + index memory part; flush publication; merge publication of core + index; manifest gc), a second
// snapshot, a fenced ordered query and table close.
//
// Table driver, rewritten files and initial state are those of C05's trace family (inpkg/banyand/trace/c05trace.go);
// here the fs.FileSystem handed to the table (and inherited by its index) makes CreateHardLink / CreateFile /
// DeleteFile / MustRMAll scheduling points (inpkg/banyand/trace/c19trace.go) and can fail the n-th hard link.
//
// Verdict per snapshot = what the property text states: the call succeeds or fails cleanly; one manifest whose listed
// core parts are present and complete and nothing unlisted; every index directory holds complete parts of ONE index
// epoch that was current during the call; the copy opens with the real initTSTable (incl. loadSidxMap -> sidx
// init/loadSnapshot, which DROPS every index part the core manifest does not name) and the opened copy returns exactly
// the flushed traces of the manifest's epoch, by trace id (block scan) AND through the ordered index (every flushed
// trace has its index entry, every index entry has its spans). Whether the copied index directory belongs to the same
// publication as the copied core parts is recorded as an outcome ("idx=same" / "idx=newer") and is a violation of its
// own only with VERIF_C19TRACE_STRICT=1 (see NOTES-trace.md: a newer index epoch that differs by a flush is healed by
// the open, one that differs by a merge is not).
package main

import (
	"encoding/json"
	"fmt"
	"os"
	"path/filepath"
	"reflect"
	"regexp"
	"sort"
	"strings"
	"time"

	"github.com/apache/skywalking-banyandb/banyand/internal/sidx"
	"github.com/apache/skywalking-banyandb/banyand/trace"
	"github.com/apache/skywalking-banyandb/pkg/verif/sched"
	"github.com/apache/skywalking-banyandb/pkg/verif/vos"
)

var (
	ctSegStart = time.Unix(1_700_000_000, 0).UTC()
	ctSegEnd   = ctSegStart.Add(24 * time.Hour)
	ctStrict   = os.Getenv("VERIF_C19TRACE_STRICT") == "1"
)

// ctBatch n = two traces: t<n>a with two spans and t<n>b with one; index keys 10n and 10n+1 (so the index order of
// the alphabet is the lexicographic order of the trace ids).
func ctBatch(n int) []trace.C5TSpan {
	ts := ctSegStart.UnixNano() + int64(n)*1_000_000
	a, b := fmt.Sprintf("t%da", n), fmt.Sprintf("t%db", n)
	return []trace.C5TSpan{
		{Trace: a, ID: a + "-1", TS: ts, Key: int64(10 * n)},
		{Trace: a, ID: a + "-2", TS: ts + 1, Key: int64(10 * n)},
		{Trace: b, ID: b + "-1", TS: ts + 2, Key: int64(10*n + 1)},
	}
}

// ctPart is one part of a publication: the core part and the index part carry the same id, the same batches and
// are both in memory or both on disk.
type ctPart struct {
	batches []int
	id      uint64
	mem     bool
}

// ctEpoch is the reference content of one publication.
type ctEpoch struct{ parts []ctPart }

func (e *ctEpoch) clone() *ctEpoch { return &ctEpoch{parts: append([]ctPart(nil), e.parts...)} }

// files: sorted ids of the file parts.
func (e *ctEpoch) files() []uint64 {
	ids := []uint64{}
	for _, p := range e.parts {
		if !p.mem {
			ids = append(ids, p.id)
		}
	}
	sort.Slice(ids, func(i, j int) bool { return ids[i] < ids[j] })
	return ids
}

// content: trace -> sorted span ids (fileOnly: of the file parts only = what a file snapshot of this epoch holds).
func (e *ctEpoch) content(fileOnly bool) map[string][]string {
	out := map[string][]string{}
	for _, p := range e.parts {
		if fileOnly && p.mem {
			continue
		}
		for _, b := range p.batches {
			for _, sp := range ctBatch(b) {
				out[sp.Trace] = append(out[sp.Trace], sp.ID)
			}
		}
	}
	for k := range out {
		sort.Strings(out[k])
	}
	return out
}

func (e *ctEpoch) apply(step string, newID uint64) *ctEpoch {
	n := e.clone()
	switch step {
	case "add":
		n.parts = append(n.parts, ctPart{id: newID, mem: true, batches: []int{4}})
	case "flush":
		// the files of the flush are produced before the race starts: memory part 3 only
		for i := range n.parts {
			if n.parts[i].id == 3 {
				n.parts[i].mem = false
			}
		}
	case "merge":
		var keep []ctPart
		var moved []int
		for _, p := range n.parts {
			if p.id == 1 || p.id == 2 {
				moved = append(moved, p.batches...)
				continue
			}
			keep = append(keep, p)
		}
		n.parts = append(keep, ctPart{id: newID, batches: moved})
	default:
		panic("unknown introducer step " + step)
	}
	return n
}

func ctKeys(m map[string][]string) []string {
	out := make([]string, 0, len(m))
	for k := range m {
		out = append(out, k)
	}
	sort.Strings(out)
	return out
}

type ctSnapRec struct {
	err        error
	dst        string
	start, end uint64 // core epoch current at call start / newest epoch whose publication had begun at return
	idxStart   uint64 // newest epoch whose publication was COMPLETE at call start (a commit in progress has replaced
	// the core snapshot but not yet the index snapshot: the index of the previous epoch is still current)
	ok          bool
	closedAtEnd bool
}

type ctWorld struct {
	t        *trace.C5TTable
	fs       *trace.C19TFS
	viol     map[string]bool
	epochs   map[uint64]*ctEpoch
	refCore  map[uint64]map[string]int64 // core file part -> file name -> size (taken from the source directories)
	refIdx   map[uint64]map[string]int64
	intro    *trace.C5TIntro
	flush    *trace.C5TFlush
	merge    *trace.C5TMerge
	dir      string
	steps    []string
	core     []trace.C5TPart
	sidxw    []sidx.C5TPart
	traces   []string
	snaps    []*ctSnapRec
	outcomes []string
	epoch0   uint64
	last     uint64
	// announced: the newest epoch the introducer has begun to publish
	announced uint64
	// completed: the newest epoch whose publication (core + index) has returned
	completed uint64
	closed    bool
	broken    bool
}

func (w *ctWorld) bad(s string)     { w.viol[s] = true }
func (w *ctWorld) outcome(s string) { w.outcomes = append(w.outcomes, s) }

var ctScratch = regexp.MustCompile(`/dev/shm/[^\s:"']*`)

func ctStable(s string) string { return ctScratch.ReplaceAllString(firstLine(s), "<scratch>") }

// snapshotter is what segment.snapshotOpen does per shard: create the shard directory, then tsTable.TakeFileSnapshot.
func (w *ctWorld) snapshotter(name string) {
	rec := &ctSnapRec{dst: filepath.Join(w.dir, name)}
	_ = os.MkdirAll(rec.dst, 0o755)
	sched.Observe(func() {
		if c := w.t.CurrentCore(); c != nil {
			rec.start = c.Epoch
		}
	})
	rec.idxStart = w.completed
	rec.ok, rec.err = w.t.C19TakeFileSnapshot(rec.dst)
	rec.end = w.announced
	rec.closedAtEnd = w.closed
	w.snaps = append(w.snaps, rec)
}

// introducer plays the single goroutine that serialises all snapshot transitions, in loop order.
func (w *ctWorld) introducer() {
	for _, s := range w.steps {
		w.announced = w.t.NextEpoch()
		switch s {
		case "add":
			w.t.IntroducePart(w.intro)
		case "flush":
			w.t.FlushB(w.flush)
			w.t.GC()
		case "merge":
			w.t.MergeB(w.merge)
			w.t.GC()
		}
		w.completed = w.announced
	}
}

func ctSpansOf(obs []trace.C5TObs) ([]string, bool) {
	var ids []string
	intact := true
	for _, o := range obs {
		ids = append(ids, o.ID)
		if o.Payload != "payload-"+o.ID || o.Tag != o.ID {
			intact = false
		}
	}
	sort.Strings(ids)
	return ids, intact
}

// query: one fenced (vectorized) ordered query; its result must be the complete content of the core epoch it pinned.
func (w *ctWorld) query(name string) {
	q := w.t.NewQuery()
	var err error
	func() {
		defer func() {
			if p := recover(); p != nil {
				ctRethrowAbort(p)
				err = fmt.Errorf("panic: %v", firstLine(fmt.Sprint(p)))
			}
		}()
		err = q.Fenced()
	}()
	if err != nil {
		w.bad(name + ": query failed before reading: " + ctStable(err.Error()))
		q.Abort()
		return
	}
	view := q.View()
	if view == nil {
		if !w.closed {
			w.bad(name + ": no core snapshot although the table holds data and is not closed")
		}
		q.Abort()
		return
	}
	order := q.BatchOrder()
	sched.Yield(name + ":hold")
	sched.Observe(func() {
		if view.Ref() < 1 {
			w.bad(fmt.Sprintf("%s: pinned core snapshot has ref %d", name, view.Ref()))
		}
		for _, p := range view.Parts {
			if p.Ref() < 1 {
				w.bad(fmt.Sprintf("%s: a part of the pinned core snapshot has ref %d", name, p.Ref()))
			} else if !p.DirExists() {
				w.bad(name + ": directory of a part in the pinned core snapshot is gone while pinned")
			}
		}
	})
	var gotOrder []string
	var got map[string][]trace.C5TObs
	func() {
		defer func() {
			if p := recover(); p != nil {
				ctRethrowAbort(p)
				err = fmt.Errorf("panic: %v", firstLine(fmt.Sprint(p)))
			}
		}()
		gotOrder, got, err = q.PullVectorized()
	}()
	if err != nil {
		w.bad(name + ": reading the pinned view failed: " + ctStable(err.Error()))
		return
	}
	if w.closed && len(order) == 0 {
		return // the index was closed before the query read it
	}
	st, ok := w.epochs[view.Epoch]
	if !ok {
		w.bad(name + ": pinned a core epoch that no introduction published")
		return
	}
	want := st.content(false)
	if !reflect.DeepEqual(gotOrder, ctKeys(want)) {
		w.bad(name + ": the ordered result is not the list of traces of the pinned epoch in index order")
		return
	}
	for id, spans := range want {
		ids, intact := ctSpansOf(got[id])
		if !reflect.DeepEqual(ids, spans) || !intact {
			w.bad(name + ": spans returned for a trace differ from the spans of that trace at the pinned epoch")
		}
	}
	w.outcome(fmt.Sprintf("%s:c%d", name, view.Epoch-w.epoch0))
}

// ctRethrowAbort: the scheduler unwinds the threads of an aborted execution (another thread panicked / deadlock) with
// its own signal value; that is not a failure of the operation the harness wraps.
func ctRethrowAbort(p any) {
	if fmt.Sprintf("%T", p) == "sched.abortSignal" {
		panic(p)
	}
}

func ctListFiles(dir string) map[string]int64 {
	out := map[string]int64{}
	ents, _ := os.ReadDir(dir)
	for _, e := range ents {
		if info, err := e.Info(); err == nil {
			out[e.Name()] = info.Size()
		}
	}
	return out
}

func ctPartName(id uint64) string { return fmt.Sprintf("%016x", id) }

// ctPartDirs lists the part directories of dir (entries named by 16 hex digits); other is every other entry.
func ctPartDirs(dir string) (ids []uint64, other []string, err error) {
	ents, err := os.ReadDir(dir)
	if err != nil {
		return nil, nil, err
	}
	ids = []uint64{}
	for _, e := range ents {
		var id uint64
		if _, serr := fmt.Sscanf(e.Name(), "%x", &id); serr == nil && e.IsDir() && ctPartName(id) == e.Name() {
			ids = append(ids, id)
			continue
		}
		other = append(other, e.Name())
	}
	sort.Slice(ids, func(i, j int) bool { return ids[i] < ids[j] })
	return ids, other, nil
}

// checkSnapshot judges one TakeFileSnapshot call after all threads have finished.
func (w *ctWorld) checkSnapshot(rec *ctSnapRec) {
	if rec.err != nil && trace.C19TIsNoSnapshot(rec.err) {
		// the table had no current snapshot (closed before the call pinned one): nothing is written, the segment-level
		// caller skips such a shard
		if !rec.closedAtEnd {
			w.bad("snapshot call found no current snapshot although the table holds data and is not closed")
		}
		w.outcome("no-current-snapshot")
		return
	}
	if rec.err != nil {
		if _, err := os.Stat(rec.dst); err == nil {
			w.bad("snapshot call failed but its destination directory was not removed")
		}
		if !w.fs.Failed() {
			w.bad("snapshot call failed although no fault was injected: " + ctStable(rec.err.Error()))
		}
		w.outcome("failed")
		return
	}
	if w.fs.Failed() {
		w.bad("snapshot call reported success although one of its hard links failed")
		return
	}
	if !rec.ok {
		w.bad("snapshot call reported nothing written although the table holds flushed parts")
		return
	}
	// ---- core directory: exactly one manifest, listed parts present and complete, nothing unlisted
	coreIDs, other, err := ctPartDirs(rec.dst)
	if err != nil {
		w.bad("snapshot destination unreadable: " + ctStable(err.Error()))
		return
	}
	var manifests []string
	hasSidx := false
	for _, n := range other {
		switch {
		case strings.HasSuffix(n, ".snp"):
			manifests = append(manifests, n)
		case n == trace.C19TSidxDir:
			hasSidx = true
		default:
			w.bad("snapshot contains an entry that is neither a part, a manifest nor the index directory: " + n)
		}
	}
	if len(manifests) != 1 {
		w.bad(fmt.Sprintf("snapshot has %d manifests, want exactly 1", len(manifests)))
		return
	}
	b, _ := os.ReadFile(filepath.Join(rec.dst, manifests[0]))
	var listed []string
	if err := json.Unmarshal(b, &listed); err != nil {
		w.bad("snapshot manifest is not a JSON list of part names")
		return
	}
	present := map[string]bool{}
	for _, id := range coreIDs {
		present[ctPartName(id)] = true
	}
	for _, n := range listed {
		if !present[n] {
			w.bad("snapshot manifest lists a part that is not present in the snapshot")
		}
		delete(present, n)
	}
	if len(present) > 0 {
		w.bad("snapshot contains a part directory its manifest does not list")
	}
	var epoch uint64
	if _, err := fmt.Sscanf(strings.TrimSuffix(manifests[0], ".snp"), "%x", &epoch); err != nil {
		w.bad("snapshot manifest name is not an epoch")
		return
	}
	if epoch < rec.start || epoch > rec.end {
		w.bad(fmt.Sprintf("snapshot is of an epoch that was not current during the call (epoch +%d, window [+%d,+%d])",
			int64(epoch-w.epoch0), rec.start-w.epoch0, rec.end-w.epoch0))
	}
	st, ok := w.epochs[epoch]
	if !ok {
		w.bad("snapshot manifest names an epoch no introduction published")
		return
	}
	if !reflect.DeepEqual(coreIDs, st.files()) {
		w.bad(fmt.Sprintf("snapshot holds core parts %v, the file parts of its manifest's epoch +%d are %v", coreIDs, epoch-w.epoch0, st.files()))
		return
	}
	for _, id := range coreIDs {
		if have, want := ctListFiles(filepath.Join(rec.dst, ctPartName(id))), w.refCore[id]; !reflect.DeepEqual(have, want) {
			w.bad(fmt.Sprintf("snapshot core part is incomplete: %d of %d files with the right size", len(have), len(want)))
			return
		}
	}
	// ---- index directory: every attached index copied, with the complete file parts of ONE index epoch of the window
	idxDir := filepath.Join(rec.dst, trace.C19TSidxDir, trace.C5TSidxName)
	idxIDs, idxOther, ierr := ctPartDirs(idxDir)
	switch {
	case !hasSidx || ierr != nil:
		w.bad("snapshot does not contain the directory of the table's secondary index")
		return
	case len(idxOther) > 0:
		w.bad("snapshot index directory contains an entry that is not a part directory: " + idxOther[0])
		return
	}
	if names, _ := os.ReadDir(filepath.Join(rec.dst, trace.C19TSidxDir)); len(names) != 1 {
		w.bad(fmt.Sprintf("snapshot holds %d index directories, the table has 1 index", len(names)))
	}
	closedIdx := len(idxIDs) == 0 && rec.closedAtEnd
	idxEpoch := uint64(0)
	found := false
	for e := rec.idxStart; e <= rec.end; e++ {
		if s, ok := w.epochs[e]; ok && reflect.DeepEqual(idxIDs, s.files()) {
			if !found || e == epoch {
				idxEpoch = e
			}
			found = true
		}
	}
	if !found && !closedIdx {
		w.bad(fmt.Sprintf("snapshot holds index parts %v, which is not the set of index file parts of an epoch that was current during the call", idxIDs))
		return
	}
	for _, id := range idxIDs {
		if have, want := ctListFiles(filepath.Join(idxDir, ctPartName(id))), w.refIdx[id]; !reflect.DeepEqual(have, want) {
			w.bad(fmt.Sprintf("snapshot index part is incomplete: %d of %d files with the right size", len(have), len(want)))
			return
		}
	}
	pairing := "idx=same"
	switch {
	case closedIdx:
		pairing = "idx=empty(closed)"
	case !reflect.DeepEqual(idxIDs, coreIDs):
		pairing = "idx=newer"
		if idxEpoch < epoch {
			pairing = "idx=older"
		}
		if ctStrict {
			w.bad(fmt.Sprintf("strict: snapshot pairs core file parts %v (epoch +%d) with index file parts %v (epoch +%d): the copy is not one publication",
				coreIDs, epoch-w.epoch0, idxIDs, idxEpoch-w.epoch0))
		}
	}
	// ---- restore: the real initTSTable (+ loadSidxMap -> sidx init/loadSnapshot) on the copy, then read it
	want := st.content(true)
	var byID map[string][]string
	var order []string
	var got map[string][]trace.C5TObs
	var rows []trace.C5TEntry
	var keptIdx []uint64
	var rerr error
	opened, loaded := false, uint64(0)
	func() {
		defer func() {
			if p := recover(); p != nil {
				rerr = fmt.Errorf("panic: %v", firstLine(fmt.Sprint(p)))
			}
		}()
		rt, _ := trace.C19TOpen(rec.dst, ctSegStart, ctSegEnd)
		defer rt.Close()
		cur := rt.CurrentCore()
		if cur == nil {
			return
		}
		opened, loaded = true, cur.Epoch
		byID = cur.ReadAll(w.traces)
		if ix := rt.Sidx(); ix != nil {
			for _, p := range sidx.C5TCurrent(ix).Parts {
				keptIdx = append(keptIdx, p.ID)
			}
		}
		q := rt.NewQuery()
		if rerr = q.Phase1(nil); rerr != nil {
			q.Abort()
			return
		}
		rows = q.Rows
		if rerr = q.Phase2(); rerr != nil {
			q.Abort()
			return
		}
		order, got, rerr = q.PullDefault()
	}()
	if rerr != nil {
		w.bad("opening / querying the snapshot as a table failed: " + ctStable(rerr.Error()))
		return
	}
	if !opened {
		w.bad("restored snapshot opens as an empty table")
		return
	}
	if loaded != epoch {
		w.bad("restored table did not load the snapshot's manifest")
	}
	if !reflect.DeepEqual(byID, want) {
		w.bad(fmt.Sprintf("restored copy: content by trace id differs from the flushed content of its epoch (traces got %d want %d)", len(byID), len(want)))
	}
	if closedIdx {
		// the index was closed under the call: its directory is empty and the copy has no ordered access path; only
		// reachable when the table is closed while it is copied, which the segment (C19 family storage) excludes
		w.outcome(fmt.Sprintf("epoch+%d core=%v %s", epoch-w.epoch0, coreIDs, pairing))
		return
	}
	indexed := map[string]int{}
	for _, r := range rows {
		indexed[r.Trace]++
	}
	missing, dangling, dup := 0, 0, 0
	for _, id := range ctKeys(want) {
		if indexed[id] == 0 {
			missing++
		} else if indexed[id] > 1 {
			dup++
		}
	}
	for id := range indexed {
		if _, ok := want[id]; !ok {
			dangling++
		}
	}
	sort.Slice(keptIdx, func(i, j int) bool { return keptIdx[i] < keptIdx[j] })
	pair := fmt.Sprintf("(copy pairs core parts %v with index parts %v; the open kept index parts %v)", coreIDs, idxIDs, keptIdx)
	if missing > 0 {
		w.bad(fmt.Sprintf("restored copy: %d of %d flushed traces have no entry in the ordered index %s", missing, len(want), pair))
	}
	if dangling > 0 {
		w.bad(fmt.Sprintf("restored copy: the ordered index holds entries of %d traces whose spans are not in the copied core parts %s", dangling, pair))
	}
	if dup > 0 {
		w.bad(fmt.Sprintf("restored copy: %d traces have more than one index entry %s", dup, pair))
	}
	if missing == 0 && dangling == 0 && dup == 0 {
		if !reflect.DeepEqual(order, ctKeys(want)) {
			w.bad("restored copy: the ordered query does not return the flushed traces of its epoch in index order")
		}
		for id, spans := range want {
			ids, intact := ctSpansOf(got[id])
			if !reflect.DeepEqual(ids, spans) || !intact {
				w.bad("restored copy: spans returned by the ordered query differ from the flushed spans of the trace")
				break
			}
		}
	}
	w.outcome(fmt.Sprintf("epoch+%d core=%v idxcopy=%v %s", epoch-w.epoch0, coreIDs, idxIDs, pairing))
}

var ctDigits = regexp.MustCompile(`0x[0-9a-f]+|[0-9]+`)

func traceSetup(sc scenario, seq *int) sched.Harness {
	// run.Go / run.GoOrDie bodies (pkg/run/goroutine.go, rewrite mode fsgo) are plain goroutines while the harness
	// prepares or inspects an instance and run inline on the calling scheduled thread during the controlled execution
	vos.VerifStop()
	*seq++
	dir := filepath.Join(base, fmt.Sprintf("ct%d", *seq))
	w := &ctWorld{dir: dir, viol: map[string]bool{}, epochs: map[uint64]*ctEpoch{}, refCore: map[uint64]map[string]int64{}, refIdx: map[uint64]map[string]int64{}}
	var threads []func()
	func() {
		defer func() {
			if p := recover(); p != nil {
				w.broken = true
				threads = []func(){func() {}}
				w.bad("setup: the real code panicked while the initial state / the flush and merge files were built sequentially: " +
					ctDigits.ReplaceAllString(firstLine(fmt.Sprint(p)), "#"))
			}
		}()
		threads = w.build(sc)
	}()
	if !w.broken {
		w.fs.Hook = true
		vos.VerifStart(false)
	}
	return sched.Harness{
		Threads: threads,
		Check: func(res *sched.Result) []string {
			vos.VerifStop()
			if w.fs != nil {
				w.fs.Hook = false
			}
			if res.Abort == "" && !w.broken {
				w.final()
			}
			lastOutcomes = w.outcomes
			keys := make([]string, 0, len(w.viol))
			for k := range w.viol {
				keys = append(keys, k)
			}
			sort.Strings(keys)
			return keys
		},
		Cleanup: func() {
			vos.VerifStop()
			if !w.closed && w.t != nil {
				func() {
					defer func() { _ = recover() }()
					w.t.Close()
				}()
			}
			_ = os.RemoveAll(dir)
		},
	}
}

// build constructs the initial state (real code, sequential): batches 1, 2 flushed (core file parts 1, 2 + index file
// parts 1, 2), batch 3 in memory (core + index memory part 3); then the introducer's prepared steps (the files of the
// flush of part 3 and of the merge 1+2 are produced here and only PUBLISHED by the introducer thread), the reference
// model and the threads.
func (w *ctWorld) build(sc scenario) []func() {
	t, hfs := trace.C19TOpen(filepath.Join(w.dir, "t"), ctSegStart, ctSegEnd)
	w.t, w.fs = t, hfs
	st := &ctEpoch{}
	for n := 1; n <= 3; n++ {
		in := t.PrepareWrite(ctBatch(n))
		t.IntroducePart(in)
		st.parts = append(st.parts, ctPart{id: in.ID, mem: true, batches: []int{n}})
		if n < 3 {
			t.FlushB(t.FlushA())
			t.GC()
			st.parts[len(st.parts)-1].mem = false
		}
	}
	for n := 1; n <= 4; n++ {
		for _, sp := range ctBatch(n) {
			if len(w.traces) == 0 || w.traces[len(w.traces)-1] != sp.Trace {
				w.traces = append(w.traces, sp.Trace)
			}
		}
	}
	e := t.NextEpoch() - 1
	w.epoch0, w.announced, w.completed = e, e, e
	w.epochs[e] = st
	w.core = append(w.core, t.CurrentCore().Parts...)
	w.sidxw = append(w.sidxw, sidx.C5TCurrent(t.Sidx()).Parts...)
	fail := 0
	for _, r := range sc.Roles {
		if strings.HasPrefix(r, "I:") {
			w.steps = strings.Split(r[2:], ",")
		}
		if strings.HasPrefix(r, "snapshot!") {
			if _, err := fmt.Sscanf(r, "snapshot!%d", &fail); err != nil {
				panic("bad role " + r)
			}
		}
	}
	has := func(s string) bool {
		for _, x := range w.steps {
			if x == s {
				return true
			}
		}
		return false
	}
	var addID, mergeID uint64
	if has("add") {
		w.intro = t.PrepareWrite(ctBatch(4))
		w.core = append(w.core, w.intro.Core)
		addID = w.intro.ID
	}
	if has("flush") {
		w.flush = t.FlushA()
		w.core = append(w.core, w.flush.Core...)
		w.sidxw = append(w.sidxw, w.flush.Sidx...)
	}
	if has("merge") {
		w.merge = t.MergeA([]uint64{1, 2})
		w.core = append(w.core, w.merge.Core)
		w.sidxw = append(w.sidxw, w.merge.Sidx...)
		mergeID = w.merge.New
	}
	for _, s := range w.steps {
		id := mergeID
		if s == "add" {
			id = addID
		}
		st = st.apply(s, id)
		e++
		w.epochs[e] = st
	}
	w.last = e
	idxRoot := filepath.Join(t.Dir, trace.C19TSidxDir, trace.C5TSidxName)
	for _, id := range []uint64{1, 2, 3, mergeID} {
		if id == 0 {
			continue
		}
		w.refCore[id] = ctListFiles(t.PartDir(id))
		w.refIdx[id] = ctListFiles(filepath.Join(idxRoot, ctPartName(id)))
	}
	hfs.FailLink = fail
	var threads []func()
	for i, r := range sc.Roles {
		name := fmt.Sprintf("q%d", i)
		switch {
		case r == "snapshot" || strings.HasPrefix(r, "snapshot!"):
			threads = append(threads, func() { w.snapshotter("snap1") })
		case r == "snapshot2":
			threads = append(threads, func() { w.snapshotter("snap2") })
		case r == "qF":
			threads = append(threads, func() { w.query(name + "-fenced") })
		case strings.HasPrefix(r, "I:"):
			threads = append(threads, w.introducer)
		case r == "close":
			threads = append(threads, func() { w.closed = true; w.t.Close() })
		default:
			panic("unknown role " + r)
		}
	}
	return threads
}

// final: every snapshot taken is judged; then quiescence of the live table as in C05's trace family.
func (w *ctWorld) final() {
	for _, rec := range w.snaps {
		w.checkSnapshot(rec)
	}
	rmAll := w.t.FS.RemovedAll()
	for p := range rmAll {
		for _, rec := range w.snaps {
			if rec.err == nil && strings.HasPrefix(p, rec.dst) {
				w.bad("a successful snapshot call removed (part of) its destination")
			}
		}
	}
	if w.closed {
		for _, p := range w.core {
			if p.Ref() != 0 {
				w.bad(fmt.Sprintf("final: core part wrapper has ref %d after close and the last reader", p.Ref()))
			}
		}
		for _, p := range w.sidxw {
			if p.Ref() != 0 {
				w.bad(fmt.Sprintf("final: index part wrapper has ref %d after close and the last reader", p.Ref()))
			}
		}
		for p := range rmAll {
			if strings.HasPrefix(p, w.t.Dir) {
				w.bad("final: a part directory of the table was removed although nothing was merged")
			}
		}
		return
	}
	cur := w.t.CurrentCore()
	if cur == nil {
		w.bad("final: no current core snapshot")
		return
	}
	st := w.epochs[w.last]
	if cur.Epoch != w.last {
		w.bad("final: the current core epoch is not the last epoch the introducer published")
		return
	}
	if cur.Ref() != 1 {
		w.bad(fmt.Sprintf("final: current core snapshot ref %d at quiescence, want 1 (the table's): a reference leaked or was dropped twice", cur.Ref()))
	}
	liveCore := map[string]bool{}
	var have []ctPart
	for _, p := range cur.Parts {
		have = append(have, ctPart{id: p.ID, mem: p.Mem})
		if p.Ref() != 1 {
			w.bad(fmt.Sprintf("final: a part of the current core snapshot has ref %d at quiescence, want 1", p.Ref()))
		}
		if !p.DirExists() {
			w.bad("final: a part of the current core snapshot has no directory")
		}
		if !p.Mem {
			liveCore[p.Path] = true
		}
	}
	var wantParts []ctPart
	for _, p := range st.parts {
		wantParts = append(wantParts, ctPart{id: p.id, mem: p.mem})
	}
	if !reflect.DeepEqual(have, wantParts) {
		w.bad("final: the part list of the current core snapshot differs from the reference")
	}
	for _, p := range w.core {
		live := false
		for _, c := range cur.Parts {
			if c.Same(p) {
				live = true
			}
		}
		if !live && p.Ref() != 0 {
			w.bad(fmt.Sprintf("final: a replaced core part wrapper (mem=%v) has ref %d at quiescence, want 0", p.Mem, p.Ref()))
		}
		if live || p.Mem || p.Path == "" || liveCore[p.Path] {
			continue
		}
		if p.Ref() == 0 {
			if _, err := os.Stat(p.Path); err == nil {
				w.bad("final: directory of a replaced core part still exists after its last reader finished")
			}
			if n := rmAll[p.Path]; n != 1 {
				w.bad(fmt.Sprintf("final: replaced core part directory removed %d times, want exactly once", n))
			}
		}
	}
	scur := sidx.C5TCurrent(w.t.Sidx())
	if !scur.Valid() {
		w.bad("final: no current index snapshot")
		return
	}
	if scur.Ref() != 1 {
		w.bad(fmt.Sprintf("final: current index snapshot ref %d at quiescence, want 1 (the index's)", scur.Ref()))
	}
	liveSidx := map[string]bool{}
	var sparts, wantS []uint64
	for _, p := range scur.Parts {
		sparts = append(sparts, p.ID)
		if p.Ref() != 1 {
			w.bad(fmt.Sprintf("final: a part of the current index snapshot has ref %d at quiescence, want 1", p.Ref()))
		}
		if !p.DirExists() {
			w.bad("final: a part of the current index snapshot has no directory")
		}
		if !p.Mem {
			liveSidx[p.Path] = true
		}
	}
	for _, p := range st.parts {
		wantS = append(wantS, p.id)
	}
	if !reflect.DeepEqual(sparts, wantS) {
		w.bad("final: the part list of the current index snapshot differs from the reference")
	}
	for _, p := range w.sidxw {
		live := false
		for _, c := range scur.Parts {
			if c.Same(p) {
				live = true
			}
		}
		if live {
			continue
		}
		if p.Ref() != 0 {
			w.bad(fmt.Sprintf("final: a replaced index part wrapper (mem=%v) has ref %d at quiescence, want 0", p.Mem, p.Ref()))
			continue
		}
		if p.Mem || p.Path == "" || liveSidx[p.Path] {
			continue
		}
		if n := rmAll[p.Path]; n != 1 {
			w.bad(fmt.Sprintf("final: replaced index part directory removed %d times, want exactly once", n))
		} else if _, err := os.Stat(p.Path); err == nil {
			w.bad("final: directory of a replaced index part still exists after its last reader finished")
		}
	}
	for dir, n := range rmAll {
		if (liveCore[dir] || liveSidx[dir]) && n > 0 {
			w.bad("final: directory of a live part was removed")
		}
	}
}

func init() {
	register(family{Name: "trace", Setup: traceSetup, Scenarios: []scenario{
		{Name: "TM", Roles: []string{"snapshot", "I:merge"}},
		{Name: "TF", Roles: []string{"snapshot", "I:flush"}},
		{Name: "TA", Roles: []string{"snapshot", "I:add"}},
		{Name: "TFM", Roles: []string{"snapshot", "I:flush,merge"}},
		{Name: "TS", Roles: []string{"snapshot", "snapshot2"}},
		{Name: "TC", Roles: []string{"snapshot", "qF", "close"}},
		// fault enumeration: the k-th hard link of the call fails after it was performed (1, 2 = index parts;
		// 3, 4 = core parts), alone and against a concurrent merge publication
		{Name: "TX1", Roles: []string{"snapshot!1"}},
		{Name: "TX2", Roles: []string{"snapshot!2"}},
		{Name: "TX3", Roles: []string{"snapshot!3", "I:merge"}},
		{Name: "TX4", Roles: []string{"snapshot!4"}},
		// {I:merge, snapshot, snapshot2} is not registered: 108 548 executions at bound 2 and > 1.7 M at bound 3 (it
		// consumed the whole thorough budget of the check); measured once, no verdict beyond those of TM and TS
		// {snapshot, I:flush,merge,add}: 33 596 executions at bound 2, 845 689 at bound 3 (11 min): measured once, same
		// outcomes as TFM plus epoch +3; not registered to keep the thorough tier of the whole check inside its budget
	}})
}
