// C19, family "stream": tsTable.TakeFileSnapshot of banyand/stream (backup of the element index, then hard links of
// the file parts of the pinned snapshot, then the manifest) against the single introducer, a second snapshot, a
// time-ordered query evaluated by the repository's own tsResult, and table close. Same oracle as the measure family.
// The element index (bluge) is opened for real because TakeFileSnapshot refuses to run without it; it holds no
// documents, its goroutines are not scheduled and touch no hooked object (the calling thread keeps the baton).
package main

import (
	"encoding/json"
	"fmt"
	"os"
	"path/filepath"
	"reflect"
	"regexp"
	"sort"
	"strings"

	"github.com/apache/skywalking-banyandb/banyand/stream"
	"github.com/apache/skywalking-banyandb/pkg/verif/sched"
)

type srows = []stream.V5SRow

var streamSeries = []uint64{1, 2}

const streamIndexDir = "idx"

func streamBatch(ts int64) srows {
	var out srows
	for _, s := range streamSeries {
		out = append(out, stream.V5SRow{Series: s, TS: ts, ID: uint64(ts)*10 + s, Val: ts*100 + int64(s)})
	}
	return out
}

// streamUnion: rows ordered by (TS, Series), the order of a time-ordered result.
func streamUnion(bs ...srows) srows {
	var out srows
	for _, b := range bs {
		out = append(out, b...)
	}
	sort.Slice(out, func(i, j int) bool {
		if out[i].TS != out[j].TS {
			return out[i].TS < out[j].TS
		}
		return out[i].Series < out[j].Series
	})
	return out
}

type streamWorld struct {
	t        *stream.V5STable
	expected map[uint64]srows // epoch -> logical content
	flushed  map[uint64]srows // epoch -> content of the file parts of that epoch
	replaced map[string]bool  // part directories that a merge replaced
	viol     map[string]bool
	intro    *stream.V5SIntro
	flush    *stream.V5SFlush
	merge    *stream.V5SMerge
	dir      string
	snaps    []*streamSnapRec
	outcomes []string
	epoch0   uint64
	closed   bool
}

func (w *streamWorld) bad(s string) { w.viol[s] = true }

func (w *streamWorld) outcome(s string) { w.outcomes = append(w.outcomes, s) }

// readAll evaluates a time-ordered query over everything through the repository's tsResult.
func streamReadAll(t *stream.V5STable, hold func(q *stream.V5SQuery)) (srows, *stream.V5SQuery, error) {
	q := t.NewTSQuery(streamSeries, 0, 1<<40)
	first := true
	q.Hold = func(string, int) {
		if first && hold != nil {
			first = false
			hold(q)
		}
	}
	var got srows
	for {
		rows, ok, err := q.Pull()
		if err != nil {
			q.Release()
			return nil, q, err
		}
		if !ok {
			break
		}
		got = append(got, rows...)
	}
	q.Release()
	return got, q, nil
}

// query: a time-ordered query with one hold point right after it pinned the snapshot.
func (w *streamWorld) query(name string) {
	var views []uint64
	held := false
	got, _, err := streamReadAll(w.t, func(q *stream.V5SQuery) {
		held = true
		sched.Observe(func() { views = q.ViewEpochs() })
		sched.Yield(name + ":hold")
		sched.Observe(func() {
			for _, p := range q.Parts() {
				if p.Ref < 1 {
					w.bad(fmt.Sprintf("%s: part in use by the query has reference count %d", name, p.Ref))
				}
				if p.Gone {
					w.bad(name + ": a part in use by the query is gone")
				}
			}
		})
	})
	sched.Observe(func() {
		switch {
		case err != nil:
			w.bad(name + ": query failed: " + streamStable(err.Error()))
		case !held:
			if len(got) != 0 || !w.closed {
				w.bad(name + ": query found no snapshot although the table holds data and is not closed")
			}
		case len(views) == 0:
			w.bad(name + ": the parts the query works on never were the table's content")
		default:
			if want, ok := w.expected[views[0]]; !ok {
				w.bad(name + ": query pinned an epoch that no introduction published")
			} else if !reflect.DeepEqual(got, want) {
				w.bad(fmt.Sprintf("%s: query result differs from the content of the epoch it pinned (rows got %d want %d)", name, len(got), len(want)))
			}
		}
	})
}

// introducer plays the single goroutine that serialises all snapshot transitions. steps: "w" = new batch + flush
// publication + gc, "m" = merge publication + gc.
func (w *streamWorld) introducer(steps string) {
	ep := w.t.NextEpoch() - 1
	cur, fl := w.expected[ep], w.flushed[ep]
	if strings.Contains(steps, "w") {
		// 1. a new batch becomes visible atomically
		cur = streamUnion(cur, streamBatch(400))
		w.expected[w.t.NextEpoch()] = cur
		w.flushed[w.t.NextEpoch()] = fl
		w.t.IntroducePart(w.intro)
		sched.Observe(w.t.Record)
		// 2. flush: memory part p3 is replaced by its file part (files produced beforehand, see template)
		fl = streamUnion(fl, streamBatch(300))
		w.expected[w.t.NextEpoch()] = cur
		w.flushed[w.t.NextEpoch()] = fl
		w.t.FlushB(w.flush)
		sched.Observe(w.t.Record)
		w.t.GC()
	}
	if strings.Contains(steps, "m") {
		// 3. merge: file parts p1,p2 are replaced by the merged part
		for _, id := range w.merge.IDs {
			w.replaced[w.t.PartDir(id)] = true
		}
		w.expected[w.t.NextEpoch()] = cur
		w.flushed[w.t.NextEpoch()] = fl
		w.t.MergeB(w.merge)
		sched.Observe(w.t.Record)
		w.t.GC()
	}
}

type streamSnapRec struct {
	err        error
	dst        string
	startEpoch uint64
	endEpoch   uint64
	ok         bool
}

// snapshotter is what segment.snapshotOpen does per shard: create the shard directory, then tsTable.TakeFileSnapshot.
func (w *streamWorld) snapshotter(name string) {
	dst := filepath.Join(w.dir, name)
	_ = os.MkdirAll(dst, 0o755)
	rec := &streamSnapRec{dst: dst}
	sched.Observe(func() { rec.startEpoch = w.t.CurrentEpoch() })
	rec.ok, rec.err = w.t.TakeFileSnapshot(dst)
	sched.Observe(func() { rec.endEpoch = w.t.CurrentEpoch() })
	w.snaps = append(w.snaps, rec)
}

// checkSnapshot opens the snapshot directory as a table with the real recovery code and compares.
func (w *streamWorld) checkSnapshot(rec *streamSnapRec) {
	if rec.err != nil && strings.Contains(rec.err.Error(), "no current snapshot available") {
		// storage.ErrNoCurrentSnapshot: the caller (segment.snapshotOpen) skips the shard and keeps its empty directory
		if !w.closed {
			w.bad("snapshot call found no current snapshot although the table is open and holds data")
		}
		w.outcome("no-current-snapshot")
		return
	}
	if rec.err != nil {
		if _, err := os.Stat(rec.dst); err == nil {
			w.bad("snapshot call failed but its destination directory was not removed")
		}
		if !w.closed {
			w.bad("snapshot call failed although the table is open and holds flushed parts: " + streamStable(rec.err.Error()))
		}
		w.outcome("failed")
		return
	}
	if !rec.ok {
		w.bad("snapshot call reported nothing written although the table holds flushed parts")
		return
	}
	ents, err := os.ReadDir(rec.dst)
	if err != nil {
		w.bad("snapshot destination unreadable: " + err.Error())
		return
	}
	var manifests []string
	dirs := map[string]bool{}
	hasIndex := false
	for _, e := range ents {
		switch {
		case e.IsDir() && e.Name() == streamIndexDir:
			hasIndex = true
		case e.IsDir():
			dirs[e.Name()] = true
		case strings.HasSuffix(e.Name(), ".snp"):
			manifests = append(manifests, e.Name())
		}
	}
	if !hasIndex {
		w.bad("snapshot has no copy of the element index")
	}
	if len(manifests) != 1 {
		w.bad(fmt.Sprintf("snapshot has %d manifests, want exactly 1", len(manifests)))
		return
	}
	b, _ := os.ReadFile(filepath.Join(rec.dst, manifests[0]))
	var listed []string
	if err := json.Unmarshal(b, &listed); err != nil {
		w.bad("snapshot manifest is not a JSON list of part names")
		return
	}
	for _, n := range listed {
		if !dirs[n] {
			w.bad("snapshot manifest lists a part that is not present in the snapshot")
		} else if _, err := os.Stat(filepath.Join(rec.dst, n, "metadata.json")); err != nil {
			w.bad("snapshot part has no metadata.json")
		}
		delete(dirs, n)
	}
	if len(dirs) > 0 {
		w.bad("snapshot contains a part directory its manifest does not list")
	}
	var epoch uint64
	if _, err := fmt.Sscanf(strings.TrimSuffix(manifests[0], ".snp"), "%x", &epoch); err != nil {
		w.bad("snapshot manifest name is not an epoch")
		return
	}
	if rec.endEpoch == 0 {
		rec.endEpoch = ^uint64(0) // the table was closed during the call: any later epoch is unknown to the harness
	}
	if epoch < rec.startEpoch || epoch > rec.endEpoch {
		w.bad(fmt.Sprintf("snapshot is of an epoch that was not current during the call (epoch offset %d, window [%d,%d])",
			int64(epoch)-int64(rec.startEpoch), 0, int64(rec.endEpoch-rec.startEpoch)))
	}
	// restore
	var got srows
	var opened bool
	func() {
		defer func() {
			if p := recover(); p != nil {
				w.bad("opening the snapshot as a table panicked: " + streamStable(fmt.Sprint(p)))
			}
		}()
		rt := stream.V5SOpen(rec.dst, false)
		defer rt.Close()
		if rt.CurrentEpoch() == 0 {
			return
		}
		opened = true
		if rt.CurrentEpoch() != epoch {
			w.bad("restored table did not load the snapshot's manifest")
		}
		var err error
		if got, _, err = streamReadAll(rt, nil); err != nil {
			w.bad("query of the restored table failed: " + streamStable(err.Error()))
		}
	}()
	if !opened {
		w.bad("restored snapshot opens as an empty table")
		return
	}
	// the copy holds the flushed (file) part of one epoch: the file parts' content of that epoch
	want, ok := w.flushed[epoch]
	if !ok {
		w.bad("snapshot manifest names an epoch no introduction published")
		return
	}
	if !reflect.DeepEqual(got, want) {
		w.bad(fmt.Sprintf("restored content differs from the flushed content of its epoch (rows got %d want %d)", len(got), len(want)))
	}
	w.outcome(fmt.Sprintf("epoch+%d rows=%d", epoch-w.epoch0, len(got)))
}

func streamSetup(sc scenario, seq *int) sched.Harness {
	*seq++
	dir := filepath.Join(base, fmt.Sprintf("s%d", *seq))
	w := &streamWorld{dir: dir, expected: map[uint64]srows{}, replaced: map[string]bool{}, viol: map[string]bool{}, flushed: map[uint64]srows{}}
	// initial state: two flushed file parts (copied from a template built once per worker by the same real code,
	// then recovered by the real initTSTable) and one memory part
	tm := streamTemplate()
	if err := copyTree(tm.table, filepath.Join(dir, "t")); err != nil {
		panic(err)
	}
	t := stream.V5SOpen(filepath.Join(dir, "t"), true)
	w.t = t
	t.FS.Hook = true
	w.expected[t.CurrentEpoch()] = streamUnion(streamBatch(100), streamBatch(200))
	w.flushed[t.CurrentEpoch()] = streamUnion(streamBatch(100), streamBatch(200))
	t.Write(streamBatch(300))
	t.Record()
	w.expected[t.NextEpoch()-1] = streamUnion(streamBatch(100), streamBatch(200), streamBatch(300))
	w.flushed[t.NextEpoch()-1] = streamUnion(streamBatch(100), streamBatch(200))
	w.epoch0 = t.NextEpoch() - 1
	w.intro = t.PrepareWrite(streamBatch(400))
	// results of flushing p3 and of merging p1+p2, produced once per worker by the real flush/merge code
	if err := copyTree(tm.extra, filepath.Join(dir, "t")); err != nil {
		panic(err)
	}
	w.flush = t.AdoptFlush(tm.flushIDs)
	w.merge = t.AdoptMerge(tm.mergeID, tm.mergeInputs)
	var threads []func()
	for _, r := range sc.Roles {
		switch r {
		case "query":
			threads = append(threads, func() { w.query("query") })
		case "introducer":
			threads = append(threads, func() { w.introducer("wm") })
		case "flusher":
			threads = append(threads, func() { w.introducer("w") })
		case "merger":
			threads = append(threads, func() { w.introducer("m") })
		case "snapshot":
			threads = append(threads, func() { w.snapshotter("snap1") })
		case "snapshot2":
			threads = append(threads, func() { w.snapshotter("snap2") })
		case "close":
			threads = append(threads, func() { w.closed = true; w.t.Close() })
		default:
			panic("unknown role " + r)
		}
	}
	return sched.Harness{
		Threads: threads,
		Check: func(res *sched.Result) []string {
			if res.Abort == "" {
				w.final()
			}
			lastOutcomes = w.outcomes
			keys := make([]string, 0, len(w.viol))
			for k := range w.viol {
				keys = append(keys, k)
			}
			sort.Strings(keys)
			return keys
		},
		Cleanup: func() {
			if !w.closed {
				func() {
					defer func() { _ = recover() }()
					w.t.Close()
				}()
			}
			_ = os.RemoveAll(dir)
		},
	}
}

// final: quiescence. No query holds anything; the table's own reference keeps exactly the current snapshot alive.
func (w *streamWorld) final() {
	for _, rec := range w.snaps {
		w.checkSnapshot(rec)
	}
	for _, l := range w.t.Leaks() {
		w.bad("final: " + l)
	}
	if w.closed {
		return
	}
	v := w.t.Pin()
	if v == nil {
		w.bad("final: no current snapshot")
		return
	}
	if v.Ref() != 2 {
		w.bad(fmt.Sprintf("final: current snapshot ref %d at quiescence, want 2 (table + this pin): a reader reference leaked or was dropped twice", v.Ref()))
	}
	live := map[string]bool{}
	for _, p := range v.Parts() {
		if p.Gone {
			w.bad("final: a part of the current snapshot has no directory")
		}
		if p.Path != "" {
			live[p.Path] = true
		}
	}
	ep := v.Epoch()
	v.Unpin()
	if got, _, err := streamReadAll(w.t, nil); err != nil || !reflect.DeepEqual(got, w.expected[ep]) {
		w.bad("final: current snapshot content differs from the acknowledged batches")
	}
	for dir := range w.replaced {
		if live[dir] {
			continue
		}
		if _, err := os.Stat(dir); err == nil {
			w.bad("final: directory of a replaced part still exists after its last reader finished")
		}
		if n := w.t.FS.RM[dir]; n != 1 {
			w.bad(fmt.Sprintf("final: replaced part directory removed %d times, want exactly once", n))
		}
	}
	for dir, n := range w.t.FS.RM {
		if live[dir] && n > 0 {
			w.bad("final: directory of a live part was removed")
		}
	}
}

var streamPathRe = regexp.MustCompile(`/dev/shm/[^\s:"']+`)

// streamStable removes per-execution scratch paths from a message so that violation keys are stable.
func streamStable(s string) string { return streamPathRe.ReplaceAllString(firstLine(s), "<scratch>") }

type streamTmpl struct {
	table       string // table directory holding file parts p1, p2 and their manifest
	extra       string // part directories produced by flushing p3 and by merging p1+p2
	flushIDs    []uint64
	mergeInputs []uint64
	mergeID     uint64
}

var streamTm *streamTmpl

// streamTemplate builds, once per process and with the real code, the initial table and the file output of the flush
// and merge steps the introducer thread will publish (their production is deterministic and not part of the race).
func streamTemplate() *streamTmpl {
	if streamTm != nil {
		return streamTm
	}
	x := &streamTmpl{table: filepath.Join(base, "stmpl", "t"), extra: filepath.Join(base, "stmpl", "extra")}
	t := stream.V5SOpen(x.table, false)
	t.Write(streamBatch(100))
	t.FlushB(t.FlushA())
	t.GC()
	t.Write(streamBatch(200))
	t.FlushB(t.FlushA())
	t.GC()
	t.Close()
	work := filepath.Join(base, "stmpl", "work")
	if err := copyTree(x.table, work); err != nil {
		panic(err)
	}
	t = stream.V5SOpen(work, false)
	x.mergeInputs = t.FileParts()
	t.Write(streamBatch(300))
	_ = t.PrepareWrite(streamBatch(400))
	f := t.FlushA()
	x.flushIDs = f.IDs()
	m := t.MergeA(x.mergeInputs)
	x.mergeID = m.New
	for _, id := range append(append([]uint64{}, x.flushIDs...), x.mergeID) {
		if err := copyTree(t.PartDir(id), filepath.Join(x.extra, filepath.Base(t.PartDir(id)))); err != nil {
			panic(err)
		}
	}
	t.Close()
	_ = os.RemoveAll(work)
	streamTm = x
	return x
}

func init() {
	register(family{Name: "stream", Setup: streamSetup, Scenarios: []scenario{
		{Name: "SA", Roles: []string{"snapshot", "introducer"}},
		{Name: "SB", Roles: []string{"snapshot", "query", "close"}},
		// three threads against one half of the introducer's work each (with the whole introducer a three-thread
		// scenario has several million schedules at bound 3)
		{Name: "SC", Roles: []string{"snapshot", "merger", "query"}, ThoroughOnly: true},
		{Name: "SD", Roles: []string{"flusher", "snapshot", "snapshot2"}, ThoroughOnly: true},
	}})
}
