// C19: a file snapshot is a consistent, openable point-in-time copy (measure tsTable.TakeFileSnapshot; Engine S).
//
// The real measure snapshot/partWrapper/introducer/tsTable code runs with sync and sync/atomic redirected to the
// scheduler shims. Threads: queries (pin; hold; read through the real block search; unpin), the single introducer
// (introduce a new memory part; flush; merge; gc — the step functions the loops call), a table close.
// Every schedule with at most `bound` preemptions is executed.
package main

import (
	"encoding/json"
	"fmt"
	"os"
	"path/filepath"
	"reflect"
	"sort"
	"strings"

	"github.com/apache/skywalking-banyandb/banyand/measure"
	"github.com/apache/skywalking-banyandb/pkg/verif/sched"
)

type rows = []measure.V5Row

func batch(ts int64) rows {
	return rows{{Series: 1, TS: ts, Version: 1, Val: ts*10 + 1}, {Series: 2, TS: ts, Version: 1, Val: ts*10 + 2}}
}

func union(bs ...rows) rows {
	var out rows
	for _, b := range bs {
		out = append(out, b...)
	}
	sort.Slice(out, func(i, j int) bool {
		if out[i].Series != out[j].Series {
			return out[i].Series < out[j].Series
		}
		return out[i].TS < out[j].TS
	})
	return out
}

type world struct {
	t        *measure.V5Table
	dir      string
	expected map[uint64]rows // epoch -> logical content
	replaced map[string]bool // part directories that a merge replaced
	viol     map[string]bool
	closed   bool
	intro    *measure.V5Intro
	flush    *measure.V5Flush
	merge    *measure.V5Merge
	pins     int
	epochs   map[uint64]int  // epoch -> how many queries observed it (outcome)
	flushed  map[uint64]rows // epoch -> content of the file parts of that epoch
	snaps    []*snapRec
	outcomes []string
	epoch0   uint64
}

func (w *world) bad(s string) { sched.Own(func() { w.viol[s] = true }) }

var allSeries = []uint64{1, 2}

func (w *world) query(name string, holds int) {
	v := w.t.Pin()
	if v == nil {
		sched.Own(func() {
			if !w.closed {
				w.bad(name + ": no snapshot although the table holds data and is not closed")
			}
		})
		return
	}
	sched.Own(func() { w.pins++ })
	ep := v.Epoch()
	for i := 0; i < holds; i++ {
		sched.Yield(name + ":hold")
		sched.Observe(func() {
			if v.Ref() < 1 {
				w.bad(fmt.Sprintf("%s: pinned snapshot has ref %d", name, v.Ref()))
			}
			if m := v.MissingDirs(); len(m) > 0 {
				w.bad(name + ": directory of a part in the pinned snapshot is gone while pinned")
			}
			var got rows
			func() {
				defer func() {
					if p := recover(); p != nil {
						w.bad(fmt.Sprintf("%s: read of the pinned snapshot panicked: %v", name, firstLine(fmt.Sprint(p))))
					}
				}()
				got = v.Read(allSeries, 0, 1<<40)
			}()
			want, ok := w.expected[ep]
			if !ok {
				w.bad(fmt.Sprintf("%s: pinned an epoch that no introduction published", name))
			} else if got != nil && !reflect.DeepEqual(got, want) {
				w.bad(fmt.Sprintf("%s: pinned view content differs from the content at its epoch (rows got %d want %d)", name, len(got), len(want)))
			}
		})
	}
	w.epochs[ep]++
	v.Unpin()
}

func firstLine(s string) string {
	if i := strings.IndexByte(s, '\n'); i >= 0 {
		return s[:i]
	}
	if len(s) > 120 {
		return s[:120]
	}
	return s
}

// introducer plays the single goroutine that serialises all snapshot transitions.
func (w *world) introducer() {
	// (the world's own bookkeeping goes through sched.Own: a plain call under the controlled scheduler, one mutex in
	// the free-running -race pass)
	var cur rows
	sched.Own(func() {
		cur = w.expected[w.t.NextEpoch()-1]
		// 1. a new batch becomes visible atomically
		w.expected[w.t.NextEpoch()] = union(cur, batch(400))
		w.flushed[w.t.NextEpoch()] = union(batch(100), batch(200))
	})
	w.t.IntroducePart(w.intro)
	cur = union(cur, batch(400))
	// 2. flush: memory part p3 is replaced by its file part (files produced beforehand, see template)
	sched.Own(func() {
		w.expected[w.t.NextEpoch()] = cur
		w.flushed[w.t.NextEpoch()] = union(batch(100), batch(200), batch(300))
	})
	w.t.FlushB(w.flush)
	w.t.GC()
	// 3. merge: file parts p1,p2 are replaced by the merged part
	sched.Own(func() {
		for _, id := range w.merge.IDs {
			w.replaced[w.t.PartDir(id)] = true
		}
		w.expected[w.t.NextEpoch()] = cur
		w.flushed[w.t.NextEpoch()] = union(batch(100), batch(200), batch(300))
	})
	w.t.MergeB(w.merge)
	w.t.GC()
}

type snapRec struct {
	dst        string
	err        error
	startEpoch uint64
	endEpoch   uint64
	ok         bool
}

// snapshotter is what segment.snapshotOpen does per shard: create the shard directory, then tsTable.TakeFileSnapshot.
func (w *world) snapshotter(name string) {
	dst := filepath.Join(w.dir, name)
	_ = os.MkdirAll(dst, 0o755)
	rec := &snapRec{dst: dst}
		sched.Observe(func() { rec.startEpoch = w.t.CurrentEpoch() }) // 0 = already closed: the call must then find no snapshot
	rec.ok, rec.err = w.t.TakeFileSnapshot(dst)
	// upper bound: the newest epoch the introducer has announced so far (it registers an epoch right before
	// publishing it). A concurrent Close does not disturb this bound.
	sched.Own(func() {
		for e := range w.flushed {
			if e > rec.endEpoch {
				rec.endEpoch = e
			}
		}
		w.snaps = append(w.snaps, rec)
	})
}

// checkSnapshot opens the snapshot directory as a table with the real recovery code and compares.
func (w *world) checkSnapshot(rec *snapRec) {
	if rec.err != nil && measure.V5IsNoSnapshot(rec.err) {
		// the table had no current snapshot (it was closed before the call pinned one): nothing is written, the
		// segment-level caller skips such a shard; legitimate only if a Close ran
		if !w.closed {
			w.bad("snapshot call found no current snapshot although the table holds data and is not closed")
		}
		w.outcome("no-current-snapshot")
		return
	}
	if rec.err != nil {
		if _, err := os.Stat(rec.dst); err == nil {
			w.bad("snapshot call failed but its destination directory was not removed")
		}
		w.outcome("failed")
		return
	}
	if !rec.ok {
		w.bad("snapshot call reported nothing written although the table holds flushed parts")
		return
	}
	ents, err := os.ReadDir(rec.dst)
	if err != nil {
		w.bad("snapshot destination unreadable: " + err.Error())
		return
	}
	var manifests []string
	dirs := map[string]bool{}
	for _, e := range ents {
		if e.IsDir() {
			dirs[e.Name()] = true
		} else if strings.HasSuffix(e.Name(), ".snp") {
			manifests = append(manifests, e.Name())
		}
	}
	if len(manifests) != 1 {
		w.bad(fmt.Sprintf("snapshot has %d manifests, want exactly 1", len(manifests)))
		return
	}
	b, _ := os.ReadFile(filepath.Join(rec.dst, manifests[0]))
	var listed []string
	if err := json.Unmarshal(b, &listed); err != nil {
		w.bad("snapshot manifest is not a JSON list of part names")
		return
	}
	for _, n := range listed {
		if !dirs[n] {
			w.bad("snapshot manifest lists a part that is not present in the snapshot")
		} else if _, err := os.Stat(filepath.Join(rec.dst, n, "metadata.json")); err != nil {
			w.bad("snapshot part has no metadata.json")
		}
		delete(dirs, n)
	}
	if len(dirs) > 0 {
		w.bad("snapshot contains a part directory its manifest does not list")
	}
	var epoch uint64
	if _, err := fmt.Sscanf(strings.TrimSuffix(manifests[0], ".snp"), "%x", &epoch); err != nil {
		w.bad("snapshot manifest name is not an epoch")
		return
	}
	if epoch < rec.startEpoch || epoch > rec.endEpoch {
		w.bad(fmt.Sprintf("snapshot is of an epoch that was not current during the call (epoch offset %d, window [%d,%d])",
			int64(epoch)-int64(rec.startEpoch), 0, rec.endEpoch-rec.startEpoch))
	}
	// restore
	var got rows
	var opened bool
	func() {
		defer func() {
			if p := recover(); p != nil {
				w.bad("opening the snapshot as a table panicked: " + firstLine(fmt.Sprint(p)))
			}
		}()
		rt := measure.V5Open(rec.dst)
		defer rt.Close()
		if v := rt.Pin(); v != nil {
			opened = true
			if v.Epoch() != epoch {
				w.bad("restored table did not load the snapshot's manifest")
			}
			got = v.Read(allSeries, 0, 1<<40)
			v.Unpin()
		}
	}()
	if !opened {
		w.bad("restored snapshot opens as an empty table")
		return
	}
	// the copy holds the flushed (file) part of one epoch: the file parts' content of that epoch
	want, ok := w.flushed[epoch]
	if !ok {
		w.bad("snapshot manifest names an epoch no introduction published")
		return
	}
	if !reflect.DeepEqual(got, want) {
		w.bad(fmt.Sprintf("restored content differs from the flushed content of its epoch (rows got %d want %d)", len(got), len(want)))
	}
	w.outcome(fmt.Sprintf("epoch+%d rows=%d", epoch-w.epoch0, len(got)))
}

func (w *world) outcome(s string) { sched.Own(func() { w.outcomes = append(w.outcomes, s) }) }

var lastOutcomes []string

func measureSetup(sc scenario, seq *int) sched.Harness {
	*seq++
	dir := filepath.Join(base, fmt.Sprintf("x%d", *seq))
	w := &world{dir: dir, expected: map[uint64]rows{}, replaced: map[string]bool{}, viol: map[string]bool{}, epochs: map[uint64]int{}, flushed: map[uint64]rows{}}
	// initial state: two flushed file parts (copied from a template built once per worker by the same real code,
	// then recovered by the real initTSTable) and one memory part
	tm := template()
	if err := copyTree(tm.table, filepath.Join(dir, "t")); err != nil {
		panic(err)
	}
	t := measure.V5Open(filepath.Join(dir, "t"))
	w.t = t
	t.FS.Hook = true
	t.Write(batch(300))
	w.expected[t.NextEpoch()-1] = union(batch(100), batch(200), batch(300))
	w.flushed[t.NextEpoch()-1] = union(batch(100), batch(200))
	w.epoch0 = t.NextEpoch() - 1
	w.intro = t.PrepareWrite(batch(400))
	// results of flushing p3 and of merging p1+p2, produced once per worker by the real flush/merge code
	if err := copyTree(tm.extra, filepath.Join(dir, "t")); err != nil {
		panic(err)
	}
	w.flush = t.AdoptFlush(tm.flushIDs)
	w.merge = t.AdoptMerge(tm.mergeID, tm.mergeInputs)
	var threads []func()
	for _, r := range sc.Roles {
		switch r {
		case "query":
			threads = append(threads, func() { w.query("query", 1) })
		case "longquery":
			threads = append(threads, func() { w.query("longquery", 2) })
		case "introducer":
			threads = append(threads, w.introducer)
		case "snapshot":
			threads = append(threads, func() { w.snapshotter("snap1") })
		case "snapshot2":
			threads = append(threads, func() { w.snapshotter("snap2") })
		case "close":
			threads = append(threads, func() { sched.Own(func() { w.closed = true }); w.t.Close() })
		default:
			panic("unknown role " + r)
		}
	}
	return sched.Harness{
		Threads: threads,
		Check: func(res *sched.Result) []string {
			if res.Abort == "" {
				w.final()
			}
			lastOutcomes = w.outcomes
			keys := make([]string, 0, len(w.viol))
			for k := range w.viol {
				keys = append(keys, k)
			}
			sort.Strings(keys)
			return keys
		},
		Cleanup: func() {
			if !w.closed {
				func() {
					defer func() { _ = recover() }()
					w.t.Close()
				}()
			}
			_ = os.RemoveAll(dir)
		},
	}
}

// final: quiescence. No query holds anything; the table's own reference keeps exactly the current snapshot alive.
func (w *world) final() {
	for _, rec := range w.snaps {
		w.checkSnapshot(rec)
	}
	if w.closed {
		return
	}
	v := w.t.Pin()
	if v == nil {
		w.bad("final: no current snapshot")
		return
	}
	if got, want := v.Read(allSeries, 0, 1<<40), w.expected[v.Epoch()]; !reflect.DeepEqual(got, want) {
		w.bad("final: current snapshot content differs from the acknowledged batches")
	}
	if len(v.MissingDirs()) > 0 {
		w.bad("final: a part of the current snapshot has no directory")
	}
	if v.Ref() != 2 {
		w.bad(fmt.Sprintf("final: current snapshot ref %d at quiescence, want 2 (table + this pin): a reader reference leaked or was dropped twice", v.Ref()))
	}
	live := map[string]bool{}
	for _, p := range v.Parts() {
		live[p.Path] = true
	}
	v.Unpin()
	for dir := range w.replaced {
		if live[dir] {
			continue
		}
		if _, err := os.Stat(dir); err == nil {
			w.bad("final: directory of a replaced part still exists after its last reader finished")
		}
		if n := w.t.FS.RM[dir]; n != 1 {
			w.bad(fmt.Sprintf("final: replaced part directory removed %d times, want exactly once", n))
		}
	}
	for dir, n := range w.t.FS.RM {
		if live[dir] && n > 0 {
			w.bad("final: directory of a live part was removed")
		}
	}
}

type tmpl struct {
	table       string // table directory holding file parts p1, p2 and their manifest
	extra       string // part directories produced by flushing p3 and by merging p1+p2
	flushIDs    []uint64
	mergeInputs []uint64
	mergeID     uint64
}

var tm *tmpl

// template builds, once per process and with the real code, the initial table and the file output of the flush and
// merge steps the introducer thread will publish (their production is deterministic and not part of the race).
func template() *tmpl {
	if tm != nil {
		return tm
	}
	x := &tmpl{table: filepath.Join(base, "tmpl", "t"), extra: filepath.Join(base, "tmpl", "extra")}
	t := measure.V5Open(x.table)
	t.Write(batch(100))
	t.FlushB(t.FlushA())
	t.GC()
	t.Write(batch(200))
	t.FlushB(t.FlushA())
	t.GC()
	t.Close()
	work := filepath.Join(base, "tmpl", "work")
	if err := copyTree(x.table, work); err != nil {
		panic(err)
	}
	t = measure.V5Open(work)
	x.mergeInputs = t.FileParts()
	t.Write(batch(300))
	_ = t.PrepareWrite(batch(400))
	f := t.FlushA()
	x.flushIDs = f.IDs()
	m := t.MergeA(x.mergeInputs)
	x.mergeID = m.New
	for _, id := range append(append([]uint64{}, x.flushIDs...), x.mergeID) {
		if err := copyTree(t.PartDir(id), filepath.Join(x.extra, filepath.Base(t.PartDir(id)))); err != nil {
			panic(err)
		}
	}
	t.Close()
	_ = os.RemoveAll(work)
	tm = x
	return x
}

func copyTree(src, dst string) error {
	return filepath.Walk(src, func(p string, info os.FileInfo, err error) error {
		if err != nil {
			return err
		}
		rel, _ := filepath.Rel(src, p)
		q := filepath.Join(dst, rel)
		if info.IsDir() {
			return os.MkdirAll(q, 0o755)
		}
		b, err := os.ReadFile(p)
		if err != nil {
			return err
		}
		return os.WriteFile(q, b, info.Mode())
	})
}

func init() {
	register(family{Name: "measure", RaceOK: true, Setup: measureSetup, Scenarios: []scenario{
		{Name: "A", Roles: []string{"snapshot", "introducer", "query"}},
		{Name: "B", Roles: []string{"introducer", "snapshot", "snapshot2"}},
		{Name: "C", Roles: []string{"snapshot", "longquery", "close"}},
	}})
}
