// C19, segment level: database.TakeFileSnapshot -> segment.snapshotInto/snapshotOpen/snapshotClosed under the
// controlled scheduler, racing with the idle reclaimer, retention / expired-segment deletion, a writer and a query, on a
// real TSDB (real series index) with recording shard tables whose TakeFileSnapshot is a scheduling point.
package main

import (
	"fmt"
	"os"
	"path/filepath"
	"sort"
	"time"

	"github.com/apache/skywalking-banyandb/banyand/internal/storage"
	"github.com/apache/skywalking-banyandb/pkg/timestamp"
	"github.com/apache/skywalking-banyandb/pkg/verif/sched"
)

var (
	sLoc  = time.Local
	sTA   = time.Date(2026, 9, 5, 10, 0, 0, 0, sLoc)
	sTB   = time.Date(2026, 9, 6, 10, 0, 0, 0, sLoc)
	sNow  = time.Date(2026, 9, 10, 12, 0, 0, 0, sLoc)
	sAllR = timestamp.NewInclusiveTimeRange(sTA.Add(-time.Hour), sTB.Add(48*time.Hour))
)

type stgWorld struct {
	db        *storage.VDB
	dir       string
	segs      []*storage.VSeg
	viol      map[string]bool
	opensAt0  int // table opens right after set-up
	closedA   bool
	snapOK    bool
	snapErr   error
	snapDone  bool
	deletedA  bool
	outcomes  []string
	reopenedA bool
}

func (w *stgWorld) bad(s string) { sched.Own(func() { w.viol[s] = true }) }

func storageSetup(sc scenario, seq *int) sched.Harness {
	*seq++
	dir := filepath.Join(base, fmt.Sprintf("s%d", *seq))
	w := &stgWorld{dir: dir, viol: map[string]bool{}}
	storage.VSnapshotYield = true
	db, err := storage.VOpenDB(filepath.Join(dir, "db"), storage.VOpts{
		Now: sNow, Interval: storage.IntervalRule{Unit: storage.DAY, Num: 1}, TTL: storage.IntervalRule{Unit: storage.DAY, Num: 7},
		IdleTimeout: -1000000 * time.Hour, ShardNum: 2,
	})
	if err != nil {
		panic(err)
	}
	w.db = db
	for _, ts := range []time.Time{sTA, sTB} {
		s, err := db.Create(ts)
		if err != nil {
			panic(err)
		}
		for sh := 0; sh < 2; sh++ {
			if _, err := s.TableN(sh); err != nil {
				panic(err)
			}
		}
		s.DecRef()
		w.segs = append(w.segs, s)
	}
	for _, r := range sc.Roles {
		if r == "closedA" { // initial-state marker, not a thread
			if !w.segs[0].CloseIfIdle(1 << 62) {
				panic("cannot idle-close A in setup")
			}
			w.closedA = true
		}
	}
	w.opensAt0 = db.TableOpens
	var threads []func()
	for _, r := range sc.Roles {
		switch r {
		case "closedA":
		case "snapshot":
			threads = append(threads, func() {
				w.snapOK, w.snapErr = w.db.Snapshot(filepath.Join(w.dir, "snap"))
				w.snapDone = true
			})
		case "idle":
			threads = append(threads, func() { w.db.CloseIdle() })
		case "deleteA":
			threads = append(threads, func() { w.deletedA = true; w.db.DeleteExpired([]string{sTA.Format("20060102")}) })
		case "retentionA":
			threads = append(threads, func() { w.deletedA = true; w.db.RetentionRun(time.Date(2026, 9, 13, 0, 0, 1, 0, sLoc)) })
		case "query":
			threads = append(threads, func() {
				ss, err := w.db.Select(sAllR, true)
				if err != nil {
					return
				}
				for _, s := range ss {
					if s.Same(w.segs[0]) {
						w.reopenedA = true
					}
				}
				sched.Yield("query:use")
				for _, s := range ss {
					s.DecRef()
				}
			})
		case "writerB":
			threads = append(threads, func() {
				s, err := w.db.Create(sTB)
				if err != nil {
					return
				}
				sched.Yield("writer:use")
				s.DecRef()
			})
		default:
			panic("unknown role " + r)
		}
	}
	return sched.Harness{
		Threads: threads,
		Check: func(res *sched.Result) []string {
			if res.Abort == "" {
				w.final(sc)
			}
			lastOutcomes = w.outcomes
			keys := make([]string, 0, len(w.viol))
			for k := range w.viol {
				keys = append(keys, k)
			}
			sort.Strings(keys)
			return keys
		},
		Cleanup: func() {
			func() {
				defer func() { _ = recover() }()
				_ = w.db.Close()
			}()
			_ = os.RemoveAll(dir)
		},
	}
}

func (w *stgWorld) final(sc scenario) {
	// the recording tables flag every use after close and every table / directory lost mid-copy
	for _, e := range w.db.Errors {
		w.bad("table: " + e)
	}
	if !w.snapDone {
		return
	}
	dst := filepath.Join(w.dir, "snap")
	if w.snapErr != nil {
		if _, err := os.Stat(dst); err == nil {
			w.bad("snapshot call failed but its destination directory was not removed")
		}
		w.outcomes = append(w.outcomes, "failed")
		return
	}
	if !w.snapOK {
		w.bad("snapshot reported nothing written although segment B is never deleted")
		return
	}
	// "never reopens or disturbs closed segments": a segment that was idle-closed before the call may be opened by
	// the query role only
	if w.closedA && !w.reopenedA && !w.deletedA {
		if st := w.segs[0].State(); st.Open {
			w.bad("an idle-closed segment is open after the snapshot although nobody accessed it")
		}
		if w.db.TableOpens != w.opensAt0 {
			w.bad("shard tables of an idle-closed segment were opened by the snapshot")
		}
	}
	// every segment directory in the snapshot is complete: metadata, series index directory, both shard markers
	ents, err := os.ReadDir(dst)
	if err != nil {
		w.bad("snapshot destination unreadable")
		return
	}
	n := 0
	for _, e := range ents {
		if !e.IsDir() {
			continue
		}
		n++
		seg := filepath.Join(dst, e.Name())
		if fi, err := os.Stat(filepath.Join(seg, "metadata")); err != nil || fi.Size() == 0 {
			w.bad("a segment in the snapshot has no metadata")
		}
		if _, err := os.Stat(filepath.Join(seg, "sidx")); err != nil {
			w.bad("a segment in the snapshot has no series index directory")
		}
		for sh := 0; sh < 2; sh++ {
			p := filepath.Join(seg, fmt.Sprintf("shard-%d", sh))
			if _, err := os.Stat(p); err != nil {
				w.bad("a segment in the snapshot lacks a shard directory")
			}
		}
	}
	if n == 0 {
		w.bad("successful snapshot contains no segment")
		return
	}
	// the copy opens as a valid database and lists exactly the copied segments
	func() {
		defer func() {
			if p := recover(); p != nil {
				w.bad("opening the snapshot as a database panicked: " + firstLine(fmt.Sprint(p)))
			}
		}()
		rdb, err := storage.VOpenDB(dst, storage.VOpts{
			Now: sNow, Interval: storage.IntervalRule{Unit: storage.DAY, Num: 1}, TTL: storage.IntervalRule{Unit: storage.DAY, Num: 7},
			IdleTimeout: -1000000 * time.Hour, ShardNum: 2, DisableRetention: true,
		})
		if err != nil {
			w.bad("the snapshot does not open as a database: " + firstLine(err.Error()))
			return
		}
		got := len(rdb.List())
		_ = rdb.Close()
		if got != n {
			w.bad(fmt.Sprintf("restored database lists %d segments, the snapshot holds %d", got, n))
		}
	}()
	w.outcomes = append(w.outcomes, fmt.Sprintf("segments=%d", n))
}

func init() {
	register(family{Name: "storage", RaceOK: true, Setup: storageSetup, Scenarios: []scenario{
		{Name: "idle", Roles: []string{"snapshot", "idle", "query"}},
		{Name: "delete", Roles: []string{"snapshot", "deleteA", "idle"}},
		{Name: "closed", Roles: []string{"closedA", "snapshot", "idle", "query"}},
		{Name: "retention", Roles: []string{"snapshot", "retentionA", "writerB"}, ThoroughOnly: true},
		{Name: "closed-delete", Roles: []string{"closedA", "snapshot", "deleteA", "query"}, ThoroughOnly: true},
	}})
}
