// C19, family "sidx": sidx.TakeFileSnapshot (pin the current snapshot, hard-link its file parts) is a consistent,
// openable point-in-time copy while parts are flushed, merged and removed by a sync introduction.
//
// Same rewritten files and driver as C05's sidx family (inpkg/banyand/internal/sidx/c05sidx.go); here the wrapping
// fs.FileSystem additionally makes every CreateHardLink and every MustRMAll (the directory removal a released part
// spawns, a scheduled thread) a scheduling point, so a removal can land between two hard links.
package main

import (
	"context"
	"fmt"
	"os"
	"path/filepath"
	"reflect"
	"sort"
	"strings"

	"github.com/apache/skywalking-banyandb/api/common"
	"github.com/apache/skywalking-banyandb/banyand/internal/sidx"
	snapshotpkg "github.com/apache/skywalking-banyandb/banyand/internal/snapshot"
	"github.com/apache/skywalking-banyandb/pkg/verif/sched"
)

// Element alphabet: batch i (= the content of part i) holds keys i, i+10, i+20 over two series; the merged part 5
// holds batches 1 and 2. Data is unique per element.
type selem struct {
	data string
	sid  uint64
	key  int64
}

func sbatch(i int64) []selem {
	return []selem{{sid: 1, key: i, data: fmt.Sprintf("d%d", i)}, {sid: 2, key: i + 10, data: fmt.Sprintf("d%d", i+10)},
		{sid: 1, key: i + 20, data: fmt.Sprintf("d%d", i+20)}}
}

func sreqs(i int64) []sidx.WriteRequest {
	var out []sidx.WriteRequest
	for _, e := range sbatch(i) {
		out = append(out, sidx.WriteRequest{SeriesID: common.SeriesID(e.sid), Key: e.key, Data: []byte(e.data)})
	}
	return out
}

const smergedID = 5

func batchesOf(id uint64) []int64 {
	if id == smergedID {
		return []int64{1, 2}
	}
	return []int64{int64(id)}
}

// sexpected: the ordered result of a full query over the given parts, rows rendered as "series,key,data@part".
func sexpected(ids []uint64) []string {
	type row struct {
		s   string
		key int64
	}
	var rs []row
	for _, id := range ids {
		for _, b := range batchesOf(id) {
			for _, e := range sbatch(b) {
				rs = append(rs, row{key: e.key, s: fmt.Sprintf("%d,%d,%s@%d", e.sid, e.key, e.data, id)})
			}
		}
	}
	sort.Slice(rs, func(i, j int) bool { return rs[i].key < rs[j].key })
	out := make([]string, len(rs))
	for i := range rs {
		out[i] = rs[i].s
	}
	return out
}

func sflatten(resp []*sidx.QueryResponse) ([]string, error) {
	var rows []string
	for _, qr := range resp {
		if qr.Error != nil {
			return nil, qr.Error
		}
		if err := qr.Validate(); err != nil {
			return nil, err
		}
		for i := range qr.Keys {
			rows = append(rows, fmt.Sprintf("%d,%d,%s@%d", qr.SIDs[i], qr.Keys[i], qr.Data[i], qr.PartIDs[i]))
		}
	}
	return rows, nil
}

// spartset is the model of a snapshot: part id -> memory part?
type spartset map[uint64]bool

func (p spartset) ids(fileOnly bool) []uint64 {
	ids := []uint64{}
	for id, mem := range p {
		if !(fileOnly && mem) {
			ids = append(ids, id)
		}
	}
	sort.Slice(ids, func(i, j int) bool { return ids[i] < ids[j] })
	return ids
}

func (p spartset) sig() string {
	var sb strings.Builder
	for _, id := range p.ids(false) {
		k := "f"
		if p[id] {
			k = "m"
		}
		fmt.Fprintf(&sb, "%d%s ", id, k)
	}
	return strings.TrimSpace(sb.String())
}

func (p spartset) apply(step string) spartset {
	n := spartset{}
	for k, v := range p {
		n[k] = v
	}
	switch step {
	case "mem4":
		n[4] = true
	case "flush3":
		n[3] = false
	case "merge12":
		delete(n, 1)
		delete(n, 2)
		n[smergedID] = false
	case "sync3":
		delete(n, 3)
	default:
		panic("unknown introducer step " + step)
	}
	return n
}

func viewSig(parts []sidx.V5SPart) string {
	p := spartset{}
	closed := 0
	for _, d := range parts {
		if d.Closed {
			closed++
			continue
		}
		p[d.ID] = d.Mem
	}
	s := p.sig()
	if closed > 0 {
		s += fmt.Sprintf(" +%d closed", closed)
	}
	return s
}

func partKey(id uint64, mem bool) string {
	if mem {
		return fmt.Sprintf("%dm", id)
	}
	return fmt.Sprintf("%df", id)
}

type ssnapRec struct {
	err    error
	dst    string
	lo, hi int // introducer steps completed at call start / begun at return
	closed bool
}

type sworld struct {
	x        *sidx.V5SIdx
	viol     map[string]bool
	pinned   map[string]int
	tracked  map[string]sidx.V5STracked
	refFiles map[uint64]map[string]int64 // file part -> file name -> size, taken from the source directories
	mp4      *sidx.MemPart
	fi       *sidx.FlusherIntroduction
	mi       *sidx.MergerIntroduction
	dir      string
	steps    []string
	epochs   []spartset
	snaps    []*ssnapRec
	outcomes []string
	started  int
	done     int
	txn      bool
	closed   bool
}

func (w *sworld) bad(s string) { w.viol[s] = true }

var sFullQuery = sidx.QueryRequest{SeriesIDs: []common.SeriesID{1, 2}}

// query: pin; hold; read the pinned snapshot through the real QuerySync path; unpin (as in C05's family).
func (w *sworld) query(name string, holds int) {
	lo := w.done
	v := w.x.Pin()
	hi := w.started
	if v == nil {
		if !w.closed {
			w.bad(name + ": no snapshot although the index holds data and is not closed")
		}
		return
	}
	var parts []sidx.V5SPart
	sched.Observe(func() { parts = v.Parts() })
	sig := viewSig(parts)
	ep := -1
	for i := lo; i <= hi && i < len(w.epochs); i++ {
		if w.epochs[i].sig() == sig {
			ep = i
		}
	}
	if ep < 0 {
		w.bad(fmt.Sprintf("%s: pinned snapshot {%s} is not the part set of an epoch that was current during the pin", name, sig))
	}
	for _, d := range parts {
		if !d.Mem && d.Path != "" {
			w.pinned[d.Path]++
		}
	}
	for i := 0; i < holds; i++ {
		sched.Yield(name + ":hold")
		sched.Observe(func() {
			if v.Ref() < 1 {
				w.bad(fmt.Sprintf("%s: pinned snapshot has ref %d", name, v.Ref()))
			}
			if m := v.MissingDirs(); len(m) > 0 {
				w.bad(name + ": directory of a part in the pinned snapshot is gone while pinned")
			}
			if ep < 0 {
				return
			}
			var got []string
			var err error
			func() {
				defer func() {
					if p := recover(); p != nil {
						err = fmt.Errorf("panic: %v", firstLine(fmt.Sprint(p)))
					}
				}()
				var resp []*sidx.QueryResponse
				if resp, err = v.QuerySync(sFullQuery); err == nil {
					got, err = sflatten(resp)
				}
			}()
			if err != nil {
				w.bad(fmt.Sprintf("%s: read of the pinned snapshot failed: %v", name, err))
			} else if want := sexpected(w.epochs[ep].ids(false)); !reflect.DeepEqual(got, want) {
				w.bad(fmt.Sprintf("%s: ordered result over the pinned snapshot {%s} differs from the entries of its epoch (rows got %d want %d)",
					name, sig, len(got), len(want)))
			}
		})
	}
	for _, d := range parts {
		if !d.Mem && d.Path != "" {
			w.pinned[d.Path]--
		}
	}
	v.Unpin()
}

// snapshotter is what trace tsTable.TakeFileSnapshot does per index: create the directory, then sidx.TakeFileSnapshot.
func (w *sworld) snapshotter(name string) {
	rec := &ssnapRec{dst: filepath.Join(w.dir, name), lo: w.done}
	_ = os.MkdirAll(rec.dst, 0o755)
	rec.err = w.x.S.TakeFileSnapshot(rec.dst)
	rec.hi = w.started
	rec.closed = w.closed
	w.snaps = append(w.snaps, rec)
}

func listFiles(dir string) map[string]int64 {
	out := map[string]int64{}
	ents, _ := os.ReadDir(dir)
	for _, e := range ents {
		if info, err := e.Info(); err == nil {
			out[e.Name()] = info.Size()
		}
	}
	return out
}

// checkSnapshot: the destination holds exactly the file parts of ONE epoch that was current during the call, each
// complete, and opens (real init/loadSnapshot) as an index that returns exactly that epoch's flushed entries.
func (w *sworld) checkSnapshot(rec *ssnapRec) {
	if rec.err != nil {
		w.bad("snapshot call failed: " + firstLine(strings.ReplaceAll(rec.err.Error(), w.dir, "")))
		w.outcome("failed")
		return
	}
	ents, err := os.ReadDir(rec.dst)
	if err != nil {
		w.bad("snapshot destination unreadable: " + err.Error())
		return
	}
	got := spartset{}
	for _, e := range ents {
		var id uint64
		if _, err := fmt.Sscanf(e.Name(), "%x", &id); err != nil || !e.IsDir() || fmt.Sprintf("%016x", id) != e.Name() {
			w.bad("snapshot contains an entry that is not a part directory: " + e.Name())
			return
		}
		got[id] = false
	}
	ep := -1
	for i := rec.lo; i <= rec.hi && i < len(w.epochs); i++ {
		if reflect.DeepEqual(w.epochs[i].ids(true), got.ids(false)) {
			ep = i
		}
	}
	if ep < 0 {
		if len(got) == 0 && rec.closed {
			w.outcome("empty(closed)")
			return
		}
		w.bad(fmt.Sprintf("snapshot holds parts %v, which is not the set of file parts of an epoch that was current during the call", got.ids(false)))
		return
	}
	for _, id := range got.ids(false) {
		if have, want := listFiles(filepath.Join(rec.dst, fmt.Sprintf("%016x", id))), w.refFiles[id]; !reflect.DeepEqual(have, want) {
			w.bad(fmt.Sprintf("snapshot part is incomplete: %d of %d files with the right size", len(have), len(want)))
			return
		}
	}
	// restore
	var rows []string
	var rerr error
	func() {
		defer func() {
			if p := recover(); p != nil {
				rerr = fmt.Errorf("panic: %v", firstLine(fmt.Sprint(p)))
			}
		}()
		rt := sidx.V5SOpen(rec.dst, got.ids(false))
		defer rt.S.Close()
		var resp []*sidx.QueryResponse
		if resp, rerr = rt.S.QuerySync(context.Background(), sFullQuery); rerr == nil {
			rows, rerr = sflatten(resp)
		}
	}()
	if rerr != nil {
		w.bad("opening / querying the snapshot as an index failed: " + rerr.Error())
		return
	}
	if want := sexpected(got.ids(false)); !reflect.DeepEqual(rows, want) {
		w.bad(fmt.Sprintf("restored index returns %d rows, the flushed entries of its epoch are %d", len(rows), len(want)))
	}
	w.outcome(fmt.Sprintf("epoch+%d parts=%v", ep, got.ids(false)))
}

func (w *sworld) outcome(s string) { w.outcomes = append(w.outcomes, s) }

func idSet(ids ...uint64) map[uint64]struct{} {
	m := map[uint64]struct{}{}
	for _, id := range ids {
		m[id] = struct{}{}
	}
	return m
}

// commit publishes one prepared transition the way the trace introducer loop does (banyand/trace/introducer.go).
func (w *sworld) commit(prepare func(cur *sidx.Snapshot) *sidx.Snapshot) {
	txn := snapshotpkg.NewTransaction()
	tr := snapshotpkg.NewTransition[*sidx.Snapshot](w.x.S, prepare)
	snapshotpkg.AddTransition(txn, tr)
	txn.Commit()
	tr.Release()
	txn.Release()
}

// introducer plays the single goroutine that serialises all snapshot transitions of the index.
func (w *sworld) introducer() {
	s := w.x.S
	for _, st := range w.steps {
		w.started++
		switch st {
		case "mem4":
			if w.txn {
				w.commit(s.PrepareMemPart(4, w.mp4))
			} else {
				s.IntroduceMemPart(4, w.mp4)
			}
		case "flush3":
			if w.txn {
				w.commit(s.PrepareFlushed(w.fi))
			} else {
				s.IntroduceFlushed(w.fi)
			}
			w.fi.Release()
			w.fi = nil
		case "merge12":
			if w.txn {
				w.commit(s.PrepareMerged(w.mi))
				w.mi.Release()
			} else {
				rel := s.IntroduceMerged(w.mi)
				w.mi.Release()
				rel()
			}
			w.mi = nil
		case "sync3":
			if w.txn {
				w.commit(s.PrepareSynced(idSet(3)))
			} else {
				s.IntroduceSynced(idSet(3))()
			}
		}
		w.done++
		sched.Observe(func() { w.track() })
	}
}

// track remembers the wrappers of the current snapshot (observation only: no pin, no reference counting).
func (w *sworld) track() {
	for _, t := range w.x.TrackCurrent() {
		d := t.State()
		if d.Closed {
			continue
		}
		if k := partKey(d.ID, d.Mem); w.tracked[k] == (sidx.V5STracked{}) {
			w.tracked[k] = t
		}
	}
}

// sidxSetup builds the instance; a panic of the real code while the initial state is produced sequentially is a verdict
// of its own (a broken tree must not look like a harness error).
func sidxSetup(sc scenario, seq *int) (h sched.Harness) {
	defer func() {
		if p := recover(); p != nil {
			sidx.V5SGoInline(false)
			key := "setup: producing the initial state sequentially panicked: " + firstLine(fmt.Sprint(p))
			h = sched.Harness{Threads: []func(){func() {}}, Check: func(*sched.Result) []string { return []string{key} }, Cleanup: func() {}}
		}
	}()
	return sidxSetup1(sc, seq)
}

func sidxSetup1(sc scenario, seq *int) sched.Harness {
	*seq++
	dir := filepath.Join(base, fmt.Sprintf("s%d", *seq))
	w := &sworld{dir: dir, viol: map[string]bool{}, pinned: map[string]int{}, tracked: map[string]sidx.V5STracked{}, refFiles: map[uint64]map[string]int64{}}
	sidx.V5SGoInline(true)
	// initial state: file parts 1, 2 (flushed in-process by the real code) and memory part 3
	x := sidx.V5SOpen(filepath.Join(dir, "s"), nil)
	w.x = x
	for _, id := range []uint64{1, 2} {
		mp, err := x.S.ConvertToMemPart(sreqs(int64(id)), 1, nil, nil)
		if err != nil {
			panic(err)
		}
		x.S.IntroduceMemPart(id, mp)
		fi, err := x.S.Flush(idSet(id))
		if err != nil || fi == nil {
			panic(fmt.Sprint("flush: ", err))
		}
		x.S.IntroduceFlushed(fi)
		fi.Release()
	}
	x.FS.Hook = true
	x.FS.OnRM = func(path string) {
		if w.pinned[path] > 0 {
			w.bad("a part directory was removed while a query pinned a snapshot containing it")
		}
	}
	mp3, err := x.S.ConvertToMemPart(sreqs(3), 1, nil, nil)
	if err != nil {
		panic(err)
	}
	x.S.IntroduceMemPart(3, mp3)
	w.track()
	w.epochs = []spartset{{1: false, 2: false, 3: true}}
	var threads []func()
	for _, r := range sc.Roles {
		switch {
		case r == "query":
			threads = append(threads, func() { w.query("query", 1) })
		case r == "longquery":
			threads = append(threads, func() { w.query("longquery", 2) })
		case r == "snapshot":
			threads = append(threads, func() { w.snapshotter("snap1") })
		case r == "snapshot2":
			threads = append(threads, func() { w.snapshotter("snap2") })
		case r == "close":
			threads = append(threads, func() { w.closed = true; _ = w.x.S.Close() })
		case strings.HasPrefix(r, "intro:"):
			f := strings.Split(r, ":")
			if len(f) != 3 || (f[1] != "direct" && f[1] != "txn") {
				panic("bad introducer role " + r)
			}
			w.txn, w.steps = f[1] == "txn", strings.Split(f[2], ",")
			// the file-producing halves (real Flush / Merge) run here: deterministic, not part of the race
			for _, st := range w.steps {
				w.epochs = append(w.epochs, w.epochs[len(w.epochs)-1].apply(st))
				switch st {
				case "mem4":
					if w.mp4, err = x.S.ConvertToMemPart(sreqs(4), 1, nil, nil); err != nil {
						panic(err)
					}
				case "flush3":
					if w.fi, err = x.S.Flush(idSet(3)); err != nil || w.fi == nil {
						panic(fmt.Sprint("flush: ", err))
					}
					w.tracked["3f"] = w.fi.TrackFlushed()[0]
				case "merge12":
					if w.mi, err = x.S.Merge(make(chan struct{}), idSet(1, 2), smergedID, nil); err != nil || w.mi == nil {
						panic(fmt.Sprint("merge: ", err))
					}
					w.tracked["5f"] = w.mi.TrackNew()
				}
			}
			threads = append(threads, w.introducer)
		default:
			panic("unknown role " + r)
		}
	}
	for _, id := range []uint64{1, 2, 3, smergedID} {
		w.refFiles[id] = listFiles(x.PartDir(id))
	}
	return sched.Harness{
		Threads: threads,
		Check: func(res *sched.Result) []string {
			if res.Abort == "" {
				w.final()
			}
			lastOutcomes = w.outcomes
			keys := make([]string, 0, len(w.viol))
			for k := range w.viol {
				keys = append(keys, k)
			}
			sort.Strings(keys)
			return keys
		},
		Cleanup: func() {
			func() {
				defer func() { _ = recover() }()
				if w.fi != nil {
					w.fi.ReleaseFlushedParts()
				}
				if w.mi != nil {
					w.mi.ReleaseNewPart()
				}
				_ = w.x.S.Close()
			}()
			sidx.V5SGoInline(false)
			_ = os.RemoveAll(dir)
		},
	}
}

// final: every snapshot taken is judged; then quiescence of the live index as in C05's family.
func (w *sworld) final() {
	for _, rec := range w.snaps {
		w.checkSnapshot(rec)
	}
	cur := w.epochs[w.done]
	if w.closed {
		if _, _, ok := w.x.Current(); ok {
			w.bad("final: the index still has a current snapshot after Close")
		}
	} else {
		parts, ref, ok := w.x.Current()
		if !ok {
			w.bad("final: no current snapshot")
			return
		}
		if s := viewSig(parts); s != cur.sig() {
			w.bad(fmt.Sprintf("final: current snapshot is {%s}, want {%s}", s, cur.sig()))
			return
		}
		if ref != 1 {
			w.bad(fmt.Sprintf("final: current snapshot ref %d at quiescence, want 1 (the index): a reference leaked or was dropped twice", ref))
		}
		for _, d := range parts {
			if d.Ref != 1 {
				w.bad(fmt.Sprintf("final: part %s of the current snapshot has ref %d at quiescence, want 1 (the current snapshot)", partKey(d.ID, d.Mem), d.Ref))
			}
		}
	}
	for k, t := range w.tracked {
		d := t.State()
		mem := strings.HasSuffix(k, "m")
		var id uint64
		_, _ = fmt.Sscanf(k, "%d", &id)
		isMem, inCur := cur[id]
		inCur = inCur && isMem == mem
		if !inCur || w.closed {
			if d.Ref != 0 {
				w.bad(fmt.Sprintf("final: released part %s has ref %d at quiescence, want 0: a part reference leaked or was dropped twice", k, d.Ref))
			} else if !d.Closed {
				w.bad(fmt.Sprintf("final: released part %s was never closed", k))
			}
		}
		if mem {
			continue
		}
		dir := w.x.PartDir(id)
		_, statErr := os.Stat(dir)
		if inCur {
			if statErr != nil {
				w.bad("final: a file part of the last epoch has no directory")
			}
			if w.x.FS.RM[dir] > 0 {
				w.bad("final: directory of a live part was removed")
			}
			continue
		}
		if statErr == nil {
			w.bad("final: directory of a replaced part still exists after its last user finished")
		}
		if n := w.x.FS.RM[dir]; n != 1 {
			w.bad(fmt.Sprintf("final: replaced part directory removed %d times, want exactly once", n))
		}
	}
}

func init() {
	register(family{Name: "sidx", Setup: sidxSetup, Scenarios: []scenario{
		{Name: "SA", Roles: []string{"snapshot", "intro:direct:merge12"}},
		{Name: "SD", Roles: []string{"snapshot", "intro:direct:flush3,sync3"}},
		{Name: "SB", Roles: []string{"intro:txn:flush3,sync3", "snapshot", "snapshot2"}},
		{Name: "SC", Roles: []string{"snapshot", "longquery", "close"}},
	}})
}
