#!/bin/sh
# Builds the framework from files on disk only (offline): pbgen, rewrite, and a warm build of every check binary.
set -e
cd "$(dirname "$0")"
export GOFLAGS=-mod=mod GOPROXY=off GOTOOLCHAIN=auto
mkdir -p build/bin evidence replays
rm -f build/bin/pbgen build/bin/rewrite
for d in checks/*/; do
  id=$(basename "$d")
  echo "setup: building $id"
  ./vcheck "$id" --build-only
done
echo "setup: done"
