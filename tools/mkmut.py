#!/usr/bin/env python3
"""usage: mkmut.py <out.diff> <repo-relative file> <old> <new> [<file> <old> <new> ...]
Creates a unified diff (against /repo HEAD) that replaces the first occurrence of <old> by <new>."""
import subprocess, sys, tempfile, os, shutil
out = os.path.abspath(sys.argv[1]); triples = sys.argv[2:]
wt = tempfile.mkdtemp(prefix="mkmut-", dir="/tmp"); os.rmdir(wt)
subprocess.run(["git", "-C", "/repo", "worktree", "add", "--detach", wt, "HEAD"], check=True, capture_output=True)
try:
    for i in range(0, len(triples), 3):
        f, old, new = triples[i:i+3]
        p = os.path.join(wt, f); s = open(p).read()
        old = old.encode().decode("unicode_escape"); new = new.encode().decode("unicode_escape")
        if old not in s:
            sys.exit(f"mkmut: pattern not found in {f}: {old!r}")
        open(p, "w").write(s.replace(old, new, 1))
    d = subprocess.run(["git", "-C", wt, "diff"], check=True, capture_output=True, text=True).stdout
    open(out, "w").write(d)
    print(f"mkmut: wrote {out} ({len(d.splitlines())} lines)")
finally:
    subprocess.run(["git", "-C", "/repo", "worktree", "remove", "--force", wt], check=True, capture_output=True)
