#!/usr/bin/env python3
"""Regenerates MANIFEST.json from checks/*/check.json and tools/manifest_base.json."""
import json, os, glob
V = os.path.dirname(os.path.dirname(os.path.abspath(__file__)))
base = json.load(open(os.path.join(V, "tools", "manifest_base.json")))
props = [json.loads(l)["id"] for l in open(os.path.join(V, "properties.jsonl"))]
checks = []
claimed = set()
for cj in sorted(glob.glob(os.path.join(V, "checks", "*", "check.json"))):
    c = json.load(open(cj))
    if c.get("disabled"):
        continue
    pid = c["property_id"]
    cid = os.path.basename(os.path.dirname(cj))
    claimed.add(pid)
    e = {
        "property_id": pid,
        "quick_cmd": f"./vcheck {cid} --tier quick",
        "thorough_cmd": f"./vcheck {cid} --tier thorough",
        "evidence_file": f"/verif/evidence/{pid}.json",
        "replay_cmd_template": f"./vcheck {cid} --replay {{path}}",
        "engine": c.get("engine", ""),
        "level_claimed": {"category": c["category"], "text": c["text"], "design_ref": c.get("design_ref", "")},
        "level_note": c["note"],
        "technique": c["technique"],
    }
    checks.append(e)
na = []
reasons = base.pop("not_applicable_reasons", {})
for p in props:
    if p not in claimed:
        na.append({"property_id": p, "reason": reasons.get(p, "no check is registered for this property yet; it is not claimed")})
base["checks"] = checks
base["not_applicable"] = na
json.dump(base, open(os.path.join(V, "MANIFEST.json"), "w"), indent=1)
print(f"MANIFEST.json: {len(checks)} checks, {len(na)} not claimed")
