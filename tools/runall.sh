#!/bin/sh
# usage: tools/runall.sh [tier] [cid...]  — runs the checks one after another, prints one line per check
cd "$(dirname "$0")/.."
mkdir -p build; tier=${1:-quick}; shift 2>/dev/null
ids=${@:-$(ls checks | grep -v zbench)}
for c in $ids; do
  [ -f checks/$c/check.json ] || continue
  t0=$(date +%s)
  ./vcheck $c --tier $tier > build/run-$c.log 2>&1
  rc=$?
  t1=$(date +%s)
  echo "$c rc=$rc wall=$((t1-t0))s $(grep -E 'violations=' build/run-$c.log | tail -1) known=$(grep -c '^KNOWN-FINDING' build/run-$c.log)"
done
