#!/bin/sh
# usage: tools/mutall.sh <cid> [vcheck args]  — runs every mutants/<cid>/*.diff through tools/mutrun.sh
cid=$1; shift
cd "$(dirname "$0")/.."
for m in mutants/$cid/*.diff; do
  tools/mutrun.sh "$m" "$cid" --tier quick "$@" | tail -3
done
