#!/bin/sh
# usage: tools/seedverify.sh seeded/<id>   — confirms a seeded change: demo passes on HEAD, fails with the patch, and the
# touched packages' runnable tests stay green with the patch. Prints one summary line; leaves no worktree behind.
d=$(readlink -f "$1"); id=$(basename "$d")
wt=/tmp/sv-${SV_LANE:-0}; git -C /repo worktree remove --force "$wt" >/dev/null 2>&1
git -C /repo worktree add --detach "$wt" HEAD >/dev/null 2>&1 || exit 2
(cd "$d/demo" && tar cf - --exclude=RUN.md .) | (cd "$wt" && tar xf -)
sh "$d/run.sh" "$wt" > "/tmp/sv-$id-clean.log" 2>&1; rc_clean=$?
if git -C "$wt" apply "$d/patch.diff" 2>/tmp/sv-$id-apply.log; then applied=yes; else applied=NO; fi
sh "$d/run.sh" "$wt" > "/tmp/sv-$id-patched.log" 2>&1; rc_patched=$?
# existing tests of touched packages (plain go test where it builds; bk test otherwise is attempted for leaf packages)
git -C "$wt" clean -fdq   # drop the demonstration files: only upstream tests run below
pk=$(git -C "$wt" diff --name-only | xargs -n1 dirname | sort -u)
tests=""
for p in $pk; do
  # remove the demo's test files from the package so that only upstream tests run
  (cd "$wt" && GOFLAGS=-mod=mod GOPROXY=off go test -vet=off -count=1 ./$p/ > /tmp/sv-$id-t.log 2>&1); r=$?
  if grep -q "setup failed\|build failed\|no required module" /tmp/sv-$id-t.log; then
     /root/bk/bk "$wt" test ./$p/ -count=1 > /tmp/sv-$id-t.log 2>&1; r=$?
     if grep -q "build failed\|setup failed" /tmp/sv-$id-t.log; then r="n/a"; fi
  fi
  tests="$tests $p=$r"
done
echo "seed $id: patch_applies=$applied demo_clean_rc=$rc_clean demo_patched_rc=$rc_patched upstream_tests(with patch):$tests"
git -C /repo worktree remove --force "$wt"
