#!/bin/sh
# usage: tools/seedall.sh <logfile> "<seed> <cid> [<cid>...]" ...   — runs tools/seedrun.sh for every argument in turn
cd "$(dirname "$0")/.."
log=$1; shift
: > "$log"
for x in "$@"; do
  # shellcheck disable=SC2086
  tools/seedrun.sh $x >> "$log" 2>&1
done
