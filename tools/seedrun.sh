#!/bin/sh
# usage: tools/seedrun.sh <seed-id> <cid> [<cid>...] : confirm the seeded change, then run the named checks against it
cd "$(dirname "$0")/.."
id=$1; shift
SV_LANE=$id tools/seedverify.sh seeded/$id
for c in "$@"; do MUT_LANE=seed-$c tools/mutrun.sh seeded/$id/patch.diff $c --tier quick | tail -4; done
