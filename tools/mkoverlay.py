#!/usr/bin/env python3
"""Writes build/overlay.json mapping /verif sources into virtual paths of /repo's module.

  build/pb/**                      -> /repo/api/proto/**            (pbgen output)
  tools/pbgen/pgvlite_src/*.txt    -> /repo/api/proto/banyandb/pgvlite/pgvlite.go
  (placeholder)                    -> /repo/ui/dist/index.html
  mc/<x>/*.go                      -> /repo/pkg/verif/<x>/*.go
  inpkg/<pkgpath>/*.go             -> /repo/<pkgpath>/zz_verif_<name>.go
  checks/<id>/*.go                 -> /repo/banyand/verif/<id>/*.go
  build/rw/<cfg>/<path>.go         -> /repo/<path>.go               (rewritten copies, only with --rw <cfg>)
"""
import argparse, json, os, sys

V = os.path.dirname(os.path.dirname(os.path.abspath(__file__)))
REPO = os.environ.get("VERIF_REPO", "/repo")


def main():
    ap = argparse.ArgumentParser()
    ap.add_argument("--out", default=os.path.join(V, "build", "overlay.json"))
    ap.add_argument("--rw", default="", help="name of rewritten-file set under build/rw/")
    a = ap.parse_args()
    rep = {}
    pb = os.path.join(V, "build", "pb")
    for d, _, fs in os.walk(pb):
        for f in fs:
            src = os.path.join(d, f)
            rel = os.path.relpath(src, pb)
            rep[os.path.join(REPO, "api", "proto", rel)] = src
    rep[os.path.join(REPO, "api/proto/banyandb/pgvlite/pgvlite.go")] = os.path.join(V, "tools/pbgen/pgvlite_src/pgvlite.go.txt")
    ph = os.path.join(V, "build", "index.html")
    if not os.path.exists(ph):
        open(ph, "w").write("<html></html>\n")
    if not os.path.exists(os.path.join(REPO, "ui/dist/index.html")):
        rep[os.path.join(REPO, "ui/dist/index.html")] = ph
    for top, dst in (("mc", "pkg/verif"), ("checks", "banyand/verif")):
        base = os.path.join(V, top)
        for d, _, fs in os.walk(base):
            for f in fs:
                if f.endswith(".go") or f.endswith(".s"):
                    src = os.path.join(d, f)
                    rep[os.path.join(REPO, dst, os.path.relpath(src, base))] = src
    base = os.path.join(V, "inpkg")
    for d, _, fs in os.walk(base):
        for f in fs:
            if f.endswith(".go"):
                src = os.path.join(d, f)
                rel = os.path.relpath(d, base)
                rep[os.path.join(REPO, rel, "zz_verif_" + f)] = src
    if a.rw:
        base = os.path.join(V, "build", "rw", a.rw)
        for d, _, fs in os.walk(base):
            for f in fs:
                src = os.path.join(d, f)
                rep[os.path.join(REPO, os.path.relpath(src, base))] = src
    os.makedirs(os.path.dirname(a.out), exist_ok=True)
    json.dump({"Replace": rep}, open(a.out, "w"), indent=0)
    print(f"mkoverlay: {len(rep)} entries -> {a.out}")


if __name__ == "__main__":
    main()
