#!/bin/sh
# usage: tools/mutrun.sh <patch.diff> <cid> [vcheck args...]
# Applies a patch to a scratch worktree of /repo (HEAD), runs the check against it, prints the verdict, removes the worktree.
set -u
patch=$(readlink -f "$1"); cid=$2; shift 2
wt=/tmp/mut-${MUT_LANE:-$cid}; git -C /repo worktree remove --force "$wt" >/dev/null 2>&1; rm -rf "$wt"
git -C /repo worktree add --detach "$wt" HEAD >/dev/null 2>&1 || { echo "cannot create worktree"; exit 2; }
if ! git -C "$wt" apply "$patch"; then echo "PATCH DOES NOT APPLY"; git -C /repo worktree remove --force "$wt"; exit 2; fi
cd "$(dirname "$0")/.."
VERIF_REPO="$wt" VERIF_NOEVIDENCE=1 ./vcheck "$cid" "$@" > "/tmp/mutrun-$cid-$$.log" 2>&1
rc=$?
grep -E "^VIOLATION|violations=|HARNESS-ERROR|KNOWN-FINDING" "/tmp/mutrun-$cid-$$.log" | cut -c1-220 | head -8
if [ $rc -ne 0 ] && [ $rc -ne 1 ]; then echo "--- harness error, last lines:"; grep -v '^{"level' "/tmp/mutrun-$cid-$$.log" | grep -v "timing setup" | tail -15; fi
echo "mutrun: patch=$(basename "$patch") check=$cid exit=$rc"
rm -f "/tmp/mutrun-$cid-$$.log"
git -C /repo worktree remove --force "$wt"
exit $rc
