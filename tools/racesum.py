#!/usr/bin/env python3
"""Debugging aid: summarises a Go race detector log with the classification of mc/racep (innermost non-stdlib frame
of both accesses; H = harness)."""
import sys, re, collections
MOD = "github.com/apache/skywalking-banyandb/"
def site(sec):
    ls = sec.split("\n")
    fr = []
    for i, l in enumerate(ls):
        if l.startswith("  ") and not l.startswith("   "):
            f = ls[i + 1].strip() if i + 1 < len(ls) and ls[i + 1].startswith("      ") else ""
            fr.append((l.strip(), f))
    for fn, f in fr:
        if fn.startswith("main."):
            return "H:" + fn
        first = fn.split("/")[0] if "/" in fn else fn.split(".")[0]
        if "." not in first:
            continue
        if "/verif/" in fn or "zz_verif_" in f or "/verif/" in f:
            return "H:" + fn.replace(MOD, "")
        return fn.replace(MOD, "") if fn.startswith(MOD) else ""
    return ""
c = collections.Counter()
for blk in open(sys.argv[1]).read().split("=================="):
    if "DATA RACE" not in blk:
        continue
    secs = [s for s in blk.strip().split("\n\n") if " by goroutine " in s.split("\n")[0 if not s.startswith("WARNING") else 1] or " by main goroutine" in s]
    if len(secs) < 2:
        c["(unparsed)"] += 1
        continue
    a, b = sorted([site(secs[0]), site(secs[1])])
    c[a + "  <->  " + b] += 1
for k, v in sorted(c.items()):
    print(v, k)
