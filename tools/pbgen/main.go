// pbgen: offline replacement for `buf generate` (protoc + protoc-gen-go + protoc-gen-go-grpc) for the repository's
// proto3 files. It parses api/proto/**/*.proto, links them against descriptors registered by the imported Go packages,
// and runs the real protoc-gen-go generator (internal_gengo) in-process.
package main

import (
	"flag"
	"fmt"
	"os"
	"path/filepath"
	"sort"
	"strings"

	"google.golang.org/protobuf/cmd/protoc-gen-go/internal_gengo"
	"google.golang.org/protobuf/compiler/protogen"
	"google.golang.org/protobuf/proto"
	"google.golang.org/protobuf/types/descriptorpb"
	"google.golang.org/protobuf/types/pluginpb"
)

func main() {
	root := flag.String("root", "/repo/api/proto", "proto root (import paths are relative to it)")
	out := flag.String("out", "", "output directory (files written source-relative)")
	flag.Parse()
	if *out == "" {
		fatal(fmt.Errorf("-out required"))
	}
	var files []string
	err := filepath.Walk(*root, func(p string, info os.FileInfo, err error) error {
		if err != nil {
			return err
		}
		if !info.IsDir() && strings.HasSuffix(p, ".proto") {
			rel, _ := filepath.Rel(*root, p)
			files = append(files, filepath.ToSlash(rel))
		}
		return nil
	})
	if err != nil {
		fatal(err)
	}
	sort.Strings(files)
	parsed := map[string]*parser{}
	local := map[string]bool{}
	for _, f := range files {
		src, err := os.ReadFile(filepath.Join(*root, f))
		if err != nil {
			fatal(err)
		}
		ps, err := parseFile(f, string(src))
		if err != nil {
			fatal(err)
		}
		parsed[f] = ps
		local[f] = true
	}
	// external deps
	var extPaths []string
	for _, f := range files {
		for _, d := range parsed[f].fd.Dependency {
			if !local[d] {
				extPaths = append(extPaths, d)
			}
		}
	}
	deps, err := loadDeps(extPaths, local)
	if err != nil {
		fatal(err)
	}
	syms := symbols{}
	for _, d := range deps {
		collectSymbols(d, syms)
	}
	for _, f := range files {
		collectSymbols(parsed[f].fd, syms)
	}
	for _, f := range files {
		ps := parsed[f]
		for _, pt := range ps.types {
			fq, isEnum, ok := resolve(syms, pt.scope, pt.name)
			if !ok {
				fatal(fmt.Errorf("%s:%d: cannot resolve type %q in scope %q", pt.file, pt.line, pt.name, pt.scope))
			}
			pt.set(fq, isEnum)
		}
		for _, po := range ps.opts {
			if err := applyOption(po); err != nil {
				fatal(fmt.Errorf("%s:%d: option: %w", po.file, po.line, err))
			}
		}
	}
	// topological order of local files
	var ordered []*descriptorpb.FileDescriptorProto
	ordered = append(ordered, deps...)
	done := map[string]bool{}
	var visit func(f string)
	visit = func(f string) {
		if done[f] || !local[f] {
			return
		}
		done[f] = true
		for _, d := range parsed[f].fd.Dependency {
			visit(d)
		}
		ordered = append(ordered, parsed[f].fd)
	}
	for _, f := range files {
		visit(f)
	}
	req := &pluginpb.CodeGeneratorRequest{
		FileToGenerate: files,
		Parameter:      proto.String("paths=source_relative"),
		ProtoFile:      ordered,
	}
	gen, err := protogen.Options{}.New(req)
	if err != nil {
		fatal(err)
	}
	for _, f := range gen.Files {
		if !f.Generate {
			continue
		}
		internal_gengo.GenerateFile(gen, f)
		genGRPC(gen, f)
		genValidate(gen, f)
		genGateway(gen, f)
	}
	resp := gen.Response()
	if resp.Error != nil {
		fatal(fmt.Errorf("%s", resp.GetError()))
	}
	for _, rf := range resp.File {
		p := filepath.Join(*out, rf.GetName())
		if err := os.MkdirAll(filepath.Dir(p), 0o755); err != nil {
			fatal(err)
		}
		if err := os.WriteFile(p, []byte(rf.GetContent()), 0o644); err != nil {
			fatal(err)
		}
	}
	fmt.Printf("pbgen: %d proto files -> %d go files in %s\n", len(files), len(resp.File), *out)
}

func fatal(err error) {
	fmt.Fprintln(os.Stderr, "pbgen:", err)
	os.Exit(1)
}
