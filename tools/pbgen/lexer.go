package main

import (
	"fmt"
	"strings"
)

type tokKind int

const (
	tEOF tokKind = iota
	tIdent
	tInt
	tFloat
	tString
	tSym
)

type token struct {
	kind tokKind
	text string // ident text, number text, decoded string, or symbol
	pos  int    // byte offset in source
	end  int
	line int
}

type lexer struct {
	src  string
	file string
	toks []token
}

func lex(file, src string) ([]token, error) {
	var toks []token
	i, line := 0, 1
	n := len(src)
	for i < n {
		c := src[i]
		switch {
		case c == '\n':
			line++
			i++
		case c == ' ' || c == '\t' || c == '\r':
			i++
		case c == '/' && i+1 < n && src[i+1] == '/':
			for i < n && src[i] != '\n' {
				i++
			}
		case c == '/' && i+1 < n && src[i+1] == '*':
			j := strings.Index(src[i+2:], "*/")
			if j < 0 {
				return nil, fmt.Errorf("%s:%d: unterminated comment", file, line)
			}
			line += strings.Count(src[i:i+2+j+2], "\n")
			i += 2 + j + 2
		case c == '"' || c == '\'':
			q := c
			j := i + 1
			var sb strings.Builder
			for {
				if j >= n {
					return nil, fmt.Errorf("%s:%d: unterminated string", file, line)
				}
				d := src[j]
				if d == q {
					j++
					break
				}
				if d == '\\' {
					j++
					e := src[j]
					switch e {
					case 'n':
						sb.WriteByte('\n')
					case 't':
						sb.WriteByte('\t')
					case 'r':
						sb.WriteByte('\r')
					case '\\', '"', '\'':
						sb.WriteByte(e)
					case '0':
						sb.WriteByte(0)
					default:
						return nil, fmt.Errorf("%s:%d: unsupported escape \\%c", file, line, e)
					}
					j++
					continue
				}
				sb.WriteByte(d)
				j++
			}
			toks = append(toks, token{tString, sb.String(), i, j, line})
			i = j
		case isLetter(c):
			j := i
			for j < n && (isLetter(src[j]) || isDigit(src[j])) {
				j++
			}
			toks = append(toks, token{tIdent, src[i:j], i, j, line})
			i = j
		case isDigit(c):
			j := i
			isF := false
			for j < n && (isDigit(src[j]) || isLetter(src[j]) || src[j] == '.' ||
				((src[j] == '+' || src[j] == '-') && (src[j-1] == 'e' || src[j-1] == 'E'))) {
				if src[j] == '.' || src[j] == 'e' || src[j] == 'E' {
					if !(strings.HasPrefix(src[i:], "0x") || strings.HasPrefix(src[i:], "0X")) {
						isF = true
					}
				}
				j++
			}
			k := tInt
			if isF {
				k = tFloat
			}
			toks = append(toks, token{k, src[i:j], i, j, line})
			i = j
		default:
			toks = append(toks, token{tSym, string(c), i, i + 1, line})
			i++
		}
	}
	toks = append(toks, token{tEOF, "", n, n, line})
	return toks, nil
}

func isLetter(c byte) bool {
	return c == '_' || (c >= 'a' && c <= 'z') || (c >= 'A' && c <= 'Z')
}
func isDigit(c byte) bool { return c >= '0' && c <= '9' }
