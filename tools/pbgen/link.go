package main

import (
	"fmt"
	"math"
	"strconv"
	"strings"

	"google.golang.org/protobuf/encoding/prototext"
	"google.golang.org/protobuf/proto"
	"google.golang.org/protobuf/reflect/protodesc"
	"google.golang.org/protobuf/reflect/protoreflect"
	"google.golang.org/protobuf/reflect/protoregistry"
	"google.golang.org/protobuf/types/descriptorpb"

	// register descriptors of the non-local imports used by the repository's protos
	_ "github.com/envoyproxy/protoc-gen-validate/validate"
	_ "github.com/grpc-ecosystem/grpc-gateway/v2/protoc-gen-openapiv2/options"
	_ "google.golang.org/genproto/googleapis/api/annotations"
	_ "google.golang.org/protobuf/types/known/anypb"
	_ "google.golang.org/protobuf/types/known/durationpb"
	_ "google.golang.org/protobuf/types/known/structpb"
	_ "google.golang.org/protobuf/types/known/timestamppb"
)

type symbols map[string]bool // full name -> isEnum

func collectSymbols(fd *descriptorpb.FileDescriptorProto, syms symbols) {
	var walk func(prefix string, ms []*descriptorpb.DescriptorProto, es []*descriptorpb.EnumDescriptorProto)
	walk = func(prefix string, ms []*descriptorpb.DescriptorProto, es []*descriptorpb.EnumDescriptorProto) {
		for _, e := range es {
			syms[join(prefix, e.GetName())] = true
		}
		for _, m := range ms {
			n := join(prefix, m.GetName())
			syms[n] = false
			walk(n, m.NestedType, m.EnumType)
		}
	}
	walk(fd.GetPackage(), fd.MessageType, fd.EnumType)
}

func join(a, b string) string {
	if a == "" {
		return b
	}
	return a + "." + b
}

func resolve(syms symbols, scope, name string) (string, bool, bool) {
	if strings.HasPrefix(name, ".") {
		isEnum, ok := syms[name[1:]]
		return name[1:], isEnum, ok
	}
	for {
		cand := join(scope, name)
		if isEnum, ok := syms[cand]; ok {
			return cand, isEnum, true
		}
		if scope == "" {
			return "", false, false
		}
		if i := strings.LastIndexByte(scope, '.'); i >= 0 {
			scope = scope[:i]
		} else {
			scope = ""
		}
	}
}

// loadDeps returns registry-provided files (transitively) needed by the given import paths, in topological order.
func loadDeps(paths []string, local map[string]bool) ([]*descriptorpb.FileDescriptorProto, error) {
	var out []*descriptorpb.FileDescriptorProto
	seen := map[string]bool{}
	var visit func(p string) error
	visit = func(p string) error {
		if seen[p] || local[p] {
			return nil
		}
		seen[p] = true
		f, err := protoregistry.GlobalFiles.FindFileByPath(p)
		if err != nil {
			return fmt.Errorf("import %q: not local and not registered: %w", p, err)
		}
		imps := f.Imports()
		for i := 0; i < imps.Len(); i++ {
			if err := visit(imps.Get(i).Path()); err != nil {
				return err
			}
		}
		out = append(out, protodesc.ToFileDescriptorProto(f))
		return nil
	}
	for _, p := range paths {
		if err := visit(p); err != nil {
			return nil, err
		}
	}
	return out, nil
}

func findExt(scope, name string) (protoreflect.ExtensionType, error) {
	if strings.HasPrefix(name, ".") {
		return protoregistry.GlobalTypes.FindExtensionByName(protoreflect.FullName(name[1:]))
	}
	for {
		xt, err := protoregistry.GlobalTypes.FindExtensionByName(protoreflect.FullName(join(scope, name)))
		if err == nil {
			return xt, nil
		}
		if scope == "" {
			return nil, fmt.Errorf("extension %q not found", name)
		}
		if i := strings.LastIndexByte(scope, '.'); i >= 0 {
			scope = scope[:i]
		} else {
			scope = ""
		}
	}
}

func applyOption(po *pendingOpt) error {
	msg := po.target.ProtoReflect()
	var fd protoreflect.FieldDescriptor
	for i, part := range po.name {
		if part.isExt {
			xt, err := findExt(po.scope, part.name)
			if err != nil {
				return err
			}
			fd = xt.TypeDescriptor()
			if fd.ContainingMessage().FullName() != msg.Descriptor().FullName() {
				return fmt.Errorf("extension %s does not extend %s", fd.FullName(), msg.Descriptor().FullName())
			}
		} else {
			fd = msg.Descriptor().Fields().ByName(protoreflect.Name(part.name))
			if fd == nil {
				return fmt.Errorf("unknown option field %q in %s", part.name, msg.Descriptor().FullName())
			}
		}
		if i < len(po.name)-1 {
			if fd.Kind() != protoreflect.MessageKind || fd.IsList() || fd.IsMap() {
				return fmt.Errorf("option path component %q is not a singular message", part.name)
			}
			msg = msg.Mutable(fd).Message()
		}
	}
	// set the value
	if fd.IsMap() {
		return fmt.Errorf("map-typed option unsupported")
	}
	var v protoreflect.Value
	if fd.Kind() == protoreflect.MessageKind || fd.Kind() == protoreflect.GroupKind {
		if !po.isAgg {
			return fmt.Errorf("message-typed option %s needs an aggregate value", fd.FullName())
		}
		var sub protoreflect.Message
		if fd.IsList() {
			sub = msg.Mutable(fd).List().AppendMutable().Message()
		} else {
			sub = msg.Mutable(fd).Message()
		}
		tmp := sub.New().Interface()
		if err := (prototext.UnmarshalOptions{}).Unmarshal([]byte(po.agg), tmp); err != nil {
			return fmt.Errorf("aggregate for %s: %w", fd.FullName(), err)
		}
		proto.Merge(sub.Interface(), tmp)
		return nil
	}
	if po.isAgg {
		return fmt.Errorf("aggregate value for scalar option %s", fd.FullName())
	}
	t := po.tok
	txt := t.text
	if po.neg {
		txt = "-" + txt
	}
	switch fd.Kind() {
	case protoreflect.BoolKind:
		if t.kind != tIdent || (txt != "true" && txt != "false") {
			return fmt.Errorf("bad bool %q", txt)
		}
		v = protoreflect.ValueOfBool(txt == "true")
	case protoreflect.StringKind:
		if t.kind != tString {
			return fmt.Errorf("expected string for %s", fd.FullName())
		}
		v = protoreflect.ValueOfString(t.text)
	case protoreflect.BytesKind:
		v = protoreflect.ValueOfBytes([]byte(t.text))
	case protoreflect.EnumKind:
		ev := fd.Enum().Values().ByName(protoreflect.Name(t.text))
		if ev == nil {
			return fmt.Errorf("unknown enum value %q for %s", t.text, fd.FullName())
		}
		v = protoreflect.ValueOfEnum(ev.Number())
	case protoreflect.Int32Kind, protoreflect.Sint32Kind, protoreflect.Sfixed32Kind:
		n, err := strconv.ParseInt(txt, 0, 32)
		if err != nil {
			return err
		}
		v = protoreflect.ValueOfInt32(int32(n))
	case protoreflect.Int64Kind, protoreflect.Sint64Kind, protoreflect.Sfixed64Kind:
		n, err := strconv.ParseInt(txt, 0, 64)
		if err != nil {
			return err
		}
		v = protoreflect.ValueOfInt64(n)
	case protoreflect.Uint32Kind, protoreflect.Fixed32Kind:
		n, err := strconv.ParseUint(txt, 0, 32)
		if err != nil {
			return err
		}
		v = protoreflect.ValueOfUint32(uint32(n))
	case protoreflect.Uint64Kind, protoreflect.Fixed64Kind:
		n, err := strconv.ParseUint(txt, 0, 64)
		if err != nil {
			return err
		}
		v = protoreflect.ValueOfUint64(n)
	case protoreflect.FloatKind, protoreflect.DoubleKind:
		var f float64
		switch txt {
		case "inf":
			f = math.Inf(1)
		case "-inf":
			f = math.Inf(-1)
		case "nan":
			f = math.NaN()
		default:
			var err error
			f, err = strconv.ParseFloat(txt, 64)
			if err != nil {
				return err
			}
		}
		if fd.Kind() == protoreflect.FloatKind {
			v = protoreflect.ValueOfFloat32(float32(f))
		} else {
			v = protoreflect.ValueOfFloat64(f)
		}
	default:
		return fmt.Errorf("unsupported option kind %v", fd.Kind())
	}
	if fd.IsList() {
		msg.Mutable(fd).List().Append(v)
	} else {
		msg.Set(fd, v)
	}
	return nil
}
