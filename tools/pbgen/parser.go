package main

import (
	"fmt"
	"strconv"
	"strings"

	"google.golang.org/protobuf/proto"
	"google.golang.org/protobuf/types/descriptorpb"
)

// optName is one component of an option name: either a plain identifier path or a parenthesised extension name.
type optName struct {
	name  string
	isExt bool
}

type pendingOpt struct {
	file   string
	line   int
	scope  string // fully-qualified scope for resolving relative extension names
	target proto.Message
	name   []optName
	// value
	isAgg bool
	agg   string // raw text inside { ... }
	tok   token  // scalar token (ident, int, float, string); neg for leading '-'
	neg   bool
}

type pendingType struct {
	scope string
	set   func(fq string, isEnum bool)
	name  string
	file  string
	line  int
}

type parser struct {
	file  string
	src   string
	toks  []token
	p     int
	fd    *descriptorpb.FileDescriptorProto
	opts  []*pendingOpt
	types []*pendingType
}

func (ps *parser) errf(format string, a ...any) error {
	return fmt.Errorf("%s:%d: %s", ps.file, ps.toks[ps.p].line, fmt.Sprintf(format, a...))
}

func (ps *parser) peek() token { return ps.toks[ps.p] }
func (ps *parser) next() token { t := ps.toks[ps.p]; ps.p++; return t }
func (ps *parser) isSym(s string) bool {
	t := ps.peek()
	return t.kind == tSym && t.text == s
}
func (ps *parser) isIdent(s string) bool {
	t := ps.peek()
	return t.kind == tIdent && t.text == s
}
func (ps *parser) accept(s string) bool {
	if ps.isSym(s) {
		ps.p++
		return true
	}
	return false
}
func (ps *parser) expect(s string) {
	if !ps.accept(s) {
		panic(ps.errf("expected %q, got %q", s, ps.peek().text))
	}
}
func (ps *parser) ident() string {
	t := ps.next()
	if t.kind != tIdent {
		ps.p--
		panic(ps.errf("expected identifier, got %q", t.text))
	}
	return t.text
}

// fullIdent parses a possibly dotted identifier with optional leading dot.
func (ps *parser) fullIdent() string {
	var sb strings.Builder
	if ps.accept(".") {
		sb.WriteByte('.')
	}
	sb.WriteString(ps.ident())
	for ps.isSym(".") {
		ps.p++
		sb.WriteByte('.')
		sb.WriteString(ps.ident())
	}
	return sb.String()
}

func (ps *parser) str() string {
	t := ps.next()
	if t.kind != tString {
		ps.p--
		panic(ps.errf("expected string, got %q", t.text))
	}
	s := t.text
	for ps.peek().kind == tString { // adjacent string concatenation
		s += ps.next().text
	}
	return s
}

func (ps *parser) intLit() int64 {
	neg := ps.accept("-")
	t := ps.next()
	if t.kind != tInt {
		ps.p--
		panic(ps.errf("expected integer, got %q", t.text))
	}
	v, err := strconv.ParseInt(t.text, 0, 64)
	if err != nil {
		panic(ps.errf("bad int %q", t.text))
	}
	if neg {
		v = -v
	}
	return v
}

func parseFile(name, src string) (ps *parser, err error) {
	toks, err := lex(name, src)
	if err != nil {
		return nil, err
	}
	ps = &parser{file: name, src: src, toks: toks, fd: &descriptorpb.FileDescriptorProto{Name: proto.String(name)}}
	defer func() {
		if r := recover(); r != nil {
			if e, ok := r.(error); ok {
				err = e
				return
			}
			panic(r)
		}
	}()
	ps.parseTop()
	return ps, nil
}

func (ps *parser) parseTop() {
	fd := ps.fd
	for ps.peek().kind != tEOF {
		if ps.accept(";") {
			continue
		}
		kw := ps.ident()
		switch kw {
		case "syntax":
			ps.expect("=")
			s := ps.str()
			if s != "proto3" {
				panic(ps.errf("only proto3 supported, got %q", s))
			}
			fd.Syntax = proto.String(s)
			ps.expect(";")
		case "package":
			fd.Package = proto.String(ps.fullIdent())
			ps.expect(";")
		case "import":
			if ps.isIdent("public") || ps.isIdent("weak") {
				panic(ps.errf("import public/weak unsupported"))
			}
			fd.Dependency = append(fd.Dependency, ps.str())
			ps.expect(";")
		case "option":
			if fd.Options == nil {
				fd.Options = &descriptorpb.FileOptions{}
			}
			ps.parseOption(fd.Options, fd.GetPackage())
			ps.expect(";")
		case "message":
			fd.MessageType = append(fd.MessageType, ps.parseMessage(fd.GetPackage()))
		case "enum":
			fd.EnumType = append(fd.EnumType, ps.parseEnum(fd.GetPackage()))
		case "service":
			fd.Service = append(fd.Service, ps.parseService(fd.GetPackage()))
		default:
			panic(ps.errf("unexpected top-level %q", kw))
		}
	}
}

// parseOption parses `name = value` (after the `option` keyword or inside [...]).
func (ps *parser) parseOption(target proto.Message, scope string) {
	po := &pendingOpt{file: ps.file, line: ps.peek().line, scope: scope, target: target}
	for {
		if ps.accept("(") {
			n := ps.fullIdent()
			ps.expect(")")
			po.name = append(po.name, optName{n, true})
		} else {
			po.name = append(po.name, optName{ps.ident(), false})
		}
		if !ps.accept(".") {
			break
		}
	}
	ps.expect("=")
	if ps.isSym("{") {
		open := ps.next()
		depth := 1
		for depth > 0 {
			t := ps.next()
			if t.kind == tEOF {
				panic(ps.errf("unterminated aggregate"))
			}
			if t.kind == tSym && t.text == "{" {
				depth++
			}
			if t.kind == tSym && t.text == "}" {
				depth--
			}
		}
		closeTok := ps.toks[ps.p-1]
		po.isAgg = true
		po.agg = ps.src[open.end:closeTok.pos]
	} else {
		if ps.accept("-") {
			po.neg = true
		}
		t := ps.next()
		if t.kind == tString {
			for ps.peek().kind == tString {
				t.text += ps.next().text
			}
		}
		if t.kind == tIdent { // could be dotted enum? keep simple
			for ps.isSym(".") {
				ps.p++
				t.text += "." + ps.ident()
			}
		}
		po.tok = t
	}
	ps.opts = append(ps.opts, po)
}

func (ps *parser) parseBracketOptions(newTarget func() proto.Message, scope string, onJSONName func(string)) {
	if !ps.accept("[") {
		return
	}
	target := newTarget()
	for {
		// json_name is a pseudo-option
		if ps.isIdent("json_name") {
			ps.p++
			ps.expect("=")
			onJSONName(ps.str())
		} else {
			ps.parseOption(target, scope)
		}
		if !ps.accept(",") {
			break
		}
	}
	ps.expect("]")
}

var scalarTypes = map[string]descriptorpb.FieldDescriptorProto_Type{
	"double":   descriptorpb.FieldDescriptorProto_TYPE_DOUBLE,
	"float":    descriptorpb.FieldDescriptorProto_TYPE_FLOAT,
	"int32":    descriptorpb.FieldDescriptorProto_TYPE_INT32,
	"int64":    descriptorpb.FieldDescriptorProto_TYPE_INT64,
	"uint32":   descriptorpb.FieldDescriptorProto_TYPE_UINT32,
	"uint64":   descriptorpb.FieldDescriptorProto_TYPE_UINT64,
	"sint32":   descriptorpb.FieldDescriptorProto_TYPE_SINT32,
	"sint64":   descriptorpb.FieldDescriptorProto_TYPE_SINT64,
	"fixed32":  descriptorpb.FieldDescriptorProto_TYPE_FIXED32,
	"fixed64":  descriptorpb.FieldDescriptorProto_TYPE_FIXED64,
	"sfixed32": descriptorpb.FieldDescriptorProto_TYPE_SFIXED32,
	"sfixed64": descriptorpb.FieldDescriptorProto_TYPE_SFIXED64,
	"bool":     descriptorpb.FieldDescriptorProto_TYPE_BOOL,
	"string":   descriptorpb.FieldDescriptorProto_TYPE_STRING,
	"bytes":    descriptorpb.FieldDescriptorProto_TYPE_BYTES,
}

func (ps *parser) setType(f *descriptorpb.FieldDescriptorProto, typ, scope string) {
	if st, ok := scalarTypes[typ]; ok {
		f.Type = st.Enum()
		return
	}
	ps.types = append(ps.types, &pendingType{scope: scope, name: typ, file: ps.file, line: ps.peek().line,
		set: func(fq string, isEnum bool) {
			f.TypeName = proto.String("." + fq)
			if isEnum {
				f.Type = descriptorpb.FieldDescriptorProto_TYPE_ENUM.Enum()
			} else {
				f.Type = descriptorpb.FieldDescriptorProto_TYPE_MESSAGE.Enum()
			}
		}})
}

func jsonName(s string) string {
	var sb strings.Builder
	up := false
	for i := 0; i < len(s); i++ {
		c := s[i]
		if c == '_' {
			up = true
			continue
		}
		if up && c >= 'a' && c <= 'z' {
			c -= 'a' - 'A'
		}
		up = false
		sb.WriteByte(c)
	}
	return sb.String()
}

func camelEntry(s string) string {
	// protoc: MapEntryName: capitalise after underscores, drop underscores, first char upper, + "Entry"
	var sb strings.Builder
	up := true
	for i := 0; i < len(s); i++ {
		c := s[i]
		if c == '_' {
			up = true
			continue
		}
		if up && c >= 'a' && c <= 'z' {
			c -= 'a' - 'A'
		}
		up = false
		sb.WriteByte(c)
	}
	return sb.String() + "Entry"
}

func (ps *parser) parseMessage(parentScope string) *descriptorpb.DescriptorProto {
	m := &descriptorpb.DescriptorProto{Name: proto.String(ps.ident())}
	scope := m.GetName()
	if parentScope != "" {
		scope = parentScope + "." + m.GetName()
	}
	ps.expect("{")
	var optionalFields []*descriptorpb.FieldDescriptorProto
	for !ps.accept("}") {
		if ps.accept(";") {
			continue
		}
		t := ps.peek()
		if t.kind != tIdent && !(t.kind == tSym && t.text == ".") {
			panic(ps.errf("unexpected %q in message", t.text))
		}
		switch {
		case ps.isIdent("message") && ps.toks[ps.p+1].kind == tIdent && ps.toks[ps.p+2].text == "{":
			ps.p++
			m.NestedType = append(m.NestedType, ps.parseMessage(scope))
		case ps.isIdent("enum") && ps.toks[ps.p+1].kind == tIdent && ps.toks[ps.p+2].text == "{":
			ps.p++
			m.EnumType = append(m.EnumType, ps.parseEnum(scope))
		case ps.isIdent("option") && (ps.toks[ps.p+1].kind == tIdent || ps.toks[ps.p+1].text == "("):
			ps.p++
			if m.Options == nil {
				m.Options = &descriptorpb.MessageOptions{}
			}
			ps.parseOption(m.Options, scope)
			ps.expect(";")
		case ps.isIdent("reserved"):
			ps.p++
			ps.parseReserved(func(s, e int32) {
				m.ReservedRange = append(m.ReservedRange, &descriptorpb.DescriptorProto_ReservedRange{Start: proto.Int32(s), End: proto.Int32(e + 1)})
			}, func(n string) { m.ReservedName = append(m.ReservedName, n) })
		case ps.isIdent("oneof") && ps.toks[ps.p+1].kind == tIdent && ps.toks[ps.p+2].text == "{":
			ps.p++
			od := &descriptorpb.OneofDescriptorProto{Name: proto.String(ps.ident())}
			idx := int32(len(m.OneofDecl))
			m.OneofDecl = append(m.OneofDecl, od)
			ps.expect("{")
			for !ps.accept("}") {
				if ps.accept(";") {
					continue
				}
				if ps.isIdent("option") && (ps.toks[ps.p+1].kind == tIdent || ps.toks[ps.p+1].text == "(") && ps.toks[ps.p+2].text != "=" {
					ps.p++
					if od.Options == nil {
						od.Options = &descriptorpb.OneofOptions{}
					}
					ps.parseOption(od.Options, scope)
					ps.expect(";")
					continue
				}
				f := ps.parseField(m, scope, "")
				f.OneofIndex = proto.Int32(idx)
			}
		case ps.isIdent("extend") || ps.isIdent("extensions") || ps.isIdent("group"):
			panic(ps.errf("%s unsupported", t.text))
		default:
			label := ""
			if (ps.isIdent("repeated") || ps.isIdent("optional")) && ps.toks[ps.p+1].text != "=" {
				// `repeated`/`optional` followed by a type
				label = ps.ident()
			}
			f := ps.parseField(m, scope, label)
			if label == "optional" {
				optionalFields = append(optionalFields, f)
			}
		}
	}
	// proto3 optional => synthetic oneofs, appended after all real oneofs
	for _, f := range optionalFields {
		f.Proto3Optional = proto.Bool(true)
		f.OneofIndex = proto.Int32(int32(len(m.OneofDecl)))
		m.OneofDecl = append(m.OneofDecl, &descriptorpb.OneofDescriptorProto{Name: proto.String("_" + f.GetName())})
	}
	return m
}

func (ps *parser) parseField(m *descriptorpb.DescriptorProto, scope, label string) *descriptorpb.FieldDescriptorProto {
	f := &descriptorpb.FieldDescriptorProto{}
	f.Label = descriptorpb.FieldDescriptorProto_LABEL_OPTIONAL.Enum()
	if label == "repeated" {
		f.Label = descriptorpb.FieldDescriptorProto_LABEL_REPEATED.Enum()
	}
	if ps.isIdent("map") && ps.toks[ps.p+1].text == "<" {
		ps.p += 2
		kt := ps.fullIdent()
		ps.expect(",")
		vt := ps.fullIdent()
		ps.expect(">")
		f.Name = proto.String(ps.ident())
		entryName := camelEntry(f.GetName())
		entry := &descriptorpb.DescriptorProto{
			Name:    proto.String(entryName),
			Options: &descriptorpb.MessageOptions{MapEntry: proto.Bool(true)},
		}
		kf := &descriptorpb.FieldDescriptorProto{Name: proto.String("key"), JsonName: proto.String("key"), Number: proto.Int32(1), Label: descriptorpb.FieldDescriptorProto_LABEL_OPTIONAL.Enum()}
		vf := &descriptorpb.FieldDescriptorProto{Name: proto.String("value"), JsonName: proto.String("value"), Number: proto.Int32(2), Label: descriptorpb.FieldDescriptorProto_LABEL_OPTIONAL.Enum()}
		ps.setType(kf, kt, scope)
		ps.setType(vf, vt, scope)
		entry.Field = []*descriptorpb.FieldDescriptorProto{kf, vf}
		m.NestedType = append(m.NestedType, entry)
		f.Label = descriptorpb.FieldDescriptorProto_LABEL_REPEATED.Enum()
		f.Type = descriptorpb.FieldDescriptorProto_TYPE_MESSAGE.Enum()
		f.TypeName = proto.String("." + scope + "." + entryName)
	} else {
		typ := ps.fullIdent()
		f.Name = proto.String(ps.ident())
		ps.setType(f, typ, scope)
	}
	ps.expect("=")
	f.Number = proto.Int32(int32(ps.intLit()))
	f.JsonName = proto.String(jsonName(f.GetName()))
	ps.parseBracketOptions(func() proto.Message {
		if f.Options == nil {
			f.Options = &descriptorpb.FieldOptions{}
		}
		return f.Options
	}, scope, func(j string) { f.JsonName = proto.String(j) })
	ps.expect(";")
	m.Field = append(m.Field, f)
	return f
}

func (ps *parser) parseReserved(onRange func(s, e int32), onName func(string)) {
	for {
		if ps.peek().kind == tString {
			onName(ps.str())
		} else {
			s := int32(ps.intLit())
			e := s
			if ps.isIdent("to") {
				ps.p++
				if ps.isIdent("max") {
					ps.p++
					e = 536870911
				} else {
					e = int32(ps.intLit())
				}
			}
			onRange(s, e)
		}
		if !ps.accept(",") {
			break
		}
	}
	ps.expect(";")
}

func (ps *parser) parseEnum(parentScope string) *descriptorpb.EnumDescriptorProto {
	e := &descriptorpb.EnumDescriptorProto{Name: proto.String(ps.ident())}
	// enum values are scoped to the enclosing scope, options resolve from the enum's scope
	scope := e.GetName()
	if parentScope != "" {
		scope = parentScope + "." + e.GetName()
	}
	ps.expect("{")
	for !ps.accept("}") {
		if ps.accept(";") {
			continue
		}
		if ps.isIdent("option") && ps.toks[ps.p+2].text != "=" {
			ps.p++
			if e.Options == nil {
				e.Options = &descriptorpb.EnumOptions{}
			}
			ps.parseOption(e.Options, scope)
			ps.expect(";")
			continue
		}
		if ps.isIdent("reserved") && ps.toks[ps.p+1].text != "=" {
			ps.p++
			ps.parseReserved(func(s, en int32) {
				e.ReservedRange = append(e.ReservedRange, &descriptorpb.EnumDescriptorProto_EnumReservedRange{Start: proto.Int32(s), End: proto.Int32(en)})
			}, func(n string) { e.ReservedName = append(e.ReservedName, n) })
			continue
		}
		v := &descriptorpb.EnumValueDescriptorProto{Name: proto.String(ps.ident())}
		ps.expect("=")
		v.Number = proto.Int32(int32(ps.intLit()))
		ps.parseBracketOptions(func() proto.Message {
			if v.Options == nil {
				v.Options = &descriptorpb.EnumValueOptions{}
			}
			return v.Options
		}, scope, func(string) {})
		ps.expect(";")
		e.Value = append(e.Value, v)
	}
	return e
}

func (ps *parser) parseService(pkg string) *descriptorpb.ServiceDescriptorProto {
	s := &descriptorpb.ServiceDescriptorProto{Name: proto.String(ps.ident())}
	scope := s.GetName()
	if pkg != "" {
		scope = pkg + "." + s.GetName()
	}
	ps.expect("{")
	for !ps.accept("}") {
		if ps.accept(";") {
			continue
		}
		kw := ps.ident()
		switch kw {
		case "option":
			if s.Options == nil {
				s.Options = &descriptorpb.ServiceOptions{}
			}
			ps.parseOption(s.Options, scope)
			ps.expect(";")
		case "rpc":
			m := &descriptorpb.MethodDescriptorProto{Name: proto.String(ps.ident())}
			ps.expect("(")
			if ps.isIdent("stream") && ps.toks[ps.p+1].kind == tIdent {
				ps.p++
				m.ClientStreaming = proto.Bool(true)
			}
			in := ps.fullIdent()
			ps.expect(")")
			if ps.ident() != "returns" {
				panic(ps.errf("expected returns"))
			}
			ps.expect("(")
			if ps.isIdent("stream") && ps.toks[ps.p+1].kind == tIdent {
				ps.p++
				m.ServerStreaming = proto.Bool(true)
			}
			out := ps.fullIdent()
			ps.expect(")")
			mm := m
			ps.types = append(ps.types,
				&pendingType{scope: scope, name: in, file: ps.file, line: ps.peek().line, set: func(fq string, _ bool) { mm.InputType = proto.String("." + fq) }},
				&pendingType{scope: scope, name: out, file: ps.file, line: ps.peek().line, set: func(fq string, _ bool) { mm.OutputType = proto.String("." + fq) }})
			if ps.accept("{") {
				for !ps.accept("}") {
					if ps.accept(";") {
						continue
					}
					if ps.ident() != "option" {
						panic(ps.errf("expected option in rpc body"))
					}
					if m.Options == nil {
						m.Options = &descriptorpb.MethodOptions{}
					}
					ps.parseOption(m.Options, scope)
					ps.expect(";")
				}
			} else {
				ps.expect(";")
			}
			s.Method = append(s.Method, m)
		default:
			panic(ps.errf("unexpected %q in service", kw))
		}
	}
	return s
}
