#!/bin/sh
# usage: tools/seedrecheck.sh <seed-id> <cid> [<cid>...] : runs the named checks again against an already confirmed seeded
# change (the confirmation line of its first run is repeated so that tools/seedsummary.py attributes the verdicts)
cd "$(dirname "$0")/.."
id=$1; shift
grep -h "^seed $id: " seeded/logs/*.log | grep -v "demo_clean_rc=127" | tail -1
for c in "$@"; do MUT_LANE=seed-$c tools/mutrun.sh seeded/$id/patch.diff $c --tier quick | tail -4; done
