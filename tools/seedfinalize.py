#!/usr/bin/env python3
"""Writes what was run for every seeded change into seeded/<id>/meta.json ("confirmed" + "checks") from
seeded/results.json, and regenerates the "Seeded changes" section of DESIGN.md."""
import json, os, re

V = os.path.dirname(os.path.dirname(os.path.abspath(__file__)))
res = json.load(open(os.path.join(V, "seeded", "results.json")))
rows = []
for sid in sorted(res, key=lambda s: (s.split("-")[0], int(s.split("-")[1]))):
    d = os.path.join(V, "seeded", sid)
    mp = os.path.join(d, "meta.json")
    meta = json.load(open(mp)) if os.path.exists(mp) else {}
    r = res[sid]
    meta["property"] = meta.get("property", sid.split("-")[0])
    meta["confirmed_in_scratch_worktree"] = {
        "how": "tools/seedverify.sh seeded/%s: scratch git worktree of /repo HEAD; demo copied in and run (run.sh) -> must pass; patch.diff applied -> demo must fail; demo files removed and the touched packages' upstream tests run with the patch (plain go test, or /root/bk/bk test where the package needs generated code; n/a = the package's upstream tests do not compile in this sandbox with or without the patch)" % sid,
        **r.get("confirmed", {}),
    }
    meta["checks_run_against_it"] = {
        c: {"cmd": "tools/mutrun.sh seeded/%s/patch.diff %s --tier quick" % (sid, c), **v} for c, v in r.get("checks", {}).items()
    }
    json.dump(meta, open(mp, "w"), indent=1)
    conf = r.get("confirmed", {})
    ok = conf.get("demo_clean_rc") == "0" and conf.get("demo_patched_rc") not in (None, "0") and conf.get("patch_applies") == "yes"
    cells = []
    for c, v in sorted(r.get("checks", {}).items()):
        first = v.get("first")
        final = v.get("final", first)
        w = lambda x: {1: "caught", 0: "MISSED", 2: "harness error"}.get(x, str(x))
        cells.append("%s: %s" % (c, w(first) if final == first or "final" not in v else "%s → %s" % (w(first), w(final))))
    what = (meta.get("summary") or meta.get("mechanism") or "").replace("|", "\\|").replace("\n", " ")
    if len(what) > 230:
        what = what[:227] + "…"
    needs = (meta.get("needs") or "").replace("|", "\\|").replace("\n", " ")
    if len(needs) > 200:
        needs = needs[:197] + "…"
    rows.append("| %s | %s | %s | %s | %s |" % (sid, what, needs, "yes" if ok else "NO", "; ".join(cells)))

sec = """## 9. Seeded changes from independent reviewers (`/verif/seeded/<id>/`)

Fresh sub-agents were given only the text of one property, their own scratch worktree of `/repo` and a neutral build
helper (`/root/bk/bk`: generated protobuf code injected by overlay — nothing from `/verif`) and asked for changes that
break the property, still compile, keep the runnable upstream tests green and need something specific to manifest, each
with a demonstration. Every change was confirmed again here (`tools/seedverify.sh`: demo passes on HEAD, fails with the
patch, touched packages' runnable tests still pass) before it was kept, and every check of the property was run against it
(`tools/mutrun.sh` in a scratch worktree; none was ever applied to `/repo`). "first" is the verdict of the check as it
was when the change arrived; where it was missed the check was strengthened (the extension is described in the
property's "As built" paragraph / `checks/<cid>/NOTES*.md`) and run again ("→ final"). Machine-readable:
`seeded/results.json`, per change `seeded/<id>/meta.json`. Ids `-1..-3` are the first reviewer round, `-4..-6` the second
(§8b; those reviewers were told what the first round had submitted). One change is missed by every check at the end:
C03-5 (trace `mergeBlocks` keeps the pending block after a merged block exceeds the 2 MiB limit) — it needs a trace
engine with a merged-block-over-limit alphabet, which c03 (measure/stream/sidx engines), c13 and c01 do not have; the
required data pool is described in `checks/c03/NOTES-round2.md`.

| id | change | needs | confirmed | checks (first → final) |
|---|---|---|---|---|
""" + "\n".join(rows) + "\n"
p = os.path.join(V, "DESIGN.md")
s = open(p).read()
i = s.find("## 9. Seeded changes from independent reviewers")
if i >= 0:
    s = s[:i].rstrip("\n") + "\n\n"
else:
    s = s.rstrip("\n") + "\n\n---------------------------------------------------------------------------------------------------------------------\n\n"
open(p, "w").write(s + sec)
print("seeds:", len(rows))
