#!/usr/bin/env python3
"""(first = as the check was when the seed arrived; final = after the check was strengthened)
Collects tools/seedrun.sh output (logs given as arguments, in chronological order) into seeded/results.json:
per seed: confirmation (patch applies, demo passes clean, fails patched, upstream tests with the patch) and, per check,
the exit code of the LAST run of that check against the seed."""
import json, re, sys, os
res = json.load(open('/verif/seeded/results.json')) if os.path.exists('/verif/seeded/results.json') else {}
cur = None
for path in sys.argv[1:]:
    for l in open(path):
        m = re.match(r'seed (\S+): patch_applies=(\S+) demo_clean_rc=(\S+) demo_patched_rc=(\S+) upstream_tests\(with patch\):(.*)', l)
        if m:
            cur = m.group(1)
            r = res.setdefault(cur, {"checks": {}})
            r["confirmed"] = {"patch_applies": m.group(2), "demo_clean_rc": m.group(3), "demo_patched_rc": m.group(4), "upstream_tests_with_patch": m.group(5).strip()}
            continue
        m = re.match(r'mutrun: patch=\S+ check=(\S+) exit=(\d+)', l)
        if m and cur:
            c = res[cur]["checks"].setdefault(m.group(1), {})
            if not isinstance(c, dict):
                c = {"first": c}
                res[cur]["checks"][m.group(1)] = c
            key = (path, cur, m.group(1))
            if "first" not in c:
                c["first"] = int(m.group(2)); c["first_log"] = os.path.basename(path)
            elif c.get("first_log") != os.path.basename(path) or c.get("final_log") == os.path.basename(path):
                c["final"] = int(m.group(2)); c["final_log"] = os.path.basename(path)
json.dump(res, open('/verif/seeded/results.json', 'w'), indent=1, sort_keys=True)
for k in sorted(res):
    print(k, res[k].get("confirmed", {}).get("demo_patched_rc"), res[k]["checks"])
