// rewrite copies one Go source file, redirecting selected imports to the /verif shims and turning go statements into
// scheduled threads. Nothing else in the file changes, so an edit of the repository source is carried over verbatim.
//
//	-mode sync : "sync" -> pkg/verif/vsync (as sync), "sync/atomic" -> pkg/verif/vatomic (as atomic), go f(x) -> vsched.Go
//	-mode fs   : "os" -> pkg/verif/vos (as os), "golang.org/x/sys/unix" -> pkg/verif/vunix (as unix)
//	-mode sync+fs : both
//	-mode fsgo : go f(x) -> vfsgo.VerifGo(func() { f(x) }) with vfsgo = pkg/verif/vos (deterministic, harness-controlled
//	             execution of background file-system work while an I/O log is being recorded; plain goroutine otherwise)
package main

import (
	"flag"
	"fmt"
	"go/ast"
	"go/format"
	"go/parser"
	"go/token"
	"os"
	"strconv"
	"strings"
)

const base = "github.com/apache/skywalking-banyandb/pkg/verif/"

// package, import alias and function that replace a go statement (default: the controlled scheduler).
var goPkg, goAlias, goFn = base + "sched", "vsched", "Go"

func main() {
	mode := flag.String("mode", "sync", "")
	in := flag.String("in", "", "")
	out := flag.String("out", "", "")
	flag.Parse()
	fset := token.NewFileSet()
	f, err := parser.ParseFile(fset, *in, nil, parser.ParseComments)
	if err != nil {
		fmt.Fprintln(os.Stderr, "rewrite:", err)
		os.Exit(1)
	}
	repl := map[string][2]string{}
	for _, m := range strings.Split(*mode, "+") {
		switch m {
		case "sync":
			repl["sync"] = [2]string{"sync", base + "vsync"}
			repl["sync/atomic"] = [2]string{"atomic", base + "vatomic"}
		case "fs":
			repl["os"] = [2]string{"os", base + "vos"}
			repl["golang.org/x/sys/unix"] = [2]string{"unix", base + "vunix"}
		case "nogo":
		case "fsgo":
			goPkg, goAlias, goFn = base+"vos", "vfsgo", "VerifGo"
		default:
			fmt.Fprintln(os.Stderr, "rewrite: unknown mode", m)
			os.Exit(1)
		}
	}
	for _, im := range f.Imports {
		p, _ := strconv.Unquote(im.Path.Value)
		if r, ok := repl[p]; ok {
			name := r[0]
			if im.Name != nil {
				name = im.Name.Name
			}
			im.Name = ast.NewIdent(name)
			im.Path.Value = strconv.Quote(r[1])
		}
	}
	usedGo := false
	if (strings.Contains(*mode, "sync") || strings.Contains(*mode, "fsgo")) && !strings.Contains(*mode, "nogo") {
		ast.Inspect(f, func(n ast.Node) bool {
			blk, ok := n.(*ast.BlockStmt)
			if ok {
				rewriteList(blk.List, &usedGo)
			}
			if cc, ok := n.(*ast.CaseClause); ok {
				rewriteList(cc.Body, &usedGo)
			}
			if cc, ok := n.(*ast.CommClause); ok {
				rewriteList(cc.Body, &usedGo)
			}
			return true
		})
	}
	if usedGo {
		spec := &ast.ImportSpec{Name: ast.NewIdent(goAlias), Path: &ast.BasicLit{Kind: token.STRING, Value: strconv.Quote(goPkg)}}
		added := false
		for _, d := range f.Decls {
			if gd, ok := d.(*ast.GenDecl); ok && gd.Tok == token.IMPORT {
				gd.Specs = append(gd.Specs, spec)
				if !gd.Lparen.IsValid() {
					gd.Lparen = gd.Pos()
					gd.Rparen = gd.End()
				}
				added = true
				break
			}
		}
		if !added {
			f.Decls = append([]ast.Decl{&ast.GenDecl{Tok: token.IMPORT, Specs: []ast.Spec{spec}}}, f.Decls...)
		}
	}
	w, err := os.Create(*out)
	if err != nil {
		fmt.Fprintln(os.Stderr, "rewrite:", err)
		os.Exit(1)
	}
	if err := format.Node(w, fset, f); err != nil {
		fmt.Fprintln(os.Stderr, "rewrite:", err)
		os.Exit(1)
	}
	w.Close()
}

// rewriteList turns `go f(a, b)` into `{ v0, v1 := a, b; vsched.Go(func() { f(v0, v1) }) }` (arguments are
// evaluated at the go statement, as in the original).
func rewriteList(list []ast.Stmt, used *bool) {
	for i, s := range list {
		gs, ok := s.(*ast.GoStmt)
		if !ok {
			continue
		}
		*used = true
		call := gs.Call
		var pre []ast.Stmt
		if len(call.Args) > 0 {
			if call.Ellipsis.IsValid() {
				fmt.Fprintln(os.Stderr, "rewrite: variadic go statement not supported")
				os.Exit(1)
			}
			var lhs []ast.Expr
			var newArgs []ast.Expr
			for j := range call.Args {
				id := ast.NewIdent(fmt.Sprintf("verifGoArg%d", j))
				lhs = append(lhs, id)
				newArgs = append(newArgs, ast.NewIdent(id.Name))
			}
			pre = append(pre, &ast.AssignStmt{Lhs: lhs, Tok: token.DEFINE, Rhs: call.Args})
			call = &ast.CallExpr{Fun: call.Fun, Args: newArgs}
		}
		goCall := &ast.ExprStmt{X: &ast.CallExpr{
			Fun: &ast.SelectorExpr{X: ast.NewIdent(goAlias), Sel: ast.NewIdent(goFn)},
			Args: []ast.Expr{&ast.FuncLit{
				Type: &ast.FuncType{Params: &ast.FieldList{}},
				Body: &ast.BlockStmt{List: []ast.Stmt{&ast.ExprStmt{X: call}}},
			}},
		}}
		list[i] = &ast.BlockStmt{List: append(pre, goCall)}
	}
}
