module rewrite

go 1.23
