#!/usr/bin/env python3
"""usage: tools/seedimport.py <PID> <outdir> <first-k>: copies a reviewer's output (<outdir>/<k>/{patch.diff,demo,meta.json})
to seeded/<PID>-<first-k + k - 1>/ and derives run.sh from the first command in demo/RUN.md (checkout path -> "$1")."""
import os, re, shutil, sys
pid, out, first = sys.argv[1], sys.argv[2], int(sys.argv[3])
V = os.path.dirname(os.path.dirname(os.path.abspath(__file__)))
for k in (1, 2, 3):
    src = os.path.join(out, str(k))
    if not os.path.isdir(src):
        print("missing", src)
        continue
    dst = os.path.join(V, "seeded", "%s-%d" % (pid, first + k - 1))
    shutil.rmtree(dst, ignore_errors=True)
    os.makedirs(dst)
    shutil.copy(os.path.join(src, "patch.diff"), dst)
    shutil.copy(os.path.join(src, "meta.json"), dst)
    shutil.copytree(os.path.join(src, "demo"), os.path.join(dst, "demo"))
    cmd = None
    for l in open(os.path.join(dst, "demo", "RUN.md")):
        m = re.search(r"(/root/bk/bk /tmp/rt2?-c\d+ (?:test|run) [^#;`]*)", l)
        if m:
            cmd = m.group(1).strip()
            break
    if not cmd:
        print("NO COMMAND in", dst)
        continue
    cmd = re.sub(r"/tmp/rt2?-c\d+", '"$1"', cmd)
    open(os.path.join(dst, "run.sh"), "w").write("exec " + cmd + "\n")
    print(dst, "->", cmd)
