#!/bin/sh
# usage: tools/seedreall.sh <logfile> "<seed> <cid> [<cid>...]" ...   — tools/seedrecheck.sh for every argument in turn
cd "$(dirname "$0")/.."
log=$1; shift
: > "$log"
for x in "$@"; do
  # shellcheck disable=SC2086
  tools/seedrecheck.sh $x >> "$log" 2>&1
done
