package opsearch

import (
	"fmt"
	"strings"
)

// Undoer is implemented by instances some of whose operations only change harness-side state (e.g. a mock clock).
// After Apply(op), Undo(op) restores the previous state exactly and returns true; it returns false if op is not
// undoable (the instance is then discarded and the next operation runs on a fresh replay).
type Undoer interface {
	Undo(op int) bool
}

// ExploreFrom is Explore with several initial states: every seed is an operation history applied to a fresh instance;
// the states reached by the seeds form level 0 (seed operations do not count towards depth). A seed that raises a
// finding is reported and dropped.
func ExploreFrom(sys System, seeds [][]int, depth int, onState func(in Inst, hist []int) []Finding) Stats {
	st := Stats{OpCount: map[string]int{}}
	seenViol := map[string]bool{}
	report := func(fs []Finding, hist []int) {
		for _, f := range fs {
			if seenViol[f.Key] {
				continue
			}
			seenViol[f.Key] = true
			st.Violations = append(st.Violations, Violation{Finding: f, History: Names(sys, hist), Ops: append([]int{}, hist...)})
		}
	}
	seen := map[string]bool{}
	var frontier []node
	for _, sd := range seeds {
		in, fs := Replay(sys, sd)
		st.Replays++
		st.ReplayedOps += len(sd)
		report(fs, sd)
		if len(fs) > 0 || in.Poisoned() {
			st.SeedFailed = true
			in.Close()
			continue
		}
		d := in.Digest()
		if !seen[d] {
			seen[d] = true
			st.States++
			frontier = append(frontier, node{digest: d, hist: append([]int{}, sd...)})
			if onState != nil {
				report(onState(in, sd), sd)
				if in.Digest() != d {
					st.HarnessErr = "onState changed the digest after " + strings.Join(Names(sys, sd), ", ")
					in.Close()
					return st
				}
			}
		}
		in.Close()
	}
	st.ByDepth = []int{len(frontier)}
	nops := sys.NumOps()
	for lvl := 0; lvl < depth && len(frontier) > 0; lvl++ {
		var next []node
		for _, n := range frontier {
			var in Inst
			for op := 0; op < nops; op++ {
				if in == nil {
					in, _ = Replay(sys, n.hist)
					st.Replays++
					st.ReplayedOps += len(n.hist)
					if d := in.Digest(); d != n.digest {
						st.HarnessErr = fmt.Sprintf("nondeterminism: replay of %v reached %q, recorded %q", Names(sys, n.hist), d, n.digest)
						in.Close()
						return st
					}
				}
				h := append(append(make([]int, 0, len(n.hist)+1), n.hist...), op)
				fs := in.Apply(op)
				st.Transitions++
				report(fs, h)
				d := in.Digest()
				if d == n.digest && !in.Poisoned() {
					continue
				}
				st.Changing++
				if in.Poisoned() || len(fs) > 0 {
					st.Pruned++
				} else if !seen[d] {
					seen[d] = true
					st.States++
					next = append(next, node{digest: d, hist: h})
					if onState != nil {
						report(onState(in, h), h)
						if in.Digest() != d {
							st.HarnessErr = "onState changed the digest after " + strings.Join(Names(sys, h), ", ")
							in.Close()
							return st
						}
					}
				}
				if u, ok := in.(Undoer); ok && !in.Poisoned() && u.Undo(op) {
					if in.Digest() != n.digest {
						st.HarnessErr = "Undo did not restore the state after " + strings.Join(Names(sys, h), ", ")
						in.Close()
						return st
					}
					continue
				}
				in.Close()
				in = nil
			}
			if in != nil {
				in.Close()
			}
		}
		frontier = next
		if len(next) > 0 {
			st.MaxDepth = lvl + 1
		}
		st.ByDepth = append(st.ByDepth, len(next))
	}
	return st
}
