// Package opsearch is Engine O: breadth-first explicit-state search over operation histories of a real instance.
//
// A state is identified by a canonical digest read back from the implementation; it is represented by the shortest
// operation history that reaches it. A successor is built by replaying that history on a FRESH real instance and
// applying one more real operation. Operations that leave the digest unchanged let the same instance be used for the
// next operation of the same state; any change (or a panic) discards the instance. Every replay is checked to arrive at
// the recorded digest (determinism obligation: a mismatch is a harness error, never a verdict).
package opsearch

import (
	"fmt"
	"os"
	"os/exec"
	"sort"
	"strings"
	"sync"
)

// Finding is one oracle failure observed while applying an operation.
type Finding struct {
	Key    string `json:"key"`    // stable class of the failure
	Detail string `json:"detail"` // concrete values
}

// Inst is one live instance of the system under test.
type Inst interface {
	// Apply executes operation op on the real code and evaluates the oracle (op post-condition + state invariants).
	Apply(op int) []Finding
	// Digest is the canonical property-relevant state read back from the implementation.
	Digest() string
	// Poisoned reports that an operation panicked or the instance can otherwise not be used any more.
	Poisoned() bool
	// Close releases everything (directories included).
	Close()
}

// System creates instances.
type System interface {
	// Fresh returns a new real instance in the initial state of the configuration, plus findings raised while seeding.
	Fresh() (Inst, []Finding)
	// NumOps is the size of the operation alphabet.
	NumOps() int
	// OpName renders operation op.
	OpName(op int) string
}

// Violation is a finding with the history that produced it.
type Violation struct {
	Finding
	History []string `json:"history"`
	Ops     []int    `json:"ops"`
}

// Stats is what one exploration covered.
type Stats struct {
	HarnessErr  string         `json:"harness_err,omitempty"`
	ByDepth     []int          `json:"states_by_depth"`
	Violations  []Violation    `json:"violations,omitempty"`
	OpCount     map[string]int `json:"-"`
	States      int            `json:"states"`
	Transitions int            `json:"transitions"`
	Changing    int            `json:"state_changing_transitions"`
	Replays     int            `json:"replays"`
	ReplayedOps int            `json:"replayed_ops"`
	Pruned      int            `json:"transitions_not_expanded_after_finding"`
	MaxDepth    int            `json:"max_depth"`
	SeedFailed  bool           `json:"seed_failed,omitempty"`
}

type node struct {
	digest string
	hist   []int
}

// Names renders an op list.
func Names(sys System, ops []int) []string {
	out := make([]string, len(ops))
	for i, o := range ops {
		out[i] = sys.OpName(o)
	}
	return out
}

// Replay builds a fresh instance and applies hist. Findings along the way are returned (they were already reported
// when the prefix was explored; callers normally ignore them).
func Replay(sys System, hist []int) (Inst, []Finding) {
	in, fs := sys.Fresh()
	for _, o := range hist {
		fs = append(fs, in.Apply(o)...)
	}
	return in, fs
}

// Explore runs the search to the given depth (number of operations). onState is called once per distinct state with a
// live instance positioned in that state (it may run read-only observations and return findings; it must not change
// the digest).
func Explore(sys System, depth int, onState func(in Inst, hist []int) []Finding) Stats {
	st := Stats{OpCount: map[string]int{}}
	seenViol := map[string]bool{}
	report := func(fs []Finding, hist []int) {
		for _, f := range fs {
			if seenViol[f.Key] {
				continue
			}
			seenViol[f.Key] = true
			st.Violations = append(st.Violations, Violation{Finding: f, History: Names(sys, hist), Ops: append([]int{}, hist...)})
		}
	}
	in0, fs0 := sys.Fresh()
	report(fs0, nil)
	if len(fs0) > 0 || in0.Poisoned() {
		// the initial state itself violates the oracle: nothing to explore from it
		st.SeedFailed = true
		in0.Close()
		return st
	}
	d0 := in0.Digest()
	seen := map[string]bool{d0: true}
	frontier := []node{{digest: d0}}
	st.States = 1
	st.ByDepth = []int{1}
	if onState != nil {
		report(onState(in0, nil), nil)
	}
	in0.Close()
	nops := sys.NumOps()
	for lvl := 0; lvl < depth && len(frontier) > 0; lvl++ {
		var next []node
		for _, n := range frontier {
			var in Inst
			for op := 0; op < nops; op++ {
				if in == nil {
					in, _ = Replay(sys, n.hist)
					st.Replays++
					st.ReplayedOps += len(n.hist)
					if d := in.Digest(); d != n.digest {
						st.HarnessErr = fmt.Sprintf("nondeterminism: replay of %v reached %q, recorded %q", Names(sys, n.hist), d, n.digest)
						in.Close()
						return st
					}
				}
				h := append(append(make([]int, 0, len(n.hist)+1), n.hist...), op)
				fs := in.Apply(op)
				st.Transitions++
				report(fs, h)
				d := in.Digest()
				if d == n.digest && !in.Poisoned() {
					continue
				}
				st.Changing++
				if in.Poisoned() || len(fs) > 0 {
					// a state reached through a failing transition is not expanded (its future is noise)
					st.Pruned++
				} else if !seen[d] {
					seen[d] = true
					st.States++
					next = append(next, node{digest: d, hist: h})
					if onState != nil {
						report(onState(in, h), h)
						if in.Digest() != d {
							st.HarnessErr = "onState changed the digest after " + strings.Join(Names(sys, h), ", ")
							in.Close()
							return st
						}
					}
				}
				in.Close()
				in = nil
			}
			if in != nil {
				in.Close()
			}
		}
		frontier = next
		if len(next) > 0 {
			st.MaxDepth = lvl + 1
		}
		st.ByDepth = append(st.ByDepth, len(next))
	}
	return st
}

// RunWorkers starts one subprocess of this binary per job (at most par at a time); each gets VERIF_JOB=<job> plus the
// job's extra environment, and prints lines "RESULT <json>". Other output lines are forwarded with a prefix.
func RunWorkers(jobs []Job, par int) (map[string][][]byte, error) {
	var mu sync.Mutex
	out := map[string][][]byte{}
	var firstErr error
	sem := make(chan struct{}, par)
	var wg sync.WaitGroup
	for _, j := range jobs {
		wg.Add(1)
		go func(j Job) {
			defer wg.Done()
			sem <- struct{}{}
			defer func() { <-sem }()
			cmd := exec.Command(os.Args[0], os.Args[1:]...)
			cmd.Env = append(os.Environ(), "VERIF_JOB="+j.Name, "GOMAXPROCS=2")
			cmd.Env = append(cmd.Env, j.Env...)
			b, err := cmd.CombinedOutput()
			mu.Lock()
			defer mu.Unlock()
			for _, l := range strings.Split(string(b), "\n") {
				switch {
				case strings.HasPrefix(l, "RESULT "):
					out[j.Name] = append(out[j.Name], []byte(l[7:]))
				case l == "" || strings.HasPrefix(l, `{"level":`):
				default:
					fmt.Printf("[%s] %s\n", j.Name, l)
				}
			}
			if err != nil && firstErr == nil {
				firstErr = fmt.Errorf("worker %s: %w", j.Name, err)
			}
		}(j)
	}
	wg.Wait()
	return out, firstErr
}

// Job is one worker subprocess.
type Job struct {
	Name string
	Env  []string
}

// WorkerJob returns the job name inside a worker subprocess.
func WorkerJob() (string, bool) {
	j := os.Getenv("VERIF_JOB")
	return j, j != ""
}

// SortedKeys returns the keys of m in order.
func SortedKeys[V any](m map[string]V) []string {
	ks := make([]string, 0, len(m))
	for k := range m {
		ks = append(ks, k)
	}
	sort.Strings(ks)
	return ks
}
