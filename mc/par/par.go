// Package par shards work over worker subprocesses of the same binary.
package par

import (
	"bufio"
	"bytes"
	"fmt"
	"os"
	"os/exec"
	"strconv"
	"strings"
	"sync"
)

// Worker returns (index, total, true) inside a worker subprocess.
func Worker() (int, int, bool) {
	w := os.Getenv("VERIF_WORKER")
	if w == "" {
		return 0, 1, false
	}
	p := strings.Split(w, "/")
	i, _ := strconv.Atoi(p[0])
	n, _ := strconv.Atoi(p[1])
	return i, n, true
}

// Emit prints one result line from a worker.
func Emit(json []byte) {
	fmt.Printf("RESULT %s\n", json)
}

// Run starts n workers (same binary, same args) and returns their RESULT payloads; other output is forwarded.
// A worker that dies abnormally yields an error.
func Run(n int, extraEnv ...string) ([][]byte, error) {
	var mu sync.Mutex
	var out [][]byte
	var firstErr error
	var wg sync.WaitGroup
	for i := 0; i < n; i++ {
		wg.Add(1)
		go func(i int) {
			defer wg.Done()
			cmd := exec.Command(os.Args[0], os.Args[1:]...)
			cmd.Env = append(os.Environ(), fmt.Sprintf("VERIF_WORKER=%d/%d", i, n), "GOMAXPROCS=1")
			cmd.Env = append(cmd.Env, extraEnv...)
			var buf bytes.Buffer
			cmd.Stdout = &buf
			cmd.Stderr = &buf
			err := cmd.Run()
			mu.Lock()
			defer mu.Unlock()
			sc := bufio.NewScanner(&buf)
			sc.Buffer(make([]byte, 1<<20), 1<<28)
			for sc.Scan() {
				l := sc.Text()
				if strings.HasPrefix(l, "RESULT ") {
					out = append(out, []byte(l[7:]))
				} else if !strings.HasPrefix(l, `{"level":`) {
					fmt.Printf("[w%d] %s\n", i, l)
				}
			}
			if err != nil && firstErr == nil {
				firstErr = fmt.Errorf("worker %d: %w", i, err)
			}
		}(i)
	}
	wg.Wait()
	return out, firstErr
}
