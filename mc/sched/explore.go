package sched

import (
	"fmt"
	"strings"
	"time"
)

// Harness builds one fresh instance of the system under test per execution.
type Harness struct {
	// Threads are run under the scheduler.
	Threads []func()
	// Check is called after the execution (scheduler detached); it returns violation keys (empty = ok).
	Check func(res *Result) []string
	// Cleanup releases the instance.
	Cleanup func()
}

// Explorer enumerates all schedules with at most Bound preemptions.
type Explorer struct {
	Setup               func() Harness
	OnViolate           func(key string, res *Result)
	Deadline            time.Time
	Outcomes            map[string]int
	ByPreempt           map[int]int
	Bound               int
	MaxSteps            int
	Shard               int // this worker
	Shards              int // number of workers (0/1 = no sharding)
	Executions          int
	MaxPoints           int
	subtree             int
	Capped              bool
	HarnessErr          string
	TSetup, TRun, TRest time.Duration
	// Outcome, if set, summarises an execution for the distinct-outcome count.
	Outcome func(res *Result) string
}

func (x *Explorer) runOne(prefix []int, expect []string) *Result {
	t0 := time.Now()
	h := x.Setup()
	t1 := time.Now()
	CheckGoid = x.Executions < 30
	res := Run(prefix, expect, x.MaxSteps, h.Threads)
	t2 := time.Now()
	x.TSetup += t1.Sub(t0)
	x.TRun += t2.Sub(t1)
	defer func() { x.TRest += time.Since(t2) }()
	if len(res.Abort) > 14 && res.Abort[:14] == "nondeterminism" {
		x.HarnessErr = res.Abort
		if h.Cleanup != nil {
			h.Cleanup()
		}
		return res
	}
	var keys []string
	switch res.Abort {
	case "deadlock":
		keys = append(keys, "deadlock")
	case "livelock":
		keys = append(keys, "livelock")
	case "panic":
		keys = append(keys, PanicKey(res))
	}
	if h.Check != nil {
		keys = append(keys, h.Check(res)...)
	}
	for _, k := range keys {
		if x.OnViolate != nil {
			x.OnViolate(k, res)
		}
	}
	if x.Outcome != nil {
		x.Outcomes[x.Outcome(res)]++
	}
	if h.Cleanup != nil {
		h.Cleanup()
	}
	return res
}

// Explore runs the bounded DFS from the empty prefix.
func (x *Explorer) Explore() {
	if x.Outcomes == nil {
		x.Outcomes = map[string]int{}
	}
	if x.ByPreempt == nil {
		x.ByPreempt = map[int]int{}
	}
	x.explore(nil, nil, 0)
}

// PanicKey names a panic by its value and the innermost repository function (outside logging / fs helpers / the
// harness) on the panicking stack, so that known findings can be matched by call site.
func PanicKey(res *Result) string {
	site := ""
	for _, l := range strings.Split(res.Stack, "\n") {
		const mod = "github.com/apache/skywalking-banyandb/"
		if !strings.HasPrefix(l, mod) {
			continue
		}
		f := l[len(mod):]
		if strings.HasPrefix(f, "pkg/verif/") || strings.HasPrefix(f, "banyand/verif/") || strings.HasPrefix(f, "pkg/logger") || strings.HasPrefix(f, "pkg/fs.") {
			continue
		}
		if i := strings.LastIndex(f, "("); i > 0 {
			f = f[:i]
		}
		f = strings.ReplaceAll(f, "[...]", "")
		site = f
		break
	}
	return fmt.Sprintf("panic: %v @ %s", res.Panic, site)
}

// shardLevel: executions with at most shardLevel deviations from the default schedule are run by every worker (and
// counted by worker 0 only); the subtrees below them are dealt out round-robin. With 1, a worker repeats only the
// O(points) executions of levels 0 and 1.
const shardLevel = 1

func sigs(r *Result) []string {
	s := make([]string, len(r.Points))
	for i := range r.Points {
		s[i] = r.Points[i].Sig
	}
	return s
}

func (x *Explorer) explore(prefix []int, expect []string, level int) {
	if x.HarnessErr != "" {
		return
	}
	if !x.Deadline.IsZero() && time.Now().After(x.Deadline) {
		x.Capped = true
		return
	}
	res := x.runOne(prefix, expect)
	if x.HarnessErr != "" {
		return
	}
	counted := x.Shards <= 1 || level > shardLevel || x.Shard == 0
	if counted {
		x.Executions++
		x.ByPreempt[res.Preempts]++
		if len(res.Points) > x.MaxPoints {
			x.MaxPoints = len(res.Points)
		}
	}
	ex := sigs(res)
	pre := 0
	for i := 0; i < len(res.Points); i++ {
		p := res.Points[i]
		if i >= len(prefix) {
			for alt := 1; alt < len(p.Enabled); alt++ {
				cost := pre
				if p.FromStillReady {
					cost++
				}
				if cost > x.Bound {
					break
				}
				if level == shardLevel && x.Shards > 1 {
					x.subtree++
					if x.subtree%x.Shards != x.Shard {
						continue
					}
				}
				np := make([]int, i+1)
				copy(np, res.Choices[:i])
				np[i] = alt
				x.explore(np, ex[:i+1], level+1)
			}
		}
		if p.FromStillReady && p.Chosen != 0 {
			pre++
		}
	}
}
