// Package sched is a cooperative controlled scheduler plus a depth-first, preemption-bounded explorer of
// choice sequences (stateless model checking of the real code at hooked synchronisation operations).
package sched

import (
	"bytes"
	"fmt"
	"runtime"
	"runtime/debug"
	"strconv"
	"strings"
	"sync"
	"sync/atomic"
)

// Kind of a pending operation.
type Kind uint8

// Operation kinds.
const (
	KStart Kind = iota
	KLock
	KRLock
	KAtomic
	KWait
	KOnce
	KYield
	KFS
	KUser
)

var kindNames = [...]string{"start", "lock", "rlock", "atomic", "wait", "once", "yield", "fs", "user"}

func (k Kind) String() string { return kindNames[k] }

// Blocker is implemented by shim objects whose operations can block.
type Blocker interface {
	CanProceed(k Kind) bool
}

type thread struct {
	where string
	wake  chan bool
	obj   any
	label string
	id    int
	goid  atomic.Int64
	kind  Kind
	done  bool
}

// PointRec is one scheduling point of an execution.
type PointRec struct {
	Enabled        []int  // thread ids in canonical order
	Sig            string // thread/kind/object-ordinal signature used to detect nondeterminism
	From           int    // thread that reached the point (-1 initial)
	Chosen         int    // index into Enabled
	FromStillReady bool   // switching away costs a preemption
	Where          string // caller of the hooked op (only with TraceCallers)
}

// Result of one execution.
type Result struct {
	Panic    any
	Stack    string
	Abort    string // "", "deadlock", "livelock", "panic", "nondeterminism: ..."
	Points   []PointRec
	Choices  []int
	Preempts int
}

// Exec is one controlled execution.
type Exec struct {
	objIDs   map[any]int
	finished chan struct{}
	res      *Result
	running  *thread
	threads  []*thread
	prefix   []int
	expect   []string
	wg       sync.WaitGroup
	steps    int
	maxSteps int
	aborted  bool
	closed   bool
}

var cur *Exec

// Active reports whether a controlled execution is attached.
func Active() bool { return cur != nil }

type abortSignal struct{}

func goid() int64 {
	var buf [64]byte
	n := runtime.Stack(buf[:], false)
	b := buf[:n]
	b = bytes.TrimPrefix(b, []byte("goroutine "))
	i := bytes.IndexByte(b, ' ')
	id, _ := strconv.ParseInt(string(b[:i]), 10, 64)
	return id
}

// TraceCallers makes every point record the repository call site that reached it (replay/debugging only).
var TraceCallers bool

func callerOutsideVerif() string {
	pc := make([]uintptr, 24)
	n := runtime.Callers(3, pc)
	fr := runtime.CallersFrames(pc[:n])
	out := ""
	cnt := 0
	for {
		f, more := fr.Next()
		if !strings.Contains(f.Function, "/pkg/verif/") && !strings.HasPrefix(f.Function, "runtime.") {
			fn := f.Function
			if i := strings.LastIndex(fn, "/"); i >= 0 {
				fn = fn[i+1:]
			}
			out += fmt.Sprintf("%s:%d ", fn, f.Line)
			cnt++
			if cnt == 3 {
				break
			}
		}
		if !more {
			break
		}
	}
	return out
}

// CheckGoid enables the "hooked op reached from an unmanaged goroutine" assertion.
var CheckGoid = true

// quiet > 0 suppresses scheduling points (harness observations of hooked objects).
var quiet int

// Observe runs f without scheduling points; for harness reads of hooked state.
func Observe(f func()) {
	if cur == nil {
		// free-running pass: an observation is harness bookkeeping plus read-only calls into the instance
		Own(f)
		return
	}
	quiet++
	defer func() { quiet-- }()
	f()
}

// Yield is an explicit scheduling point of the harness.
func Yield(label string) { Point(KYield, nil, label) }

// Point is called by shims before a visible operation of the running thread.
func Point(k Kind, obj any, label string) {
	e := cur
	if e == nil || quiet > 0 {
		return
	}
	t := e.running
	if CheckGoid && t != nil && t.goid.Load() != goid() {
		// an unmanaged goroutine touched a hooked object: harness error, not a verdict
		fmt.Printf("HARNESS-ERROR: hooked op %s %s reached from unmanaged goroutine\n%s\n", k, label, debug.Stack())
		panic("sched: unmanaged goroutine")
	}
	if e.aborted {
		return
	}
	t.kind, t.obj, t.label = k, obj, label
	if TraceCallers {
		t.where = label + " @ " + callerOutsideVerif()
	}
	e.schedule(t)
}

// Go spawns fn as a scheduled thread (or a plain goroutine when detached).
func Go(fn func()) {
	e := cur
	if e == nil {
		go fn()
		return
	}
	if e.aborted {
		return
	}
	e.spawn(fn)
}

func (e *Exec) spawn(fn func()) *thread {
	t := &thread{id: len(e.threads), wake: make(chan bool, 1), kind: KStart}
	e.threads = append(e.threads, t)
	e.wg.Add(1)
	go func() {
		defer e.wg.Done()
		t.goid.Store(goid())
		if ok := <-t.wake; !ok {
			t.done = true
			return
		}
		defer func() {
			r := recover()
			t.done = true
			if r != nil {
				if _, ok := r.(abortSignal); ok {
					return
				}
				if !e.aborted {
					e.res.Panic = r
					e.res.Stack = string(debug.Stack())
					e.abort("panic")
				}
				return
			}
			if e.aborted {
				return
			}
			e.schedule(t)
		}()
		fn()
	}()
	return t
}

func (e *Exec) objID(o any) int {
	if o == nil {
		return -1
	}
	if id, ok := e.objIDs[o]; ok {
		return id
	}
	id := len(e.objIDs)
	e.objIDs[o] = id
	return id
}

func (e *Exec) canRun(t *thread) bool {
	if t.done {
		return false
	}
	if b, ok := t.obj.(Blocker); ok && t.kind != KStart {
		return b.CanProceed(t.kind)
	}
	return true
}

// abort ends the execution: every parked thread is woken with false and unwinds.
func (e *Exec) abort(why string) {
	if e.aborted {
		return
	}
	e.aborted = true
	e.res.Abort = why
	for _, t := range e.threads {
		if t != e.running && !t.done {
			t.wake <- false
		}
	}
	if !e.closed {
		e.closed = true
		close(e.finished)
	}
}

func (e *Exec) schedule(from *thread) {
	e.steps++
	if e.steps > e.maxSteps {
		e.abort("livelock")
		panic(abortSignal{})
	}
	var en []int
	fromReady := false
	if from != nil && e.canRun(from) {
		en = append(en, from.id)
		fromReady = true
	}
	for _, t := range e.threads {
		if t != from && e.canRun(t) {
			en = append(en, t.id)
		}
	}
	if len(en) == 0 {
		all := true
		for _, t := range e.threads {
			if !t.done {
				all = false
			}
		}
		if all {
			if !e.closed {
				e.closed = true
				close(e.finished)
			}
			return
		}
		e.abort("deadlock")
		if from != nil && !from.done {
			panic(abortSignal{})
		}
		return
	}
	fid := -1
	sig := ""
	if from != nil {
		fid = from.id
		sig = fmt.Sprintf("%d:%s:%d:%v", from.id, from.kind, e.objID(from.obj), en)
		if from.done {
			sig = fmt.Sprintf("%d:exit:%v", from.id, en)
		}
	}
	pos := len(e.res.Points)
	choice := 0
	if pos < len(e.prefix) {
		choice = e.prefix[pos]
		if choice >= len(en) || (pos < len(e.expect) && e.expect[pos] != sig) {
			want := ""
			if pos < len(e.expect) {
				want = e.expect[pos]
			}
			e.abort(fmt.Sprintf("nondeterminism: at point %d got %q want %q choice %d", pos, sig, want, choice))
			if from != nil && !from.done {
				panic(abortSignal{})
			}
			return
		}
	}
	if fromReady && choice != 0 {
		e.res.Preempts++
	}
	wh := ""
	if from != nil {
		wh = from.where
		if from.done {
			wh = "exit"
		}
	}
	e.res.Points = append(e.res.Points, PointRec{From: fid, Enabled: en, Chosen: choice, FromStillReady: fromReady, Sig: sig, Where: wh})
	e.res.Choices = append(e.res.Choices, choice)
	next := e.threads[en[choice]]
	if next == from {
		return
	}
	e.running = next
	next.wake <- true
	if from != nil && !from.done {
		if ok := <-from.wake; !ok {
			panic(abortSignal{})
		}
	}
}

// Run executes threads under the scheduler following prefix, then choice 0. expect (optional) holds the
// point signatures of the parent execution for the determinism check.
func Run(prefix []int, expect []string, maxSteps int, threads []func()) *Result {
	if maxSteps == 0 {
		maxSteps = 100000
	}
	e := &Exec{objIDs: map[any]int{}, finished: make(chan struct{}), res: &Result{}, prefix: prefix, expect: expect, maxSteps: maxSteps}
	cur = e
	for _, fn := range threads {
		e.spawn(fn)
	}
	for _, t := range e.threads {
		for t.goid.Load() == 0 {
			runtime.Gosched()
		}
	}
	e.schedule(nil)
	<-e.finished
	e.wg.Wait()
	cur = nil
	return e.res
}

var (
	ownMu    sync.Mutex
	ownOwner atomic.Int64
)

// Own runs f, which touches only the harness's own bookkeeping (expected values, violation sets, counters shared by
// thread bodies). Attached it is a plain call: the cooperative scheduler runs one thread at a time. Detached — the
// free-running race pass — the bookkeeping of concurrently running bodies is serialised by one re-entrant mutex, so
// that the race detector reports the repository's unsynchronised accesses and not the harness's.
func Own(f func()) {
	if cur != nil {
		f()
		return
	}
	g := goid()
	if ownOwner.Load() == g {
		f()
		return
	}
	ownMu.Lock()
	ownOwner.Store(g)
	defer func() {
		ownOwner.Store(0)
		ownMu.Unlock()
	}()
	f()
}

// FreeRun runs the thread bodies of one harness instance as plain goroutines with the scheduler detached: every hooked
// primitive is the real one, so a binary built with -race sees exactly the synchronisation the repository performs.
// (Under the controlled scheduler every hand-off is a happens-before edge and the detector is blind.) Panics of the
// bodies are returned, not judged: this pass samples schedules and decides nothing but data races.
func FreeRun(threads []func()) []string {
	if cur != nil {
		panic("sched: FreeRun while attached")
	}
	var (
		wg     sync.WaitGroup
		mu     sync.Mutex
		panics []string
	)
	start := make(chan struct{})
	for _, fn := range threads {
		wg.Add(1)
		go func() {
			defer wg.Done()
			defer func() {
				if p := recover(); p != nil {
					mu.Lock()
					panics = append(panics, fmt.Sprint(p))
					mu.Unlock()
				}
			}()
			<-start
			fn()
		}()
	}
	close(start)
	wg.Wait()
	return panics
}
