//go:build linux

// Package vunix is the logging pass-through for the subset of golang.org/x/sys/unix that pkg/fs uses (see vos).
package vunix

import (
	"golang.org/x/sys/unix"

	"github.com/apache/skywalking-banyandb/pkg/verif/vos"
)

// Constants used by pkg/fs.
const (
	LOCK_EX       = unix.LOCK_EX
	LOCK_NB       = unix.LOCK_NB
	FADV_DONTNEED = unix.FADV_DONTNEED
)

// Flock is unix.Flock (no durable effect, not logged).
func Flock(fd int, how int) error { return unix.Flock(fd, how) }

// Fadvise is unix.Fadvise (no durable effect, not logged).
func Fadvise(fd int, offset int64, length int64, advice int) error {
	return unix.Fadvise(fd, offset, length, advice)
}

// Fdatasync is unix.Fdatasync; logged as fdatasync(handle).
func Fdatasync(fd int) error {
	err := unix.Fdatasync(fd)
	if err == nil {
		vos.VerifFdatasync(fd)
	}
	return err
}
