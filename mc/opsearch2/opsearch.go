// Package opsearch2 is Engine O: explicit-state breadth-first search over operation histories.
//
// A state is identified by a canonical digest that the model reads back from the implementation; it is represented by
// the shortest (first found) history that reaches it. Successors are produced by the model's Expander, which replays the
// history on a fresh real instance for every successor and applies one more real operation. The engine owns levels,
// sharding over worker subprocesses (par), deduplication, counting and violation collection. Nothing is sampled: every
// successor of every distinct state up to the depth bound is executed.
package opsearch2

import (
	"bufio"
	"crypto/sha256"
	"encoding/binary"
	"encoding/hex"
	"encoding/json"
	"fmt"
	"os"
	"path/filepath"
	"sort"
	"strconv"

	"github.com/apache/skywalking-banyandb/pkg/verif/par"
)

// Item is one state to expand.
type Item struct {
	Hist []string        `json:"h"`
	Info json.RawMessage `json:"i,omitempty"` // model-defined summary of the state (lets the model list applicable ops)
}

// Viol is one oracle failure found while producing a successor.
type Viol struct {
	Key    string `json:"key"`
	Detail any    `json:"detail,omitempty"`
}

// Succ is one executed transition.
type Succ struct {
	Op         string          // the operation appended to the history
	State      string          // canonical state text (hashed by the engine); "" = transition executed, successor not a state (never expanded)
	Info       json.RawMessage // summary for the successor item
	Viol       []Viol
	Outcome    string // observed-outcome class, for the vacuity statistics
	Nontrivial bool   // whether this transition is non-trivial by the model's rule
	NoExpand   bool   // do not expand the successor (model-side bound reached)
}

// Expander executes every applicable operation after it.Hist (each on a fresh instance) and returns the transitions.
type Expander func(it Item) []Succ

// Config bounds one search.
type Config struct {
	Name     string // scratch-dir prefix
	MaxDepth int    // histories up to this many operations
	Workers  int
	Cleanup  func() // called in a worker subprocess before it exits
}

// Stats is what the search covered.
type Stats struct {
	States           int            `json:"states"`
	Transitions      int            `json:"transitions"`
	StatesPerLevel   []int          `json:"states_per_level"`
	TransPerLevel    []int          `json:"transitions_per_level"`
	Outcomes         map[string]int `json:"outcomes"`
	Nontrivial       int            `json:"nontrivial_transitions"`
	DedupRatio       float64        `json:"dedup_ratio"`
	MaxDepth         int            `json:"max_depth"`
	Violations       []FoundViol    `json:"-"`
	ViolationsByKey  map[string]int `json:"violations_by_key,omitempty"`
	SampleHistories  [][]string     `json:"sample_histories"`
	DistinctOutcomes int            `json:"distinct_outcomes"`
}

// FoundViol is a violation with the history that exhibits it (first = shortest per key).
type FoundViol struct {
	Key    string   `json:"key"`
	Hist   []string `json:"hist"`
	Detail any      `json:"detail,omitempty"`
}

type workerOut struct {
	Transitions int            `json:"t"`
	Nontrivial  int            `json:"n"`
	Outcomes    map[string]int `json:"o"`
	Viol        []FoundViol    `json:"v"`
	ViolCount   map[string]int `json:"vc"`
	Err         string         `json:"err,omitempty"`
}

func digest(s string) [32]byte { return sha256.Sum256([]byte(s)) }

// Run performs the search (driver) or one shard of one level (worker subprocess; never returns).
func Run(cfg Config, expand Expander) Stats {
	if wi, wn, ok := par.Worker(); ok {
		if os.Getenv("OPSEARCH_NAME") != cfg.Name {
			return Stats{} // a worker of another search of the same binary
		}
		worker(wi, wn, cfg, expand)
		if cfg.Cleanup != nil {
			cfg.Cleanup()
		}
		os.Exit(0)
	}
	base, err := os.MkdirTemp("/dev/shm", cfg.Name+"-bfs-")
	if err != nil {
		panic(err)
	}
	defer os.RemoveAll(base)
	st := Stats{Outcomes: map[string]int{}, ViolationsByKey: map[string]int{}, MaxDepth: cfg.MaxDepth}
	seen := map[[16]byte]struct{}{}
	frontier := []Item{{}}
	var rootKey [16]byte
	seen[rootKey] = struct{}{} // placeholder for the initial (empty) state; real digests never collide with zero in practice
	st.States = 1
	st.StatesPerLevel = append(st.StatesPerLevel, 1)
	firstViol := map[string]bool{}
	for depth := 0; depth < cfg.MaxDepth && len(frontier) > 0; depth++ {
		ff := filepath.Join(base, fmt.Sprintf("frontier-%d.jsonl", depth))
		f, err := os.Create(ff)
		if err != nil {
			panic(err)
		}
		w := bufio.NewWriter(f)
		enc := json.NewEncoder(w)
		for i := range frontier {
			if err := enc.Encode(&frontier[i]); err != nil {
				panic(err)
			}
		}
		_ = w.Flush()
		_ = f.Close()
		last := depth == cfg.MaxDepth-1
		// small levels do not pay for 16 process start-ups
		nw := (len(frontier) + 15) / 16
		if nw > cfg.Workers {
			nw = cfg.Workers
		}
		if nw < 1 {
			nw = 1
		}
		outDir := filepath.Join(base, fmt.Sprintf("out-%d", depth))
		_ = os.MkdirAll(outDir, 0o755)
		env := []string{"OPSEARCH_NAME=" + cfg.Name, "OPSEARCH_FRONTIER=" + ff, "OPSEARCH_OUT=" + outDir, "OPSEARCH_LAST=" + strconv.FormatBool(last)}
		results, perr := par.Run(nw, env...)
		if perr != nil {
			fmt.Println("HARNESS-ERROR:", perr)
			os.Exit(2)
		}
		if len(results) != nw {
			fmt.Printf("HARNESS-ERROR: %d of %d workers reported\n", len(results), nw)
			os.Exit(2)
		}
		levelTrans := 0
		for _, b := range results {
			var wo workerOut
			if err := json.Unmarshal(b, &wo); err != nil {
				fmt.Println("HARNESS-ERROR: bad worker result:", err)
				os.Exit(2)
			}
			if wo.Err != "" {
				fmt.Println("HARNESS-ERROR:", wo.Err)
				os.Exit(2)
			}
			levelTrans += wo.Transitions
			st.Nontrivial += wo.Nontrivial
			for k, v := range wo.Outcomes {
				st.Outcomes[k] += v
			}
			for k, v := range wo.ViolCount {
				st.ViolationsByKey[k] += v
			}
			for _, v := range wo.Viol {
				if !firstViol[v.Key] {
					firstViol[v.Key] = true
					st.Violations = append(st.Violations, v)
				}
			}
		}
		st.Transitions += levelTrans
		st.TransPerLevel = append(st.TransPerLevel, levelTrans)
		// merge successor states
		var next []Item
		newStates := 0
		for wi := 0; wi < nw; wi++ {
			// states to expand (with history)
			if !last {
				fn := filepath.Join(outDir, fmt.Sprintf("succ-%d.jsonl", wi))
				sf, err := os.Open(fn)
				if err != nil {
					panic(err)
				}
				sc := bufio.NewScanner(sf)
				sc.Buffer(make([]byte, 1<<20), 1<<28)
				for sc.Scan() {
					var rec struct {
						D string `json:"d"`
						X bool   `json:"x"`
						Item
					}
					if err := json.Unmarshal(sc.Bytes(), &rec); err != nil {
						panic(err)
					}
					var k [16]byte
					raw, _ := hex.DecodeString(rec.D)
					copy(k[:], raw)
					if _, dup := seen[k]; dup {
						continue
					}
					seen[k] = struct{}{}
					newStates++
					if !rec.X {
						next = append(next, rec.Item)
					}
				}
				_ = sf.Close()
			} else {
				fn := filepath.Join(outDir, fmt.Sprintf("hash-%d.bin", wi))
				hb, err := os.ReadFile(fn)
				if err != nil {
					panic(err)
				}
				for o := 0; o+16 <= len(hb); o += 16 {
					var k [16]byte
					copy(k[:], hb[o:o+16])
					if _, dup := seen[k]; dup {
						continue
					}
					seen[k] = struct{}{}
					newStates++
				}
			}
		}
		_ = os.RemoveAll(outDir)
		_ = os.Remove(ff)
		st.States += newStates
		st.StatesPerLevel = append(st.StatesPerLevel, newStates)
		// deterministic order of the next frontier (workers finish in any order, but files are read by index)
		sort.SliceStable(next, func(i, j int) bool { return lessHist(next[i].Hist, next[j].Hist) })
		if len(st.SampleHistories) < 8 && len(next) > 0 {
			st.SampleHistories = append(st.SampleHistories, next[len(next)/2].Hist)
		}
		fmt.Printf("  level %d: expanded %d states, %d transitions, %d new states\n", depth, len(frontier), levelTrans, newStates)
		frontier = next
	}
	if st.Transitions > 0 {
		st.DedupRatio = float64(st.States-1) / float64(st.Transitions)
	}
	st.DistinctOutcomes = len(st.Outcomes)
	sort.Slice(st.Violations, func(i, j int) bool { return st.Violations[i].Key < st.Violations[j].Key })
	return st
}

func lessHist(a, b []string) bool {
	for i := 0; i < len(a) && i < len(b); i++ {
		if a[i] != b[i] {
			return a[i] < b[i]
		}
	}
	return len(a) < len(b)
}

func worker(wi, wn int, cfg Config, expand Expander) {
	out := workerOut{Outcomes: map[string]int{}, ViolCount: map[string]int{}}
	defer func() {
		if r := recover(); r != nil {
			out.Err = fmt.Sprintf("worker %d panic: %v", wi, r)
			b, _ := json.Marshal(out)
			par.Emit(b)
			if cfg.Cleanup != nil {
				cfg.Cleanup()
			}
			os.Exit(0)
		}
	}()
	ff, outDir := os.Getenv("OPSEARCH_FRONTIER"), os.Getenv("OPSEARCH_OUT")
	last := os.Getenv("OPSEARCH_LAST") == "true"
	f, err := os.Open(ff)
	if err != nil {
		panic(err)
	}
	defer f.Close()
	var sw *bufio.Writer
	if last {
		of, err := os.Create(filepath.Join(outDir, fmt.Sprintf("hash-%d.bin", wi)))
		if err != nil {
			panic(err)
		}
		defer of.Close()
		sw = bufio.NewWriter(of)
	} else {
		of, err := os.Create(filepath.Join(outDir, fmt.Sprintf("succ-%d.jsonl", wi)))
		if err != nil {
			panic(err)
		}
		defer of.Close()
		sw = bufio.NewWriter(of)
	}
	defer sw.Flush()
	local := map[[16]byte]struct{}{}
	seenViol := map[string]bool{}
	sc := bufio.NewScanner(f)
	sc.Buffer(make([]byte, 1<<20), 1<<28)
	idx := -1
	for sc.Scan() {
		idx++
		if idx%wn != wi {
			continue
		}
		var it Item
		if err := json.Unmarshal(sc.Bytes(), &it); err != nil {
			panic(err)
		}
		for _, s := range expand(it) {
			out.Transitions++
			if s.Nontrivial {
				out.Nontrivial++
			}
			out.Outcomes[s.Outcome]++
			h := append(append([]string(nil), it.Hist...), s.Op)
			for _, v := range s.Viol {
				out.ViolCount[v.Key]++
				if !seenViol[v.Key] {
					seenViol[v.Key] = true
					out.Viol = append(out.Viol, FoundViol{Key: v.Key, Hist: h, Detail: v.Detail})
				}
			}
			if s.State == "" {
				continue
			}
			d := digest(s.State)
			var k [16]byte
			copy(k[:], d[:16])
			if _, dup := local[k]; dup {
				continue
			}
			local[k] = struct{}{}
			if last {
				_, _ = sw.Write(k[:])
				continue
			}
			rec := struct {
				D string `json:"d"`
				X bool   `json:"x,omitempty"`
				Item
			}{D: hex.EncodeToString(k[:]), X: s.NoExpand, Item: Item{Hist: h, Info: s.Info}}
			b, _ := json.Marshal(rec)
			_, _ = sw.Write(b)
			_ = sw.WriteByte('\n')
		}
	}
	b, _ := json.Marshal(out)
	par.Emit(b)
}

// Hash64 is a helper for models that want a short stable id of a string.
func Hash64(s string) uint64 {
	d := digest(s)
	return binary.BigEndian.Uint64(d[:8])
}
