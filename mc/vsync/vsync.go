// Package vsync mirrors the parts of package sync the repository uses. Detached (no controlled execution
// attached) every type behaves exactly like the original; attached, blocking and ordering are decided by
// pkg/verif/sched on model state and the real primitives are not touched.
package vsync

import (
	"sync"

	"github.com/apache/skywalking-banyandb/pkg/verif/sched"
)

// Pass-through types without scheduling relevance.
type (
	// Pool is sync.Pool.
	Pool = sync.Pool
	// Map is sync.Map.
	Map = sync.Map
	// Locker is sync.Locker.
	Locker = sync.Locker
)

// Mutex is a hooked sync.Mutex.
type Mutex struct {
	real sync.Mutex
	held bool
}

// CanProceed implements sched.Blocker.
func (m *Mutex) CanProceed(sched.Kind) bool { return !m.held }

// Lock locks m.
func (m *Mutex) Lock() {
	if !sched.Active() {
		m.real.Lock()
		return
	}
	sched.Point(sched.KLock, m, "Mutex.Lock")
	m.held = true
}

// TryLock tries to lock m.
func (m *Mutex) TryLock() bool {
	if !sched.Active() {
		return m.real.TryLock()
	}
	sched.Point(sched.KYield, nil, "Mutex.TryLock")
	if m.held {
		return false
	}
	m.held = true
	return true
}

// Unlock unlocks m.
func (m *Mutex) Unlock() {
	if !sched.Active() {
		m.real.Unlock()
		return
	}
	if !m.held {
		panic("vsync: unlock of unlocked mutex")
	}
	m.held = false
}

// RWMutex is a hooked sync.RWMutex.
type RWMutex struct {
	real    sync.RWMutex
	readers int
	writer  bool
}

// CanProceed implements sched.Blocker.
func (m *RWMutex) CanProceed(k sched.Kind) bool {
	if k == sched.KRLock {
		return !m.writer
	}
	return !m.writer && m.readers == 0
}

// Lock takes the write lock.
func (m *RWMutex) Lock() {
	if !sched.Active() {
		m.real.Lock()
		return
	}
	sched.Point(sched.KLock, m, "RWMutex.Lock")
	m.writer = true
}

// Unlock releases the write lock.
func (m *RWMutex) Unlock() {
	if !sched.Active() {
		m.real.Unlock()
		return
	}
	if !m.writer {
		panic("vsync: unlock of unlocked rwmutex")
	}
	m.writer = false
}

// RLock takes a read lock.
func (m *RWMutex) RLock() {
	if !sched.Active() {
		m.real.RLock()
		return
	}
	sched.Point(sched.KRLock, m, "RWMutex.RLock")
	m.readers++
}

// RUnlock releases a read lock.
func (m *RWMutex) RUnlock() {
	if !sched.Active() {
		m.real.RUnlock()
		return
	}
	if m.readers <= 0 {
		panic("vsync: runlock of unlocked rwmutex")
	}
	m.readers--
}

// TryLock tries the write lock.
func (m *RWMutex) TryLock() bool {
	if !sched.Active() {
		return m.real.TryLock()
	}
	sched.Point(sched.KYield, nil, "RWMutex.TryLock")
	if m.writer || m.readers > 0 {
		return false
	}
	m.writer = true
	return true
}

// TryRLock tries the read lock. (Detached it is the real one, which fails while a writer is queued; the model has no
// writer queue, so attached it fails only while a writer holds the lock.)
func (m *RWMutex) TryRLock() bool {
	if !sched.Active() {
		return m.real.TryRLock()
	}
	sched.Point(sched.KYield, nil, "RWMutex.TryRLock")
	if m.writer {
		return false
	}
	m.readers++
	return true
}

// RLocker returns a Locker for the read side.
func (m *RWMutex) RLocker() sync.Locker { return (*rlocker)(m) }

type rlocker RWMutex

func (r *rlocker) Lock()   { (*RWMutex)(r).RLock() }
func (r *rlocker) Unlock() { (*RWMutex)(r).RUnlock() }

// WaitGroup is a hooked sync.WaitGroup.
type WaitGroup struct {
	real sync.WaitGroup
	n    int
}

// CanProceed implements sched.Blocker.
func (w *WaitGroup) CanProceed(sched.Kind) bool { return w.n == 0 }

// Add adds delta.
func (w *WaitGroup) Add(delta int) {
	if !sched.Active() {
		w.real.Add(delta)
		return
	}
	w.n += delta
	if w.n < 0 {
		panic("vsync: negative WaitGroup counter")
	}
}

// Done decrements.
func (w *WaitGroup) Done() { w.Add(-1) }

// Go runs f in a scheduled thread.
func (w *WaitGroup) Go(f func()) {
	w.Add(1)
	sched.Go(func() {
		defer w.Done()
		f()
	})
}

// Wait waits for zero.
func (w *WaitGroup) Wait() {
	if !sched.Active() {
		w.real.Wait()
		return
	}
	sched.Point(sched.KWait, w, "WaitGroup.Wait")
}

// Once is a hooked sync.Once.
type Once struct {
	real    sync.Once
	done    bool
	running bool
}

// CanProceed implements sched.Blocker.
func (o *Once) CanProceed(sched.Kind) bool { return !o.running }

// Do runs f once.
func (o *Once) Do(f func()) {
	if !sched.Active() {
		o.real.Do(func() { o.done = true; f() })
		return
	}
	sched.Point(sched.KOnce, o, "Once.Do")
	if o.done {
		return
	}
	o.running = true
	defer func() { o.done = true; o.running = false }()
	f()
}

// OnceFunc mirrors sync.OnceFunc.
func OnceFunc(f func()) func() {
	var o Once
	return func() { o.Do(f) }
}

// NewCond is not modelled; code that needs it is not driven under the scheduler.
func NewCond(l sync.Locker) *sync.Cond { return sync.NewCond(l) }
