// Package ev is the reporting side of every /verif check: evidence file, replay artefacts, known findings.
package ev

import (
	"encoding/json"
	"fmt"
	"os"
	"path/filepath"
	"regexp"
	"sort"
	"strconv"
	"sync"
	"time"
)

// Run accumulates what one check run covered.
type Run struct {
	mu          sync.Mutex
	ID          string
	Tier        string
	Seed        int
	Level       string
	start       time.Time
	Cov         map[string]any
	Assumptions []string
	violations  int
	knownHit    map[string]int
	samples     []any
	findings    []finding
	seenKeys    map[string]bool
	Exhaustive  bool
	// replayKey != "": whole-run replay mode (cheap checks): the enumeration runs as usual, nothing is written, and the
	// run exits 1 iff a violation with exactly this key is raised again.
	replayKey  string
	replaySeen bool
}

type finding struct {
	Property string `json:"property"`
	Status   string `json:"status"` // open | fixed
	Match    string `json:"match"`  // regexp over the violation key
	Commit   string `json:"commit,omitempty"`
	What     string `json:"what"`
	re       *regexp.Regexp
}

// Dir is /verif (or VERIF_DIR).
func Dir() string {
	if d := os.Getenv("VERIF_DIR"); d != "" {
		return d
	}
	return "/verif"
}

// outDir is where evidence/ and replays/ live: /verif, or build/scratch when VERIF_NOEVIDENCE is set (mutation runs
// must not overwrite the evidence of the unchanged tree).
func outDir() string {
	if os.Getenv("VERIF_NOEVIDENCE") != "" {
		return filepath.Join(Dir(), "build", "scratch")
	}
	return Dir()
}

// Tier returns quick|thorough.
func Tier() string {
	t := os.Getenv("VERIF_TIER")
	for i, a := range os.Args {
		if a == "--tier" && i+1 < len(os.Args) {
			t = os.Args[i+1]
		}
	}
	if t != "thorough" {
		t = "quick"
	}
	return t
}

// Thorough reports whether the thorough tier was requested.
func Thorough() bool { return Tier() == "thorough" }

// Arg returns the value following flag name in os.Args, or "".
func Arg(name string) string {
	for i, a := range os.Args {
		if a == name && i+1 < len(os.Args) {
			return os.Args[i+1]
		}
	}
	return ""
}

// New starts a run.
func New(id, level string) *Run {
	seed, _ := strconv.Atoi(os.Getenv("VERIF_SEED"))
	r := &Run{ID: id, Tier: Tier(), Seed: seed, Level: level, start: time.Now(), Cov: map[string]any{}, knownHit: map[string]int{}, seenKeys: map[string]bool{}, Exhaustive: true}
	b, err := os.ReadFile(filepath.Join(Dir(), "known_findings.json"))
	if err == nil {
		var kf struct {
			Findings []finding `json:"findings"`
		}
		if err := json.Unmarshal(b, &kf); err != nil {
			fmt.Fprintln(os.Stderr, "known_findings.json:", err)
			os.Exit(2)
		}
		for _, f := range kf.Findings {
			if f.Property == id && f.Status == "open" {
				f.re = regexp.MustCompile(f.Match)
				r.findings = append(r.findings, f)
			}
		}
	}
	return r
}

// Sample records an actual explored case (first 8 kept).
func (r *Run) Sample(s any) {
	r.mu.Lock()
	defer r.mu.Unlock()
	if len(r.samples) < 8 {
		r.samples = append(r.samples, s)
	}
}

// Add adds n to an integer coverage counter.
func (r *Run) Add(key string, n int) {
	r.mu.Lock()
	defer r.mu.Unlock()
	c, _ := r.Cov[key].(int)
	r.Cov[key] = c + n
}

// Set sets a coverage key.
func (r *Run) Set(key string, v any) {
	r.mu.Lock()
	defer r.mu.Unlock()
	r.Cov[key] = v
}

// Assume records an assumption.
func (r *Run) Assume(s string) { r.Assumptions = append(r.Assumptions, s) }

// NotExhaustive marks that a cap or deadline was hit.
func (r *Run) NotExhaustive(why string) {
	r.mu.Lock()
	defer r.mu.Unlock()
	r.Exhaustive = false
	caps, _ := r.Cov["caps_hit"].([]string)
	r.Cov["caps_hit"] = append(caps, why)
}

// ReplayWholeRun switches the run into whole-run replay mode for the artefact at path (see replayKey).
func (r *Run) ReplayWholeRun(path string) {
	b, err := os.ReadFile(path)
	if err != nil {
		fmt.Fprintln(os.Stderr, "replay:", err)
		os.Exit(2)
	}
	var a struct {
		Key string `json:"key"`
	}
	if err := json.Unmarshal(b, &a); err != nil || a.Key == "" {
		fmt.Fprintln(os.Stderr, "replay: artefact has no key")
		os.Exit(2)
	}
	r.replayKey = a.Key
}

// Violation reports one violation class. key identifies the failing call site/shape (matched against
// known_findings.json); artefact is the replayable case. Returns true if it counted as a new violation.
func (r *Run) Violation(key string, artefact any) bool {
	r.mu.Lock()
	defer r.mu.Unlock()
	if r.replayKey != "" {
		if key == r.replayKey {
			r.replaySeen = true
		}
		return false
	}
	for _, f := range r.findings {
		if f.re.MatchString(key) {
			r.knownHit[f.Match+"\x00"+f.What]++
			return false
		}
	}
	if r.seenKeys[key] {
		r.violations++
		return true
	}
	r.seenKeys[key] = true
	r.violations++
	dir := filepath.Join(outDir(), "replays", r.ID)
	_ = os.MkdirAll(dir, 0o755)
	p := filepath.Join(dir, fmt.Sprintf("%d.json", len(r.seenKeys)))
	b, _ := json.MarshalIndent(map[string]any{"property": r.ID, "key": key, "artefact": artefact}, "", " ")
	if len(r.seenKeys) <= 40 {
		_ = os.WriteFile(p, b, 0o644)
		fmt.Printf("VIOLATION property=%s replay=%s\n", r.ID, p)
		fmt.Printf("  key: %s\n", key)
	} else if len(r.seenKeys) == 41 {
		fmt.Println("  (further distinct violations are counted but not printed)")
	}
	return true
}

// Violations so far (not counting known findings).
func (r *Run) Violations() int { r.mu.Lock(); defer r.mu.Unlock(); return r.violations }

// Finish writes the evidence file and exits 0/1.
func (r *Run) Finish() {
	if r.replayKey != "" {
		if r.replaySeen {
			fmt.Printf("replay: still fails: %s\n", r.replayKey)
			os.Exit(1)
		}
		fmt.Printf("replay: no longer fails: %s\n", r.replayKey)
		os.Exit(0)
	}
	r.mu.Lock()
	keys := make([]string, 0, len(r.knownHit))
	for k := range r.knownHit {
		keys = append(keys, k)
	}
	sort.Strings(keys)
	var known []string
	for _, k := range keys {
		var m, w string
		for i := 0; i < len(k); i++ {
			if k[i] == 0 {
				m, w = k[:i], k[i+1:]
			}
		}
		fmt.Printf("KNOWN-FINDING: property=%s %s (matched %d cases of /%s/)\n", r.ID, w, r.knownHit[k], m)
		known = append(known, w)
	}
	if len(known) > 0 {
		r.Cov["known_findings_hit"] = known
	}
	if _, ok := r.Cov["samples"]; !ok {
		r.Cov["samples"] = r.samples
	}
	r.Cov["exhaustive"] = r.Exhaustive
	out := map[string]any{
		"property_id": r.ID, "tier": r.Tier, "seed": r.Seed, "level": r.Level, "coverage": r.Cov,
		"assumptions": r.Assumptions, "wall_s": time.Since(r.start).Seconds(), "violations": r.violations,
	}
	if r.Assumptions == nil {
		out["assumptions"] = []string{}
	}
	dir := filepath.Join(outDir(), "evidence")
	_ = os.MkdirAll(dir, 0o755)
	b, _ := json.MarshalIndent(out, "", " ")
	if err := os.WriteFile(filepath.Join(dir, r.ID+".json"), b, 0o644); err != nil {
		fmt.Fprintln(os.Stderr, "evidence:", err)
		os.Exit(2)
	}
	v := r.violations
	r.mu.Unlock()
	fmt.Printf("%s tier=%s violations=%d exhaustive=%v wall=%.1fs\n", r.ID, r.Tier, v, r.Exhaustive, time.Since(r.start).Seconds())
	if v > 0 {
		os.Exit(1)
	}
	os.Exit(0)
}
