// Package racep runs the -race build of a scheduler check in its free-running phase and turns the race detector's
// reports into violation keys. It is the companion of pkg/verif/sched: the controlled scheduler decides ordering and
// atomicity at hooked synchronisation operations and is blind to unsynchronised accesses (its hand-offs are
// happens-before edges); this pass runs the same thread bodies detached, with the real primitives, under the Go race
// detector. It samples schedules and decides nothing but "the detector saw a data race between two repository
// accesses".
package racep

import (
	"encoding/json"
	"fmt"
	"os"
	"os/exec"
	"path/filepath"
	"sort"
	"strings"
	"time"

	"github.com/apache/skywalking-banyandb/pkg/verif/ev"
	"github.com/apache/skywalking-banyandb/pkg/verif/sched"
)

const mod = "github.com/apache/skywalking-banyandb/"

// Report is one deduplicated data race between two accesses in repository code.
type Report struct {
	Key   string `json:"key"`
	Text  string `json:"text"`
	Count int    `json:"count"`
}

// Stats describes what the pass did.
type Stats struct {
	Raw     int `json:"raw_reports"`
	Harness int `json:"harness_only_reports_ignored"`
	Foreign int `json:"reports_outside_repository_ignored"`
}

type frame struct{ fn, file string }

func harnessFrame(f frame) bool {
	if strings.Contains(f.fn, "/verif/") {
		return true
	}
	b := filepath.Base(f.file)
	return strings.HasPrefix(b, "zz_verif_") || strings.Contains(f.file, "/verif/inpkg/") || strings.Contains(f.file, "/verif/checks/") || strings.Contains(f.file, "/verif/mc/")
}

// stackOf parses the frames of one access section of a report.
func stackOf(sec string) []frame {
	var out []frame
	ls := strings.Split(sec, "\n")
	for i := 1; i < len(ls); i++ {
		l := ls[i]
		if strings.HasPrefix(l, "  ") && !strings.HasPrefix(l, "   ") {
			f := frame{fn: strings.TrimSpace(l)}
			if i+1 < len(ls) && strings.HasPrefix(ls[i+1], "      ") {
				f.file = strings.TrimSpace(ls[i+1])
				if j := strings.LastIndex(f.file, " +0x"); j > 0 {
					f.file = f.file[:j]
				}
				i++
			}
			out = append(out, f)
		}
	}
	return out
}

func shortFn(fn string) string {
	if i := strings.LastIndex(fn, "("); i > 0 && strings.HasSuffix(fn, ")") {
		fn = fn[:i]
	}
	fn = strings.TrimPrefix(fn, mod)
	return strings.ReplaceAll(fn, "[...]", "")
}

// site names an access by its innermost frame: "" if that frame is not repository code, "H" if it is the harness.
func site(st []frame) string {
	if len(st) == 0 {
		return ""
	}
	// innermost frame that is not the Go runtime / standard library (runtime.mapassign, sync.(*Pool).Get, ...)
	for _, f := range st {
		if strings.HasPrefix(f.fn, "main.") {
			return "H"
		}
		first := f.fn
		if i := strings.Index(first, "/"); i >= 0 {
			first = first[:i]
		} else if i := strings.Index(first, "."); i >= 0 {
			first = first[:i]
		}
		if !strings.Contains(first, ".") {
			continue // standard library: look further out for who called it
		}
		if harnessFrame(f) {
			return "H"
		}
		if strings.HasPrefix(f.fn, mod) {
			return shortFn(f.fn)
		}
		return "" // third-party code
	}
	return ""
}

// Parse deduplicates the reports in text (the concatenated log files of the detector).
func Parse(text string) ([]Report, Stats) {
	var st Stats
	byKey := map[string]*Report{}
	for _, blk := range strings.Split(text, "==================") {
		if !strings.Contains(blk, "WARNING: DATA RACE") {
			continue
		}
		st.Raw++
		secs := strings.Split(strings.TrimSpace(blk), "\n\n")
		var acc [][]frame
		for _, s := range secs {
			s = strings.TrimPrefix(s, "WARNING: DATA RACE\n")
			h := strings.SplitN(s, "\n", 2)[0]
			if strings.Contains(h, " by goroutine ") || strings.Contains(h, " by main goroutine") {
				acc = append(acc, stackOf(s))
			}
		}
		if len(acc) < 2 {
			st.Foreign++
			continue
		}
		a, b := site(acc[0]), site(acc[1])
		if a == "H" || b == "H" {
			st.Harness++
			continue
		}
		if a == "" || b == "" {
			st.Foreign++
			continue
		}
		if b < a {
			a, b = b, a
		}
		k := fmt.Sprintf("data race: %s <-> %s", a, b)
		if r, ok := byKey[k]; ok {
			r.Count++
			continue
		}
		byKey[k] = &Report{Key: k, Text: strings.TrimSpace(blk), Count: 1}
	}
	out := make([]Report, 0, len(byKey))
	for _, r := range byKey {
		out = append(out, *r)
	}
	sort.Slice(out, func(i, j int) bool { return out[i].Key < out[j].Key })
	return out, st
}

// Run executes bin (the -race build) with args and VERIF_PHASE=race, collects the detector's log files from dir and
// parses them. The child's exit status is returned as err only if it is not a clean exit.
func Run(bin, dir string, args []string, extraEnv ...string) ([]Report, Stats, string, error) {
	_ = os.RemoveAll(dir)
	if err := os.MkdirAll(dir, 0o755); err != nil {
		return nil, Stats{}, "", err
	}
	cmd := exec.Command(bin, args...)
	cmd.Env = append(os.Environ(), "VERIF_PHASE=race", "VERIF_WORKER=", "GORACE=log_path="+filepath.Join(dir, "race")+" halt_on_error=0 exitcode=0 history_size=3")
	cmd.Env = append(cmd.Env, extraEnv...)
	out, err := cmd.CombinedOutput()
	var sb strings.Builder
	fs, _ := filepath.Glob(filepath.Join(dir, "race.*"))
	sort.Strings(fs)
	for _, f := range fs {
		b, _ := os.ReadFile(f)
		sb.Write(b)
		sb.WriteString("\n")
	}
	reps, st := Parse(sb.String())
	return reps, st, string(out), err
}

// Phase is the child side (the -race build started with VERIF_PHASE=race): for every scenario, iters fresh instances
// whose thread bodies run detached as plain goroutines. A body that never returns detached (it waits for a condition
// only the controlled scheduler provides) is abandoned after a minute and its scenario left.
func Phase(iters int, budget time.Duration, scenarios int, setup func(scenario int) sched.Harness) {
	deadline := time.Now().Add(budget)
	runs, panics, hung := 0, 0, 0
	for sc := 0; sc < scenarios; sc++ {
		for i := 0; i < iters && time.Now().Before(deadline); i++ {
			h := setup(sc)
			done := make(chan []string, 1)
			go func() { done <- sched.FreeRun(h.Threads) }()
			select {
			case ps := <-done:
				runs++
				panics += len(ps)
				if h.Cleanup != nil {
					h.Cleanup()
				}
			case <-time.After(60 * time.Second):
				hung++
				i = iters
			}
		}
	}
	fmt.Printf("RACE-PHASE scenarios=%d runs=%d panics=%d hung=%d\n", scenarios, runs, panics, hung)
}

// Pass is the parent side: if vcheck built a -race binary (check.json "race_pass": true → VERIF_RACE_BIN), run its
// free-running phase and report every data race between two repository accesses as a violation.
func Pass(r *ev.Run, cid string) {
	rb := os.Getenv("VERIF_RACE_BIN")
	if rb == "" {
		return
	}
	reps, st, out, err := Run(rb, filepath.Join("build", "scratch", "race-"+cid), os.Args[1:])
	i := strings.Index(out, "RACE-PHASE ")
	if err != nil || i < 0 {
		if len(out) > 2000 {
			out = out[len(out)-2000:]
		}
		fmt.Println("HARNESS-ERROR: race pass:", err, out)
		os.Exit(2)
	}
	line := strings.SplitN(out[i:], "\n", 2)[0]
	r.Set("race_pass", map[string]any{
		"what":  "free-running -race run of the same thread bodies (scheduler detached, real sync primitives); sampled schedules, decides only data races between repository accesses",
		"run":   line,
		"stats": st, "distinct_races_between_repository_accesses": len(reps),
	})
	for _, rep := range reps {
		r.Violation("race-pass: "+rep.Key, rep)
	}
}

// Replay handles --replay of a race-pass artefact: it runs the pass again (thorough iterations) and looks for the same
// pair of accesses. It returns false if b is not a race-pass artefact.
func Replay(b []byte, cid string) bool {
	var ra struct {
		Artefact Report `json:"artefact"`
	}
	if _ = json.Unmarshal(b, &ra); !strings.HasPrefix(ra.Artefact.Key, "data race:") {
		return false
	}
	reps, _, _, _ := Run(os.Getenv("VERIF_RACE_BIN"), filepath.Join("build", "scratch", "race-"+cid+"-replay"), nil, "VERIF_TIER=thorough")
	for _, rep := range reps {
		if rep.Key == ra.Artefact.Key {
			fmt.Println(rep.Text)
			fmt.Println("violations:", rep.Key)
			os.Exit(1)
		}
	}
	fmt.Println("race not observed in this run:", ra.Artefact.Key)
	return true
}
