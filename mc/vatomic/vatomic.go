// Package vatomic mirrors sync/atomic with a scheduling point before every operation.
package vatomic

import (
	"sync/atomic"
	"unsafe"

	"github.com/apache/skywalking-banyandb/pkg/verif/sched"
)

func pt(obj any, l string) {
	if sched.Active() {
		sched.Point(sched.KAtomic, obj, l)
	}
}

// Function forms.
func AddInt32(p *int32, d int32) int32      { pt(p, "AddInt32"); return atomic.AddInt32(p, d) }
func AddInt64(p *int64, d int64) int64      { pt(p, "AddInt64"); return atomic.AddInt64(p, d) }
func AddUint32(p *uint32, d uint32) uint32  { pt(p, "AddUint32"); return atomic.AddUint32(p, d) }
func AddUint64(p *uint64, d uint64) uint64  { pt(p, "AddUint64"); return atomic.AddUint64(p, d) }
func LoadInt32(p *int32) int32              { pt(p, "LoadInt32"); return atomic.LoadInt32(p) }
func LoadInt64(p *int64) int64              { pt(p, "LoadInt64"); return atomic.LoadInt64(p) }
func LoadUint32(p *uint32) uint32           { pt(p, "LoadUint32"); return atomic.LoadUint32(p) }
func LoadUint64(p *uint64) uint64           { pt(p, "LoadUint64"); return atomic.LoadUint64(p) }
func StoreInt32(p *int32, v int32)          { pt(p, "StoreInt32"); atomic.StoreInt32(p, v) }
func StoreInt64(p *int64, v int64)          { pt(p, "StoreInt64"); atomic.StoreInt64(p, v) }
func StoreUint32(p *uint32, v uint32)       { pt(p, "StoreUint32"); atomic.StoreUint32(p, v) }
func StoreUint64(p *uint64, v uint64)       { pt(p, "StoreUint64"); atomic.StoreUint64(p, v) }
func SwapInt32(p *int32, v int32) int32     { pt(p, "SwapInt32"); return atomic.SwapInt32(p, v) }
func SwapInt64(p *int64, v int64) int64     { pt(p, "SwapInt64"); return atomic.SwapInt64(p, v) }
func SwapUint32(p *uint32, v uint32) uint32 { pt(p, "SwapUint32"); return atomic.SwapUint32(p, v) }
func SwapUint64(p *uint64, v uint64) uint64 { pt(p, "SwapUint64"); return atomic.SwapUint64(p, v) }
func CompareAndSwapInt32(p *int32, o, n int32) bool {
	pt(p, "CASInt32")
	return atomic.CompareAndSwapInt32(p, o, n)
}
func CompareAndSwapInt64(p *int64, o, n int64) bool {
	pt(p, "CASInt64")
	return atomic.CompareAndSwapInt64(p, o, n)
}
func CompareAndSwapUint32(p *uint32, o, n uint32) bool {
	pt(p, "CASUint32")
	return atomic.CompareAndSwapUint32(p, o, n)
}
func CompareAndSwapUint64(p *uint64, o, n uint64) bool {
	pt(p, "CASUint64")
	return atomic.CompareAndSwapUint64(p, o, n)
}
func LoadPointer(p *unsafe.Pointer) unsafe.Pointer {
	pt(p, "LoadPointer")
	return atomic.LoadPointer(p)
}
func StorePointer(p *unsafe.Pointer, v unsafe.Pointer) {
	pt(p, "StorePointer")
	atomic.StorePointer(p, v)
}

// Int32 mirrors atomic.Int32.
type Int32 struct{ v atomic.Int32 }

func (x *Int32) Load() int32        { pt(x, "Int32.Load"); return x.v.Load() }
func (x *Int32) Store(v int32)      { pt(x, "Int32.Store"); x.v.Store(v) }
func (x *Int32) Add(d int32) int32  { pt(x, "Int32.Add"); return x.v.Add(d) }
func (x *Int32) Swap(v int32) int32 { pt(x, "Int32.Swap"); return x.v.Swap(v) }
func (x *Int32) CompareAndSwap(o, n int32) bool {
	pt(x, "Int32.CAS")
	return x.v.CompareAndSwap(o, n)
}

// Int64 mirrors atomic.Int64.
type Int64 struct{ v atomic.Int64 }

func (x *Int64) Load() int64        { pt(x, "Int64.Load"); return x.v.Load() }
func (x *Int64) Store(v int64)      { pt(x, "Int64.Store"); x.v.Store(v) }
func (x *Int64) Add(d int64) int64  { pt(x, "Int64.Add"); return x.v.Add(d) }
func (x *Int64) Swap(v int64) int64 { pt(x, "Int64.Swap"); return x.v.Swap(v) }
func (x *Int64) CompareAndSwap(o, n int64) bool {
	pt(x, "Int64.CAS")
	return x.v.CompareAndSwap(o, n)
}

// Uint32 mirrors atomic.Uint32.
type Uint32 struct{ v atomic.Uint32 }

func (x *Uint32) Load() uint32         { pt(x, "Uint32.Load"); return x.v.Load() }
func (x *Uint32) Store(v uint32)       { pt(x, "Uint32.Store"); x.v.Store(v) }
func (x *Uint32) Add(d uint32) uint32  { pt(x, "Uint32.Add"); return x.v.Add(d) }
func (x *Uint32) Swap(v uint32) uint32 { pt(x, "Uint32.Swap"); return x.v.Swap(v) }
func (x *Uint32) CompareAndSwap(o, n uint32) bool {
	pt(x, "Uint32.CAS")
	return x.v.CompareAndSwap(o, n)
}

// Uint64 mirrors atomic.Uint64.
type Uint64 struct{ v atomic.Uint64 }

func (x *Uint64) Load() uint64         { pt(x, "Uint64.Load"); return x.v.Load() }
func (x *Uint64) Store(v uint64)       { pt(x, "Uint64.Store"); x.v.Store(v) }
func (x *Uint64) Add(d uint64) uint64  { pt(x, "Uint64.Add"); return x.v.Add(d) }
func (x *Uint64) Swap(v uint64) uint64 { pt(x, "Uint64.Swap"); return x.v.Swap(v) }
func (x *Uint64) CompareAndSwap(o, n uint64) bool {
	pt(x, "Uint64.CAS")
	return x.v.CompareAndSwap(o, n)
}

// Bool mirrors atomic.Bool.
type Bool struct{ v atomic.Bool }

func (x *Bool) Load() bool       { pt(x, "Bool.Load"); return x.v.Load() }
func (x *Bool) Store(v bool)     { pt(x, "Bool.Store"); x.v.Store(v) }
func (x *Bool) Swap(v bool) bool { pt(x, "Bool.Swap"); return x.v.Swap(v) }
func (x *Bool) CompareAndSwap(o, n bool) bool {
	pt(x, "Bool.CAS")
	return x.v.CompareAndSwap(o, n)
}

// Value mirrors atomic.Value.
type Value struct{ v atomic.Value }

func (x *Value) Load() any      { pt(x, "Value.Load"); return x.v.Load() }
func (x *Value) Store(v any)    { pt(x, "Value.Store"); x.v.Store(v) }
func (x *Value) Swap(v any) any { pt(x, "Value.Swap"); return x.v.Swap(v) }
func (x *Value) CompareAndSwap(o, n any) bool {
	pt(x, "Value.CAS")
	return x.v.CompareAndSwap(o, n)
}

// Pointer mirrors atomic.Pointer.
type Pointer[T any] struct{ v atomic.Pointer[T] }

func (x *Pointer[T]) Load() *T     { pt(x, "Pointer.Load"); return x.v.Load() }
func (x *Pointer[T]) Store(v *T)   { pt(x, "Pointer.Store"); x.v.Store(v) }
func (x *Pointer[T]) Swap(v *T) *T { pt(x, "Pointer.Swap"); return x.v.Swap(v) }
func (x *Pointer[T]) CompareAndSwap(o, n *T) bool {
	pt(x, "Pointer.CAS")
	return x.v.CompareAndSwap(o, n)
}
