// Package crashfs is Engine C (DESIGN §2.4): a model file system replayed from a log recorded by vos/vunix, and the
// exhaustive, deviation-bounded enumeration of the on-disk states a crash can leave behind.
//
// Model: inodes and a directory tree with two views. The volatile view is what a surviving kernel shows (kill -9).
// The durable view is what is guaranteed after power loss under POSIX-pessimistic rules: a file's content as of its
// last fsync/fdatasync (never synced = empty), a directory's entries as of that directory's last fsync. fsync of a
// file does not persist its directory entry; there is no reliance on journal ordering between different objects.
//
// Crash states at log position k (ops[0:k] applied):
//
//	kill9       the volatile view
//	kill9-torn  if ops[k] is a write: the volatile view plus each page-aligned strict prefix of that write
//	powerloss   the durable view plus a chosen part of what is pending: per directory a PREFIX of its pending entry
//	            operations (create/mkdir/link/rename/unlink/rmdir since its last fsync), per file everything, nothing
//	            or (FileIntermediate) a prefix of its pending writes. deviation = number of pending items dropped
//	            relative to the kill-9 state (a directory contributes one per dropped operation, a file one);
//	            all assignments with deviation 1..MaxDev are enumerated, plus (AllDropped) the pure durable view.
package crashfs

import (
	"crypto/sha256"
	"encoding/binary"
	"fmt"
	"os"
	"path/filepath"
	"sort"
	"strings"

	"github.com/apache/skywalking-banyandb/pkg/verif/vos"
)

// Op is a recorded primitive with paths relative to the model root ("" = the root itself).
type Op = vos.Op

// Normalize strips root from all paths; an operation outside root is an error (it would be invisible to the model).
func Normalize(root string, ops []Op) ([]Op, error) {
	root = filepath.Clean(root)
	relp := func(p string) (string, error) {
		p = filepath.Clean(p)
		if p == root {
			return "", nil
		}
		if !strings.HasPrefix(p, root+"/") {
			return "", fmt.Errorf("path %q outside model root %q", p, root)
		}
		return p[len(root)+1:], nil
	}
	out := make([]Op, len(ops))
	for i, op := range ops {
		out[i] = op
		if op.Kind == "mark" {
			continue
		}
		var err error
		if out[i].Path, err = relp(op.Path); err != nil {
			return nil, fmt.Errorf("op %d (%s): %w", i, op.Kind, err)
		}
		if op.Path2 != "" {
			if out[i].Path2, err = relp(op.Path2); err != nil {
				return nil, fmt.Errorf("op %d (%s): %w", i, op.Kind, err)
			}
		}
	}
	return out, nil
}

// Describe renders an op for messages and keys.
func Describe(op Op) string {
	switch op.Kind {
	case "mark":
		return "mark(" + op.Note + ")"
	case "write":
		return fmt.Sprintf("write(%s,off=%d,len=%d)", op.Path, op.Off, len(op.Data))
	case "rename", "link":
		return fmt.Sprintf("%s(%s -> %s)", op.Kind, op.Path, op.Path2)
	case "open":
		return fmt.Sprintf("open(%s,flags=%#x)", op.Path, op.Flags)
	}
	return fmt.Sprintf("%s(%s)", op.Kind, op.Path)
}

type wr struct {
	data  []byte
	off   int64
	trunc bool
}

type dirop struct {
	ino   *inode
	kind  string // add del ren
	name  string
	name2 string
}

type inode struct {
	ents  map[string]*inode // dir: volatile entries
	dents map[string]*inode // dir: durable entries
	label string
	data  []byte  // file: volatile content
	ddata []byte  // file: durable content
	pw    []wr    // file: modifications since the last sync
	pend  []dirop // dir: entry operations since the last fsync
	id    int
	dir   bool
}

// FS is the model file system.
type FS struct {
	root    *inode
	handles map[int]*inode
	// Approx lists modelling approximations that were needed (e.g. cross-directory rename).
	Approx  []string
	inodes  []*inode
	applied int
}

// New returns a model holding an empty, durable root directory.
func New() *FS {
	fs := &FS{handles: map[int]*inode{}}
	fs.root = fs.newInode(true, "/")
	return fs
}

func (fs *FS) newInode(dir bool, label string) *inode {
	n := &inode{id: len(fs.inodes), dir: dir, label: label}
	if dir {
		n.ents = map[string]*inode{}
		n.dents = map[string]*inode{}
	}
	fs.inodes = append(fs.inodes, n)
	return n
}

func split(p string) (string, string) {
	i := strings.LastIndexByte(p, '/')
	if i < 0 {
		return "", p
	}
	return p[:i], p[i+1:]
}

func (fs *FS) lookup(p string, durable bool) *inode {
	n := fs.root
	if p == "" {
		return n
	}
	for _, c := range strings.Split(p, "/") {
		if n == nil || !n.dir {
			return nil
		}
		if durable {
			n = n.dents[c]
		} else {
			n = n.ents[c]
		}
	}
	return n
}

// Applied returns the number of ops applied so far.
func (fs *FS) Applied() int { return fs.applied }

// Apply advances the model by one op. An error means the log does not fit the model (harness error, not a verdict).
func (fs *FS) Apply(op Op) error {
	fs.applied++
	parentOf := func(p string) (*inode, string, error) {
		d, name := split(p)
		par := fs.lookup(d, false)
		if par == nil || !par.dir {
			return nil, "", fmt.Errorf("%s: parent directory %q does not exist in the model", Describe(op), d)
		}
		return par, name, nil
	}
	switch op.Kind {
	case "mark":
	case "open":
		n := fs.lookup(op.Path, false)
		if n == nil {
			if op.Flags&os.O_CREATE == 0 {
				return fmt.Errorf("%s: not found in the model", Describe(op))
			}
			par, name, err := parentOf(op.Path)
			if err != nil {
				return err
			}
			n = fs.newInode(false, op.Path)
			par.ents[name] = n
			par.pend = append(par.pend, dirop{kind: "add", name: name, ino: n})
		} else if op.Flags&os.O_TRUNC != 0 && !n.dir && len(n.data) > 0 {
			n.data = nil
			n.pw = append(n.pw, wr{trunc: true})
		}
		fs.handles[op.H] = n
	case "write":
		n := fs.handles[op.H]
		if n == nil || n.dir {
			return fmt.Errorf("%s: bad handle %d", Describe(op), op.H)
		}
		n.data = applyWrite(n.data, op.Off, op.Data)
		n.pw = append(n.pw, wr{off: op.Off, data: op.Data})
	case "fsync", "fdatasync":
		n := fs.handles[op.H]
		if n == nil {
			return fmt.Errorf("%s: bad handle %d", Describe(op), op.H)
		}
		if n.dir {
			n.dents = make(map[string]*inode, len(n.ents))
			for k, v := range n.ents {
				n.dents[k] = v
			}
			n.pend = nil
		} else {
			n.ddata = append([]byte(nil), n.data...)
			n.pw = nil
		}
	case "close":
		delete(fs.handles, op.H)
	case "mkdir":
		par, name, err := parentOf(op.Path)
		if err != nil {
			return err
		}
		if par.ents[name] != nil {
			return fmt.Errorf("%s: exists in the model", Describe(op))
		}
		n := fs.newInode(true, op.Path)
		par.ents[name] = n
		par.pend = append(par.pend, dirop{kind: "add", name: name, ino: n})
	case "unlink", "rmdir":
		par, name, err := parentOf(op.Path)
		if err != nil {
			return err
		}
		n := par.ents[name]
		if n == nil || n.dir != (op.Kind == "rmdir") || (n.dir && len(n.ents) > 0) {
			return fmt.Errorf("%s: model disagrees (missing, wrong type or non-empty)", Describe(op))
		}
		delete(par.ents, name)
		par.pend = append(par.pend, dirop{kind: "del", name: name})
	case "link":
		n := fs.lookup(op.Path, false)
		par, name, err := parentOf(op.Path2)
		if err != nil {
			return err
		}
		if n == nil || n.dir || par.ents[name] != nil {
			return fmt.Errorf("%s: model disagrees", Describe(op))
		}
		par.ents[name] = n
		par.pend = append(par.pend, dirop{kind: "add", name: name, ino: n})
	case "rename":
		p1, n1, err := parentOf(op.Path)
		if err != nil {
			return err
		}
		p2, n2, err := parentOf(op.Path2)
		if err != nil {
			return err
		}
		n := p1.ents[n1]
		if n == nil {
			return fmt.Errorf("%s: source missing in the model", Describe(op))
		}
		delete(p1.ents, n1)
		p2.ents[n2] = n
		if p1 == p2 {
			p1.pend = append(p1.pend, dirop{kind: "ren", name: n1, name2: n2})
		} else {
			fs.Approx = append(fs.Approx, "cross-directory "+Describe(op)+" modelled as independent add+del")
			p2.pend = append(p2.pend, dirop{kind: "add", name: n2, ino: n})
			p1.pend = append(p1.pend, dirop{kind: "del", name: n1})
		}
	default:
		return fmt.Errorf("unknown op kind %q", op.Kind)
	}
	return nil
}

func applyWrite(data []byte, off int64, b []byte) []byte {
	end := int(off) + len(b)
	if end > len(data) {
		data = append(data, make([]byte, end-len(data))...)
	}
	copy(data[off:], b)
	return data
}

// TFile is one regular file of a crash state.
type TFile struct {
	Path string
	Data []byte
}

// Tree is a materialisable crash state: directories (parents first) and files, sorted.
type Tree struct {
	Dirs  []string
	Files []TFile
}

// Digest identifies the tree content.
func (t *Tree) Digest() [32]byte {
	h := sha256.New()
	var b [8]byte
	for _, d := range t.Dirs {
		h.Write([]byte{'D'})
		h.Write([]byte(d))
		h.Write([]byte{0})
	}
	for _, f := range t.Files {
		h.Write([]byte{'F'})
		h.Write([]byte(f.Path))
		h.Write([]byte{0})
		binary.LittleEndian.PutUint64(b[:], uint64(len(f.Data)))
		h.Write(b[:])
		h.Write(f.Data)
	}
	var out [32]byte
	copy(out[:], h.Sum(nil))
	return out
}

// Listing renders the tree as "path (size)" lines for artefacts.
func (t *Tree) Listing() []string {
	var out []string
	for _, d := range t.Dirs {
		out = append(out, d+"/")
	}
	for _, f := range t.Files {
		out = append(out, fmt.Sprintf("%s (%d)", f.Path, len(f.Data)))
	}
	sort.Strings(out)
	return out
}

// Materialize writes the tree below base (which must exist and be empty).
func (t *Tree) Materialize(base string) error {
	for _, d := range t.Dirs {
		if err := os.Mkdir(filepath.Join(base, d), 0o700); err != nil {
			return err
		}
	}
	for _, f := range t.Files {
		if err := os.WriteFile(filepath.Join(base, f.Path), f.Data, 0o600); err != nil {
			return err
		}
	}
	return nil
}

func (n *inode) fileContent(keep int) []byte {
	if keep >= len(n.pw) {
		return n.data
	}
	d := append([]byte(nil), n.ddata...)
	for _, w := range n.pw[:keep] {
		if w.trunc {
			d = d[:0]
		} else {
			d = applyWrite(d, w.off, w.data)
		}
	}
	return d
}

func (n *inode) dirEntries(keep int) map[string]*inode {
	if keep >= len(n.pend) {
		return n.ents
	}
	m := make(map[string]*inode, len(n.dents))
	for k, v := range n.dents {
		m[k] = v
	}
	for _, o := range n.pend[:keep] {
		switch o.kind {
		case "add":
			m[o.name] = o.ino
		case "del":
			delete(m, o.name)
		case "ren":
			if x, ok := m[o.name]; ok {
				delete(m, o.name)
				m[o.name2] = x
			}
		}
	}
	return m
}

// build constructs the tree in which inode id i keeps keep[i] of its pending items (absent = keeps everything).
func (fs *FS) build(keep map[int]int) *Tree {
	t := &Tree{}
	var walk func(n *inode, p string)
	walk = func(n *inode, p string) {
		k, ok := keep[n.id]
		if !ok {
			k = 1 << 30
		}
		ents := n.dirEntries(k)
		names := make([]string, 0, len(ents))
		for name := range ents {
			names = append(names, name)
		}
		sort.Strings(names)
		for _, name := range names {
			c := ents[name]
			cp := name
			if p != "" {
				cp = p + "/" + name
			}
			if c.dir {
				t.Dirs = append(t.Dirs, cp)
				walk(c, cp)
				continue
			}
			ck, cok := keep[c.id]
			if !cok {
				ck = 1 << 30
			}
			t.Files = append(t.Files, TFile{Path: cp, Data: c.fileContent(ck)})
		}
	}
	walk(fs.root, "")
	sort.Strings(t.Dirs)
	sort.Slice(t.Files, func(i, j int) bool { return t.Files[i].Path < t.Files[j].Path })
	return t
}

// Volatile returns the kill-9 state at the current position.
func (fs *FS) Volatile() *Tree { return fs.build(nil) }

// Durable returns the state in which everything pending is dropped.
func (fs *FS) Durable() *Tree {
	keep := map[int]int{}
	for _, n := range fs.inodes {
		keep[n.id] = 0
	}
	return fs.build(keep)
}

// DurableFile reports whether path resolves through durable directory entries to a regular file, its durable content,
// and whether that content equals the volatile one with nothing pending (fully durable).
func (fs *FS) DurableFile(p string) (data []byte, exists bool, clean bool) {
	n := fs.lookup(p, true)
	if n == nil || n.dir {
		return nil, false, false
	}
	return n.ddata, true, len(n.pw) == 0
}

// FileSync returns, for the regular file currently visible at p, its last synced content and whether nothing is
// pending on it (independent of whether its directory entry is durable).
func (fs *FS) FileSync(p string) (synced []byte, exists bool, clean bool) {
	n := fs.lookup(p, false)
	if n == nil || n.dir {
		return nil, false, false
	}
	return n.ddata, true, len(n.pw) == 0
}

// DurableDir lists the durable entries of a durably reachable directory.
func (fs *FS) DurableDir(p string) ([]string, bool) {
	n := fs.lookup(p, true)
	if n == nil || !n.dir {
		return nil, false
	}
	var out []string
	for k := range n.dents {
		out = append(out, k)
	}
	sort.Strings(out)
	return out, true
}

// VolatileFile returns the volatile content of a regular file.
func (fs *FS) VolatileFile(p string) ([]byte, bool) {
	n := fs.lookup(p, false)
	if n == nil || n.dir {
		return nil, false
	}
	return n.data, true
}

// VolatileDir lists the volatile entries of a directory.
func (fs *FS) VolatileDir(p string) ([]string, bool) {
	n := fs.lookup(p, false)
	if n == nil || !n.dir {
		return nil, false
	}
	var out []string
	for k := range n.ents {
		out = append(out, k)
	}
	sort.Strings(out)
	return out, true
}

// HandleFile returns the volatile content and creation label of the inode behind an open handle.
func (fs *FS) HandleFile(h int) (data []byte, label string, isDir bool, ok bool) {
	n := fs.handles[h]
	if n == nil {
		return nil, "", false, false
	}
	return n.data, n.label, n.dir, true
}

// PendingCount returns the number of directories with pending entry operations and of files with pending data.
func (fs *FS) PendingCount() (dirs, files int) {
	for _, n := range fs.inodes {
		if n.dir && len(n.pend) > 0 {
			dirs++
		}
		if !n.dir && len(n.pw) > 0 {
			files++
		}
	}
	return
}

// Config bounds the enumeration.
type Config struct {
	MaxDev           int  // power loss: largest deviation enumerated (0 = kill-9 states only)
	AllDropped       bool // power loss: also the pure durable view
	FileIntermediate bool // power loss: also every strict prefix of a file's pending writes
	Page             int  // kill-9 torn-write granularity (default 4096)
}

// Pick is the part of one inode's pending items that a power-loss state keeps.
type Pick struct {
	Label string `json:"inode"`
	Keep  int    `json:"keep"`
	Of    int    `json:"of"`
	Dir   bool   `json:"dir"`
}

// State is one crash state.
type State struct {
	Tree  *Tree
	Model string // kill9 | kill9-torn | powerloss
	ID    string // stable identifier inside one log: "<k>/<model>/<choice>"
	Picks []Pick
	K     int // ops[0:K] were applied
	Dev   int // deviation (-1 for the all-dropped extreme)
	Torn  int // kill9-torn: bytes of ops[K] that made it
}

type item struct {
	n *inode
	m int // number of pending items
}

func (fs *FS) items() []item {
	var out []item
	for _, n := range fs.inodes {
		if n.dir && len(n.pend) > 0 {
			out = append(out, item{n, len(n.pend)})
		}
		if !n.dir && len(n.pw) > 0 {
			out = append(out, item{n, len(n.pw)})
		}
	}
	return out
}

// StatesHere enumerates the crash states at the current position; next is the op that was in flight (nil at the end).
func (fs *FS) StatesHere(cfg Config, next *Op, visit func(*State) error) error {
	k := fs.applied
	if err := visit(&State{K: k, Model: "kill9", ID: fmt.Sprintf("%d/kill9", k), Tree: fs.Volatile()}); err != nil {
		return err
	}
	page := cfg.Page
	if page <= 0 {
		page = 4096
	}
	if next != nil && next.Kind == "write" {
		if n := fs.handles[next.H]; n != nil && !n.dir {
			for cut := page - int(next.Off%int64(page)); cut < len(next.Data); cut += page {
				saved := n.data
				n.data = applyWrite(append([]byte(nil), n.data...), next.Off, next.Data[:cut])
				st := &State{K: k, Model: "kill9-torn", Torn: cut, ID: fmt.Sprintf("%d/kill9-torn/%d", k, cut), Tree: fs.Volatile()}
				n.data = saved
				if err := visit(st); err != nil {
					return err
				}
			}
		}
	}
	its := fs.items()
	if len(its) == 0 {
		return nil
	}
	emit := func(keep map[int]int, dev int) error {
		st := &State{K: k, Model: "powerloss", Dev: dev, Tree: fs.build(keep)}
		var ids []string
		for _, it := range its {
			if kp, ok := keep[it.n.id]; ok {
				st.Picks = append(st.Picks, Pick{Label: it.n.label, Dir: it.n.dir, Keep: kp, Of: it.m})
				ids = append(ids, fmt.Sprintf("%d:%d", it.n.id, kp))
			}
		}
		st.ID = fmt.Sprintf("%d/powerloss/%s", k, strings.Join(ids, ","))
		return visit(st)
	}
	keep := map[int]int{}
	var recur func(i, budget, used int) error
	recur = func(i, budget, used int) error {
		if i == len(its) {
			if used == 0 {
				return nil // the kill-9 state
			}
			return emit(keep, used)
		}
		if err := recur(i+1, budget, used); err != nil { // keep everything of item i
			return err
		}
		it := its[i]
		if it.n.dir {
			for drop := 1; drop <= it.m && drop <= budget; drop++ {
				keep[it.n.id] = it.m - drop
				if err := recur(i+1, budget-drop, used+drop); err != nil {
					return err
				}
			}
		} else if budget >= 1 {
			lo := 0
			hi := 0
			if cfg.FileIntermediate {
				hi = it.m - 1
			}
			for kp := lo; kp <= hi; kp++ {
				keep[it.n.id] = kp
				if err := recur(i+1, budget-1, used+1); err != nil {
					return err
				}
			}
		}
		delete(keep, it.n.id)
		return nil
	}
	if cfg.MaxDev > 0 {
		if err := recur(0, cfg.MaxDev, 0); err != nil {
			return err
		}
	}
	if cfg.AllDropped {
		all := map[int]int{}
		for _, it := range its {
			all[it.n.id] = 0
		}
		st := &State{K: k, Model: "powerloss", Dev: -1, Tree: fs.build(all), ID: fmt.Sprintf("%d/powerloss/all-dropped", k)}
		for _, it := range its {
			st.Picks = append(st.Picks, Pick{Label: it.n.label, Dir: it.n.dir, Keep: 0, Of: it.m})
		}
		return visit(st)
	}
	return nil
}

// Enumerate replays ops and visits every crash state at every position 0..len(ops). before (optional) is called
// with the model at each position prior to the states of that position (trace invariants need the durable view).
func Enumerate(ops []Op, cfg Config, before func(fs *FS, k int) error, visit func(*State) error) error {
	fs := New()
	for k := 0; k <= len(ops); k++ {
		if before != nil {
			if err := before(fs, k); err != nil {
				return err
			}
		}
		var next *Op
		if k < len(ops) {
			next = &ops[k]
		}
		if visit != nil {
			if err := fs.StatesHere(cfg, next, visit); err != nil {
				return err
			}
		}
		if k < len(ops) {
			if err := fs.Apply(ops[k]); err != nil {
				return fmt.Errorf("op %d: %w", k, err)
			}
		}
	}
	return nil
}
