// Package e2e is the small end-to-end kit of /verif: an in-process standalone BanyanDB server started through the
// repository's own pkg/test/setup and driven over real gRPC with the pbgen-generated stubs.
//
// Usage pattern (every server configuration in its OWN worker subprocess, because the graceful close takes ~30 s and
// several engine switches are process-global):
//
//	parent:  out, err := e2e.Spawn("MYCHECK_WORKER=cfg1")          // re-executes os.Args[0], retries start-up races
//	worker:  s := e2e.Start("--measure-vectorized-enabled=false")  // ~2 s
//	         s.CreateGroup(...); s.CreateMeasure(...); s.WriteMeasure(...); s.QueryMeasure(...)
//	         s.Remove(); os.Exit(0)                                // never call the close function
//
// Any harness-level failure inside the kit (server does not come up, schema never applied, write not acknowledged)
// is NOT a verdict: the process prints "E2E-FATAL: ..." and exits with code 3 (Spawn retries start-up failures).
package e2e

import (
	"context"
	"encoding/json"
	"errors"
	"fmt"
	"io"
	"os"
	"os/exec"
	"path/filepath"
	"strconv"
	"strings"
	"sync/atomic"
	"time"

	"github.com/onsi/gomega"
	"google.golang.org/grpc"
	"google.golang.org/grpc/codes"
	"google.golang.org/grpc/credentials/insecure"
	"google.golang.org/grpc/status"
	"google.golang.org/protobuf/types/known/durationpb"
	"google.golang.org/protobuf/types/known/structpb"
	"google.golang.org/protobuf/types/known/timestamppb"

	commonv1 "github.com/apache/skywalking-banyandb/api/proto/banyandb/common/v1"
	databasev1 "github.com/apache/skywalking-banyandb/api/proto/banyandb/database/v1"
	measurev1 "github.com/apache/skywalking-banyandb/api/proto/banyandb/measure/v1"
	modelv1 "github.com/apache/skywalking-banyandb/api/proto/banyandb/model/v1"
	schemav1 "github.com/apache/skywalking-banyandb/api/proto/banyandb/schema/v1"
	streamv1 "github.com/apache/skywalking-banyandb/api/proto/banyandb/stream/v1"
	tracev1 "github.com/apache/skywalking-banyandb/api/proto/banyandb/trace/v1"
	"github.com/apache/skywalking-banyandb/pkg/test"
	"github.com/apache/skywalking-banyandb/pkg/test/setup"
)

// ExitHarness is the exit code of a kit-level (non-verdict) failure.
const ExitHarness = 3

// Fatal reports a harness failure (never a verdict) and exits with ExitHarness.
func Fatal(format string, a ...any) {
	fmt.Printf("E2E-FATAL: "+format+"\n", a...)
	for _, d := range dirs {
		_ = os.RemoveAll(d)
	}
	os.Exit(ExitHarness)
}

var dirs []string

// ---------------------------------------------------------------------------------------------------------------
// time: one base instant per run

const baseEnv = "VERIF_E2E_BASE_MS"

var baseMs atomic.Int64

// Base is the single base instant of the run, millisecond aligned, always in the past, inside a 3-day TTL, and
// 06:00 UTC of a day so that offsets of up to +17 h stay inside one 1-day segment and before "now" minus 1 h.
// It is inherited by Spawn-ed workers through the environment, so all processes of one run agree on it.
func Base() time.Time {
	if v := baseMs.Load(); v != 0 {
		return time.UnixMilli(v).UTC()
	}
	if e := os.Getenv(baseEnv); e != "" {
		if v, err := strconv.ParseInt(e, 10, 64); err == nil && v > 0 {
			baseMs.Store(v)
			return time.UnixMilli(v).UTC()
		}
	}
	now := time.Now().UTC()
	day := time.Date(now.Year(), now.Month(), now.Day(), 0, 0, 0, 0, time.UTC)
	// yesterday 06:00: [base, base+17h] is entirely before today 00:00 <= now.
	b := day.Add(-18 * time.Hour)
	baseMs.Store(b.UnixMilli())
	return b
}

// At returns Base()+ms milliseconds as a protobuf timestamp.
func At(ms int64) *timestamppb.Timestamp {
	return timestamppb.New(Base().Add(time.Duration(ms) * time.Millisecond))
}

// Range returns the time range [Base()+fromMs, Base()+toMs].
func Range(fromMs, toMs int64) *modelv1.TimeRange {
	return &modelv1.TimeRange{Begin: At(fromMs), End: At(toMs)}
}

// ---------------------------------------------------------------------------------------------------------------
// worker subprocesses

// Spawn re-executes the current binary with the same arguments plus extra environment, returns its combined
// output. A worker exiting with ExitHarness (start-up race, e.g. a port taken by another process) is retried up to 3
// times; any other non-zero exit is returned as an error together with the output.
func Spawn(extraEnv ...string) ([]byte, error) {
	var out []byte
	var err error
	for attempt := 0; attempt < 3; attempt++ {
		cmd := exec.Command(os.Args[0], os.Args[1:]...)
		cmd.Env = append(os.Environ(), fmt.Sprintf("%s=%d", baseEnv, Base().UnixMilli()))
		cmd.Env = append(cmd.Env, extraEnv...)
		out, err = cmd.CombinedOutput()
		if cmd.Process != nil {
			// the worker's server may still have been writing while the worker removed its directory: the parent
			// removes whatever is left once the worker is dead
			left, _ := filepath.Glob(fmt.Sprintf("/dev/shm/verif-e2e-%d-*", cmd.Process.Pid))
			for _, d := range left {
				_ = os.RemoveAll(d)
			}
		}
		var ee *exec.ExitError
		if err != nil && errors.As(err, &ee) && ee.ExitCode() == ExitHarness {
			continue
		}
		return out, err
	}
	return out, err
}

// ---------------------------------------------------------------------------------------------------------------
// server

// Server is one running in-process standalone server.
type Server struct {
	Conn *grpc.ClientConn
	Addr string
	Dir  string
	rev  int64
}

var seq atomic.Int64

// Start starts a standalone server with the given extra flags (they override the defaults, e.g.
// "--measure-vectorized-enabled=false", "--measure-flush-timeout=100ms"). Data lives under /dev/shm/verif-e2e-<pid>-<n>.
func Start(flags ...string) *Server {
	gomega.RegisterFailHandler(func(message string, _ ...int) {
		Fatal("gomega: %s", strings.ReplaceAll(message, "\n", " | "))
	})
	dir := fmt.Sprintf("/dev/shm/verif-e2e-%d-%d", os.Getpid(), seq.Add(1))
	_ = os.RemoveAll(dir)
	if err := os.MkdirAll(dir, 0o755); err != nil {
		Fatal("mkdir %s: %v", dir, err)
	}
	dirs = append(dirs, dir)
	ports, err := test.AllocateFreePorts(5)
	if err != nil {
		Fatal("ports: %v", err)
	}
	ff := append([]string{"--logging-level=fatal", "--logging-env=prod"}, flags...)
	addr, _, _ := setup.EmptyClosableStandalone(nil, dir, ports, ff...)
	conn, err := grpc.NewClient(addr, grpc.WithTransportCredentials(insecure.NewCredentials()),
		grpc.WithDefaultCallOptions(grpc.MaxCallRecvMsgSize(64<<20)))
	if err != nil {
		Fatal("dial: %v", err)
	}
	return &Server{Addr: addr, Conn: conn, Dir: dir}
}

// Remove deletes the data directory (call right before os.Exit; the server is not closed gracefully).
func (s *Server) Remove() {
	for i := 0; i < 5; i++ {
		_ = os.RemoveAll(s.Dir)
		if _, err := os.Stat(s.Dir); os.IsNotExist(err) {
			return
		}
	}
}

func ctx() (context.Context, context.CancelFunc) {
	return context.WithTimeout(context.Background(), 60*time.Second)
}

// awaitRev blocks until the schema revision is applied on the node (SchemaBarrierService).
func (s *Server) awaitRev(rev int64) {
	if rev > s.rev {
		s.rev = rev
	}
	c, cancel := ctx()
	defer cancel()
	r, err := schemav1.NewSchemaBarrierServiceClient(s.Conn).AwaitRevisionApplied(c,
		&schemav1.AwaitRevisionAppliedRequest{MinRevision: s.rev, Timeout: durationpb.New(30 * time.Second)})
	if err != nil {
		Fatal("await revision %d: %v", s.rev, err)
	}
	if !r.GetApplied() {
		Fatal("schema revision %d not applied: %v", s.rev, r.GetLaggards())
	}
}

// ---------------------------------------------------------------------------------------------------------------
// schema

// Tag, Family, Field, Index describe schemas compactly.
type (
	// Tag is a tag spec.
	Tag struct {
		Name string
		Type databasev1.TagType
	}
	// Family is a tag family spec.
	Family struct {
		Name string
		Tags []Tag
	}
	// Field is a measure field spec.
	Field struct {
		Name string
		Type databasev1.FieldType
	}
	// Index is an index rule, bound to the resource it is passed with.
	Index struct {
		Name     string
		Analyzer string
		Tags     []string
		Type     databasev1.IndexRule_Type
		NoSort   bool
	}
)

// Short names of the schema enums.
const (
	TStr   = databasev1.TagType_TAG_TYPE_STRING
	TInt   = databasev1.TagType_TAG_TYPE_INT
	TStrA  = databasev1.TagType_TAG_TYPE_STRING_ARRAY
	TIntA  = databasev1.TagType_TAG_TYPE_INT_ARRAY
	TBin   = databasev1.TagType_TAG_TYPE_DATA_BINARY
	TTime  = databasev1.TagType_TAG_TYPE_TIMESTAMP
	FStr   = databasev1.FieldType_FIELD_TYPE_STRING
	FInt   = databasev1.FieldType_FIELD_TYPE_INT
	FFloat = databasev1.FieldType_FIELD_TYPE_FLOAT
	FBin   = databasev1.FieldType_FIELD_TYPE_DATA_BINARY
	IInv   = databasev1.IndexRule_TYPE_INVERTED
	ISkip  = databasev1.IndexRule_TYPE_SKIPPING
	ITree  = databasev1.IndexRule_TYPE_TREE
)

// CreateGroup creates a group (segment interval and ttl in days) and waits until it is applied.
func (s *Server) CreateGroup(name string, catalog commonv1.Catalog, shards, segmentDays, ttlDays uint32) {
	c, cancel := ctx()
	defer cancel()
	r, err := databasev1.NewGroupRegistryServiceClient(s.Conn).Create(c, &databasev1.GroupRegistryServiceCreateRequest{Group: &commonv1.Group{
		Metadata: &commonv1.Metadata{Name: name},
		Catalog:  catalog,
		ResourceOpts: &commonv1.ResourceOpts{
			ShardNum:        shards,
			SegmentInterval: &commonv1.IntervalRule{Unit: commonv1.IntervalRule_UNIT_DAY, Num: segmentDays},
			Ttl:             &commonv1.IntervalRule{Unit: commonv1.IntervalRule_UNIT_DAY, Num: ttlDays},
		},
	}})
	if err != nil {
		Fatal("create group %s: %v", name, err)
	}
	s.awaitRev(r.GetModRevision())
}

func families(fs []Family) []*databasev1.TagFamilySpec {
	var out []*databasev1.TagFamilySpec
	for _, f := range fs {
		tf := &databasev1.TagFamilySpec{Name: f.Name}
		for _, t := range f.Tags {
			tf.Tags = append(tf.Tags, &databasev1.TagSpec{Name: t.Name, Type: t.Type})
		}
		out = append(out, tf)
	}
	return out
}

func (s *Server) bind(group, subject string, catalog commonv1.Catalog, idx []Index) {
	if len(idx) == 0 {
		return
	}
	c, cancel := ctx()
	defer cancel()
	var names []string
	for _, ix := range idx {
		r, err := databasev1.NewIndexRuleRegistryServiceClient(s.Conn).Create(c, &databasev1.IndexRuleRegistryServiceCreateRequest{IndexRule: &databasev1.IndexRule{
			Metadata: &commonv1.Metadata{Group: group, Name: ix.Name},
			Tags:     ix.Tags, Type: ix.Type, Analyzer: ix.Analyzer, NoSort: ix.NoSort,
		}})
		if err != nil {
			Fatal("create index rule %s/%s: %v", group, ix.Name, err)
		}
		if r.GetModRevision() > s.rev {
			s.rev = r.GetModRevision()
		}
		names = append(names, ix.Name)
	}
	r, err := databasev1.NewIndexRuleBindingRegistryServiceClient(s.Conn).Create(c, &databasev1.IndexRuleBindingRegistryServiceCreateRequest{
		IndexRuleBinding: &databasev1.IndexRuleBinding{
			Metadata: &commonv1.Metadata{Group: group, Name: subject + "-binding"},
			Rules:    names,
			Subject:  &databasev1.Subject{Catalog: catalog, Name: subject},
			BeginAt:  timestamppb.New(time.Date(2021, 1, 1, 0, 0, 0, 0, time.UTC)),
			ExpireAt: timestamppb.New(time.Date(2121, 1, 1, 0, 0, 0, 0, time.UTC)),
		},
	})
	if err != nil {
		Fatal("create index rule binding for %s/%s: %v", group, subject, err)
	}
	if r.GetModRevision() > s.rev {
		s.rev = r.GetModRevision()
	}
}

// CreateMeasure creates index rules + binding first, then the measure (interval "" = none; indexMode as given), and
// waits until everything is applied on the node.
func (s *Server) CreateMeasure(group, name string, entity []string, fams []Family, fields []Field, indexMode bool, idx ...Index) {
	s.bind(group, name, commonv1.Catalog_CATALOG_MEASURE, idx)
	m := &databasev1.Measure{
		Metadata: &commonv1.Metadata{Group: group, Name: name}, TagFamilies: families(fams),
		Entity: &databasev1.Entity{TagNames: entity}, IndexMode: indexMode,
	}
	for _, f := range fields {
		m.Fields = append(m.Fields, &databasev1.FieldSpec{
			Name: f.Name, FieldType: f.Type,
			EncodingMethod: databasev1.EncodingMethod_ENCODING_METHOD_GORILLA, CompressionMethod: databasev1.CompressionMethod_COMPRESSION_METHOD_ZSTD,
		})
	}
	c, cancel := ctx()
	defer cancel()
	r, err := databasev1.NewMeasureRegistryServiceClient(s.Conn).Create(c, &databasev1.MeasureRegistryServiceCreateRequest{Measure: m})
	if err != nil {
		Fatal("create measure %s/%s: %v", group, name, err)
	}
	s.awaitRev(r.GetModRevision())
}

// CreateStream creates index rules + binding, then the stream, and waits until applied.
func (s *Server) CreateStream(group, name string, entity []string, fams []Family, idx ...Index) {
	s.bind(group, name, commonv1.Catalog_CATALOG_STREAM, idx)
	c, cancel := ctx()
	defer cancel()
	r, err := databasev1.NewStreamRegistryServiceClient(s.Conn).Create(c, &databasev1.StreamRegistryServiceCreateRequest{Stream: &databasev1.Stream{
		Metadata: &commonv1.Metadata{Group: group, Name: name}, TagFamilies: families(fams), Entity: &databasev1.Entity{TagNames: entity},
	}})
	if err != nil {
		Fatal("create stream %s/%s: %v", group, name, err)
	}
	s.awaitRev(r.GetModRevision())
}

// CreateTrace creates index rules (TYPE_TREE) + binding, then the trace schema, and waits until applied.
func (s *Server) CreateTrace(group, name string, tags []Tag, traceIDTag, spanIDTag, timestampTag string, idx ...Index) {
	s.bind(group, name, commonv1.Catalog_CATALOG_TRACE, idx)
	t := &databasev1.Trace{
		Metadata: &commonv1.Metadata{Group: group, Name: name}, TraceIdTagName: traceIDTag, SpanIdTagName: spanIDTag, TimestampTagName: timestampTag,
	}
	for _, tg := range tags {
		t.Tags = append(t.Tags, &databasev1.TraceTagSpec{Name: tg.Name, Type: tg.Type})
	}
	c, cancel := ctx()
	defer cancel()
	r, err := databasev1.NewTraceRegistryServiceClient(s.Conn).Create(c, &databasev1.TraceRegistryServiceCreateRequest{Trace: t})
	if err != nil {
		Fatal("create trace %s/%s: %v", group, name, err)
	}
	s.awaitRev(r.GetModRevision())
}

// ---------------------------------------------------------------------------------------------------------------
// values

// Str, Int, Null, ... build tag values; FI, FF, FS, FNull build field values.
func Str(v string) *modelv1.TagValue {
	return &modelv1.TagValue{Value: &modelv1.TagValue_Str{Str: &modelv1.Str{Value: v}}}
}

// Int builds an int tag value.
func Int(v int64) *modelv1.TagValue {
	return &modelv1.TagValue{Value: &modelv1.TagValue_Int{Int: &modelv1.Int{Value: v}}}
}

// Null builds a null tag value.
func Null() *modelv1.TagValue {
	return &modelv1.TagValue{Value: &modelv1.TagValue_Null{Null: structpb.NullValue_NULL_VALUE}}
}

// StrArr builds a string-array tag value.
func StrArr(v ...string) *modelv1.TagValue {
	return &modelv1.TagValue{Value: &modelv1.TagValue_StrArray{StrArray: &modelv1.StrArray{Value: v}}}
}

// IntArr builds an int-array tag value.
func IntArr(v ...int64) *modelv1.TagValue {
	return &modelv1.TagValue{Value: &modelv1.TagValue_IntArray{IntArray: &modelv1.IntArray{Value: v}}}
}

// Bin builds a binary tag value.
func Bin(v []byte) *modelv1.TagValue {
	return &modelv1.TagValue{Value: &modelv1.TagValue_BinaryData{BinaryData: v}}
}

// Time builds a timestamp tag value.
func Time(t *timestamppb.Timestamp) *modelv1.TagValue {
	return &modelv1.TagValue{Value: &modelv1.TagValue_Timestamp{Timestamp: t}}
}

// FI builds an int field value.
func FI(v int64) *modelv1.FieldValue {
	return &modelv1.FieldValue{Value: &modelv1.FieldValue_Int{Int: &modelv1.Int{Value: v}}}
}

// FF builds a float field value.
func FF(v float64) *modelv1.FieldValue {
	return &modelv1.FieldValue{Value: &modelv1.FieldValue_Float{Float: &modelv1.Float{Value: v}}}
}

// FS builds a string field value.
func FS(v string) *modelv1.FieldValue {
	return &modelv1.FieldValue{Value: &modelv1.FieldValue_Str{Str: &modelv1.Str{Value: v}}}
}

// FNull builds a null field value.
func FNull() *modelv1.FieldValue {
	return &modelv1.FieldValue{Value: &modelv1.FieldValue_Null{Null: structpb.NullValue_NULL_VALUE}}
}

// TF wraps tag values as one write-side tag family.
func TF(v ...*modelv1.TagValue) *modelv1.TagFamilyForWrite {
	return &modelv1.TagFamilyForWrite{Tags: v}
}

// ---------------------------------------------------------------------------------------------------------------
// writes: real streaming Write RPCs; every message must be acknowledged with STATUS_SUCCEED

const succeed = "STATUS_SUCCEED"

func retryable(st string) bool {
	return st == "STATUS_NOT_FOUND" || st == "STATUS_SCHEMA_NOT_APPLIED" || st == "STATUS_EXPIRED_SCHEMA"
}

// writeLoop runs one attempt function until every message is acknowledged; a batch in which NO message succeeded
// and all failures are "schema not there yet" is retried (idempotent: nothing was stored).
func writeLoop(what string, n int, once func() (map[uint64]string, error)) {
	var last string
	for attempt := 0; attempt < 40; attempt++ {
		acks, err := once()
		if err != nil {
			Fatal("write %s: %v", what, err)
		}
		ok, retry := 0, 0
		for _, st := range acks {
			if st == succeed {
				ok++
			} else if retryable(st) {
				retry++
				last = st
			} else {
				Fatal("write %s: message rejected with %s", what, st)
			}
		}
		if ok == n && len(acks) == n {
			return
		}
		if ok == 0 && retry > 0 {
			time.Sleep(250 * time.Millisecond)
			continue
		}
		Fatal("write %s: %d messages, %d acknowledged ok, %d acks (%s)", what, n, ok, len(acks), last)
	}
	Fatal("write %s: schema never became writable (%s)", what, last)
}

// WriteMeasure writes the data points through MeasureService.Write and waits for one successful acknowledgement per
// message.
func (s *Server) WriteMeasure(group, name string, dps []*measurev1.DataPointValue) {
	c0, cancel := ctx()
	g, err := databasev1.NewMeasureRegistryServiceClient(s.Conn).Get(c0, &databasev1.MeasureRegistryServiceGetRequest{Metadata: &commonv1.Metadata{Group: group, Name: name}})
	cancel()
	if err != nil {
		Fatal("get measure %s/%s: %v", group, name, err)
	}
	md := g.GetMeasure().GetMetadata()
	writeLoop("measure "+group+"/"+name, len(dps), func() (map[uint64]string, error) {
		c, cancel := ctx()
		defer cancel()
		w, err := measurev1.NewMeasureServiceClient(s.Conn).Write(c)
		if err != nil {
			return nil, err
		}
		for i, dp := range dps {
			if err := w.Send(&measurev1.WriteRequest{Metadata: md, DataPoint: dp, MessageId: uint64(i + 1)}); err != nil {
				return nil, fmt.Errorf("send %d: %w", i, err)
			}
		}
		if err := w.CloseSend(); err != nil {
			return nil, err
		}
		acks := map[uint64]string{}
		for {
			r, err := w.Recv()
			if errors.Is(err, io.EOF) {
				return acks, nil
			}
			if err != nil {
				return nil, fmt.Errorf("recv: %w", err)
			}
			acks[r.GetMessageId()] = r.GetStatus()
		}
	})
}

// WriteStream writes the elements through StreamService.Write and waits for one successful acknowledgement per message.
func (s *Server) WriteStream(group, name string, els []*streamv1.ElementValue) {
	c0, cancel := ctx()
	g, err := databasev1.NewStreamRegistryServiceClient(s.Conn).Get(c0, &databasev1.StreamRegistryServiceGetRequest{Metadata: &commonv1.Metadata{Group: group, Name: name}})
	cancel()
	if err != nil {
		Fatal("get stream %s/%s: %v", group, name, err)
	}
	md := g.GetStream().GetMetadata()
	writeLoop("stream "+group+"/"+name, len(els), func() (map[uint64]string, error) {
		c, cancel := ctx()
		defer cancel()
		w, err := streamv1.NewStreamServiceClient(s.Conn).Write(c)
		if err != nil {
			return nil, err
		}
		for i, el := range els {
			if err := w.Send(&streamv1.WriteRequest{Metadata: md, Element: el, MessageId: uint64(i + 1)}); err != nil {
				return nil, fmt.Errorf("send %d: %w", i, err)
			}
		}
		if err := w.CloseSend(); err != nil {
			return nil, err
		}
		acks := map[uint64]string{}
		for {
			r, err := w.Recv()
			if errors.Is(err, io.EOF) {
				return acks, nil
			}
			if err != nil {
				return nil, fmt.Errorf("recv: %w", err)
			}
			acks[r.GetMessageId()] = r.GetStatus()
		}
	})
}

// WriteTrace writes spans (tag values in schema order + span payload) through TraceService.Write; the kit assigns
// version = 1..n as the per-message id and waits for one successful acknowledgement per message.
func (s *Server) WriteTrace(group, name string, spans []*tracev1.WriteRequest) {
	c0, cancel := ctx()
	g, err := databasev1.NewTraceRegistryServiceClient(s.Conn).Get(c0, &databasev1.TraceRegistryServiceGetRequest{Metadata: &commonv1.Metadata{Group: group, Name: name}})
	cancel()
	if err != nil {
		Fatal("get trace %s/%s: %v", group, name, err)
	}
	md := g.GetTrace().GetMetadata()
	writeLoop("trace "+group+"/"+name, len(spans), func() (map[uint64]string, error) {
		c, cancel := ctx()
		defer cancel()
		w, err := tracev1.NewTraceServiceClient(s.Conn).Write(c)
		if err != nil {
			return nil, err
		}
		for i, sp := range spans {
			if err := w.Send(&tracev1.WriteRequest{Metadata: md, Tags: sp.GetTags(), Span: sp.GetSpan(), Version: uint64(i + 1), TagSpec: sp.GetTagSpec()}); err != nil {
				return nil, fmt.Errorf("send %d: %w", i, err)
			}
		}
		if err := w.CloseSend(); err != nil {
			return nil, err
		}
		acks := map[uint64]string{}
		for {
			r, err := w.Recv()
			if errors.Is(err, io.EOF) {
				return acks, nil
			}
			if err != nil {
				return nil, fmt.Errorf("recv: %w", err)
			}
			acks[r.GetVersion()] = r.GetStatus()
		}
	})
}

// ---------------------------------------------------------------------------------------------------------------
// queries: the response or the gRPC status (code + message) — errors are data for differential checks

// QueryMeasure runs MeasureService.Query.
func (s *Server) QueryMeasure(req *measurev1.QueryRequest) (*measurev1.QueryResponse, codes.Code, string) {
	c, cancel := ctx()
	defer cancel()
	r, err := measurev1.NewMeasureServiceClient(s.Conn).Query(c, req)
	if err != nil {
		st, _ := status.FromError(err)
		return nil, st.Code(), st.Message()
	}
	return r, codes.OK, ""
}

// QueryStream runs StreamService.Query.
func (s *Server) QueryStream(req *streamv1.QueryRequest) (*streamv1.QueryResponse, codes.Code, string) {
	c, cancel := ctx()
	defer cancel()
	r, err := streamv1.NewStreamServiceClient(s.Conn).Query(c, req)
	if err != nil {
		st, _ := status.FromError(err)
		return nil, st.Code(), st.Message()
	}
	return r, codes.OK, ""
}

// QueryTrace runs TraceService.Query.
func (s *Server) QueryTrace(req *tracev1.QueryRequest) (*tracev1.QueryResponse, codes.Code, string) {
	c, cancel := ctx()
	defer cancel()
	r, err := tracev1.NewTraceServiceClient(s.Conn).Query(c, req)
	if err != nil {
		st, _ := status.FromError(err)
		return nil, st.Code(), st.Message()
	}
	return r, codes.OK, ""
}

// ---------------------------------------------------------------------------------------------------------------
// part layout

// Parts returns the number of parts in the current snapshots of a group (memory + file parts, summed over segments
// and shards) and the number of data rows in them, as reported by GroupRegistryService.Inspect. (Inspect's own
// file_part_count also counts memory parts, so the kit does not use it; see DiskParts.)
func (s *Server) Parts(group string) (parts, dataCount int64) {
	c, cancel := ctx()
	defer cancel()
	r, err := databasev1.NewGroupRegistryServiceClient(s.Conn).Inspect(c, &databasev1.GroupRegistryServiceInspectRequest{Group: group})
	if err != nil {
		Fatal("inspect %s: %v", group, err)
	}
	for _, d := range r.GetDataInfo() {
		for _, sg := range d.GetSegmentInfo() {
			for _, sh := range sg.GetShardInfo() {
				parts += sh.GetPartCount()
				dataCount += sh.GetDataCount()
			}
		}
	}
	return
}

// DiskParts counts the flushed parts of a group on disk: part directories (with a metadata.json) named by the
// newest *.snp manifest of every <Dir>/<engine>/data/<group>/seg-*/shard-*/ directory. engine = measure|stream|trace.
func (s *Server) DiskParts(engine, group string) (n int64) {
	shards, _ := filepath.Glob(filepath.Join(s.Dir, engine, "data", group, "seg-*", "shard-*"))
	for _, sh := range shards {
		snps, _ := filepath.Glob(filepath.Join(sh, "*.snp"))
		var best string
		var bestEpoch uint64
		for _, p := range snps {
			e, err := strconv.ParseUint(strings.TrimSuffix(filepath.Base(p), ".snp"), 16, 64)
			if err == nil && (best == "" || e > bestEpoch) {
				best, bestEpoch = p, e
			}
		}
		if best == "" {
			continue
		}
		raw, err := os.ReadFile(best)
		if err != nil {
			continue
		}
		var names []string
		if json.Unmarshal(raw, &names) != nil {
			continue
		}
		for _, nm := range names {
			if _, err := os.Stat(filepath.Join(sh, nm, "metadata.json")); err == nil {
				n++
			}
		}
	}
	return
}

// WaitFlushed polls until the group has at least one part and every part of the current snapshots is on disk
// (requires a short --<engine>-flush-timeout). Not a verdict: gives up with a harness failure after ~60 s.
func (s *Server) WaitFlushed(engine, group string) (parts int64) {
	var p, d int64
	for i := 0; i < 600; i++ {
		p, _ = s.Parts(group)
		d = s.DiskParts(engine, group)
		if p > 0 && p == d {
			return p
		}
		time.Sleep(100 * time.Millisecond)
	}
	Fatal("group %s never fully flushed: parts=%d on disk=%d", group, p, d)
	return 0
}

// DirSize is a helper for diagnostics: bytes under the server's data directory.
func (s *Server) DirSize() (n int64) {
	_ = filepath.Walk(s.Dir, func(_ string, info os.FileInfo, err error) error {
		if err == nil && !info.IsDir() {
			n += info.Size()
		}
		return nil
	})
	return
}
