package e2e

// In-process CLUSTER: k data nodes (each with the meta role = a property schema server) + one liaison, started with
// the same building blocks upstream's distributed integration tests use (pkg/test/setup: file-based node discovery,
// property-based schema registry). One cluster per worker subprocess; the worker just exits (see package comment).

import (
	"context"
	"fmt"
	"os"
	"path/filepath"
	"regexp"
	"sort"
	"strconv"
	"strings"
	"time"

	"github.com/onsi/gomega"
	"google.golang.org/grpc"
	"google.golang.org/grpc/credentials/insecure"

	commonv1 "github.com/apache/skywalking-banyandb/api/proto/banyandb/common/v1"
	databasev1 "github.com/apache/skywalking-banyandb/api/proto/banyandb/database/v1"
	"github.com/apache/skywalking-banyandb/banyand/metadata/schema"
	"github.com/apache/skywalking-banyandb/pkg/test/setup"
)

// DataNode is one data node of a Cluster.
type DataNode struct {
	Addr string // gRPC address (localhost:port); the node's name in the cluster is 127.0.0.1:port
	Dir  string // root path of measure / stream / trace data
}

// Cluster is a liaison plus data nodes. The embedded Server talks to the liaison: every schema / write / query helper
// of the standalone kit works unchanged.
type Cluster struct {
	*Server
	LiaisonDir string
	Data       []DataNode
}

// BootGroup is the (empty) group the kit preloads: the liaison start-up of pkg/test/setup waits until the schema
// registry lists at least one group.
const BootGroup = "verif-boot"

// StartCluster starts nData data nodes and one liaison. Flags apply to every node (e.g. "--logging-level=fatal");
// liaisonFlags only to the liaison. Everything lives under /dev/shm/verif-e2e-<pid>-<n>.
func StartCluster(nData int, flags []string, liaisonFlags ...string) *Cluster {
	gomega.RegisterFailHandler(func(message string, _ ...int) {
		Fatal("gomega: %s", strings.ReplaceAll(message, "\n", " | "))
	})
	root := fmt.Sprintf("/dev/shm/verif-e2e-%d-%d", os.Getpid(), seq.Add(1))
	_ = os.RemoveAll(root)
	if err := os.MkdirAll(root, 0o755); err != nil {
		Fatal("mkdir %s: %v", root, err)
	}
	dirs = append(dirs, root)
	// setup's liaison helper takes its directory from os.MkdirTemp: keep it under the root
	_ = os.Setenv("TMPDIR", root)
	ff := append([]string{"--logging-level=fatal", "--logging-env=prod"}, flags...)
	cfg := setup.PropertyClusterConfig(setup.NewDiscoveryFileWriter(root))
	c := &Cluster{}
	for i := 0; i < nData; i++ {
		d := filepath.Join(root, fmt.Sprintf("data%d", i))
		if err := os.MkdirAll(d, 0o755); err != nil {
			Fatal("mkdir %s: %v", d, err)
		}
		addr, _, _, _ := setup.DataNodeFromDataDir(cfg, d, append([]string(nil), ff...)...)
		c.Data = append(c.Data, DataNode{Addr: addr, Dir: d})
	}
	setup.PreloadSchemaViaProperty(cfg, func(ctx context.Context, reg schema.Registry) error {
		_, err := reg.CreateGroup(ctx, &commonv1.Group{
			Metadata: &commonv1.Metadata{Name: BootGroup},
			Catalog:  commonv1.Catalog_CATALOG_MEASURE,
			ResourceOpts: &commonv1.ResourceOpts{
				ShardNum:        1,
				SegmentInterval: &commonv1.IntervalRule{Unit: commonv1.IntervalRule_UNIT_DAY, Num: 1},
				Ttl:             &commonv1.IntervalRule{Unit: commonv1.IntervalRule_UNIT_DAY, Num: 7},
			},
		})
		return err
	})
	lf := append(append([]string(nil), ff...), liaisonFlags...)
	addr, ldir, _ := setup.LiaisonNodeWithAddrAndDir(cfg, lf...)
	conn, err := grpc.NewClient(addr, grpc.WithTransportCredentials(insecure.NewCredentials()),
		grpc.WithDefaultCallOptions(grpc.MaxCallRecvMsgSize(64<<20)))
	if err != nil {
		Fatal("dial liaison: %v", err)
	}
	c.Server = &Server{Addr: addr, Conn: conn, Dir: root}
	c.LiaisonDir = ldir
	return c
}

// CreateGroupR is CreateGroup with a replica count (copies per shard = replicas+1).
func (s *Server) CreateGroupR(name string, catalog commonv1.Catalog, shards, replicas, segmentDays, ttlDays uint32) {
	c, cancel := ctx()
	defer cancel()
	r, err := databasev1.NewGroupRegistryServiceClient(s.Conn).Create(c, &databasev1.GroupRegistryServiceCreateRequest{Group: &commonv1.Group{
		Metadata: &commonv1.Metadata{Name: name},
		Catalog:  catalog,
		ResourceOpts: &commonv1.ResourceOpts{
			ShardNum:        shards,
			Replicas:        replicas,
			SegmentInterval: &commonv1.IntervalRule{Unit: commonv1.IntervalRule_UNIT_DAY, Num: segmentDays},
			Ttl:             &commonv1.IntervalRule{Unit: commonv1.IntervalRule_UNIT_DAY, Num: ttlDays},
		},
	}})
	if err != nil {
		Fatal("create group %s: %v", name, err)
	}
	s.awaitRev(r.GetModRevision())
}

// Delivery is what GroupRegistryService.Inspect on the liaison reports about a group.
type Delivery struct {
	PendingWrite int64 // liaison: data points accepted but not yet in a part of the write queue
	PendingSync  int64 // liaison: parts of the write queue not yet shipped to the data nodes
	DataRows     int64 // data nodes: rows in all shards of all segments (replicas counted)
	DataParts    int64
	Nodes        int // data nodes that answered
}

// Delivery asks the liaison for the delivery state of a group (the documented signal: liaison_info.pending_* and the
// per-node shard data counts). err != nil when Inspect itself fails (e.g. right after the group was created).
func (c *Cluster) Delivery(group string) (Delivery, error) {
	cx, cancel := ctx()
	defer cancel()
	r, err := databasev1.NewGroupRegistryServiceClient(c.Conn).Inspect(cx, &databasev1.GroupRegistryServiceInspectRequest{Group: group})
	if err != nil {
		return Delivery{}, err
	}
	var d Delivery
	for _, li := range r.GetLiaisonInfo() {
		d.PendingWrite += li.GetPendingWriteDataCount()
		d.PendingSync += li.GetPendingSyncPartCount()
	}
	for _, di := range r.GetDataInfo() {
		d.Nodes++
		for _, sg := range di.GetSegmentInfo() {
			for _, sh := range sg.GetShardInfo() {
				d.DataRows += sh.GetDataCount()
				d.DataParts += sh.GetPartCount()
			}
		}
	}
	return d, nil
}

// Delivery states of WaitDelivered.
const (
	Delivered = "delivered" // nothing pending on the liaison, the data nodes hold the expected rows
	Quiescent = "quiescent" // nothing pending and nothing moving for 10 s, but the data nodes hold FEWER rows than written
	Horizon   = "horizon"   // the liaison still reports pending work at the horizon (not a verdict)
)

// WaitDelivered polls the documented signal until the liaison reports nothing pending for the group (pending write data
// count and pending sync part count both 0) and the data nodes hold wantRows rows (rows x copies), seen twice in a row.
// If nothing is pending and the row count has not moved for 10 s while still short of wantRows, the queue IS delivered
// and rows are missing: Quiescent (the caller goes on and judges). Horizon = pending work never drained: the caller
// must treat that as "not exhaustive", never as a verdict.
func (c *Cluster) WaitDelivered(group string, wantRows int64, horizon time.Duration) (Delivery, string) {
	deadline := time.Now().Add(horizon)
	var last Delivery
	ok, same := 0, 0
	for time.Now().Before(deadline) {
		d, err := c.Delivery(group)
		if err == nil {
			idle := d.PendingWrite == 0 && d.PendingSync == 0
			if idle && d.DataRows >= wantRows {
				ok++
				if ok >= 2 {
					return d, Delivered
				}
			} else {
				ok = 0
			}
			if idle && d == last {
				same++
				if same >= 40 {
					return d, Quiescent
				}
			} else {
				same = 0
			}
			last = d
		}
		time.Sleep(250 * time.Millisecond)
	}
	return last, Horizon
}

// ---------------------------------------------------------------------------------------------------------------
// placement: what lies where on the data nodes' disks

// ShardDir is one <engine>/data/<group>/seg-<yyyymmdd>/shard-<n> directory of a data node.
type ShardDir struct {
	Path    string
	SegName string // e.g. seg-20260921
	Node    int
	Shard   uint32
	Parts   []string // part directories named by the newest manifest
}

var shardRe = regexp.MustCompile(`^shard-(\d+)$`)

// ShardDirs lists the shard directories of a group on every data node (engine = measure|stream|trace) together with
// the parts their newest manifest names.
func (c *Cluster) ShardDirs(engine, group string) []ShardDir {
	var out []ShardDir
	for ni, dn := range c.Data {
		paths, _ := filepath.Glob(filepath.Join(dn.Dir, engine, "data", group, "seg-*", "shard-*"))
		sort.Strings(paths)
		for _, p := range paths {
			m := shardRe.FindStringSubmatch(filepath.Base(p))
			if m == nil {
				continue
			}
			id, _ := strconv.ParseUint(m[1], 10, 32)
			sd := ShardDir{Path: p, Node: ni, Shard: uint32(id), SegName: filepath.Base(filepath.Dir(p))}
			snps, _ := filepath.Glob(filepath.Join(p, "*.snp"))
			var best string
			var bestEpoch uint64
			for _, s := range snps {
				e, err := strconv.ParseUint(strings.TrimSuffix(filepath.Base(s), ".snp"), 16, 64)
				if err == nil && (best == "" || e > bestEpoch) {
					best, bestEpoch = s, e
				}
			}
			if best != "" {
				if raw, err := os.ReadFile(best); err == nil {
					for _, f := range strings.FieldsFunc(string(raw), func(r rune) bool { return r == '[' || r == ']' || r == '"' || r == ',' || r == ' ' || r == '\n' }) {
						if _, err := os.Stat(filepath.Join(p, f, "metadata.json")); err == nil {
							sd.Parts = append(sd.Parts, f)
						}
					}
				}
			}
			out = append(out, sd)
		}
	}
	return out
}
