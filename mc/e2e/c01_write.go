package e2e

// Acknowledgement-exact write helpers for check C01: they return at the moment the LAST acknowledgement of the batch
// has been received (not at the end of the stream), so that the caller can query "immediately after the
// acknowledgement"; the returned drain function reads the stream to its end afterwards.

import (
	"context"
	"errors"
	"fmt"
	"io"
	"time"

	"google.golang.org/protobuf/proto"

	commonv1 "github.com/apache/skywalking-banyandb/api/proto/banyandb/common/v1"
	databasev1 "github.com/apache/skywalking-banyandb/api/proto/banyandb/database/v1"
	measurev1 "github.com/apache/skywalking-banyandb/api/proto/banyandb/measure/v1"
	streamv1 "github.com/apache/skywalking-banyandb/api/proto/banyandb/stream/v1"
	tracev1 "github.com/apache/skywalking-banyandb/api/proto/banyandb/trace/v1"
)

// writeCtx: one write stream may carry thousands of messages on a heavily loaded machine; the kit's 60 s would turn
// load into harness failures.
func writeCtx() (context.Context, context.CancelFunc) {
	return context.WithTimeout(context.Background(), 15*time.Minute)
}

// ackLoop sends with send(i), then receives until n acknowledgements arrived. It returns the number of successful
// acknowledgements, whether every failure was a "schema not there yet" status, and the drain function.
func ackLoop(what string, n int, send func(i int) error, closeSend func() error, recv func() (uint64, string, error)) (ok, retry int, drain func()) {
	for i := 0; i < n; i++ {
		if err := send(i); err != nil {
			Fatal("write %s: send %d: %v", what, i, err)
		}
	}
	if err := closeSend(); err != nil {
		Fatal("write %s: close send: %v", what, err)
	}
	seen := map[uint64]bool{}
	for len(seen) < n {
		id, st, err := recv()
		if errors.Is(err, io.EOF) {
			Fatal("write %s: stream ended after %d of %d acknowledgements", what, len(seen), n)
		}
		if err != nil {
			Fatal("write %s: recv: %v", what, err)
		}
		if seen[id] {
			Fatal("write %s: message %d acknowledged twice", what, id)
		}
		seen[id] = true
		switch {
		case st == succeed:
			ok++
		case retryable(st):
			retry++
		default:
			Fatal("write %s: message %d rejected with %s", what, id, st)
		}
	}
	return ok, retry, func() {
		for {
			if _, _, err := recv(); err != nil {
				return
			}
		}
	}
}

func ackRetry(what string, n int, once func() (ok, retry int, drain func())) func() {
	for attempt := 0; attempt < 40; attempt++ {
		ok, retry, drain := once()
		if ok == n {
			return drain
		}
		drain()
		if ok == 0 && retry > 0 {
			time.Sleep(250 * time.Millisecond)
			continue
		}
		Fatal("write %s: %d messages, %d acknowledged ok, %d retryable", what, n, ok, retry)
	}
	Fatal("write %s: schema never became writable", what)
	return nil
}

// C01MeasureMetadata fetches the metadata (with mod revision) of a measure.
func (s *Server) C01MeasureMetadata(group, name string) *commonv1.Metadata {
	c0, cancel := ctx()
	defer cancel()
	g, err := databasev1.NewMeasureRegistryServiceClient(s.Conn).Get(c0, &databasev1.MeasureRegistryServiceGetRequest{Metadata: &commonv1.Metadata{Group: group, Name: name}})
	if err != nil {
		Fatal("get measure %s/%s: %v", group, name, err)
	}
	return g.GetMeasure().GetMetadata()
}

// C01WriteMeasure writes one batch through MeasureService.Write and returns when its last acknowledgement arrived.
func (s *Server) C01WriteMeasure(md *commonv1.Metadata, dps []*measurev1.DataPointValue) (drain func()) {
	what := "measure " + md.GetGroup() + "/" + md.GetName()
	return ackRetry(what, len(dps), func() (int, int, func()) {
		c, cancel := writeCtx()
		w, err := measurev1.NewMeasureServiceClient(s.Conn).Write(c)
		if err != nil {
			Fatal("write %s: %v", what, err)
		}
		ok, retry, drain := ackLoop(what, len(dps),
			func(i int) error {
				return w.Send(&measurev1.WriteRequest{Metadata: md, DataPoint: proto.Clone(dps[i]).(*measurev1.DataPointValue), MessageId: uint64(i + 1)})
			},
			w.CloseSend,
			func() (uint64, string, error) {
				r, err := w.Recv()
				return r.GetMessageId(), r.GetStatus(), err
			})
		return ok, retry, func() { drain(); cancel() }
	})
}

// C01StreamMetadata fetches the metadata of a stream.
func (s *Server) C01StreamMetadata(group, name string) *commonv1.Metadata {
	c0, cancel := ctx()
	defer cancel()
	g, err := databasev1.NewStreamRegistryServiceClient(s.Conn).Get(c0, &databasev1.StreamRegistryServiceGetRequest{Metadata: &commonv1.Metadata{Group: group, Name: name}})
	if err != nil {
		Fatal("get stream %s/%s: %v", group, name, err)
	}
	return g.GetStream().GetMetadata()
}

// C01WriteStream writes one batch through StreamService.Write and returns when its last acknowledgement arrived.
func (s *Server) C01WriteStream(md *commonv1.Metadata, els []*streamv1.ElementValue) (drain func()) {
	what := "stream " + md.GetGroup() + "/" + md.GetName()
	return ackRetry(what, len(els), func() (int, int, func()) {
		c, cancel := writeCtx()
		w, err := streamv1.NewStreamServiceClient(s.Conn).Write(c)
		if err != nil {
			Fatal("write %s: %v", what, err)
		}
		ok, retry, drain := ackLoop(what, len(els),
			func(i int) error {
				return w.Send(&streamv1.WriteRequest{Metadata: md, Element: els[i], MessageId: uint64(i + 1)})
			},
			w.CloseSend,
			func() (uint64, string, error) {
				r, err := w.Recv()
				return r.GetMessageId(), r.GetStatus(), err
			})
		return ok, retry, func() { drain(); cancel() }
	})
}

// C01TraceMetadata fetches the metadata of a trace schema.
func (s *Server) C01TraceMetadata(group, name string) *commonv1.Metadata {
	c0, cancel := ctx()
	defer cancel()
	g, err := databasev1.NewTraceRegistryServiceClient(s.Conn).Get(c0, &databasev1.TraceRegistryServiceGetRequest{Metadata: &commonv1.Metadata{Group: group, Name: name}})
	if err != nil {
		Fatal("get trace %s/%s: %v", group, name, err)
	}
	return g.GetTrace().GetMetadata()
}

// C01WriteTrace writes one batch of spans through TraceService.Write (version = message number) and returns when its
// last acknowledgement arrived.
func (s *Server) C01WriteTrace(md *commonv1.Metadata, spans []*tracev1.WriteRequest) (drain func()) {
	what := "trace " + md.GetGroup() + "/" + md.GetName()
	return ackRetry(what, len(spans), func() (int, int, func()) {
		c, cancel := writeCtx()
		w, err := tracev1.NewTraceServiceClient(s.Conn).Write(c)
		if err != nil {
			Fatal("write %s: %v", what, err)
		}
		ok, retry, drain := ackLoop(what, len(spans),
			func(i int) error {
				return w.Send(&tracev1.WriteRequest{Metadata: md, Tags: spans[i].GetTags(), Span: spans[i].GetSpan(), Version: uint64(i + 1)})
			},
			w.CloseSend,
			func() (uint64, string, error) {
				r, err := w.Recv()
				return r.GetVersion(), r.GetStatus(), err
			})
		return ok, retry, func() { drain(); cancel() }
	})
}

// C01Describe renders a short description for harness messages.
func C01Describe(md *commonv1.Metadata) string {
	return fmt.Sprintf("%s/%s@%d", md.GetGroup(), md.GetName(), md.GetModRevision())
}
