// Package vos is a logging pass-through for the subset of package os that pkg/fs uses (Engine C, DESIGN §2.4).
//
// pkg/fs is compiled from a copy whose import "os" is redirected here (tools/rewrite -mode fs). Every call performs the
// real operation; while recording is on, every *successful state-changing* primitive is appended to a global in-memory
// log: open/create, write (with offset and payload), fsync, close, rename, unlink, rmdir, mkdir, link. os.RemoveAll and
// os.MkdirAll are expanded into their primitive steps in a deterministic (sorted) order. Only the identifiers pkg/fs
// uses exist here, so a new use of package os in pkg/fs is a build error, never a silent bypass of the log.
//
// VerifGo replaces `go` statements of files rewritten with -mode fsgo: while recording, the body is not started as a
// goroutine but executed under the control of the harness (immediately at the spawn point, or queued until
// VerifDrain), which makes the log deterministic. Without recording it is a plain goroutine.
package vos

import (
	"io"
	"os"
	"path/filepath"
	"sync"
	"syscall"
)

// Aliases and constants of package os used by pkg/fs.
type (
	// FileMode is os.FileMode.
	FileMode = os.FileMode
	// FileInfo is os.FileInfo.
	FileInfo = os.FileInfo
)

// Flags and mode bits used by pkg/fs.
const (
	O_RDWR      = os.O_RDWR
	O_CREATE    = os.O_CREATE
	O_TRUNC     = os.O_TRUNC
	ModeSymlink = os.ModeSymlink
	// the remaining open flags: not used by pkg/fs today, present so that an edit of an open call still builds
	// (the flags are recorded with every open and honoured by the model file system)
	O_RDONLY = os.O_RDONLY
	O_WRONLY = os.O_WRONLY
	O_APPEND = os.O_APPEND
	O_EXCL   = os.O_EXCL
	O_SYNC   = os.O_SYNC
)

// Op is one recorded primitive.
type Op struct {
	Kind  string `json:"k"`           // open write fsync fdatasync close rename unlink rmdir mkdir link mark
	Path  string `json:"p,omitempty"` // absolute path (open: the file; rename/link: source)
	Path2 string `json:"q,omitempty"` // rename/link destination
	Note  string `json:"n,omitempty"` // mark: harness text
	Data  []byte `json:"d,omitempty"` // write payload
	Off   int64  `json:"o,omitempty"` // write offset
	H     int    `json:"h,omitempty"` // handle id (open, write, fsync, fdatasync, close)
	Flags int    `json:"f,omitempty"` // open flags
}

var (
	mu        sync.Mutex
	recording bool
	log       []Op
	nextH     int
	byFd      = map[uintptr]*File{}
	goMode    int // 0 immediate, 1 queued
	goQueue   []func()
	spawned   int
)

func rec(op Op) {
	if recording {
		log = append(log, op)
	}
}

// VerifStart clears the log and switches recording on. queued selects how VerifGo bodies run while recording:
// false = synchronously at the spawn point (earliest possible schedule), true = queued until VerifDrain.
func VerifStart(queued bool) {
	mu.Lock()
	defer mu.Unlock()
	recording = true
	log = nil
	nextH = 0
	goQueue = nil
	spawned = 0
	goMode = 0
	if queued {
		goMode = 1
	}
}

// VerifStop switches recording off and returns the log.
func VerifStop() []Op {
	mu.Lock()
	defer mu.Unlock()
	recording = false
	l := log
	log = nil
	return l
}

// VerifMark appends a harness marker (acknowledgement, step boundary) to the log.
func VerifMark(note string) {
	mu.Lock()
	defer mu.Unlock()
	rec(Op{Kind: "mark", Note: note})
}

// VerifGo runs fn as a goroutine, or under harness control while recording (see package comment).
func VerifGo(fn func()) {
	mu.Lock()
	if !recording {
		mu.Unlock()
		go fn()
		return
	}
	spawned++
	rec(Op{Kind: "mark", Note: "spawn"})
	if goMode == 1 {
		goQueue = append(goQueue, fn)
		mu.Unlock()
		return
	}
	mu.Unlock()
	fn()
}

// VerifDrain runs the queued VerifGo bodies in spawn order and returns how many ran.
func VerifDrain() int {
	mu.Lock()
	q := goQueue
	goQueue = nil
	mu.Unlock()
	for _, fn := range q {
		fn()
	}
	return len(q)
}

// VerifSpawned returns the number of VerifGo calls since VerifStart.
func VerifSpawned() int {
	mu.Lock()
	defer mu.Unlock()
	return spawned
}

// VerifFdatasync is called by vunix.Fdatasync after a successful fdatasync(fd).
func VerifFdatasync(fd int) {
	mu.Lock()
	defer mu.Unlock()
	if f, ok := byFd[uintptr(fd)]; ok {
		rec(Op{Kind: "fdatasync", H: f.h, Path: f.f.Name()})
	} else if recording {
		rec(Op{Kind: "mark", Note: "fdatasync of unknown fd"})
	}
}

// File wraps *os.File.
type File struct {
	f *os.File
	h int
}

func wrap(f *os.File, name string, flags int) *File {
	nextH++
	vf := &File{f: f, h: nextH}
	byFd[f.Fd()] = vf
	rec(Op{Kind: "open", Path: name, H: vf.h, Flags: flags})
	return vf
}

// OpenFile is os.OpenFile.
func OpenFile(name string, flag int, perm FileMode) (*File, error) {
	mu.Lock()
	defer mu.Unlock()
	f, err := os.OpenFile(name, flag, perm)
	if err != nil {
		return nil, err
	}
	return wrap(f, name, flag), nil
}

// Open is os.Open.
func Open(name string) (*File, error) {
	mu.Lock()
	defer mu.Unlock()
	f, err := os.Open(name)
	if err != nil {
		return nil, err
	}
	return wrap(f, name, os.O_RDONLY), nil
}

// Fd is (*os.File).Fd.
func (f *File) Fd() uintptr { return f.f.Fd() }

// Name is (*os.File).Name.
func (f *File) Name() string { return f.f.Name() }

// Read is (*os.File).Read.
func (f *File) Read(b []byte) (int, error) { return f.f.Read(b) }

// ReadAt is (*os.File).ReadAt.
func (f *File) ReadAt(b []byte, off int64) (int, error) { return f.f.ReadAt(b, off) }

// Seek is (*os.File).Seek.
func (f *File) Seek(offset int64, whence int) (int64, error) { return f.f.Seek(offset, whence) }

// Write is (*os.File).Write.
func (f *File) Write(b []byte) (int, error) {
	mu.Lock()
	defer mu.Unlock()
	var off int64
	if recording {
		var err error
		if off, err = f.f.Seek(0, io.SeekCurrent); err != nil {
			return 0, err
		}
	}
	n, err := f.f.Write(b)
	if n > 0 && recording {
		rec(Op{Kind: "write", Path: f.f.Name(), H: f.h, Off: off, Data: append([]byte(nil), b[:n]...)})
	}
	return n, err
}

// Sync is (*os.File).Sync.
func (f *File) Sync() error {
	mu.Lock()
	defer mu.Unlock()
	err := f.f.Sync()
	if err == nil {
		rec(Op{Kind: "fsync", H: f.h, Path: f.f.Name()})
	}
	return err
}

// Close is (*os.File).Close.
func (f *File) Close() error {
	mu.Lock()
	defer mu.Unlock()
	fd := f.f.Fd()
	err := f.f.Close()
	if err == nil {
		if byFd[fd] == f {
			delete(byFd, fd)
		}
		rec(Op{Kind: "close", H: f.h, Path: f.f.Name()})
	}
	return err
}

// Stat is os.Stat.
func Stat(name string) (FileInfo, error) { return os.Stat(name) }

// Lstat is os.Lstat.
func Lstat(name string) (FileInfo, error) { return os.Lstat(name) }

// ReadDir is os.ReadDir.
func ReadDir(name string) ([]os.DirEntry, error) { return os.ReadDir(name) }

// ReadFile is os.ReadFile.
func ReadFile(name string) ([]byte, error) { return os.ReadFile(name) }

// IsExist is os.IsExist.
func IsExist(err error) bool { return os.IsExist(err) }

// IsNotExist is os.IsNotExist.
func IsNotExist(err error) bool { return os.IsNotExist(err) }

// IsPermission is os.IsPermission.
func IsPermission(err error) bool { return os.IsPermission(err) }

// Rename is os.Rename.
func Rename(oldpath, newpath string) error {
	mu.Lock()
	defer mu.Unlock()
	err := os.Rename(oldpath, newpath)
	if err == nil {
		rec(Op{Kind: "rename", Path: oldpath, Path2: newpath})
	}
	return err
}

// Link is os.Link.
func Link(oldname, newname string) error {
	mu.Lock()
	defer mu.Unlock()
	err := os.Link(oldname, newname)
	if err == nil {
		rec(Op{Kind: "link", Path: oldname, Path2: newname})
	}
	return err
}

func remove(name string) error {
	fi, lerr := os.Lstat(name)
	err := os.Remove(name)
	if err == nil && lerr == nil {
		if fi.IsDir() {
			rec(Op{Kind: "rmdir", Path: name})
		} else {
			rec(Op{Kind: "unlink", Path: name})
		}
	}
	return err
}

// Remove is os.Remove.
func Remove(name string) error {
	mu.Lock()
	defer mu.Unlock()
	return remove(name)
}

// RemoveAll is os.RemoveAll expanded into unlink/rmdir steps, children in sorted order, post-order.
func RemoveAll(path string) error {
	mu.Lock()
	defer mu.Unlock()
	return removeAll(path)
}

func removeAll(path string) error {
	fi, err := os.Lstat(path)
	if err != nil {
		if os.IsNotExist(err) {
			return nil
		}
		return err
	}
	if fi.IsDir() {
		ents, rerr := os.ReadDir(path) // sorted by name
		if rerr != nil {
			return rerr
		}
		for _, e := range ents {
			if cerr := removeAll(filepath.Join(path, e.Name())); cerr != nil {
				return cerr
			}
		}
	}
	return remove(path)
}

// MkdirAll is os.MkdirAll expanded into one mkdir per missing ancestor, top-down.
func MkdirAll(path string, perm FileMode) error {
	mu.Lock()
	defer mu.Unlock()
	return mkdirAll(filepath.Clean(path), perm)
}

func mkdirAll(path string, perm FileMode) error {
	if fi, err := os.Stat(path); err == nil {
		if fi.IsDir() {
			return nil
		}
		return &os.PathError{Op: "mkdir", Path: path, Err: syscall.ENOTDIR}
	}
	if parent := filepath.Dir(path); parent != path {
		if err := mkdirAll(parent, perm); err != nil {
			return err
		}
	}
	if err := os.Mkdir(path, perm); err != nil {
		if fi, serr := os.Stat(path); serr == nil && fi.IsDir() {
			return nil
		}
		return err
	}
	rec(Op{Kind: "mkdir", Path: path})
	return nil
}
