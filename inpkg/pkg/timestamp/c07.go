//go:build verif

package timestamp

// VAction returns the action registered under name (nil if there is none), so that a harness can run the very
// object the scheduler would run, synchronously and at a time of its choosing.
func (s *Scheduler) VAction(name string) SchedulerAction {
	s.RLock()
	defer s.RUnlock()
	t, ok := s.tasks[name]
	if !ok {
		return nil
	}
	return t.action
}
