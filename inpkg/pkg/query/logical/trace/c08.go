//go:build verif

package trace

import (
	databasev1 "github.com/apache/skywalking-banyandb/api/proto/banyandb/database/v1"
	modelv1 "github.com/apache/skywalking-banyandb/api/proto/banyandb/model/v1"
	"github.com/apache/skywalking-banyandb/pkg/index"
	pbv1 "github.com/apache/skywalking-banyandb/pkg/pb/v1"
)

// VC08Filter compiles criteria with the real buildTraceFilter (the block filter handed to the sidx) and returns the
// filter and the key bounds derived from conditions on the order-by tag.
func VC08Filter(criteria *modelv1.Criteria, tr *databasev1.Trace, rules []*databasev1.IndexRule, orderByTag string) (index.Filter, int64, int64, error) {
	s, err := BuildSchema(tr, rules)
	if err != nil {
		return nil, 0, 0, err
	}
	entityList := s.EntityList()
	entityDict := make(map[string]int)
	entity := make([]*modelv1.TagValue, len(entityList))
	for idx, e := range entityList {
		entityDict[e] = idx
		entity[idx] = pbv1.AnyTagValue
	}
	f, _, _, _, lo, hi, err := buildTraceFilter(criteria, s, entityDict, entity, tr.GetTraceIdTagName(), tr.GetSpanIdTagName(), orderByTag)
	return f, lo, hi, err
}
