//go:build verif

package stream

import (
	databasev1 "github.com/apache/skywalking-banyandb/api/proto/banyandb/database/v1"
	modelv1 "github.com/apache/skywalking-banyandb/api/proto/banyandb/model/v1"
	"github.com/apache/skywalking-banyandb/pkg/index"
	pbv1 "github.com/apache/skywalking-banyandb/pkg/pb/v1"
	"github.com/apache/skywalking-banyandb/pkg/query/logical"
)

// VC08LocalFilter compiles criteria with the real buildLocalFilter for the given index-rule type (the filter the
// stream plan hands to the storage layer as InvertedFilter / SkippingFilter).
func VC08LocalFilter(criteria *modelv1.Criteria, sm *databasev1.Stream, rules []*databasev1.IndexRule, typ databasev1.IndexRule_Type) (index.Filter, error) {
	s, err := BuildSchema(sm, rules)
	if err != nil {
		return nil, err
	}
	entityList := s.EntityList()
	entityDict := make(map[string]int)
	entity := make([]*modelv1.TagValue, len(entityList))
	for idx, e := range entityList {
		entityDict[e] = idx
		entity[idx] = pbv1.AnyTagValue
	}
	f, _, err := buildLocalFilter(criteria, s, entityDict, entity, typ)
	return f, err
}

// VC08TagFilter compiles the in-scan tag filter of the stream plan (logical.BuildTagFilter with the stream schema).
func VC08TagFilter(criteria *modelv1.Criteria, sm *databasev1.Stream, rules []*databasev1.IndexRule) (logical.TagFilter, logical.Schema, error) {
	s, err := BuildSchema(sm, rules)
	if err != nil {
		return nil, nil, err
	}
	entityDict := make(map[string]int)
	for idx, e := range s.EntityList() {
		entityDict[e] = idx
	}
	tf, err := logical.BuildTagFilter(criteria, entityDict, s, s, false, "")
	return tf, s, err
}

// VC08IsENode reports whether f is the "no index filter" marker.
func VC08IsENode(f index.Filter) bool { return f == ENode }
