//go:build verif

package stream

import (
	"context"

	streamv1 "github.com/apache/skywalking-banyandb/api/proto/banyandb/stream/v1"
	"github.com/apache/skywalking-banyandb/pkg/query/executor"
	"github.com/apache/skywalking-banyandb/pkg/query/logical"
)

// C09Child is a fake leaf plan for /verif check C09: every Execute returns the next chunk, then nil.
type C09Child struct {
	Chunks [][]*streamv1.Element
	pos    int
	Closed int
}

var (
	_ logical.Plan              = (*C09Child)(nil)
	_ executor.StreamExecutable = (*C09Child)(nil)
)

// Execute implements executor.StreamExecutable.
func (c *C09Child) Execute(context.Context) ([]*streamv1.Element, error) {
	if c.pos >= len(c.Chunks) {
		return nil, nil
	}
	c.pos++
	return c.Chunks[c.pos-1], nil
}

// Close implements executor.StreamExecutable.
func (c *C09Child) Close() { c.Closed++ }

// String implements logical.Plan.
func (c *C09Child) String() string { return "C09Child" }

// Children implements logical.Plan.
func (c *C09Child) Children() []logical.Plan { return nil }

// Schema implements logical.Plan.
func (c *C09Child) Schema() logical.Schema { return nil }

// C09Plan builds the real plan nodes over fake children:
//
//	merge=false: limit(child[0])                      (the local, single-group shape)
//	merge=true:  limit(mergePlan(children, by time))  (the multi-group shape)
//	distributed: distributedLimit instead of limit    (the liaison shape; its input returns everything at once)
func C09Plan(children []*C09Child, merge, desc, distributed bool, offsetNum, limitNum uint32) executor.StreamExecutable {
	var input logical.Plan
	if merge {
		mp := &mergePlan{sortByTime: true, desc: desc}
		for _, c := range children {
			mp.subPlans = append(mp.subPlans, c)
		}
		input = mp
	} else {
		input = children[0]
	}
	if distributed {
		dl := newDistributedLimit(nil, offsetNum, limitNum).(*distributedLimit)
		dl.Input = input
		return dl
	}
	l := newLimit(nil, offsetNum, limitNum).(*limit)
	l.Input = input
	return l
}
