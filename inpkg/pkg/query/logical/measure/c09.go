//go:build verif

package measure

import "github.com/apache/skywalking-banyandb/pkg/query/executor"

// C09LimitIterator exposes the row-path limit/offset iterator (limitPlan.Execute wraps its input in exactly this).
func C09LimitIterator(inner executor.MIterator, offset, limit uint32) executor.MIterator {
	return newLimitIterator(inner, offset, limit)
}
