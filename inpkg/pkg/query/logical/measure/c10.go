//go:build verif

package measure

import (
	measurev1 "github.com/apache/skywalking-banyandb/api/proto/banyandb/measure/v1"
	"github.com/apache/skywalking-banyandb/pkg/flow/streaming"
	"github.com/apache/skywalking-banyandb/pkg/query/logical"
)

// VerifC10Dedup exposes the replica de-duplication step the liaison runs on pushed-down partial aggregates
// before reducing them (distributedPlan.Execute).
func VerifC10Dedup(dps []*measurev1.InternalDataPoint, groupByTagsRefs [][]*logical.TagRef) ([]*measurev1.InternalDataPoint, error) {
	return deduplicateAggregatedDataPointsWithShard(dps, groupByTagsRefs)
}

// VerifC10GroupKey exposes the group-by key function shared by groupBy and the dedup step.
func VerifC10GroupKey(dp *measurev1.DataPoint, groupByTagsRefs [][]*logical.TagRef) (uint64, error) {
	return formatGroupByKey(dp, groupByTagsRefs)
}

// VerifC10TopIDP returns the data point a TopQueue element carries.
func VerifC10TopIDP[K streaming.TopSortKey](e TopElement[K]) *measurev1.InternalDataPoint {
	return e.idp
}
