//go:build verif

package measure

import (
	measurev1 "github.com/apache/skywalking-banyandb/api/proto/banyandb/measure/v1"
	"github.com/apache/skywalking-banyandb/pkg/query/vectorized/measure/frame"
)

// VerifC15EmitTyped is the tail of DrainPipelineToFrame (convertPassthroughForFrame + frame.Encode) applied to a
// passthrough batch built from data points: the data-node side of the columnar wire format with typed columns.
func VerifC15EmitTyped(idps []*measurev1.InternalDataPoint) ([]byte, error) {
	if len(idps) == 0 {
		return nil, nil
	}
	b, err := buildPassthroughBatchFromDataPoints(idps)
	if err != nil {
		return nil, err
	}
	c, err := convertPassthroughForFrame(b)
	if err != nil {
		return nil, err
	}
	return frame.Encode(c)
}
