//go:build verif

package plan

import (
	measurev1 "github.com/apache/skywalking-banyandb/api/proto/banyandb/measure/v1"
	measure "github.com/apache/skywalking-banyandb/pkg/query/vectorized/measure"
	"github.com/apache/skywalking-banyandb/pkg/query/vectorized/measure/frame"
)

// VerifC15MergeRows runs the liaison-side columnar row merge of a non-aggregated distributed measure query
// (mergeDistributedRows: k-way heap merge of the per-node frames + distributedRowEmitter version dedup) exactly as
// DistributedPlan.executeRows configures it for a time-ordered request, and materialises the merged batches through
// the frame codec.
func VerifC15MergeRows(frames [][]byte, desc bool, batchSize int) ([]*measurev1.InternalDataPoint, error) {
	batches, err := mergeDistributedRows(frames, distributedRowsSpec{Desc: desc, BatchSize: batchSize, OrderByColIdx: -1})
	if err != nil {
		return nil, err
	}
	var out []*measurev1.InternalDataPoint
	for _, b := range batches {
		if b == nil || b.ActiveLen() == 0 {
			continue
		}
		body, encErr := frame.Encode(b)
		if encErr != nil {
			return nil, encErr
		}
		idps, decErr := measure.DecodeFramesToInternalDataPoints([][]byte{body})
		if decErr != nil {
			return nil, decErr
		}
		out = append(out, idps...)
	}
	return out, nil
}
