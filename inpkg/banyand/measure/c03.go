//go:build verif

package measure

// C03 round 2: operation-granularity interleavings of two mergeParts runs. The output part of a merge is written through
// a counting file system (fs.FileSystem is a parameter of the real mergeParts); before file operation number `at` of the
// output (CreateFile, Write / sequential Write, WriteAtomic) a callback runs — the harness uses it to run a complete
// merge of another table of the same process, which shares every process-wide pool with the suspended merge.

import (
	"sync/atomic"

	"github.com/apache/skywalking-banyandb/pkg/fs"
)

type c03Events struct {
	hook func()
	n    int
	at   int
}

func (e *c03Events) op() {
	if e.n == e.at && e.hook != nil {
		h := e.hook
		e.hook = nil
		e.n++
		h()
		return
	}
	e.n++
}

type c03FS struct {
	fs.FileSystem
	ev *c03Events
}

func (f *c03FS) CreateFile(name string, perm fs.Mode) (fs.File, error) {
	f.ev.op()
	fl, err := f.FileSystem.CreateFile(name, perm)
	if err != nil {
		return nil, err
	}
	return &c03File{File: fl, ev: f.ev}, nil
}

func (f *c03FS) Write(buffer []byte, name string, perm fs.Mode) (int, error) {
	f.ev.op()
	return f.FileSystem.Write(buffer, name, perm)
}

func (f *c03FS) WriteAtomic(buffer []byte, name string, perm fs.Mode) (int, error) {
	f.ev.op()
	return f.FileSystem.WriteAtomic(buffer, name, perm)
}

type c03File struct {
	fs.File
	ev *c03Events
}

func (f *c03File) Write(b []byte) (int, error) {
	f.ev.op()
	return f.File.Write(b)
}

func (f *c03File) SequentialWrite() fs.SeqWriter {
	return &c03Seq{SeqWriter: f.File.SequentialWrite(), ev: f.ev}
}

type c03Seq struct {
	fs.SeqWriter
	ev *c03Events
}

func (s *c03Seq) Write(b []byte) (int, error) {
	s.ev.op()
	return s.SeqWriter.Write(b)
}

// MergeDirectAt = MergeDirect (the real mergeParts on the given file parts, snapshot untouched, output dumped through the
// real block reader and deleted) with `during` called once before output file operation number `at` (0-based; at < 0:
// never). Returns the dump and the number of output file operations of the merge.
func (v *VTable) MergeDirectAt(ids []uint64, at int, during func()) (VPart, int) {
	snp := v.tst.currentSnapshot()
	defer snp.decRef()
	want := map[uint64]struct{}{}
	for _, id := range ids {
		want[id] = struct{}{}
	}
	var parts []*partWrapper
	for _, pw := range snp.parts {
		if _, ok := want[pw.ID()]; ok {
			parts = append(parts, pw)
		}
	}
	if len(parts) != len(ids) {
		panic("MergeDirectAt: unknown part id")
	}
	ev := &c03Events{at: at, hook: during}
	if at < 0 {
		ev.hook = nil
	}
	hfs := &c03FS{FileSystem: v.tst.fileSystem, ev: ev}
	closeCh := make(chan struct{})
	np, err := v.tst.mergeParts(hfs, closeCh, parts, atomic.AddUint64(&v.tst.curPartID, 1), v.tst.root)
	if err != nil {
		panic(err)
	}
	d := v.dumpPart(np)
	path := np.p.path
	np.decRef()
	v.tst.fileSystem.MustRMAll(path)
	return d, ev.n
}
