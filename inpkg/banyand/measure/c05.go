//go:build verif

package measure

import (
	"bytes"
	"context"
	"errors"
	"os"
	"runtime"
	"sort"
	"strconv"
	"sync"
	"sync/atomic"
	"time"

	"github.com/apache/skywalking-banyandb/api/common"
	"github.com/apache/skywalking-banyandb/banyand/internal/storage"
	"github.com/apache/skywalking-banyandb/banyand/protector"
	"github.com/apache/skywalking-banyandb/pkg/convert"
	"github.com/apache/skywalking-banyandb/pkg/fs"
	"github.com/apache/skywalking-banyandb/pkg/logger"
	pbv1 "github.com/apache/skywalking-banyandb/pkg/pb/v1"
	"github.com/apache/skywalking-banyandb/pkg/run"
	"github.com/apache/skywalking-banyandb/pkg/verif/sched"
)

// V5Row is one data point of the harness alphabet.
type V5Row struct {
	Series  uint64
	TS      int64
	Version int64
	Val     int64
}

// V5FS wraps the real file system and counts recursive removals per path.
type V5FS struct {
	fs.FileSystem
	RM map[string]int
	// Hook makes hard-link / remove / create / delete calls scheduling points of the controlled scheduler.
	Hook bool
}

// MustRMAll counts and forwards.
func (f *V5FS) MustRMAll(path string) {
	if f.Hook {
		sched.Point(sched.KFS, nil, "MustRMAll")
	}
	sched.Own(func() { f.RM[path]++ })
	f.FileSystem.MustRMAll(path)
}

// CreateHardLink is a scheduling point when Hook is set.
func (f *V5FS) CreateHardLink(src, dst string, filter func(string) bool) error {
	if f.Hook {
		sched.Point(sched.KFS, nil, "CreateHardLink")
	}
	return f.FileSystem.CreateHardLink(src, dst, filter)
}

// CreateFile is a scheduling point when Hook is set.
func (f *V5FS) CreateFile(name string, permission fs.Mode) (fs.File, error) {
	if f.Hook {
		sched.Point(sched.KFS, nil, "CreateFile")
	}
	return f.FileSystem.CreateFile(name, permission)
}

// DeleteFile is a scheduling point when Hook is set.
func (f *V5FS) DeleteFile(name string) error {
	if f.Hook {
		sched.Point(sched.KFS, nil, "DeleteFile")
	}
	return f.FileSystem.DeleteFile(name)
}

// V5Table drives a real measure tsTable through its step functions; the background loops are never started, the
// harness threads play the introducer / flusher / merger and call the same functions the loops call.
type V5Table struct {
	tst   *tsTable
	FS    *V5FS
	Dir   string
	epoch uint64
}

// V5Open opens (or recovers) a table at dir.
func V5Open(dir string) *V5Table {
	lfs := &V5FS{FileSystem: fs.NewLocalFileSystem(), RM: map[string]int{}}
	lfs.MkdirIfNotExist(dir, 0o755)
	tst, epoch := initTSTable(lfs, dir, common.Position{}, logger.GetLogger("verif"),
		option{protector: protector.Nop{}, mergePolicy: newDefaultMergePolicyForTesting()}, nil)
	tst.loopCloser = run.NewCloser(1)
	if tst.snapshot == nil {
		epoch = 0x1000 // fresh table: initTSTable hands out a wall-clock epoch; the harness owns the clock
	}
	return &V5Table{tst: tst, epoch: epoch + 1, FS: lfs, Dir: dir}
}

// V5Intro is a prepared memory part awaiting introduction.
type V5Intro struct{ ind *introduction }

// PrepareWrite builds the memory part of one batch (what mustAddDataPoints does before handing it to the introducer).
func (v *V5Table) PrepareWrite(rows []V5Row) *V5Intro {
	dps := generateDataPoints()
	for _, r := range rows {
		dps.seriesIDs = append(dps.seriesIDs, common.SeriesID(r.Series))
		dps.timestamps = append(dps.timestamps, r.TS)
		dps.versions = append(dps.versions, r.Version)
		dps.tagFamilies = append(dps.tagFamilies, nil)
		dps.fields = append(dps.fields, nameValues{name: "skipped_field", values: []*nameValue{
			{name: "v", valueType: pbv1.ValueTypeInt64, value: convert.Int64ToBytes(r.Val)},
		}})
	}
	mp := generateMemPart()
	mp.mustInitFromDataPoints(dps)
	p := openMemPart(mp)
	ind := &introduction{part: newPartWrapper(mp, p)}
	ind.part.p.partMetadata.ID = atomic.AddUint64(&v.tst.curPartID, 1)
	return &V5Intro{ind: ind}
}

// IntroducePart is the introducer step for a memory part; returns the epoch it published.
func (v *V5Table) IntroducePart(in *V5Intro) uint64 {
	e := v.epoch
	v.tst.introducePart(in.ind, e)
	v.epoch++
	return e
}

// Write = PrepareWrite + IntroducePart.
func (v *V5Table) Write(rows []V5Row) uint64 { return v.IntroducePart(v.PrepareWrite(rows)) }

// V5Flush is the file-producing half of a flush.
type V5Flush struct{ ind *flusherIntroduction }

// FlushA writes every memory part of the current snapshot to disk and opens the file parts (body of tsTable.flush up
// to the hand-over to the introducer). Returns nil when there is nothing to flush.
func (v *V5Table) FlushA() *V5Flush {
	snp := v.tst.currentSnapshot()
	if snp == nil {
		return nil
	}
	defer snp.decRef()
	ind := &flusherIntroduction{flushed: map[uint64]*partWrapper{}}
	for _, pw := range snp.parts {
		if pw.mp == nil || pw.mp.partMetadata.TotalCount < 1 {
			continue
		}
		pw.mp.mustFlush(v.tst.fileSystem, partPath(v.tst.root, pw.ID()))
		newPW := newPartWrapper(nil, mustOpenFilePart(pw.ID(), v.tst.root, v.tst.fileSystem))
		newPW.p.partMetadata.ID = pw.ID()
		ind.flushed[newPW.ID()] = newPW
	}
	if len(ind.flushed) == 0 {
		return nil
	}
	return &V5Flush{ind: ind}
}

// IDs of the parts this flush produced, ascending.
func (f *V5Flush) IDs() []uint64 {
	var ids []uint64
	for id := range f.ind.flushed {
		ids = append(ids, id)
	}
	sort.Slice(ids, func(i, j int) bool { return ids[i] < ids[j] })
	return ids
}

// AdoptFlush opens already produced part directories (same ids as the memory parts they replace) as the result of a
// flush; the harness uses it to take the deterministic file production out of the per-execution path.
func (v *V5Table) AdoptFlush(ids []uint64) *V5Flush {
	ind := &flusherIntroduction{flushed: map[uint64]*partWrapper{}}
	for _, id := range ids {
		newPW := newPartWrapper(nil, mustOpenFilePart(id, v.tst.root, v.tst.fileSystem))
		newPW.p.partMetadata.ID = id
		ind.flushed[id] = newPW
	}
	return &V5Flush{ind: ind}
}

// AdoptMerge opens an already produced merged part directory as the result of merging the given parts.
func (v *V5Table) AdoptMerge(newID uint64, merged []uint64) *V5Merge {
	want := map[uint64]struct{}{}
	for _, id := range merged {
		want[id] = struct{}{}
	}
	p := mustOpenFilePart(newID, v.tst.root, v.tst.fileSystem)
	p.partMetadata.ID = newID
	for atomic.LoadUint64(&v.tst.curPartID) < newID {
		atomic.AddUint64(&v.tst.curPartID, 1)
	}
	return &V5Merge{mi: &mergerIntroduction{newPart: newPartWrapper(nil, p), merged: want, creator: snapshotCreatorMerger}, IDs: merged, New: newID}
}

// FlushB is the introducer step for flushed parts.
func (v *V5Table) FlushB(f *V5Flush) uint64 {
	e := v.epoch
	v.tst.introduceFlushed(f.ind, e)
	v.epoch++
	return e
}

// V5Merge is the file-producing half of a merge.
type V5Merge struct {
	mi  *mergerIntroduction
	IDs []uint64
	New uint64
}

// MergeA merges the given file parts of the current snapshot into a new part (real mergeParts).
func (v *V5Table) MergeA(ids []uint64) *V5Merge {
	snp := v.tst.currentSnapshot()
	if snp == nil {
		return nil
	}
	defer snp.decRef()
	want := map[uint64]struct{}{}
	for _, id := range ids {
		want[id] = struct{}{}
	}
	var parts []*partWrapper
	for _, pw := range snp.parts {
		if _, ok := want[pw.ID()]; ok && pw.mp == nil {
			parts = append(parts, pw)
		}
	}
	if len(parts) < 2 || len(parts) != len(ids) {
		return nil
	}
	closeCh := make(chan struct{})
	np, err := v.tst.mergeParts(v.tst.fileSystem, closeCh, parts, atomic.AddUint64(&v.tst.curPartID, 1), v.tst.root)
	if err != nil {
		panic(err)
	}
	return &V5Merge{mi: &mergerIntroduction{newPart: np, merged: want, creator: snapshotCreatorMerger}, IDs: ids, New: np.ID()}
}

// MergeB is the introducer step for a merged part.
func (v *V5Table) MergeB(m *V5Merge) uint64 {
	e := v.epoch
	v.tst.introduceMerged(m.mi, e)
	v.epoch++
	return e
}

// GC removes manifests that are no longer live (what the introducer loop does after a flush/merge introduction).
func (v *V5Table) GC() { v.tst.gc.clean() }

// FileParts lists the ids of the file parts of the current snapshot.
func (v *V5Table) FileParts() []uint64 {
	snp := v.tst.currentSnapshot()
	if snp == nil {
		return nil
	}
	defer snp.decRef()
	var ids []uint64
	for _, pw := range snp.parts {
		if pw.mp == nil {
			ids = append(ids, pw.ID())
		}
	}
	return ids
}

// V5Part describes one part of a pinned view.
type V5Part struct {
	Path string
	ID   uint64
	Mem  bool
}

// V5View is a pinned snapshot.
type V5View struct {
	v   *V5Table
	snp *snapshot
}

// Pin is what every query does first: tsTable.currentSnapshot (nil when the table holds nothing / is closed).
func (v *V5Table) Pin() *V5View {
	snp := v.tst.currentSnapshot()
	if snp == nil {
		return nil
	}
	return &V5View{v: v, snp: snp}
}

// Epoch of the pinned snapshot.
func (w *V5View) Epoch() uint64 { return w.snp.epoch }

// Ref is the snapshot's reference count (harness observation).
func (w *V5View) Ref() int32 { return atomic.LoadInt32(&w.snp.ref) }

// Parts lists the parts of the pinned view.
func (w *V5View) Parts() []V5Part {
	var out []V5Part
	for _, pw := range w.snp.parts {
		p := V5Part{ID: pw.ID(), Mem: pw.mp != nil}
		if pw.p != nil {
			p.Path = pw.p.path
		}
		out = append(out, p)
	}
	return out
}

// MissingDirs returns the file parts of the view whose directory is not on disk.
func (w *V5View) MissingDirs() []string {
	var out []string
	for _, pw := range w.snp.parts {
		if pw.mp != nil || pw.p == nil {
			continue
		}
		if _, err := os.Stat(pw.p.path); err != nil {
			out = append(out, pw.p.path)
		}
	}
	return out
}

// Read evaluates a full scan of the given series over the pinned view through the real block search / merge path.
func (w *V5View) Read(sids []uint64, minTS, maxTS int64) []V5Row {
	pp, _ := w.snp.getParts(nil, storage.NewBypassCache(), minTS, maxTS)
	ss := make([]common.SeriesID, len(sids))
	for i := range sids {
		ss[i] = common.SeriesID(sids[i])
	}
	m := &measure{pm: protector.Nop{}}
	var result queryResult
	result.ctx = context.TODO()
	qo := queryOptions{minTimestamp: minTS, maxTimestamp: maxTS}
	qo.FieldProjection = []string{"v"}
	if err := m.searchBlocks(context.TODO(), &result, ss, pp, qo); err != nil {
		panic(err)
	}
	result.orderByTS = true
	result.ascTS = true
	defer result.Release()
	var out []V5Row
	for {
		r := result.Pull()
		if r == nil {
			break
		}
		for i := range r.Timestamps {
			out = append(out, V5Row{Series: uint64(r.SID), TS: r.Timestamps[i], Version: r.Versions[i], Val: r.Fields[0].Values[i].GetInt().GetValue()})
		}
	}
	sort.Slice(out, func(i, j int) bool {
		if out[i].Series != out[j].Series {
			return out[i].Series < out[j].Series
		}
		return out[i].TS < out[j].TS
	})
	return out
}

// Unpin releases the view.
func (w *V5View) Unpin() { w.snp.decRef() }

// TakeFileSnapshot is tsTable.TakeFileSnapshot.
func (v *V5Table) TakeFileSnapshot(dst string) (bool, error) { return v.tst.TakeFileSnapshot(dst) }

// V5IsNoSnapshot reports whether err is storage.ErrNoCurrentSnapshot (the table holds no snapshot to copy).
func V5IsNoSnapshot(err error) bool { return errors.Is(err, storage.ErrNoCurrentSnapshot) }

// Close is tsTable.Close.
func (v *V5Table) Close() { _ = v.tst.Close() }

// Manifests lists the *.snp files in the table directory.
func (v *V5Table) Manifests() []string {
	var out []string
	for _, e := range v.tst.fileSystem.ReadDir(v.tst.root) {
		if !e.IsDir() {
			out = append(out, e.Name())
		}
	}
	sort.Strings(out)
	return out
}

// CurrentEpoch is the epoch of the current snapshot (0 if none).
func (v *V5Table) CurrentEpoch() uint64 {
	if v.tst.snapshot == nil {
		return 0
	}
	return v.tst.snapshot.epoch
}

// NextEpoch is the epoch the next introduction will publish.
func (v *V5Table) NextEpoch() uint64 { return v.epoch }

// PartDir is the directory of a file part.
func (v *V5Table) PartDir(id uint64) string { return partPath(v.tst.root, id) }

// v5Ctx is the context of a query that its client cancels while the block loaders of queryResult.Pull are at work.
// Every block loader looks at the context once, right when it starts; the harness parks it there (inside Done) until
// the gate opens, so "a loader is still running" is a fact the harness knows and not a matter of timing. The context
// is cancelled when the cancelAt-th loader has had its (uncancelled) look; cancelAt 0 = cancelled before Pull.
type v5Ctx struct {
	context.Context
	done      chan struct{}
	gate      chan struct{}
	owner     int64
	cancelAt  int
	arrived   int
	parked    int
	mu        sync.Mutex
	cancelled bool
	open      bool
}

func v5Goid() int64 {
	var buf [64]byte
	b := buf[:runtime.Stack(buf[:], false)]
	b = bytes.TrimPrefix(b, []byte("goroutine "))
	id, _ := strconv.ParseInt(string(b[:bytes.IndexByte(b, ' ')]), 10, 64)
	return id
}

func (c *v5Ctx) cancelLocked() {
	if !c.cancelled {
		c.cancelled = true
		close(c.done)
	}
}

func (c *v5Ctx) Done() <-chan struct{} {
	if v5Goid() == c.owner {
		return c.done
	}
	c.mu.Lock()
	if c.cancelled {
		c.mu.Unlock()
		return c.done
	}
	c.arrived++
	if c.arrived == c.cancelAt {
		// this loader saw the context alive; the client cancels right after its look, while it is parked
		c.cancelLocked()
	}
	c.parked++
	c.mu.Unlock()
	never := make(chan struct{})
	<-c.gate
	c.mu.Lock()
	c.parked--
	c.mu.Unlock()
	return never
}

func (c *v5Ctx) Err() error {
	c.mu.Lock()
	defer c.mu.Unlock()
	if c.cancelled {
		return context.Canceled
	}
	return nil
}

// V5CancelOutcome is what the harness learns from one cancelled query.
type V5CancelOutcome struct {
	Err string
	// Unfinished: block loaders that Pull had started and that had not finished when Pull returned.
	Unfinished int
	Loaders    int
	Rows       int
}

// ReadCancelled evaluates the same full scan as Read, but the client's context is cancelled while the block loaders
// of queryResult.Pull are at work (see v5Ctx); the result is pulled once and released, as a client does after an
// error. Pull returning while a loader it started is still parked is a positive event; the gate opens when Pull has
// returned or, failing that, after wait (Pull is then — correctly — waiting for its loaders).
func (w *V5View) ReadCancelled(sids []uint64, minTS, maxTS int64, cancelAt int, wait time.Duration) V5CancelOutcome {
	pp, _ := w.snp.getParts(nil, storage.NewBypassCache(), minTS, maxTS)
	ss := make([]common.SeriesID, len(sids))
	for i := range sids {
		ss[i] = common.SeriesID(sids[i])
	}
	m := &measure{pm: protector.Nop{}}
	c := &v5Ctx{Context: context.Background(), done: make(chan struct{}), gate: make(chan struct{}), owner: v5Goid(), cancelAt: cancelAt}
	var result queryResult
	result.ctx = context.TODO()
	qo := queryOptions{minTimestamp: minTS, maxTimestamp: maxTS}
	qo.FieldProjection = []string{"v"}
	if err := m.searchBlocks(context.TODO(), &result, ss, pp, qo); err != nil {
		panic(err)
	}
	result.ctx = c
	result.orderByTS = true
	result.ascTS = true
	out := V5CancelOutcome{Loaders: len(result.data)}
	if cancelAt == 0 {
		c.cancelLocked()
	}
	returned, opened := make(chan struct{}), make(chan struct{})
	go func() {
		select {
		case <-returned:
		case <-time.After(wait):
		}
		c.mu.Lock()
		c.open = true
		c.mu.Unlock()
		close(c.gate)
		close(opened)
	}()
	r := result.Pull()
	c.mu.Lock()
	if !c.open {
		out.Unfinished = c.parked
	}
	c.mu.Unlock()
	close(returned)
	<-opened
	if out.Unfinished > 0 {
		// only after a violation: give the stray loaders time to end before their cursors go back to the pool
		time.Sleep(100 * time.Millisecond)
	}
	if r != nil && r.Error != nil {
		out.Err = r.Error.Error()
	} else if r != nil {
		out.Rows = len(r.Timestamps)
	}
	result.Release()
	return out
}
