//go:build verif

package measure

// Step-by-step driver of the real measure tsTable for the C02/C03 checks (no background loops: the harness calls the
// functions the introducer/flusher/merger loops call, one at a time, and plays the role of the introducer channel).

import (
	"context"
	"fmt"
	"sort"
	"strconv"
	"sync/atomic"

	"github.com/apache/skywalking-banyandb/api/common"
	databasev1 "github.com/apache/skywalking-banyandb/api/proto/banyandb/database/v1"
	modelv1 "github.com/apache/skywalking-banyandb/api/proto/banyandb/model/v1"
	"github.com/apache/skywalking-banyandb/banyand/internal/storage"
	"github.com/apache/skywalking-banyandb/banyand/protector"
	"github.com/apache/skywalking-banyandb/pkg/convert"
	"github.com/apache/skywalking-banyandb/pkg/fs"
	"github.com/apache/skywalking-banyandb/pkg/logger"
	pbv1 "github.com/apache/skywalking-banyandb/pkg/pb/v1"
	"github.com/apache/skywalking-banyandb/pkg/query/model"
	"github.com/apache/skywalking-banyandb/pkg/query/vectorized"
	vmeasure "github.com/apache/skywalking-banyandb/pkg/query/vectorized/measure"
	"github.com/apache/skywalking-banyandb/pkg/run"
)

// Names used by the harness rows.
const (
	VFamily   = "tf"
	VTagC     = "c" // tag whose type may differ between batches
	VTagK     = "k" // tag that is always a string
	VField    = "v"
	vFieldSet = "skipped_field"
)

// VRow is one written data point. TagT: 0 = row has no tag family; otherwise the row has family tf with tag k = "k<P>" and
// 1 = tags [k, c int64(P)], 2 = tags [k, c string "p<P>"], 3 = tags [k], 4 = tags [c int64, k], 5 = tags [c string, k].
type VRow struct {
	S    uint64 `json:"s"`
	T    int64  `json:"t"`
	V    int64  `json:"v"`
	P    int64  `json:"p"`
	TagT int    `json:"c,omitempty"`
}

// VOut is one row as seen through a query or a part dump; values are rendered ("i:5", "s:p5", "null", "" = not projected).
type VOut struct {
	S uint64 `json:"s"`
	T int64  `json:"t"`
	V int64  `json:"v"`
	F string `json:"f"`
	C string `json:"c,omitempty"`
	K string `json:"k,omitempty"`
	// dump only: raw tag columns of family tf by stored name -> "type:value"
	Cols map[string]string `json:"cols,omitempty"`
}

// VPart is the logical content of one part of the current snapshot.
type VPart struct {
	ID      uint64   `json:"id"`
	Mem     bool     `json:"mem"`
	Rows    []VOut   `json:"rows"`
	Total   uint64   `json:"total"`
	Blocks  uint64   `json:"blocks"`
	MinT    int64    `json:"min"`
	MaxT    int64    `json:"max"`
	TagType []string `json:"tagtype,omitempty"`
	// BlockRows = number of rows of every block, in the order the blocks are read
	BlockRows []int `json:"block_rows,omitempty"`
}

// VQuery selects what to query and how.
type VQuery struct {
	Sids   []uint64 `json:"sids"`
	Min    int64    `json:"min"`
	Max    int64    `json:"max"`
	Mode   int      `json:"mode"`   // 0 order by ts asc, 1 order by ts desc, 2 order by series
	Schema int      `json:"schema"` // 0 no tag projection, 1 tag c declared int, 2 tag c declared string
	Batch  bool     `json:"batch"`  // PullBatch instead of Pull
	Part   uint64   `json:"part"`   // 0 = every part of the snapshot, else only the part with this id
}

// VTable drives a real tsTable.
type VTable struct {
	tst     *tsTable
	cache   storage.Cache
	epoch   uint64
	pFlush  *flusherIntroduction
	pFlushS *snapshot
	pFlushD *vTask
	pMerge  vPendingMerge // merger-side (file parts)
	pMem    vPendingMerge // flusher-side (all memory parts)
	series  []uint64
}

type vPendingMerge struct {
	mi   *mergerIntroduction
	snp  *snapshot
	done *vTask
	in   []uint64
}

// VPendingMerge describes a merge whose output exists but is not introduced yet.
type VPendingMerge struct {
	Inputs []uint64 `json:"inputs"`
	Out    VPart    `json:"out"`
}

// VPending lists the halves in flight.
type VPending struct {
	Flush    []uint64       `json:"flush,omitempty"`
	Merge    *VPendingMerge `json:"merge,omitempty"`
	MemMerge *VPendingMerge `json:"mem_merge,omitempty"`
}

// VOpen opens (or reopens) a table in dir. series = every series id the harness will ever use (for dumps).
func VOpen(dir string, series []uint64) *VTable {
	lfs := fs.NewLocalFileSystem()
	lfs.MkdirIfNotExist(dir, 0o755)
	tst, epoch := initTSTable(lfs, dir, common.Position{}, logger.GetLogger("verif"),
		option{protector: protector.Nop{}, mergePolicy: newDefaultMergePolicyForTesting()}, nil)
	tst.loopCloser = run.NewCloser(1)
	tst.introductions = make(chan *introduction)
	ss := append([]uint64(nil), series...)
	sort.Slice(ss, func(i, j int) bool { return ss[i] < ss[j] })
	return &VTable{tst: tst, epoch: epoch + 1, cache: storage.NewShardCache("verif", 0, 0), series: ss}
}

func vDataPoints(rows []VRow) *dataPoints {
	dps := &dataPoints{}
	for _, r := range rows {
		dps.seriesIDs = append(dps.seriesIDs, common.SeriesID(r.S))
		dps.timestamps = append(dps.timestamps, r.T)
		dps.versions = append(dps.versions, r.V)
		var tfs []nameValues
		if r.TagT != 0 {
			nv := nameValues{name: VFamily}
			k := &nameValue{name: VTagK, valueType: pbv1.ValueTypeStr, value: []byte("k" + strconv.FormatInt(r.P, 10))}
			ci := &nameValue{name: VTagC, valueType: pbv1.ValueTypeInt64, value: convert.Int64ToBytes(r.P)}
			cs := &nameValue{name: VTagC, valueType: pbv1.ValueTypeStr, value: []byte("p" + strconv.FormatInt(r.P, 10))}
			switch r.TagT {
			case 1:
				nv.values = []*nameValue{k, ci}
			case 2:
				nv.values = []*nameValue{k, cs}
			case 3:
				nv.values = []*nameValue{k}
			case 4:
				nv.values = []*nameValue{ci, k}
			case 5:
				nv.values = []*nameValue{cs, k}
			default:
				panic("bad TagT")
			}
			tfs = append(tfs, nv)
		}
		dps.tagFamilies = append(dps.tagFamilies, tfs)
		dps.fields = append(dps.fields, nameValues{name: vFieldSet, values: []*nameValue{
			{name: VField, valueType: pbv1.ValueTypeInt64, value: convert.Int64ToBytes(r.P)},
		}})
	}
	return dps
}

// vGo runs f in a goroutine; a panic in f is captured and re-raised by wait() in the caller's goroutine.
type vTask struct {
	done chan struct{}
	pv   any
}

func vGo(f func()) *vTask {
	t := &vTask{done: make(chan struct{})}
	go func() {
		defer func() {
			if r := recover(); r != nil {
				t.pv = r
			}
			close(t.done)
		}()
		f()
	}()
	return t
}

func (t *vTask) wait() {
	<-t.done
	if t.pv != nil {
		panic(t.pv)
	}
}

// Write = the real tsTable.mustAddDataPoints (sort, in-batch dedup, mem part, id assignment), with the harness
// acting as the introducer loop for exactly this introduction (real introducePart).
func (v *VTable) Write(rows []VRow) {
	dps := vDataPoints(rows)
	t := vGo(func() {
		ind := <-v.tst.introductions
		v.tst.introducePart(ind, v.epoch)
		v.epoch++
	})
	v.tst.mustAddDataPoints(dps)
	t.wait()
}

// HasMem reports the number of memory parts in the current snapshot.
func (v *VTable) parts() (mem, file []uint64) {
	snp := v.tst.currentSnapshot()
	if snp == nil {
		return nil, nil
	}
	defer snp.decRef()
	for _, pw := range snp.parts {
		if pw.mp != nil {
			mem = append(mem, pw.ID())
		} else {
			file = append(file, pw.ID())
		}
	}
	return
}

// MemParts lists ids of memory parts in snapshot order.
func (v *VTable) MemParts() []uint64 { m, _ := v.parts(); return m }

// FileParts lists ids of file parts in snapshot order.
func (v *VTable) FileParts() []uint64 { _, f := v.parts(); return f }

// FlushA runs the first half of the real flush: tsTable.flush writes every memory part of the current snapshot to
// disk, opens the file parts and blocks sending the introduction; the harness receives it and keeps it pending.
func (v *VTable) FlushA() bool {
	if v.pFlush != nil || v.pMem.mi != nil {
		return false
	}
	snp := v.tst.currentSnapshot()
	if snp == nil {
		return false
	}
	flushCh := make(chan *flusherIntroduction)
	t := vGo(func() { v.tst.flush(snp, flushCh) })
	select {
	case ind := <-flushCh:
		v.pFlush, v.pFlushS, v.pFlushD = ind, snp, t
		return true
	case <-t.done:
		snp.decRef()
		t.wait()
		return false
	}
}

// FlushB introduces the pending flush (real introduceFlushed) and lets flush() return.
func (v *VTable) FlushB() bool {
	if v.pFlush == nil {
		return false
	}
	v.tst.introduceFlushed(v.pFlush, v.epoch)
	v.epoch++
	v.tst.gc.clean()
	t := v.pFlushD
	v.pFlushS.decRef()
	v.pFlush, v.pFlushS, v.pFlushD = nil, nil, nil
	t.wait()
	return true
}

// MergeA runs the first half of a file merge of the given parts of the current snapshot: the real
// mergePartsThenSendIntroduction (reserve space, mergeParts, build introduction, block on the channel).
func (v *VTable) MergeA(ids []uint64) bool {
	if v.pMerge.mi != nil || len(ids) < 2 {
		return false
	}
	snp := v.tst.currentSnapshot()
	if snp == nil {
		return false
	}
	want := map[uint64]struct{}{}
	for _, id := range ids {
		want[id] = struct{}{}
	}
	var parts []*partWrapper
	for _, pw := range snp.parts {
		if _, ok := want[pw.ID()]; ok && pw.mp == nil {
			parts = append(parts, pw)
		}
	}
	if len(parts) != len(ids) {
		snp.decRef()
		return false
	}
	mergeCh := make(chan *mergerIntroduction)
	var err error
	t := vGo(func() {
		_, err = v.tst.mergePartsThenSendIntroduction(snapshotCreatorMerger, parts, want, mergeCh, v.tst.loopCloser.CloseNotify(), "file")
	})
	select {
	case mi := <-mergeCh:
		v.pMerge = vPendingMerge{mi: mi, snp: snp, done: t, in: append([]uint64(nil), ids...)}
		return true
	case <-t.done:
		snp.decRef()
		t.wait()
		panic(fmt.Sprintf("mergeParts failed: %v", err))
	}
}

// MemMergeA runs the flusher's alternative path: the real mergeMemParts (all memory parts of the snapshot merged
// into one file part), first half.
func (v *VTable) MemMergeA() bool {
	if v.pMem.mi != nil || v.pFlush != nil {
		return false
	}
	snp := v.tst.currentSnapshot()
	if snp == nil {
		return false
	}
	mergeCh := make(chan *mergerIntroduction)
	var err error
	t := vGo(func() {
		_, err = v.tst.mergeMemParts(snp, mergeCh)
	})
	select {
	case mi := <-mergeCh:
		var in []uint64
		for id := range mi.merged {
			in = append(in, id)
		}
		sort.Slice(in, func(i, j int) bool { return in[i] < in[j] })
		v.pMem = vPendingMerge{mi: mi, snp: snp, done: t, in: in}
		return true
	case <-t.done:
		snp.decRef()
		t.wait()
		if err != nil {
			panic(fmt.Sprintf("mergeMemParts failed: %v", err))
		}
		return false
	}
}

func (v *VTable) introduceMerged(pm *vPendingMerge) bool {
	if pm.mi == nil {
		return false
	}
	v.tst.introduceMerged(pm.mi, v.epoch)
	v.epoch++
	v.tst.gc.clean()
	t := pm.done
	pm.snp.decRef()
	*pm = vPendingMerge{}
	t.wait()
	return true
}

// MergeB introduces the pending merger-side merge (real introduceMerged).
func (v *VTable) MergeB() bool { return v.introduceMerged(&v.pMerge) }

// MemMergeB introduces the pending flusher-side merge (real introduceMerged).
func (v *VTable) MemMergeB() bool { return v.introduceMerged(&v.pMem) }

// Pending describes the halves in flight (merge outputs are dumped through the real read path).
func (v *VTable) Pending() VPending {
	var p VPending
	if v.pFlush != nil {
		for id := range v.pFlush.flushed {
			p.Flush = append(p.Flush, id)
		}
		sort.Slice(p.Flush, func(i, j int) bool { return p.Flush[i] < p.Flush[j] })
	}
	if v.pMerge.mi != nil {
		p.Merge = &VPendingMerge{Inputs: v.pMerge.in, Out: v.dumpPart(v.pMerge.mi.newPart)}
	}
	if v.pMem.mi != nil {
		p.MemMerge = &VPendingMerge{Inputs: v.pMem.in, Out: v.dumpPart(v.pMem.mi.newPart)}
	}
	return p
}

// MergeDirect = mergeParts on the given file parts without touching the snapshot; returns the dump of the output,
// which is closed and deleted afterwards.
func (v *VTable) MergeDirect(ids []uint64) VPart {
	snp := v.tst.currentSnapshot()
	defer snp.decRef()
	want := map[uint64]struct{}{}
	for _, id := range ids {
		want[id] = struct{}{}
	}
	var parts []*partWrapper
	for _, pw := range snp.parts {
		if _, ok := want[pw.ID()]; ok {
			parts = append(parts, pw)
		}
	}
	if len(parts) != len(ids) {
		panic("MergeDirect: unknown part id")
	}
	closeCh := make(chan struct{})
	np, err := v.tst.mergeParts(v.tst.fileSystem, closeCh, parts, atomic.AddUint64(&v.tst.curPartID, 1), v.tst.root)
	if err != nil {
		panic(err)
	}
	d := v.dumpPart(np)
	path := np.p.path
	np.decRef()
	v.tst.fileSystem.MustRMAll(path)
	return d
}

func renderTag(tv *modelv1.TagValue) string {
	switch x := tv.GetValue().(type) {
	case *modelv1.TagValue_Int:
		return "i:" + strconv.FormatInt(x.Int.GetValue(), 10)
	case *modelv1.TagValue_Str:
		return "s:" + x.Str.GetValue()
	case *modelv1.TagValue_Null, nil:
		return "null"
	default:
		return fmt.Sprintf("?%T", x)
	}
}

func renderField(fv *modelv1.FieldValue) string {
	switch x := fv.GetValue().(type) {
	case *modelv1.FieldValue_Int:
		return "i:" + strconv.FormatInt(x.Int.GetValue(), 10)
	case *modelv1.FieldValue_Str:
		return "s:" + x.Str.GetValue()
	case *modelv1.FieldValue_Null, nil:
		return "null"
	default:
		return fmt.Sprintf("?%T", x)
	}
}

func vSchema(schema int) *databasev1.Measure {
	ct := databasev1.TagType_TAG_TYPE_INT
	if schema == 2 {
		ct = databasev1.TagType_TAG_TYPE_STRING
	}
	return &databasev1.Measure{
		TagFamilies: []*databasev1.TagFamilySpec{{Name: VFamily, Tags: []*databasev1.TagSpec{
			{Name: VTagC, Type: ct}, {Name: VTagK, Type: databasev1.TagType_TAG_TYPE_STRING},
		}}},
		Fields: []*databasev1.FieldSpec{{Name: VField, FieldType: databasev1.FieldType_FIELD_TYPE_INT}},
	}
}

// Query runs the real block search + result merge over the current snapshot. Rows are returned in pull order.
func (v *VTable) Query(q VQuery) (out []VOut, err error) {
	snp := v.tst.currentSnapshot()
	if snp == nil {
		return nil, nil
	}
	defer snp.decRef()
	pp, n := snp.getParts(nil, v.cache, q.Min, q.Max)
	if q.Part != 0 {
		// scan a single part, as a query does whose time range prunes the other parts
		var only []*part
		for _, p := range pp {
			if p.partMetadata.ID == q.Part {
				only = append(only, p)
			}
		}
		pp, n = only, len(only)
	}
	if n < 1 {
		return nil, nil
	}
	ss := make([]common.SeriesID, len(q.Sids))
	for i := range q.Sids {
		ss[i] = common.SeriesID(q.Sids[i])
	}
	m := &measure{pm: protector.Nop{}}
	qo := queryOptions{minTimestamp: q.Min, maxTimestamp: q.Max}
	qo.FieldProjection = []string{VField}
	if q.Schema != 0 {
		qo.TagProjection = []model.TagProjection{{Family: VFamily, Names: []string{VTagC, VTagK}}}
		ct := pbv1.ValueTypeInt64
		if q.Schema == 2 {
			ct = pbv1.ValueTypeStr
		}
		qo.schemaTagTypes = map[string]pbv1.ValueType{VTagC: ct, VTagK: pbv1.ValueTypeStr}
	}
	result := &queryResult{ctx: context.Background(), tagProjection: qo.TagProjection}
	defer result.Release()
	if err = m.searchBlocks(context.Background(), result, ss, pp, qo); err != nil {
		return nil, err
	}
	switch q.Mode {
	case 0:
		result.orderByTS, result.ascTS = true, true
	case 1:
		result.orderByTS, result.ascTS = true, false
	default:
		result.orderByTS, result.ascTS = false, true
	}
	if q.Batch {
		result.batchSchema, err = vmeasure.BuildBatchSchema(vSchema(q.Schema), model.MeasureQueryOptions{
			TagProjection: qo.TagProjection, FieldProjection: qo.FieldProjection,
		})
		if err != nil {
			return nil, err
		}
		for {
			b, perr := result.PullBatch(context.Background())
			if perr != nil {
				return out, perr
			}
			if b == nil {
				return out, nil
			}
			for i := 0; i < b.RowCount(); i++ {
				o := VOut{S: uint64(b.SeriesIDs[i]), T: b.Timestamps[i], V: b.Versions[i]}
				fc, ok := b.Fields[0].(*vectorized.TypedColumn[*modelv1.FieldValue])
				if !ok {
					return out, fmt.Errorf("unexpected field column type %T", b.Fields[0])
				}
				if fc.IsNull(i) {
					o.F = "null"
				} else {
					o.F = renderField(fc.Data()[i])
				}
				for ti := range b.Tags {
					tc, ok := b.Tags[ti].(*vectorized.TypedColumn[*modelv1.TagValue])
					if !ok {
						return out, fmt.Errorf("unexpected tag column type %T", b.Tags[ti])
					}
					s := "null"
					if !tc.IsNull(i) {
						s = renderTag(tc.Data()[i])
					}
					if ti == 0 {
						o.C = s
					} else {
						o.K = s
					}
				}
				out = append(out, o)
			}
			b.Release()
		}
	}
	for {
		r := result.Pull()
		if r == nil {
			return out, nil
		}
		if r.Error != nil {
			return out, r.Error
		}
		for i := range r.Timestamps {
			o := VOut{S: uint64(r.SID), T: r.Timestamps[i], V: r.Versions[i]}
			if len(r.Fields) != 1 || len(r.Fields[0].Values) != len(r.Timestamps) {
				return out, fmt.Errorf("malformed result: %d fields, %d timestamps", len(r.Fields), len(r.Timestamps))
			}
			o.F = renderField(r.Fields[0].Values[i])
			if q.Schema != 0 {
				if len(r.TagFamilies) != 1 || len(r.TagFamilies[0].Tags) != 2 ||
					len(r.TagFamilies[0].Tags[0].Values) != len(r.Timestamps) || len(r.TagFamilies[0].Tags[1].Values) != len(r.Timestamps) {
					return out, fmt.Errorf("malformed tag result")
				}
				o.C = renderTag(r.TagFamilies[0].Tags[0].Values[i])
				o.K = renderTag(r.TagFamilies[0].Tags[1].Values[i])
			}
			out = append(out, o)
		}
	}
}

func renderRaw(vt pbv1.ValueType, b []byte) string {
	if b == nil {
		return "nil"
	}
	switch vt {
	case pbv1.ValueTypeInt64:
		if len(b) != 8 {
			return fmt.Sprintf("int64:len%d", len(b))
		}
		return "int64:" + strconv.FormatInt(convert.BytesToInt64(b), 10)
	case pbv1.ValueTypeStr:
		return "str:" + string(b)
	default:
		return fmt.Sprintf("t%d:%x", vt, b)
	}
}

func (v *VTable) dumpPart(pw *partWrapper) VPart {
	p := pw.p
	out := VPart{ID: pw.ID(), Mem: pw.mp != nil, Total: p.partMetadata.TotalCount, Blocks: p.partMetadata.BlocksCount,
		MinT: p.partMetadata.MinTimestamp, MaxT: p.partMetadata.MaxTimestamp}
	var colNames []string
	for fam, cc := range p.tagType {
		for name, vt := range cc {
			out.TagType = append(out.TagType, fmt.Sprintf("%s.%s:%d", fam, name, vt))
			if fam == VFamily {
				colNames = append(colNames, name)
			}
		}
	}
	sort.Strings(out.TagType)
	sort.Strings(colNames)
	if p.cache == nil {
		p.cache = v.cache
	}
	ss := make([]common.SeriesID, len(v.series))
	for i := range v.series {
		ss[i] = common.SeriesID(v.series[i])
	}
	qo := queryOptions{minTimestamp: -1 << 62, maxTimestamp: 1 << 62}
	qo.FieldProjection = []string{VField}
	if len(colNames) > 0 {
		qo.TagProjection = []model.TagProjection{{Family: VFamily, Names: colNames}}
	}
	ti := generateTstIter()
	defer releaseTstIter(ti)
	ti.init([]*part{p}, ss, qo.minTimestamp, qo.maxTimestamp)
	if ti.Error() != nil {
		panic(ti.Error())
	}
	for ti.nextBlock() {
		bc := generateBlockCursor()
		pi := ti.piHeap[0]
		bc.init(pi.p, pi.curBlock, qo)
		tmp := generateBlock()
		ok := bc.loadData(tmp)
		releaseBlock(tmp)
		if ok {
			out.BlockRows = append(out.BlockRows, len(bc.timestamps))
			for i := range bc.timestamps {
				o := VOut{S: uint64(bc.bm.seriesID), T: bc.timestamps[i], V: bc.versions[i], F: "absent"}
				for _, c := range bc.fields.columns {
					if c.name == VField {
						o.F = renderRaw(c.valueType, c.values[i])
					}
				}
				for _, tf := range bc.tagFamilies {
					if tf.name != VFamily {
						continue
					}
					for _, c := range tf.columns {
						if o.Cols == nil {
							o.Cols = map[string]string{}
						}
						o.Cols[c.name] = renderRaw(c.valueType, c.values[i])
					}
				}
				out.Rows = append(out.Rows, o)
			}
		}
		releaseBlockCursor(bc)
	}
	if ti.Error() != nil {
		panic(ti.Error())
	}
	return out
}

// Dump reads every part of the current snapshot (snapshot order) through the real block read path.
func (v *VTable) Dump() []VPart {
	snp := v.tst.currentSnapshot()
	if snp == nil {
		return nil
	}
	defer snp.decRef()
	var out []VPart
	for _, pw := range snp.parts {
		out = append(out, v.dumpPart(pw))
	}
	return out
}

// VTypedName is the stored name of a conflicting column (c declared as int: t=1, as string: t=2).
func VTypedName(name string, t int) string {
	if t == 1 {
		return encodeTypedColumn(name, pbv1.ValueTypeInt64)
	}
	return encodeTypedColumn(name, pbv1.ValueTypeStr)
}

// VTagTypeString renders one tag.type entry the way VPart.TagType does.
func VTagTypeString(name string, t int) string {
	vt := pbv1.ValueTypeInt64
	if t == 2 {
		vt = pbv1.ValueTypeStr
	}
	return fmt.Sprintf("%s.%s:%d", VFamily, name, vt)
}

// VMaxBlockLength is the row limit of a block; VBatchCap the row cap of one PullBatch result of a multi-block query.
const (
	VMaxBlockLength = maxBlockLength
	VBatchCap       = mergeBatchMaxRows
)

// Close releases pending halves (their outputs are simply dropped), closes the table and the cache.
func (v *VTable) Close() {
	if v.pFlush != nil {
		for _, pw := range v.pFlush.flushed {
			pw.decRef()
		}
		close(v.pFlush.applied)
		<-v.pFlushD.done
		v.pFlushS.decRef()
		v.pFlush = nil
	}
	for _, pm := range []*vPendingMerge{&v.pMerge, &v.pMem} {
		if pm.mi != nil {
			pm.mi.newPart.decRef()
			close(pm.mi.applied)
			<-pm.done.done
			pm.snp.decRef()
			*pm = vPendingMerge{}
		}
	}
	_ = v.tst.Close()
	v.cache.Close()
}
