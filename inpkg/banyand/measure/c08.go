//go:build verif

package measure

// C08 unit level: block selection of the real measure partIter (searchPBM / findBlock: series list x time bounds) on a
// real memory part written block by block with the real block writer, and part selection of snapshot.getParts.

import (
	"fmt"
	"sync/atomic"

	"github.com/apache/skywalking-banyandb/api/common"
	"github.com/apache/skywalking-banyandb/banyand/internal/storage"
	"github.com/apache/skywalking-banyandb/pkg/convert"
	pbv1 "github.com/apache/skywalking-banyandb/pkg/pb/v1"
)

// VC08Block is one block to be written: a series and the (ascending) instants of its data points.
type VC08Block struct {
	Sid uint64
	Ts  []int64
}

// VC08BlockID identifies a yielded block.
type VC08BlockID struct {
	Sid   uint64
	MinTs int64
	MaxTs int64
	Count uint64
}

// VC08Part is a real measure part in memory.
type VC08Part struct {
	mp *memPart
	p  *part
}

// VC08Build writes the blocks in the given order (ascending series, ascending time) with the real block writer.
func VC08Build(blocks []VC08Block) (vp *VC08Part, err error) {
	defer func() {
		if r := recover(); r != nil {
			err = fmt.Errorf("panic while building the measure part: %v", r)
		}
	}()
	mp := generateMemPart()
	mp.reset()
	bsw := generateBlockWriter()
	bsw.MustInitForMemPart(mp)
	for _, b := range blocks {
		versions := make([]int64, len(b.Ts))
		tfs := make([][]nameValues, len(b.Ts))
		fields := make([]nameValues, len(b.Ts))
		for i := range b.Ts {
			versions[i] = 1
			tfs[i] = []nameValues{{name: "d", values: []*nameValue{{name: "t", valueType: pbv1.ValueTypeInt64, value: convert.Int64ToBytes(b.Ts[i])}}}}
			fields[i] = nameValues{name: "skipped_field", values: []*nameValue{{name: "v", valueType: pbv1.ValueTypeInt64, value: convert.Int64ToBytes(b.Ts[i])}}}
		}
		bsw.MustWriteDataPoints(common.SeriesID(b.Sid), b.Ts, versions, tfs, fields)
	}
	bsw.Flush(&mp.partMetadata, &mp.tagType)
	releaseBlockWriter(bsw)
	// the index-block cache is keyed by (part id, offset): every part needs its own id
	mp.partMetadata.ID = vc08PartID.Add(1)
	p := openMemPart(mp)
	p.cache = vc08Cache
	return &VC08Part{mp: mp, p: p}, nil
}

var (
	vc08Cache  = storage.NewShardCache("c08", 0, 0)
	vc08PartID atomic.Uint64
)

// Select runs the real partIter and returns the blocks it yields (in order).
func (vp *VC08Part) Select(sids []uint64, minTs, maxTs int64) (out []VC08BlockID, err error) {
	defer func() {
		if r := recover(); r != nil {
			err = fmt.Errorf("panic: %v", r)
		}
	}()
	ss := make([]common.SeriesID, len(sids))
	for i, s := range sids {
		ss[i] = common.SeriesID(s)
	}
	pi := &partIter{}
	pi.init(vp.p, ss, minTs, maxTs)
	for pi.nextBlock() {
		out = append(out, VC08BlockID{uint64(pi.curBlock.seriesID), pi.curBlock.timestamps.min, pi.curBlock.timestamps.max, pi.curBlock.count})
	}
	return out, pi.error()
}

// PartBounds returns the time bounds recorded in the part metadata.
func (vp *VC08Part) PartBounds() (int64, int64) {
	return vp.p.partMetadata.MinTimestamp, vp.p.partMetadata.MaxTimestamp
}

// Release returns the part to its pool.
func (vp *VC08Part) Release() { releaseMemPart(vp.mp) }

// VC08GetParts runs the real snapshot.getParts over parts that have only time bounds and returns the selected indexes.
func VC08GetParts(bounds [][2]int64, minTs, maxTs int64) []int {
	s := &snapshot{}
	idx := map[*part]int{}
	for i, b := range bounds {
		p := &part{}
		p.partMetadata.MinTimestamp, p.partMetadata.MaxTimestamp = b[0], b[1]
		idx[p] = i
		s.parts = append(s.parts, &partWrapper{p: p, ref: 1})
	}
	got, _ := s.getParts(nil, nil, minTs, maxTs)
	var out []int
	for _, p := range got {
		out = append(out, idx[p])
	}
	return out
}

// PrimaryFirstSids returns the first series id of every primary block (index block) of the part.
func (vp *VC08Part) PrimaryFirstSids() []uint64 {
	var out []uint64
	for i := range vp.p.primaryBlockMetadata {
		out = append(out, uint64(vp.p.primaryBlockMetadata[i].seriesID))
	}
	return out
}

// PrimaryBlockSids decodes every primary (index) block of the part with the real reader and returns, per primary block,
// the series id of every block it lists (in order).
func (vp *VC08Part) PrimaryBlockSids() (out [][]uint64, err error) {
	defer func() {
		if r := recover(); r != nil {
			err = fmt.Errorf("panic: %v", r)
		}
	}()
	pi := &partIter{}
	pi.init(vp.p, nil, 0, 0)
	pi.err = nil
	for i := range vp.p.primaryBlockMetadata {
		if err := pi.readPrimaryBlock(&vp.p.primaryBlockMetadata[i]); err != nil {
			return nil, err
		}
		var sids []uint64
		for j := range pi.bms {
			sids = append(sids, uint64(pi.bms[j].seriesID))
		}
		out = append(out, sids)
	}
	return out, nil
}
