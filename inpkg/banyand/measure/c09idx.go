//go:build verif

package measure

// In-package wrapper for /verif check C09 (index-mode ordered merge across segments): the real
// measure.buildIndexQueryResult + indexSortResult.Pull over segments whose series index is faked (SearchWithoutSeries
// returns canned, already ordered hits). Thin glue only.

import (
	"context"

	"github.com/apache/skywalking-banyandb/api/common"
	databasev1 "github.com/apache/skywalking-banyandb/api/proto/banyandb/database/v1"
	modelv1 "github.com/apache/skywalking-banyandb/api/proto/banyandb/model/v1"
	"github.com/apache/skywalking-banyandb/banyand/internal/storage"
	"github.com/apache/skywalking-banyandb/pkg/convert"
	"github.com/apache/skywalking-banyandb/pkg/index"
	pbv1 "github.com/apache/skywalking-banyandb/pkg/pb/v1"
	"github.com/apache/skywalking-banyandb/pkg/query/model"
)

// C09Hit is one series hit of a segment's series index.
type C09Hit struct {
	SID       uint64
	SortValue int64
}

type c09IndexDB struct {
	storage.IndexDB
	hits []C09Hit
}

func (d *c09IndexDB) SearchWithoutSeries(_ context.Context, _ storage.IndexSearchOpts) (sd storage.SeriesData, sortedValues [][]byte, err error) {
	for _, h := range d.hits {
		sd.SeriesList = append(sd.SeriesList, &pbv1.Series{
			ID:           common.SeriesID(h.SID),
			EntityValues: []*modelv1.TagValue{{Value: &modelv1.TagValue_Int{Int: &modelv1.Int{Value: int64(h.SID)}}}},
		})
		sd.Timestamps = append(sd.Timestamps, 1)
		sd.Versions = append(sd.Versions, 1)
		sortedValues = append(sortedValues, convert.Int64ToBytes(h.SortValue))
	}
	return sd, sortedValues, nil
}

type c09Segment struct {
	storage.Segment[*tsTable, option]
	db   storage.IndexDB
	decs *int
}

func (s *c09Segment) DecRef() { *s.decs++ }

func (s *c09Segment) IndexDB() storage.IndexDB { return s.db }

// C09IndexSort runs buildIndexQueryResult + Pull over the per-segment hit lists (each already in query order) and
// returns the series ids in result order, the entity tag value carried by every row, and how often the segments were
// released.
func C09IndexSort(segments [][]C09Hit, desc bool) (sids []uint64, entity []int64, decs int, err error) {
	m := &measure{
		schema: &databasev1.Measure{
			Entity:    &databasev1.Entity{TagNames: []string{"id"}},
			IndexMode: true,
		},
	}
	m.indexSchema.Store(indexSchema{})
	segs := make([]storage.Segment[*tsTable, option], 0, len(segments))
	for _, hits := range segments {
		segs = append(segs, &c09Segment{db: &c09IndexDB{hits: hits}, decs: &decs})
	}
	sortDir := modelv1.Sort_SORT_ASC
	if desc {
		sortDir = modelv1.Sort_SORT_DESC
	}
	mqo := model.MeasureQueryOptions{
		Name:          "c09",
		Order:         &index.OrderBy{Sort: sortDir, Type: index.OrderByTypeIndex},
		TagProjection: []model.TagProjection{{Family: "default", Names: []string{"id"}}},
	}
	result, err := m.buildIndexQueryResult(context.Background(), mqo, segs)
	if err != nil {
		return nil, nil, decs, err
	}
	if result == nil {
		return nil, nil, decs, nil
	}
	defer result.Release()
	for n := 0; n < 1000; n++ {
		r := result.Pull()
		if r == nil {
			break
		}
		if r.Error != nil {
			return nil, nil, decs, r.Error
		}
		sids = append(sids, uint64(r.SID))
		e := int64(-1)
		if len(r.TagFamilies) == 1 && len(r.TagFamilies[0].Tags) == 1 && len(r.TagFamilies[0].Tags[0].Values) == 1 {
			e = r.TagFamilies[0].Tags[0].Values[0].GetInt().GetValue()
		}
		entity = append(entity, e)
	}
	return sids, entity, decs, nil
}
