//go:build verif

package measure

import (
	"context"
	"fmt"
	"sort"
	"sync/atomic"

	"github.com/apache/skywalking-banyandb/api/common"
	"github.com/apache/skywalking-banyandb/banyand/internal/storage"
	"github.com/apache/skywalking-banyandb/banyand/protector"
	"github.com/apache/skywalking-banyandb/pkg/convert"
	"github.com/apache/skywalking-banyandb/pkg/fs"
	"github.com/apache/skywalking-banyandb/pkg/logger"
	pbv1 "github.com/apache/skywalking-banyandb/pkg/pb/v1"
	"github.com/apache/skywalking-banyandb/pkg/run"
)

// C04Row is one data point of the C04 harness.
type C04Row struct {
	Pad     []byte
	Series  uint64
	TS      int64
	Version int64
	Val     int64
}

// C04Table drives a real measure tsTable step by step: the bodies of the introducer/flusher/merger loops are called
// directly, in an order chosen by the harness; no background loop runs.
type C04Table struct {
	tst      *tsTable
	flushInd *flusherIntroduction
	flushEnd chan struct{}
	flushSnp *snapshot
	// panic value of the flusher goroutine
	flushPanic any
	epoch      uint64
	// LoadedEpoch is the epoch of the manifest initTSTable loaded (0 = none).
	LoadedEpoch uint64
}

// C04Open creates the shard directory if needed (as the storage layer does) and runs the real initTSTable. When no
// manifest was loaded the next epoch is freshEpoch (the real code uses the wall clock there).
func C04Open(dir string, freshEpoch uint64) *C04Table {
	lfs := fs.NewLocalFileSystem()
	lfs.MkdirIfNotExist(dir, storage.DirPerm)
	tst, epoch := initTSTable(lfs, dir, common.Position{}, logger.GetLogger("verif"),
		option{protector: protector.Nop{}, mergePolicy: newDefaultMergePolicyForTesting()}, nil)
	tst.loopCloser = run.NewCloser(1)
	t := &C04Table{tst: tst, epoch: freshEpoch}
	if tst.gc.liveEpoch != 0 && tst.gc.liveEpoch == epoch {
		t.LoadedEpoch = epoch
		t.epoch = epoch + 1
	}
	return t
}

// Write adds one batch as a memory part (mustAddDataPoints without the introducer channel).
func (t *C04Table) Write(rows []C04Row) {
	dps := generateDataPoints()
	for _, r := range rows {
		dps.seriesIDs = append(dps.seriesIDs, common.SeriesID(r.Series))
		dps.timestamps = append(dps.timestamps, r.TS)
		dps.versions = append(dps.versions, r.Version)
		dps.tagFamilies = append(dps.tagFamilies, []nameValues{{name: "tf", values: []*nameValue{
			{name: "t", valueType: pbv1.ValueTypeStr, value: []byte(fmt.Sprintf("s%d", r.Series))},
		}}})
		dps.fields = append(dps.fields, nameValues{name: "skipped_field", values: []*nameValue{
			{name: "v", valueType: pbv1.ValueTypeInt64, value: convert.Int64ToBytes(r.Val)},
			{name: "pad", valueType: pbv1.ValueTypeBinaryData, value: r.Pad},
		}})
	}
	mp := generateMemPart()
	mp.mustInitFromDataPoints(dps)
	p := openMemPart(mp)
	ind := &introduction{part: newPartWrapper(mp, p)}
	ind.part.p.partMetadata.ID = atomic.AddUint64(&t.tst.curPartID, 1)
	t.tst.introducePart(ind, t.epoch)
	t.epoch++
}

// FlushBegin runs the real flush of the current snapshot's memory parts up to the point where the flusher hands its
// introduction to the introducer. It returns false when there was nothing to flush.
func (t *C04Table) FlushBegin() bool {
	snp := t.tst.currentSnapshot()
	if snp == nil {
		return false
	}
	flushCh := make(chan *flusherIntroduction)
	done := make(chan struct{})
	t.flushPanic = nil
	go func() {
		defer close(done)
		defer func() { t.flushPanic = recover() }() // re-raised on the harness goroutine
		t.tst.flush(snp, flushCh)
	}()
	select {
	case ind := <-flushCh:
		t.flushInd, t.flushEnd, t.flushSnp = ind, done, snp
		return true
	case <-done:
		snp.decRef()
		if t.flushPanic != nil {
			panic(t.flushPanic)
		}
		return false
	}
}

// FlushEnd is the introducer's part of a flush: introduceFlushed, which publishes the manifest.
func (t *C04Table) FlushEnd() {
	t.tst.introduceFlushed(t.flushInd, t.epoch)
	t.epoch++
	<-t.flushEnd
	t.flushSnp.decRef()
	t.flushInd, t.flushEnd, t.flushSnp = nil, nil, nil
	if t.flushPanic != nil {
		panic(t.flushPanic)
	}
}

// GC is the gc.clean() call the introducer loop makes after a flush or merge introduction.
func (t *C04Table) GC() { t.tst.gc.clean() }

// FileParts lists the file parts of the current snapshot.
func (t *C04Table) FileParts() []uint64 {
	snp := t.tst.currentSnapshot()
	if snp == nil {
		return nil
	}
	defer snp.decRef()
	var ids []uint64
	for _, pw := range snp.parts {
		if pw.mp == nil {
			ids = append(ids, pw.ID())
		}
	}
	return ids
}

// AllParts lists every part (memory and file) of the current snapshot.
func (t *C04Table) AllParts() (ids []uint64, mem []bool) {
	snp := t.tst.currentSnapshot()
	if snp == nil {
		return nil, nil
	}
	defer snp.decRef()
	for _, pw := range snp.parts {
		ids = append(ids, pw.ID())
		mem = append(mem, pw.mp != nil)
	}
	return
}

// Merge merges the given file parts with the real mergeParts and publishes the result with introduceMerged.
func (t *C04Table) Merge(ids []uint64) (bool, error) {
	snp := t.tst.currentSnapshot()
	if snp == nil {
		return false, nil
	}
	defer snp.decRef()
	want := map[uint64]struct{}{}
	for _, id := range ids {
		want[id] = struct{}{}
	}
	var parts []*partWrapper
	for _, pw := range snp.parts {
		if _, ok := want[pw.ID()]; ok && pw.mp == nil {
			parts = append(parts, pw)
		}
	}
	if len(parts) < 2 {
		return false, nil
	}
	closeCh := make(chan struct{})
	np, err := t.tst.mergeParts(t.tst.fileSystem, closeCh, parts, atomic.AddUint64(&t.tst.curPartID, 1), t.tst.root)
	if err != nil {
		return false, err
	}
	mi := &mergerIntroduction{newPart: np, merged: want, creator: snapshotCreatorMerger}
	t.tst.introduceMerged(mi, t.epoch)
	t.epoch++
	return true, nil
}

// LiveEpoch and the epochs still waiting for deletion, as the garbage cleaner sees them.
func (t *C04Table) LiveEpoch() (uint64, []uint64) {
	return t.tst.gc.liveEpoch, append([]uint64(nil), t.tst.gc.deletableEpochs...)
}

// Content reads everything back through the real query path (searchBlocks + queryResult.Pull: version dedup).
func (t *C04Table) Content(sids []uint64) ([]C04Row, error) {
	snp := t.tst.currentSnapshot()
	if snp == nil {
		return nil, nil
	}
	defer snp.decRef()
	pp, _ := snp.getParts(nil, storage.NewBypassCache(), 0, 1<<62)
	ss := make([]common.SeriesID, len(sids))
	for i := range sids {
		ss[i] = common.SeriesID(sids[i])
	}
	m := &measure{pm: protector.Nop{}}
	var result queryResult
	result.ctx = context.TODO()
	qo := queryOptions{minTimestamp: 0, maxTimestamp: 1 << 62}
	qo.FieldProjection = []string{"v", "pad"}
	if err := m.searchBlocks(context.TODO(), &result, ss, pp, qo); err != nil {
		return nil, err
	}
	result.orderByTS = true
	result.ascTS = true
	defer result.Release()
	var out []C04Row
	for {
		r := result.Pull()
		if r == nil {
			break
		}
		if r.Error != nil {
			return nil, r.Error
		}
		for i := range r.Timestamps {
			row := C04Row{Series: uint64(r.SID), TS: r.Timestamps[i], Version: r.Versions[i]}
			for _, f := range r.Fields {
				switch f.Name {
				case "v":
					row.Val = f.Values[i].GetInt().GetValue()
				case "pad":
					row.Pad = f.Values[i].GetBinaryData()
				}
			}
			out = append(out, row)
		}
	}
	sort.Slice(out, func(i, j int) bool {
		if out[i].Series != out[j].Series {
			return out[i].Series < out[j].Series
		}
		if out[i].TS != out[j].TS {
			return out[i].TS < out[j].TS
		}
		return out[i].Version < out[j].Version
	})
	return out, nil
}

// Close releases the table.
func (t *C04Table) Close() { _ = t.tst.Close() }

// C04ValidatePart is the startup validation of one part directory.
func C04ValidatePart(dir string) error {
	return validatePartMetadata(fs.NewLocalFileSystem(), dir)
}

// C04PartName and C04SnapshotName expose the on-disk naming.
func C04PartName(id uint64) string { return partName(id) }

// C04SnapshotName is snapshotName.
func C04SnapshotName(epoch uint64) string { return snapshotName(epoch) }
