//go:build verif

package measure

// In-package wrapper for /verif check C09: drives a real tsTable step by step (no background loops) and pulls an
// ordered queryResult. Only thin glue around unexported identifiers; no logic of its own.

import (
	"context"
	"fmt"
	"sync/atomic"

	"github.com/apache/skywalking-banyandb/api/common"
	"github.com/apache/skywalking-banyandb/banyand/internal/storage"
	"github.com/apache/skywalking-banyandb/banyand/protector"
	"github.com/apache/skywalking-banyandb/pkg/convert"
	"github.com/apache/skywalking-banyandb/pkg/fs"
	"github.com/apache/skywalking-banyandb/pkg/logger"
	pbv1 "github.com/apache/skywalking-banyandb/pkg/pb/v1"
	"github.com/apache/skywalking-banyandb/pkg/run"
)

// C09Row is one data point.
type C09Row struct {
	Series uint64
	TS     int64
	Val    int64
}

// C09Table wraps a real tsTable.
type C09Table struct {
	tst   *tsTable
	cache storage.Cache
	epoch uint64
}

// C09Open opens a tsTable in dir.
func C09Open(dir string) *C09Table {
	lfs := fs.NewLocalFileSystem()
	lfs.MkdirIfNotExist(dir, 0o755)
	tst, epoch := initTSTable(lfs, dir, common.Position{}, logger.GetLogger("verif"),
		option{protector: protector.Nop{}, mergePolicy: newDefaultMergePolicyForTesting()}, nil)
	tst.loopCloser = run.NewCloser(1)
	return &C09Table{tst: tst, epoch: epoch + 1, cache: storage.NewShardCache("verif", 0, 0)}
}

// Write introduces one memory part holding rows and returns its part id.
func (v *C09Table) Write(rows []C09Row) uint64 {
	dps := generateDataPoints()
	for _, r := range rows {
		dps.seriesIDs = append(dps.seriesIDs, common.SeriesID(r.Series))
		dps.timestamps = append(dps.timestamps, r.TS)
		dps.versions = append(dps.versions, 1)
		dps.tagFamilies = append(dps.tagFamilies, nil)
		dps.fields = append(dps.fields, nameValues{name: "skipped_field", values: []*nameValue{
			{name: "v", valueType: pbv1.ValueTypeInt64, value: convert.Int64ToBytes(r.Val)},
		}})
	}
	mp := generateMemPart()
	mp.mustInitFromDataPoints(dps)
	p := openMemPart(mp)
	ind := &introduction{part: newPartWrapper(mp, p)}
	id := atomic.AddUint64(&v.tst.curPartID, 1)
	ind.part.p.partMetadata.ID = id
	v.tst.introducePart(ind, v.epoch)
	v.epoch++
	return id
}

// Flush flushes all memory parts of the current snapshot.
func (v *C09Table) Flush() bool {
	snp := v.tst.currentSnapshot()
	if snp == nil {
		return false
	}
	defer snp.decRef()
	flushCh := make(chan *flusherIntroduction)
	done := make(chan struct{})
	go func() { v.tst.flush(snp, flushCh); close(done) }()
	select {
	case ind := <-flushCh:
		v.tst.introduceFlushed(ind, v.epoch)
		v.epoch++
		<-done
		v.tst.gc.clean()
		return true
	case <-done:
		return false
	}
}

// Merge merges the file parts with the given ids.
func (v *C09Table) Merge(ids []uint64) error {
	snp := v.tst.currentSnapshot()
	if snp == nil {
		return fmt.Errorf("no snapshot")
	}
	defer snp.decRef()
	want := map[uint64]struct{}{}
	for _, id := range ids {
		want[id] = struct{}{}
	}
	var parts []*partWrapper
	for _, pw := range snp.parts {
		if _, ok := want[pw.ID()]; ok && pw.mp == nil {
			parts = append(parts, pw)
		}
	}
	if len(parts) != len(ids) {
		return fmt.Errorf("merge: %d of %d parts are file parts of the snapshot", len(parts), len(ids))
	}
	np, err := v.tst.mergeParts(v.tst.fileSystem, make(chan struct{}), parts, atomic.AddUint64(&v.tst.curPartID, 1), v.tst.root)
	if err != nil {
		return err
	}
	mi := &mergerIntroduction{newPart: np, merged: want, creator: snapshotCreatorMerger}
	v.tst.introduceMerged(mi, v.epoch)
	v.epoch++
	v.tst.gc.clean()
	return nil
}

// Query runs searchBlocks over the current snapshot and pulls the queryResult ordered by time. It returns the rows in
// pull order and the number of rows of every Pull.
func (v *C09Table) Query(sids []uint64, minTS, maxTS int64, desc bool) (rows []C09Row, pulls []int, err error) {
	snp := v.tst.currentSnapshot()
	if snp == nil {
		return nil, nil, nil
	}
	defer snp.decRef()
	pp, _ := snp.getParts(nil, v.cache, minTS, maxTS)
	ss := make([]common.SeriesID, len(sids))
	for i := range sids {
		ss[i] = common.SeriesID(sids[i])
	}
	m := &measure{pm: protector.Nop{}}
	var result queryResult
	result.ctx = context.TODO()
	qo := queryOptions{minTimestamp: minTS, maxTimestamp: maxTS}
	qo.FieldProjection = []string{"v"}
	if err := m.searchBlocks(context.TODO(), &result, ss, pp, qo); err != nil {
		return nil, nil, err
	}
	result.orderByTS = true
	result.ascTS = !desc
	defer result.Release()
	for {
		r := result.Pull()
		if r == nil {
			break
		}
		if r.Error != nil {
			return nil, nil, r.Error
		}
		pulls = append(pulls, len(r.Timestamps))
		for i := range r.Timestamps {
			rows = append(rows, C09Row{Series: uint64(r.SID), TS: r.Timestamps[i], Val: r.Fields[0].Values[i].GetInt().GetValue()})
		}
	}
	return rows, pulls, nil
}

// Close closes the table.
func (v *C09Table) Close() {
	v.tst.Close()
	v.cache.Close()
}
