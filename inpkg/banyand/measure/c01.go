//go:build verif

package measure

// In-package seam of /verif check C01 on top of the loop-free driver of c02.go (VTable): writes data points with
// ARBITRARY tag families / field types through the real value encoders of the standalone write path
// (encodeTagValue / encodeFieldValue -> dataPoints -> tsTable.mustAddDataPoints -> memPart.mustInitFromDataPoints ->
// block.mustWriteTo -> column.mustWriteTo) and reads them back through the real query read path (snapshot.getParts ->
// measure.searchBlocks -> queryResult.Pull / PullBatch -> blockCursor.copyAllTo / copyTo / *Batch ->
// mustDecodeTagValue / mustDecodeFieldValue).  Flush / merge steps are the ones of c02.go.

import (
	"context"
	"fmt"
	"runtime"
	"strings"

	"github.com/apache/skywalking-banyandb/api/common"
	databasev1 "github.com/apache/skywalking-banyandb/api/proto/banyandb/database/v1"
	modelv1 "github.com/apache/skywalking-banyandb/api/proto/banyandb/model/v1"
	"github.com/apache/skywalking-banyandb/banyand/protector"
	"github.com/apache/skywalking-banyandb/pkg/fs"
	pbv1 "github.com/apache/skywalking-banyandb/pkg/pb/v1"
	"github.com/apache/skywalking-banyandb/pkg/query/model"
	"github.com/apache/skywalking-banyandb/pkg/query/vectorized"
	vmeasure "github.com/apache/skywalking-banyandb/pkg/query/vectorized/measure"
)

// V1Tag / V1Family / V1Field / V1Schema describe the columns of the harness measure.
type (
	// V1Tag is one tag.
	V1Tag struct {
		Name string
		Type databasev1.TagType
	}
	// V1Family is one tag family.
	V1Family struct {
		Name string
		Tags []V1Tag
	}
	// V1Field is one field.
	V1Field struct {
		Name string
		Type databasev1.FieldType
	}
	// V1Schema is the column layout.
	V1Schema struct {
		Families []V1Family
		Fields   []V1Field
	}
)

// V1Point is one data point: Tags[f][t] in schema order (a short / nil family slice means "null" exactly like the
// real handleTagFamily does), Fields in schema order.
type V1Point struct {
	Tags   [][]*modelv1.TagValue
	Fields []*modelv1.FieldValue
	S      uint64
	T      int64
	Ver    int64
}

// V1Row is one returned row: Tags / Fields are flattened in projection order.
type V1Row struct {
	Tags   []*modelv1.TagValue
	Fields []*modelv1.FieldValue
	S      uint64
	T      int64
	Ver    int64
}

// V1Query selects what to read. TagProj[f] lists the projected tag names of family f (schema order of families);
// an empty list = family not projected.
type V1Query struct {
	TagProj   map[string][]string
	FieldProj []string
	Sids      []uint64
	Min       int64
	Max       int64
	Desc      bool // order by timestamp descending (otherwise ascending by timestamp when ByTS, else by series)
	ByTS      bool
	Batch     bool // PullBatch (vectorized storage egress) instead of Pull
}

func (s *V1Schema) pb() *databasev1.Measure {
	m := &databasev1.Measure{}
	for _, f := range s.Families {
		tf := &databasev1.TagFamilySpec{Name: f.Name}
		for _, t := range f.Tags {
			tf.Tags = append(tf.Tags, &databasev1.TagSpec{Name: t.Name, Type: t.Type})
		}
		m.TagFamilies = append(m.TagFamilies, tf)
	}
	for _, f := range s.Fields {
		m.Fields = append(m.Fields, &databasev1.FieldSpec{Name: f.Name, FieldType: f.Type})
	}
	return m
}

func (s *V1Schema) dataPoints(pts []V1Point) *dataPoints {
	dps := &dataPoints{}
	for i := range pts {
		p := &pts[i]
		dps.seriesIDs = append(dps.seriesIDs, common.SeriesID(p.S))
		dps.timestamps = append(dps.timestamps, p.T)
		dps.versions = append(dps.versions, p.Ver)
		// same shape as handleTagFamily: one nameValues per schema family, one nameValue per schema tag, a missing
		// source value is the null tag value.
		tfs := make([]nameValues, 0, len(s.Families))
		for fi, f := range s.Families {
			tf := nameValues{name: f.Name}
			for ti, t := range f.Tags {
				tv := pbv1.NullTagValue
				if fi < len(p.Tags) && ti < len(p.Tags[fi]) && p.Tags[fi][ti] != nil {
					tv = p.Tags[fi][ti]
				}
				tf.values = append(tf.values, encodeTagValue(t.Name, t.Type, tv))
			}
			if len(tf.values) > 0 {
				tfs = append(tfs, tf)
			}
		}
		dps.tagFamilies = append(dps.tagFamilies, tfs)
		// same shape as appendDataPoints.
		field := nameValues{}
		for i, f := range s.Fields {
			fv := pbv1.NullFieldValue
			if i < len(p.Fields) && p.Fields[i] != nil {
				fv = p.Fields[i]
			}
			field.values = append(field.values, encodeFieldValue(f.Name, f.Type, fv))
		}
		dps.fields = append(dps.fields, field)
	}
	return dps
}

// V1Write = the real tsTable.mustAddDataPoints of one batch; the harness plays the introducer loop for exactly this
// introduction (real introducePart).
func (v *VTable) V1Write(s *V1Schema, pts []V1Point) {
	dps := s.dataPoints(pts)
	t := vGo(func() {
		ind := <-v.tst.introductions
		v.tst.introducePart(ind, v.epoch)
		v.epoch++
	})
	v.tst.mustAddDataPoints(dps)
	t.wait()
}

// V1WriteProbe writes one batch and observes the acknowledgement mechanism of the standalone write path: the
// writer (mustAddDataPoints -> mustAddMemPart) must not return before the introducer has applied the introduction.
// The harness receives the introduction and WITHHOLDS it until the writer goroutine has reached a stable state: either
// it is parked in a channel receive inside mustAddMemPart (correct: waiting for `applied`), or it has returned
// (early == true: the batch would be acknowledged while no snapshot contains it). No clock is involved.
// After an early return the table must not be used any more.
func (v *VTable) V1WriteProbe(s *V1Schema, pts []V1Point) (early bool) {
	dps := s.dataPoints(pts)
	done := make(chan struct{})
	var pv any
	go func() {
		defer close(done)
		defer func() { pv = recover() }()
		v.tst.mustAddDataPoints(dps)
	}()
	ind := <-v.tst.introductions
	buf := make([]byte, 1<<20)
	for spins := 0; ; spins++ {
		select {
		case <-done:
			if pv != nil {
				panic(pv)
			}
			return true
		default:
		}
		if vParkedIn(buf, "(*tsTable).mustAddMemPart", "chan receive") {
			break
		}
		runtime.Gosched()
		if spins > 50_000_000 {
			panic("V1WriteProbe: writer neither returned nor parked")
		}
	}
	v.tst.introducePart(ind, v.epoch)
	v.epoch++
	<-done
	if pv != nil {
		panic(pv)
	}
	return false
}

// vParkedIn reports whether some goroutine whose stack contains fn is in the given wait state.
func vParkedIn(buf []byte, fn, state string) bool {
	n := runtime.Stack(buf, true)
	for _, g := range strings.Split(string(buf[:n]), "\n\n") {
		if !strings.Contains(g, fn) {
			continue
		}
		nl := strings.IndexByte(g, '\n')
		if nl < 0 {
			continue
		}
		if strings.Contains(g[:nl], "["+state) {
			return true
		}
	}
	return false
}

// V1Query runs the real block search + result merge over the current snapshot. Rows in pull order.
func (v *VTable) V1Query(s *V1Schema, q V1Query) (out []V1Row, err error) {
	defer func() {
		if r := recover(); r != nil {
			err = fmt.Errorf("query panicked: %v", r)
		}
	}()
	snp := v.tst.currentSnapshot()
	if snp == nil {
		return nil, nil
	}
	defer snp.decRef()
	pp, n := snp.getParts(nil, v.cache, q.Min, q.Max)
	if n < 1 {
		return nil, nil
	}
	ss := make([]common.SeriesID, len(q.Sids))
	for i := range q.Sids {
		ss[i] = common.SeriesID(q.Sids[i])
	}
	m := &measure{pm: protector.Nop{}}
	qo := queryOptions{minTimestamp: q.Min, maxTimestamp: q.Max}
	qo.FieldProjection = q.FieldProj
	qo.schemaTagTypes = map[string]pbv1.ValueType{}
	nTags := 0
	for _, f := range s.Families {
		for _, t := range f.Tags {
			if vt := pbv1.TagValueSpecToValueType(t.Type); vt != pbv1.ValueTypeUnknown {
				qo.schemaTagTypes[t.Name] = vt
			}
		}
		if names := q.TagProj[f.Name]; len(names) > 0 {
			qo.TagProjection = append(qo.TagProjection, model.TagProjection{Family: f.Name, Names: names})
			nTags += len(names)
		}
	}
	result := &queryResult{ctx: context.Background(), tagProjection: qo.TagProjection}
	defer result.Release()
	if err = m.searchBlocks(context.Background(), result, ss, pp, qo); err != nil {
		return nil, err
	}
	result.orderByTS, result.ascTS = q.ByTS || q.Desc, !q.Desc
	if q.Batch {
		result.batchSchema, err = vmeasure.BuildBatchSchema(s.pb(), model.MeasureQueryOptions{
			TagProjection: qo.TagProjection, FieldProjection: qo.FieldProjection,
		})
		if err != nil {
			return nil, err
		}
		for {
			b, perr := result.PullBatch(context.Background())
			if perr != nil {
				return out, perr
			}
			if b == nil {
				return out, nil
			}
			if len(b.Tags) != nTags || len(b.Fields) != len(q.FieldProj) {
				return out, fmt.Errorf("malformed batch: %d tag columns (want %d), %d field columns (want %d)", len(b.Tags), nTags, len(b.Fields), len(q.FieldProj))
			}
			for i := 0; i < b.RowCount(); i++ {
				o := V1Row{S: uint64(b.SeriesIDs[i]), T: b.Timestamps[i], Ver: b.Versions[i]}
				for ti := range b.Tags {
					tc, ok := b.Tags[ti].(*vectorized.TypedColumn[*modelv1.TagValue])
					if !ok {
						return out, fmt.Errorf("unexpected tag column type %T", b.Tags[ti])
					}
					if tc.IsNull(i) {
						o.Tags = append(o.Tags, pbv1.NullTagValue)
					} else {
						o.Tags = append(o.Tags, tc.Data()[i])
					}
				}
				for fi := range b.Fields {
					fc, ok := b.Fields[fi].(*vectorized.TypedColumn[*modelv1.FieldValue])
					if !ok {
						return out, fmt.Errorf("unexpected field column type %T", b.Fields[fi])
					}
					if fc.IsNull(i) {
						o.Fields = append(o.Fields, pbv1.NullFieldValue)
					} else {
						o.Fields = append(o.Fields, fc.Data()[i])
					}
				}
				out = append(out, o)
			}
			b.Release()
		}
	}
	for {
		r := result.Pull()
		if r == nil {
			return out, nil
		}
		if r.Error != nil {
			return out, r.Error
		}
		if len(r.Fields) != len(q.FieldProj) {
			return out, fmt.Errorf("malformed result: %d fields, want %d", len(r.Fields), len(q.FieldProj))
		}
		got := 0
		for _, tf := range r.TagFamilies {
			got += len(tf.Tags)
		}
		if got != nTags {
			return out, fmt.Errorf("malformed result: %d tags, want %d", got, nTags)
		}
		for i := range r.Timestamps {
			o := V1Row{S: uint64(r.SID), T: r.Timestamps[i], Ver: r.Versions[i]}
			for fi := range r.Fields {
				if r.Fields[fi].Name != q.FieldProj[fi] || len(r.Fields[fi].Values) != len(r.Timestamps) {
					return out, fmt.Errorf("malformed result field %d: name %q (want %q), %d values for %d timestamps",
						fi, r.Fields[fi].Name, q.FieldProj[fi], len(r.Fields[fi].Values), len(r.Timestamps))
				}
				o.Fields = append(o.Fields, r.Fields[fi].Values[i])
			}
			for _, tf := range r.TagFamilies {
				for _, t := range tf.Tags {
					if len(t.Values) != len(r.Timestamps) {
						return out, fmt.Errorf("malformed result tag %s.%s: %d values for %d timestamps", tf.Name, t.Name, len(t.Values), len(r.Timestamps))
					}
					o.Tags = append(o.Tags, t.Values[i])
				}
			}
			out = append(out, o)
		}
	}
}

// V1Layout describes the parts of the current snapshot: per part (snapshot order) memory?/rows/blocks.
type V1Layout struct {
	ID     uint64
	Rows   uint64
	Blocks uint64
	Mem    bool
}

// V1Parts lists the parts of the current snapshot.
func (v *VTable) V1Parts() []V1Layout {
	snp := v.tst.currentSnapshot()
	if snp == nil {
		return nil
	}
	defer snp.decRef()
	var out []V1Layout
	for _, pw := range snp.parts {
		out = append(out, V1Layout{ID: pw.ID(), Mem: pw.mp != nil, Rows: pw.p.partMetadata.TotalCount, Blocks: pw.p.partMetadata.BlocksCount})
	}
	return out
}

// V1Encodings returns, for every block of every part of the current snapshot, the first byte (the encode type) of
// each stored column "<family>.<tag>" / "field.<name>": evidence of which column encodings the dataset forced.
func (v *VTable) V1Encodings(sids []uint64) map[string]map[int]int {
	out := map[string]map[int]int{}
	snp := v.tst.currentSnapshot()
	if snp == nil {
		return out
	}
	defer snp.decRef()
	ss := make([]common.SeriesID, len(sids))
	for i := range sids {
		ss[i] = common.SeriesID(sids[i])
	}
	note := func(col string, et int) {
		m := out[col]
		if m == nil {
			m = map[int]int{}
			out[col] = m
		}
		m[et]++
	}
	for _, pw := range snp.parts {
		p := pw.p
		if p.cache == nil {
			p.cache = v.cache
		}
		ti := generateTstIter()
		ti.init([]*part{p}, ss, -1<<62, 1<<62)
		if ti.Error() != nil {
			panic(ti.Error())
		}
		for ti.nextBlock() {
			bm := ti.piHeap[0].curBlock
			for _, cm := range bm.field.columnMetadata {
				if cm.size > 1 {
					b := make([]byte, 2)
					fs.MustReadData(p.fieldValues, int64(cm.offset), b)
					note("field."+cm.name, vEncClass(cm.valueType, b))
				}
			}
			for name, db := range bm.tagFamilies {
				buf := make([]byte, db.size)
				fs.MustReadData(p.tagFamilyMetadata[name], int64(db.offset), buf)
				cfm := generateColumnFamilyMetadata()
				if _, err := cfm.unmarshal(buf); err != nil {
					panic(err)
				}
				for _, cm := range cfm.columnMetadata {
					if cm.size > 1 {
						b := make([]byte, 2)
						fs.MustReadData(p.tagFamilies[name], int64(cm.offset), b)
						note(name+"."+cm.name, vEncClass(cm.valueType, b))
					}
				}
				releaseColumnFamilyMetadata(cfm)
			}
		}
		if ti.Error() != nil {
			panic(ti.Error())
		}
		releaseTstIter(ti)
	}
	return out
}

// vEncClass: the encode type byte of a stored column; a typed (int/float) column that fell back to the bytes
// encoding reports 100 + the inner encode type (plain 109 / dictionary 110).
func vEncClass(vt pbv1.ValueType, b []byte) int {
	if (vt == pbv1.ValueTypeInt64 || vt == pbv1.ValueTypeFloat64) && b[0] == 9 {
		return 100 + int(b[1])
	}
	return int(b[0])
}
