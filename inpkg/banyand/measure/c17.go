//go:build verif

package measure

import (
	"context"
	"fmt"
	"io"
	"os"
	"path/filepath"
	"sort"
	"strings"
	"sync/atomic"
	"time"

	"github.com/apache/skywalking-banyandb/api/common"
	"github.com/apache/skywalking-banyandb/banyand/internal/storage"
	"github.com/apache/skywalking-banyandb/banyand/protector"
	"github.com/apache/skywalking-banyandb/banyand/queue"
	pbytes "github.com/apache/skywalking-banyandb/pkg/bytes"
	"github.com/apache/skywalking-banyandb/pkg/compress/zstd"
	"github.com/apache/skywalking-banyandb/pkg/convert"
	"github.com/apache/skywalking-banyandb/pkg/fs"
	"github.com/apache/skywalking-banyandb/pkg/logger"
	pbv1 "github.com/apache/skywalking-banyandb/pkg/pb/v1"
	"github.com/apache/skywalking-banyandb/pkg/query/model"
	"github.com/apache/skywalking-banyandb/pkg/run"
	resourceSchema "github.com/apache/skywalking-banyandb/pkg/schema"
	"github.com/apache/skywalking-banyandb/pkg/watcher"
)

// V17Row is one logical data point as written / as read back (Tags is only filled on read).
type V17Row struct {
	Tags    string
	Series  uint64
	TS      int64
	Version int64
	Val     int64
}

// V17Table is a real measure tsTable whose only background loop is the real introducer loop (with sync channel);
// flushing and syncing are driven by the harness through the same step functions the flusher / syncer loops call.
type V17Table struct {
	tst     *tsTable
	flushCh chan *flusherIntroduction
	mergeCh chan *mergerIntroduction
	syncCh  chan *syncIntroduction
	Dir     string
	NF      int
	closed  bool
}

// V17Open opens (or recovers) a table at dir. nf = number of tag families of the rows written through Write.
func V17Open(dir string, nf int) *V17Table {
	lfs := fs.NewLocalFileSystem()
	lfs.MkdirIfNotExist(dir, 0o755)
	tst, epoch := initTSTable(lfs, dir, common.Position{}, logger.GetLogger("verif"),
		option{protector: protector.Nop{}, mergePolicy: newDefaultMergePolicyForTesting()}, nil)
	if tst.snapshot == nil {
		epoch = 0x1000 // fresh table: initTSTable hands out a wall-clock epoch; the harness owns the clock
	}
	tst.loopCloser = run.NewCloser(1 + 1)
	tst.introductions = make(chan *introduction)
	tst.group = "g17"
	v := &V17Table{
		tst: tst, Dir: dir, NF: nf,
		flushCh: make(chan *flusherIntroduction), mergeCh: make(chan *mergerIntroduction), syncCh: make(chan *syncIntroduction),
	}
	go tst.introducerLoopWithSync(v.flushCh, v.mergeCh, v.syncCh, make(watcher.Channel, 1), epoch+1)
	return v
}

// Close is tsTable.Close (stops the introducer loop, releases the snapshot).
func (v *V17Table) Close() {
	if v.closed {
		return
	}
	v.closed = true
	_ = v.tst.Close()
}

func v17TagFamilies(nf int, r V17Row) []nameValues {
	var out []nameValues
	for f := 0; f < nf; f++ {
		out = append(out, nameValues{name: fmt.Sprintf("f%d", f), values: []*nameValue{
			{name: "s", valueType: pbv1.ValueTypeStr, value: []byte(fmt.Sprintf("s%d-%d-%d", f, r.Series, r.TS))},
			{name: "n", valueType: pbv1.ValueTypeInt64, value: convert.Int64ToBytes(r.TS*10 + int64(f))},
		}})
	}
	return out
}

// Write adds one batch as a memory part through the real mustAddMemPart (introducer loop applies it).
func (v *V17Table) Write(rows []V17Row) {
	dps := generateDataPoints()
	for _, r := range rows {
		dps.seriesIDs = append(dps.seriesIDs, common.SeriesID(r.Series))
		dps.timestamps = append(dps.timestamps, r.TS)
		dps.versions = append(dps.versions, r.Version)
		dps.tagFamilies = append(dps.tagFamilies, v17TagFamilies(v.NF, r))
		dps.fields = append(dps.fields, nameValues{name: "skipped_field", values: []*nameValue{
			{name: "v", valueType: pbv1.ValueTypeInt64, value: convert.Int64ToBytes(r.Val)},
		}})
	}
	mp := generateMemPart()
	mp.mustInitFromDataPoints(dps)
	v.tst.mustAddMemPart(mp)
}

// Flush is the real tsTable.flush on the current snapshot (memory parts -> file parts, published by the introducer).
func (v *V17Table) Flush() {
	snp := v.tst.currentSnapshot()
	if snp == nil {
		return
	}
	defer snp.decRef()
	v.tst.flush(snp, v.flushCh)
}

// V17Part describes one part of the current snapshot.
type V17Part struct {
	Path string
	ID   uint64
	Mem  bool
}

// Parts lists the parts of the current snapshot; Epoch is 0 when there is no snapshot.
func (v *V17Table) Parts() (parts []V17Part, epoch uint64) {
	snp := v.tst.currentSnapshot()
	if snp == nil {
		return nil, 0
	}
	defer snp.decRef()
	for _, pw := range snp.parts {
		p := V17Part{ID: pw.ID(), Mem: pw.mp != nil}
		if pw.p != nil {
			p.Path = pw.p.path
		}
		parts = append(parts, p)
	}
	return parts, snp.epoch
}

// PartDir is the directory of a file part.
func (v *V17Table) PartDir(id uint64) string { return partPath(v.tst.root, id) }

// Read scans the given series over the current snapshot through the real block search / merge path.
func (v *V17Table) Read(sids []uint64) (rows []V17Row, err error) {
	defer func() {
		if p := recover(); p != nil {
			err = fmt.Errorf("panic in read path: %v", p)
		}
	}()
	snp := v.tst.currentSnapshot()
	if snp == nil {
		return nil, nil
	}
	defer snp.decRef()
	const minTS, maxTS = int64(0), int64(1) << 62
	pp, _ := snp.getParts(nil, storage.NewBypassCache(), minTS, maxTS)
	ss := make([]common.SeriesID, len(sids))
	for i := range sids {
		ss[i] = common.SeriesID(sids[i])
	}
	m := &measure{pm: protector.Nop{}}
	var result queryResult
	result.ctx = context.TODO()
	qo := queryOptions{minTimestamp: minTS, maxTimestamp: maxTS}
	qo.FieldProjection = []string{"v"}
	for f := 0; f < v.NF; f++ {
		qo.TagProjection = append(qo.TagProjection, model.TagProjection{Family: fmt.Sprintf("f%d", f), Names: []string{"s", "n"}})
	}
	if err := m.searchBlocks(context.TODO(), &result, ss, pp, qo); err != nil {
		return nil, err
	}
	result.orderByTS = true
	result.ascTS = true
	defer result.Release()
	for {
		r := result.Pull()
		if r == nil {
			break
		}
		if r.Error != nil {
			return rows, r.Error
		}
		for i := range r.Timestamps {
			var sb strings.Builder
			for _, tf := range r.TagFamilies {
				sb.WriteString(tf.Name)
				sb.WriteByte('{')
				for _, t := range tf.Tags {
					sb.WriteString(t.Name)
					sb.WriteByte('=')
					if i < len(t.Values) {
						sb.WriteString(strings.ReplaceAll(t.Values[i].String(), " ", ""))
					} else {
						sb.WriteString("<missing>")
					}
					sb.WriteByte(',')
				}
				sb.WriteByte('}')
			}
			rows = append(rows, V17Row{Series: uint64(r.SID), TS: r.Timestamps[i], Version: r.Versions[i], Val: r.Fields[0].Values[i].GetInt().GetValue(), Tags: sb.String()})
		}
	}
	sort.SliceStable(rows, func(i, j int) bool {
		if rows[i].Series != rows[j].Series {
			return rows[i].Series < rows[j].Series
		}
		return rows[i].TS < rows[j].TS
	})
	return rows, nil
}

// ---------------------------------------------------------------------------------------------------------------
// receiver side: the real syncCallback (CreatePartHandler / HandleFileChunk / syncPartContext.FinishSync / Close)
// over a real tsTable; only the TSDB / segment layer (not an anchor of this property) is a stub.

type v17Group struct {
	resourceSchema.Group
	db io.Closer
}

func (g *v17Group) SupplyTSDB() io.Closer { return g.db }

type v17Repo struct {
	resourceSchema.Repository
	h *V17Handler
}

func (r *v17Repo) LoadGroup(name string) (resourceSchema.Group, bool) {
	if name != r.h.Group {
		return nil, false
	}
	return &v17Group{db: &v17TSDB{h: r.h}}, true
}

type v17TSDB struct {
	storage.TSDB[*tsTable, option]
	h *V17Handler
}

func (d *v17TSDB) Close() error { return nil }

func (d *v17TSDB) SegmentInterval() storage.IntervalRule {
	return storage.IntervalRule{Unit: storage.DAY, Num: 1}
}

func (d *v17TSDB) Tick(int64) {}

func (d *v17TSDB) CreateSegmentIfNotExist(ts time.Time) (storage.Segment[*tsTable, option], error) {
	atomic.AddInt64(&d.h.SegRefs, 1)
	atomic.AddInt64(&d.h.SegAcquired, 1)
	d.h.SegTimes = append(d.h.SegTimes, ts.UnixNano())
	return &v17Seg{h: d.h}, nil
}

type v17Seg struct {
	storage.Segment[*tsTable, option]
	h *V17Handler
}

func (s *v17Seg) DecRef() { atomic.AddInt64(&s.h.SegRefs, -1) }

func (s *v17Seg) CreateTSTableIfNotExist(shard common.ShardID) (*tsTable, error) {
	s.h.Shards = append(s.h.Shards, uint32(shard))
	return s.h.tab.tst, nil
}

// V17Handler is the measure part-sync handler of a data node bound to one table.
type V17Handler struct {
	tab         *V17Table
	cb          queue.ChunkedSyncHandler
	Group       string
	SegTimes    []int64
	Shards      []uint32
	SegRefs     int64 // segment pins currently held by sync contexts (must be 0 when no session is open)
	SegAcquired int64
}

// Handler returns the real chunked-sync handler (measure.setUpChunkedSyncCallback) writing into this table.
func (v *V17Table) Handler() *V17Handler {
	h := &V17Handler{tab: v, Group: v.tst.group}
	sr := &schemaRepo{Repository: &v17Repo{h: h}, l: logger.GetLogger("verif")}
	h.cb = setUpChunkedSyncCallback(logger.GetLogger("verif"), sr)
	return h
}

// Callback is the queue.ChunkedSyncHandler to register with the sub server.
func (h *V17Handler) Callback() queue.ChunkedSyncHandler { return h.cb }

// ---------------------------------------------------------------------------------------------------------------
// sender side: the real syncSnapshot (collectPartsToSync, executeSyncWithRetry, failed-parts handler,
// sendSyncIntroduction) with a caller-supplied chunked sync client.

type v17Client struct {
	queue.Client
	mk func(node string, chunkSize uint32) (queue.ChunkedSyncClient, error)
}

func (c *v17Client) NewChunkedSyncClient(node string, chunkSize uint32) (queue.ChunkedSyncClient, error) {
	return c.mk(node, chunkSize)
}

// SyncSnapshot runs the body of one syncLoop iteration: tsTable.syncSnapshot on the current snapshot.
func (v *V17Table) SyncSnapshot(node string, mk func(node string, chunkSize uint32) (queue.ChunkedSyncClient, error)) (err error) {
	defer func() {
		if p := recover(); p != nil {
			err = fmt.Errorf("panic in syncSnapshot: %v", p)
		}
	}()
	v.tst.option.tire2Client = &v17Client{mk: mk}
	v.tst.getNodes = func() []string { return []string{node} }
	snp := v.tst.currentSnapshot()
	if snp == nil {
		return nil
	}
	defer snp.decRef()
	return v.tst.syncSnapshot(snp, v.syncCh)
}

// V17FileCopy returns name -> content of every regular file below dir (recursive), keys relative to dir.
func V17FileCopy(dir string) map[string]string {
	out := map[string]string{}
	_ = filepath.Walk(dir, func(p string, info os.FileInfo, err error) error {
		if err != nil || info.IsDir() {
			return nil
		}
		b, _ := os.ReadFile(p)
		rel, _ := filepath.Rel(dir, p)
		out[rel] = string(b)
		return nil
	})
	return out
}

// V17FailedPartsDir is the sender-side quarantine directory of a table root.
func V17FailedPartsDir(root string) string { return filepath.Join(root, storage.FailedPartsDirName) }

// V17StreamNames maps the stream-level file names of the sync protocol to the on-disk file names of a part.
func V17StreamNames(name string) string {
	switch {
	case name == measureMetaName:
		return metaFilename
	case name == measurePrimaryName:
		return primaryFilename
	case name == measureTimestampsName:
		return timestampsFilename
	case name == measureFieldValuesName:
		return fieldValuesFilename
	case name == tagTypeFilename:
		return tagTypeFilename
	case strings.HasPrefix(name, measureTagFamiliesPrefix):
		return name[len(measureTagFamiliesPrefix):] + tagFamiliesFilenameExt
	case strings.HasPrefix(name, measureTagMetadataPrefix):
		return name[len(measureTagMetadataPrefix):] + tagFamiliesMetadataFilenameExt
	}
	return "?" + name
}

// ---------------------------------------------------------------------------------------------------------------
// cluster phase: what a part on a data node holds (block level: series, timestamp bounds, row count)

// V17Block is one block of a part.
type V17Block struct {
	Series uint64
	Min    int64
	Max    int64
	Count  uint64
}

// V17PartBlocks opens the part directory with the real mustOpenFilePart and decodes every block header
// (primary index -> primary blocks -> block metadata).
func V17PartBlocks(partDir string) (out []V17Block) {
	id, err := parseEpoch(filepath.Base(partDir))
	if err != nil {
		return nil
	}
	p := mustOpenFilePart(id, filepath.Dir(partDir), fs.NewLocalFileSystem())
	defer p.close()
	var cbuf, buf []byte
	for i := range p.primaryBlockMetadata {
		mr := &p.primaryBlockMetadata[i]
		cbuf = pbytes.ResizeOver(cbuf, int(mr.size))
		fs.MustReadData(p.primary, int64(mr.offset), cbuf)
		buf, err = zstd.Decompress(buf[:0], cbuf)
		if err != nil {
			panic(err)
		}
		bms, err := unmarshalBlockMetadata(nil, buf)
		if err != nil {
			panic(err)
		}
		for j := range bms {
			out = append(out, V17Block{Series: uint64(bms[j].seriesID), Min: bms[j].timestamps.min, Max: bms[j].timestamps.max, Count: bms[j].count})
		}
	}
	return out
}

// SkipPartIDs advances the table's part-id counter by n, as n earlier flushes / merges would have: the next part gets
// id current+n+1 (round 2: sender parts whose id reads differently in decimal and in the 16-digit hex directory name).
func (v *V17Table) SkipPartIDs(n uint64) { atomic.AddUint64(&v.tst.curPartID, n) }
