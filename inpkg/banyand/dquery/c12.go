//go:build verif

package dquery

import (
	measurev1 "github.com/apache/skywalking-banyandb/api/proto/banyandb/measure/v1"
	modelv1 "github.com/apache/skywalking-banyandb/api/proto/banyandb/model/v1"
)

// VerifC12TopNSortKeyFloat is the sort key the distributed top-N merge uses for a float item.
func VerifC12TopNSortKeyFloat(f float64) []byte {
	it := &comparableTopNItem{&measurev1.TopNList_Item{Value: &modelv1.FieldValue{Value: &modelv1.FieldValue_Float{Float: &modelv1.Float{Value: f}}}}}
	return it.SortedField()
}

// VerifC12TopNSortKeyInt is the sort key the distributed top-N merge uses for an int item.
func VerifC12TopNSortKeyInt(i int64) []byte {
	it := &comparableTopNItem{&measurev1.TopNList_Item{Value: &modelv1.FieldValue{Value: &modelv1.FieldValue_Int{Int: &modelv1.Int{Value: i}}}}}
	return it.SortedField()
}
