//go:build verif

package storage

import (
	"context"
	"fmt"
	"os"
	"path/filepath"
	"reflect"
	"sort"
	"sync/atomic"
	"time"
	"unsafe"

	"github.com/benbjohnson/clock"

	"github.com/apache/skywalking-banyandb/api/common"
	commonv1 "github.com/apache/skywalking-banyandb/api/proto/banyandb/common/v1"
	"github.com/apache/skywalking-banyandb/pkg/fs"
	"github.com/apache/skywalking-banyandb/pkg/logger"
	"github.com/apache/skywalking-banyandb/pkg/timestamp"
	"github.com/apache/skywalking-banyandb/pkg/verif/sched"
)

// VTable is a trivial TSTable that records its lifecycle.
type VTable struct {
	db     *VDB
	Loc    string
	Closed bool
}

func (t *VTable) rel() string {
	r, err := filepath.Rel(t.db.Dir, t.Loc)
	if err != nil {
		return t.Loc
	}
	return r
}

// Close implements TSTable.
func (t *VTable) Close() error {
	if t.Closed {
		t.db.Errors = append(t.db.Errors, "table closed twice: "+t.rel())
	}
	t.Closed = true
	t.db.TableCloses++
	return nil
}

// Collect implements TSTable.
func (t *VTable) Collect(Metrics) {
	if t.Closed {
		t.db.Errors = append(t.db.Errors, "Collect on a closed table: "+t.rel())
	}
}

// VSnapshotYield makes VTable.TakeFileSnapshot a scheduling point of the controlled scheduler (a real table's
// snapshot takes time; other threads may run while it copies).
var VSnapshotYield bool

// TakeFileSnapshot implements TSTable.
func (t *VTable) TakeFileSnapshot(dst string) (bool, error) {
	if t.Closed {
		t.db.Errors = append(t.db.Errors, "TakeFileSnapshot on a closed table: "+t.rel())
	}
	if VSnapshotYield {
		sched.Yield("table-snapshot")
		if t.Closed {
			t.db.Errors = append(t.db.Errors, "table closed while its file snapshot was being taken: "+t.rel())
		}
		if _, err := os.Stat(t.Loc); err != nil {
			t.db.Errors = append(t.db.Errors, "shard directory removed while its file snapshot was being taken: "+t.rel())
		}
	}
	t.db.Snapshots++
	return true, os.WriteFile(dst+"/marker", []byte(t.Loc), 0o600)
}

// VOpts configures a harness database.
type VOpts struct {
	Now              time.Time
	Interval         IntervalRule
	TTL              IntervalRule
	IdleTimeout      time.Duration
	DisableRetention bool
	ShardNum         uint32
}

// VClock is a harness-controlled clock: Now() is whatever the harness set, timers never fire. It deliberately does not
// implement timestamp.MockClock (whose Set/Add sleep 1ms of wall time per call).
type VClock struct {
	clock.Clock
	now atomic.Int64
}

// Now implements clock.Clock.
func (c *VClock) Now() time.Time { return time.Unix(0, c.now.Load()).In(time.Local) }

// Since implements clock.Clock.
func (c *VClock) Since(t time.Time) time.Duration { return c.Now().Sub(t) }

// SetNow moves the clock.
func (c *VClock) SetNow(t time.Time) { c.now.Store(t.UnixNano()) }

// VDB wraps a real database[*VTable, any].
type VDB struct {
	Clock       *VClock
	db          *database[*VTable, any]
	Dir         string
	Errors      []string
	TableOpens  int
	TableCloses int
	Snapshots   int
}

// VSeg wraps a real segment (s) as handed out by the API (h: the Segment value whose DecRef the caller must use).
type VSeg struct {
	s *segment[*VTable, any]
	h Segment[*VTable, any]
}

func vseg(h Segment[*VTable, any]) *VSeg {
	if s, ok := h.(*segment[*VTable, any]); ok {
		return &VSeg{s: s, h: h}
	}
	// a wrapper struct embedding *segment as its first field
	rv := reflect.ValueOf(h)
	if rv.Kind() == reflect.Struct && rv.NumField() > 0 {
		tmp := reflect.New(rv.Type()).Elem()
		tmp.Set(rv)
		f := tmp.Field(0)
		if s, ok := reflect.NewAt(f.Type(), unsafe.Pointer(f.UnsafeAddr())).Elem().Interface().(*segment[*VTable, any]); ok {
			return &VSeg{s: s, h: h}
		}
	}
	panic(fmt.Sprintf("verif: unknown Segment implementation %T", h))
}

// VOpenDB opens a real TSDB with a trivial table type and a mock clock.
func VOpenDB(dir string, o VOpts) (*VDB, error) {
	v := &VDB{Dir: dir, Clock: &VClock{Clock: clock.NewMock()}}
	v.Clock.SetNow(o.Now)
	ctx := timestamp.SetClock(context.Background(), v.Clock)
	opts := TSDBOpts[*VTable, any]{
		Location:           dir,
		SegmentInterval:    o.Interval,
		TTL:                o.TTL,
		ShardNum:           max(o.ShardNum, 1),
		SegmentIdleTimeout: o.IdleTimeout,
		DisableRetention:   o.DisableRetention,
		TSTableCreator: func(_ fs.FileSystem, root string, _ common.Position, _ *logger.Logger, _ timestamp.TimeRange, _ any, _ any) (*VTable, error) {
			v.TableOpens++
			return &VTable{db: v, Loc: root}, nil
		},
	}
	db, err := OpenTSDB(ctx, opts, nil, "g")
	if err != nil {
		return nil, err
	}
	v.db = db.(*database[*VTable, any])
	return v, nil
}

// Close closes the database.
func (v *VDB) Close() error { return v.db.Close() }

// Create is CreateSegmentIfNotExist (pins the segment).
func (v *VDB) Create(ts time.Time) (*VSeg, error) {
	s, err := v.db.CreateSegmentIfNotExist(ts)
	if err != nil {
		return nil, err
	}
	return vseg(s), nil
}

// ControllerCreate is segmentController.create (no pin).
func (v *VDB) ControllerCreate(ts time.Time) (*VSeg, error) {
	s, err := v.db.segmentController.create(context.Background(), ts)
	if err != nil {
		return nil, err
	}
	return &VSeg{s: s, h: s}, nil
}

// Select is database.SelectSegments.
func (v *VDB) Select(tr timestamp.TimeRange, reopen bool) ([]*VSeg, error) {
	ss, err := v.db.SelectSegments(tr, reopen)
	out := make([]*VSeg, len(ss))
	for i := range ss {
		out[i] = vseg(ss[i])
	}
	return out, err
}

// Segments is segmentController.segments.
func (v *VDB) Segments(reopen bool) ([]*VSeg, error) {
	ss, err := v.db.segmentController.segments(context.Background(), reopen)
	out := make([]*VSeg, len(ss))
	for i := range ss {
		out[i] = &VSeg{s: ss[i], h: ss[i]}
	}
	return out, err
}

// List returns the current segment list without pinning.
func (v *VDB) List() []*VSeg {
	ss := v.db.segmentController.copySegments()
	out := make([]*VSeg, len(ss))
	for i := range ss {
		out[i] = &VSeg{s: ss[i], h: ss[i]}
	}
	return out
}

// SetIdleTimeout overrides the controller's idle timeout.
func (v *VDB) SetIdleTimeout(d time.Duration) { v.db.segmentController.idleTimeout = d }

// CloseIdle is segmentController.closeIdleSegments.
func (v *VDB) CloseIdle() int { return v.db.segmentController.closeIdleSegments() }

// RetentionRun runs the retention task body at now (constructs the task as startRotationTask does).
func (v *VDB) RetentionRun(now time.Time) {
	rt := newRetentionTask(v.db, v.db.segmentController.getOptions().TTL)
	rt.run(context.Background(), now, v.db.logger)
}

// Remove is segmentController.remove.
func (v *VDB) Remove(deadline time.Time) (bool, error) {
	return v.db.segmentController.remove(deadline)
}

// DeleteOldest is database.DeleteOldestSegment.
func (v *VDB) DeleteOldest() (bool, error) { return v.db.DeleteOldestSegment() }

// PeekOldestEnd is database.PeekOldestSegmentEndTime.
func (v *VDB) PeekOldestEnd() (time.Time, bool) { return v.db.PeekOldestSegmentEndTime() }

// ExpiredRange is database.GetExpiredSegmentsTimeRange.
func (v *VDB) ExpiredRange() *timestamp.TimeRange { return v.db.GetExpiredSegmentsTimeRange() }

// DeleteExpired is database.DeleteExpiredSegments.
func (v *VDB) DeleteExpired(suffixes []string) int64 { return v.db.DeleteExpiredSegments(suffixes) }

// Snapshot is database.TakeFileSnapshot.
func (v *VDB) Snapshot(dst string) (bool, error) { return v.db.TakeFileSnapshot(dst) }

// CollectMetrics is the segment part of database.collect.
func (v *VDB) CollectMetrics() int {
	n := 0
	for _, s := range v.db.segmentController.copySegments() {
		if s.collectOpenMetrics(v.db.segmentController.metrics) {
			n++
		}
	}
	return n
}

// UpdateOptions is database.UpdateOptions.
func (v *VDB) UpdateOptions(interval, ttl IntervalRule) {
	toPB := func(r IntervalRule) *commonv1.IntervalRule {
		u := commonv1.IntervalRule_UNIT_HOUR
		if r.Unit == DAY {
			u = commonv1.IntervalRule_UNIT_DAY
		}
		return &commonv1.IntervalRule{Unit: u, Num: uint32(r.Num)}
	}
	v.db.UpdateOptions(&commonv1.ResourceOpts{ShardNum: 1, SegmentInterval: toPB(interval), Ttl: toPB(ttl)})
}

// HoldGate takes the retention gate (as a running retention task does); the returned func releases it.
func (v *VDB) HoldGate() func() {
	v.db.retentionGate <- struct{}{}
	return func() { <-v.db.retentionGate }
}

// --- segment wrappers

// IncRef is segment.incRef.
func (s *VSeg) IncRef() error { return s.s.incRef(context.Background()) }

// DecRef is segment.DecRef.
func (s *VSeg) DecRef() { s.h.DecRef() }

// CloseIfIdle is segment.closeIfIdle.
func (s *VSeg) CloseIfIdle(th int64) bool { return s.s.closeIfIdle(th) }

// Delete is segment.delete.
func (s *VSeg) Delete() { s.s.delete() }

// Table is CreateTSTableIfNotExist(0).
func (s *VSeg) Table() (*VTable, error) { return s.s.CreateTSTableIfNotExist(0) }

// TickAndWait delivers a data timestamp to the real rotation goroutine (database.Tick -> tsEventCh) and returns when the
// goroutine has processed exactly that event: it waits until the goroutine is parked in its select, sends, waits until
// the event's retention run has been counted (so the event was really taken off the channel) and then until the
// goroutine is parked again. InstallCounters must have been called. An error is a harness error, never a verdict.
func (v *VDB) TickAndWait(minTs int64, horizon time.Duration) error {
	if !v.waitRotationParked(horizon) {
		return fmt.Errorf("rotation goroutine is not parked in its event loop after %s", horizon)
	}
	ts := minTs
	if l := v.db.latestTickTime.Load(); ts-timeEventSnapDuration < l {
		ts = l + timeEventSnapDuration
	}
	before := v.RetentionRuns()
	v.db.Tick(ts)
	deadline := time.Now().Add(horizon)
	for v.RetentionRuns() == before {
		if time.Now().After(deadline) {
			return fmt.Errorf("rotation goroutine did not take Tick(%d) within %s", ts, horizon)
		}
		time.Sleep(200 * time.Microsecond)
	}
	if !v.waitRotationParked(horizon) {
		return fmt.Errorf("rotation goroutine did not return to its event loop within %s of Tick(%d)", horizon, ts)
	}
	return nil
}

// ForceClose releases the segment's series index and shard tables whatever its reference count says. Harness cleanup
// only: an execution that was aborted by a panic / deadlock in the code under test leaves segments that left the
// controller's list (deferred delete) open for ever, which leaks their index goroutines and descriptors.
func (s *VSeg) ForceClose() {
	defer func() { _ = recover() }()
	s.s.mu.Lock()
	defer s.s.mu.Unlock()
	s.s.closeResourcesLocked()
}

// TableN is CreateTSTableIfNotExist(id).
func (s *VSeg) TableN(id int) (*VTable, error) { return s.s.CreateTSTableIfNotExist(common.ShardID(id)) }

// Tables returns the open shard tables.
func (s *VSeg) Tables() []*VTable { tt, _ := s.s.Tables(); return tt }

// Suffix of the segment directory.
func (s *VSeg) Suffix() string { return s.s.suffix }

// Same reports whether both wrap the same segment object.
func (s *VSeg) Same(o *VSeg) bool { return s.s == o.s }

// Key identifies the segment object.
func (s *VSeg) Key() string { return fmt.Sprintf("%s@%p", s.s.suffix, s.s) }

// Range returns start/end.
func (s *VSeg) Range() (time.Time, time.Time) { return s.s.Start, s.s.End }

// TimeRange returns the segment's range.
func (s *VSeg) TimeRange() timestamp.TimeRange { return s.s.TimeRange }

// VSegState is the observable state of a segment.
type VSegState struct {
	RefCount  int32
	Open      bool
	Flagged   bool
	DirExists bool
	OpenTbls  int
}

// State reads the segment state (harness-only, racy outside the cooperative scheduler).
func (s *VSeg) State() VSegState {
	st := VSegState{RefCount: atomic.LoadInt32(&s.s.refCount), Open: s.s.index != nil, Flagged: atomic.LoadUint32(&s.s.mustBeDeleted) != 0}
	_, err := os.Stat(s.s.location)
	st.DirExists = err == nil
	if l := s.s.sLst.Load(); l != nil {
		for _, sh := range *l {
			if !sh.table.Closed {
				st.OpenTbls++
			}
		}
	}
	return st
}

// Use touches the resources a holder relies on; returns a description of what is missing ("" = fine).
func (s *VSeg) Use() string {
	if s.s.index == nil {
		return "series index is closed"
	}
	if _, err := os.Stat(s.s.location); err != nil {
		return "segment directory is gone"
	}
	if l := s.s.sLst.Load(); l != nil {
		for _, sh := range *l {
			if sh.table.Closed {
				return "shard table is closed"
			}
		}
	}
	if s.s.IndexDB() == nil {
		return "IndexDB() is nil"
	}
	return ""
}

// SortedRanges lists [start,end) of all segments in list order.
func (v *VDB) SortedRanges() [][2]time.Time {
	ss := v.db.segmentController.copySegments()
	out := make([][2]time.Time, len(ss))
	for i, s := range ss {
		out[i] = [2]time.Time{s.Start, s.End}
	}
	sort.SliceStable(out, func(i, j int) bool { return out[i][0].Before(out[j][0]) })
	return out
}
