//go:build verif

package storage

import (
	"context"
	"fmt"
	"runtime"
	"strings"
	"sync/atomic"
	"time"
)

// ScheduledRetention runs the retention task that OpenTSDB registered with the scheduler (the same object the
// rotation goroutine calls with the tick's event time) with the given "now". Reports false if none is registered.
func (v *VDB) ScheduledRetention(now time.Time) bool {
	act := v.db.scheduler.VAction("retention")
	if act == nil {
		return false
	}
	act(context.Background(), now, v.db.logger)
	return true
}

// CloseAllIdle idle-closes every dormant segment regardless of when it was last accessed.
func (v *VDB) CloseAllIdle() int {
	old := v.db.segmentController.idleTimeout
	v.db.segmentController.idleTimeout = -1000000 * time.Hour
	n := v.db.segmentController.closeIdleSegments()
	v.db.segmentController.idleTimeout = old
	return n
}

// Tick is database.Tick (the write path calls it with the latest written data timestamp).
func (v *VDB) Tick(ts int64) { v.db.Tick(ts) }

type vCounter struct{ n atomic.Int64 }

func (c *vCounter) Inc(delta float64, _ ...string) { c.n.Add(int64(delta)) }
func (c *vCounter) Delete(...string) bool          { return true }

type vGauge struct{}

func (vGauge) Set(float64, ...string) {}
func (vGauge) Add(float64, ...string) {}
func (vGauge) Delete(...string) bool  { return true }

// InstallCounters gives the database counting metrics (it was opened without a metrics factory), so that a harness
// can tell how many retention runs the rotation goroutine / scheduler performed. Call right after VOpenDB.
func (v *VDB) InstallCounters() {
	v.db.metrics = &metrics{
		lastTickTime: vGauge{}, totalSegRefs: vGauge{},
		totalRotationStarted: &vCounter{}, totalRotationFinished: &vCounter{}, totalRotationErr: &vCounter{},
		totalRetentionStarted: &vCounter{}, totalRetentionFinished: &vCounter{}, totalRetentionHasData: &vCounter{},
		totalRetentionErr: &vCounter{}, totalRetentionHasDataLatency: &vCounter{},
	}
}

// RetentionRuns is the number of retention runs that got past the gate and finished.
func (v *VDB) RetentionRuns() int64 {
	return v.db.metrics.totalRetentionFinished.(*vCounter).n.Load()
}

// RotationsStarted is the number of look-ahead segment creations the rotation goroutine started.
func (v *VDB) RotationsStarted() int64 {
	return v.db.metrics.totalRotationStarted.(*vCounter).n.Load()
}

// rotationParked reports whether a rotation goroutine of this process is blocked in the select of its event loop
// (read from the runtime's own goroutine dump, i.e. under stop-the-world: no window between "event received" and any
// flag the goroutine sets afterwards). Only one database is open at a time in a harness worker; the goroutine of a
// closed database is made runnable by close(tsEventCh) and never shows up as waiting.
func rotationParked() bool {
	if stackBuf == nil {
		stackBuf = make([]byte, 2<<20)
	}
	buf := stackBuf
	n := runtime.Stack(buf, true)
	if n == len(buf) {
		panic("verif: goroutine dump truncated")
	}
	for _, g := range strings.Split(string(buf[:n]), "\n\n") {
		if !strings.Contains(g, ".startRotationTask.func1(") || strings.Contains(g, ".startRotationTask.func1.") {
			continue // not the rotation goroutine, or it is inside an event body
		}
		head := g
		if i := strings.IndexByte(g, '\n'); i >= 0 {
			head = g[:i]
		}
		if strings.Contains(head, "[select") {
			return true
		}
	}
	return false
}

var stackBuf []byte

// waitRotationParked polls rotationParked. rotationProcessOn==true is used only as a cheap "certainly not parked" hint
// (the goroutine sets it while it processes an event); the decision itself is always the goroutine dump.
func (v *VDB) waitRotationParked(horizon time.Duration) bool {
	deadline := time.Now().Add(horizon)
	pause := 20 * time.Microsecond
	for {
		if !v.db.rotationProcessOn.Load() && rotationParked() {
			return true
		}
		if time.Now().After(deadline) {
			return false
		}
		time.Sleep(pause)
		if pause < time.Millisecond {
			pause *= 2
		}
	}
}

// TickSync drives the production path database.Tick -> tsEventCh -> rotation goroutine with a data timestamp >= minTs
// and returns when the goroutine has finished processing that event: it first waits until the goroutine is parked in
// its select (so the non-blocking send inside Tick must succeed), raises the timestamp as far as Tick's 10-minute
// de-duplication demands, calls Tick, and waits until the goroutine is parked again. The horizon only bounds waiting
// (an error is a harness error, never a verdict). Returns the timestamp used and the number of retention runs the
// event caused.
func (v *VDB) TickSync(minTs int64, horizon time.Duration) (int64, int64, error) {
	if !v.waitRotationParked(horizon) {
		return 0, 0, fmt.Errorf("rotation goroutine is not parked in its event loop after %s", horizon)
	}
	ts := minTs
	if l := v.db.latestTickTime.Load(); ts-timeEventSnapDuration < l {
		ts = l + timeEventSnapDuration
	}
	before := v.RetentionRuns()
	v.db.Tick(ts)
	// the goroutine may still be parked because it has not taken the event off the channel yet: wait until this
	// event's retention run has been counted before waiting for the goroutine to park again
	for deadline := time.Now().Add(horizon); v.RetentionRuns() == before; {
		if time.Now().After(deadline) {
			return ts, 0, fmt.Errorf("rotation goroutine did not take Tick(%d) within %s", ts, horizon)
		}
		time.Sleep(200 * time.Microsecond)
	}
	if !v.waitRotationParked(horizon) {
		return ts, 0, fmt.Errorf("rotation goroutine did not return to its event loop within %s of Tick(%d)", horizon, ts)
	}
	return ts, v.RetentionRuns() - before, nil
}
