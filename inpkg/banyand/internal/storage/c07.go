//go:build verif

package storage

import (
	"context"
	"time"
)

// ScheduledRetention runs the retention task that OpenTSDB registered with the scheduler (the same object the
// rotation goroutine calls with the tick's event time) with the given "now". Reports false if none is registered.
func (v *VDB) ScheduledRetention(now time.Time) bool {
	act := v.db.scheduler.VAction("retention")
	if act == nil {
		return false
	}
	act(context.Background(), now, v.db.logger)
	return true
}

// CloseAllIdle idle-closes every dormant segment regardless of when it was last accessed.
func (v *VDB) CloseAllIdle() int {
	old := v.db.segmentController.idleTimeout
	v.db.segmentController.idleTimeout = -1000000 * time.Hour
	n := v.db.segmentController.closeIdleSegments()
	v.db.segmentController.idleTimeout = old
	return n
}

// Tick is database.Tick (the write path calls it with the latest written data timestamp).
func (v *VDB) Tick(ts int64) { v.db.Tick(ts) }
