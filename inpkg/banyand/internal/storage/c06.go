//go:build verif

package storage

import (
	"github.com/apache/skywalking-banyandb/pkg/timestamp"
)

// ControllerSelect is segmentController.selectSegments (no retention filter). The caller must DecRef the results.
func (v *VDB) ControllerSelect(tr timestamp.TimeRange, reopen bool) ([]*VSeg, error) {
	ss, err := v.db.segmentController.selectSegments(tr, reopen)
	out := make([]*VSeg, len(ss))
	for i := range ss {
		out[i] = vseg(ss[i])
	}
	return out, err
}

// CurrentInterval is the controller's current segment interval.
func (v *VDB) CurrentInterval() IntervalRule { return v.db.segmentController.getSegmentInterval() }

// CurrentTTL is the controller's current TTL.
func (v *VDB) CurrentTTL() IntervalRule { return v.db.segmentController.getOptions().TTL }

// Peek is database.PeekSegments.
func (v *VDB) Peek(tr timestamp.TimeRange) []SegmentPeek { return v.db.PeekSegments(tr) }
