//go:build verif

package sidx

import (
	"context"
	"fmt"
	"sort"
)

// C13ScanAll visits every physical row of every part (memory and file parts) of the current snapshot, without
// query-result deduplication.  Same body as ScanRaw (raw_scan.go) minus its "persisted parts only" restriction; rows
// are decoded by the same scanRawPart.  The byte slices of a row are valid only during the callback.
func C13ScanAll(ctx context.Context, instance SIDX, visit func(RawRow) error) error {
	storage, ok := instance.(*sidx)
	if !ok {
		return fmt.Errorf("raw scan requires the native SIDX implementation, got %T", instance)
	}
	snapshot := storage.currentSnapshot()
	if snapshot == nil {
		return nil
	}
	defer snapshot.decRef()
	parts := append([]*partWrapper(nil), snapshot.parts...)
	sort.Slice(parts, func(i, j int) bool { return parts[i].ID() < parts[j].ID() })
	for _, partData := range parts {
		if partData == nil || partData.p == nil {
			return fmt.Errorf("nil part in sidx snapshot")
		}
		loader := queryResult{pm: storage.pm, l: storage.l}
		if err := scanRawPart(ctx, loader, partData.p, partData.ID(), visit); err != nil {
			return fmt.Errorf("cannot scan secondary-index part %016x: %w", partData.ID(), err)
		}
	}
	return nil
}
