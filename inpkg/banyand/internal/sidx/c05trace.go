//go:build verif

package sidx

// In-package seam of /verif check C05, family "trace": read-only observations of the secondary index's snapshot and
// part wrappers (reference counts, directories) for the harness oracle, plus QuerySync with a harness hold point
// between the snapshot pin and the read. No transition of the index is implemented here: the trace table drives the
// index through the repository's own Prepare*/ReplaceSnapshot/Flush/Merge functions.

import (
	"context"
	"os"
	"sync/atomic"
)

// C5TPart is an observation handle of one secondary-index part wrapper.
type C5TPart struct {
	pw   *partWrapper
	Path string
	ID   uint64
	Mem  bool
}

func c5tPart(pw *partWrapper) C5TPart {
	p := C5TPart{pw: pw, Mem: pw.mp != nil}
	if pw.p != nil {
		p.Path = pw.p.path
		if pw.p.partMetadata != nil {
			p.ID = pw.p.partMetadata.ID
		}
	}
	return p
}

// Ref is the wrapper's reference count (plain atomic load, never a scheduling point).
func (p C5TPart) Ref() int32 { return atomic.LoadInt32(&p.pw.ref) }

// Same reports whether both handles refer to the same wrapper.
func (p C5TPart) Same(o C5TPart) bool { return p.pw == o.pw }

// DirExists reports whether the directory of a file part is on disk (true for memory parts).
func (p C5TPart) DirExists() bool {
	if p.Mem || p.Path == "" {
		return true
	}
	_, err := os.Stat(p.Path)
	return err == nil
}

// C5TSnap is an observation handle of one secondary-index snapshot.
type C5TSnap struct {
	s     *Snapshot
	Parts []C5TPart
}

// Ref is the snapshot's reference count.
func (s C5TSnap) Ref() int32 { return atomic.LoadInt32(&s.s.ref) }

// Valid reports whether the handle refers to a snapshot.
func (s C5TSnap) Valid() bool { return s.s != nil }

func c5tSnap(s *Snapshot) C5TSnap {
	out := C5TSnap{s: s}
	if s == nil {
		return out
	}
	for _, pw := range s.parts {
		out.Parts = append(out.Parts, c5tPart(pw))
	}
	return out
}

// C5TCurrent describes the instance's current snapshot WITHOUT pinning it and without taking the instance lock. Only
// for harness observations at quiescence (no thread is inside the instance).
func C5TCurrent(inst SIDX) C5TSnap {
	s, ok := inst.(*sidx)
	if !ok {
		return C5TSnap{}
	}
	return c5tSnap(s.snapshot)
}

// C5TFlushedParts lists the part wrappers a flush produced.
func C5TFlushedParts(fi *FlusherIntroduction) []C5TPart {
	var out []C5TPart
	for _, pw := range fi.flushed {
		out = append(out, c5tPart(pw))
	}
	return out
}

// C5TMergedPart is the part wrapper a merge produced.
func C5TMergedPart(mi *MergerIntroduction) C5TPart { return c5tPart(mi.newPart) }

// C5TQuerySyncHeld is the body of (*sidx).QuerySync with one harness hold point between the snapshot pin
// (currentSnapshot) and the read of the pinned parts (prepareSyncResources + processSyncLoop), so that the introducer
// can be scheduled while the index snapshot is pinned but not yet read. Every step is the function QuerySync calls.
func C5TQuerySyncHeld(ctx context.Context, inst SIDX, req QueryRequest, hold func(pinned C5TSnap)) ([]*QueryResponse, error) {
	s := inst.(*sidx)
	if validateErr := req.Validate(); validateErr != nil {
		return nil, validateErr
	}
	s.totalQueries.Add(1)
	snap := s.currentSnapshot()
	if snap == nil {
		return nil, nil
	}
	defer snap.decRef()
	hold(c5tSnap(snap))
	resources, ok := s.prepareSyncResources(ctx, req, snap, nil)
	if !ok {
		return nil, nil
	}
	defer resources.cleanup()
	return s.processSyncLoop(ctx, req, resources)
}
