//go:build verif

package sidx

// C08 unit level: a real sidx memory part built from elements, probed through the real tagFilterOp (index.FilterOp of
// one block: bloom / dictionary / min-max read from the part) and the real partKeyIter (series list, key bounds, block
// filter).

import (
	"fmt"

	"github.com/apache/skywalking-banyandb/api/common"
	"github.com/apache/skywalking-banyandb/pkg/index"
)

// VC08Elem is one element: series, key and the tags it carries (nil Value and nil ValueArr = the tag is absent).
type VC08Elem struct {
	Sid  uint64
	Key  int64
	Tags []Tag
}

// VC08BlockID identifies a block.
type VC08BlockID struct {
	Sid    uint64
	MinKey int64
	MaxKey int64
	Count  uint64
}

// VC08Part is a real sidx part in memory.
type VC08Part struct {
	mp  *memPart
	p   *part
	bms []blockMetadata
}

// VC08Build creates the memory part with the real mustInitFromElements (one block per series; elements sorted by key).
func VC08Build(elems []VC08Elem) (vp *VC08Part, err error) {
	defer func() {
		if r := recover(); r != nil {
			err = fmt.Errorf("panic while building the sidx part: %v", r)
		}
	}()
	es := generateElements()
	defer releaseElements(es)
	for i, e := range elems {
		es.mustAppend(common.SeriesID(e.Sid), e.Key, []byte(fmt.Sprintf("d%d", i)), e.Tags)
	}
	mp := GenerateMemPart()
	mp.mustInitFromElements(es)
	vp = &VC08Part{mp: mp, p: openMemPart(mp)}
	seen := map[uint64]bool{}
	var sids []common.SeriesID
	for _, e := range elems {
		if !seen[e.Sid] {
			seen[e.Sid] = true
			sids = append(sids, common.SeriesID(e.Sid))
		}
	}
	for i := 0; i < len(sids); i++ {
		for j := i + 1; j < len(sids); j++ {
			if sids[j] < sids[i] {
				sids[i], sids[j] = sids[j], sids[i]
			}
		}
	}
	pki := generatePartKeyIter()
	defer releasePartKeyIter(pki)
	pki.init(vp.p, sids, -1<<62, 1<<62, nil, true, nil)
	for pki.nextBlock() {
		bm, _ := pki.current()
		var c blockMetadata
		c.copyFrom(bm)
		vp.bms = append(vp.bms, c)
	}
	if e := pki.error(); e != nil {
		return nil, e
	}
	return vp, nil
}

// Blocks lists the blocks in iteration order.
func (vp *VC08Part) Blocks() []VC08BlockID {
	var out []VC08BlockID
	for i := range vp.bms {
		out = append(out, VC08BlockID{uint64(vp.bms[i].seriesID), vp.bms[i].minKey, vp.bms[i].maxKey, vp.bms[i].count})
	}
	return out
}

// WithFilterOp hands the real tagFilterOp of block i to f.
func (vp *VC08Part) WithFilterOp(i int, f func(op index.FilterOp)) {
	tfo := generateTagFilterOp(&vp.bms[i], vp.p)
	defer releaseTagFilterOp(tfo)
	f(tfo)
}

// FilterKind reports the pruning structure block i carries for tag name.
func (vp *VC08Part) FilterKind(i int, name string) string {
	tfo := generateTagFilterOp(&vp.bms[i], vp.p)
	defer releaseTagFilterOp(tfo)
	tb, ok := vp.bms[i].tagsBlocks[name]
	if !ok {
		return "absent"
	}
	c, err := tfo.getTagFilterCache(name, tb)
	if err != nil {
		return "error"
	}
	k := "none"
	if c.filter != nil {
		k = fmt.Sprintf("%T", c.filter)
	}
	if len(c.min) > 0 || len(c.max) > 0 {
		k += "+minmax"
	}
	return k
}

// Select runs the real partKeyIter and returns the blocks it yields.
func (vp *VC08Part) Select(sids []uint64, minKey, maxKey int64, f index.Filter, asc bool) (out []VC08BlockID, err error) {
	defer func() {
		if r := recover(); r != nil {
			err = fmt.Errorf("panic: %v", r)
		}
	}()
	ss := make([]common.SeriesID, len(sids))
	for i, s := range sids {
		ss[i] = common.SeriesID(s)
	}
	pki := generatePartKeyIter()
	defer releasePartKeyIter(pki)
	pki.init(vp.p, ss, minKey, maxKey, f, asc, nil)
	for pki.nextBlock() {
		bm, _ := pki.current()
		out = append(out, VC08BlockID{uint64(bm.seriesID), bm.minKey, bm.maxKey, bm.count})
	}
	return out, pki.error()
}

// Release returns the part to its pool.
func (vp *VC08Part) Release() { ReleaseMemPart(vp.mp) }

// VC08Primary describes one primary (index) block of the part as recorded in the part's meta file.
type VC08Primary struct {
	FirstSid uint64
	MinKey   int64
	MaxKey   int64
}

// PrimaryBlocks lists the primary blocks of the part.
func (vp *VC08Part) PrimaryBlocks() []VC08Primary {
	var out []VC08Primary
	for i := range vp.p.primaryBlockMetadata {
		pb := &vp.p.primaryBlockMetadata[i]
		out = append(out, VC08Primary{uint64(pb.seriesID), pb.minKey, pb.maxKey})
	}
	return out
}

// PartKeys returns the part-level key bounds recorded in the part metadata (what Snapshot.getParts prunes on).
func (vp *VC08Part) PartKeys() (int64, int64) {
	return vp.p.partMetadata.MinKey, vp.p.partMetadata.MaxKey
}

// GetParts runs the real Snapshot.getParts on a snapshot holding just this part.
func (vp *VC08Part) GetParts(minKey, maxKey int64) bool {
	s := &Snapshot{parts: []*partWrapper{{p: vp.p, ref: 1}}, ref: 1}
	return len(s.getParts(minKey, maxKey)) == 1
}

// VC08MaxPrimaryBlockSize is the real limit of uncompressed block metadata per primary block.
const VC08MaxPrimaryBlockSize = maxUncompressedPrimaryBlockSize
