//go:build verif

package sidx

import (
	"context"
	"os"
	"path/filepath"
	"sync/atomic"

	"github.com/apache/skywalking-banyandb/banyand/protector"
	"github.com/apache/skywalking-banyandb/pkg/fs"
	"github.com/apache/skywalking-banyandb/pkg/verif/sched"
	"github.com/apache/skywalking-banyandb/pkg/verif/vos"
)

// Driver of /verif checks C05 and C19, family "sidx": thin wrappers that let a harness pin the current snapshot of a
// real sidx instance, evaluate the repository's own query paths over the pinned snapshot, and observe reference
// counts and part directories. Every transition (IntroduceMemPart, Flush/IntroduceFlushed, Merge/IntroduceMerged,
// IntroduceSynced, Prepare*/ReplaceSnapshot, QuerySync, ScanQuery, TakeFileSnapshot, Close) is called by the harness
// through the exported SIDX interface itself.

// V5SFS wraps the real file system: it counts recursive removals per path and turns the removal a released part
// spawns (partWrapper.cleanup -> run.GoOrDie -> MustRMAll) into a thread of the controlled scheduler.
//
// pkg/run/goroutine.go is compiled from an `fsgo` rewrite for these checks: with V5SGoInline(true) the body handed to
// run.Go/GoOrDie runs on the calling (scheduled) thread up to the MustRMAll call below, which then spawns the scheduled
// thread at exactly the place where the repository code spawns its goroutine.
type V5SFS struct {
	fs.FileSystem
	RM map[string]int
	// OnRM, if set, is called by the removing thread immediately before the directory is removed.
	OnRM func(path string)
	// Hook makes hard-link and remove calls explicit scheduling points (kind fs) of the controlled scheduler.
	Hook bool
}

func (f *V5SFS) rm(path string) {
	if f.OnRM != nil {
		f.OnRM(path)
	}
	f.RM[path]++
	f.FileSystem.MustRMAll(path)
}

// MustRMAll counts and forwards; under a controlled execution the removal is a scheduled thread of its own.
func (f *V5SFS) MustRMAll(path string) {
	if !sched.Active() {
		f.rm(path)
		return
	}
	sched.Go(func() {
		if f.Hook {
			sched.Point(sched.KFS, nil, "MustRMAll")
		}
		f.rm(path)
	})
}

// CreateHardLink is a scheduling point when Hook is set.
func (f *V5SFS) CreateHardLink(src, dst string, filter func(string) bool) error {
	if f.Hook {
		sched.Point(sched.KFS, nil, "CreateHardLink")
	}
	return f.FileSystem.CreateHardLink(src, dst, filter)
}

// V5SGoInline switches run.Go/run.GoOrDie between "body runs inline at the spawn point" (true; see V5SFS) and plain
// goroutines (false).
func V5SGoInline(on bool) {
	if on {
		vos.VerifStart(false)
		return
	}
	_ = vos.VerifStop()
}

// V5SIdx is a real sidx instance without any background loop.
type V5SIdx struct {
	S   SIDX
	s   *sidx
	FS  *V5SFS
	Dir string
}

// V5SOpen opens (or recovers, through the real init/loadSnapshot) an instance at dir.
func V5SOpen(dir string, availablePartIDs []uint64) *V5SIdx {
	lfs := &V5SFS{FileSystem: fs.NewLocalFileSystem(), RM: map[string]int{}}
	lfs.MkdirIfNotExist(dir, 0o755)
	inst, err := NewSIDX(lfs, &Options{Path: dir, Memory: protector.Nop{}, AvailablePartIDs: availablePartIDs})
	if err != nil {
		panic(err)
	}
	return &V5SIdx{S: inst, s: inst.(*sidx), FS: lfs, Dir: dir}
}

// PartDir is the directory of a file part.
func (v *V5SIdx) PartDir(id uint64) string { return partPath(v.s.root, id) }

// V5SPart describes one part wrapper of a snapshot.
type V5SPart struct {
	Path      string
	ID        uint64
	Ref       int32
	Mem       bool
	Removable bool
	// Closed: the wrapper has been cleaned up (part closed / memory part returned to the pool).
	Closed bool
}

func describe(pw *partWrapper) V5SPart {
	var d V5SPart
	sched.Observe(func() {
		d.Ref = atomic.LoadInt32(&pw.ref)
		d.Removable = pw.removable.Load()
		d.Mem = pw.mp != nil
		if pw.p == nil || pw.p.partMetadata == nil {
			d.Closed = true
			if pw.p != nil {
				d.Path = pw.p.path
			}
			return
		}
		d.ID = pw.p.partMetadata.ID
		d.Path = pw.p.path
	})
	return d
}

// V5STracked is a handle on a part wrapper that outlives the snapshots containing it (for leak checks).
type V5STracked struct{ pw *partWrapper }

// State describes the wrapper now.
func (t V5STracked) State() V5SPart { return describe(t.pw) }

// V5SView is a pinned snapshot.
type V5SView struct {
	v   *V5SIdx
	snp *Snapshot
}

// Pin is what every query does first: sidx.currentSnapshot (nil when the instance holds nothing / is closed).
func (v *V5SIdx) Pin() *V5SView {
	snp := v.s.currentSnapshot()
	if snp == nil {
		return nil
	}
	return &V5SView{v: v, snp: snp}
}

// Unpin releases the view.
func (w *V5SView) Unpin() { w.snp.decRef() }

// Ref is the snapshot's reference count (harness observation).
func (w *V5SView) Ref() int32 { return atomic.LoadInt32(&w.snp.ref) }

// Parts describes the parts of the pinned view.
func (w *V5SView) Parts() []V5SPart {
	out := make([]V5SPart, 0, len(w.snp.parts))
	for _, pw := range w.snp.parts {
		out = append(out, describe(pw))
	}
	return out
}

// MissingDirs returns the file parts of the view whose directory (or metadata file) is not on disk.
func (w *V5SView) MissingDirs() []string {
	var out []string
	for _, pw := range w.snp.parts {
		if pw.mp != nil || pw.p == nil || pw.p.path == "" {
			continue
		}
		if _, err := os.Stat(filepath.Join(pw.p.path, metaFilename)); err != nil {
			out = append(out, pw.p.path)
		}
	}
	return out
}

// QuerySync evaluates req over the pinned view: the body of sidx.QuerySync after its own currentSnapshot call.
func (w *V5SView) QuerySync(req QueryRequest) ([]*QueryResponse, error) {
	ctx := context.Background()
	if err := req.Validate(); err != nil {
		return nil, err
	}
	resources, ok := w.v.s.prepareSyncResources(ctx, req, w.snp, nil)
	if !ok {
		return nil, nil
	}
	defer resources.cleanup()
	return w.v.s.processSyncLoop(ctx, req, resources)
}

// Streaming evaluates req over the pinned view: the body of sidx.runStreamingQuery after its own currentSnapshot call,
// with the scanner and block workers as free-running goroutines. Call it inside sched.Observe only.
func (w *V5SView) Streaming(req QueryRequest) ([]*QueryResponse, error) {
	_ = vos.VerifStop()
	defer vos.VerifStart(false)
	ctx := context.Background()
	if err := req.Validate(); err != nil {
		return nil, err
	}
	resources, ok := w.v.s.prepareStreamingResources(ctx, req, w.snp, nil)
	if !ok {
		return nil, nil
	}
	defer resources.cleanup()
	resultsCh := make(chan *QueryResponse)
	done := make(chan struct{})
	var out []*QueryResponse
	go func() {
		defer close(done)
		for r := range resultsCh {
			out = append(out, r)
		}
	}()
	err := w.v.s.processStreamingLoop(ctx, req, resources, resultsCh)
	close(resultsCh)
	<-done
	return out, err
}

// Current describes the parts of the instance's current snapshot without pinning it (harness observation).
func (v *V5SIdx) Current() (parts []V5SPart, ref int32, ok bool) {
	snp := v.s.snapshot
	if snp == nil {
		return nil, 0, false
	}
	for _, pw := range snp.parts {
		parts = append(parts, describe(pw))
	}
	return parts, atomic.LoadInt32(&snp.ref), true
}

// TrackCurrent returns handles on the part wrappers of the current snapshot without pinning it.
func (v *V5SIdx) TrackCurrent() []V5STracked {
	snp := v.s.snapshot
	if snp == nil {
		return nil
	}
	out := make([]V5STracked, 0, len(snp.parts))
	for _, pw := range snp.parts {
		out = append(out, V5STracked{pw: pw})
	}
	return out
}

// TrackFlushed returns handles on the part wrappers a flush produced.
func (i *FlusherIntroduction) TrackFlushed() []V5STracked {
	var out []V5STracked
	for _, pw := range i.flushed {
		out = append(out, V5STracked{pw: pw})
	}
	return out
}

// TrackNew returns a handle on the part wrapper a merge produced.
func (i *MergerIntroduction) TrackNew() V5STracked { return V5STracked{pw: i.newPart} }
