//go:build verif

package sidx

// C09MergeShards exposes the QueryResponseHeap shard merge (mergeQueryResponseShards / ...Desc) to /verif check C09.
func C09MergeShards(shards []*QueryResponse, maxElements int, desc bool) *QueryResponse {
	if desc {
		return mergeQueryResponseShardsDesc(shards, maxElements)
	}
	return mergeQueryResponseShards(shards, maxElements)
}
