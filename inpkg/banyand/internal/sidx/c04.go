//go:build verif

package sidx

// C04Parts lists the parts of the instance's current snapshot (id, memory part or file part).
func C04Parts(inst SIDX) (ids []uint64, mem []bool) {
	s, ok := inst.(*sidx)
	if !ok {
		return nil, nil
	}
	snp := s.currentSnapshot()
	if snp == nil {
		return nil, nil
	}
	defer snp.decRef()
	for _, pw := range snp.parts {
		ids = append(ids, pw.ID())
		mem = append(mem, pw.isMemPart())
	}
	return ids, mem
}

// C04PartName is the directory name of a part.
func C04PartName(id uint64) string { return partName(id) }

// C04CommitRecord is the file whose atomic appearance commits a part directory.
const C04CommitRecord = manifestFilename
