//go:build verif

package grpc

import "github.com/apache/skywalking-banyandb/pkg/bydbql"

// VerifPreparedCache exposes the liaison's real prepared-statement cache (bydbql_cache.go) to the C20 harness.
type VerifPreparedCache struct{ c *preparedCache }

// VerifNewPreparedCache builds the production cache without metrics.
func VerifNewPreparedCache(size, maxBytes int) *VerifPreparedCache {
	return &VerifPreparedCache{c: newPreparedCache(size, maxBytes, nil)}
}

// GetOrPrepare is preparedCache.getOrPrepare: statement, cache result (hit/miss/reparse/bypass), parse error.
func (v *VerifPreparedCache) GetOrPrepare(query string) (*bydbql.PreparedStatement, string, error) {
	return v.c.getOrPrepare(query)
}
