//go:build verif

package grpc

import (
	"context"

	commonv1 "github.com/apache/skywalking-banyandb/api/proto/banyandb/common/v1"
	propertyv1 "github.com/apache/skywalking-banyandb/api/proto/banyandb/property/v1"
	"github.com/apache/skywalking-banyandb/banyand/metadata"
	"github.com/apache/skywalking-banyandb/banyand/metadata/schema"
	"github.com/apache/skywalking-banyandb/banyand/observability"
	"github.com/apache/skywalking-banyandb/banyand/queue"
	"github.com/apache/skywalking-banyandb/pkg/logger"
)

// VerifC18Server is the liaison's real propertyServer wired to caller-supplied fakes of its collaborators
// (schema registry, node registry, queue client). No logic of its own.
type VerifC18Server struct {
	ps *propertyServer
}

// VerifC18NewPropertyServer builds a propertyServer the way NewServer does, minus gRPC and access logs.
// groups: group name -> resource options (ShardNum, Replicas) as the groupRepo would have learnt them from schema events.
func VerifC18NewPropertyServer(repo metadata.Repo, pipeline queue.Client, nr NodeRegistry,
	groups map[string]*commonv1.ResourceOpts, repairQueueSize int,
) *VerifC18Server {
	gr := &groupRepo{resourceOpts: map[string]*commonv1.ResourceOpts{}, inflight: map[string]*groupInflight{}}
	for g, o := range groups {
		gr.resourceOpts[g] = o
	}
	ds := newDiscoveryService(schema.KindProperty, repo, nr, gr)
	ds.SetLogger(logger.GetLogger("liaison-c18"))
	ps := &propertyServer{
		discoveryService: ds,
		schemaRegistry:   repo,
		pipeline:         pipeline,
		nodeRegistry:     nr,
		metrics:          newMetrics(observability.BypassRegistry.With(liaisonGrpcScope)),
		repairQueueCount: repairQueueSize,
	}
	// startRepairQueue without the consumer goroutine: tasks are drained synchronously by VerifC18DrainRepairs.
	ps.repairQueue = newRepairQueue(ps, repairQueueSize)
	return &VerifC18Server{ps: ps}
}

// Apply is propertyServer.Apply.
func (v *VerifC18Server) Apply(ctx context.Context, req *propertyv1.ApplyRequest) (*propertyv1.ApplyResponse, error) {
	return v.ps.Apply(ctx, req)
}

// Delete is propertyServer.Delete.
func (v *VerifC18Server) Delete(ctx context.Context, req *propertyv1.DeleteRequest) (*propertyv1.DeleteResponse, error) {
	return v.ps.Delete(ctx, req)
}

// Query is propertyServer.Query.
func (v *VerifC18Server) Query(ctx context.Context, req *propertyv1.QueryRequest) (*propertyv1.QueryResponse, error) {
	return v.ps.Query(ctx, req)
}

// VerifC18DrainRepairs runs repairQueue.processTask for every queued read-repair task, in queue order, on the calling
// goroutine (what the consumer goroutine of repairQueue.Start does). drop discards them instead.
func (v *VerifC18Server) VerifC18DrainRepairs(ctx context.Context, drop bool) (n int, err error) {
	rq := v.ps.repairQueue
	for {
		select {
		case t := <-rq.queue:
			n++
			if drop {
				rq.processLocker.Lock()
				delete(rq.inProcess, t.key)
				rq.processLocker.Unlock()
				continue
			}
			if e := rq.processTask(ctx, t); e != nil && err == nil {
				err = e
			}
		default:
			return n, err
		}
	}
}

// VerifC18Prop is a (node, property, tombstone, sort value) tuple as queryProperties hands it to the dedup functions.
type VerifC18Prop struct {
	P           *propertyv1.Property
	Node        string
	SortedValue []byte
	DeletedTime int64
}

// VerifC18Dedup runs simpleDedupWithoutSort (sorted=false) or sortedQueryWithDedup on the given per-node lists.
func (v *VerifC18Server) VerifC18Dedup(nodeProps map[string][]VerifC18Prop, sorted bool, req *propertyv1.QueryRequest) []VerifC18Prop {
	in := make(map[string][]*propertyWithMetadata, len(nodeProps))
	for n, l := range nodeProps {
		for _, p := range l {
			in[n] = append(in[n], &propertyWithMetadata{Property: p.P, node: p.Node, sortedValue: p.SortedValue, deletedTime: p.DeletedTime})
		}
	}
	var res []*propertyWithCount
	if sorted {
		res = v.ps.sortedQueryWithDedup(in, req)
	} else {
		res = v.ps.simpleDedupWithoutSort(in)
	}
	out := make([]VerifC18Prop, 0, len(res))
	for _, r := range res {
		out = append(out, VerifC18Prop{P: r.Property, Node: r.node, SortedValue: r.sortedValue, DeletedTime: r.deletedTime})
	}
	return out
}
