//go:build verif

package grpc

// C16 harness access: the liaison's three write services wired the way NewServer/PreRun wire them (shared groupRepo,
// per-kind discoveryService, handlers registered with the metadata repo through initialize()), without any network.
// The real Write loops run against a scripted in-memory gRPC stream; what they hand to the queue is captured.

import (
	"context"
	"io"
	"time"

	grpclib "google.golang.org/grpc"

	"github.com/apache/skywalking-banyandb/api/common"
	commonv1 "github.com/apache/skywalking-banyandb/api/proto/banyandb/common/v1"
	databasev1 "github.com/apache/skywalking-banyandb/api/proto/banyandb/database/v1"
	measurev1 "github.com/apache/skywalking-banyandb/api/proto/banyandb/measure/v1"
	modelv1 "github.com/apache/skywalking-banyandb/api/proto/banyandb/model/v1"
	streamv1 "github.com/apache/skywalking-banyandb/api/proto/banyandb/stream/v1"
	tracev1 "github.com/apache/skywalking-banyandb/api/proto/banyandb/trace/v1"
	"github.com/apache/skywalking-banyandb/banyand/metadata"
	"github.com/apache/skywalking-banyandb/banyand/metadata/schema"
	"github.com/apache/skywalking-banyandb/banyand/observability"
	"github.com/apache/skywalking-banyandb/banyand/queue"
	"github.com/apache/skywalking-banyandb/pkg/bus"
	"github.com/apache/skywalking-banyandb/pkg/logger"
	"github.com/apache/skywalking-banyandb/pkg/partition"
)

// VerifC16Published is one message a Write loop handed to the batch publisher.
type VerifC16Published struct {
	Node         string
	EntityValues []*modelv1.TagValue
	ID           uint64 // message_id (measure, stream) / version (trace) of the request
	ShardID      uint32
}

// VerifC16Reply is one response sent back on the stream.
type VerifC16Reply struct {
	Status string
	ID     uint64
}

type verifC16Pipeline struct {
	queue.Client
	out []VerifC16Published
}

func (p *verifC16Pipeline) NewBatchPublisher(time.Duration) queue.BatchPublisher {
	return &verifC16Publisher{p: p}
}

type verifC16Publisher struct {
	p *verifC16Pipeline
}

func (b *verifC16Publisher) Publish(_ context.Context, _ bus.Topic, msgs ...bus.Message) (bus.Future, error) {
	for _, m := range msgs {
		rec := VerifC16Published{Node: m.Node()}
		switch d := m.Data().(type) {
		case *measurev1.InternalWriteRequest:
			rec.ShardID, rec.EntityValues, rec.ID = d.GetShardId(), d.GetEntityValues(), d.GetRequest().GetMessageId()
		case *streamv1.InternalWriteRequest:
			rec.ShardID, rec.EntityValues, rec.ID = d.GetShardId(), d.GetEntityValues(), d.GetRequest().GetMessageId()
		case *tracev1.InternalWriteRequest:
			rec.ShardID, rec.ID = d.GetShardId(), d.GetRequest().GetVersion()
		default:
			rec.ID = ^uint64(0)
		}
		b.p.out = append(b.p.out, rec)
	}
	return nil, nil
}

func (b *verifC16Publisher) Close() (map[string]*common.Error, error) { return nil, nil }

// VerifC16Liaison bundles the write services of one liaison.
type VerifC16Liaison struct {
	gr   *groupRepo
	ms   *measureService
	ss   *streamService
	ts   *traceService
	pipe *verifC16Pipeline
}

// VerifC16NewLiaison mirrors NewServer + PreRun for the write path. Every schema handler (group, measure entity and
// sharding key, stream, trace) is registered with repo.RegisterHandler, exactly as in production.
func VerifC16NewLiaison(repo metadata.Repo, nr NodeRegistry) *VerifC16Liaison {
	gr := &groupRepo{
		resourceOpts: make(map[string]*commonv1.ResourceOpts),
		inflight:     make(map[string]*groupInflight),
	}
	er := &entityRepo{entitiesMap: make(map[identity]partition.Locator), measureMap: make(map[identity]*databasev1.Measure)}
	pipe := &verifC16Pipeline{}
	v := &VerifC16Liaison{gr: gr, pipe: pipe}
	v.ss = &streamService{discoveryService: newDiscoveryService(schema.KindStream, repo, nr, gr), pipeline: pipe}
	v.ms = &measureService{discoveryService: newDiscoveryServiceWithEntityRepo(schema.KindMeasure, repo, nr, gr, er), pipeline: pipe}
	v.ts = &traceService{discoveryService: newDiscoveryService(schema.KindTrace, repo, nr, gr), pipeline: pipe}
	l := logger.GetLogger("c16-liaison")
	gr.log = l
	v.ss.setLogger(l)
	v.ms.setLogger(l)
	v.ts.setLogger(l)
	repo.RegisterHandler("liaison", schema.KindGroup, gr)
	for _, c := range []*discoveryService{v.ss.discoveryService, v.ms.discoveryService, v.ts.discoveryService} {
		c.SetLogger(l)
		if err := c.initialize(); err != nil {
			panic(err)
		}
	}
	m := newMetrics(observability.BypassRegistry.With(liaisonGrpcScope))
	v.ss.metrics, v.ms.metrics, v.ts.metrics = m, m, m
	return v
}

type verifC16Stream[Req, Resp any] struct {
	grpclib.ServerStream
	reqs    []*Req
	replies []*Resp
	pos     int
}

func (s *verifC16Stream[Req, Resp]) Context() context.Context { return context.Background() }

func (s *verifC16Stream[Req, Resp]) Recv() (*Req, error) {
	if s.pos >= len(s.reqs) {
		return nil, io.EOF
	}
	r := s.reqs[s.pos]
	s.pos++
	return r, nil
}

func (s *verifC16Stream[Req, Resp]) Send(r *Resp) error {
	s.replies = append(s.replies, r)
	return nil
}

func (v *VerifC16Liaison) take() []VerifC16Published {
	out := v.pipe.out
	v.pipe.out = nil
	return out
}

// WriteMeasure runs the real measureService.Write over the scripted requests.
func (v *VerifC16Liaison) WriteMeasure(reqs []*measurev1.WriteRequest) ([]VerifC16Published, []VerifC16Reply, error) {
	st := &verifC16Stream[measurev1.WriteRequest, measurev1.WriteResponse]{reqs: reqs}
	err := v.ms.Write(st)
	rs := make([]VerifC16Reply, 0, len(st.replies))
	for _, r := range st.replies {
		rs = append(rs, VerifC16Reply{ID: r.GetMessageId(), Status: r.GetStatus()})
	}
	return v.take(), rs, err
}

// WriteStream runs the real streamService.Write over the scripted requests.
func (v *VerifC16Liaison) WriteStream(reqs []*streamv1.WriteRequest) ([]VerifC16Published, []VerifC16Reply, error) {
	st := &verifC16Stream[streamv1.WriteRequest, streamv1.WriteResponse]{reqs: reqs}
	err := v.ss.Write(st)
	rs := make([]VerifC16Reply, 0, len(st.replies))
	for _, r := range st.replies {
		rs = append(rs, VerifC16Reply{ID: r.GetMessageId(), Status: r.GetStatus()})
	}
	return v.take(), rs, err
}

// WriteTrace runs the real traceService.Write over the scripted requests.
func (v *VerifC16Liaison) WriteTrace(reqs []*tracev1.WriteRequest) ([]VerifC16Published, []VerifC16Reply, error) {
	st := &verifC16Stream[tracev1.WriteRequest, tracev1.WriteResponse]{reqs: reqs}
	err := v.ts.Write(st)
	rs := make([]VerifC16Reply, 0, len(st.replies))
	for _, r := range st.replies {
		rs = append(rs, VerifC16Reply{ID: r.GetVersion(), Status: r.GetStatus()})
	}
	return v.take(), rs, err
}
