//go:build verif

package stream

// In-package seam of /verif check C01: a loop-free driver of the real stream tsTable. The harness plays the
// introducer loop (real introducePart / introduceFlushed / introduceMerged) and calls the step functions the flusher
// and merger loops call (flush, mergeMemParts, mergePartsThenSendIntroduction). Elements are written with ARBITRARY
// tag families through the real value encoder of the standalone write path (encodeTagValue, same shape as
// processElements) -> elements -> tsTable.mustAddElements -> memPart.mustInitFromElements, and read back through the
// block part of the time-ordered query (tstIter -> blockCursor.init / loadData -> blockCursorHeap.merge / copyTo /
// copyAllTo -> mustDecodeTagValue), i.e. what tsResult.runTabScanner does per batch of blocks, without the series
// index lookup.

import (
	"container/heap"
	"fmt"
	"sort"

	"github.com/apache/skywalking-banyandb/api/common"
	databasev1 "github.com/apache/skywalking-banyandb/api/proto/banyandb/database/v1"
	modelv1 "github.com/apache/skywalking-banyandb/api/proto/banyandb/model/v1"
	"github.com/apache/skywalking-banyandb/banyand/protector"
	"github.com/apache/skywalking-banyandb/pkg/fs"
	"github.com/apache/skywalking-banyandb/pkg/logger"
	pbv1 "github.com/apache/skywalking-banyandb/pkg/pb/v1"
	"github.com/apache/skywalking-banyandb/pkg/query/model"
	"github.com/apache/skywalking-banyandb/pkg/run"
)

// C01Tag / C01Family describe the harness stream schema.
type (
	// C01Tag is one tag.
	C01Tag struct {
		Name string
		Type databasev1.TagType
	}
	// C01Family is one tag family.
	C01Family struct {
		Name string
		Tags []C01Tag
	}
)

// C01Element is one element to write: Tags[f][t] in schema order (nil = null).
type C01Element struct {
	Tags [][]*modelv1.TagValue
	S    uint64
	T    int64
	EID  uint64
}

// C01Row is one returned element; Tags flattened in projection order.
type C01Row struct {
	Tags []*modelv1.TagValue
	S    uint64
	T    int64
	EID  uint64
}

// C01Table drives a real stream tsTable.
type C01Table struct {
	tst   *tsTable
	epoch uint64
}

// C01Open opens a table in dir (no element index: criteria are not part of this seam).
func C01Open(dir string) *C01Table {
	lfs := fs.NewLocalFileSystem()
	lfs.MkdirIfNotExist(dir, 0o755)
	tst, epoch, err := initTSTable(lfs, dir, common.Position{}, logger.GetLogger("verif-c01"),
		option{protector: protector.Nop{}, mergePolicy: newDefaultMergePolicyForTesting()}, nil, false)
	if err != nil {
		panic(err)
	}
	tst.loopCloser = run.NewCloser(1)
	tst.introductions = make(chan *introduction)
	return &C01Table{tst: tst, epoch: epoch + 1}
}

func c01Elements(schema []C01Family, els []C01Element) *elements {
	es := &elements{}
	for i := range els {
		e := &els[i]
		es.seriesIDs = append(es.seriesIDs, common.SeriesID(e.S))
		es.timestamps = append(es.timestamps, e.T)
		es.elementIDs = append(es.elementIDs, e.EID)
		tfs := make([]tagValues, 0, len(schema))
		for fi, f := range schema {
			tf := tagValues{tag: f.Name}
			for ti, t := range f.Tags {
				tv := pbv1.NullTagValue
				if fi < len(e.Tags) && ti < len(e.Tags[fi]) && e.Tags[fi][ti] != nil {
					tv = e.Tags[fi][ti]
				}
				tf.values = append(tf.values, encodeTagValue(t.Name, t.Type, tv))
			}
			if len(tf.values) > 0 {
				tfs = append(tfs, tf)
			}
		}
		es.tagFamilies = append(es.tagFamilies, tfs)
	}
	return es
}

type c01Task struct {
	done chan struct{}
	pv   any
}

func c01Go(f func()) *c01Task {
	t := &c01Task{done: make(chan struct{})}
	go func() {
		defer func() {
			if r := recover(); r != nil {
				t.pv = r
			}
			close(t.done)
		}()
		f()
	}()
	return t
}

func (t *c01Task) wait() {
	<-t.done
	if t.pv != nil {
		panic(t.pv)
	}
}

// Write = the real tsTable.mustAddElements of one batch + real introducePart.
func (v *C01Table) Write(schema []C01Family, els []C01Element) {
	es := c01Elements(schema, els)
	t := c01Go(func() {
		ind := <-v.tst.introductions
		v.tst.introducePart(ind, v.epoch)
		v.epoch++
	})
	v.tst.mustAddElements(es)
	t.wait()
}

// Flush = the real tsTable.flush of every memory part + real introduceFlushed.
func (v *C01Table) Flush() bool {
	snp := v.tst.currentSnapshot()
	if snp == nil {
		return false
	}
	defer snp.decRef()
	flushCh := make(chan *flusherIntroduction)
	applied := false
	t := c01Go(func() { v.tst.flush(snp, flushCh) })
	select {
	case ind := <-flushCh:
		v.tst.introduceFlushed(ind, v.epoch)
		v.epoch++
		v.tst.gc.clean()
		applied = true
	case <-t.done:
	}
	t.wait()
	return applied
}

func (v *C01Table) runMerge(f func(mergeCh chan *mergerIntroduction) error) (bool, error) {
	mergeCh := make(chan *mergerIntroduction)
	var err error
	applied := false
	t := c01Go(func() { err = f(mergeCh) })
	select {
	case mi := <-mergeCh:
		v.tst.introduceMerged(mi, v.epoch)
		v.epoch++
		v.tst.gc.clean()
		applied = true
	case <-t.done:
	}
	t.wait()
	return applied, err
}

// Merge merges all file parts of the current snapshot (real mergePartsThenSendIntroduction + introduceMerged).
func (v *C01Table) Merge() (bool, error) {
	snp := v.tst.currentSnapshot()
	if snp == nil {
		return false, nil
	}
	defer snp.decRef()
	var parts []*partWrapper
	merged := map[uint64]struct{}{}
	for _, pw := range snp.parts {
		if pw.mp == nil {
			parts = append(parts, pw)
			merged[pw.ID()] = struct{}{}
		}
	}
	if len(parts) < 2 {
		return false, nil
	}
	return v.runMerge(func(mergeCh chan *mergerIntroduction) error {
		_, err := v.tst.mergePartsThenSendIntroduction(snapshotCreatorMerger, parts, merged, mergeCh, v.tst.loopCloser.CloseNotify(), "file")
		return err
	})
}

// MemMerge = the flusher's memory-part merge (real mergeMemParts + introduceMerged).
func (v *C01Table) MemMerge() (bool, error) {
	snp := v.tst.currentSnapshot()
	if snp == nil {
		return false, nil
	}
	defer snp.decRef()
	return v.runMerge(func(mergeCh chan *mergerIntroduction) error {
		_, err := v.tst.mergeMemParts(snp, mergeCh)
		return err
	})
}

// Parts returns (memory parts, file parts, blocks, elements) of the current snapshot.
func (v *C01Table) Parts() (mem, file int, blocks, total uint64) {
	snp := v.tst.currentSnapshot()
	if snp == nil {
		return
	}
	defer snp.decRef()
	for _, pw := range snp.parts {
		if pw.mp != nil {
			mem++
		} else {
			file++
		}
		blocks += pw.p.partMetadata.BlocksCount
		total += pw.p.partMetadata.TotalCount
	}
	return
}

// C01Query selects what to read. Single: use copyAllTo when exactly one block matches (what the sort-by-series paths
// do), otherwise the heap merge of the time-ordered scan.
type C01Query struct {
	TagProj map[string][]string
	Sids    []uint64
	Min     int64
	Max     int64
	Desc    bool
}

// Query reads the current snapshot through the block read path.
func (v *C01Table) Query(schema []C01Family, q C01Query) (out []C01Row, err error) {
	defer func() {
		if r := recover(); r != nil {
			err = fmt.Errorf("query panicked: %v", r)
		}
	}()
	snp := v.tst.currentSnapshot()
	if snp == nil {
		return nil, nil
	}
	defer snp.decRef()
	var parts []*part
	for _, pw := range snp.parts {
		pm := pw.p.partMetadata
		if pm.MaxTimestamp < q.Min || pm.MinTimestamp > q.Max {
			continue
		}
		parts = append(parts, pw.p)
	}
	if len(parts) == 0 {
		return nil, nil
	}
	qo := queryOptions{minTimestamp: q.Min, maxTimestamp: q.Max, schemaTagTypes: map[string]pbv1.ValueType{}}
	nTags := 0
	for _, f := range schema {
		for _, t := range f.Tags {
			if vt := pbv1.TagValueSpecToValueType(t.Type); vt != pbv1.ValueTypeUnknown {
				qo.schemaTagTypes[t.Name] = vt
			}
		}
		if names := q.TagProj[f.Name]; len(names) > 0 {
			qo.TagProjection = append(qo.TagProjection, model.TagProjection{Family: f.Name, Names: names})
			nTags += len(names)
		}
	}
	for _, s := range q.Sids {
		qo.sortedSids = append(qo.sortedSids, common.SeriesID(s))
	}
	sort.Slice(qo.sortedSids, func(i, j int) bool { return qo.sortedSids[i] < qo.sortedSids[j] })
	qo.MaxElementSize = 1 << 30

	bma := generateBlockMetadataArray()
	defer releaseBlockMetadataArray(bma)
	ti := generateTstIter()
	defer releaseTstIter(ti)
	ti.init(bma, parts, qo.sortedSids, qo.minTimestamp, qo.maxTimestamp, nil)
	if ti.Error() != nil {
		return nil, ti.Error()
	}
	tmpBlock := generateBlock()
	defer releaseBlock(tmpBlock)
	bh := generateBlockCursorHeap(!q.Desc)
	defer releaseBlockCursorHeap(bh)
	for ti.nextBlock() {
		p := ti.piHeap[0]
		bc := generateBlockCursor()
		bc.init(p.p, p.curBlock, qo)
		tmpBlock.reset()
		if !bc.loadData(tmpBlock) {
			releaseBlockCursor(bc)
			continue
		}
		if q.Desc {
			bc.idx = len(bc.timestamps) - 1
		}
		bh.Push(bc)
	}
	if ti.Error() != nil {
		return nil, ti.Error()
	}
	var r *model.StreamResult
	if len(bh.bcc) == 1 {
		r = &model.StreamResult{}
		bh.bcc[0].copyAllTo(r, q.Desc)
	} else {
		heap.Init(bh)
		r = bh.merge(1 << 30)
	}
	got := 0
	for _, tf := range r.TagFamilies {
		got += len(tf.Tags)
	}
	if len(r.Timestamps) > 0 && got != nTags {
		return nil, fmt.Errorf("malformed result: %d tags, want %d", got, nTags)
	}
	for i := range r.Timestamps {
		o := C01Row{T: r.Timestamps[i], EID: r.ElementIDs[i]}
		if i < len(r.SIDs) {
			o.S = uint64(r.SIDs[i])
		}
		for _, tf := range r.TagFamilies {
			for _, t := range tf.Tags {
				if len(t.Values) != len(r.Timestamps) {
					return out, fmt.Errorf("malformed result tag %s.%s: %d values for %d elements", tf.Name, t.Name, len(t.Values), len(r.Timestamps))
				}
				o.Tags = append(o.Tags, t.Values[i])
			}
		}
		out = append(out, o)
	}
	return out, nil
}

// Close closes the table.
func (v *C01Table) Close() { _ = v.tst.Close() }
