//go:build verif

package stream

import "runtime"

// AckOrderProbe writes one batch and observes the introducer side of the acknowledgement: introducePart must publish
// the snapshot that contains the batch (replaceSnapshot, under tst.Lock) BEFORE it closes `applied`, the channel the
// writer waits on. The harness holds tst.RLock, lets the real introducePart run in its own goroutine until it is
// queued for the write lock (a pending writer makes TryRLock fail — no clock is involved) and then looks at `applied`
// and at the writer: if either has fired, a query issued after the acknowledgement could still pin the old snapshot.
func (v *C01Table) AckOrderProbe(schema []C01Family, els []C01Element) (early bool) {
	es := c01Elements(schema, els)
	w := c01Go(func() { v.tst.mustAddElements(es) })
	ind := <-v.tst.introductions
	v.tst.RLock()
	it := c01Go(func() {
		v.tst.introducePart(ind, v.epoch)
		v.epoch++
	})
	for queued := false; !queued; {
		if v.tst.TryRLock() {
			v.tst.RUnlock()
			select {
			case <-it.done: // finished without ever needing the write lock
				queued = true
			default:
				runtime.Gosched()
			}
			continue
		}
		queued = true
	}
	select {
	case <-ind.applied:
		early = true
	default:
	}
	select {
	case <-w.done:
		early = true
	default:
	}
	v.tst.RUnlock()
	it.wait()
	w.wait()
	return early
}
