//go:build verif

package stream

// C08 unit level: real memPart built block by block with the real block writer (so that per-block tag filters (.tff),
// dictionary-encoded columns and tag min/max are produced by the real code), probed through the real tagFamilyFilters
// (index.FilterOp) and the real partIter.findBlock with a real compiled skipping filter.

import (
	"fmt"

	"github.com/apache/skywalking-banyandb/api/common"
	databasev1 "github.com/apache/skywalking-banyandb/api/proto/banyandb/database/v1"
	modelv1 "github.com/apache/skywalking-banyandb/api/proto/banyandb/model/v1"
	"github.com/apache/skywalking-banyandb/pkg/index"
)

// VC08Tag is the name of the tag under test, VC08Family its tag family.
const (
	VC08Tag    = "t"
	VC08Family = "d"
)

// VC08Block is one block to be written: one series, element i at Ts[i] carrying Vals[i] in tag "t".
type VC08Block struct {
	Sid  uint64
	Ts   []int64
	Vals []*modelv1.TagValue
}

// VC08BlockID identifies a block of the part.
type VC08BlockID struct {
	Sid   uint64
	MinTs int64
	MaxTs int64
	Count uint64
}

// VC08Part is a real part in memory.
type VC08Part struct {
	mp  *memPart
	p   *part
	bms []blockMetadata
}

// VC08Build writes the blocks (in the given order: ascending series, ascending time) with the real blockWriter.
// indexed = the tag is covered by a skipping index rule (as the write path marks it).
func VC08Build(tagType databasev1.TagType, indexed bool, blocks []VC08Block) (vp *VC08Part, err error) {
	defer func() {
		if r := recover(); r != nil {
			err = fmt.Errorf("panic while building the part: %v", r)
		}
	}()
	mp := generateMemPart()
	mp.reset()
	bsw := generateBlockWriter()
	bsw.MustInitForMemPart(mp)
	eid := uint64(1)
	for _, b := range blocks {
		var ids []uint64
		var tfs [][]tagValues
		for i := range b.Ts {
			ids = append(ids, eid)
			eid++
			tv := encodeTagValue(VC08Tag, tagType, b.Vals[i])
			tv.indexed = indexed
			tfs = append(tfs, []tagValues{{tag: VC08Family, values: []*tagValue{tv}}})
		}
		bsw.MustWriteElements(common.SeriesID(b.Sid), b.Ts, ids, tfs)
	}
	bsw.Flush(&mp.partMetadata, &mp.tagType)
	releaseBlockWriter(bsw)
	vp = &VC08Part{mp: mp, p: openMemPart(mp)}
	// enumerate the blocks with an unfiltered iterator
	seen := map[uint64]bool{}
	var sids []common.SeriesID
	for _, b := range blocks {
		if !seen[b.Sid] {
			seen[b.Sid] = true
			sids = append(sids, common.SeriesID(b.Sid))
		}
	}
	bma := generateBlockMetadataArray()
	defer releaseBlockMetadataArray(bma)
	pi := &partIter{}
	pi.init(bma, vp.p, sids, -1<<62, 1<<62, nil)
	for pi.nextBlock() {
		var bm blockMetadata
		bm.copyFrom(pi.curBlock)
		vp.bms = append(vp.bms, bm)
	}
	if e := pi.error(); e != nil {
		return nil, e
	}
	if len(vp.bms) != len(blocks) {
		return nil, fmt.Errorf("wrote %d blocks, part lists %d", len(blocks), len(vp.bms))
	}
	return vp, nil
}

// Blocks lists the blocks in part order.
func (vp *VC08Part) Blocks() []VC08BlockID {
	var out []VC08BlockID
	for i := range vp.bms {
		out = append(out, VC08BlockID{uint64(vp.bms[i].seriesID), vp.bms[i].timestamps.min, vp.bms[i].timestamps.max, vp.bms[i].count})
	}
	return out
}

// WithFilterOp hands the real per-block FilterOp (tagFamilyFilters unmarshalled from the part) of block i to f.
func (vp *VC08Part) WithFilterOp(i int, f func(op index.FilterOp)) {
	tfs := generateTagFamilyFilters()
	defer releaseTagFamilyFilters(tfs)
	tfs.unmarshal(vp.bms[i].tagFamilies, vp.p.tagFamilyMetadata, vp.p.tagFamilyFilter, vp.p.tagFamilies)
	f(tfs)
}

// FilterKind reports which pruning structure block i carries for the tag: "bloom", "dict", "none" (+ "+minmax").
func (vp *VC08Part) FilterKind(i int) string {
	tfs := generateTagFamilyFilters()
	defer releaseTagFamilyFilters(tfs)
	tfs.unmarshal(vp.bms[i].tagFamilies, vp.p.tagFamilyMetadata, vp.p.tagFamilyFilter, vp.p.tagFamilies)
	for _, tff := range tfs.tagFamilyFilters {
		if tf, ok := (*tff)[VC08Tag]; ok {
			k := "none"
			switch tf.filter.(type) {
			case nil:
			default:
				k = fmt.Sprintf("%T", tf.filter)
			}
			if len(tf.min) > 0 || len(tf.max) > 0 {
				k += "+minmax"
			}
			return k
		}
	}
	return "absent"
}

// Select runs the real partIter (series list, time bounds, block filter) and returns the blocks it yields.
func (vp *VC08Part) Select(sids []uint64, minTs, maxTs int64, f index.Filter) (out []VC08BlockID, err error) {
	defer func() {
		if r := recover(); r != nil {
			err = fmt.Errorf("panic: %v", r)
		}
	}()
	ss := make([]common.SeriesID, len(sids))
	for i, s := range sids {
		ss[i] = common.SeriesID(s)
	}
	bma := generateBlockMetadataArray()
	defer releaseBlockMetadataArray(bma)
	pi := &partIter{}
	pi.init(bma, vp.p, ss, minTs, maxTs, f)
	for pi.nextBlock() {
		out = append(out, VC08BlockID{uint64(pi.curBlock.seriesID), pi.curBlock.timestamps.min, pi.curBlock.timestamps.max, pi.curBlock.count})
	}
	return out, pi.error()
}

// Release returns the part to its pool.
func (vp *VC08Part) Release() {
	releaseMemPart(vp.mp)
}
