//go:build verif

package stream

// In-package seam of /verif check C17, part-transfer phases, STREAM kind (the cluster phase's placement audit lives in
// c17.go). Same shape as inpkg/banyand/measure/c17.go: a real tsTable whose only background loop is the real
// introducer loop, the real sender step syncSnapshot, and the real part handler setUpChunkedSyncCallback over a stub
// TSDB / segment that hands out the one real table.

import (
	"fmt"
	"io"
	"sort"
	"strings"
	"sync/atomic"
	"time"

	"github.com/apache/skywalking-banyandb/api/common"
	databasev1 "github.com/apache/skywalking-banyandb/api/proto/banyandb/database/v1"
	"github.com/apache/skywalking-banyandb/banyand/internal/storage"
	"github.com/apache/skywalking-banyandb/banyand/protector"
	"github.com/apache/skywalking-banyandb/banyand/queue"
	"github.com/apache/skywalking-banyandb/pkg/convert"
	"github.com/apache/skywalking-banyandb/pkg/fs"
	"github.com/apache/skywalking-banyandb/pkg/logger"
	pbv1 "github.com/apache/skywalking-banyandb/pkg/pb/v1"
	"github.com/apache/skywalking-banyandb/pkg/run"
	resourceSchema "github.com/apache/skywalking-banyandb/pkg/schema"
	"github.com/apache/skywalking-banyandb/pkg/watcher"
)

// V17stRow is one element as written.
type V17stRow struct {
	Series uint64
	TS     int64
	EID    uint64
	Val    int64
}

// V17stTable is a real stream tsTable with the real introducer loop running (the write-queue variant with the sync
// channel for a sender, the data-node variant for a receiver); flush and sync are driven by the harness.
type V17stTable struct {
	tst       *tsTable
	flushCh   chan *flusherIntroduction
	mergeCh   chan *mergerIntroduction
	syncCh    chan *syncIntroduction
	Dir       string
	NF        int
	dead      chan struct{} // closed when the introducer loop goroutine died of a panic
	loopPanic string
	closed    bool
}

// V17stOpen opens (or recovers) a table at dir; nf = number of tag families per element. No element index: the part
// shipment does not carry it (index documents travel on their own topic).
func V17stOpen(dir string, nf int, sender bool) *V17stTable {
	lfs := fs.NewLocalFileSystem()
	lfs.MkdirIfNotExist(dir, 0o755)
	tst, epoch, err := initTSTable(lfs, dir, common.Position{}, logger.GetLogger("verif"),
		option{protector: protector.Nop{}, mergePolicy: newDefaultMergePolicyForTesting()}, nil, false)
	if err != nil {
		panic("initTSTable: " + err.Error())
	}
	if tst.snapshot == nil {
		epoch = 0x1000 // fresh table: the harness owns the clock
	}
	tst.loopCloser = run.NewCloser(1 + 1)
	tst.introductions = make(chan *introduction)
	tst.group = "g17"
	v := &V17stTable{
		tst: tst, Dir: dir, NF: nf,
		flushCh: make(chan *flusherIntroduction), mergeCh: make(chan *mergerIntroduction), syncCh: make(chan *syncIntroduction),
	}
	v.dead = make(chan struct{})
	go func() {
		// the shipped table starts its loops through run.Go: a panic kills the loop goroutine (logged), not the process
		defer func() {
			if p := recover(); p != nil {
				v.loopPanic = fmt.Sprint(p)
				close(v.dead)
			}
		}()
		if sender {
			tst.introducerLoopWithSync(v.flushCh, v.mergeCh, v.syncCh, make(watcher.Channel, 1), epoch+1)
		} else {
			tst.introducerLoop(v.flushCh, v.mergeCh, make(watcher.Channel, 1), epoch+1)
		}
	}()
	return v
}

// LoopDead is closed when the introducer loop goroutine has died of a panic; LoopPanic is the panic value then. From
// that moment nothing is introduced into this table any more: whoever waits for an introduction waits forever.
func (v *V17stTable) LoopDead() <-chan struct{} { return v.dead }

// LoopPanic is the panic that killed the introducer loop ("" while it is alive).
func (v *V17stTable) LoopPanic() string {
	select {
	case <-v.dead:
		return v.loopPanic
	default:
		return ""
	}
}

// Close is tsTable.Close.
func (v *V17stTable) Close() {
	if v.closed {
		return
	}
	v.closed = true
	_ = v.tst.Close()
}

func v17stSchema(nf int) []C01Family {
	var out []C01Family
	for f := 0; f < nf; f++ {
		out = append(out, C01Family{Name: fmt.Sprintf("f%d", f), Tags: []C01Tag{
			{Name: "s", Type: databasev1.TagType_TAG_TYPE_STRING}, {Name: "n", Type: databasev1.TagType_TAG_TYPE_INT},
		}})
	}
	return out
}

// Write adds one batch through the real mustAddElements (memory part, introducer loop applies it). Tag "n" of every
// family is an indexed int: the block writer adds a bloom filter for it, so the part has a .tff file per family.
func (v *V17stTable) Write(rows []V17stRow) {
	es := &elements{}
	for _, r := range rows {
		es.seriesIDs = append(es.seriesIDs, common.SeriesID(r.Series))
		es.timestamps = append(es.timestamps, r.TS)
		es.elementIDs = append(es.elementIDs, r.EID)
		var tfs []tagValues
		for f := 0; f < v.NF; f++ {
			tfs = append(tfs, tagValues{tag: fmt.Sprintf("f%d", f), values: []*tagValue{
				{tag: "s", valueType: pbv1.ValueTypeStr, value: []byte(fmt.Sprintf("s%d-%d-%d", f, r.Series, r.Val))},
				{tag: "n", valueType: pbv1.ValueTypeInt64, value: convert.Int64ToBytes(r.Val*10 + int64(f)), indexed: true},
			}})
		}
		es.tagFamilies = append(es.tagFamilies, tfs)
	}
	v.tst.mustAddElements(es)
}

// Flush is the real tsTable.flush on the current snapshot.
func (v *V17stTable) Flush() {
	snp := v.tst.currentSnapshot()
	if snp == nil {
		return
	}
	defer snp.decRef()
	v.tst.flush(snp, v.flushCh)
}

// V17stPart describes one part of the current snapshot.
type V17stPart struct {
	Path string
	ID   uint64
	Mem  bool
}

// Parts lists the parts of the current snapshot; epoch 0 = no snapshot.
func (v *V17stTable) Parts() (parts []V17stPart, epoch uint64) {
	snp := v.tst.currentSnapshot()
	if snp == nil {
		return nil, 0
	}
	defer snp.decRef()
	for _, pw := range snp.parts {
		p := V17stPart{ID: pw.ID(), Mem: pw.mp != nil}
		if pw.p != nil {
			p.Path = pw.p.path
		}
		parts = append(parts, p)
	}
	return parts, snp.epoch
}

// PartDir is the directory of a file part.
func (v *V17stTable) PartDir(id uint64) string { return partPath(v.tst.root, id) }

// Read returns every element of the given series as a canonical line, through the block read path of the
// time-ordered query (C01Table.Query: tstIter, blockCursor.loadData, heap merge).
func (v *V17stTable) Read(sids []uint64) (rows []string, err error) {
	proj := map[string][]string{}
	for f := 0; f < v.NF; f++ {
		proj[fmt.Sprintf("f%d", f)] = []string{"s", "n"}
	}
	got, err := (&C01Table{tst: v.tst}).Query(v17stSchema(v.NF), C01Query{TagProj: proj, Sids: sids, Min: 0, Max: 1 << 62})
	if err != nil {
		return nil, err
	}
	for _, r := range got {
		var sb strings.Builder
		fmt.Fprintf(&sb, "%d@%d#%d", r.S, r.T, r.EID)
		for _, t := range r.Tags {
			sb.WriteByte('|')
			sb.WriteString(strings.ReplaceAll(t.String(), " ", ""))
		}
		rows = append(rows, sb.String())
	}
	sort.Strings(rows)
	return rows, nil
}

// ---------------------------------------------------------------------------------------------------------------
// receiver side

type v17stGroup struct {
	resourceSchema.Group
	db io.Closer
}

func (g *v17stGroup) SupplyTSDB() io.Closer { return g.db }

type v17stRepo struct {
	resourceSchema.Repository
	h *V17stHandler
}

func (r *v17stRepo) LoadGroup(name string) (resourceSchema.Group, bool) {
	if name != r.h.Group {
		return nil, false
	}
	return &v17stGroup{db: &v17stTSDB{h: r.h}}, true
}

type v17stTSDB struct {
	storage.TSDB[*tsTable, option]
	h *V17stHandler
}

func (d *v17stTSDB) Close() error { return nil }

func (d *v17stTSDB) SegmentInterval() storage.IntervalRule {
	return storage.IntervalRule{Unit: storage.DAY, Num: 1}
}

func (d *v17stTSDB) Tick(int64) {}

func (d *v17stTSDB) CreateSegmentIfNotExist(time.Time) (storage.Segment[*tsTable, option], error) {
	atomic.AddInt64(&d.h.SegRefs, 1)
	return &v17stSeg{h: d.h}, nil
}

type v17stSeg struct {
	storage.Segment[*tsTable, option]
	h *V17stHandler
}

func (s *v17stSeg) DecRef() { atomic.AddInt64(&s.h.SegRefs, -1) }

func (s *v17stSeg) CreateTSTableIfNotExist(common.ShardID) (*tsTable, error) { return s.h.tab.tst, nil }

// V17stHandler is the stream part-sync handler of a data node bound to one table.
type V17stHandler struct {
	tab     *V17stTable
	cb      queue.ChunkedSyncHandler
	Group   string
	SegRefs int64 // segment pins currently held by sync contexts
}

// Handler returns the real chunked-sync handler (stream.setUpChunkedSyncCallback) writing into this table.
func (v *V17stTable) Handler() *V17stHandler {
	h := &V17stHandler{tab: v, Group: v.tst.group}
	sr := &schemaRepo{Repository: &v17stRepo{h: h}, l: logger.GetLogger("verif")}
	h.cb = setUpChunkedSyncCallback(logger.GetLogger("verif"), sr)
	return h
}

// Callback is the queue.ChunkedSyncHandler to register with the sub server.
func (h *V17stHandler) Callback() queue.ChunkedSyncHandler { return h.cb }

// ---------------------------------------------------------------------------------------------------------------
// sender side

type v17stClient struct {
	queue.Client
	mk func(node string, chunkSize uint32) (queue.ChunkedSyncClient, error)
}

func (c *v17stClient) NewChunkedSyncClient(node string, chunkSize uint32) (queue.ChunkedSyncClient, error) {
	return c.mk(node, chunkSize)
}

// SyncSnapshot runs the body of one syncLoop iteration: tsTable.syncSnapshot on the current snapshot.
func (v *V17stTable) SyncSnapshot(node string, mk func(node string, chunkSize uint32) (queue.ChunkedSyncClient, error)) (err error) {
	defer func() {
		if p := recover(); p != nil {
			err = fmt.Errorf("panic in syncSnapshot: %v", p)
		}
	}()
	v.tst.option.tire2Client = &v17stClient{mk: mk}
	v.tst.getNodes = func() []string { return []string{node} }
	snp := v.tst.currentSnapshot()
	if snp == nil {
		return nil
	}
	defer snp.decRef()
	return v.tst.syncSnapshot(snp, v.syncCh)
}

// V17stStreamName maps the stream-level file names of the sync protocol to the on-disk file names of a part.
func V17stStreamName(name string) string {
	switch {
	case name == streamMetaName:
		return metaFilename
	case name == streamPrimaryName:
		return primaryFilename
	case name == streamTimestampsName:
		return timestampsFilename
	case name == tagTypeFilename:
		return tagTypeFilename
	case strings.HasPrefix(name, streamTagFamiliesPrefix):
		return name[len(streamTagFamiliesPrefix):] + tagFamiliesFilenameExt
	case strings.HasPrefix(name, streamTagMetadataPrefix):
		return name[len(streamTagMetadataPrefix):] + tagFamiliesMetadataFilenameExt
	case strings.HasPrefix(name, streamTagFilterPrefix):
		return name[len(streamTagFilterPrefix):] + tagFamiliesFilterFilenameExt
	}
	return "?" + name
}

// SkipPartIDs advances the table's part-id counter by n, as n earlier flushes / merges would have: the next part gets
// id current+n+1 (round 2: sender parts whose id reads differently in decimal and in the 16-digit hex directory name).
func (v *V17stTable) SkipPartIDs(n uint64) { atomic.AddUint64(&v.tst.curPartID, n) }
